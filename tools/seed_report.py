#!/usr/bin/env python3
"""seeded/results.json and the table of DESIGN.md §10 from the matrix output(s).
usage: seed_report.py <matrix.jsonl> [<own-only.jsonl> ...]   (later files override earlier ones per (seed, check); the committed
seeded/results.json is the base, so that columns of earlier full matrices survive; seeds whose directory is gone are dropped)"""
import json
import os
import re
import sys

HERE = os.path.dirname(os.path.dirname(os.path.abspath(__file__)))
res = {}
try:
    for k, e in json.load(open(os.path.join(HERE, "seeded", "results.json"))).items():
        if os.path.isdir(os.path.join(HERE, "seeded", k)):
            res[k] = {"property": e["property"], "summary": e.get("summary"), "checks": e.get("checks", {})}
except (OSError, ValueError):
    pass
for path in sys.argv[1:]:
    for l in open(path):
        r = json.loads(l)
        if "results" not in r:
            continue
        pid, n = r["seed"].replace("seed_", "").split("/")
        key = f"{pid}-{n}"
        if not os.path.isdir(os.path.join(HERE, "seeded", key)):
            continue
        e = res.setdefault(key, {"property": r.get("property") or pid, "summary": r.get("summary"), "checks": {}})
        for c in r["results"]:
            e["checks"][c["check"]] = {"exit": c["exit"], "no_failing_input": c["nofail"], "wall_s": c["wall"],
                                       "first_line": (c["lines"][1].strip() if len(c["lines"]) > 1 else "")[:200]}
for k, e in res.items():
    e["caught_by"] = sorted(c for c, v in e["checks"].items() if v["exit"] == 1)
    e["caught_by_own_check"] = e["property"] in e["caught_by"]
    e["concrete_input_by"] = sorted(c for c, v in e["checks"].items() if v["exit"] == 1 and not v["no_failing_input"])
json.dump(res, open(os.path.join(HERE, "seeded", "results.json"), "w"), indent=1, sort_keys=True)

lines = ["| seeded change | what it does | own check | also caught by |", "|---|---|---|---|"]
for k in sorted(res):
    e = res[k]
    own = e["property"]
    v = e["checks"].get(own)
    if v is None:
        own_s = "not run"
    elif v["exit"] == 1:
        own_s = "caught" + (" (no failing input: obligation / tie)" if v["no_failing_input"] else " (concrete input)")
    else:
        own_s = "**missed**"
    others = [c for c in e["caught_by"] if c != own]
    lines.append(f"| {k} | {(e['summary'] or '')[:150]} | {own_s} | {', '.join(others) or '—'} |")
table = "\n".join(lines)
open(os.path.join(HERE, "seeded", "TABLE.md"), "w").write(table + "\n")
n = len(res)
own = sum(1 for e in res.values() if e["caught_by_own_check"])
print(f"{n} seeds, {own} caught by their own property's check, {sum(1 for e in res.values() if e['caught_by'])} caught by some check")
