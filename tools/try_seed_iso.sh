#!/bin/bash
# usage: tools/try_seed_iso.sh <seeded dir or patch> <check id>...   [ROOT=/tmp/seedrunA]
# applies the patch in an isolated worktree of /repo and runs the quick checks from a synced copy of /verif
ROOT=${ROOT:-/tmp/seedrunA}
patch=$1; shift
[ -d "$patch" ] && patch=$patch/patch.diff
[ "$patch" != "none" ] && patch=$(realpath "$patch")
mkdir -p $ROOT
[ -d $ROOT/repo ] || git -C /repo worktree add -f $ROOT/repo HEAD >/dev/null 2>&1
git -C $ROOT/repo checkout -q --detach $(git -C /repo rev-parse HEAD)
git -C $ROOT/repo checkout -- . ; git -C $ROOT/repo clean -fdq
rsync -a --delete --exclude .git --exclude replays --exclude evidence /verif/ $ROOT/verif/
mkdir -p $ROOT/verif/evidence
if [ "$patch" != "none" ]; then git -C $ROOT/repo apply "$patch" || { echo "patch does not apply"; exit 2; }; fi
for c in "$@"; do
  out=$(cd $ROOT/verif && PYAB_REPO=$ROOT/repo VERIF_SEED=${VERIF_SEED:-0} timeout 1500 ./check $c --tier ${TIER:-quick} 2>&1)
  code=$?
  echo "== $c exit=$code"
  echo "$out" | grep -E "VIOLATION|broken|correspondence|^  " | head -6 | cut -c1-300
done
git -C $ROOT/repo checkout -- . ; git -C $ROOT/repo clean -fdq
