#!/bin/bash
# usage: tools/try_seed.sh <patch.diff> <check id> [more check ids...]
# applies the patch to /repo, runs the listed quick checks, reverts the patch.
patch=$1; shift
cd /repo || exit 2
if ! git diff --quiet; then echo "/repo not clean"; exit 2; fi
git apply "$patch" || { echo "patch does not apply"; exit 2; }
trap 'git -C /repo checkout -- . ; git -C /repo clean -fdq src' EXIT
cd /verif
for c in "$@"; do
  out=$(VERIF_SEED=${VERIF_SEED:-0} timeout 1200 ./check $c --tier quick 2>&1)
  code=$?
  echo "== $c exit=$code"
  echo "$out" | grep -E "VIOLATION|KNOWN|broken|correspondence|^  " | head -8 | cut -c1-260
done
