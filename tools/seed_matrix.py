#!/usr/bin/env python3
"""Run every check against every seeded change, in an isolated copy of /verif and a scratch
worktree of /repo (so the real /repo and /verif are never touched).
usage: seed_matrix.py <out.jsonl> <seed_dir>...      (seed_dir holds patchN.diff / demoN.py / metaN.json)"""
import glob
import json
import os
import re
import shutil
import subprocess
import sys
import time

OWN_ONLY = "--own-only" in sys.argv
args = [a for a in sys.argv[1:] if a != "--own-only"]
OUT = args[0]
SEEDS = args[1:]
ROOT = os.environ.get("SEEDRUN_ROOT", "/tmp/seedrun")
SRC = os.environ.get("SEEDRUN_VERIF", "/verif")       # which state of the checks to run (default: the working tree)
CHECKS = ["C%02d" % i for i in range(1, 19)]


def sh(cmd, **kw):
    return subprocess.run(cmd, shell=True, capture_output=True, text=True, **kw)


def setup():
    os.makedirs(ROOT, exist_ok=True)
    if not os.path.exists(ROOT + "/repo"):
        sh(f"git -C /repo worktree add -f {ROOT}/repo HEAD")
    sh(f"git -C {ROOT}/repo checkout -q --detach $(git -C /repo rev-parse HEAD)")
    sh(f"rsync -a --delete --exclude .git --exclude replays --exclude evidence {SRC}/ {ROOT}/verif/")
    os.makedirs(ROOT + "/verif/evidence", exist_ok=True)


def run_check(c, seed):
    env = dict(os.environ, PYAB_REPO=ROOT + "/repo", VERIF_SEED=str(seed))
    t0 = time.time()
    try:
        p = subprocess.run([ROOT + "/verif/check", c, "--tier", "quick"], capture_output=True, text=True, env=env, timeout=1500, cwd=ROOT + "/verif")
        out = p.stdout + p.stderr
        code = p.returncode
    except subprocess.TimeoutExpired:
        out, code = "TIMEOUT", 2
    lines = [l for l in out.splitlines() if l.startswith("VIOLATION") or l.startswith("  ")]
    return {"check": c, "exit": code, "nofail": "no-failing-input-found" in out, "wall": round(time.time() - t0, 1), "lines": [l[:240] for l in lines[:4]]}


def main():
    setup()
    done = set()
    if os.path.exists(OUT):
        for l in open(OUT):
            try:
                done.add(json.loads(l)["seed"])
            except Exception:
                pass
    for sd in SEEDS:
        for patch in sorted(glob.glob(sd + "/patch*.diff")):
            if os.path.basename(patch) == "patch.diff":
                # layout of /verif/seeded/<Cxx-n>/: patch.diff, demo.py, meta.json
                pid, n = os.path.basename(sd.rstrip("/")).split("-")
                name = f"seed_{pid}/{n}"
                demo, metaf = f"{sd}/demo.py", f"{sd}/meta.json"
            else:
                n = re.search(r"patch(\d+)\.diff", patch).group(1)
                name = os.path.basename(sd.rstrip("/")) + "/" + n
                demo, metaf = f"{sd}/demo{n}.py", f"{sd}/meta{n}.json"
            if name in done:
                continue
            meta = {}
            try:
                meta = json.load(open(metaf))
            except Exception:
                pass
            sh(f"git -C {ROOT}/repo checkout -- . ; git -C {ROOT}/repo clean -fdq")
            a = sh(f"git -C {ROOT}/repo apply {patch}")
            if a.returncode != 0:
                rec = {"seed": name, "error": "patch does not apply: " + a.stderr[:200]}
            else:
                t = sh(f"cd {ROOT}/repo && /venv/bin/python -m pytest -q -p no:cacheprovider tests 2>&1 | tail -1").stdout.strip()
                d1 = sh(f"PYAB_SRC={ROOT}/repo/src /venv/bin/python {demo}").returncode
                own = meta.get("property") or os.path.basename(sd.rstrip("/")).split("_")[-1]
                order = [own] + ([] if OWN_ONLY else [c for c in CHECKS if c != own])
                res = [run_check(c, 0) for c in order]
                rec = {"seed": name, "property": meta.get("property"), "summary": meta.get("summary"), "tests": t, "demo_mutated": d1,
                       "caught_by": [r["check"] for r in res if r["exit"] == 1], "infra": [r["check"] for r in res if r["exit"] not in (0, 1)],
                       "results": res}
            sh(f"git -C {ROOT}/repo checkout -- . ; git -C {ROOT}/repo clean -fdq")
            with open(OUT, "a") as f:
                f.write(json.dumps(rec) + "\n")
            print(name, rec.get("caught_by"), rec.get("infra"), flush=True)


if __name__ == "__main__":
    main()
