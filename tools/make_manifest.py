#!/usr/bin/env python3
"""Write /verif/MANIFEST.json from the table below (kept in one place so it stays valid)."""
import json
import os

HERE = os.path.dirname(os.path.dirname(os.path.abspath(__file__)))
PROPS = [json.loads(l) for l in open(os.path.join(HERE, "properties.jsonl"))]

TB = ("Trusted base: Lean 4.33 kernel (axioms propext / Classical.choice / Quot.sound only; audited by #print axioms on every run); "
      "the statements in lean/Pyab/Properties and lean/Pyab/Spec; tools/translate.py (tables regenerated from /repo each run); the "
      "correspondence harness. Modelled, tied by correspondence only: CPython semantics of the generated fragment, binary64 "
      "rounding, MD5, sly runtime loops, pydantic coercions. Shared table obligations re-extracted each run: the package's own modules "
      "contain no assert/__debug__, no id(), no ambient imports (PurePremise); recompile's digest is a full digest of the exact text "
      "(EvaluatorPremise); the choice path writes only locals (ChoicePure). ")

CHECKS = {
    # id: (category, technique, text, note, design_ref)
    "C02": ("proof", "Lean 4 theorem (induction over the conditional AST) + table obligations by decide + differential correspondence",
            "C02_compiled_text_runs_as_spec (whatever the regenerated lexer/LR tables and compile checks accept runs as the reference meaning of "
            "the accepted experiment). Theorem C02_routing_correct: for every conditional, depth, predicate tree and environment, executing the emitted lines by "
            "Python's indentation/control-flow rules selects exactly the return statement of nested if/else-if/else, raises the unroutable "
            "error exactly when none is selected; the operator table, repr-rendering and tuple rendering of the real generator are "
            "re-checked by decide on tables regenerated from /repo; model and code are compared stage-wise (tokens, AST, generated text, "
            "outcome) on generated programs with one distinct label per return statement and literal-boundary inputs.",
            TB + "Parser completeness is a theorem for two renderings of every AST (see C07), otherwise tied by correspondence.", "6/C02"),
    "C03": ("proof", "Lean 4 theorems (bisect partition, exact interval rule for integer weights) + bit-exact correspondence",
            "Theorems C03_int_exact / C03_zero_never / C03_selectable / C03_share for every n, integer weight vector and h < 2^32 (exact rule); "
            "C03_float_partition / C03_float_zero_never for ANY non-negative binary64 weights (half-open intervals of the rounded cumulative "
            "sums in declared order, built on the proved monotonicity of the model's round-to-nearest-even); the Dbl model is compared "
            "bit-for-bit with CPython on cumulative sums and on the chosen index with the hash position substituted at every "
            "boundary-adjacent grid point, also through compiled experiments.",
            TB + "For decimal weights the equality with the real-valued rule holds to within one grid point per boundary (checked by the tie); "
                 "a zero-weighted LAST group can be selected when the total is subnormal (known finding K4, outside the stated range).", "6/C03"),
    "C06": ("proof", "Lean 4 theorems (lexer no-skip for any rule table; LR soundness for the dumped tables) + mutation correspondence",
            "C06_lex_no_skip: every character of an accepted text belongs to a token or trivia (generic in the rule tables, instantiated at "
            "the tables regenerated from /repo, whose error callbacks are shown to raise by decide); C06_parse_sound: a token list the code's "
            "own LR tables accept is a sentence of the documented grammar, whole input, one definition. Token-level mutants classified by an "
            "independent recogniser are run against the real compiler and the model.",
            TB + "sly's table construction is not modelled (its output is data); panic-mode recovery is not modelled: the obligation is that it is unreachable.", "6/C06"),
    "C07": ("proof", "Lean 4 theorems (codegen well-formedness, outcome classes) + sentence-generator correspondence",
            "C07_lex_complete: every admissible rendering of a token list (all 30 token kinds, identifiers that merely begin with a keyword "
            "included) lexes back to exactly those tokens, for the rule tables regenerated from /repo. For every AST: the emitted body is well indented, the parameter list has no duplicates, compile checks pass under PyNameOK, and the "
            "outcome is a group of the routed statement or the unroutable error; sentences of the reference grammar (keyword-prefixed identifiers, "
            "shared fields, tuples in tuples, deep nesting, long chains, 64 groups) are compiled and evaluated on the real code and the model. "
            "Parser completeness: C07_parse_complete_canonical and C07_parse_complete_minimal — for every well-formed AST the code's own LR tables "
            "parse its fully parenthesised AND its minimally parenthesised token rendering back to that AST (operator precedence and associativity "
            "as resolved in the dumped tables are a theorem); conversely C07_parser_output_well_formed: whatever the tables accept is a well-formed AST, so "
            "every accepted program re-prints to a text that parses back to the same AST; both renderings are also fed to the real lexer+parser.",
            TB + "Token lists with redundant parentheses beyond the two proved renderings are covered by correspondence; PyNameOK excludes the recorded finding family K1.", "6/C07"),
    "C10": ("proof", "Lean 4 theorems (monotone ramp over the interval rule and over the compiled index) + pairwise correspondence",
            "C10_scaling_invariant: scaling every weight by a power of two changes no choice in the normal range (rounding commutes with exact scaling). "
            "C10_monotone_ramp: for weight vectors ordered by prefix shares no unit moves to a later-declared group (any n, any h); lifted to the "
            "index the code returns for integer weights; ordered pairs and real unit ids are run on the real code.",
            TB + "For decimal weights with different totals a unit exactly on a boundary grid point may differ (stated in DESIGN.md 6/C10).", "6/C10"),
    "C11": ("proof", "Lean 4 refinement theorem (induction over operation histories) + history correspondence",
            "C11_refinement_history: for every history of new/recompile/call over any evaluators every output equals the 'last accepted text' "
            "specification (hypothesis: texts in the history have distinct digests; obligation: checksum stored after compilation, by decide on "
            "a behavioural probe of /repo); random histories are driven on real objects and compared with fresh evaluators and the model.",
            TB, "6/C11"),
    "C16": ("proof", "Lean 4 theorems (membership, weights≡cum_weights, unweighted≡equal ints, error table) + API correspondence",
            "Contract theorems about the model of deterministic_choice for every n, weights and position; the real function is driven with the "
            "position substituted, malformed combinations, deep-copied arguments and a substituted random source.",
            TB + "Purity of arguments is checked by the tie only; random.choices is stdlib behaviour.", "6/C16"),
    "C18": ("proof", "Lean 4 + Mathlib theorems over the reals + bit-exact correspondence of the Float instance",
            "All clauses over R for every n>=1, 0<=p<=1, 0<c<1 and both methods: lower<=upper, textbook formulas, narrowing with n, widening with "
            "confidence, symmetry, refusal of unknown methods, and probit >= the true normal quantile (Mathlib's Gaussian CDF). The generic "
            "definition instantiated at Lean Float is compared bit-for-bit with the Python functions on a grid.",
            TB + "Real-number theorems; binary64 behaviour is tied by correspondence and order checks on the grid, not proved.", "6/C18"),
}

CHECKS.update({
    "C01": ("proof", "Lean 4 theorems (history independence via the C11 refinement; key canonicity) + process-matrix correspondence",
            "C01_history_independent: along any history every call returns runText(last accepted text, env); C01_key_canonical: the hashed key "
            "depends only on the set of splitter names. One seeded history is replayed in child interpreters over PYTHONHASHSEED x locale x cwd x "
            "import order and every transcript must equal the Lean model's single pure function.",
            TB + "Partial in one named respect: CPython's own determinism (hashlib, str(), sorted) is trusted; process-level facts cannot appear in a theorem.", "6/C01"),
    "C04": ("other", "Lean 4 proof of the reduction to MD5 equidistribution + exact correspondence + labelled chi-square measurement",
            "Proved: group counts are a function of the multiset of hash positions, each group is a grid interval of length w_i/T·2^32 (±1 point), "
            "the whole key is hashed salt-first, and equidistribution of positions implies proportional counts. Every assignment of generated "
            "populations equals the published scheme exactly. The premise (MD5 equidistributes realistic ids; independence across salts) is measured "
            "by chi-square tests at 1e-9 — a statistical test, not a theorem.",
            TB + "The statistical premise cannot be discharged by a proof assistant; it is measured on every run.", "6/C04"),
    "C05": ("proof", "Lean 4 theorem (repr → Python literal scanner round-trip for every string) + literal-focused correspondence",
            "C05_string_roundtrip: for every string and every printable classification, the text repr() emits is read back by Python's literal "
            "scanner as exactly that string, consuming exactly that text (with Python's triple-quote corner stated explicitly). C05_float_repr_reads_back / "
            "C05_float_literal_reads_back: every finite binary64 value a DSL literal or weight can denote is printed by the model's repr (shortest-digit "
            "search, proved to succeed within 17 digits; fixed and exponent notation) as a text that the model of Python's number scanner reads back as "
            "that double. The Dbl model's decimal→double and repr are compared bit-for-bit with CPython; every literal position x adversarial content x "
            "confusable inputs is run on the real code.",
            TB + "That the model's repr / float() ARE CPython's is validated bit-for-bit, not proved; pydantic coercion mode is a probed flag.", "6/C05"),
    "C08": ("proof", "Lean 4 theorems over the regenerated lexer tables (order facts, trivia contributes no tokens) + metamorphic correspondence",
            "C08_trivia_prefix_invisible (any well-formed trivia sequence in front of any input is invisible to the lexer), C08_tokenStep (each of "
            "the 30 token kinds followed by a separator lexes as itself), C08_roundtrip and C08_trivia_invariant (two admissible renderings of the "
            "same tokens with different trivia lex identically) — proved for the rule tables regenerated from /repo, rules looked up by name. "
            "Trivia-variants of one token sequence must give equal ASTs and results on the real code and equal the model.",
            TB + "Lexer-level statement; equal token lists give equal parses because the parser consumes only tokens. A new keyword or a changed "
                 "regex shape in the rule table needs the proofs revisited.", "6/C08"),
    "C09": ("proof", "Lean 4 theorems (factorisation of the generated function; only declared fields are read; key injectivity) + metamorphic correspondence",
            "C09_factorisation / C09_only_declared_fields / C09_missing_field / C09_splitter_order_irrelevant / C09_key_varies_with_salt about "
            "the model of the generated function; pairs of calls / programs related by each transformation are run on the real code.",
            TB, "6/C09"),
    "C12": ("proof", "Lean 4 theorem (compiled position = published sentence) + three-way correspondence (code, Lean MD5, hashlib)",
            "C12_compiled_position_eq_published: the argument the generated program passes to the choice function, hashed as the code does, is "
            "MD5-first-32-bits of UTF-8(salt ++ str(values in sorted name order)); known-answer vectors pin the Lean MD5; whole evaluators are "
            "compared with an independent implementation of the sentence.",
            TB + "MD5 itself is modelled, pinned by RFC vectors and >= 4000 random keys per run.", "6/C12"),
    "C13": ("proof", "Lean 4 theorems (masked skeleton invariant under literal substitution; rendered literal is one token) + structural correspondence",
            "C13_text_of_replaced_strings (the generated TEXT with strings replaced is the same printed lines with only the repr renderings "
            "replaced), C13_skeleton_invariant and C13_literal_is_one_token (from the string round-trip); on the real generator the masked ast.dump must be "
            "identical across adversarial substitutions and equal to the masked dump of the model's text, and a sentinel planted in builtins must never run.",
            TB + "Python's full parser is not modelled: structure equality of real and model text is checked with Python's own ast on every case.", "6/C13"),
    "C14": ("proof", "Lean 4 theorem (both layouts route identically) + executed generate_code correspondence",
            "C14_layouts_equivalent: the emitted body at depth 1 and depth 2 executes to the same routed result (C02 at two depths); "
            "C14_text_is_rendered_lines: the module text compared character-for-character with the real generator is the printed form of those lines; "
            "generate_code(text, expose) for both layouts is exec'd in a fresh namespace and compared with the evaluator and the model.",
            TB + "black is outside the model: that it preserves the AST is checked on every case.", "6/C14"),
    "C15": ("proof", "Lean 4 theorems (totality of key construction and choice over the five value types) + value-type correspondence",
            "C15_total / C15_keyOf_total / C15_utf8_never_encode_error / C15_same_print_same_key; splitter and extra fields of all five types "
            "with extremes, under all salt kinds, on the real code and the model.",
            TB + "Guards stated explicitly: ints beyond CPython's 4300-digit limit and lone surrogates (finding family K3).", "6/C15"),
    "C17": ("proof", "Lean 4 interleaving theorems (all schedules) + effect table regenerated from /repo, by decide + threaded stress",
            "C17_noninterference / C17_publish_atomic(_two_writers) over an abstract shared-memory machine for every schedule and any number of "
            "threads; their hypotheses are discharged against the source: every write effect on the compile/evaluate paths is thread-local, the "
            "lexer and parser are allocated per call, recompile publishes with one store after building, no process-global setter is called. "
            "Search aids: systematic one-preemption schedules at line granularity in forked interpreters (harness/sched.py), 2..16 threads at 1 "
            "microsecond switch interval, long sources compiled concurrently in fresh child interpreters.",
            TB + "Partial: GIL atomicity of one attribute store/load, thread-safety of re/pydantic/exec/hashlib and soundness of the syntactic "
                 "effect extraction are assumptions; free-threaded CPython is out of scope.", "6/C17"),
})

NOT_YET = "check under construction (DESIGN.md section 10); model and correspondence exist, theorems being integrated"


def ready(pid):
    """claimed only when the check module exists and the property file holds real theorems"""
    import re
    mod = os.path.join(HERE, "harness", "props", pid.lower() + ".py")
    lean = os.path.join(HERE, "lean", "Pyab", "Properties", pid + ".lean")
    if not (os.path.exists(mod) and os.path.exists(lean)):
        return False
    src = open(lean).read()
    return bool(re.search(r"^theorem\s+(?!\S*_placeholder)", src, re.M)) or "import Pyab.Properties." in src


def main():
    checks = []
    for p in PROPS:
        pid = p["id"]
        if pid not in CHECKS or not ready(pid):
            continue
        cat, tech, text, note, ref = CHECKS[pid]
        checks.append({
            "property_id": pid,
            "quick_cmd": f"./check {pid} --tier quick",
            "thorough_cmd": f"./check {pid} --tier thorough",
            "evidence_file": f"evidence/{pid}.json",
            "replay_cmd_template": f"./check {pid} --replay {{path}}",
            "engine": "lean4-model+correspondence",
            "level_claimed": {"category": cat, "text": text, "design_ref": ref},
            "level_note": note,
            "technique": tech,
        })
    m = {
        "version": 1,
        "setup_cmd": "./setup.sh",
        "hooks": {"guard": "PYAB_VERIF",
                  "enable": "no source hooks are needed: the harness rebinds binning.deterministic_proba / random._inst.random at run time",
                  "baseline_off_cmd": "cd /repo && /venv/bin/python -m pytest -q -p no:cacheprovider tests",
                  "source_commits": [], "add_only": True},
        "engines": [{"name": "lean4-model+correspondence", "path": "lean/", "serves_properties": sorted(c for c in CHECKS if ready(c)),
                     "kind_free_text": "Lean 4 model + theorems (lean/Pyab), tables regenerated from /repo by tools/translate.py, "
                                       "differential correspondence harness (harness/) driving the compiled model (lean/Driver.lean)"}],
        "checks": checks,
        "not_applicable": [{"property_id": p["id"], "reason": NOT_YET} for p in PROPS
                           if p["id"] not in CHECKS or not ready(p["id"])],
        "notes": "Genuine defects found on the pinned tree were repaired by 'fix:' commits in /repo (see known_findings.json 'fixed'); "
                 "finding families recorded rather than repaired are listed under 'findings'.",
    }
    json.dump(m, open(os.path.join(HERE, "MANIFEST.json"), "w"), indent=1)
    print(len(checks), "checks")


if __name__ == "__main__":
    main()

# digests of the tables generated from the unchanged tree (harness/common.py: generated_changed)
import sys as _sys
_sys.path.insert(0, os.path.join(os.path.dirname(os.path.dirname(os.path.abspath(__file__))), "harness"))
import common as _common  # noqa: E402
json.dump(_common.generated_digests(), open(os.path.join(os.path.dirname(os.path.dirname(os.path.abspath(__file__))), "harness", "generated_baseline.json"), "w"), indent=1)
