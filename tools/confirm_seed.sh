#!/bin/bash
# usage: tools/confirm_seed.sh <pid> <n>  — confirm a seeded change in its scratch worktree /tmp/wt_<pid>
pid=$1; n=$2; wt=/tmp/wt_$pid; sd=/tmp/seed_$pid
git -C $wt checkout -- . ; git -C $wt clean -fdq
PYAB_SRC=$wt/src /venv/bin/python $sd/demo$n.py > /tmp/demo_clean.out 2>&1; c0=$?
git -C $wt apply $sd/patch$n.diff || { echo "patch does not apply"; exit 2; }
t=$(cd $wt && /venv/bin/python -m pytest -q -p no:cacheprovider tests 2>&1 | tail -1)
PYAB_SRC=$wt/src /venv/bin/python $sd/demo$n.py > /tmp/demo_mut.out 2>&1; c1=$?
git -C $wt checkout -- . ; git -C $wt clean -fdq
echo "$pid/$n: demo clean=$c0 mutated=$c1 tests: $t"
