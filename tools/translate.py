#!/venv/bin/python
"""Translator (T): /repo working tree -> lean/Pyab/Generated/*.lean

Everything here is *extracted from the code as it is now*: the lexer rule tables
(regexes converted through re._parser), Python's own character classes, the LR
tables sly built, the operator rendering table, pydantic union modes, and a
conservative write-effect summary of the compile / evaluate paths.

Run with the repo's interpreter:  /venv/bin/python tools/translate.py [outdir]
Files are only rewritten when their content changes (keeps lake's cache warm).
"""
import ast
import inspect
import json
import os
import re
import sys
import textwrap

REPO_SRC = os.environ.get("PYAB_SRC", "/repo/src")
sys.path.insert(0, REPO_SRC)

HERE = os.path.dirname(os.path.abspath(__file__))
OUT = sys.argv[1] if len(sys.argv) > 1 else os.path.join(HERE, "..", "lean", "Pyab", "Generated")

try:  # Python 3.11+
    import re._parser as sre_parse
    import re._constants as sre_c
except ImportError:  # pragma: no cover
    import sre_parse
    import sre_constants as sre_c


def lstr(s):
    """Lean string literal"""
    out = ['"']
    for ch in s:
        o = ord(ch)
        if ch == '"':
            out.append('\\"')
        elif ch == "\\":
            out.append("\\\\")
        elif ch == "\n":
            out.append("\\n")
        elif ch == "\t":
            out.append("\\t")
        elif ch == "\r":
            out.append("\\r")
        elif o < 32 or o == 127:
            out.append("\\x%02x" % o)
        else:
            out.append(ch)
    out.append('"')
    return "".join(out)


def write_if_changed(path, content):
    try:
        with open(path, encoding="utf-8") as f:
            if f.read() == content:
                return False
    except FileNotFoundError:
        pass
    os.makedirs(os.path.dirname(path), exist_ok=True)
    with open(path, "w", encoding="utf-8") as f:
        f.write(content)
    return True


# --------------------------------------------------------------------------
# regex -> Lean `Re`
# --------------------------------------------------------------------------

CAT = {
    sre_c.CATEGORY_DIGIT: "digit",
    sre_c.CATEGORY_NOT_DIGIT: "not_digit",
    sre_c.CATEGORY_SPACE: "space",
    sre_c.CATEGORY_NOT_SPACE: "not_space",
    sre_c.CATEGORY_WORD: "word",
    sre_c.CATEGORY_NOT_WORD: "not_word",
}


def re_seq(items):
    if not items:
        return ".eps"
    out = items[-1]
    for it in reversed(items[:-1]):
        out = f"(.seq {it} {out})"
    return out


def re_alt(items):
    out = items[-1]
    for it in reversed(items[:-1]):
        out = f"(.alt {it} {out})"
    return out


def conv_set(av):
    neg = False
    items = []
    for op, a in av:
        if op is sre_c.NEGATE:
            neg = True
        elif op is sre_c.LITERAL:
            items.append(f".chr {a}")
        elif op is sre_c.RANGE:
            items.append(f".range {a[0]} {a[1]}")
        elif op is sre_c.CATEGORY:
            if a not in CAT:
                return None
            items.append(f".cat {lstr(CAT[a])}")
        else:
            return None
    return "(.set [%s] %s)" % (", ".join(items), "true" if neg else "false")


def conv_re(parsed):
    items = []
    for op, av in parsed:
        if op is sre_c.LITERAL:
            items.append(f"(.lit {av})")
        elif op is sre_c.NOT_LITERAL:
            items.append(f"(.notLit {av})")
        elif op is sre_c.ANY:
            items.append(".any")
        elif op is sre_c.IN:
            s = conv_set(av)
            items.append(s if s else f"(.unsupported {lstr('set')})")
        elif op is sre_c.BRANCH:
            items.append(re_alt([conv_re(b) for b in av[1]]))
        elif op is sre_c.SUBPATTERN:
            group, add_flags, del_flags, p = av
            if add_flags or del_flags:
                items.append(f"(.unsupported {lstr('flags')})")
            else:
                items.append(conv_re(p))
        elif op in (sre_c.MAX_REPEAT, sre_c.MIN_REPEAT):
            lo, hi, p = av
            mx = "none" if hi is sre_c.MAXREPEAT else f"(some {hi})"
            greedy = "true" if op is sre_c.MAX_REPEAT else "false"
            items.append(f"(.rep {lo} {mx} {greedy} {conv_re(p)})")
        elif op is sre_c.AT:
            if av is sre_c.AT_BOUNDARY:
                items.append("(.boundary false)")
            elif av is sre_c.AT_NON_BOUNDARY:
                items.append("(.boundary true)")
            else:
                items.append(f"(.unsupported {lstr(str(av))})")
        elif op in (sre_c.ASSERT, sre_c.ASSERT_NOT):
            direction, p = av
            if direction != 1:
                items.append(f"(.unsupported {lstr('lookbehind')})")
            else:
                items.append(f"(.look {'true' if op is sre_c.ASSERT_NOT else 'false'} {conv_re(p)})")
        else:
            items.append(f"(.unsupported {lstr(str(op))})")
    return re_seq(items)


def regex_to_lean(pattern, flags=0):
    if flags:
        return f"(.unsupported {lstr('reflags')})"
    return conv_re(sre_parse.parse(pattern, flags))


# --------------------------------------------------------------------------
# lexer rules
# --------------------------------------------------------------------------


def classify_action(func, state_names):
    """Recognise what a rule function does from its AST."""
    try:
        src = textwrap.dedent(inspect.getsource(func))
        tree = ast.parse(src)
    except Exception as e:  # pragma: no cover
        return f'.unknown {lstr("nosource:" + type(e).__name__)}'
    fn = tree.body[0]
    body = [s for s in fn.body if not (isinstance(s, ast.Expr) and isinstance(s.value, ast.Constant))]
    dump = [ast.dump(s) for s in body]
    arg = fn.args.args[1].arg if len(fn.args.args) > 1 else "t"

    def is_return_t(s):
        return isinstance(s, ast.Return) and isinstance(s.value, ast.Name) and s.value.id == arg

    def assign_conv(s):
        # t.value = float(t.value) | int(t.value) | t.value[1:-1]
        if not (isinstance(s, ast.Assign) and len(s.targets) == 1):
            return None
        tg = s.targets[0]
        if not (isinstance(tg, ast.Attribute) and tg.attr == "value" and isinstance(tg.value, ast.Name) and tg.value.id == arg):
            return None
        v = s.value
        tv = ast.dump(ast.Attribute(value=ast.Name(id=arg, ctx=ast.Load()), attr="value", ctx=ast.Load()))
        if isinstance(v, ast.Call) and isinstance(v.func, ast.Name) and len(v.args) == 1 and not v.keywords and ast.dump(v.args[0]) == tv:
            if v.func.id == "float":
                return ".float"
            if v.func.id == "int":
                return ".int"
        if isinstance(v, ast.Subscript) and ast.dump(v.value) == tv and isinstance(v.slice, ast.Slice):
            sl = v.slice
            if (
                isinstance(sl.lower, ast.Constant) and sl.lower.value == 1 and sl.step is None
                and isinstance(sl.upper, ast.UnaryOp) and isinstance(sl.upper.op, ast.USub)
                and isinstance(sl.upper.operand, ast.Constant) and sl.upper.operand.value == 1
            ):
                return ".strip1"
        return None

    if len(body) == 1 and is_return_t(body[0]):
        return ".emit .raw"
    if len(body) == 2 and is_return_t(body[1]) and assign_conv(body[0]):
        return f".emit {assign_conv(body[0])}"
    if len(body) == 1 and isinstance(body[0], ast.Pass):
        return ".ignore"
    if len(body) == 1 and isinstance(body[0], ast.Expr) and isinstance(body[0].value, ast.Call):
        c = body[0].value
        if isinstance(c.func, ast.Attribute) and isinstance(c.func.value, ast.Name) and c.func.value.id == "self":
            if c.func.attr == "push_state" and len(c.args) == 1 and isinstance(c.args[0], ast.Name) and c.args[0].id in state_names:
                return f".push {state_names.index(c.args[0].id)}"
            if c.func.attr == "pop_state" and not c.args:
                return ".pop"
    # self.lineno += t.value.count("\n")   (bookkeeping only, returns None)
    if len(body) == 1 and isinstance(body[0], ast.AugAssign):
        tg = body[0].target
        if isinstance(tg, ast.Attribute) and tg.attr == "lineno" and isinstance(tg.value, ast.Name) and tg.value.id == "self":
            return ".ignore"
    return f'.unknown {lstr(";".join(dump)[:200])}'


def error_raises(cls):
    """Does cls.error(t) raise (True) or advance the index and continue (False)?"""
    func = cls.error
    try:
        src = textwrap.dedent(inspect.getsource(func))
        fn = ast.parse(src).body[0]
    except Exception:
        return False
    advances = False
    raises = False
    for node in ast.walk(fn):
        if isinstance(node, ast.Raise):
            raises = True
        if isinstance(node, (ast.AugAssign, ast.Assign)):
            tgs = [node.target] if isinstance(node, ast.AugAssign) else node.targets
            for tg in tgs:
                if isinstance(tg, ast.Attribute) and tg.attr == "index":
                    advances = True
    # unconditional raise as a top-level statement and no index manipulation
    top_raise = any(isinstance(s, ast.Raise) for s in fn.body)
    return bool(top_raise and not advances)


def gen_lexrules():
    from pyab_experiment.language import lexer as lexmod
    from pyab_experiment.sly.lex import LexerMeta

    main = lexmod.ExperimentLexer
    # all lexer state classes defined in the module, main first
    classes = [main] + [
        c for n, c in vars(lexmod).items()
        if isinstance(c, LexerMeta) and c is not main and c.__module__ == lexmod.__name__
    ]
    state_names = [c.__name__ for c in classes]
    lines = [
        "/- GENERATED by tools/translate.py from /repo — do not edit -/",
        "import Pyab.Model.Lexer",
        "import Pyab.Generated.CharClasses",
        "namespace Pyab.Generated",
        "open Pyab",
        "",
    ]
    summary = {"states": []}
    for si, cls in enumerate(classes):
        rules = []
        srules = []
        extra = []
        if cls.ignore:
            extra.append("ignore-chars")
        if cls.literals:
            extra.append("literals")
        if cls._remapping:
            extra.append("remap")
        if cls.regex_module is not re:
            extra.append("regex_module")
        for key, value in cls._rules:
            tokname = key[7:] if key.startswith("ignore_") else key
            pattern = value if isinstance(value, str) else getattr(value, "pattern")
            rx = regex_to_lean(pattern, cls.reflags)
            if tokname in cls._token_funcs:
                action = classify_action(cls._token_funcs[tokname], state_names)
                # an ignored token whose function returns the token is still dropped
                if tokname in cls._ignored_tokens and action.startswith(".emit"):
                    action = ".ignore"
            elif tokname in cls._ignored_tokens:
                action = ".ignore"
            else:
                action = ".emit .raw"
            if extra:
                action = f'.unknown {lstr(",".join(extra))}'
            rules.append(f"  ⟨{lstr(tokname)}, {rx}, {action}⟩")
            srules.append({"name": tokname, "pattern": pattern, "action": action})
        er = error_raises(cls)
        lines.append(f"def lexState{si} : LexState := ⟨{lstr(cls.__name__)}, [")
        lines.append(",\n".join(rules))
        lines.append(f"], {'true' if er else 'false'}⟩")
        lines.append("")
        summary["states"].append({"name": cls.__name__, "rules": srules, "errorRaises": er})
    # does parse_source insist that the lexer ends in its initial state?
    eof_req = eof_requires_initial()
    summary["eofRequiresInitial"] = eof_req
    lines.append(
        "def lexSpec : LexSpec := ⟨#[%s], charTables, %s⟩"
        % (", ".join(f"lexState{i}" for i in range(len(classes))), "true" if eof_req else "false")
    )
    lines.append("")
    lines.append("end Pyab.Generated")
    return "\n".join(lines) + "\n", summary


def probe_in_child(code):
    """run a behavioural probe in a fresh interpreter (a probe that feeds invalid text must not be
    able to disturb the other probes through state the package keeps between calls); the child
    prints True/False"""
    import subprocess
    src = "import sys; sys.path.insert(0, %r)\n" % REPO_SRC + textwrap.dedent(code)
    p = subprocess.run([sys.executable, "-c", src], capture_output=True, text=True, timeout=120)
    out = p.stdout.strip().splitlines()
    return bool(out) and out[-1] == "True"


def eof_requires_initial():
    """Is an unterminated block comment rejected?  Detected behaviourally on the real
    lexer+parser entry point with a probe that is otherwise a valid program."""
    return probe_in_child('''
        from pyab_experiment.utils.wraper_functions import parse_source
        try:
            r = parse_source('def e { return "a" weighted 1 } /* open')
            print(r is None)
        except Exception:
            print(True)
    ''')


# --------------------------------------------------------------------------
# character classes
# --------------------------------------------------------------------------


def ranges_of(pred):
    out = []
    start = None
    for c in range(0x110000):
        ok = pred(c)
        if ok and start is None:
            start = c
        elif not ok and start is not None:
            out.append((start, c - 1))
            start = None
    if start is not None:
        out.append((start, 0x10FFFF))
    return out


def gen_charclasses():
    import unicodedata
    cache = os.path.join(OUT, ".charclasses.%s.%s.json" % (sys.version_info[:3], unicodedata.unidata_version))
    data = None
    if os.path.exists(cache):
        try:
            data = json.load(open(cache))
        except Exception:
            data = None
    if data is None:
        rd, rs, rw = re.compile(r"\d"), re.compile(r"\s"), re.compile(r"\w")
        data = {
            "digit": ranges_of(lambda c: rd.fullmatch(chr(c)) is not None),
            "space": ranges_of(lambda c: rs.fullmatch(chr(c)) is not None),
            "word": ranges_of(lambda c: rw.fullmatch(chr(c)) is not None),
            "printable": ranges_of(lambda c: chr(c).isprintable()),
        }
        zeros = []
        for lo, hi in data["digit"]:
            for c in range(lo, hi + 1):
                if int(chr(c)) == 0:
                    zeros.append(c)
        data["digitZeros"] = zeros
        # sanity: every \d character's int() value is its offset from the preceding zero
        for lo, hi in data["digit"]:
            for c in range(lo, hi + 1):
                z = max(z for z in zeros if z <= c)
                assert int(chr(c)) == c - z and c - z < 10, hex(c)
        os.makedirs(OUT, exist_ok=True)
        json.dump(data, open(cache, "w"))

    def arr(rs):
        return "#[" + ", ".join(f"({a}, {b})" for a, b in rs) + "]"

    lines = [
        "/- GENERATED by tools/translate.py from CPython's `re` / `str` — do not edit -/",
        "import Pyab.Model.Regex",
        "namespace Pyab.Generated",
        "open Pyab",
        "",
        f"def digitRanges : Array (Nat × Nat) := {arr(data['digit'])}",
        f"def spaceRanges : Array (Nat × Nat) := {arr(data['space'])}",
        f"def wordRanges : Array (Nat × Nat) := {arr(data['word'])}",
        f"def printableRanges : Array (Nat × Nat) := {arr(data['printable'])}",
        "def digitZeros : Array Nat := #[" + ", ".join(map(str, data["digitZeros"])) + "]",
        "def charTables : CharTables := ⟨digitRanges, spaceRanges, wordRanges, digitZeros⟩",
        "",
        "end Pyab.Generated",
    ]
    return "\n".join(lines) + "\n", {k: len(v) for k, v in data.items()}


# --------------------------------------------------------------------------
# LR tables
# --------------------------------------------------------------------------


def parser_error_raises():
    from pyab_experiment.language.grammar import ExperimentParser
    from pyab_experiment.sly.yacc import Parser
    func = ExperimentParser.error
    if func is Parser.error:
        return False
    try:
        fn = ast.parse(textwrap.dedent(inspect.getsource(func))).body[0]
    except Exception:
        return False
    # every path through the body ends in a raise: accept the simple shapes only
    def always_raises(stmts):
        if not stmts:
            return False
        last = stmts[-1]
        if isinstance(last, ast.Raise):
            return True
        if isinstance(last, ast.If):
            return always_raises(last.body) and always_raises(last.orelse)
        return False
    return always_raises(fn.body)


def gen_lrtables():
    from pyab_experiment.language.grammar import ExperimentParser as P
    from pyab_experiment.data_structures import syntax_tree as st
    from pyab_experiment.utils.wraper_functions import parse_source

    tab = P._lrtable
    prods = P._grammar.Productions
    nstates = max(list(tab.lr_action.keys()) + list(tab.lr_goto.keys())) + 1

    def smart(cls):
        return bool(getattr(getattr(cls, "__config__", None), "smart_union", False))

    # is an inner tuple of the language a Python tuple in the AST?
    tuple_is_tuple = False
    try:
        a = parse_source('def e { if x in ((1, 2), (3, 4)) { return "a" weighted 1 } }')
        rt = a.conditions.predicate.right_term
        tuple_is_tuple = isinstance(rt, tuple) and all(isinstance(t, tuple) for t in rt)
    except Exception:
        tuple_is_tuple = False

    weight_to_float = False
    try:
        a = parse_source('def e { return "a" weighted 3 }')
        weight_to_float = type(a.conditions[0].group_weight) is float
    except Exception:
        pass

    lines = [
        "/- GENERATED by tools/translate.py from /repo — do not edit -/",
        "import Pyab.Model.Parser",
        "namespace Pyab.Generated",
        "open Pyab",
        "",
        "def lrProds : Array Prod := #[",
    ]
    lines.append(",\n".join(
        "  ⟨%s, [%s]⟩" % (lstr(p.name), ", ".join(lstr(x) for x in p.prod)) for p in prods
    ))
    lines.append("]")
    lines.append("")
    lines.append("def lrAction : Array (List (String × Int)) := #[")
    rows = []
    for s in range(nstates):
        row = tab.lr_action.get(s, {})
        rows.append("  [" + ", ".join("(%s, %d)" % (lstr(k), v) for k, v in sorted(row.items())) + "]")
    lines.append(",\n".join(rows))
    lines.append("]")
    lines.append("")
    lines.append("def lrGoto : Array (List (String × Nat)) := #[")
    rows = []
    for s in range(nstates):
        row = tab.lr_goto.get(s, {})
        rows.append("  [" + ", ".join("(%s, %d)" % (lstr(k), v) for k, v in sorted(row.items())) + "]")
    lines.append(",\n".join(rows))
    lines.append("]")
    lines.append("")
    lines.append("def lrDefaulted : List (Nat × Int) := [" + ", ".join(
        "(%d, %d)" % (k, v) for k, v in sorted(tab.defaulted_states.items())) + "]")
    lines.append("")
    er = parser_error_raises()
    flags = {
        "errorRaises": er,
        "smartUnionTerm": smart(st.TerminalPredicate),
        "smartUnionGroup": smart(st.ExperimentGroup),
        "tupleIsTuple": tuple_is_tuple,
        "weightToFloat": weight_to_float,
    }
    b = lambda x: "true" if x else "false"
    lines.append("def lrTables : LRTables := ⟨lrAction, lrGoto, lrDefaulted, lrProds, %s, %s, %s, %s, %s⟩" % (
        b(flags["errorRaises"]), b(flags["smartUnionTerm"]), b(flags["smartUnionGroup"]), b(flags["tupleIsTuple"]),
        b(flags["weightToFloat"])))
    lines.append("")
    lines.append("end Pyab.Generated")
    summ = dict(flags)
    summ.update(states=nstates, productions=len(prods),
                actions=sum(len(v) for v in tab.lr_action.values()),
                sr_conflicts=len(getattr(tab, "sr_conflicts", [])), rr_conflicts=len(getattr(tab, "rr_conflicts", [])))
    return "\n".join(lines) + "\n", summ


# --------------------------------------------------------------------------
# code generator facts (behavioural probes of the real generator) + operator table
# --------------------------------------------------------------------------


def gen_config():
    import hashlib
    from pyab_experiment.codegen.python.python_generator import PythonCodeGen
    from pyab_experiment.data_structures import syntax_tree as st
    from pyab_experiment.utils.wraper_functions import parse_source
    from pyab_experiment.binning import binning

    def gen(text, expose=False):
        return PythonCodeGen(parse_source(text), expose_experiment_variant_function=expose).generate()

    # operator table, behaviourally: compile a probe per operator and read the operator text out of the
    # generated predicate (robust against renaming / restructuring of the generator's internals)
    spell = {"EQ": "==", "GT": ">", "LT": "<", "GE": ">=", "LE": "<=", "NE": "!=", "IN": "in", "NOT_IN": "not in"}
    ops = []
    for name, dsl in spell.items():
        rhs = "(1, 2)" if name in ("IN", "NOT_IN") else "1"
        try:
            out = gen('def e { if zq %s %s { return "a" weighted 1 } }' % (dsl, rhs))
            line = [l for l in out.splitlines() if l.strip().startswith("if ")][0]
            m = re.search(r"\(zq (.+?) (?:1|\(1, 2\))\)", line)
            ops.append((name, m.group(1) if m else "<unparsed>"))
        except Exception as ex:  # pragma: no cover
            ops.append((name, "<error:%s>" % type(ex).__name__))
    for name, dsl in (("AND", "zq == 1 and zr == 2"), ("OR", "zq == 1 or zr == 2"), ("NOT", "not zq == 1")):
        try:
            out = gen('def e { if %s { return "a" weighted 1 } }' % dsl)
            line = [l for l in out.splitlines() if l.strip().startswith("if ")][0]
            if name == "NOT":
                m = re.search(r"\((\w+) \(zq == 1\)\)", line)
            else:
                m = re.search(r"\(zq == 1\) (\w+) \(zr == 2\)", line)
            ops.append((name, m.group(1) if m else "<unparsed>"))
        except Exception as ex:  # pragma: no cover
            ops.append((name, "<error:%s>" % type(ex).__name__))

    s1 = "p'q\\r"   # contains a quote and a backslash
    flags = {}
    try:
        out = gen('def e { salt: "%s" splitters: u if x == "%s" { return "a" weighted 1 } }' % (s1, s1))
        body = out.split("DO NOT MODIFY", 1)[-1]
        call_line = [l for l in body.splitlines() if "choose_experiment_variant(" in l and "return" in l][0]
        if_line = [l for l in body.splitlines() if l.strip().startswith("if ")][0]
        # (the key may be built on the call line or on a line of its own: any line other than the `if` line)
        flags["strReprSalt"] = repr(s1) in call_line or any(repr(s1) in l for l in body.splitlines() if not l.strip().startswith(("if ", "elif ")))
        flags["strReprTerm"] = repr(s1) in if_line
    except Exception:
        flags["strReprSalt"] = False
        flags["strReprTerm"] = False
    try:
        out = gen('def e { splitters: a, b if a == 1 { return "a" weighted 1 } }')
        sig = [l for l in out.splitlines() if l.startswith("def e(")][0]
        params = [x.strip() for x in sig[sig.index("(") + 1: sig.rindex(")")].split(",")]
        flags["dedupSig"] = len(params) == len(set(params))
    except Exception:
        flags["dedupSig"] = False
    try:
        out = gen('def e { if x in (y, (1, 2)) { return "a" weighted 1 } }')
        flags["tupleRecursive"] = "(y, (1, 2))" in out
    except Exception:
        flags["tupleRecursive"] = False
    try:
        flags["keyUtf8"] = all(binning.deterministic_proba(k) == int(hashlib.md5(k.encode("utf-8")).hexdigest()[:8], 16) / 2 ** 32
                               for k in ("\u00e9\u4e2d", "\u00e9", "Jos\u00e9", "\u00ff\u0080", "\u00b5", "a", "", "\U0001d400x", "\ufeff", "x" * 70))
    except Exception:
        flags["keyUtf8"] = False

    # is a failed recompile remembered as "already compiled"?  (checksum stored before compiling)
    # the source is identified by a collision-resistant digest of its exact text
    flags["checksumCollisionResistant"] = probe_in_child('''
        import hashlib, io, contextlib
        from pyab_experiment.experiment_evaluator import ExperimentEvaluator
        # runs of blanks, a tab, comment markers and a hash sign INSIDE literals, mixed case, characters that are not in NFC /
        # NFKC form, a `//` comment, a block comment, trailing white space, a blank line, CRLF
        texts = ['def e {  return "a  b" weighted 1 } // \\u00e9',
                 'def Exp_1 {\\r\\n  salt: "https://cdn.example/a\\tb  # c /* d */ e\\u0301 \\u212b \\ufb01"  \\n\\n  splitters: u, V\\n'
                 '  if V == "New  York " { return "A" weighted 1, "a" weighted 2.50 } /* x\\n y */ else { return "z" weighted 1 } // t \\n}  \\n\\n']
        ok = True
        for t in texts:
            with contextlib.redirect_stdout(io.StringIO()), contextlib.redirect_stderr(io.StringIO()):
                ev = ExperimentEvaluator(t)
            c = ev._checksum
            b = t.encode("utf-8")
            fam = [getattr(hashlib, n)(b) for n in ("md5", "sha1", "sha224", "sha256", "sha384", "sha512", "blake2b", "blake2s", "sha3_256", "sha3_512")]
            ok = ok and any(c in (h.hexdigest(), h.digest()) for h in fam)
        # a text with a character that has no UTF-8 encoding is not quietly digested without it
        try:
            with contextlib.redirect_stdout(io.StringIO()), contextlib.redirect_stderr(io.StringIO()):
                ev = ExperimentEvaluator(texts[0])
                ev.recompile(texts[0] + "\\udc80")
            ok = False
        except Exception:
            pass
        print(ok)
    ''')
    flags["checksumEarly"] = not probe_in_child('''
        import io, contextlib
        from pyab_experiment.experiment_evaluator import ExperimentEvaluator
        with contextlib.redirect_stdout(io.StringIO()), contextlib.redirect_stderr(io.StringIO()):
            ev = ExperimentEvaluator('def e { return "a" weighted 1 }')
            bad = 'def e { return "a" weighted }'
            first = second = False
            try:
                ev.recompile(bad)
            except Exception:
                first = True
            try:
                ev.recompile(bad)
            except Exception:
                second = True
        print(first and second)
    ''')

    b = lambda x: "true" if x else "false"
    lines = [
        "/- GENERATED by tools/translate.py from /repo — do not edit -/",
        "import Pyab.Model.PyExec",
        "import Pyab.Generated.CharClasses",
        "namespace Pyab.Generated",
        "open Pyab",
        "",
        "def opTable : List (String × String) := [" + ", ".join("(%s, %s)" % (lstr(a), lstr(b_)) for a, b_ in ops) + "]",
        "",
        "def isPrintable (c : Nat) : Bool := inRanges printableRanges c",
        "",
        "def genCfg : GenCfg := ⟨opTable, %s, %s, %s, %s, isPrintable⟩" % (
            b(flags["strReprTerm"]), b(flags["strReprSalt"]), b(flags["dedupSig"]), b(flags["tupleRecursive"])),
        "def runCfg : RunCfg := ⟨genCfg, %s⟩" % b(flags["keyUtf8"]),
        "def checksumEarly : Bool := %s" % b(flags["checksumEarly"]),
        "def checksumCollisionResistant : Bool := %s" % b(flags["checksumCollisionResistant"]),
        "",
        "end Pyab.Generated",
    ]
    summ = dict(flags)
    summ["opTable"] = ops
    return "\n".join(lines) + "\n", summ


# --------------------------------------------------------------------------
# write effects of the compile / evaluate paths (C17)
# --------------------------------------------------------------------------

MUTATORS = {"append", "extend", "insert", "pop", "remove", "clear", "add", "update", "discard", "setdefault", "popitem",
            "sort", "reverse", "__setitem__", "__delitem__", "appendleft", "popleft"}


# calls whose whole point is to change state shared by every thread of the process
PROCESS_SETTERS = {
    "sys": {"setrecursionlimit", "setswitchinterval", "settrace", "setprofile", "set_int_max_str_digits", "setdlopenflags", "set_asyncgen_hooks",
            "set_coroutine_origin_tracking_depth", "setcheckinterval"},
    "signal": {"signal", "alarm", "setitimer", "siginterrupt", "set_wakeup_fd", "pthread_sigmask"},
    "os": {"chdir", "fchdir", "umask", "putenv", "unsetenv", "setuid", "setgid", "nice", "chroot", "setsid"},
    "locale": {"setlocale"}, "random": {"seed", "setstate"}, "gc": {"disable", "enable", "set_threshold", "freeze", "set_debug"},
    "warnings": {"simplefilter", "filterwarnings", "resetwarnings"}, "logging": {"basicConfig", "disable", "setLoggerClass", "setLogRecordFactory"},
    "threading": {"settrace", "setprofile", "stack_size"}, "resource": {"setrlimit"}, "decimal": {"setcontext"}, "faulthandler": {"enable", "disable"},
    "tracemalloc": {"start", "stop"}, "socket": {"setdefaulttimeout"}, "time": {"tzset"}, "importlib": {"reload", "invalidate_caches"},
    "atexit": {"register", "unregister"}, "multiprocessing": {"set_start_method"}, "tempfile": {"tempdir"},
}
PROCESS_SETTER_NAMES = set().union(*PROCESS_SETTERS.values())


class EffectVisitor(ast.NodeVisitor):
    """Conservative syntactic classification of every write a function performs.
    kinds: local | nonlocal | self-attr | fresh-object | param-object | global | class-attr | module-attr | unknown"""

    def __init__(self, fname, fn, module_names, enclosing_locals=(), class_mutables=()):
        self.fname = fname
        self.class_mutables = set(class_mutables)     # names bound at class level to a mutable container (shared by all instances)
        self.alias = {}                               # local name -> kind of the object it was looked up from
        self.effects = []
        self.module_names = module_names
        self.params = {a.arg for a in fn.args.args + fn.args.kwonlyargs + fn.args.posonlyargs}
        if fn.args.vararg:
            self.params.add(fn.args.vararg.arg)
        if fn.args.kwarg:
            self.params.add(fn.args.kwarg.arg)
        self.globals_decl, self.nonlocals_decl = set(), set()
        self.assigned, self.fresh = set(), set()
        self.enclosing = set(enclosing_locals)
        self.fn = fn
        for node in ast.walk(fn):
            if isinstance(node, ast.Global):
                self.globals_decl.update(node.names)
            elif isinstance(node, ast.Nonlocal):
                self.nonlocals_decl.update(node.names)
        for node in self._own_nodes(fn):
            if isinstance(node, (ast.Assign, ast.AnnAssign, ast.AugAssign)):
                tgs = node.targets if isinstance(node, ast.Assign) else [node.target]
                for tg in tgs:
                    for n in ast.walk(tg):
                        if isinstance(n, ast.Name) and isinstance(n.ctx, ast.Store):
                            self.assigned.add(n.id)
                            v = getattr(node, "value", None)
                            if isinstance(v, (ast.List, ast.Dict, ast.Set, ast.ListComp, ast.DictComp, ast.SetComp, ast.Tuple)):
                                self.fresh.add(n.id)
                            elif isinstance(v, ast.Call):
                                f = v.func
                                looked_up = isinstance(f, ast.Attribute) and f.attr in ("get", "setdefault", "pop", "popitem", "__getitem__", "copy_ref", "values", "items", "keys")
                                if looked_up:
                                    # the result of a lookup IS (part of) the container it was looked up in: not a fresh object
                                    self.alias[n.id] = f.value
                                else:
                                    self.fresh.add(n.id)
                            elif isinstance(v, (ast.Subscript, ast.Attribute)):
                                self.alias[n.id] = v.value if isinstance(v, ast.Subscript) else v
            elif isinstance(node, (ast.For, ast.comprehension)):
                for n in ast.walk(node.target):
                    if isinstance(n, ast.Name):
                        self.assigned.add(n.id)
            elif isinstance(node, (ast.With,)):
                for it in node.items:
                    if it.optional_vars is not None:
                        for n in ast.walk(it.optional_vars):
                            if isinstance(n, ast.Name):
                                self.assigned.add(n.id)

    def _own_nodes(self, fn):
        """nodes of fn, not descending into nested function definitions"""
        todo = list(fn.body)
        while todo:
            n = todo.pop()
            yield n
            for c in ast.iter_child_nodes(n):
                if not isinstance(c, (ast.FunctionDef, ast.AsyncFunctionDef, ast.Lambda, ast.ClassDef)):
                    todo.append(c)

    def base_kind(self, node):
        """classify the object a write goes through"""
        if isinstance(node, ast.Name):
            n = node.id
            if n == "self":
                return "self-attr"
            if n in ("cls",):
                return "class-attr"
            if n in self.globals_decl:
                return "global"
            if n in self.nonlocals_decl:
                return "nonlocal"
            if n in self.alias and n not in self.fresh and n not in self.params:
                src = self.alias[n]
                del_guard = self.alias.pop(n)          # (no cycles)
                try:
                    return self.base_kind(src)
                finally:
                    self.alias[n] = del_guard
            if n in self.assigned and n not in self.params:
                return "fresh-object" if n in self.fresh else "local-object"
            if n in self.params:
                return "param-object"
            if n in self.enclosing:
                return "nonlocal"
            if n in self.module_names:
                return "module-attr"
            return "unknown"
        if isinstance(node, ast.Attribute):
            if isinstance(node.value, ast.Name) and node.value.id in ("self", "cls") and node.attr in self.class_mutables:
                return "class-attr"                    # reached through the instance, but it lives on the class
            b = self.base_kind(node.value)
            return b
        if isinstance(node, ast.Subscript):
            return self.base_kind(node.value)
        if isinstance(node, ast.Call):
            f = node.func
            if isinstance(f, ast.Name) and f.id == "type":
                return "class-attr"
            return "fresh-object"
        return "unknown"

    def record(self, kind, target):
        self.effects.append((self.fname, kind, target))

    def write_target(self, tg):
        if isinstance(tg, ast.Name):
            n = tg.id
            if n in self.globals_decl:
                self.record("global", n)
            elif n in self.nonlocals_decl:
                self.record("nonlocal", n)
            else:
                self.record("local", n)
        elif isinstance(tg, ast.Attribute):
            self.record(self.base_kind(tg.value), ast.unparse(tg)[:60])
        elif isinstance(tg, ast.Subscript):
            self.record(self.base_kind(tg.value), ast.unparse(tg)[:60])
        elif isinstance(tg, (ast.Tuple, ast.List)):
            for e in tg.elts:
                self.write_target(e)
        elif isinstance(tg, ast.Starred):
            self.write_target(tg.value)
        else:
            self.record("unknown", ast.unparse(tg)[:60])

    def run(self):
        for node in self._own_nodes(self.fn):
            if isinstance(node, ast.Assign):
                for tg in node.targets:
                    self.write_target(tg)
            elif isinstance(node, (ast.AugAssign, ast.AnnAssign)):
                if not (isinstance(node, ast.AnnAssign) and node.value is None):
                    self.write_target(node.target)
            elif isinstance(node, ast.Delete):
                for tg in node.targets:
                    self.write_target(tg)
            elif isinstance(node, ast.Call):
                f = node.func
                if isinstance(f, ast.Attribute) and f.attr in MUTATORS:
                    self.record(self.base_kind(f.value), ast.unparse(f)[:60])
                elif isinstance(f, ast.Name) and f.id in ("setattr", "delattr") and node.args:
                    self.record(self.base_kind(node.args[0]), ast.unparse(node)[:60])
                elif isinstance(f, ast.Attribute) and isinstance(f.value, ast.Name) and f.attr in PROCESS_SETTERS.get(f.value.id, ()):
                    self.record("process-global", ast.unparse(f)[:60])
                elif isinstance(f, ast.Name) and f.id in PROCESS_SETTER_NAMES and f.id in self.module_names and f.id not in self.assigned:
                    # `from sys import setrecursionlimit`
                    self.record("process-global", f.id)
                elif (isinstance(f, ast.Attribute) and isinstance(f.value, ast.Attribute) and isinstance(f.value.value, ast.Name)
                      and f.value.value.id == "os" and f.value.attr == "environ" and f.attr in MUTATORS):
                    self.record("process-global", ast.unparse(f)[:60])
            elif isinstance(node, ast.Subscript) and isinstance(node.ctx, (ast.Store, ast.Del)) and ast.unparse(node.value) in ("os.environ", "sys.modules", "sys.path"):
                self.record("process-global", ast.unparse(node)[:60])
        return self.effects


def function_effects(qualname, func, module):
    try:
        src = textwrap.dedent(inspect.getsource(func))
        tree = ast.parse(src)
    except Exception as ex:  # noqa
        return [(qualname, "unknown", "nosource:" + type(ex).__name__)]
    fn = tree.body[0]
    if not isinstance(fn, (ast.FunctionDef, ast.AsyncFunctionDef)):
        return [(qualname, "unknown", "not-a-function")]
    module_names = set(vars(module)) if module else set()
    out = []
    # names bound in the body of the class (and its bases in this package) to a mutable container: shared by every instance
    class_mutables = set()
    owner = getattr(module, qualname.split(".")[0], None) if module and "." in qualname else None
    if inspect.isclass(owner):
        for klass in owner.__mro__:
            if klass is object:
                continue
            try:
                ctree = ast.parse(textwrap.dedent(inspect.getsource(klass))).body[0]
            except Exception:  # noqa
                continue
            for st in ctree.body:
                tg, val = None, None
                if isinstance(st, ast.Assign) and len(st.targets) == 1 and isinstance(st.targets[0], ast.Name):
                    tg, val = st.targets[0].id, st.value
                elif isinstance(st, ast.AnnAssign) and isinstance(st.target, ast.Name) and st.value is not None:
                    tg, val = st.target.id, st.value
                if tg and isinstance(val, (ast.Dict, ast.List, ast.Set, ast.ListComp, ast.DictComp, ast.SetComp, ast.Call)):
                    class_mutables.add(tg)

    def visit(f, name, enclosing):
        v = EffectVisitor(name, f, module_names, enclosing, class_mutables)
        out.extend(v.run())
        inner_enclosing = set(enclosing) | v.assigned | v.params
        for node in v._own_nodes(f):
            for c in ast.iter_child_nodes(node):
                if isinstance(c, (ast.FunctionDef, ast.AsyncFunctionDef)):
                    visit(c, name + "." + c.name, inner_enclosing)
        for c in f.body:
            if isinstance(c, (ast.FunctionDef, ast.AsyncFunctionDef)):
                visit(c, name + "." + c.name, inner_enclosing)

    visit(fn, qualname, ())
    # de-duplicate (a nested def may be reached twice)
    seen, res = set(), []
    for e in out:
        if e not in seen:
            seen.add(e)
            res.append(e)
    return res


def recompile_impl(evmod):
    """the function object that holds the body of recompile: `recompile` itself, or the method of the same class it delegates to
    (e.g. `with self._lock: self._recompile(text)`) — the one that contains the exec of the generated code"""
    cls = evmod.ExperimentEvaluator
    seen = set()
    todo = ["recompile"]
    while todo:
        name = todo.pop(0)
        if name in seen or not hasattr(cls, name):
            continue
        seen.add(name)
        f = getattr(cls, name)
        try:
            fn = ast.parse(textwrap.dedent(inspect.getsource(f))).body[0]
        except Exception:  # noqa
            continue
        if any(isinstance(n, ast.Call) and isinstance(n.func, ast.Name) and n.func.id == "exec" for n in ast.walk(fn)):
            return f
        for n in ast.walk(fn):
            if isinstance(n, ast.Call) and isinstance(n.func, ast.Attribute) and isinstance(n.func.value, ast.Name) and n.func.value.id == "self":
                todo.append(n.func.attr)
    return cls.recompile


def gen_effects():
    import sys as _sys
    from pyab_experiment.language import lexer as lexmod, grammar as grammod
    from pyab_experiment.sly import lex as slylex, yacc as slyyacc
    from pyab_experiment.codegen.python import python_generator as genmod
    from pyab_experiment import experiment_evaluator as evmod
    from pyab_experiment.utils import wraper_functions as wrapmod
    from pyab_experiment.binning import binning as binmod

    targets = []

    def methods(cls, module, only=None):
        for name, val in vars(cls).items():
            f = val
            if isinstance(f, (staticmethod, classmethod)):
                f = f.__func__
            if isinstance(f, property):
                f = f.fget
            if inspect.isfunction(f) and (only is None or name in only):
                targets.append((f"{cls.__name__}.{name}", f, module))

    targets.append(("parse_source", wrapmod.parse_source, wrapmod))
    methods(lexmod.ExperimentLexer, lexmod)
    for n, c in vars(lexmod).items():
        if isinstance(c, slylex.LexerMeta) and c is not lexmod.ExperimentLexer and c.__module__ == lexmod.__name__:
            methods(c, lexmod)
    methods(slylex.Lexer, slylex, only={"tokenize", "begin", "push_state", "pop_state", "error"})
    methods(slyyacc.Parser, slyyacc, only={"parse", "restart", "error", "errok", "line_position", "index_position"})
    methods(grammod.ExperimentParser, grammod)
    methods(genmod.PythonCodeGen, genmod)
    methods(evmod.ExperimentEvaluator, evmod)
    targets.append(("deterministic_proba", binmod.deterministic_proba, binmod))
    targets.append(("deterministic_choice", binmod.deterministic_choice, binmod))
    try:
        from pyab_experiment.utils import stats as statsmod
        for n, f in vars(statsmod).items():
            if inspect.isfunction(f) and f.__module__ == statsmod.__name__:
                targets.append(("stats." + n, f, statsmod))
    except Exception:  # noqa
        pass

    effects = []
    for qn, f, mod in targets:
        effects.extend(function_effects(qn, f, mod))

    # (i) fresh lexer / parser per parse_source call
    fresh_lexer = fresh_parser = False
    try:
        fn = ast.parse(textwrap.dedent(inspect.getsource(wrapmod.parse_source))).body[0]
        local_ctor = {}
        for node in ast.walk(fn):
            if isinstance(node, ast.Assign) and len(node.targets) == 1 and isinstance(node.targets[0], ast.Name) \
                    and isinstance(node.value, ast.Call) and isinstance(node.value.func, ast.Name):
                local_ctor[node.targets[0].id] = node.value.func.id
        for node in ast.walk(fn):
            if isinstance(node, ast.Call) and isinstance(node.func, ast.Attribute) and isinstance(node.func.value, ast.Name):
                base = node.func.value.id
                if node.func.attr == "tokenize" and local_ctor.get(base) == "ExperimentLexer":
                    fresh_lexer = True
                if node.func.attr == "parse" and local_ctor.get(base) == "ExperimentParser":
                    fresh_parser = True
        # a decorator (cache) on parse_source defeats the per-call allocation
        if fn.decorator_list:
            fresh_lexer = fresh_parser = False
    except Exception:  # noqa
        pass
    # is parse_source still a plain function (not wrapped by a cache)?
    if not inspect.isfunction(wrapmod.parse_source):
        fresh_lexer = fresh_parser = False

    # (iv) recompile publishes with exactly one store, after the new code is built
    publish_writes, publish_after_build = 0, False
    try:
        fn = ast.parse(textwrap.dedent(inspect.getsource(recompile_impl(evmod)))).body[0]
        order = []
        for node in ast.walk(fn):
            if isinstance(node, ast.Call) and isinstance(node.func, ast.Name):
                if node.func.id == "setattr" and len(node.args) >= 2 and isinstance(node.args[1], ast.Constant) \
                        and node.args[1].value == "run_experiment":
                    order.append(("publish", node.lineno))
                if node.func.id in ("exec", "compile"):
                    order.append(("build", node.lineno))
            if isinstance(node, ast.Assign):
                for tg in node.targets:
                    if isinstance(tg, ast.Attribute) and tg.attr == "run_experiment":
                        order.append(("publish", node.lineno))
        pubs = [l for k, l in order if k == "publish"]
        builds = [l for k, l in order if k == "build"]
        publish_writes = len(pubs)
        publish_after_build = bool(pubs and builds and min(pubs) > max(builds))
    except Exception:  # noqa
        pass
    # the namespace the generated code is exec'd into is a dict created in this very call (never an
    # attribute, a module global or a parameter), and the globals argument is None or equally fresh
    gen_fresh = False
    try:
        fn = ast.parse(textwrap.dedent(inspect.getsource(recompile_impl(evmod)))).body[0]
        fresh_locals = set()
        for node in ast.walk(fn):
            if isinstance(node, ast.Assign) and len(node.targets) == 1 and isinstance(node.targets[0], ast.Name):
                v = node.value
                if (isinstance(v, ast.Dict) and not v.keys) or (isinstance(v, ast.Call) and isinstance(v.func, ast.Name)
                                                                and v.func.id == "dict" and not v.args and not v.keywords):
                    fresh_locals.add(node.targets[0].id)
                elif node.targets[0].id in fresh_locals:
                    fresh_locals.discard(node.targets[0].id)       # re-bound to something else
        execs = [n for n in ast.walk(fn) if isinstance(n, ast.Call) and isinstance(n.func, ast.Name) and n.func.id == "exec"]
        def ok_ns(a):
            return (isinstance(a, ast.Constant) and a.value is None) or (isinstance(a, ast.Name) and a.id in fresh_locals)
        gen_fresh = bool(execs) and all(len(c.args) == 3 and ok_ns(c.args[1]) and isinstance(c.args[2], ast.Name)
                                        and c.args[2].id in fresh_locals for c in execs)
    except Exception:  # noqa
        gen_fresh = False

    # recompiles of one evaluator are serialised: every store to `run_experiment` / `_checksum` (in `recompile` or in a method it calls on self)
    # happens inside a `with <lock>:` block whose lock is a threading.Lock / RLock held in a class or instance attribute, and the
    # read of `_checksum` that decides whether to compile happens inside the same block
    serialised = False
    try:
        cls_src = ast.parse(textwrap.dedent(inspect.getsource(evmod.ExperimentEvaluator))).body[0]
        lock_attrs = set()
        for st in ast.walk(cls_src):
            if isinstance(st, (ast.Assign, ast.AnnAssign)):
                v = st.value
                if isinstance(v, ast.Call) and ast.unparse(v.func) in ("threading.Lock", "threading.RLock", "Lock", "RLock"):
                    for tg in (st.targets if isinstance(st, ast.Assign) else [st.target]):
                        lock_attrs.add(tg.attr if isinstance(tg, ast.Attribute) else getattr(tg, "id", None))
        methods = {m.name: m for m in cls_src.body if isinstance(m, ast.FunctionDef)}

        def locked_calls(fn):
            """names of self-methods called only from inside a `with self.<lock>` block of fn"""
            out = set()
            for w in ast.walk(fn):
                if isinstance(w, ast.With) and any(isinstance(it.context_expr, ast.Attribute) and it.context_expr.attr in lock_attrs for it in w.items):
                    for c in ast.walk(w):
                        if isinstance(c, ast.Call) and isinstance(c.func, ast.Attribute) and isinstance(c.func.value, ast.Name) and c.func.value.id == "self":
                            out.add(c.func.attr)
            return out

        def touches_state(fn):
            for n in ast.walk(fn):
                if isinstance(n, ast.Attribute) and n.attr in ("_checksum", "run_experiment") and isinstance(n.ctx, ast.Store):
                    return True
                if isinstance(n, ast.Call) and isinstance(n.func, ast.Name) and n.func.id == "setattr":
                    return True
            return False

        def all_inside_lock(fn):
            inside = set()
            for w in ast.walk(fn):
                if isinstance(w, ast.With) and any(isinstance(it.context_expr, ast.Attribute) and it.context_expr.attr in lock_attrs for it in w.items):
                    inside.update(id(x) for x in ast.walk(w))
            for n in ast.walk(fn):
                st = (isinstance(n, ast.Attribute) and n.attr in ("_checksum", "run_experiment")) or \
                     (isinstance(n, ast.Call) and isinstance(n.func, ast.Name) and n.func.id == "setattr")
                if st and id(n) not in inside:
                    return False
            return True
        rec = methods.get("recompile")
        if rec is not None and lock_attrs:
            callees = locked_calls(rec)
            state_methods = [m for name, m in methods.items() if touches_state(m) and name not in ("__init__",)]
            serialised = all((m.name == "recompile" and all_inside_lock(m)) or (m.name in callees and m.name != "recompile") for m in state_methods) and bool(state_methods)
            # a method reached under the lock must not ALSO be called from outside it by the class itself (other than through recompile)
            for name, m in methods.items():
                if name in ("recompile",):
                    continue
                for c in ast.walk(m):
                    if isinstance(c, ast.Call) and isinstance(c.func, ast.Attribute) and isinstance(c.func.value, ast.Name) and c.func.value.id == "self" \
                            and c.func.attr in [x.name for x in state_methods if x.name != "recompile"]:
                        serialised = False
    except Exception:  # noqa
        serialised = False

    b = lambda x: "true" if x else "false"
    lines = [
        "/- GENERATED by tools/translate.py from /repo — do not edit -/",
        "namespace Pyab.Generated",
        "",
        "/-- one syntactic write effect: (function, kind, target) -/",
        "structure Effect where",
        "  fn : String",
        "  kind : String",
        "  target : String",
        "deriving Repr, DecidableEq",
        "",
        "def effects : List Effect := [",
        ",\n".join("  ⟨%s, %s, %s⟩" % (lstr(a), lstr(k), lstr(t)) for a, k, t in effects),
        "]",
        "",
        "/-- every function whose body was scanned (a function without writes has no entry in `effects`) -/",
        "def scannedFunctions : List String := [" + ", ".join(lstr(t[0]) for t in targets) + "]",
        "",
        "def freshLexerPerCall : Bool := %s" % b(fresh_lexer),
        "def freshParserPerCall : Bool := %s" % b(fresh_parser),
        "def codeHolderIsLocal : Bool := %s" % b(gen_fresh),
        "def publishWrites : Nat := %d" % publish_writes,
        "def publishAfterBuild : Bool := %s" % b(publish_after_build),
        "/-- every store to the installed function / the checksum, and the checksum test, happen under one lock -/",
        "def recompileSerialised : Bool := %s" % b(serialised),
        "",
        "end Pyab.Generated",
    ]
    kinds = {}
    for _, k, _ in effects:
        kinds[k] = kinds.get(k, 0) + 1
    return "\n".join(lines) + "\n", {"functions": len(targets), "effects": len(effects), "kinds": kinds,
                                      "freshLexerPerCall": fresh_lexer, "freshParserPerCall": fresh_parser,
                                      "publishWrites": publish_writes, "publishAfterBuild": publish_after_build}


def gen_pipeline():
    lines = [
        "/- GENERATED by tools/translate.py — do not edit -/",
        "import Pyab.Model.Evaluator",
        "import Pyab.Generated.LexRules",
        "import Pyab.Generated.LRTables",
        "import Pyab.Generated.Config",
        "namespace Pyab.Generated",
        "open Pyab",
        "",
        "def pipeline : Pipeline := ⟨lexSpec, lrTables, runCfg, checksumEarly⟩",
        "",
        "end Pyab.Generated",
    ]
    return "\n".join(lines) + "\n", {}


# --------------------------------------------------------------------------
# what the package's own code may depend on besides its arguments
# --------------------------------------------------------------------------

AMBIENT_MODULES = {"decimal", "os", "sys", "time", "datetime", "pathlib", "locale", "platform", "getpass", "socket", "uuid", "tempfile", "shutil", "glob",
                   "subprocess", "multiprocessing", "signal", "gc", "io", "atexit", "ctypes", "resource", "secrets", "calendar",
                   "logging", "warnings", "weakref", "contextvars", "asyncio", "queue", "sched", "fcntl", "select", "mmap", "zoneinfo", "urllib",
                   "http", "importlib", "pkgutil", "site", "sysconfig", "builtins", "inspect", "traceback", "linecache", "tracemalloc", "faulthandler"}


def gen_purity():
    """Syntactic scan of every module of the package except the vendored sly: statements whose effect depends on interpreter flags
    (`assert`, `__debug__`), on object identity (`id(...)`), or on the process environment (imports of os / sys / time / ... , `open`,
    `input`, `random` other than the documented `choices` fallback)."""
    import pyab_experiment
    root = os.path.dirname(os.path.realpath(pyab_experiment.__file__))
    debug, ident, ambient = [], [], []
    nfiles = 0
    for d, dirs, files in os.walk(root):
        dirs[:] = sorted(x for x in dirs if x not in ("sly", "__pycache__"))
        for f in sorted(files):
            if not f.endswith(".py"):
                continue
            path = os.path.join(d, f)
            rel = os.path.relpath(path, root)
            try:
                tree = ast.parse(open(path, encoding="utf-8").read())
            except Exception as ex:  # noqa
                ambient.append("%s: unparsable (%s)" % (rel, type(ex).__name__))
                continue
            nfiles += 1
            for node in ast.walk(tree):
                where = "%s:%d" % (rel, getattr(node, "lineno", 0))
                if isinstance(node, ast.Assert):
                    debug.append(where + " assert")
                elif isinstance(node, ast.Name) and node.id == "__debug__":
                    debug.append(where + " __debug__")
                elif isinstance(node, ast.Call) and isinstance(node.func, ast.Name) and node.func.id == "id":
                    ident.append(where + " id()")
                elif isinstance(node, ast.Call) and isinstance(node.func, ast.Name) and node.func.id in ("open", "input", "breakpoint", "__import__", "globals", "vars"):
                    ambient.append(where + " " + node.func.id + "()")
                elif isinstance(node, ast.Import):
                    for a in node.names:
                        if a.name.split(".")[0] in AMBIENT_MODULES:
                            ambient.append(where + " import " + a.name)
                        elif a.name.split(".")[0] == "random":
                            ambient.append(where + " import random")
                elif isinstance(node, ast.ImportFrom) and node.module:
                    top = node.module.split(".")[0]
                    if top in AMBIENT_MODULES:
                        ambient.append(where + " from " + node.module + " import …")
                    elif top == "random" and {a.name for a in node.names} - {"choices"}:
                        ambient.append(where + " from random import " + ",".join(a.name for a in node.names))
    # the vendored sly: the same three questions, answered by the stripped SOURCE LINE (stable under edits elsewhere in the file);
    # its known uses (sanity asserts at class-build time, id()-keyed caches of objects that are kept alive) are pinned by an obligation
    sly_debug, sly_ident, sly_ambient = [], [], []
    sly_root = os.path.join(root, "sly")
    for f in sorted(os.listdir(sly_root)) if os.path.isdir(sly_root) else []:
        if not f.endswith(".py"):
            continue
        try:
            text = open(os.path.join(sly_root, f), encoding="utf-8").read()
            tree = ast.parse(text)
        except Exception as ex:  # noqa
            sly_ambient.append("%s: unparsable" % f)
            continue
        src = text.split("\n")
        line_of = lambda node: " ".join(src[node.lineno - 1].split())[:90]
        for node in ast.walk(tree):
            if isinstance(node, ast.Assert):
                sly_debug.append("%s: %s" % (f, line_of(node)))
            elif isinstance(node, ast.Name) and node.id == "__debug__":
                sly_debug.append("%s: %s" % (f, line_of(node)))
            elif isinstance(node, ast.Call) and isinstance(node.func, ast.Name) and node.func.id == "id":
                sly_ident.append("%s: %s" % (f, line_of(node)))
            elif isinstance(node, ast.Import):
                for a in node.names:
                    if a.name.split(".")[0] in AMBIENT_MODULES | {"random"}:
                        sly_ambient.append("%s: import %s" % (f, a.name))
            elif isinstance(node, ast.ImportFrom) and node.module and node.module.split(".")[0] in AMBIENT_MODULES | {"random"}:
                sly_ambient.append("%s: from %s import …" % (f, node.module))
    sly_debug, sly_ident, sly_ambient = sorted(set(sly_debug)), sorted(set(sly_ident)), sorted(set(sly_ambient))
    lines = ["/- GENERATED by tools/translate.py from /repo — do not edit -/", "namespace Pyab.Generated", "",
             "/-- the same scan over the vendored sly (entries are stripped source lines) -/",
             "def slyDebugDependent : List String := [" + ", ".join(lstr(x) for x in sly_debug) + "]",
             "def slyIdentityDependent : List String := [" + ", ".join(lstr(x) for x in sly_ident) + "]",
             "def slyAmbientDependent : List String := [" + ", ".join(lstr(x) for x in sly_ambient) + "]", "",
             "/-- `assert` statements and uses of `__debug__` in the package's own modules (stripped by `python -O`) -/",
             "def debugDependent : List String := [" + ", ".join(lstr(x) for x in debug) + "]", "",
             "/-- calls of the builtin `id` (object identity / address) -/",
             "def identityDependent : List String := [" + ", ".join(lstr(x) for x in ident) + "]", "",
             "/-- imports and calls that read the process environment (file system, clock, interpreter state, …) -/",
             "def ambientDependent : List String := [" + ", ".join(lstr(x) for x in ambient) + "]", "",
             "def purityScannedFiles : Nat := %d" % nfiles, "", "end Pyab.Generated"]
    return "\n".join(lines) + "\n", {"debug": debug, "identity": ident, "ambient": ambient, "files": nfiles}


def main():
    import pyab_experiment
    src = os.path.realpath(os.path.dirname(pyab_experiment.__file__))
    assert src.startswith(os.path.realpath(REPO_SRC)), (src, REPO_SRC)
    summary = {"source": src}
    changed = []
    for name, fn in GENERATORS:
        content, summ = fn()
        if write_if_changed(os.path.join(OUT, name + ".lean"), content):
            changed.append(name)
        summary[name] = summ
    summary["changed"] = changed
    write_if_changed(os.path.join(OUT, "summary.json"), json.dumps(summary, indent=1, sort_keys=True, default=str))
    print(json.dumps({"changed": changed}))


GENERATORS = [
    ("CharClasses", gen_charclasses),
    ("LexRules", gen_lexrules),
    ("LRTables", gen_lrtables),
    ("Config", gen_config),
    ("Pipeline", gen_pipeline),
    ("Effects", gen_effects),
    ("Purity", gen_purity),
]

if __name__ == "__main__":
    main()
