#!/usr/bin/env python3
"""lean/Pyab.lean: import every module of the library (so `lake build Pyab` checks everything)"""
import os
HERE = os.path.dirname(os.path.dirname(os.path.abspath(__file__)))
root = os.path.join(HERE, "lean")
mods = []
for d, _, files in os.walk(os.path.join(root, "Pyab")):
    for f in sorted(files):
        if f.endswith(".lean"):
            rel = os.path.relpath(os.path.join(d, f), root)[:-5]
            mods.append(rel.replace(os.sep, "."))
open(os.path.join(root, "Pyab.lean"), "w").write("".join(f"import {m}\n" for m in sorted(mods)))
print(len(mods), "modules")
