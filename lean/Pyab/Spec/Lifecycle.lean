/-
  C11 — what an evaluator *is*, as the user reads it: the last text it accepted.
  `new` / `recompile` with a text that compiles switch to it completely, with a text
  that does not compile raise and change nothing; a call behaves like a fresh evaluator
  built from the accepted text; evaluators are independent.
-/
import Pyab.Model.Evaluator
namespace Pyab.Spec
open Pyab

abbrev SpecWorld := List (Nat × String)

def SpecWorld.get (w : SpecWorld) (id : Nat) : Option String :=
  match w with
  | [] => none
  | (k, v) :: rest => if k == id then some v else SpecWorld.get rest id

def SpecWorld.set (w : SpecWorld) (id : Nat) (t : String) : SpecWorld :=
  match w with
  | [] => [(id, t)]
  | (k, v) :: rest => if k == id then (k, t) :: rest else (k, v) :: SpecWorld.set rest id t

def specStep (p : Pipeline) (w : SpecWorld) : EvOp → SpecWorld × EvOut
  | .new id text =>
      match p.compile text with
      | .ok _ => (w.set id text, .ok)
      | .error e => (w, .err e)
  | .recompile id text =>
      match w.get id with
      | none => (w, .noSuchEvaluator)
      | some cur =>
          if text = cur then (w, .ok)                     -- recompiling the current text is a no-op
          else match p.compile text with
            | .ok _ => (w.set id text, .ok)               -- succeeds and switches completely
            | .error e => (w, .err e)                     -- raises and changes nothing
  | .call id env =>
      match w.get id with
      | none => (w, .noSuchEvaluator)
      | some cur =>
          match p.runText cur env with                    -- exactly a fresh evaluator of the accepted text
          | .ok o => (w, .result o)
          | .error e => (w, .err e)

def specHistory (p : Pipeline) : SpecWorld → List EvOp → List EvOut
  | _, [] => []
  | w, op :: ops =>
      let (w', out) := specStep p w op
      out :: specHistory p w' ops

/-- the source texts that occur in a history -/
def textsOf : List EvOp → List String
  | [] => []
  | .new _ t :: ops => t :: textsOf ops
  | .recompile _ t :: ops => t :: textsOf ops
  | .call _ _ :: ops => textsOf ops

end Pyab.Spec
