/-
  C02 — the meaning of an experiment as the user reads it: the conditional is a nested
  if / else-if / else; comparison and boolean operators have their usual (Python)
  meaning on the value types; `and` / `or` short-circuit.  No reference to how the code
  generator or the generated Python does it.
-/
import Pyab.Model.Syntax
import Pyab.Model.PyExec
namespace Pyab.Spec
open Pyab

/-- meaning of the eight comparison operators -/
def specCmp (op : CmpOp) (a b : PyVal) : Except Err Bool :=
  match op with
  | .eq => pure (PyVal.pyEq a b)
  | .ne => pure (!PyVal.pyEq a b)
  | .lt => do pure ((← PyVal.pyCmp a b) == some .lt)
  | .gt => do pure ((← PyVal.pyCmp a b) == some .gt)
  | .le => do let o ← PyVal.pyCmp a b; pure (o == some .lt || o == some .eq)
  | .ge => do let o ← PyVal.pyCmp a b; pure (o == some .gt || o == some .eq)
  | .isIn => PyVal.pyIn a b
  | .notIn => do pure (!(← PyVal.pyIn a b))

mutual
/-- value of a term: a literal denotes itself, an identifier the field's value -/
def specTerm (env : Env) : Term → Except Err PyVal
  | .int i => pure (.int i)
  | .float d nz => pure (.float d nz)
  | .str s => pure (.str s)
  | .ident n => match env.get n with
      | some v => pure v
      | none => throw .nameError
  | .tuple l => do pure (.tuple (← specTerms env l))
def specTerms (env : Env) : List Term → Except Err (List PyVal)
  | [] => pure []
  | t :: ts => do
      let a ← specTerm env t
      let b ← specTerms env ts
      pure (a :: b)
end

def specPred (env : Env) : Pred → Except Err Bool
  | .cmp l op r => do
      let a ← specTerm env l
      let b ← specTerm env r
      specCmp op a b
  | .and a b => do if (← specPred env a) then specPred env b else pure false
  | .or a b => do if (← specPred env a) then pure true else specPred env b
  | .not a => do pure (!(← specPred env a))

mutual
/-- the return statement selected by reading the conditional as nested if / else if / else;
    `none` = no return statement is selected.  A nested conditional that selects nothing
    selects nothing: control does not fall through into a sibling `else`. -/
def specRoute (env : Env) : Cond → Except Err (Option (List Group))
  | .ret gs => pure (some gs)
  | .ifte p t rest => do
      if (← specPred env p) then specRoute env t else specSub env rest
def specSub (env : Env) : Sub → Except Err (Option (List Group))
  | .none => pure none
  | .else_ t => specRoute env t
  | .elif p t rest => do
      if (← specPred env p) then specRoute env t else specSub env rest
end

/-- the operator rendering every theorem about generated code relies on -/
def canonicalOps : List (String × String) :=
  [("EQ", "=="), ("GT", ">"), ("LT", "<"), ("GE", ">="), ("LE", "<="), ("NE", "!="),
   ("IN", "in"), ("NOT_IN", "not in"), ("AND", "and"), ("OR", "or"), ("NOT", "not")]

/-- the generator facts the routing theorems need (each is a `decide` obligation over
    the generated `Config`): every operator is rendered as its Python namesake, string
    operands are rendered with `repr()`, tuples member by member -/
structure CanonicalExpr (cfg : GenCfg) : Prop where
  ops : ∀ p ∈ canonicalOps, cfg.op p.1 = p.2
  strTerm : cfg.strReprTerm = true
  tuples : cfg.tupleRecursive = true

def canonicalExprB (cfg : GenCfg) : Bool :=
  canonicalOps.all (fun p => cfg.op p.1 == p.2) && cfg.strReprTerm && cfg.tupleRecursive

theorem canonicalExpr_of_check (cfg : GenCfg) (h : canonicalExprB cfg = true) : CanonicalExpr cfg := by
  simp only [canonicalExprB, Bool.and_eq_true, List.all_eq_true, beq_iff_eq] at h
  exact ⟨h.1.1, h.1.2, h.2⟩

end Pyab.Spec
