/-
  Context-free derivations over a production list, and the documented grammar of the
  experiment language (docs/grammar.rst, language/README.rst) as such a list.
-/
import Pyab.Model.Parser
namespace Pyab.Spec
open Pyab

mutual
/-- `Derives prods X ts`: symbol `X` derives the symbol string `ts` -/
inductive Derives (prods : List Prod) : String → List String → Prop where
  | leaf (t : String) : Derives prods t [t]
  | node (p : Prod) (ts : List String) : p ∈ prods → DerivesSeq prods p.rhs ts → Derives prods p.lhs ts
/-- a sequence of symbols derives the concatenation of what its members derive -/
inductive DerivesSeq (prods : List Prod) : List String → List String → Prop where
  | nil : DerivesSeq prods [] []
  | cons (X : String) (Xs : List String) (ts ts' : List String) :
      Derives prods X ts → DerivesSeq prods Xs ts' → DerivesSeq prods (X :: Xs) (ts ++ ts')
end

/-- the documented grammar, one production per line of the BNF -/
def documentedProds : List Prod := [
  ⟨"header", ["header_id", "LBRACE", "opt_header_salt", "opt_splitter", "conditional", "RBRACE"]⟩,
  ⟨"empty", []⟩,
  ⟨"header_id", ["KW_DEF", "ID"]⟩,
  ⟨"opt_header_salt", ["KW_SALT", "COLON", "STRING_LITERAL"]⟩,
  ⟨"opt_header_salt", ["empty"]⟩,
  ⟨"opt_splitter", ["KW_SPLITTERS", "COLON", "fields"]⟩,
  ⟨"opt_splitter", ["empty"]⟩,
  ⟨"fields", ["ID"]⟩,
  ⟨"fields", ["ID", "COMMA", "fields"]⟩,
  ⟨"conditional", ["return_expr"]⟩,
  ⟨"conditional", ["KW_IF", "predicate", "LBRACE", "conditional", "RBRACE", "subconditional"]⟩,
  ⟨"subconditional", ["empty"]⟩,
  ⟨"subconditional", ["KW_ELSE", "LBRACE", "conditional", "RBRACE"]⟩,
  ⟨"subconditional", ["KW_ELIF", "predicate", "LBRACE", "conditional", "RBRACE", "subconditional"]⟩,
  ⟨"predicate", ["KW_NOT", "predicate"]⟩,
  ⟨"predicate", ["predicate", "KW_OR", "predicate"]⟩,
  ⟨"predicate", ["predicate", "KW_AND", "predicate"]⟩,
  ⟨"predicate", ["LPAREN", "predicate", "RPAREN"]⟩,
  ⟨"predicate", ["term", "logical_op", "term"]⟩,
  ⟨"term", ["tuple"]⟩,
  ⟨"term", ["ID"]⟩,
  ⟨"term", ["literal"]⟩,
  ⟨"tuple", ["LPAREN", "term", "op_term"]⟩,
  ⟨"op_term", ["RPAREN"]⟩,
  ⟨"op_term", ["COMMA", "term", "op_term"]⟩,
  ⟨"logical_op", ["KW_NOT_IN"]⟩,
  ⟨"logical_op", ["KW_EQ"]⟩,
  ⟨"logical_op", ["KW_NE"]⟩,
  ⟨"logical_op", ["KW_IN"]⟩,
  ⟨"logical_op", ["KW_LE"]⟩,
  ⟨"logical_op", ["KW_GE"]⟩,
  ⟨"logical_op", ["KW_GT"]⟩,
  ⟨"logical_op", ["KW_LT"]⟩,
  ⟨"return_expr", ["KW_RETURN", "return_statement"]⟩,
  ⟨"return_statement", ["literal", "KW_WEIGHTED", "weight", "COMMA", "return_statement"]⟩,
  ⟨"return_statement", ["literal", "KW_WEIGHTED", "weight"]⟩,
  ⟨"weight", ["NON_NEG_FLOAT"]⟩,
  ⟨"weight", ["NON_NEG_INTEGER"]⟩,
  ⟨"literal", ["STRING_LITERAL"]⟩,
  ⟨"literal", ["NON_NEG_FLOAT"]⟩,
  ⟨"literal", ["NON_NEG_INTEGER"]⟩,
  ⟨"literal", ["MINUS", "NON_NEG_FLOAT"]⟩,
  ⟨"literal", ["MINUS", "NON_NEG_INTEGER"]⟩]

end Pyab.Spec
