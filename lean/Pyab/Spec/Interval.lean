/-
  C03 / C10 / C16 — the interval rule, written from the property's sentence alone:
  a unit at grid position `h` (of 2^32) falls in group `i` exactly when
  `h/2^32 · T ∈ [S_{i-1}, S_i)` with `S_i = w_1 + … + w_i`, `T = S_n`.
  Stated over naturals by clearing the denominator 2^32.
-/
namespace Pyab.Spec

/-- `S_i`: sum of the first `i` weights (`S_0 = 0`) -/
def prefixSum (w : List Nat) (i : Nat) : Nat := (w.take i).sum

def total (w : List Nat) : Nat := w.sum

/-- group `i` is the one the interval rule selects for grid position `h` -/
def IsSpecIdx (w : List Nat) (h i : Nat) : Prop :=
  i < w.length ∧ prefixSum w i * 2 ^ 32 ≤ h * total w ∧ h * total w < prefixSum w (i + 1) * 2 ^ 32

instance (w : List Nat) (h i : Nat) : Decidable (IsSpecIdx w h i) := by
  unfold IsSpecIdx; exact inferInstance

end Pyab.Spec
