/-
  The canonical token rendering of an experiment AST (`tokensOfExperiment`) and the
  well-formedness predicate (`Experiment.WF`) describing exactly the ASTs the grammar
  actions of `language/grammar.py` can build.

  The rendering is *canonical*, not pretty: predicates are fully parenthesised below every
  `and` / `or` / `not`, so operator precedence and associativity never decide anything.
  Token payloads are the ones the lexer's rule actions leave: matched text for keywords,
  punctuation and identifiers, the number for numeric literals, the unquoted body for
  string literals.
-/
import Pyab.Model.Syntax
namespace Pyab.Spec
open Pyab

/-- a keyword / punctuation token: kind and matched text -/
abbrev tk (kind text : String) : Token := ⟨kind, .raw text⟩

/-- the token of a comparison operator -/
def tokenOfOp : CmpOp → Token
  | .eq => tk "KW_EQ" "=="
  | .gt => tk "KW_GT" ">"
  | .lt => tk "KW_LT" "<"
  | .ge => tk "KW_GE" ">="
  | .le => tk "KW_LE" "<="
  | .ne => tk "KW_NE" "!="
  | .isIn => tk "KW_IN" "in"
  | .notIn => tk "KW_NOT_IN" "not in"

/-- is the double written with a leading `-` (negative finite, or `-inf`) -/
def dblIsNeg : Dbl → Bool
  | .fin m _ => decide (m < 0)
  | .ninf => true
  | _ => false

/-- is it a zero (`Dbl.fin 0 e`) -/
def dblIsZero : Dbl → Bool
  | .fin 0 _ => true
  | _ => false

/-- tokens of an integer literal: `n` or `- n` -/
def tokensOfInt (i : Int) : List Token :=
  if 0 ≤ i then [⟨"NON_NEG_INTEGER", .int i.toNat⟩]
  else [tk "MINUS" "-", ⟨"NON_NEG_INTEGER", .int i.natAbs⟩]

/-- tokens of a float literal: `-0.0` (the `negZero` flag) and negative values are written
    `MINUS NON_NEG_FLOAT`, the token carrying the negated (non-negative) double -/
def tokensOfFloat (d : Dbl) (negZero : Bool) : List Token :=
  if negZero then [tk "MINUS" "-", ⟨"NON_NEG_FLOAT", .float d⟩]
  else if dblIsNeg d then [tk "MINUS" "-", ⟨"NON_NEG_FLOAT", .float (Dbl.neg d)⟩]
  else [⟨"NON_NEG_FLOAT", .float d⟩]

mutual
/-- tokens of a term; a tuple is `LPAREN term op_term` as in the grammar -/
def tokensOfTerm : Term → List Token
  | .int i => tokensOfInt i
  | .float d nz => tokensOfFloat d nz
  | .str s => [⟨"STRING_LITERAL", .str s⟩]
  | .ident n => [⟨"ID", .raw n⟩]
  | .tuple [] => [tk "LPAREN" "(", tk "RPAREN" ")"]          -- not well-formed; never parsed
  | .tuple (t :: l) => tk "LPAREN" "(" :: (tokensOfTerm t ++ tokensOfOpTerm l)
/-- the rest of a tuple after its first element: `, t , t … )` -/
def tokensOfOpTerm : List Term → List Token
  | [] => [tk "RPAREN" ")"]
  | t :: l => tk "COMMA" "," :: (tokensOfTerm t ++ tokensOfOpTerm l)
end

/-- tokens of a predicate, fully parenthesised below `and` / `or` / `not` -/
def tokensOfPred : Pred → List Token
  | .cmp l op r => tokensOfTerm l ++ tokenOfOp op :: tokensOfTerm r
  | .and a b => tk "LPAREN" "(" :: (tokensOfPred a ++ tk "RPAREN" ")" :: tk "KW_AND" "and" ::
      tk "LPAREN" "(" :: (tokensOfPred b ++ [tk "RPAREN" ")"]))
  | .or a b => tk "LPAREN" "(" :: (tokensOfPred a ++ tk "RPAREN" ")" :: tk "KW_OR" "or" ::
      tk "LPAREN" "(" :: (tokensOfPred b ++ [tk "RPAREN" ")"]))
  | .not a => tk "KW_NOT" "not" :: tk "LPAREN" "(" :: (tokensOfPred a ++ [tk "RPAREN" ")"])

/-- tokens of a weight: only float weights are well-formed (`weightToFloat`) -/
def tokensOfWeight : Num → List Token
  | .f d => [⟨"NON_NEG_FLOAT", .float d⟩]
  | .i v => [⟨"NON_NEG_INTEGER", .int v.toNat⟩]               -- not well-formed; never parsed

/-- `lit weighted w [, lit weighted w …]` -/
def tokensOfGroups : List Group → List Token
  | [] => []
  | [g] => tokensOfTerm g.defn ++ tk "KW_WEIGHTED" "weighted" :: tokensOfWeight g.weight
  | g :: gs => tokensOfTerm g.defn ++ tk "KW_WEIGHTED" "weighted" :: (tokensOfWeight g.weight ++
      tk "COMMA" "," :: tokensOfGroups gs)

mutual
def tokensOfCond : Cond → List Token
  | .ret gs => tk "KW_RETURN" "return" :: tokensOfGroups gs
  | .ifte p t rest => tk "KW_IF" "if" :: (tokensOfPred p ++ tk "LBRACE" "{" ::
      (tokensOfCond t ++ tk "RBRACE" "}" :: tokensOfSub rest))
def tokensOfSub : Sub → List Token
  | .none => []
  | .else_ t => tk "KW_ELSE" "else" :: tk "LBRACE" "{" :: (tokensOfCond t ++ [tk "RBRACE" "}"])
  | .elif p t rest => tk "KW_ELIF" "elif" :: (tokensOfPred p ++ tk "LBRACE" "{" ::
      (tokensOfCond t ++ tk "RBRACE" "}" :: tokensOfSub rest))
end

/-- `ID , ID …` -/
def tokensOfFields : List String → List Token
  | [] => []
  | [s] => [⟨"ID", .raw s⟩]
  | s :: l => ⟨"ID", .raw s⟩ :: tk "COMMA" "," :: tokensOfFields l

def tokensOfSalt : Option String → List Token
  | none => []
  | some s => [tk "KW_SALT" "salt", tk "COLON" ":", ⟨"STRING_LITERAL", .str s⟩]

def tokensOfSplitters : Option (List String) → List Token
  | none => []
  | some l => tk "KW_SPLITTERS" "splitters" :: tk "COLON" ":" :: tokensOfFields l

/-- the canonical token list of an experiment -/
def tokensOfExperiment (e : Experiment) : List Token :=
  tk "KW_DEF" "def" :: ⟨"ID", .raw e.id⟩ :: tk "LBRACE" "{" ::
    (tokensOfSalt e.salt ++ (tokensOfSplitters e.splitters ++ (tokensOfCond e.cond ++ [tk "RBRACE" "}"])))

/-! ### Well-formedness: what the grammar actions can build -/

/-- a float term the actions can build: `negZero` is set only on a zero
    (`literal → MINUS NON_NEG_FLOAT` sets it exactly when the token's double is a zero) -/
def floatWF (d : Dbl) (negZero : Bool) : Bool := !negZero || dblIsZero d

mutual
/-- every tuple non-empty, every float as the actions build it -/
def termWF : Term → Bool
  | .int _ => true
  | .float d nz => floatWF d nz
  | .str _ => true
  | .ident _ => true
  | .tuple [] => false
  | .tuple (t :: l) => termWF t && termsWF l
def termsWF : List Term → Bool
  | [] => true
  | t :: l => termWF t && termsWF l
end

/-- a group literal: int / float / string -/
def termIsLiteral : Term → Bool
  | .int _ => true
  | .float _ _ => true
  | .str _ => true
  | _ => false

def predWF : Pred → Bool
  | .cmp l _ r => termWF l && termWF r
  | .and a b => predWF a && predWF b
  | .or a b => predWF a && predWF b
  | .not a => predWF a

/-- a literal definition and a float weight (pydantic turns integer weights into floats) -/
def groupWF (g : Group) : Bool :=
  termIsLiteral g.defn && termWF g.defn && (match g.weight with | .f _ => true | .i _ => false)

def groupsWF : List Group → Bool
  | [] => true
  | g :: gs => groupWF g && groupsWF gs

mutual
def condWF : Cond → Bool
  | .ret gs => !gs.isEmpty && groupsWF gs
  | .ifte p t rest => predWF p && condWF t && subWF rest
def subWF : Sub → Bool
  | .none => true
  | .else_ t => condWF t
  | .elif p t rest => predWF p && condWF t && subWF rest
end

/-- splitters, when present, are a non-empty list -/
def splittersWF : Option (List String) → Bool
  | none => true
  | some l => !l.isEmpty

/-- **Well-formed experiment**: non-empty return lists, non-empty tuples, non-empty
    splitter list when present, literal group definitions with float weights, and the
    negative-zero flag only on zeros. -/
def _root_.Pyab.Experiment.wf (e : Experiment) : Bool := splittersWF e.splitters && condWF e.cond

/-- `Prop` form of `Experiment.wf` -/
def _root_.Pyab.Experiment.WF (e : Experiment) : Prop := e.wf = true

instance (e : Experiment) : Decidable e.WF := inferInstanceAs (Decidable (e.wf = true))

end Pyab.Spec
