/-
  C18 — the generic definitions of `Pyab/Model/Stats.lean` instantiated at ℝ
  (Mathlib), so that the expression that is proved is the expression that is
  executed at `Float`.
-/
import Pyab.Model.Stats
import Mathlib.Analysis.SpecialFunctions.Log.Basic
import Mathlib.Analysis.SpecialFunctions.Sqrt
import Mathlib.Analysis.SpecialFunctions.Trigonometric.Basic
namespace Pyab.Spec
open Pyab Pyab.Stats

noncomputable def realOps : Ops ℝ where
  add := (· + ·)
  sub := (· - ·)
  mul := (· * ·)
  div := (· / ·)
  abs := fun x => |x|
  log := Real.log
  sqrt := Real.sqrt
  sq := fun x => x * x
  ofNat := fun n => (n : ℝ)
  pi := Real.pi

/-- `probit` over the reals -/
noncomputable def probitR (alpha : ℝ) : ℝ := probit realOps alpha

/-- `confidence_interval` over the reals -/
noncomputable def intervalR (m : Method) (n p confidence : ℝ) : ℝ × ℝ := interval realOps m n p confidence

end Pyab.Spec
