/-
  The token rendering of an experiment AST with MINIMAL parentheses
  (`tokensOfExperimentMin`), as opposed to the fully parenthesised canonical rendering of
  `Pyab/Spec/Unparse.lean`.

  The predicate grammar of `language/grammar.py` is

      predicate ::= term op term | ( predicate ) | predicate and predicate
                  | predicate or predicate | not predicate

  with the precedence declaration `left KW_OR < left KW_AND < left KW_NOT`: `not` binds
  tighter than `and`, which binds tighter than `or`; the binary operators associate to the
  left.  The printer is the usual precedence-climbing one.  A predicate is printed *at a
  context level* `ℓ ∈ {1, 2, 3}`; every constructor has its own level

      or ↦ 1     and ↦ 2     not ↦ 3     comparison ↦ atom (never wrapped)

  and a sub-predicate whose own level is lower than the context level is wrapped in
  `( … )`, inside which the level starts again at 1:

      or a b   prints   a@1 or b@2          and a b   prints   a@2 and b@3
      not a    prints   not a@3             l op r    prints   l op r

  So parentheses appear exactly
    * around an `or` that is the RIGHT operand of an `or`, or any operand of an `and`,
      or the operand of a `not`;
    * around an `and` that is the RIGHT operand of an `and`, or the operand of a `not`;
  and nowhere else: `(a or b) or c` is `a or b or c`, `a or (b or c)` is `a or ( b or c )`,
  `a or (b and c)` is `a or b and c`, `(a or b) and c` is `( a or b ) and c`,
  `not (a and b)` is `not ( a and b )`, `(not a) and b` is `not a and b`,
  `not (not a)` is `not not a`.  The top of a predicate (after `if` / `elif`) is level 1.

  Two points that were checked against the dumped tables before fixing the printer
  (`#eval`s, then the theorem `Proofs.LRC.lrParse_tokensOfMin`):

    * the rule `predicate → KW_NOT predicate` has the precedence of `KW_NOT`, the highest,
      so in state 38 (after `not predicate`) the tables reduce on `and` and on `or`:
      `not a and b` is `(not a) and b`.  No extra parentheses are needed around a `not`.
    * a comparison whose LEFT term is a tuple starts with `(`, like a parenthesised
      predicate.  The tables do not have to decide at the `(`: both readings shift to the
      same state 22, and the decision is taken after the first term inside (state 40: `,`
      or `)` continue a tuple, a comparison operator continues a predicate).  So
      `(1, 2) == x and …` and `( (1, 2) == x or … ) and …` are both read back without help,
      and the printer treats a comparison as an atom whatever its left term is.

  No adjustment of the precedence-climbing printer was necessary.
-/
import Pyab.Spec.Unparse
namespace Pyab.Spec
open Pyab

/-- wrap a token list in `( … )` when `b` holds -/
def parenIf (b : Bool) (l : List Token) : List Token :=
  if b then tk "LPAREN" "(" :: (l ++ [tk "RPAREN" ")"]) else l

/-- tokens of a predicate printed at context level `lvl` (1: `or` allowed bare, 2: `and` and
    tighter allowed bare, 3: only `not` and comparisons allowed bare) -/
def tokensOfPredAt : Nat → Pred → List Token
  | _, .cmp l op r => tokensOfTerm l ++ tokenOfOp op :: tokensOfTerm r
  | lvl, .or a b => parenIf (decide (1 < lvl))
      (tokensOfPredAt 1 a ++ tk "KW_OR" "or" :: tokensOfPredAt 2 b)
  | lvl, .and a b => parenIf (decide (2 < lvl))
      (tokensOfPredAt 2 a ++ tk "KW_AND" "and" :: tokensOfPredAt 3 b)
  | lvl, .not a => parenIf (decide (3 < lvl))
      (tk "KW_NOT" "not" :: tokensOfPredAt 3 a)

/-- tokens of a predicate with minimal parentheses (context level 1) -/
def tokensOfPredMin (p : Pred) : List Token := tokensOfPredAt 1 p

mutual
def tokensOfCondMin : Cond → List Token
  | .ret gs => tk "KW_RETURN" "return" :: tokensOfGroups gs
  | .ifte p t rest => tk "KW_IF" "if" :: (tokensOfPredMin p ++ tk "LBRACE" "{" ::
      (tokensOfCondMin t ++ tk "RBRACE" "}" :: tokensOfSubMin rest))
def tokensOfSubMin : Sub → List Token
  | .none => []
  | .else_ t => tk "KW_ELSE" "else" :: tk "LBRACE" "{" :: (tokensOfCondMin t ++ [tk "RBRACE" "}"])
  | .elif p t rest => tk "KW_ELIF" "elif" :: (tokensOfPredMin p ++ tk "LBRACE" "{" ::
      (tokensOfCondMin t ++ tk "RBRACE" "}" :: tokensOfSubMin rest))
end

/-- the token list of an experiment with minimal parentheses in its predicates -/
def tokensOfExperimentMin (e : Experiment) : List Token :=
  tk "KW_DEF" "def" :: ⟨"ID", .raw e.id⟩ :: tk "LBRACE" "{" ::
    (tokensOfSalt e.salt ++ (tokensOfSplitters e.splitters ++ (tokensOfCondMin e.cond ++ [tk "RBRACE" "}"])))

end Pyab.Spec
