/-
  C09 / C12 / C15 — what a generated experiment function computes, stated without the
  emitted lines: check that the declared fields are present, select a return statement by
  the reference routing (`specRoute`), then choose a group from its population by the
  hash position of the key (or hand the weighted population to `random.choices` when
  the experiment declares no splitters).
-/
import Pyab.Spec.Semantics
namespace Pyab.Spec
open Pyab

/-- population and weights of the return statement the reference routing selects; the
    unroutable error when it selects none; the error of a predicate otherwise -/
def routed (cfg : GenCfg) (env : Env) (c : Cond) : Except Err (List PyVal × List Num) :=
  match specRoute env c with
  | .error err => .error err
  | .ok none => .error .unroutable
  | .ok (some gs) => retVals cfg gs

/-- what the generated function does with the population and weights of the routed return
    statement: the random outcome without splitters, else the hashed choice on the key
    "salt followed by `str()` of the splitter values, in sorted order of splitter name" -/
def choiceStage (cfg : RunCfg) (e : Experiment) (env : Env) (pop : List PyVal) (ws : List Num) :
    Except Err Outcome :=
  match e.localVars with
  | [] => do
      match ← Choice.choiceIdx none pop.length (some ws) none with
      | .random cum => pure (.random pop cum)
      | .idx _ => throw (.other "unreachable")
  | lv => do
      let key ← keyOf cfg.printable (e.salt.getD "") lv env
      Outcome.group <$> chooseByKey cfg.keyUtf8 key pop ws

/-- the reference meaning of calling the generated function on keyword arguments `env` -/
def specRun (cfg : RunCfg) (e : Experiment) (env : Env) : Except Err Outcome := do
  if !(e.params cfg.toGenCfg).all (fun p => (env.get p).isSome) then throw .missingField
  let (pop, ws) ← routed cfg.toGenCfg env e.cond
  choiceStage cfg e env pop ws

end Pyab.Spec
