def hello := "world"
