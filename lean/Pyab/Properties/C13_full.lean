/-
  C13 — entry point of the check: the structured theorems (`C13.lean`) and the text-level ones
  (`C14_text.lean`: the generated text is the rendering of the emitted lines, and depends on
  the strings of the source only through their `repr` rendering).
-/
import Pyab.Properties.C13
import Pyab.Properties.C05_float
import Pyab.Properties.C14_text
import Pyab.Properties.C13_reader
