/-
  C05 (floats) — a float literal reaches run time with its exact value: the text the generator
  prints for a float constant (`repr(float)`, `Dbl.repr`) is read back by Python
  (`float("…")`, `Dbl.decToDbl`, through the reader's number scanner of `Model/PyRead.lean`) as
  the same float, FOR EVERY FINITE BINARY64 VALUE — not per instance by evaluation.

  This closes the gap `Properties/C13_reader.lean` names ("What is NOT proved in general: that
  every finite float the DSL lexer can produce satisfies `floatReadsB` / `floatStableB`").
  Statements only; proofs in `Pyab/Proofs/FloatRepr*.lean`:

    FloatReprRound   `roundRat`, `decToDbl` are correctly rounded (round-to-nearest-even, `RSpec`);
                     within half an ulp of a genuine double (a quarter below a power of two) every
                     rational rounds to it
    FloatReprCanon   the `Dbl` term `decToDbl` builds is a function of the decimal's value
    FloatReprDigits  17 significant digits identify a double (`10^16 > 2^53`): the search of
                     `shortestDigits` never runs out of fuel, its result reads back
    FloatReprInv     `norm`, `shortestDigits`, `repr` depend on the value, not on the pair `m·2^e`
    FloatReprText    every shape `repr` writes (`D000.0`, `DD.DD`, `0.00DD`, `D.DDe±XX`, `De±XX`,
                     the sign) is scanned as `decToDbl D s`
    FloatRepr        the assembly

  "Genuine finite binary64 value" is `Dbl.NonnegDouble` (a finite result of `Dbl.round` on a
  non-negative dyadic, as in `C03_float.lean`) for the absolute value, or the computable test
  `Dbl.finiteFloatB` / `Dbl.finiteWeightB` (`round |m| e` has the value of `fin |m| e`).

  THE EXACT CONDITION IS FALSE IN GENERAL.  `Proofs.floatReadsB d nz` / `FloatReads` ask that the
  very `Dbl` TERM `d` comes back.  `Dbl` holds a power of two `2^E` as `2^52·2^(E-52)` or as
  `2^53·2^(E-53)`, and the reader builds the second when the printed decimal lies below `2^E`:
  the DSL literal `0.000000000931322574615478515625` (= 2^-30) is `fin 2^52 (-82)`, prints as
  `9.313225746154785e-10`, and is read back as `fin 2^53 (-83)` (`C05_float_exact_fails_at_power_of_two`);
  `0.99999999999999999999` is `fin 2^53 (-53)`, prints as `1.0`, read back as `fin 2^52 (-52)`.
  Same float, other pair.  So the general theorems are stated up to the representation
  (`Proofs.floatStableB`: a float literal; the same normal form `Dbl.norm`; the same `-0.0` flag;
  the same printed text), which is the side condition of
  `C13_python_reads_back_the_lines_up_to_float_representation`; the exact condition is proved
  away from powers of two (`C05_float_literal_reads_back_exactly`).

  Not covered: `inf`, `-inf`, `nan` (Python reads these texts as names — finding family K2);
  they are excluded by `finiteFloatB`, as they must be.
-/
import Pyab.Properties.C13_reader
import Pyab.Proofs.FloatRepr
import Pyab.Proofs.ChoiceFloat
namespace Pyab.Properties
open Pyab Pyab.Spec Pyab.Proofs Pyab.PyRead

/-! ### (A) the digits: seventeen suffice -/

/-- **the digit search of `repr` succeeds on every genuine positive double** (normal or
    subnormal, up to the largest finite value): it returns one of the two `p`-digit decimals
    around the exact value for some `p ≤ 17`, the digits are not zero, and `float("…")` of
    them is the double (`==` on `Dbl` is equality of values; as terms: the same normal form —
    `decToDbl` builds the 53-bit pair, `norm` the odd-mantissa pair, so plain `=` would be false) -/
theorem C05_float_shortest_digits_read_back (m : Nat) (e : Int) (hm : m ≠ 0)
    (h : Dbl.NonnegDouble (.fin (m : Int) e)) :
    (∃ p, 1 ≤ p ∧ p ≤ 17 ∧
      Dbl.shortestDigits m e ∈ Dbl.sigCandidates (Dbl.toFrac m e).1 (Dbl.toFrac m e).2 p) ∧
    (Dbl.shortestDigits m e).1 ≠ 0 ∧
    (Dbl.decToDbl (Dbl.shortestDigits m e).1 (Dbl.shortestDigits m e).2 == Dbl.norm (.fin (m : Int) e))
      = true ∧
    Dbl.norm (Dbl.decToDbl (Dbl.shortestDigits m e).1 (Dbl.shortestDigits m e).2)
      = Dbl.norm (.fin (m : Int) e) := by
  obtain ⟨p, h1, h2, _, h4, h5⟩ := Dbl.shortestDigits_good m hm e h.isRep
  have h6 := (Dbl.keepB_iff _ (Dbl.shortestDigits m e).1 (Dbl.shortestDigits m e).2).1 h5
  refine ⟨⟨p, h1, h2, h4⟩, h6.1, h6.2, ?_⟩
  obtain ⟨m1, e1, g1, g2, _, g4⟩ := Dbl.repr_reads (m : Int) e (by omega) (by simpa using h.isRep)
  obtain ⟨k1, rfl⟩ : ∃ k1 : Nat, m1 = (k1 : Int) := ⟨m1.toNat, by omega⟩
  rw [Int.natAbs_natCast] at g2 g4
  rw [← g4]
  exact Dbl.norm_congr k1 m (by omega) hm e1 e (by exact_mod_cast g2)

/-- the double `float("…")` builds depends on the number written, not on how it is written:
    trailing zeros in the digit block against the exponent change nothing (so `2.50`, `25e-1`,
    `0.25e1` are one `Dbl` term) -/
theorem C05_float_same_number_same_double (D k : Nat) (s : Int) (hD : D ≠ 0) :
    Dbl.decToDbl (D * 10 ^ k) (s - (k : Int)) = Dbl.decToDbl D s :=
  Dbl.decToDbl_congr _ _ _ _ (Nat.mul_ne_zero hD (by positivity)) hD
    (by rw [Nat.mul_comm]; exact Dbl.decVal_scale D s k)

/-- a DSL float literal `ip.fp` is what Python's reader builds from the same digits -/
theorem C05_float_lexer_value_is_reader_value (digits scale : Nat) :
    Dbl.ofDecimal false digits scale = Dbl.decToDbl digits (-(scale : Int)) :=
  Dbl.ofDecimal_eq_decToDbl digits scale

/-- **a decimal literal of ANY length denotes the nearest double of its exact value, ties to even.**  The DSL literal with the digit string
    `digits` and `scale` fraction digits (value `digits / 10^scale`, however many digits that is) is converted to the binary64 value that
    `Dbl.RSpec` describes: `r = Q·2^k` with `k` the ulp exponent of the exact value, `Q` the integer nearest to `value / 2^k`, the even one on
    a tie, gradual underflow at `2^-1074`; a finite `Dbl` when `r < 2^1024`, `+inf` otherwise.  No digit is ignored: the statement is about the
    exact rational.  (The correspondence side is `harness/props/c05.py: long_decimals` — literals of up to 6000 digits on, just above and just
    below the midpoint of two adjacent doubles.) -/
theorem C05_float_literal_correctly_rounded (digits scale : Nat) (hd : digits ≠ 0) :
    ∃ r : ℚ, Dbl.RSpec ((digits : ℚ) / ((10 ^ scale : Nat) : ℚ)) r ∧
      ((r < 2 ^ (1024 : Int) ∧ ∃ m' e', Dbl.ofDecimal false digits scale = Dbl.fin m' e' ∧ 0 ≤ m' ∧ (m' : ℚ) * 2 ^ e' = r) ∨
       ((2 : ℚ) ^ (1024 : Int) ≤ r ∧ Dbl.ofDecimal false digits scale = Dbl.pinf)) :=
  Dbl.roundRat_spec digits (10 ^ scale) hd (by positivity)

/-- the rounding is a function of the exact value: the rounded value `RSpec` describes is unique -/
theorem C05_float_literal_rounding_unique {v r1 r2 : ℚ} (h1 : Dbl.RSpec v r1) (h2 : Dbl.RSpec v r2) : r1 = r2 :=
  Dbl.RSpec_unique h1 h2

/-- non-vacuity (a concrete literal, evaluated by the kernel): `0.5` is the double `2^-1` and `0.1` is `3602879701896397 · 2^-55` -/
example : (match Dbl.norm (Dbl.ofDecimal false 5 1) with | .fin m e => m == 1 && e == -1 | _ => false) = true := by decide +kernel
example : (match Dbl.norm (Dbl.ofDecimal false 1 1) with | .fin m e => m == 3602879701896397 && e == -55 | _ => false) = true := by decide +kernel

/-! ### (B) the text: `repr` is read back -/

/-- **the text of `repr` reads back.**  For a non-zero finite double whose absolute value is a
    genuine binary64 value, the reader's number scanner reads the printed text — fixed or
    exponent notation, the sign — as the sign and a positive finite double that is `float("…")`
    of the shortest digits and has the same normal form as the absolute value -/
theorem C05_float_repr_reads_back (m e : Int) (hm : m ≠ 0)
    (h : Dbl.NonnegDouble (.fin (m.natAbs : Int) e)) :
    ∃ m1 e1 : Int, 0 < m1 ∧
      readFloatText (Dbl.repr (.fin m e)).toList = some (decide (m < 0), .fin m1 e1) ∧
      Dbl.fin m1 e1 = Dbl.decToDbl (Dbl.shortestDigits m.natAbs e).1 (Dbl.shortestDigits m.natAbs e).2 ∧
      Dbl.norm (.fin m1 e1) = Dbl.norm (.fin (m.natAbs : Int) e) := by
  obtain ⟨m1, e1, h1, h2, h3, h4⟩ := Dbl.repr_reads m e hm h.isRep
  obtain ⟨k1, rfl⟩ : ∃ k1 : Nat, m1 = (k1 : Int) := ⟨m1.toNat, by omega⟩
  refine ⟨_, e1, h1, h3, h4, ?_⟩
  exact Dbl.norm_congr k1 m.natAbs (by omega) (by omega) e1 e (by exact_mod_cast h2)

/-- the float side condition of the reader (up to the representation) for every finite double:
    zero with or without the `-0.0` flag; a non-zero `m·2^e` with `|m|·2^e` a genuine double -/
theorem C05_float_constant_stable (m e : Int) (nz : Bool)
    (h : (m = 0) ∨ (nz = false ∧ Dbl.NonnegDouble (.fin (m.natAbs : Int) e))) :
    floatStableB (.fin m e) nz = true := by
  rcases h with rfl | ⟨rfl, h⟩
  · exact Dbl.floatStableB_zero e nz
  · exact Dbl.floatStableB_fin m e (Or.inr h.isRep)

theorem C05_float_weight_stable (m e : Int)
    (h : (m = 0) ∨ Dbl.NonnegDouble (.fin (m.natAbs : Int) e)) :
    weightStableB (.fin m e) = true :=
  Dbl.weightStableB_fin m e (h.imp id Dbl.NonnegDouble.isRep)

/-- the same from the computable test `finiteFloatB` (finite, a fixed point of `Dbl.round`, the
    `-0.0` flag only on a zero) -/
theorem C05_float_finite_is_stable (d : Dbl) (nz : Bool) (h : Dbl.finiteFloatB d nz = true) :
    floatStableB d nz = true :=
  Dbl.floatStableB_of_finite d nz h

theorem C05_float_finite_weight_is_stable (d : Dbl) (h : Dbl.finiteWeightB d = true) :
    weightStableB d = true :=
  Dbl.weightStableB_of_finite d h

/-! ### (C) the floats of the DSL -/

/-- the `-0.0` flag the grammar action for `- <float literal>` computes -/
theorem C05_float_parser_flag (d : Dbl) :
    (match d with | .fin 0 _ => true | _ => false) = Dbl.negZeroFlag d := rfl

/-- **every finite double a DSL float literal can denote reads back**: the literal `ip.fp`
    (`Dbl.ofDecimal false digits scale`, what the lexer builds) and its negation `- ip.fp` (with
    the `-0.0` flag the parser sets) pass the finiteness test, hence the reader's float side
    condition: the printed text is a float literal that Python reads as a float of the same
    value (`Dbl.norm`), the same `-0.0` flag, and the same printed text -/
theorem C05_float_literal_reads_back (digits scale : Nat)
    (hfin : (Dbl.ofDecimal false digits scale).isFinite = true) :
    floatStableB (Dbl.ofDecimal false digits scale) false = true ∧
    floatStableB (Dbl.neg (Dbl.ofDecimal false digits scale))
      (Dbl.negZeroFlag (Dbl.ofDecimal false digits scale)) = true := by
  obtain ⟨h1, _, h3, _⟩ :=
    Dbl.finiteFloatB_of_isRep _ (Dbl.ofDecimal_nonnegDouble digits scale hfin).isRep
  exact ⟨Dbl.floatStableB_of_finite _ _ h1, Dbl.floatStableB_of_finite _ _ h3⟩

/-- what the side condition gives (`C13_reader_reread_same_value`): the re-read constant reads
    back EXACTLY, prints as the same text, has the same value and flag -/
theorem C05_float_literal_reread (digits scale : Nat)
    (hfin : (Dbl.ofDecimal false digits scale).isFinite = true) :
    let d := Dbl.ofDecimal false digits scale
    FloatReads (rereadFloat d false).1 (rereadFloat d false).2 ∧
      floatStr (rereadFloat d false).1 (rereadFloat d false).2 = floatStr d false ∧
      Dbl.norm (rereadFloat d false).1 = Dbl.norm d ∧ (rereadFloat d false).2 = false :=
  floatStable_spec (C05_float_literal_reads_back digits scale hfin).1

/-- an integer operand the validator turns into a float (`float(i)`, either sign) -/
theorem C05_float_int_operand_reads_back (i : Int) (hfin : (Dbl.ofInt i).isFinite = true) :
    floatStableB (Dbl.ofInt i) false = true :=
  Dbl.floatStableB_of_finite _ _ (Dbl.finiteFloatB_ofInt i hfin)

/-- **every finite weight reads back**: a decimal weight, and an integer weight the validator
    turned into a float (`Dbl.ofNat n = n·2^0`, which Python holds as the 53-bit pair: the same
    value, stated up to `Dbl.norm` by `weightStableB`) -/
theorem C05_float_weight_reads_back :
    (∀ digits scale : Nat, (Dbl.ofDecimal false digits scale).isFinite = true →
      weightStableB (Dbl.ofDecimal false digits scale) = true) ∧
    (∀ n : Nat, (Dbl.ofNat n).isFinite = true → weightStableB (Dbl.ofNat n) = true) := by
  constructor
  · intro digits scale hfin
    exact Dbl.weightStableB_of_finite _
      (Dbl.finiteFloatB_of_isRep _ (Dbl.ofDecimal_nonnegDouble digits scale hfin).isRep).2.1
  · intro n hfin
    exact Dbl.weightStableB_of_finite _
      (Dbl.finiteFloatB_of_isRep _ (Dbl.ofNat_nonnegDouble n hfin).isRep).2.1

/-- the DSL's float constants pass the computable test (so the hypothesis of
    `C05_python_reads_back_the_lines` below holds for them) -/
theorem C05_float_dsl_constants_are_finite :
    (∀ digits scale : Nat, (Dbl.ofDecimal false digits scale).isFinite = true →
      Dbl.finiteFloatB (Dbl.ofDecimal false digits scale) false = true ∧
      Dbl.finiteFloatB (Dbl.neg (Dbl.ofDecimal false digits scale))
        (Dbl.negZeroFlag (Dbl.ofDecimal false digits scale)) = true ∧
      Dbl.finiteWeightB (Dbl.ofDecimal false digits scale) = true) ∧
    (∀ i : Int, (Dbl.ofInt i).isFinite = true → Dbl.finiteFloatB (Dbl.ofInt i) false = true) ∧
    (∀ n : Nat, (Dbl.ofNat n).isFinite = true → Dbl.finiteWeightB (Dbl.ofNat n) = true) := by
  refine ⟨fun digits scale hfin => ?_, Dbl.finiteFloatB_ofInt, fun n hfin => ?_⟩
  · obtain ⟨h1, h2, h3, _⟩ :=
      Dbl.finiteFloatB_of_isRep _ (Dbl.ofDecimal_nonnegDouble digits scale hfin).isRep
    exact ⟨h1, h3, h2⟩
  · exact (Dbl.finiteFloatB_of_isRep _ (Dbl.ofNat_nonnegDouble n hfin).isRep).2.1

/-! ### the exact condition -/

/-- **exactly**: a DSL float literal whose double is not a power of two above the subnormal range
    (mantissa `≠ 2^53`, and `≠ 2^52` unless the exponent is `-1074`) is read back from its
    printed text as the very same `Dbl` term, with either sign, as a constant and as a weight -/
theorem C05_float_literal_reads_back_exactly (digits scale n : Nat) (e : Int) (hd : digits ≠ 0)
    (h : Dbl.ofDecimal false digits scale = .fin (n : Int) e) (hn : n ≠ 0) (h53 : n ≠ 2 ^ 53)
    (h52 : ¬ (n = 2 ^ 52 ∧ e ≠ -1074)) :
    FloatReads (.fin (n : Int) e) false ∧ FloatReads (.fin (-(n : Int)) e) false ∧
      WeightReads (.fin (n : Int) e) ∧ WeightReads (.fin (-(n : Int)) e) := by
  rw [Dbl.ofDecimal_eq_decToDbl] at h
  obtain ⟨h1, h2, h3, h4⟩ := Dbl.floatReadsB_exact digits _ hd n e h hn h53 h52
  exact ⟨floatReads_of_B h1, floatReads_of_B h2, weightReads_of_B h3, weightReads_of_B h4⟩

/-- the exception is necessary: the literal `0.000000000931322574615478515625` (= 2^-30) fails the
    exact condition and satisfies the one up to the representation; so does `0.99999999999999999999`
    (which rounds up to `1.0 = 2^53·2^-53`) -/
theorem C05_float_exact_fails_at_power_of_two :
    floatReadsB (Dbl.ofDecimal false 931322574615478515625 30) false = false ∧
    floatStableB (Dbl.ofDecimal false 931322574615478515625 30) false = true ∧
    rereadFloat (Dbl.ofDecimal false 931322574615478515625 30) false = (.fin (2 ^ 53) (-83), false) ∧
    Dbl.ofDecimal false 931322574615478515625 30 = .fin (2 ^ 52) (-82) ∧
    floatReadsB (Dbl.ofDecimal false 99999999999999999999 20) false = false ∧
    floatStableB (Dbl.ofDecimal false 99999999999999999999 20) false = true := by
  refine ⟨by decide +kernel, by decide +kernel, ?_, ?_, by decide +kernel, by decide +kernel⟩
  · exact Prod.ext (eq_of_dblSame (by decide +kernel)) (by decide +kernel)
  · exact eq_of_dblSame (by decide +kernel)

/-! ### the generated text, with no float side condition left -/

/-- the side condition on the source with the float part reduced to finiteness: identifiers are
    Python names (`isPyName`), float constants are finite genuine doubles (the `-0.0` flag only on
    a zero), float weights are finite genuine doubles -/
abbrev condSrcFinite := condSrcOKW Dbl.finiteFloatB Dbl.finiteWeightB

/-- it implies the computed condition of `C13_python_reads_back_the_lines_up_to_float_representation`
    on every emitted line -/
theorem C05_lines_stable_of_finite (cfg : GenCfg) (hc : CanonicalExpr cfg) (c : Cond) (d : Nat)
    (L : List ILine) (hok : condSrcFinite c = true) (h : bodyLines cfg d c = .ok L) :
    ∀ x ∈ L, LineStable x.2 :=
  linesOKW_body (fun d nz h => Dbl.floatStableB_of_finite d nz h)
    (fun d h => Dbl.weightStableB_of_finite d h) cfg hc c d L hok h

/-- **Python reads back the lines — floats discharged.**  As
    `C13_python_reads_back_the_lines_up_to_float_representation`, with NO computed condition on the
    float constants left: it is enough that they are finite doubles (`condSrcFinite`; `inf` and
    `nan` are genuinely excluded — family K2), which every finite DSL literal, negated literal,
    integer operand and weight is (`C05_float_dsl_constants_are_finite`).  The body text is read
    as `L` with each float constant re-read: the same lines, indentation, statements, names,
    operators, ints and strings; float constants of the same value, flag and printed text. -/
theorem C05_python_reads_back_the_lines (cfg : GenCfg) (hc : CanonicalExpr cfg) (e : Experiment)
    (expose : Bool) (L : List ILine) (hok : condSrcFinite e.cond = true)
    (h : bodyLines cfg (bodyDepth expose) e.cond = .ok L) :
    ∃ B, genText cfg e expose = .ok (moduleText cfg e expose B) ∧
      readBody B = some (L.map rereadILine) := by
  obtain ⟨c, r, h1, h2, h3, h4⟩ :=
    genText_eq_lines cfg hc.strTerm hc.tuples (readBack_repr cfg) e expose L h
  have hL := C05_lines_stable_of_finite cfg hc e.cond _ L hok h
  refine ⟨c ++ "\n" ++ r, h4, ?_⟩
  have := read_print_body_reread cfg.printable L.dropLast (bodyDepth expose, .raiseU) c r
    (fun y hy => hL y (List.dropLast_subset L hy)) trivial h1 h2
  obtain ⟨ys, rfl⟩ := List.getLast?_eq_some_iff.mp h3
  simpa using this

/-- printed lines whose float constants are finite doubles are read back as those lines, floats
    re-read — the line-level form -/
theorem C05_reader_lines (printable : Nat → Bool) (L : List ILine) (s : String)
    (hok : ∀ x ∈ L, lineOKBW Dbl.finiteFloatB Dbl.finiteWeightB x.2 = true)
    (h : printLines printable L = .ok s) : readBody s = some (L.map rereadILine) :=
  read_print_lines_reread printable L s
    (fun x hx => lineOKW_of_B (fun d nz h => Dbl.floatStableB_of_finite d nz h)
      (fun d h => Dbl.weightStableB_of_finite d h) (hok x hx)) h

/-! ### examples -/

/-- the example conditional of `C13_reader.lean` (integer weights held as `Dbl.ofNat 1`, a decimal
    constant and weight): the finiteness condition, by evaluation of `Dbl.round` only -/
example : condSrcFinite C13_reader_floatWeights = true := by decide +kernel

example (L : List ILine) (h : bodyLines Generated.genCfg 2 C13_reader_floatWeights = .ok L) :
    ∃ B, genText Generated.genCfg ⟨"exp", none, some ["uid"], C13_reader_floatWeights⟩ false
        = .ok (moduleText Generated.genCfg ⟨"exp", none, some ["uid"], C13_reader_floatWeights⟩ false B) ∧
      readBody B = some (L.map rereadILine) :=
  C05_python_reads_back_the_lines Generated.genCfg C02_generator_canonical
    ⟨"exp", none, some ["uid"], C13_reader_floatWeights⟩ false L (by decide +kernel) h

/-- the theorems against evaluation: a power of two printed in exponent notation, `0.1`
    (`#eval Dbl.repr (.fin 1 (-1074))` is `"5e-324"`, `#eval Dbl.repr (.fin (2^53-1) 971)` is
    `"1.7976931348623157e+308"`; in the kernel these two take 15 s each, so they are not replayed
    here — the theorems cover them) -/
example : Dbl.repr (.fin 1 100) = "1.2676506002282294e+30" ∧ Dbl.repr (Dbl.ofDecimal false 1 1) = "0.1" := by
  refine ⟨?_, ?_⟩ <;> decide +kernel

/-- the smallest subnormal and the negated largest finite double: by the theorem -/
example : floatStableB (.fin 1 (-1074)) false = true :=
  C05_float_finite_is_stable _ _ (by decide +kernel)
example : floatStableB (.fin (-(2 ^ 53 - 1)) 971) false = true :=
  C05_float_finite_is_stable _ _ (by decide +kernel)
/-- `inf`, `nan`, and a dyadic with 54 significant bits are not finite doubles -/
example : Dbl.finiteFloatB .pinf false = false ∧ Dbl.finiteFloatB .nan false = false ∧
    Dbl.finiteFloatB (.fin (2 ^ 53 + 1) 0) false = false := by
  refine ⟨?_, ?_, ?_⟩ <;> decide +kernel

end Pyab.Properties
