/-
  C09 — assignment depends only on the salt, the splitter values and the routed branch.
  Statements; proofs in `Pyab/Proofs/RunGenerated.lean`.  The right-hand side `specRun`
  is in `Pyab/Spec/Run.lean`.
-/
import Pyab.Spec.Run
import Pyab.Properties.EvaluatorPremise
import Pyab.Proofs.RunGenerated
import Pyab.Properties.C02
namespace Pyab.Properties
open Pyab Pyab.Spec Pyab.Proofs Pyab.Proofs.Run

/-- a small experiment used by the examples: one splitter, one condition field -/
def exC09 : Experiment :=
  { id := "exp", salt := some "s", splitters := some ["uid"],
    cond := .ifte (.cmp (.ident "country") .eq (.int 1))
              (.ret [⟨.int 10, .i 1⟩, ⟨.int 20, .i 1⟩])
              (.else_ (.ret [⟨.int 30, .i 1⟩])) }

/-- **Factorisation.** Executing the generated function equals: check that the declared
    fields are present; select a return statement by the reference routing; then choose from
    its population by the key `salt ++ str(splitter values in sorted-name order)` (or hand
    the weighted population to `random.choices` when no splitter is declared).  Nothing
    else of the experiment or the call enters the result.  Hypothesis `hL`: the body can be
    emitted at all (an int literal beyond the digit limit makes rendering raise; then both
    sides are not comparable because `specRun` never renders a branch that is not taken). -/
theorem C09_factorisation (cfg : RunCfg) (hc : CanonicalExpr cfg.toGenCfg) (hs : cfg.strReprSalt = true)
    (e : Experiment) (env : Env) (L : List ILine) (hL : bodyLines cfg.toGenCfg 2 e.cond = .ok L) :
    runGenerated cfg e env = specRun cfg e env :=
  runGenerated_eq_specRun cfg hc (readBack_repr cfg.toGenCfg) hs e env L hL

example (env : Env) : runGenerated Generated.runCfg exC09 env = specRun Generated.runCfg exC09 env :=
  C09_factorisation Generated.runCfg C02_generator_canonical rfl exC09 env _ rfl

/-- when the body cannot be emitted (an int literal beyond the digit limit in some branch,
    finding family K2) the call — were the module to load at all — raises that error -/
theorem C09_emit_failure (cfg : RunCfg) (hc : CanonicalExpr cfg.toGenCfg) (hs : cfg.strReprSalt = true)
    (e : Experiment) (env : Env) (err : Err) (hL : bodyLines cfg.toGenCfg 2 e.cond = .error err)
    (hp : ∀ n ∈ e.params cfg.toGenCfg, (env.get n).isSome = true) :
    runGenerated cfg e env = .error err := by
  rw [runGenerated_eq cfg hc (readBack_repr cfg.toGenCfg) hs, hL]
  have h1 : (e.params cfg.toGenCfg).all (fun p => (env.get p).isSome) = true := List.all_eq_true.2 hp
  simp [h1]

example : runGenerated Generated.runCfg { exC09 with cond := .ret [⟨.ident "g", .i 1⟩] } [("uid", .none)]
    = .error (.other "group-definition-not-literal") :=
  C09_emit_failure Generated.runCfg C02_generator_canonical rfl _ _ _ rfl (by decide)

/-- **Only the declared fields are read.**  Two calls whose keyword arguments agree on the
    declared parameters, the condition fields and the splitters have the same result —
    whatever else is passed (extra keyword arguments are ignored) and in whatever order
    the arguments are given.  No hypothesis about the body being emitted is needed. -/
theorem C09_only_declared_fields (cfg : RunCfg) (hc : CanonicalExpr cfg.toGenCfg) (hs : cfg.strReprSalt = true)
    (e : Experiment) (env env' : Env)
    (h : ∀ n ∈ e.params cfg.toGenCfg ++ e.condIds cfg.toGenCfg ++ e.localVars, env.get n = env'.get n) :
    runGenerated cfg e env = runGenerated cfg e env' :=
  runGenerated_agree cfg hc (readBack_repr cfg.toGenCfg) hs e env env' h

/-- an extra argument and another argument order -/
example : runGenerated Generated.runCfg exC09 [("uid", .str "u1"), ("country", .int 1)]
    = runGenerated Generated.runCfg exC09 [("extra", .none), ("country", .int 1), ("uid", .str "u1")] :=
  C09_only_declared_fields Generated.runCfg C02_generator_canonical rfl exC09 _ _ (by
    intro n hn
    have hl : exC09.params Generated.runCfg.toGenCfg ++ exC09.condIds Generated.runCfg.toGenCfg
        ++ exC09.localVars = ["uid", "country", "country", "uid"] := by decide
    rw [hl] at hn
    simp only [List.mem_cons, List.not_mem_nil, or_false] at hn
    rcases hn with rfl | rfl | rfl | rfl <;> rfl)

/-- **The experiment's name is irrelevant** to the assignment. -/
theorem C09_experiment_name_irrelevant (cfg : RunCfg) (e : Experiment) (n : String) (env : Env) :
    runGenerated cfg { e with id := n } env = runGenerated cfg e env := rfl

/-- **Missing field.** A declared parameter that is not passed is a missing-argument error,
    before anything else is looked at. -/
theorem C09_missing_field (cfg : RunCfg) (e : Experiment) (env : Env) (n : String)
    (hn : n ∈ e.params cfg.toGenCfg) (hmiss : env.get n = none) :
    runGenerated cfg e env = .error .missingField := by
  unfold runGenerated
  have : (e.params cfg.toGenCfg).all (fun p => (env.get p).isSome) = false := by
    rw [List.all_eq_false]
    exact ⟨n, hn, by simp [hmiss]⟩
  simp only [this, Bool.not_false, if_true]
  rfl

example : runGenerated Generated.runCfg exC09 [("uid", .str "u1")] = .error .missingField :=
  C09_missing_field Generated.runCfg exC09 _ "country" (by decide) rfl

/-- every splitter and every condition field is a declared parameter, whether or not the
    generator de-duplicates the signature -/
theorem C09_splitters_and_condition_fields_are_params (cfg : GenCfg) (e : Experiment) :
    ∀ n ∈ e.localVars ++ e.condIds cfg, n ∈ e.params cfg :=
  fun n hn => mem_params_of_mem cfg e n hn

/-- and nothing else is -/
theorem C09_params_are_splitters_or_condition_fields (cfg : GenCfg) (e : Experiment) :
    ∀ n ∈ e.params cfg, n ∈ e.localVars ++ e.condIds cfg :=
  fun n hn => mem_of_mem_params cfg e n hn

example : "country" ∈ exC09.localVars ++ exC09.condIds Generated.genCfg :=
  C09_params_are_splitters_or_condition_fields _ exC09 "country" (by decide)

example : "uid" ∈ exC09.params Generated.genCfg ∧ "country" ∈ exC09.params Generated.genCfg :=
  ⟨C09_splitters_and_condition_fields_are_params _ exC09 "uid" (by decide),
   C09_splitters_and_condition_fields_are_params _ exC09 "country" (by decide)⟩

/-- **Same branch, same splitter values ⇒ same result.**  If the reference routing selects
    the same return statement for two calls, the splitter values agree and no declared
    field is missing in either, the two calls give the same result — the values of the
    condition fields matter only through the branch they select. -/
theorem C09_same_branch_same_result (cfg : RunCfg) (hc : CanonicalExpr cfg.toGenCfg) (hs : cfg.strReprSalt = true)
    (e : Experiment) (env env' : Env) (L : List ILine) (hL : bodyLines cfg.toGenCfg 2 e.cond = .ok L)
    (hroute : specRoute env e.cond = specRoute env' e.cond)
    (hsplit : ∀ n ∈ e.localVars, env.get n = env'.get n)
    (hp : ∀ n ∈ e.params cfg.toGenCfg, (env.get n).isSome = true)
    (hp' : ∀ n ∈ e.params cfg.toGenCfg, (env'.get n).isSome = true) :
    runGenerated cfg e env = runGenerated cfg e env' := by
  rw [C09_factorisation cfg hc hs e env L hL, C09_factorisation cfg hc hs e env' L hL]
  rw [specRun_eq, specRun_eq]
  have h1 : (e.params cfg.toGenCfg).all (fun p => (env.get p).isSome) = true := List.all_eq_true.2 hp
  have h2 : (e.params cfg.toGenCfg).all (fun p => (env'.get p).isSome) = true := List.all_eq_true.2 hp'
  have hr : routed cfg.toGenCfg env e.cond = routed cfg.toGenCfg env' e.cond := by
    unfold routed; rw [hroute]
  have hcs : ∀ pop ws, choiceStage cfg e env pop ws = choiceStage cfg e env' pop ws :=
    fun pop ws => choiceStage_agree cfg e env env' pop ws hsplit
  simp only [h1, h2, hr, hcs]

/-- country `1` and country `True` select the same branch -/
example : runGenerated Generated.runCfg exC09 [("uid", .str "u1"), ("country", .int 1)]
    = runGenerated Generated.runCfg exC09 [("uid", .str "u1"), ("country", .bool true)] :=
  C09_same_branch_same_result Generated.runCfg C02_generator_canonical rfl exC09 _ _ _ rfl
    rfl
    (by
      intro n hn
      have hl : exC09.localVars = ["uid"] := by decide
      rw [hl] at hn
      simp only [List.mem_cons, List.not_mem_nil, or_false] at hn
      subst hn; rfl)
    (by decide) (by decide)

end Pyab.Properties
