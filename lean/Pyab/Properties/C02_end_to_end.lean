/-
  C02 / C09 end to end, for the pipeline as it is in /repo now: whatever text the real
  lexer tables, LR tables and compile checks accept, evaluating it is the reference meaning
  `specRun` of the accepted experiment — routing by nested if / else-if / else, key from salt
  and sorted splitters, choice by the interval rule's code.
-/
import Pyab.Properties.C09
import Pyab.Properties.C06
import Pyab.Generated.Pipeline
namespace Pyab.Properties
open Pyab Pyab.Spec

/-- if the source compiles to `e`, every call is `specRun e` -/
theorem C02_compiled_text_runs_as_spec (text : String) (e : Experiment) (env : Env)
    (hcomp : Generated.pipeline.compile text = .ok e) :
    Generated.pipeline.runText text env = specRun Generated.runCfg e env := by
  have hrun : Generated.pipeline.run = Generated.runCfg := rfl
  simp only [Pipeline.runText, hcomp, bind, Except.bind, hrun]
  -- compileChecks succeeded, so the body could be emitted
  have hL : ∃ L, bodyLines Generated.genCfg 2 e.cond = .ok L := by
    simp only [Pipeline.compile, bind, Except.bind] at hcomp
    split at hcomp
    · cases hcomp
    · split at hcomp
      · cases hcomp
      · rename_i e' _
        split at hcomp
        · cases hcomp
        · rename_i hchk
          simp only [pure, Except.pure, Except.ok.injEq] at hcomp
          subst hcomp
          simp only [compileChecks, bind, Except.bind, hrun] at hchk
          split at hchk
          · cases hchk
          · split at hchk
            · cases hchk
            · split at hchk
              · cases hchk
              · cases hb : bodyLines Generated.runCfg.toGenCfg 2 e'.cond with
                | error err => simp [hb] at hchk
                | ok L => exact ⟨L, hb⟩
  obtain ⟨L, hL⟩ := hL
  exact C09_factorisation Generated.runCfg C02_generator_canonical rfl e env L hL

/-- and what compiles is a sentence of the documented grammar, all of whose characters are
    tokens or trivia -/
theorem C02_compiled_text_is_a_sentence (text : String) (e : Experiment)
    (hcomp : Generated.pipeline.compile text = .ok e) :
    ∃ toks, lex Generated.lexSpec text = .ok toks ∧
      Spec.Derives Spec.documentedProds "header" (toks.map (·.kind)) := by
  simp only [Pipeline.compile, bind, Except.bind] at hcomp
  have hlx : Generated.pipeline.lex = Generated.lexSpec := rfl
  have hlr : Generated.pipeline.lr = Generated.lrTables := rfl
  rw [hlx, hlr] at hcomp
  cases hl : lex Generated.lexSpec text with
  | error err => simp [hl] at hcomp
  | ok toks =>
      simp only [hl] at hcomp
      cases hp : lrParse Generated.lrTables toks with
      | error err => simp [hp] at hcomp
      | ok e' => exact ⟨toks, rfl, C06_parse_sound toks e' hp⟩

end Pyab.Properties
