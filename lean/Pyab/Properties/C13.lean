/-
  C13 — source text is inert data: the structure of the emitted program does not depend
  on the contents of any string in the experiment source.  Replacing every string of the
  source (predicate operands, tuple members, group names) by arbitrary other text changes
  nothing of the emitted lines except the constants themselves: same lines, same
  indentation, same names, same operators, same number of groups, same weights; and
  whether the generator succeeds, and with which error it fails, is the same too.
  Proofs in `Pyab/Proofs/Mask.lean`.
-/
import Pyab.Generated.Config
import Pyab.Properties.EvaluatorPremise
import Pyab.Properties.C02
import Pyab.Properties.C05
import Pyab.Proofs.Mask
namespace Pyab.Properties
open Pyab Pyab.Spec Pyab.Proofs

/-! ### concrete values used by the examples -/

/-- text that would call `print` if it were ever spliced into the program unquoted -/
def C13_injection : String := "'+str(print('PWNED'))+'"

/-- a conditional with a string comparison, a tuple of strings and string group names -/
def C13_exampleCond : Cond :=
  .ifte (.cmp (.ident "country") .eq (.str "US"))
    (.ret [⟨.str "control", .i 1⟩, ⟨.str "variant", .i 1⟩])
    (.elif (.cmp (.ident "country") .isIn (.tuple [.str "CA", .str "MX"]))
      (.ret [⟨.str "north", .i 3⟩])
      (.else_ (.ret [⟨.str "other", .i 2⟩])))

/-- a conditional the generator rejects: a group definition that is not a literal -/
def C13_failingCond : Cond :=
  .ifte (.cmp (.ident "country") .eq (.str "US"))
    (.ret [⟨.str "control", .i 1⟩, ⟨.ident "oops", .i 1⟩])
    .none

private theorem dig1 : ¬ (PyVal.maxStrDigits < PyVal.natDigits 1) := by decide
private theorem dig2 : ¬ (PyVal.maxStrDigits < PyVal.natDigits 2) := by decide
private theorem dig3 : ¬ (PyVal.maxStrDigits < PyVal.natDigits 3) := by decide
private theorem gen_strTerm : Generated.genCfg.strReprTerm = true := rfl
private theorem gen_tuples : Generated.genCfg.tupleRecursive = true := rfl
private theorem gen_eq : Generated.genCfg.op CmpOp.eq.name = "==" := by decide
private theorem gen_in : Generated.genCfg.op CmpOp.isIn.name = "in" := by decide

/-- the lines emitted for the example conditional -/
theorem C13_example_lines :
    bodyLines Generated.genCfg 2 C13_exampleCond = .ok
      [(2, .ifL (.cmp (.name "country") "==" (.const (.str "US")))),
       (3, .ret [.str "control", .str "variant"] [.i 1, .i 1]),
       (2, .elifL (.cmp (.name "country") "in" (.tuple [.const (.str "CA"), .const (.str "MX")]))),
       (3, .ret [.str "north"] [.i 3]),
       (2, .elseL),
       (3, .ret [.str "other"] [.i 2]),
       (2, .raiseU)] := by
  simp [C13_exampleCond, bodyLines, linesCond, linesSub, lowerPred, lowerTerm, lowerTerms,
    lowerReturn, retVals, groupVal, readBack_repr, renderWeight, intStr, bind, Except.bind, pure,
    Except.pure, dig1, dig2, dig3, gen_strTerm, gen_tuples, gen_eq, gen_in]

/-- the lines emitted when every string of the example is replaced by the injection text:
    the text sits inside single constants, the lines are otherwise the same -/
theorem C13_example_lines_injected :
    bodyLines Generated.genCfg 2 (substCond (fun _ => C13_injection) C13_exampleCond) = .ok
      [(2, .ifL (.cmp (.name "country") "==" (.const (.str C13_injection)))),
       (3, .ret [.str C13_injection, .str C13_injection] [.i 1, .i 1]),
       (2, .elifL (.cmp (.name "country") "in"
             (.tuple [.const (.str C13_injection), .const (.str C13_injection)]))),
       (3, .ret [.str C13_injection] [.i 3]),
       (2, .elseL),
       (3, .ret [.str C13_injection] [.i 2]),
       (2, .raiseU)] := by
  simp [C13_exampleCond, substCond, substSub, substPred, substTerm, substTerms, substGroup,
    bodyLines, linesCond, linesSub, lowerPred, lowerTerm, lowerTerms,
    lowerReturn, retVals, groupVal, readBack_repr, renderWeight, intStr, bind, Except.bind, pure,
    Except.pure, dig1, dig2, dig3, gen_strTerm, gen_tuples, gen_eq, gen_in]

/-- the generator's error on the failing example -/
theorem C13_failing_error :
    bodyLines Generated.genCfg 2 C13_failingCond = .error (.other "group-definition-not-literal") := by
  simp [C13_failingCond, bodyLines, linesCond, lowerPred, lowerTerm,
    lowerReturn, retVals, groupVal, readBack_repr, intStr, bind, Except.bind, pure,
    Except.pure, throw, throwThe, MonadExceptOf.throw, gen_strTerm, gen_eq]

/-! ### the property -/

/-- **Skeleton invariance.**  For every conditional `c` and every replacement `σ` of string
    contents (applied to every string operand, tuple member and group name), if both the
    original and the substituted source compile, then the emitted lines agree in everything
    but the constants: line by line the same indentation, the same kind of statement, the
    same names, the same operator texts, the same tuple shapes, the same number of groups and
    the same weights (`maskILine` blanks exactly the constants).  No string content can add,
    remove, re-indent or restructure a line. -/
theorem C13_skeleton_invariant (cfg : GenCfg) (hc : CanonicalExpr cfg) (σ : String → String)
    (c : Cond) (d : Nat) (L L' : List ILine) (h : bodyLines cfg d c = .ok L)
    (h' : bodyLines cfg d (substCond σ c) = .ok L') : L.map maskILine = L'.map maskILine :=
  bodyLines_subst_skeleton cfg hc (readBack_repr cfg) σ c d L L' h h'

example :
    ([(2, .ifL (.cmp (.name "country") "==" (.const (.str "US")))),
      (3, .ret [.str "control", .str "variant"] [.i 1, .i 1]),
      (2, .elifL (.cmp (.name "country") "in" (.tuple [.const (.str "CA"), .const (.str "MX")]))),
      (3, .ret [.str "north"] [.i 3]),
      (2, .elseL),
      (3, .ret [.str "other"] [.i 2]),
      (2, .raiseU)] : List ILine).map maskILine
    = ([(2, .ifL (.cmp (.name "country") "==" (.const (.str C13_injection)))),
      (3, .ret [.str C13_injection, .str C13_injection] [.i 1, .i 1]),
      (2, .elifL (.cmp (.name "country") "in"
            (.tuple [.const (.str C13_injection), .const (.str C13_injection)]))),
      (3, .ret [.str C13_injection] [.i 3]),
      (2, .elseL),
      (3, .ret [.str C13_injection] [.i 2]),
      (2, .raiseU)] : List ILine).map maskILine :=
  C13_skeleton_invariant Generated.genCfg C02_generator_canonical (fun _ => C13_injection)
    C13_exampleCond 2 _ _ C13_example_lines C13_example_lines_injected

/-- **Compilation does not depend on string contents.**  The generator produces lines for a
    source exactly when it produces lines for the source with every string replaced. -/
theorem C13_compiles_regardless_of_string_contents (cfg : GenCfg) (hc : CanonicalExpr cfg)
    (σ : String → String) (c : Cond) (d : Nat) :
    (∃ L, bodyLines cfg d c = .ok L) ↔ (∃ L', bodyLines cfg d (substCond σ c) = .ok L') :=
  bodyLines_subst_ok_iff cfg hc (readBack_repr cfg) σ c d

example : ∃ L', bodyLines Generated.genCfg 2 (substCond (fun _ => C13_injection) C13_exampleCond) = .ok L' :=
  (C13_compiles_regardless_of_string_contents Generated.genCfg C02_generator_canonical
    (fun _ => C13_injection) C13_exampleCond 2).mp ⟨_, C13_example_lines⟩

example : ∃ L, bodyLines Generated.genCfg 2 C13_exampleCond = .ok L :=
  (C13_compiles_regardless_of_string_contents Generated.genCfg C02_generator_canonical
    (fun _ => C13_injection) C13_exampleCond 2).mpr ⟨_, C13_example_lines_injected⟩

/-- **Same error.**  When the generator rejects a source, it rejects the source with every
    string replaced with the very same error, and conversely: no string content can cause
    or suppress a generator error. -/
theorem C13_same_error_regardless (cfg : GenCfg) (hc : CanonicalExpr cfg) (σ : String → String)
    (c : Cond) (d : Nat) (err : Err) :
    bodyLines cfg d c = .error err ↔ bodyLines cfg d (substCond σ c) = .error err :=
  bodyLines_subst_error cfg hc (readBack_repr cfg) σ c d err

example : bodyLines Generated.genCfg 2 (substCond (fun _ => C13_injection) C13_failingCond)
    = .error (.other "group-definition-not-literal") :=
  (C13_same_error_regardless Generated.genCfg C02_generator_canonical (fun _ => C13_injection)
    C13_failingCond 2 _).mp C13_failing_error

/-- **A rendered string is one token.**  Whatever the string contains, Python's tokenizer
    consumes the rendered literal as a single string literal decoding to exactly that
    string, and continues with exactly the character the generator wrote after it
    (`)`, `,`, space, `]` or `+`): the literal cannot end early and cannot swallow what
    follows. -/
theorem C13_literal_is_one_token (cfg : GenCfg) (s : String) (c : Char) (rest : List Char)
    (hcm : c ∈ [')', ',', ' ', ']', '+']) :
    PyStrLit.pyScanStr ((renderStr cfg true s).toList ++ c :: rest) = some (s, c :: rest) := by
  have h := C05_string_roundtrip_generated cfg.printable s c rest hcm
  simpa [renderStr] using h

example : PyStrLit.pyScanStr ((renderStr Generated.genCfg true C13_injection).toList ++ ')' :: ": \n".toList)
    = some (C13_injection, ')' :: ": \n".toList) :=
  C13_literal_is_one_token Generated.genCfg C13_injection ')' ": \n".toList (by decide)

/-- **The salt is one value.**  The salt text, rendered with `repr()` and read back by
    Python, reaches the key expression as exactly that string — one `str` value, whatever
    it contains. -/
theorem C13_salt_is_one_value (cfg : GenCfg) (s : String) : readBackStr cfg true s = .ok s :=
  readBack_repr cfg s

example : readBackStr Generated.genCfg Generated.genCfg.strReprSalt C13_injection = .ok C13_injection :=
  C13_salt_is_one_value Generated.genCfg C13_injection

/-- the injection text as a predicate operand is lowered to one constant holding that text -/
example : lowerTerm Generated.genCfg (.str C13_injection) = .ok (.const (.str C13_injection)) := by
  simp [lowerTerm, readBack_repr, gen_strTerm, bind, Except.bind, pure, Except.pure]

/-- the injection text as a group name is one member of the population holding that text -/
example : groupVal Generated.genCfg (.str C13_injection) = .ok (.str C13_injection) := by
  simp [groupVal, readBack_repr, bind, Except.bind, pure, Except.pure]

/-- a whole comparison against the injection text: one `==` of a name and one constant -/
example : lowerPred Generated.genCfg (.cmp (.ident "country") .eq (.str C13_injection))
    = .ok (.cmp (.name "country") "==" (.const (.str C13_injection))) := by
  simp [lowerPred, lowerTerm, readBack_repr, gen_strTerm, gen_eq, bind, Except.bind, pure, Except.pure]


/-- **table obligation**: every string of the source — operands and salt — is rendered with `repr()` -/
theorem C13_all_strings_rendered_with_repr :
    (Generated.genCfg.strReprTerm && Generated.genCfg.strReprSalt) = true := by decide

end Pyab.Properties
