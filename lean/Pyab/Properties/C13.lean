/- C13 — statements are being added as the proofs land (see DESIGN.md §6). -/
namespace Pyab.Properties

theorem C13_placeholder : True := trivial

end Pyab.Properties
