/-
  C16 — the decision table of `deterministic_choice`.
  "The result is always an element of the population; giving weights or their running
  totals is equivalent; giving no weights is equivalent to equal integer weights; a weight
  list of the wrong length, a non-positive or non-finite total, or both kinds of weights
  raise the documented errors; without an id it draws randomly by weight, never a
  zero-weight item."
  Statements only; helper lemmas live in `Pyab/Proofs/Choice.lean`, `Pyab/Proofs/Choice2.lean`.
-/
import Pyab.Model.Choice
import Pyab.Properties.PurePremise
import Pyab.Spec.Interval
import Pyab.Proofs.Choice2
import Pyab.Properties.C03
namespace Pyab.Properties
open Pyab Pyab.Spec Pyab.Choice

/-- integer weights given as Python ints -/
def intWeights (w : List Nat) : List Num := w.map fun (x : Nat) => Num.i (x : Int)

/-- the two ways of handing the same running totals `cum` to `deterministic_choice`:
    `weights=ws` with `list(accumulate(ws)) = cum`, or `cum_weights=cum` -/
inductive Passes (cum : List Num) : Option (List Num) → Option (List Num) → Prop
  | weights (ws : List Num) (hacc : accumulate ws = .ok cum) : Passes cum (some ws) none
  | cumWeights : Passes cum none (some cum)

/-! ### (b) weights ≡ running totals -/

/-- `weights=ws` behaves exactly like `cum_weights=list(accumulate(ws))` — results and errors -/
theorem C16_weights_vs_cum (h n : Nat) (ws cum : List Num) (hacc : accumulate ws = .ok cum) :
    choiceIdx (some h) n (some ws) none = choiceIdx (some h) n none (some cum) := by
  rw [Proofs.choiceIdx_weights, hacc, Proofs.choiceIdx_cum]; rfl

/-- the same on the random branch (`input_id is None`) -/
theorem C16_weights_vs_cum_random (n : Nat) (ws cum : List Num) (hacc : accumulate ws = .ok cum) :
    choiceIdx none n (some ws) none = choiceIdx none n none (some cum) := by
  rw [Proofs.choiceIdx_none_weights, hacc, Proofs.choiceIdx_none_cum]; rfl

/-- if summing the weights itself fails (an int too large for a float), that error surfaces -/
theorem C16_weights_accumulate_error (h : Option Nat) (n : Nat) (ws : List Num) (e : Err)
    (hacc : accumulate ws = .error e) : choiceIdx h n (some ws) none = .error e := by
  cases h with
  | none => rw [Proofs.choiceIdx_none_weights, hacc]; rfl
  | some h => rw [Proofs.choiceIdx_weights, hacc]; rfl

theorem passes_eq (h n : Nat) (cum : List Num) (wo co : Option (List Num)) (hp : Passes cum wo co) :
    choiceIdx (some h) n wo co = Proofs.weightedTail h n cum := by
  cases hp with
  | weights ws hacc => rw [C16_weights_vs_cum h n ws cum hacc, Proofs.choiceIdx_cum]
  | cumWeights => exact Proofs.choiceIdx_cum h n cum

theorem passes_eq_random (n : Nat) (cum : List Num) (wo co : Option (List Num))
    (hp : Passes cum wo co) : choiceIdx none n wo co = Proofs.randomTail n cum := by
  cases hp with
  | weights ws hacc => rw [C16_weights_vs_cum_random n ws cum hacc, Proofs.choiceIdx_none_cum]
  | cumWeights => exact Proofs.choiceIdx_none_cum n cum

/-- `itertools.accumulate` keeps the length, so "wrong length" means the same for both -/
theorem C16_accumulate_length (ws cum : List Num) (hacc : accumulate ws = .ok cum) :
    cum.length = ws.length :=
  Proofs.accumulate_length ws cum hacc

/-! ### (a) the result is a member of the population -/

/-- weighted call (either kind of weights): a returned index is `< n`.  No hypothesis on the
    weights at all — the search is confined to `[0, n-1]` whatever the comparisons say. -/
theorem C16_member_weighted (h n i : Nat) (weights cumw : Option (List Num))
    (hw : weights ≠ none ∨ cumw ≠ none)
    (hres : choiceIdx (some h) n weights cumw = .ok (.idx i)) : i < n := by
  cases weights with
  | none =>
    cases cumw with
    | none => rcases hw with hw | hw <;> exact absurd rfl hw
    | some cw =>
      rw [Proofs.choiceIdx_cum] at hres
      exact Proofs.weightedTail_idx_lt h n i cw hres
  | some ws =>
    cases cumw with
    | some cw => rw [Proofs.choiceIdx_both] at hres; cases hres
    | none =>
      cases hacc : accumulate ws with
      | error e => rw [C16_weights_accumulate_error (some h) n ws e hacc] at hres; cases hres
      | ok cum =>
        rw [C16_weights_vs_cum h n ws cum hacc, Proofs.choiceIdx_cum] at hres
        exact Proofs.weightedTail_idx_lt h n i cum hres

/-- the unweighted call returns exactly `⌊h·n / 2^32⌋` (32-bit position, `n < 2^21`) -/
theorem C16_unweighted_value (h n : Nat) (hh : h < 2 ^ 32) (hn0 : 0 < n) (hn : n < 2 ^ 21) :
    choiceIdx (some h) n none none = .ok (.idx (h * n / 2 ^ 32)) :=
  Proofs.choiceIdx_unweighted h n hh hn0 hn

/-- unweighted call: a returned index is `< n` -/
theorem C16_member_unweighted (h n i : Nat) (hh : h < 2 ^ 32) (hn : n < 2 ^ 21)
    (hres : choiceIdx (some h) n none none = .ok (.idx i)) : i < n := by
  by_cases hn0 : 0 < n
  · rw [Proofs.choiceIdx_unweighted h n hh hn0 hn] at hres
    have hi : h * n / 2 ^ 32 = i := Pick.idx.inj (Except.ok.inj hres)
    rw [← hi, Nat.div_lt_iff_lt_mul (Nat.two_pow_pos 32), Nat.mul_comm n]
    exact Nat.mul_lt_mul_of_pos_right hh hn0
  · have : n = 0 := by omega
    subst this
    rw [Proofs.choiceIdx_unweighted_zero h hh] at hres; cases hres

/-- **Membership**: whatever the weights, an index returned for an id is a valid index into
    the population.  (`0 < n` is not needed: with `n = 0` every branch raises.)  The bounds
    `h < 2^32` (always true of `deterministic_proba`'s numerator) and `n < 2^21` are used by
    the unweighted branch only. -/
theorem C16_member (h n i : Nat) (weights cumw : Option (List Num))
    (hh : h < 2 ^ 32) (hn : n < 2 ^ 21)
    (hres : choiceIdx (some h) n weights cumw = .ok (.idx i)) : i < n := by
  by_cases hw : weights ≠ none ∨ cumw ≠ none
  · exact C16_member_weighted h n i weights cumw hw hres
  · have h1 : weights = none := by
      cases weights with
      | none => rfl
      | some ws => exact absurd (Or.inl (by simp)) hw
    have h2 : cumw = none := by
      cases cumw with
      | none => rfl
      | some ws => exact absurd (Or.inr (by simp)) hw
    subst h1; subst h2
    exact C16_member_unweighted h n i hh hn hres

/-- with an id the call never delegates to `random.choices` -/
theorem C16_id_never_random (h n : Nat) (weights cumw : Option (List Num)) (c : List Num)
    (hh : h < 2 ^ 32) (hn : n < 2 ^ 21) :
    choiceIdx (some h) n weights cumw ≠ .ok (.random c) := by
  intro hres
  cases weights with
  | none =>
    cases cumw with
    | none =>
      by_cases hn0 : 0 < n
      · rw [Proofs.choiceIdx_unweighted h n hh hn0 hn] at hres; cases hres
      · have : n = 0 := by omega
        subst this
        rw [Proofs.choiceIdx_unweighted_zero h hh] at hres; cases hres
    | some cw =>
      rw [Proofs.choiceIdx_cum] at hres
      obtain ⟨_, _, _, _, _, _, _, hp⟩ := Proofs.weightedTail_ok h n cw _ hres
      cases hp
  | some ws =>
    cases cumw with
    | some cw => rw [Proofs.choiceIdx_both] at hres; cases hres
    | none =>
      cases hacc : accumulate ws with
      | error e => rw [C16_weights_accumulate_error (some h) n ws e hacc] at hres; cases hres
      | ok cum =>
        rw [C16_weights_vs_cum h n ws cum hacc, Proofs.choiceIdx_cum] at hres
        obtain ⟨_, _, _, _, _, _, _, hp⟩ := Proofs.weightedTail_ok h n cum _ hres
        cases hp

/-! ### (c) no weights ≡ equal integer weights -/

/-- **No weights ≡ `n` equal weights `1.0`** -/
theorem C16_unweighted_eq_equal_ints (h n : Nat) (hh : h < 2 ^ 32) (hn0 : 0 < n) (hn : n < 2 ^ 21) :
    choiceIdx (some h) n none none
      = choiceIdx (some h) n (some (List.replicate n (Num.f (Dbl.ofNat 1)))) none := by
  have ht := Proofs.total_replicate_one n
  obtain ⟨i, hi, hs⟩ := C03_int_exact (List.replicate n 1) h hh (by omega) (by omega)
  have hw : floatWeights (List.replicate n 1) = List.replicate n (Num.f (Dbl.ofNat 1)) := by
    simp [floatWeights]
  rw [List.length_replicate, hw] at hi
  rw [hi, Proofs.isSpecIdx_replicate_one n h i hs]
  exact C16_unweighted_value h n hh hn0 hn

/-- integer weights given as Python ints obey the interval rule exactly, like their float
    counterparts in `C03_int_exact` -/
theorem C16_intWeights_exact (w : List Nat) (h : Nat) (hh : h < 2 ^ 32)
    (hpos : 0 < total w) (hT : total w < 2 ^ 21) :
    ∃ i, choiceIdx (some h) w.length (some (intWeights w)) none = .ok (.idx i)
      ∧ IsSpecIdx w h i := by
  obtain ⟨cum, hacc, hlen, hrep⟩ := Proofs.accumulate_il_rep w hpos
  obtain ⟨i, hi, hs, _, _⟩ := Proofs.weightedTail_spec w cum h hh hpos hT hlen hrep
  refine ⟨i, ?_, hs⟩
  rw [C16_weights_vs_cum h w.length (intWeights w) cum hacc, Proofs.choiceIdx_cum]
  exact hi

/-- running totals given directly (`cum_weights=[S_1, …, S_n]`, ints or integer floats) obey the
    interval rule exactly -/
theorem C16_cumWeights_exact (w : List Nat) (cum : List Num) (h : Nat) (hh : h < 2 ^ 32)
    (hpos : 0 < total w) (hT : total w < 2 ^ 21) (hlen : cum.length = w.length)
    (hrep : ∀ j, j < w.length →
      cum[j]! = Num.f (Dbl.ofNat (prefixSum w (j + 1))) ∨ cum[j]! = Num.i (prefixSum w (j + 1) : Nat)) :
    ∃ i, choiceIdx (some h) w.length none (some cum) = .ok (.idx i) ∧ IsSpecIdx w h i := by
  have hrep' : ∀ j, j < w.length → Proofs.Rep cum[j]! (prefixSum w (j + 1)) := by
    intro j hj
    have hb : prefixSum w (j + 1) < 2 ^ 53 := by
      have := Proofs.prefixSum_le_total w (j + 1); omega
    rcases hrep j hj with hr | hr
    · left; rw [hr, Proofs.ofNat_exact _ hb]; rfl
    · right; exact hr
  obtain ⟨i, hi, hs, _, _⟩ := Proofs.weightedTail_spec w cum h hh hpos hT hlen hrep'
  exact ⟨i, by rw [Proofs.choiceIdx_cum]; exact hi, hs⟩

/-- **No weights ≡ `n` equal int weights `1`** -/
theorem C16_unweighted_eq_equal_ints_int (h n : Nat) (hh : h < 2 ^ 32) (hn0 : 0 < n)
    (hn : n < 2 ^ 21) :
    choiceIdx (some h) n none none
      = choiceIdx (some h) n (some (List.replicate n (Num.i 1))) none := by
  have ht := Proofs.total_replicate_one n
  obtain ⟨i, hi, hs⟩ := C16_intWeights_exact (List.replicate n 1) h hh (by omega) (by omega)
  have hw : intWeights (List.replicate n 1) = List.replicate n (Num.i 1) := by
    simp [intWeights]
  rw [List.length_replicate, hw] at hi
  rw [hi, Proofs.isSpecIdx_replicate_one n h i hs]
  exact C16_unweighted_value h n hh hn0 hn

/-! ### (d) the error table, in the code's order — with an id -/

/-- both `weights` and `cum_weights` ⇒ `TypeError` (with or without an id) -/
theorem C16_errors_both (h : Option Nat) (n : Nat) (ws cw : List Num) :
    choiceIdx h n (some ws) (some cw) = .error .typeError :=
  Proofs.choiceIdx_both h n ws cw

/-- explicit `cum_weights` of the wrong length ⇒ `ValueError` -/
theorem C16_errors_len_cum (h n : Nat) (cw : List Num) (hlen : cw.length ≠ n) :
    choiceIdx (some h) n none (some cw) = .error (.valueError "len") := by
  rw [Proofs.choiceIdx_cum]; exact Proofs.weightedTail_len h n cw hlen

/-- `weights` of the wrong length (that can be summed at all) ⇒ `ValueError` -/
theorem C16_errors_len_weights (h n : Nat) (ws cum : List Num) (hacc : accumulate ws = .ok cum)
    (hlen : ws.length ≠ n) :
    choiceIdx (some h) n (some ws) none = .error (.valueError "len") := by
  rw [C16_weights_vs_cum h n ws cum hacc]
  exact C16_errors_len_cum h n cum (by rw [C16_accumulate_length ws cum hacc]; exact hlen)

/-- empty population with empty weights: `cum_weights[-1]` ⇒ `IndexError` -/
theorem C16_errors_empty (h : Nat) (wo co : Option (List Num)) (hp : Passes [] wo co) :
    choiceIdx (some h) 0 wo co = .error .indexError := by
  rw [passes_eq h 0 [] wo co hp]; rfl

/-- empty population, no weights ⇒ `IndexError` -/
theorem C16_errors_empty_unweighted (h : Nat) (hh : h < 2 ^ 32) :
    choiceIdx (some h) 0 none none = .error .indexError :=
  Proofs.choiceIdx_unweighted_zero h hh

/-- the total `cum_weights[-1] + 0.0` cannot be formed (int beyond the float range)
    ⇒ that `OverflowError` -/
theorem C16_errors_total_overflow (h n : Nat) (cum : List Num) (wo co : Option (List Num))
    (hp : Passes cum wo co) (last : Num) (e : Err)
    (hlen : cum.length = n) (hlast : cum.getLast? = some last)
    (htot : Num.add last (.f Dbl.zero) = .error e) :
    choiceIdx (some h) n wo co = .error e := by
  rw [passes_eq h n cum wo co hp]; exact Proofs.weightedTail_addErr h n cum last e hlen hlast htot

/-- total `≤ 0` (this includes `-inf`) ⇒ `ValueError` -/
theorem C16_errors_nonpositive (h n : Nat) (cum : List Num) (wo co : Option (List Num))
    (hp : Passes cum wo co) (last : Num) (t : Dbl)
    (hlen : cum.length = n) (hlast : cum.getLast? = some last)
    (htot : Num.add last (.f Dbl.zero) = .ok (.f t)) (hle : Dbl.le t Dbl.zero = true) :
    choiceIdx (some h) n wo co = .error (.valueError "nonpositive") := by
  rw [passes_eq h n cum wo co hp]
  exact Proofs.weightedTail_nonpositive h n cum last t hlen hlast htot hle

/-- total not `≤ 0` and not finite (`inf` or `nan`) ⇒ `ValueError` -/
theorem C16_errors_nonfinite (h n : Nat) (cum : List Num) (wo co : Option (List Num))
    (hp : Passes cum wo co) (last : Num) (t : Dbl)
    (hlen : cum.length = n) (hlast : cum.getLast? = some last)
    (htot : Num.add last (.f Dbl.zero) = .ok (.f t)) (hle : Dbl.le t Dbl.zero = false)
    (hfin : t.isFinite = false) :
    choiceIdx (some h) n wo co = .error (.valueError "nonfinite") := by
  rw [passes_eq h n cum wo co hp]
  exact Proofs.weightedTail_nonfinite h n cum last t hlen hlast htot hle hfin

/-- the total is always a float: the model's `"unreachable"` branch is unreachable -/
theorem C16_total_is_float (last v : Num) (htot : Num.add last (.f Dbl.zero) = .ok v) :
    ∃ t, v = .f t :=
  Proofs.add_zero_isFloat last v htot

/-- for float running totals the total is the last one plus `0.0` -/
theorem C16_total_of_float (d : Dbl) :
    Num.add (.f d) (.f Dbl.zero) = .ok (.f (Dbl.add d Dbl.zero)) := rfl

/-- **Well-formed ⇒ no error**: right length, total defined, positive and finite ⇒ an index
    (valid by `C16_member_weighted`), namely the bisect of `proba h · total`. -/
theorem C16_no_error_when_wellformed (h n : Nat) (cum : List Num) (wo co : Option (List Num))
    (hp : Passes cum wo co) (last : Num) (t : Dbl)
    (hlen : cum.length = n) (hlast : cum.getLast? = some last)
    (htot : Num.add last (.f Dbl.zero) = .ok (.f t)) (hle : Dbl.le t Dbl.zero = false)
    (hfin : t.isFinite = true) :
    choiceIdx (some h) n wo co = .ok (.idx (bisect cum (Dbl.mul (proba h) t) 0 (n - 1)))
      ∧ bisect cum (Dbl.mul (proba h) t) 0 (n - 1) < n := by
  have hres : choiceIdx (some h) n wo co
      = .ok (.idx (bisect cum (Dbl.mul (proba h) t) 0 (n - 1))) := by
    rw [passes_eq h n cum wo co hp]
    exact Proofs.weightedTail_good h n cum last t hlen hlast htot hle hfin
  refine ⟨hres, ?_⟩
  rw [passes_eq h n cum wo co hp] at hres
  exact Proofs.weightedTail_idx_lt h n _ cum hres

/-- **…and conversely**: the call succeeds *only* in the well-formed case, so the error rows
    above are exhaustive. -/
theorem C16_ok_only_when_wellformed (h n : Nat) (cum : List Num) (wo co : Option (List Num))
    (hp : Passes cum wo co) (p : Pick) (hok : choiceIdx (some h) n wo co = .ok p) :
    ∃ last t, cum.length = n ∧ cum.getLast? = some last
      ∧ Num.add last (.f Dbl.zero) = .ok (.f t) ∧ Dbl.le t Dbl.zero = false
      ∧ t.isFinite = true ∧ p = .idx (bisect cum (Dbl.mul (proba h) t) 0 (n - 1)) := by
  rw [passes_eq h n cum wo co hp] at hok
  exact Proofs.weightedTail_ok h n cum p hok

/-- well-formed integer weights (floats `k.0` or ints `k`), positive total `< 2^21`: no error -/
theorem C16_no_error_int_weights (w : List Nat) (h : Nat) (hh : h < 2 ^ 32)
    (hpos : 0 < total w) (hT : total w < 2 ^ 21) :
    (∃ i, i < w.length ∧
      choiceIdx (some h) w.length (some (floatWeights w)) none = .ok (.idx i))
    ∧ (∃ i, i < w.length ∧
      choiceIdx (some h) w.length (some (intWeights w)) none = .ok (.idx i)) := by
  obtain ⟨i, hi, hs⟩ := C03_int_exact w h hh hpos hT
  obtain ⟨j, hj, hs'⟩ := C16_intWeights_exact w h hh hpos hT
  exact ⟨⟨i, hs.1, hi⟩, ⟨j, hs'.1, hj⟩⟩

/-! ### (d') the same table without an id (`random.choices`) -/

/-- no id, no weights: empty population ⇒ `IndexError`, else a uniform draw -/
theorem C16_random_unweighted (n : Nat) :
    choiceIdx none n none none = if n = 0 then .error .indexError else .ok (.random []) :=
  Proofs.choiceIdx_none_unweighted n

/-- without an id the argument checks raise exactly the errors of the call with an id -/
theorem C16_random_errors_same (h n : Nat) (cum : List Num) (wo co : Option (List Num))
    (hp : Passes cum wo co) (e : Err) :
    choiceIdx none n wo co = .error e ↔ choiceIdx (some h) n wo co = .error e := by
  rw [passes_eq h n cum wo co hp, passes_eq_random n cum wo co hp]
  exact Proofs.randomTail_error_iff h n cum e

/-- …and it delegates to `random.choices` with the running totals exactly when the call with
    an id returns an index -/
theorem C16_random_ok_same (h n : Nat) (cum : List Num) (wo co : Option (List Num))
    (hp : Passes cum wo co) :
    choiceIdx none n wo co = .ok (.random cum) ↔ ∃ i, choiceIdx (some h) n wo co = .ok (.idx i) := by
  rw [passes_eq h n cum wo co hp, passes_eq_random n cum wo co hp]
  exact Proofs.randomTail_ok_iff h n cum

theorem C16_random_errors_len (n : Nat) (cum : List Num) (wo co : Option (List Num))
    (hp : Passes cum wo co) (hlen : cum.length ≠ n) :
    choiceIdx none n wo co = .error (.valueError "len") := by
  rw [passes_eq_random n cum wo co hp]; exact Proofs.randomTail_len n cum hlen

theorem C16_random_errors_nonpositive (n : Nat) (cum : List Num) (wo co : Option (List Num))
    (hp : Passes cum wo co) (last : Num) (t : Dbl)
    (hlen : cum.length = n) (hlast : cum.getLast? = some last)
    (htot : Num.add last (.f Dbl.zero) = .ok (.f t)) (hle : Dbl.le t Dbl.zero = true) :
    choiceIdx none n wo co = .error (.valueError "nonpositive") := by
  rw [passes_eq_random n cum wo co hp]
  exact Proofs.randomTail_nonpositive n cum last t hlen hlast htot hle

theorem C16_random_errors_nonfinite (n : Nat) (cum : List Num) (wo co : Option (List Num))
    (hp : Passes cum wo co) (last : Num) (t : Dbl)
    (hlen : cum.length = n) (hlast : cum.getLast? = some last)
    (htot : Num.add last (.f Dbl.zero) = .ok (.f t)) (hle : Dbl.le t Dbl.zero = false)
    (hfin : t.isFinite = false) :
    choiceIdx none n wo co = .error (.valueError "nonfinite") := by
  rw [passes_eq_random n cum wo co hp]
  exact Proofs.randomTail_nonfinite n cum last t hlen hlast htot hle hfin

theorem C16_random_no_error_when_wellformed (n : Nat) (cum : List Num)
    (wo co : Option (List Num)) (hp : Passes cum wo co) (last : Num) (t : Dbl)
    (hlen : cum.length = n) (hlast : cum.getLast? = some last)
    (htot : Num.add last (.f Dbl.zero) = .ok (.f t)) (hle : Dbl.le t Dbl.zero = false)
    (hfin : t.isFinite = true) :
    choiceIdx none n wo co = .ok (.random cum) := by
  rw [passes_eq_random n cum wo co hp]
  exact Proofs.randomTail_good n cum last t hlen hlast htot hle hfin

/-! ### (e) the random draw never lands on a zero-weight item -/

/-- **Random branch, integer weights on the 2^32 grid.**  For integer weights `w` (floats `k.0`
    or ints `k`) with total `< 2^21` and a draw `r = k / 2^32`: the call without an id hands
    `random.choices` the running totals `cum`, its search returns the group `i` of the interval
    rule at position `k`, and that group's weight is not zero.

    Scope: `random.random()` produces 53-bit draws `k / 2^53`; for those `r · total` is in
    general rounded and the exact-arithmetic argument used here does not apply.  See
    `C16_random_never_flat_step` for the rounding-independent part. -/
theorem C16_random_never_zero_weight (w : List Nat) (k : Nat) (hk : k < 2 ^ 32)
    (hpos : 0 < total w) (hT : total w < 2 ^ 21) (ws : List Num)
    (hws : ws = floatWeights w ∨ ws = intWeights w) :
    ∃ cum i, choiceIdx none w.length (some ws) none = .ok (.random cum)
      ∧ randomIdx cum w.length (Dbl.ofNatDivPow2 k 32) = .ok i
      ∧ IsSpecIdx w k i ∧ i < w.length ∧ w[i]? ≠ some 0 := by
  have hex : ∃ cum, accumulate ws = .ok cum ∧ cum.length = w.length
      ∧ ∀ j, j < w.length → Proofs.Rep cum[j]! (prefixSum w (j + 1)) := by
    rcases hws with hws | hws
    · subst hws; exact Proofs.accumulate_fl_rep w hpos hT
    · subst hws; exact Proofs.accumulate_il_rep w hpos
  obtain ⟨cum, hacc, hlen, hrep⟩ := hex
  obtain ⟨i, _, hs, hr, hrt⟩ := Proofs.weightedTail_spec w cum k hk hpos hT hlen hrep
  refine ⟨cum, i, ?_, hr, hs, hs.1, fun hz => C03_zero_never w k i hz hs⟩
  rw [passes_eq_random w.length cum _ _ (Passes.weights ws hacc)]
  exact hrt

/-- with an id at the same grid position the same group is returned: the random branch and the
    deterministic branch share one rule -/
theorem C16_random_same_rule (w : List Nat) (k : Nat) (hk : k < 2 ^ 32)
    (hpos : 0 < total w) (hT : total w < 2 ^ 21) :
    ∃ cum i, choiceIdx none w.length (some (floatWeights w)) none = .ok (.random cum)
      ∧ randomIdx cum w.length (proba k) = .ok i
      ∧ choiceIdx (some k) w.length (some (floatWeights w)) none = .ok (.idx i) := by
  obtain ⟨cum, hacc, hlen, hrep⟩ := Proofs.accumulate_fl_rep w hpos hT
  have hacc' : accumulate (floatWeights w) = .ok cum := hacc
  obtain ⟨i, hi, _, hr, hrt⟩ := Proofs.weightedTail_spec w cum k hk hpos hT hlen hrep
  refine ⟨cum, i, ?_, hr, ?_⟩
  · rw [passes_eq_random w.length cum _ _ (Passes.weights _ hacc')]; exact hrt
  · rw [passes_eq k w.length cum _ _ (Passes.weights _ hacc')]; exact hi

/-- **Rounding-independent part**: for *any* running totals that are non-decreasing under the
    comparison the code uses and *any* search key `x`, the search never returns an interior
    index `i` whose step is flat for `x` (`x < cum[i-1] ⇔ x < cum[i]`, in particular when
    `cum[i] = cum[i-1]`, i.e. weight 0). -/
theorem C16_random_never_flat_step (cum : List Num) (x : Dbl) (n i : Nat)
    (hn : cum.length = n) (hi0 : 0 < i) (hi : i < n - 1)
    (hmono : ∀ i j, i ≤ j → j < n → Num.dblLt x cum[i]! = true → Num.dblLt x cum[j]! = true)
    (hflat : Num.dblLt x cum[i]! = Num.dblLt x cum[i - 1]!) :
    bisect cum x 0 (n - 1) ≠ i := by
  intro hb
  obtain ⟨_, h2, h3⟩ := C03_bisect_partition cum x n hn (by omega) hmono
  rw [hb] at h2 h3
  have := h2 (i - 1) (by omega)
  rw [h3 hi] at hflat
  rw [← hflat] at this
  cases this

/-! ### concrete instances meeting the hypotheses (non-vacuity) -/

section Examples

/-- floats `1.0, 0.0, 3.0` and their running totals `1.0, 1.0, 4.0` -/
private def cum103 : List Num := [.f (.fin 1 0), .f (.fin 1 0), .f (.fin 4 0)]

-- (a) membership: 3 groups, index 2 returned
example : choiceIdx (some 3000000000) 3 (some (floatWeights [1, 0, 3])) none = .ok (.idx 2) := rfl
example : (2 : Nat) < 3 :=
  C16_member 3000000000 3 2 (some (floatWeights [1, 0, 3])) none (by decide) (by decide) rfl
example : (2 : Nat) < 3 := C16_member 3000000000 3 2 none none (by decide) (by decide) rfl
-- (b) weights vs running totals
example : accumulate (floatWeights [1, 0, 3]) = .ok cum103 := rfl
example : choiceIdx (some 3000000000) 3 (some (floatWeights [1, 0, 3])) none
    = choiceIdx (some 3000000000) 3 none (some cum103) :=
  C16_weights_vs_cum _ _ _ _ rfl
example : Passes cum103 (some (floatWeights [1, 0, 3])) none := .weights _ rfl
-- (c) no weights vs equal weights: position 3·10^9 of 2^32 among 3 → ⌊2.09…⌋ = 2
example : choiceIdx (some 3000000000) 3 none none = .ok (.idx 2) := rfl
example : choiceIdx (some 3000000000) 3 (some (List.replicate 3 (Num.f (Dbl.ofNat 1)))) none
    = .ok (.idx 2) := rfl
example : choiceIdx (some 3000000000) 3 (some (List.replicate 3 (Num.i 1))) none
    = .ok (.idx 2) := rfl
example : (3000000000 : Nat) < 2 ^ 32 ∧ 0 < 3 ∧ 3 < 2 ^ 21 := by decide
example : 0 < total [1, 0, 3] ∧ total [1, 0, 3] < 2 ^ 21 := by decide
example : choiceIdx (some 3000000000) 3 (some (intWeights [1, 0, 3])) none = .ok (.idx 2) := rfl
-- (d) the error rows
example : choiceIdx (some 7) 3 (some (floatWeights [1, 0, 3])) (some cum103)
    = .error .typeError := C16_errors_both _ _ _ _
example : choiceIdx (some 7) 2 none (some cum103) = .error (.valueError "len") :=
  C16_errors_len_cum 7 2 cum103 (by decide)
example : choiceIdx (some 7) 2 (some (floatWeights [1, 0, 3])) none = .error (.valueError "len") :=
  C16_errors_len_weights 7 2 _ cum103 rfl (by decide)
example : choiceIdx (some 7) 0 (some []) none = .error .indexError :=
  C16_errors_empty 7 _ _ (.weights [] rfl)
example : choiceIdx (some 7) 0 none (some []) = .error .indexError :=
  C16_errors_empty 7 _ _ .cumWeights
example : choiceIdx (some 7) 0 none none = .error .indexError :=
  C16_errors_empty_unweighted 7 (by decide)
/-- all-zero weights -/
example : choiceIdx (some 7) 2 (some (floatWeights [0, 0])) none
    = .error (.valueError "nonpositive") :=
  C16_errors_nonpositive 7 2 [.f (.fin 0 0), .f (.fin 0 0)] _ _ (.weights _ rfl)
    (.f (.fin 0 0)) (.fin 0 0) rfl rfl rfl rfl
/-- negative total, given as int running totals `[1, -1]` -/
example : choiceIdx (some 7) 2 none (some [.i 1, .i (-1)]) = .error (.valueError "nonpositive") :=
  C16_errors_nonpositive 7 2 _ _ _ .cumWeights (.i (-1)) (.fin (-1) 0) rfl rfl rfl rfl
/-- `-inf` total is reported as non-positive (the `<= 0.0` test comes first) -/
example : choiceIdx (some 7) 1 none (some [.f .ninf]) = .error (.valueError "nonpositive") :=
  C16_errors_nonpositive 7 1 _ _ _ .cumWeights (.f .ninf) .ninf rfl rfl rfl rfl
example : choiceIdx (some 7) 1 (some [.f .pinf]) none = .error (.valueError "nonfinite") :=
  C16_errors_nonfinite 7 1 [.f .pinf] _ _ (.weights _ rfl) (.f .pinf) .pinf rfl rfl rfl rfl rfl
example : choiceIdx (some 7) 1 none (some [.f .nan]) = .error (.valueError "nonfinite") :=
  C16_errors_nonfinite 7 1 _ _ _ .cumWeights (.f .nan) .nan rfl rfl rfl rfl rfl
-- an int total beyond the float range (2^1024): `OverflowError` from `cum_weights[-1] + 0.0`
set_option maxRecDepth 8000 in
example : choiceIdx (some 7) 1 none (some [.i (Int.ofNat (1 <<< 1024))])
    = .error (.other "OverflowError") :=
  C16_errors_total_overflow 7 1 _ _ _ .cumWeights (.i (Int.ofNat (1 <<< 1024)))
    (.other "OverflowError") rfl rfl rfl
/-- well-formed -/
example : choiceIdx (some 3000000000) 3 none (some cum103)
    = .ok (.idx (bisect cum103 (Dbl.mul (proba 3000000000) (.fin 4 0)) 0 (3 - 1))) :=
  (C16_no_error_when_wellformed 3000000000 3 cum103 _ _ .cumWeights (.f (.fin 4 0)) (.fin 4 0)
    rfl rfl rfl rfl rfl).1
example : bisect cum103 (Dbl.mul (proba 3000000000) (.fin 4 0)) 0 (3 - 1) = 2 := rfl
-- (d') without an id
example : choiceIdx none 3 none none = .ok (.random []) := rfl
example : choiceIdx none 0 none none = .error .indexError := rfl
example : choiceIdx none 3 (some (floatWeights [1, 0, 3])) none = .ok (.random cum103) := rfl
example : choiceIdx none 3 (some (floatWeights [1, 0, 3])) (some cum103) = .error .typeError := rfl
example : choiceIdx none 2 none (some cum103) = .error (.valueError "len") :=
  C16_random_errors_len 2 cum103 _ _ .cumWeights (by decide)
example : choiceIdx none 2 (some (floatWeights [0, 0])) none = .error (.valueError "nonpositive") :=
  C16_random_errors_nonpositive 2 [.f (.fin 0 0), .f (.fin 0 0)] _ _ (.weights _ rfl)
    (.f (.fin 0 0)) (.fin 0 0) rfl rfl rfl rfl
example : choiceIdx none 1 none (some [.f .pinf]) = .error (.valueError "nonfinite") :=
  C16_random_errors_nonfinite 1 _ _ _ .cumWeights (.f .pinf) .pinf rfl rfl rfl rfl rfl
example : choiceIdx none 3 none (some cum103) = .ok (.random cum103) :=
  C16_random_no_error_when_wellformed 3 cum103 _ _ .cumWeights (.f (.fin 4 0)) (.fin 4 0)
    rfl rfl rfl rfl rfl
-- (e) the draw r = 2^30 / 2^32 = 0.25 sits exactly on the boundary S_1/T = S_2/T = 1/4:
-- it skips the zero-weight group 1 and lands in group 2
example : randomIdx cum103 3 (Dbl.ofNatDivPow2 (2 ^ 30) 32) = .ok 2 := rfl
example : IsSpecIdx [1, 0, 3] (2 ^ 30) 2 := by decide
example : randomIdx cum103 3 (Dbl.ofNatDivPow2 (2 ^ 30 - 1) 32) = .ok 0 := rfl
/-- flat step: `cum103[1] = cum103[0]`, so index 1 is never returned, whatever the key -/
example (x : Dbl) : Num.dblLt x cum103[1]! = Num.dblLt x cum103[1 - 1]! := rfl

end Examples

end Pyab.Properties
