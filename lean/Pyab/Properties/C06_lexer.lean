/-
  C06 (lexer half) instantiated at the rule tables extracted from `/repo`:
  a text that the generated lexer accepts is covered, character by character and in
  order, by token / trivia lexemes; no character is skipped by an error callback.
-/
import Pyab.Proofs.LexNoSkip
import Pyab.Generated.LexRules
namespace Pyab.Properties
open Pyab

/-- **table obligation**: every generated lexer state's error callback raises -/
theorem C06_lex_all_raise_bool : Generated.lexSpec.states.all (·.errorRaises) = true := by
  decide +kernel

theorem C06_lex_all_raise :
    ∀ st, st ∈ Generated.lexSpec.states.toList → st.errorRaises = true := by
  intro st hst
  have h := C06_lex_all_raise_bool
  rw [Array.all_eq_true'] at h
  exact h st (Array.mem_toList_iff.1 hst)

/-- **C06, lexer half** for the generated tables -/
theorem C06_lex_no_skip (text : String) (out : LexOut)
    (h : lexFull Generated.lexSpec text = .ok out) :
    out.pieces.flatMap Piece.chars = text.toList ∧ ∀ p ∈ out.pieces, Piece.isSkipped p = false :=
  lex_accepts_only_whole_text Generated.lexSpec C06_lex_all_raise text out h

/-- the emitted token kinds are exactly the token pieces, in order -/
theorem C06_lex_tokens_from_pieces (text : String) (out : LexOut)
    (h : lexFull Generated.lexSpec text = .ok out) :
    out.toks.map (·.kind) =
      out.pieces.filterMap (fun p => match p with | .token k _ => some k | _ => none) :=
  lexFull_tokens_from_pieces Generated.lexSpec text out h

/-- non-vacuity: a concrete text is accepted -/
example : (lexFull Generated.lexSpec "def e { }").isOk = true := by decide +kernel

/-- ... with the expected token kinds (so the `.ok` hypothesis above is satisfiable with content) -/
example : (lex Generated.lexSpec "def e { }").toOption.map (·.map (·.kind)) =
    some ["KW_DEF", "ID", "LBRACE", "RBRACE"] := by decide +kernel

/-- and a character outside every rule is rejected with `LexError`, not skipped -/
example : (match lexFull Generated.lexSpec "def e { $ }" with
    | .error .lexError => true | _ => false) = true := by decide +kernel

end Pyab.Properties
