/-
  C03 — weights partition the hash space exactly, in declared order.
  Statements only; helper lemmas live in `Pyab/Proofs/`.
-/
import Pyab.Model.Choice
import Pyab.Properties.ChoicePure
import Pyab.Properties.EvaluatorPremise
import Pyab.Spec.Interval
import Pyab.Proofs.Choice
import Pyab.Properties.C03_float
namespace Pyab.Properties
open Pyab Pyab.Spec

/-- integer weights as the compiled experiment passes them: Python floats with
    integer values (pydantic turns `weighted 3` into `3.0`) -/
def floatWeights (w : List Nat) : List Num := w.map fun x => Num.f (Dbl.ofNat x)

/-- **Exact partition for integer weights** (any number of groups, zeros anywhere):
    with total `T < 2^21` every intermediate binary64 value is exact, and the code
    returns precisely the group of the interval rule. -/
theorem C03_int_exact (w : List Nat) (h : Nat) (hh : h < 2 ^ 32)
    (hpos : 0 < total w) (hT : total w < 2 ^ 21) :
    ∃ i, Choice.choiceIdx (some h) w.length (some (floatWeights w)) none = .ok (.idx i)
      ∧ IsSpecIdx w h i :=
  Proofs.choiceIdx_floatWeights_spec w h hh hpos hT

/-- the interval rule determines the group uniquely -/
theorem C03_spec_unique (w : List Nat) (h i j : Nat)
    (hi : IsSpecIdx w h i) (hj : IsSpecIdx w h j) : i = j :=
  Proofs.isSpecIdx_unique w h i j hi hj

/-- a group weighted 0 is never selected — at any position, first and last included -/
theorem C03_zero_never (w : List Nat) (h i : Nat) (hz : w[i]? = some 0) : ¬ IsSpecIdx w h i :=
  Proofs.isSpecIdx_zero w h i hz

/-- every group whose share spans at least one grid point is selectable -/
theorem C03_selectable (w : List Nat) (i : Nat) (hi : i < w.length) (hpos : 0 < total w)
    (hspan : total w ≤ w[i]! * 2 ^ 32) : ∃ h, h < 2 ^ 32 ∧ IsSpecIdx w h i :=
  Proofs.isSpecIdx_selectable w i hi hpos hspan

/-- each group's share of the 2^32 grid equals `w_i / T` to within one grid point per boundary:
    the positions selecting group `i` are exactly those in `[⌈S_{i-1}·2^32/T⌉, ⌈S_i·2^32/T⌉)` -/
theorem C03_share (w : List Nat) (h i : Nat) (hpos : 0 < total w) :
    IsSpecIdx w h i ↔
      (i < w.length ∧ (prefixSum w i * 2 ^ 32 + total w - 1) / total w ≤ h
        ∧ h < (prefixSum w (i + 1) * 2 ^ 32 + total w - 1) / total w) :=
  Proofs.isSpecIdx_iff_range w h i hpos

/-- bisect-right over the cumulative weights, limited to `hi = n-1`, realises half-open
    intervals in declared order for *any* cumulative list that is non-decreasing under the
    comparison the code uses (this is the part that also holds under binary64 rounding) -/
theorem C03_bisect_partition (cum : List Num) (x : Dbl) (n : Nat) (hn : cum.length = n) (hpos : 0 < n)
    (hmono : ∀ i j, i ≤ j → j < n → Num.dblLt x cum[i]! = true → Num.dblLt x cum[j]! = true) :
    let i := Choice.bisect cum x 0 (n - 1)
    i ≤ n - 1 ∧ (∀ j, j < i → Num.dblLt x cum[j]! = false) ∧ (i < n - 1 → Num.dblLt x cum[i]! = true) :=
  Proofs.bisect_partition cum x n hn hpos hmono

-- non-vacuity: concrete weights meet the hypotheses
example : 0 < total [10, 0, 90] ∧ total [10, 0, 90] < 2 ^ 21 := by decide
example : IsSpecIdx [1, 0, 3] (2 ^ 30) 2 := by decide

end Pyab.Properties
