/-
  C18 — "The interval helper returns lower <= upper for every n >= 1, 0 <= p <= 1 and
  0 < confidence < 1, equals the textbook Agresti-Coull or Wald formula evaluated with
  the module's own z-score, narrows as n grows and widens as confidence grows.  The
  z-score it uses is symmetric and never smaller than the true normal quantile; an
  unknown method name is refused."

  Everything is stated about `probitR` / `intervalR`, i.e. the *same* generic
  definitions `Stats.probit` / `Stats.interval` that are executed at `Float`,
  instantiated at `ℝ` (`Pyab/Spec/StatsReal.lean`).
-/
import Pyab.Spec.StatsReal
import Pyab.Properties.PurePremise
import Pyab.Generated.Effects
import Pyab.Proofs.StatsReal
import Pyab.Proofs.StatsGauss
namespace Pyab.Properties
open Pyab Pyab.Stats Pyab.Spec Pyab.Proofs.StatsReal

/-! ## 1. the z-score: sign and symmetry -/

theorem C18_z_nonneg (a : ℝ) : 0 ≤ probitR a := probitR_nonneg a

theorem C18_z_symmetric (a : ℝ) (_h0 : 0 < a) (_h1 : a < 1) : probitR a = probitR (1 - a) :=
  probitR_symm a

example : probitR (1 / 40) = probitR (1 - 1 / 40) := C18_z_symmetric _ (by norm_num) (by norm_num)

/-! ## 2. lower ≤ upper -/

theorem C18_wellformed (m : Method) (n p c : ℝ) (_hn : 1 ≤ n) (_hp0 : 0 ≤ p) (_hp1 : p ≤ 1)
    (_hc0 : 0 < c) (_hc1 : c < 1) : (intervalR m n p c).1 ≤ (intervalR m n p c).2 := by
  cases m
  · rw [intervalR_ac]
    have := mul_nonneg (probitR_nonneg ((1 - c) / 2))
      (Real.sqrt_nonneg (acP n p (probitR ((1 - c) / 2)) * (1 - acP n p (probitR ((1 - c) / 2)))
        / acN n (probitR ((1 - c) / 2))))
    simp only
    linarith
  · rw [intervalR_wald]
    have := mul_nonneg (probitR_nonneg ((1 - c) / 2)) (Real.sqrt_nonneg (p * (1 - p) / n))
    simp only
    linarith

example : (intervalR .agrestiCoull 10 (1 / 2) (19 / 20)).1 ≤ (intervalR .agrestiCoull 10 (1 / 2) (19 / 20)).2 :=
  C18_wellformed _ _ _ _ (by norm_num) (by norm_num) (by norm_num) (by norm_num) (by norm_num)

/-! ## 3. the textbook formulas, with the module's own z -/

theorem C18_formula_wald (n p c : ℝ) :
    let z := probitR ((1 - c) / 2)
    intervalR .wald n p c
      = (p - z * Real.sqrt (p * (1 - p) / n), p + z * Real.sqrt (p * (1 - p) / n)) :=
  intervalR_wald n p c

theorem C18_formula_agresti_coull (n p c : ℝ) (_hn : 1 ≤ n) :
    let z := probitR ((1 - c) / 2)
    let nt := n + z ^ 2
    let pt := (n * p + z ^ 2 / 2) / nt
    intervalR .agrestiCoull n p c
      = (pt - z * Real.sqrt (pt * (1 - pt) / nt), pt + z * Real.sqrt (pt * (1 - pt) / nt)) :=
  intervalR_ac n p c

example :
    let z := probitR ((1 - 19 / 20) / 2)
    let nt := (10 : ℝ) + z ^ 2
    let pt := (10 * (1 / 2) + z ^ 2 / 2) / nt
    intervalR .agrestiCoull 10 (1 / 2) (19 / 20)
      = (pt - z * Real.sqrt (pt * (1 - pt) / nt), pt + z * Real.sqrt (pt * (1 - pt) / nt)) :=
  C18_formula_agresti_coull 10 (1 / 2) (19 / 20) (by norm_num)

/-! ## 4. the Agresti–Coull centre is a proportion (so the root is of a nonnegative number) -/

theorem C18_ac_center_in_unit (n p c : ℝ) (hn : 1 ≤ n) (hp0 : 0 ≤ p) (hp1 : p ≤ 1)
    (_hc0 : 0 < c) (_hc1 : c < 1) :
    let z := probitR ((1 - c) / 2)
    let nt := n + z ^ 2
    let pt := (n * p + z ^ 2 / 2) / nt
    0 ≤ pt ∧ pt ≤ 1 ∧ 0 ≤ pt * (1 - pt) / nt := by
  intro z nt pt
  have h0 : 0 ≤ pt := acP_nonneg n p z hn hp0
  have h1 : pt ≤ 1 := acP_le_one n p z hn hp1
  have hN : 0 < nt := acN_pos n z hn
  refine ⟨h0, h1, ?_⟩
  exact div_nonneg (mul_nonneg h0 (by linarith)) hN.le

/-- same for Wald: `p (1 - p) / n ≥ 0` -/
theorem C18_wald_radicand_nonneg (n p : ℝ) (hn : 1 ≤ n) (hp0 : 0 ≤ p) (hp1 : p ≤ 1) :
    0 ≤ p * (1 - p) / n :=
  div_nonneg (mul_nonneg hp0 (by linarith)) (by linarith)

/-! ## 5. narrower as n grows -/

theorem C18_width_wald (n p c : ℝ) :
    (intervalR .wald n p c).2 - (intervalR .wald n p c).1
      = 2 * (probitR ((1 - c) / 2) * Real.sqrt (p * (1 - p) / n)) := by
  rw [intervalR_wald]; ring

theorem C18_width_agresti_coull (n p c : ℝ) (hn : 1 ≤ n) :
    (intervalR .agrestiCoull n p c).2 - (intervalR .agrestiCoull n p c).1
      = 2 * Real.sqrt (probitR ((1 - c) / 2) ^ 2 *
          (acNum n (p * (1 - p)) (probitR ((1 - c) / 2) ^ 2) / (n + probitR ((1 - c) / 2) ^ 2) ^ 3)) := by
  rw [intervalR_ac]
  simp only
  rw [acVar_eq n p _ hn, mul_sqrt_eq _ _ (probitR_nonneg _)]
  ring

theorem C18_narrows_with_n (m : Method) (n n' p c : ℝ) (hn : 1 ≤ n) (hnn : n ≤ n')
    (hp0 : 0 ≤ p) (hp1 : p ≤ 1) (_hc0 : 0 < c) (_hc1 : c < 1) :
    (intervalR m n' p c).2 - (intervalR m n' p c).1 ≤ (intervalR m n p c).2 - (intervalR m n p c).1 := by
  have hn0 : 0 < n := by linarith
  obtain ⟨hq0, hq1⟩ := pq_bounds p hp0 hp1
  have hz := probitR_nonneg ((1 - c) / 2)
  cases m
  · rw [C18_width_agresti_coull n' p c (hn.trans hnn), C18_width_agresti_coull n p c hn]
    have := acVar_antitone_n n n' (p * (1 - p)) (probitR ((1 - c) / 2) ^ 2) hn0 hnn hq0 hq1
      (sq_nonneg _)
    gcongr
  · rw [C18_width_wald, C18_width_wald]
    gcongr

example : (intervalR .agrestiCoull 100 (1 / 2) (19 / 20)).2 - (intervalR .agrestiCoull 100 (1 / 2) (19 / 20)).1
    ≤ (intervalR .agrestiCoull 10 (1 / 2) (19 / 20)).2 - (intervalR .agrestiCoull 10 (1 / 2) (19 / 20)).1 :=
  C18_narrows_with_n _ 10 100 _ _ (by norm_num) (by norm_num) (by norm_num) (by norm_num)
    (by norm_num) (by norm_num)

/-! ## 6. wider as confidence grows -/

theorem C18_z_widens_with_confidence (c c' : ℝ) (hc0 : 0 < c) (hcc : c ≤ c') (hc1 : c' < 1) :
    probitR ((1 - c) / 2) ≤ probitR ((1 - c') / 2) :=
  z_mono_confidence c c' hcc hc1 hc0

example : probitR ((1 - 9 / 10) / 2) ≤ probitR ((1 - 19 / 20) / 2) :=
  C18_z_widens_with_confidence _ _ (by norm_num) (by norm_num) (by norm_num)

theorem C18_wald_widens_with_confidence (n p c c' : ℝ) (_hn : 1 ≤ n) (_hp0 : 0 ≤ p) (_hp1 : p ≤ 1)
    (hc0 : 0 < c) (hcc : c ≤ c') (hc1 : c' < 1) :
    (intervalR .wald n p c).2 - (intervalR .wald n p c).1
      ≤ (intervalR .wald n p c').2 - (intervalR .wald n p c').1 := by
  rw [C18_width_wald, C18_width_wald]
  have := C18_z_widens_with_confidence c c' hc0 hcc hc1
  gcongr

theorem C18_ac_widens_with_confidence (n p c c' : ℝ) (hn : 1 ≤ n) (hp0 : 0 ≤ p) (hp1 : p ≤ 1)
    (hc0 : 0 < c) (hcc : c ≤ c') (hc1 : c' < 1) :
    (intervalR .agrestiCoull n p c).2 - (intervalR .agrestiCoull n p c).1
      ≤ (intervalR .agrestiCoull n p c').2 - (intervalR .agrestiCoull n p c').1 := by
  rw [C18_width_agresti_coull n p c hn, C18_width_agresti_coull n p c' hn]
  obtain ⟨hq0, hq1⟩ := pq_bounds p hp0 hp1
  have hz := C18_z_widens_with_confidence c c' hc0 hcc hc1
  have hz0 := probitR_nonneg ((1 - c) / 2)
  have hw : probitR ((1 - c) / 2) ^ 2 ≤ probitR ((1 - c') / 2) ^ 2 := by gcongr
  have := acWidthSq_mono_w n (p * (1 - p)) _ _ (by linarith) hq0 hq1 (sq_nonneg _) hw
  gcongr

theorem C18_widens_with_confidence (m : Method) (n p c c' : ℝ) (hn : 1 ≤ n) (hp0 : 0 ≤ p)
    (hp1 : p ≤ 1) (hc0 : 0 < c) (hcc : c ≤ c') (hc1 : c' < 1) :
    (intervalR m n p c).2 - (intervalR m n p c).1 ≤ (intervalR m n p c').2 - (intervalR m n p c').1 := by
  cases m
  · exact C18_ac_widens_with_confidence n p c c' hn hp0 hp1 hc0 hcc hc1
  · exact C18_wald_widens_with_confidence n p c c' hn hp0 hp1 hc0 hcc hc1

example : (intervalR .agrestiCoull 10 (1 / 2) (9 / 10)).2 - (intervalR .agrestiCoull 10 (1 / 2) (9 / 10)).1
    ≤ (intervalR .agrestiCoull 10 (1 / 2) (19 / 20)).2 - (intervalR .agrestiCoull 10 (1 / 2) (19 / 20)).1 :=
  C18_widens_with_confidence _ 10 _ _ _ (by norm_num) (by norm_num) (by norm_num) (by norm_num)
    (by norm_num) (by norm_num)

/-! ## 7. method dispatch -/

theorem C18_method_wald : Stats.parseMethod "wald" = some .wald := by decide
theorem C18_method_agresti_coull : Stats.parseMethod "agresti-coull" = some .agrestiCoull := by decide

theorem C18_unknown_method_refused (s : String) (h1 : Stats.lowerAscii s ≠ "agresti-coull")
    (h2 : Stats.lowerAscii s ≠ "wald") : Stats.parseMethod (Stats.lowerAscii s) = none := by
  simp [Stats.parseMethod, h1, h2]

theorem C18_unknown_method_refused_float (n p c : Float) (s : String)
    (h1 : Stats.lowerAscii s ≠ "agresti-coull") (h2 : Stats.lowerAscii s ≠ "wald") :
    Stats.confidenceIntervalF n p c s = none := by
  simp [Stats.confidenceIntervalF, C18_unknown_method_refused s h1 h2]

/-- and conversely a recognised name is never refused -/
theorem C18_known_method_accepted (n p c : Float) (s : String)
    (h : Stats.lowerAscii s = "agresti-coull" ∨ Stats.lowerAscii s = "wald") :
    (Stats.confidenceIntervalF n p c s).isSome = true := by
  rcases h with h | h <;> simp [Stats.confidenceIntervalF, Stats.parseMethod, h]

example : Stats.parseMethod (Stats.lowerAscii "Wilson") = none :=
  C18_unknown_method_refused "Wilson" (by decide) (by decide)
example : Stats.parseMethod (Stats.lowerAscii "WALD") = some .wald := by decide
example : Stats.parseMethod (Stats.lowerAscii "Agresti-Coull") = some .agrestiCoull := by decide

/-! ## 8. the z-score is conservative: never below the true normal quantile

`Φ := cdf (gaussianReal 0 1)` is Mathlib's standard normal distribution function. -/

open ProbabilityTheory in
/-- the analytic core: on `z ≥ 0` the logistic curve of scale `√(π/8)` lies below `Φ` -/
theorem C18_logistic_le_normal_cdf (z : ℝ) (hz : 0 ≤ z) :
    1 / (1 + Real.exp (-z / Real.sqrt (Real.pi / 8))) ≤ cdf (gaussianReal 0 1) z := by
  have := Proofs.StatsGauss.logistic_le_Phi z hz
  rw [one_div, neg_div]
  exact this

open ProbabilityTheory in
/-- at the module's z the true normal CDF has already reached `1 − α` -/
theorem C18_z_conservative_cdf (a : ℝ) (h0 : 0 < a) (h1 : a ≤ 1 / 2) :
    1 - a ≤ cdf (gaussianReal 0 1) (probitR a) := by
  have := Proofs.StatsGauss.logistic_le_Phi (probitR a) (probitR_nonneg a)
  rwa [Proofs.StatsGauss.logistic_probitR a h0 h1] at this

open ProbabilityTheory in
/-- hence the true quantile `q = Φ⁻¹(1 − α)` is at most the module's z -/
theorem C18_z_conservative (a q : ℝ) (h0 : 0 < a) (h1 : a ≤ 1 / 2)
    (hq : cdf (gaussianReal 0 1) q = 1 - a) : q ≤ probitR a := by
  have h := C18_z_conservative_cdf a h0 h1
  rw [← hq] at h
  exact Proofs.StatsGauss.strictMono_Phi.le_iff_le.1 h

open ProbabilityTheory in
/-- the hypothesis of `C18_z_conservative` is never vacuous: the true quantile exists and is unique -/
theorem C18_quantile_exists_unique (a : ℝ) (h0 : 0 < a) (h1 : a < 1) :
    ∃! q, cdf (gaussianReal 0 1) q = 1 - a := by
  obtain ⟨q, hq⟩ := Proofs.StatsGauss.exists_quantile (1 - a) (by linarith) (by linarith)
  exact ⟨q, hq, fun q' hq' => Proofs.StatsGauss.strictMono_Phi.injective (hq'.trans hq.symm)⟩

open ProbabilityTheory in
/-- concrete instance of the hypotheses: `α = 1/2`, whose true quantile is `q = 0` -/
example : (0 : ℝ) ≤ probitR (1 / 2) :=
  C18_z_conservative (1 / 2) 0 (by norm_num) (by norm_num)
    (Proofs.StatsGauss.Phi_zero.trans (by norm_num))

open ProbabilityTheory in
/-- as used by `confidence_interval`: `α = 1 − confidence`, tail mass `α/2` -/
theorem C18_z_conservative_confidence (c q : ℝ) (hc0 : 0 < c) (hc1 : c < 1)
    (hq : cdf (gaussianReal 0 1) q = 1 - (1 - c) / 2) : q ≤ probitR ((1 - c) / 2) :=
  C18_z_conservative _ q (by linarith) (by linarith) hq

open ProbabilityTheory in
example : 1 - 1 / 40 ≤ cdf (gaussianReal 0 1) (probitR (1 / 40)) :=
  C18_z_conservative_cdf _ (by norm_num) (by norm_num)

end Pyab.Properties

namespace Pyab.Properties
open Pyab

/-- the write effects of the functions of `utils/stats.py` -/
def statsEffects : List Generated.Effect := Generated.effects.filter fun e => e.fn.toList.take 6 == "stats.".toList

/-- **table obligation**: `probit` and `confidence_interval` were extracted -/
theorem stats_path_extracted : Generated.scannedFunctions.contains "stats.confidence_interval" = true ∧
    Generated.scannedFunctions.contains "stats.probit" = true := by decide

/-- **table obligation**: the statistics helpers write nothing but their own locals (no module-level memo: what they return
    is a function of their arguments, also when several threads call them) -/
theorem stats_path_writes_only_locals : statsEffects.all (fun e => e.kind == "local" || e.kind == "fresh-object") = true := by decide

end Pyab.Properties
