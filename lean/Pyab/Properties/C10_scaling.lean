/-
  C10 (scaling) — only the SHARES of the weights matter, not their magnitude, for powers of two.
  "Multiplying every weight by `2^k` changes no rounding (binary64 scales exactly) and hence
  no choice."

  Everything is stated on the code's own binary64 arithmetic (`Dbl.round`, `Dbl.add`, `Dbl.mul`,
  `Dbl.lt`, `Choice.accumulate`, `Choice.choiceIdx`).  Statements only; the proofs live in
  `Proofs/ChoiceScale.lean` (on top of `Proofs/DblRound.lean`, `Proofs/ChoiceFloat.lean`).

  Shape of the argument
    `RSpec v r → RSpec (v·2^k) (r·2^k)` in the normal range   (ulp exponent moves by `k`, the
                                                               quotient and its parity do not)
    ⇒ `add (scale a) (scale b) == scale (add a b)`, `mul u (scale t) == scale (mul u t)`
    ⇒ `accumulate (map scale ws) == map scale (accumulate ws)`          (`C10_scaling_accumulate`)
    ⇒ same total check, same position up to `2^k`, same comparisons     (`C10_scaling_lt`)
    ⇒ same bisect index, same error if any                              (`C10_scaling_invariant`).
  `==` is binary64 equality (`Dbl.beq`), not syntactic equality of `Dbl.fin m e`: `Dbl.round`
  returns `fin 0 0` for every zero and keeps un-normalised mantissas, so a zero running sum is
  `fin 0 0` on both sides while `scale2 k (fin 0 0) = fin 0 k`.  For a NONZERO mantissa the
  syntactic identity `round m (e + k) = scale2 k (round m e)` does hold
  (`C10_scaling_round_commutes`).

  The normal-range hypothesis `ScaleRange ws k` (computable: `Dbl.scaleRangeB`):
    lo  every nonzero weight `m·2^e` has `-990 ≤ e` and `-990 ≤ e + k`
        (then every nonzero running sum is `≥ 2^-990`, and the position `u·total ≥ 2^-32·2^-990
         = 2^-1022` is a normal double, before and after);
    hi  the last running sum `m·2^e` is finite and `m·2^(e+k) < 2^1024`
        (sufficient: `m ≤ 2^53` and `e + k ≤ 970`, `C10_scaling_hi_of_exponent`).
  It cannot be dropped: with weights `[5e-324, 5e-324]` and `k = 10` the unit at `h = 3·2^29`
  moves from group 1 to group 0 (last `example`).
-/
import Pyab.Model.Choice
import Pyab.Proofs.ChoiceScale
import Pyab.Properties.C03
import Pyab.Properties.C03_float
namespace Pyab.Properties
open Pyab Pyab.Spec

/-! ### 1. rounding commutes with exact scaling -/

/-- `Dbl.scale2 k` is the exponent shift, i.e. exact multiplication by `2^k` -/
theorem C10_scaling_scale2_def (k m e : Int) : Dbl.scale2 k (.fin m e) = .fin m (e + k) := rfl

/-- `Num.scale k` scales a float weight exactly -/
theorem C10_scaling_scale_def (k m e : Int) :
    Num.scale k (.f (.fin m e)) = .f (.fin m (e + k)) := rfl

/-- **`Dbl.round n (e + k) = scale2 k (Dbl.round n e)`** — syntactically — for a mantissa
    `n ≠ 0` of bit length `B = log2 n + 1` whose value `n·2^e ∈ [2^(B-1+e), 2^(B+e))` is a normal
    double below `2^1023`, before and after the scaling. -/
theorem C10_scaling_round_commutes (n : Nat) (hn : n ≠ 0) (e k : Int)
    (h1 : -1021 ≤ (n.log2 : Int) + 1 + e) (h2 : -1021 ≤ (n.log2 : Int) + 1 + e + k)
    (h3 : (n.log2 : Int) + 1 + e ≤ 1023) (h4 : (n.log2 : Int) + 1 + e + k ≤ 1023) :
    Dbl.round (n : Int) (e + k) = Dbl.scale2 k (Dbl.round (n : Int) e) :=
  Dbl.round_scale2_nat n hn e k h1 h2 h3 h4

/-- comparisons are invariant under a common exact scaling — no range condition -/
theorem C10_scaling_lt (k m1 e1 m2 e2 : Int) :
    Dbl.lt (Dbl.scale2 k (.fin m1 e1)) (Dbl.scale2 k (.fin m2 e2))
      = Dbl.lt (.fin m1 e1) (.fin m2 e2) :=
  Dbl.lt_scale2 k m1 e1 m2 e2

/-! ### 2. the hypothesis -/

/-- all exponents involved stay in the normal range before and after scaling by `2^k` -/
abbrev ScaleRange (ws : List Num) (k : Int) : Prop := Dbl.ScaleRange ws k

/-- what `ScaleRange` says, in full -/
theorem C10_scaling_range_iff (ws : List Num) (k : Int) :
    ScaleRange ws k ↔
      (∀ m e, Num.f (.fin m e) ∈ ws → m ≠ 0 → -990 ≤ e ∧ -990 ≤ e + k) ∧
      (∀ cum l, Choice.accumulate ws = .ok cum → cum.getLast? = some l →
        ∃ m e, l = Num.f (.fin m e) ∧ Dbl.lt (.fin m (e + k)) (.fin 1 1024) = true) :=
  ⟨fun h => ⟨h.lo, h.hi⟩, fun h => ⟨h.1, h.2⟩⟩

/-- a sufficient exponent bound for the `hi` part: a total `m·2^e` with `m ≤ 2^53` (every result
    of `Dbl.round` has that) and `e + k ≤ 970` -/
theorem C10_scaling_hi_of_exponent (m e k : Int) (hm : m ≤ 2 ^ 53) (he : e + k ≤ 970) :
    Dbl.lt (.fin m (e + k)) (.fin 1 1024) = true :=
  Dbl.lt_top_of_exponent m (e + k) hm he

/-- `ScaleRange` is decided by the program `Dbl.scaleRangeB` -/
theorem C10_scaling_range_check (ws : List Num) (k : Int) (h : Dbl.scaleRangeB ws k = true) :
    ScaleRange ws k :=
  Dbl.scaleRange_of_check ws k h

/-! ### 3. running sums, then the choice -/

/-- **`accumulate (map scale ws) == map scale (accumulate ws)`**: same length, and entry by entry
    the running sum of the scaled weights equals (binary64 `==`) the scaled running sum. -/
theorem C10_scaling_accumulate (ws cum : List Num) (k : Int) (hw : FloatWeights ws)
    (hr : ScaleRange ws k) (hacc : Choice.accumulate ws = .ok cum) :
    ∃ cum', Choice.accumulate (ws.map (Num.scale k)) = .ok cum' ∧ cum'.length = cum.length ∧
      ∀ i, i < cum.length → ∃ c c', cum[i]! = Num.f c ∧ cum'[i]! = Num.f c' ∧
        Dbl.beq (Dbl.scale2 k c) c' = true :=
  Dbl.accumulate_scale ws cum k hw hr hacc

/-- **Only the shares matter (powers of two).**  For genuine non-negative binary64 weights in the
    normal range, multiplying every weight by `2^k` changes nothing about the weighted call: the
    same index for every hash position `h < 2^32` and every `n`, and the same error whenever it
    raises (wrong length, empty, all-zero weights). -/
theorem C10_scaling_invariant (ws : List Num) (k : Int) (h n : Nat) (hh : h < 2 ^ 32)
    (hw : FloatWeights ws) (hnorm : ScaleRange ws k) :
    Choice.choiceIdx (some h) n (some (ws.map (Num.scale k))) none
      = Choice.choiceIdx (some h) n (some ws) none :=
  Dbl.choice_scale_invariant ws k h n hh hw hnorm

/-- **Integer weights**, total below `2^53`, scaled as floats by `2^k`, `0 ≤ k ≤ 900`:
    nothing changes. -/
theorem C10_scaling_invariant_int (w : List Nat) (k : Int) (h n : Nat) (hh : h < 2 ^ 32)
    (hT : total w < 2 ^ 53) (hk0 : 0 ≤ k) (hk : k ≤ 900) :
    Choice.choiceIdx (some h) n (some ((floatWeights w).map (Num.scale k))) none
      = Choice.choiceIdx (some h) n (some (floatWeights w)) none :=
  Dbl.choice_scale_invariant_int w k h n hh hT (by omega) (by omega)

/-- … in fact for every `-990 ≤ k ≤ 970` (scaling down as well) -/
theorem C10_scaling_invariant_int_range (w : List Nat) (k : Int) (h n : Nat) (hh : h < 2 ^ 32)
    (hT : total w < 2 ^ 53) (hk0 : -990 ≤ k) (hk : k ≤ 970) :
    Choice.choiceIdx (some h) n (some ((floatWeights w).map (Num.scale k))) none
      = Choice.choiceIdx (some h) n (some (floatWeights w)) none :=
  Dbl.choice_scale_invariant_int w k h n hh hT hk0 hk

/-- … and the integers may be multiplied before the conversion: weights `w` and `w·2^k`
    (e.g. `[1, 2, 7]` and `[1024, 2048, 7168]`) select identically, although `float(x·2^k)` and
    `scale2 k (float x)` are different representations of the same double. -/
theorem C10_scaling_invariant_int_mul (w : List Nat) (k h n : Nat) (hh : h < 2 ^ 32)
    (hT : total w < 2 ^ 53) (hk : k ≤ 900) :
    Choice.choiceIdx (some h) n (some (floatWeights (w.map (· * 2 ^ k)))) none
      = Choice.choiceIdx (some h) n (some (floatWeights w)) none :=
  Dbl.choice_scale_invariant_int_mul w k h n hh hT hk

/-! ### non-vacuity: `[0.1, 0.2, 0.7]`, scaled by `2^54` and by `2^-20` -/

/-- the decimal weights `0.1, 0.2, 0.7` as `float("0.1")` etc. -/
def w127 : List Num :=
  [.f (Dbl.ofDecimal false 1 1), .f (Dbl.ofDecimal false 2 1), .f (Dbl.ofDecimal false 7 1)]

example : FloatWeights w127 := by
  intro w hw'
  simp only [w127, List.mem_cons, List.mem_nil_iff, or_false] at hw'
  rcases hw' with rfl | rfl | rfl
  · exact ⟨_, rfl, Dbl.ofDecimal_nonnegDouble 1 1 rfl⟩
  · exact ⟨_, rfl, Dbl.ofDecimal_nonnegDouble 2 1 rfl⟩
  · exact ⟨_, rfl, Dbl.ofDecimal_nonnegDouble 7 1 rfl⟩

example : ScaleRange w127 54 := C10_scaling_range_check _ _ (by decide +kernel)
example : ScaleRange w127 (-20) := C10_scaling_range_check _ _ (by decide +kernel)

/-- the running sums are `0.1, 0.30000000000000004, 1.0`; the total is `2^52·2^-52` -/
example : Choice.accumulate w127 = .ok [.f (.fin 7205759403792794 (-56)),
    .f (.fin 5404319552844596 (-54)), .f (.fin 4503599627370496 (-52))] := rfl

/-- and the theorem applies: every hash position, both scalings -/
example (h : Nat) (hh : h < 2 ^ 32) :
    Choice.choiceIdx (some h) 3 (some (w127.map (Num.scale 54))) none
      = Choice.choiceIdx (some h) 3 (some w127) none :=
  C10_scaling_invariant w127 54 h 3 hh
    (by
      intro w hw'
      simp only [w127, List.mem_cons, List.mem_nil_iff, or_false] at hw'
      rcases hw' with rfl | rfl | rfl
      · exact ⟨_, rfl, Dbl.ofDecimal_nonnegDouble 1 1 rfl⟩
      · exact ⟨_, rfl, Dbl.ofDecimal_nonnegDouble 2 1 rfl⟩
      · exact ⟨_, rfl, Dbl.ofDecimal_nonnegDouble 7 1 rfl⟩)
    (C10_scaling_range_check _ _ (by decide +kernel))

/-- integer instance: `[1, 2, 7]` against `[1024, 2048, 7168]` -/
example (h : Nat) (hh : h < 2 ^ 32) :
    Choice.choiceIdx (some h) 3 (some (floatWeights [1024, 2048, 7168])) none
      = Choice.choiceIdx (some h) 3 (some (floatWeights [1, 2, 7])) none :=
  C10_scaling_invariant_int_mul [1, 2, 7] 10 h 3 hh (by decide) (by decide)

/-! ### the normal-range hypothesis is needed -/

/-- two weights `5e-324 = 2^-1074` (the smallest subnormal) -/
def wSub : List Num := [.f (Dbl.round 1 (-1074)), .f (Dbl.round 1 (-1074))]

/-- they are genuine doubles … -/
example : FloatWeights wSub := by
  intro w hw'
  simp only [wSub, List.mem_cons, List.mem_nil_iff, or_false] at hw'
  rcases hw' with rfl | rfl
  · exact ⟨_, rfl, 1, -1074, by decide, rfl, rfl⟩
  · exact ⟨_, rfl, 1, -1074, by decide, rfl, rfl⟩

/-- … outside the range: the `lo` part fails (`e = -1074 < -990`) -/
example : Dbl.scaleRangeB wSub 10 = false := by decide +kernel

/-- **Scaling DOES change the index in the subnormal range.**  Total `2^-1073`, `u = 3/8`:
    unscaled, `u·total = 0.75·2^-1074` rounds UP to `2^-1074 = S_0`, so the unit is in group 1;
    scaled by `2^10` the product `0.375·2^-1063` is exact and below `S_0 = 2^-1064`: group 0. -/
example :
    Choice.choiceIdx (some (3 * 2 ^ 29)) 2 (some wSub) none = .ok (.idx 1) ∧
    Choice.choiceIdx (some (3 * 2 ^ 29)) 2 (some (wSub.map (Num.scale 10))) none = .ok (.idx 0) :=
  ⟨rfl, rfl⟩

/-- the rounding itself: `round 3 (-1076)` (= `0.75·2^-1074`) is `2^-1074`, but scaled by `2^10`
    it stays `3·2^-1066` -/
example : Dbl.round 3 (-1076) = .fin 1 (-1074) ∧ Dbl.round 3 (-1076 + 10) = .fin 3 (-1066) :=
  ⟨rfl, rfl⟩

end Pyab.Properties
