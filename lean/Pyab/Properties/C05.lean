/-
  C05 — literals reach run time with their exact value and type (string part:
  render → Python's literal reader is the identity).
-/
import Pyab.Model.PyStrLit
import Pyab.Proofs.StrLit
namespace Pyab.Properties
open Pyab Pyab.PyStrLit

/-- every string — quotes, backslashes, control characters, non-ASCII, unassigned
    code points — rendered with `repr()` is consumed by the Python tokenizer as one literal
    that decodes to the same string, with nothing left over and nothing swallowed -/
theorem C05_string_roundtrip (printable : Nat → Bool) (s : String) (rest : List Char) :
    pyScanStr ((pyReprStr printable s).toList ++ rest) = some (s, rest) := by
  have := Proofs.scan_repr printable s.toList rest
  simpa [pyReprStr] using this

example : pyScanStr (pyReprStr (fun _ => true) "it's \"q\" \\ \t é").toList
    = some ("it's \"q\" \\ \t é", []) := by decide

end Pyab.Properties
