/-
  C05 — literals reach run time with their exact value and type (string part:
  render → Python's literal reader is the identity).
-/
import Pyab.Generated.Config
import Pyab.Properties.EvaluatorPremise
import Pyab.Generated.LRTables
import Pyab.Model.PyStrLit
import Pyab.Proofs.StrLit
namespace Pyab.Properties
open Pyab Pyab.PyStrLit

/-- every string — quotes, backslashes, control characters, non-ASCII, unassigned
    code points — rendered with `repr()` is consumed by the Python tokenizer as one literal
    that decodes to the same string, with nothing left over and nothing swallowed.

    Side condition `hrest` (decidable; needed only for the empty string): this is Python's
    triple-quote rule.  `repr("")` is `''`, and `''` immediately followed by a third `'`
    is the opening of a triple-quoted string, not an empty literal — without `hrest` the
    statement is false (`C05_empty_then_quote_fails` below).  The generator always follows
    a rendered literal by `)`, `,`, ` `, `]` or `+`, never by a quote, so the condition
    always holds for generated code (`C05_string_roundtrip_generated`). -/
theorem C05_string_roundtrip (printable : Nat → Bool) (s : String) (rest : List Char)
    (hrest : s = "" → rest.head? ≠ some '\'') :
    pyScanStr ((pyReprStr printable s).toList ++ rest) = some (s, rest) := by
  have := Proofs.scan_repr printable s.toList rest (fun h => hrest (by simpa using h))
  simpa [pyReprStr] using this

/-- the side condition of `C05_string_roundtrip` is necessary: `''` followed by `'` is
    the start of a triple-quoted string -/
theorem C05_empty_then_quote_fails (printable : Nat → Bool) (rest : List Char) :
    pyScanStr ((pyReprStr printable "").toList ++ '\'' :: rest) = none := by
  have := Proofs.scan_repr_nil_quote printable rest
  simpa [pyReprStr] using this

/-- nothing follows the literal: unconditional -/
theorem C05_string_roundtrip_eof (printable : Nat → Bool) (s : String) :
    pyScanStr (pyReprStr printable s).toList = some (s, []) := by
  have := C05_string_roundtrip printable s [] (fun _ => by simp)
  simpa using this

/-- the literal is followed by any character other than `'`: unconditional in `s` -/
theorem C05_string_roundtrip_cons (printable : Nat → Bool) (s : String) (c : Char)
    (rest : List Char) (hc : c ≠ '\'') :
    pyScanStr ((pyReprStr printable s).toList ++ c :: rest) = some (s, c :: rest) :=
  C05_string_roundtrip printable s (c :: rest) (fun _ => by simpa using hc)

/-- the contexts the generator actually produces after a rendered literal -/
theorem C05_string_roundtrip_generated (printable : Nat → Bool) (s : String) (c : Char)
    (rest : List Char) (hc : c ∈ [')', ',', ' ', ']', '+']) :
    pyScanStr ((pyReprStr printable s).toList ++ c :: rest) = some (s, c :: rest) := by
  apply C05_string_roundtrip_cons
  intro h; subst h; revert hc; decide

example : pyScanStr (pyReprStr (fun _ => true) "it's \"q\" \\ \t é").toList
    = some ("it's \"q\" \\ \t é", []) := by decide


/-- **table obligation**: predicate operands keep their declared type — pydantic validates the
    operand union with `smart_union` (exact type first), so `"02134"` stays a string and
    `9007199254740993` stays an int; tuples of the language are Python tuples -/
theorem C05_operands_keep_type :
    (Generated.lrTables.smartUnionTerm && Generated.lrTables.smartUnionGroup && Generated.lrTables.tupleIsTuple) = true := by decide

/-- **table obligation**: strings are rendered with `repr()` both as operands and as salt -/
theorem C05_strings_rendered_with_repr :
    (Generated.genCfg.strReprTerm && Generated.genCfg.strReprSalt && Generated.genCfg.tupleRecursive) = true := by decide

end Pyab.Properties
