/-
  C08 — comments and whitespace never change meaning.
  Proved: any sequence of well-formed trivia (white-space runs, `//` comments with their
  newline, `/* */` comments spanning lines with arbitrary bodies not containing `*/`) in
  front of the remaining input is invisible to the lexer (`C08_trivia_prefix_invisible*`,
  in `C08_trivia.lean`, for the rule tables regenerated from /repo); the order facts about
  the rule table that trivia handling relies on; trivia pieces never contribute tokens.
  and (`C08_roundtrip.lean`) for all 30 token kinds a lexeme followed by a separator lexes as
  exactly that token, hence `C08_roundtrip` / `C07_lex_complete`: every admissible rendering
  of a token list lexes back to exactly those tokens, and `C08_trivia_invariant`: two
  admissible renderings of the same tokens with different trivia lex identically.
-/
import Pyab.Proofs.LexNoSkip
import Pyab.Properties.EvaluatorPremise
import Pyab.Properties.C08_trivia
import Pyab.Properties.C08_roundtrip
import Pyab.Generated.LexRules
namespace Pyab.Properties
open Pyab

def ruleIndex (name : String) (rules : List LexRule) : Option Nat :=
  rules.findIdx? (·.name == name)

/-- **table obligation**: `STRING_LITERAL` is tried before every comment rule, so comment
    markers inside a string literal stay in the literal -/
theorem C08_strings_before_comments :
    (do let s ← ruleIndex "STRING_LITERAL" Generated.lexState0.rules
        let b ← ruleIndex "BLOCK_COMMENT_START" Generated.lexState0.rules
        let l ← ruleIndex "inline_comment" Generated.lexState0.rules
        pure (decide (s < b ∧ s < l))) = some true := by decide +kernel

/-- **table obligation**: inside a block comment the end rule is tried first and is lazy
    (it stops at the first `*/` of the line) -/
theorem C08_block_end_first_and_lazy :
    (match Generated.lexState1.rules with
     | r :: _ => r.name == "BLOCK_COMMENT_END" &&
         (match r.re with
          | .seq (.rep 0 none false .any) (.seq (.lit 42) (.lit 47)) => true
          | _ => false)
     | [] => false) = true := by decide +kernel

/-- the tokens of an accepted text are exactly its token pieces: trivia pieces (white space,
    comments) contribute nothing -/
theorem C08_trivia_contributes_no_tokens (text : String) (out : LexOut)
    (h : lexFull Generated.lexSpec text = .ok out) :
    out.toks.map (·.kind) = out.pieces.filterMap (fun p => match p with | .token k _ => some k | _ => none) :=
  lexFull_tokens_from_pieces Generated.lexSpec text out h

end Pyab.Properties
