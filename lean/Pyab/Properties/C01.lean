/- C01 — statements are being added as the proofs land (see DESIGN.md §6). -/
namespace Pyab.Properties

theorem C01_placeholder : True := trivial

end Pyab.Properties
