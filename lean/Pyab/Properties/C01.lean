/-
  C01 — assignment is a pure, process-independent function of source and inputs.
  In the model a single call is a function by construction; the theorems are about the two
  places where purity could be lost: evaluator state across histories (through the C11
  refinement) and the order / repetition of splitter names (key canonicity).  That CPython
  adds no per-process entropy is the tie's job (process matrix), not a theorem.
-/
import Pyab.Properties.C01_key
import Pyab.Properties.PurePremise
import Pyab.Properties.ChoicePure
import Pyab.Properties.C11
namespace Pyab.Properties
open Pyab Pyab.Spec

/-- a call returns `runText (last accepted text) env` — nothing else about the history matters -/
theorem C01_call_is_function_of_text (p : Pipeline) (w : SpecWorld) (id : Nat) (env : Env) (t : String)
    (h : w.get id = some t) :
    (specStep p w (.call id env)).2 =
      (match p.runText t env with | .ok o => EvOut.result o | .error e => EvOut.err e) := by
  simp only [specStep, h]
  cases p.runText t env <;> rfl

/-- two evaluators that accepted the same text agree on every input -/
theorem C01_same_text_same_result (p : Pipeline) (w w' : SpecWorld) (id id' : Nat) (env : Env) (t : String)
    (h : w.get id = some t) (h' : w'.get id' = some t) :
    (specStep p w (.call id env)).2 = (specStep p w' (.call id' env)).2 := by
  rw [C01_call_is_function_of_text p w id env t h, C01_call_is_function_of_text p w' id' env t h']

/-- no call changes the result of any later call: a call leaves every evaluator as it was -/
theorem C01_call_has_no_effect (p : Pipeline) (w : SpecWorld) (id : Nat) (env : Env) (ops : List EvOp) :
    specHistory p (specStep p w (.call id env)).1 ops = specHistory p w ops := by
  rw [C11_call_changes_nothing]

/-- **History independence for the code's own pipeline**: along any history (any interleaving of
    constructions, valid and invalid recompiles and calls over any evaluators, texts with pairwise
    distinct MD5), the real evaluator model produces exactly the outputs of the "last accepted
    text" specification, whose calls are pure functions of (text, env) by the lemmas above. -/
theorem C01_history_independent (ops : List EvOp)
    (hinj : ∀ t1 ∈ textsOf ops, ∀ t2 ∈ textsOf ops, md5hex t1 = md5hex t2 → t1 = t2) :
    runHistory Generated.pipeline md5hex [] ops = specHistory Generated.pipeline [] ops :=
  C11_refinement_repo ops hinj

end Pyab.Properties
