/-
  Shared premise of every property that is observed through a long-lived `ExperimentEvaluator`
  (C02 … C15): `recompile` recognises "the same text again" by a collision-resistant digest of the
  EXACT text (so that, up to digest collisions, an evaluator given text T answers as T — theorem
  `C11_refinement_history`), and remembers the digest only after the new code is installed.
  Both facts are probed against /repo by the translator on every run (Generated.Config).
-/
import Pyab.Generated.Config
import Pyab.Properties.ChoicePure
import Pyab.Properties.PurePremise
import Pyab.Generated.Pipeline
namespace Pyab.Properties
open Pyab

/-- **table obligation**: the stored checksum is a cryptographic digest of the exact text — probed on a text
    with runs of blanks, tabs, comment markers and `#` inside literals, mixed case, non-NFC characters,
    trailing white space and a comment -/
theorem evaluator_digest_of_exact_text : Generated.checksumCollisionResistant = true := by decide

/-- **table obligation**: a text that failed to compile is not remembered as the current one -/
theorem evaluator_checksum_after_install : Generated.pipeline.checksumEarly = false := by decide

end Pyab.Properties
