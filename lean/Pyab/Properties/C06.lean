/-
  C06 — text outside the grammar is rejected, never silently repaired.
-/
import Pyab.Properties.C06_parser
import Pyab.Properties.EvaluatorPremise
import Pyab.Properties.C06_lexer
import Pyab.Generated.LexRules
import Pyab.Generated.LRTables
namespace Pyab.Properties
open Pyab

/-- **table obligation**: the lexer's error callback raises in every lexer state (it does not
    skip the offending character and go on) -/
theorem C06_lexer_errors_raise : Generated.lexSpec.states.all (·.errorRaises) = true := by decide +kernel

/-- **table obligation**: the parser's error callback raises (sly's panic-mode recovery, which
    discards tokens and restarts, is never entered) -/
theorem C06_parser_errors_raise : Generated.lrTables.errorRaises = true := by decide

/-- **table obligation**: end of input inside a block comment is an error -/
theorem C06_unterminated_comment_rejected : Generated.lexSpec.eofRequiresInitial = true := by decide

end Pyab.Properties
