/-
  C02 — compiled routing equals the DSL's if / else-if / else and operator semantics.
  Statements only; proofs in `Pyab/Proofs/Routing.lean`.
-/
import Pyab.Spec.Semantics
import Pyab.Properties.EvaluatorPremise
import Pyab.Proofs.Routing
import Pyab.Proofs.StrLit
import Pyab.Generated.Config
namespace Pyab.Properties
open Pyab Pyab.Spec

/-- **table obligation** (re-checked against /repo on every run): the real generator renders
    every operator as the Python operator of the same meaning, string operands through
    `repr()`, tuples member by member -/
theorem C02_generator_canonical : CanonicalExpr Generated.genCfg :=
  canonicalExpr_of_check _ (by decide)

/-- a rendered string operand is read back by Python as the same string -/
theorem readBack_repr (cfg : GenCfg) (s : String) : readBackStr cfg true s = .ok s := by
  have h := Proofs.scan_repr_nil_rest cfg.printable s.toList
  simp only [List.append_nil] at h
  simp [readBackStr, renderStr, PyStrLit.pyReprStr, h]
  rfl

/-- **Routing.** For every conditional — any nesting, any else-if chain, with or without
    else — emitted at any indentation depth (both layouts of the generator), every
    predicate tree over the eleven operators and every environment: executing the emitted
    lines by Python's indentation and control-flow rules hands `deterministic_choice`
    exactly the groups of the return statement that nested if / else-if / else selects,
    raises the unroutable error exactly when none is selected, and propagates a
    comparison's TypeError exactly when the reference semantics raises it — never a group
    of another branch, never `None` (falling off the end). -/
theorem C02_routing_correct (cfg : GenCfg) (hc : CanonicalExpr cfg) (env : Env) (c : Cond) (d : Nat)
    (L : List ILine) (h : bodyLines cfg d c = .ok L) :
    runLines env .exec L =
      match specRoute env c with
      | .error e => .error e
      | .ok none => .error .unroutable
      | .ok (some gs) => retVals cfg gs := by
  have := Proofs.run_bodyLines cfg hc (readBack_repr cfg) env c d L h
  rw [this]
  cases specRoute env c with
  | error e => rfl
  | ok o => cases o <;> rfl

/-- the same for the generator as it is in /repo now -/
theorem C02_routing_correct_repo (env : Env) (c : Cond) (d : Nat) (L : List ILine)
    (h : bodyLines Generated.genCfg d c = .ok L) :
    runLines env .exec L =
      match specRoute env c with
      | .error e => .error e
      | .ok none => .error .unroutable
      | .ok (some gs) => retVals Generated.genCfg gs :=
  C02_routing_correct _ C02_generator_canonical env c d L h

/-- every predicate tree evaluates, in the emitted Python, to its reference meaning
    (all eight comparison operators, not / and / or with short-circuit) -/
theorem C02_pred_correct (cfg : GenCfg) (hc : CanonicalExpr cfg) (env : Env) (p : Pred) (e : PExpr)
    (h : lowerPred cfg p = .ok e) : evalExpr env e = specPred env p :=
  Proofs.evalExpr_lower cfg hc (readBack_repr cfg) env p e h

/-- a nested conditional that selects nothing does not fall through into the outer `else` -/
example : specRoute [("a", .int 1), ("b", .int 0)]
    (.ifte (.cmp (.ident "a") .eq (.int 1))
       (.ifte (.cmp (.ident "b") .eq (.int 1)) (.ret []) .none)
       (.else_ (.ret [⟨.str "outer", .i 1⟩]))) = .ok none := by
  simp [specRoute, specSub, specPred, specTerm, specCmp, Env.get, PyVal.pyEq, bind, Except.bind, pure, Except.pure]

end Pyab.Properties
