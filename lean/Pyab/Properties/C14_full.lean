/-
  C14 — entry point of the check: layout equivalence (`C14.lean`) and the text-level bridge
  (`C14_text.lean`: `genText` is the rendering of the emitted lines, for both layouts).
-/
import Pyab.Properties.C14
import Pyab.Properties.C05_float
import Pyab.Properties.C14_text
