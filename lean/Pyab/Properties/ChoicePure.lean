/-
  Shared premise of every property that reads the choice function as a FUNCTION of its
  arguments (C01, C03, C10, C16): `deterministic_proba` and `deterministic_choice` write
  nothing but their own local variables — no module-level memo, no `global`, no attribute of
  an argument.  Re-extracted from /repo by the translator on every run (Generated.effects).
-/
import Pyab.Generated.Effects
import Pyab.Properties.PurePremise
namespace Pyab.Properties
open Pyab

/-- the write effects of the two functions of `binning.py` -/
def choiceEffects : List Generated.Effect :=
  Generated.effects.filter fun e => e.fn == "deterministic_choice" || e.fn == "deterministic_proba"

/-- **table obligation**: the choice path is modelled — both functions have extracted effects -/
theorem choice_path_extracted : Generated.scannedFunctions.contains "deterministic_choice" = true ∧
    Generated.scannedFunctions.contains "deterministic_proba" = true := by decide

/-- **table obligation**: every write of the choice path is to a local variable of the call or to an object created in the call
    (e.g. a digest object that is fed piecewise) -/
theorem choice_path_writes_only_locals : choiceEffects.all (fun e => e.kind == "local" || e.kind == "fresh-object") = true := by decide

end Pyab.Properties
