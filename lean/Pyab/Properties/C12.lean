/-
  C12 — a unit's hash position is the first 32 bits of the MD5 digest of the UTF-8 encoding
  of the salt followed by the `str()` of the splitter values, taken in alphabetical order
  of field name.
-/
import Pyab.Generated.Config
import Pyab.Properties.EvaluatorPremise
import Pyab.Spec.Run
import Pyab.Proofs.RunGenerated
import Pyab.Properties.C09
namespace Pyab.Properties
open Pyab Pyab.Spec Pyab.Proofs Pyab.Proofs.Run

deriving instance DecidableEq for Except

/-- the published scheme: numerator (over 2^32) of the hash position of a unit (`printable`:
    the table `repr()` of a string inside a tuple value consults, `GenCfg.printable`) -/
def published (printable : Nat → Bool) (salt : Option String) (splitters : List String) (env : Env) : Except Err Nat := do
  let vals ← (sortDedup splitters).mapM (fun n => match env.get n with
    | some v => PyVal.pyStr printable v
    | none => throw .nameError)
  pure (MD5.pos32 ((salt.getD "") ++ String.join vals))

/-- `deterministic_choice` on a given hash position: the group whose cumulative-weight
    interval contains the position -/
def chooseAt (h : Nat) (pop : List PyVal) (ws : List Num) : Except Err Outcome := do
  match ← Choice.choiceIdx (some h) pop.length (some ws) none with
  | .idx i => match pop[i]? with
      | some v => pure (.group v)
      | none => throw .indexError
  | .random _ => throw (.other "unreachable")

theorem published_eq_keyOf (pr : Nat → Bool) (salt : Option String) (xs : List String) (env : Env) :
    published pr salt xs env = MD5.pos32 <$> keyOf pr (salt.getD "") (sortDedup xs) env := by
  unfold published keyOf
  simp only [map_bind, map_pure]
  rfl

/-- **The compiled position is the published position.**  With the UTF-8 key encoding, for
    an experiment with splitters `xs`, whenever routing selects a return statement with
    population `pop` and weights `ws`, the generated function returns exactly the group that
    `deterministic_choice` picks at the position `published cfg.printable e.salt xs env`: MD5 of the UTF-8
    bytes of salt ++ str(values in sorted field-name order), first 32 bits. -/
theorem C12_compiled_position_eq_published (cfg : RunCfg) (hc : CanonicalExpr cfg.toGenCfg)
    (hs : cfg.strReprSalt = true) (hu : cfg.keyUtf8 = true)
    (e : Experiment) (env : Env) (L : List ILine) (hL : bodyLines cfg.toGenCfg 2 e.cond = .ok L)
    (hp : ∀ n ∈ e.params cfg.toGenCfg, (env.get n).isSome = true)
    (gs : List Group) (pop : List PyVal) (ws : List Num)
    (hroute : specRoute env e.cond = .ok (some gs)) (hret : retVals cfg.toGenCfg gs = .ok (pop, ws))
    (xs : List String) (hxs : e.splitters = some xs) (hne : xs ≠ []) :
    runGenerated cfg e env = (do
      let h ← published cfg.printable e.salt xs env
      chooseAt h pop ws) := by
  rw [C09_factorisation cfg hc hs e env L hL, specRun_eq]
  have h1 : (e.params cfg.toGenCfg).all (fun p => (env.get p).isSome) = true := List.all_eq_true.2 hp
  have hr : routed cfg.toGenCfg env e.cond = .ok (pop, ws) := by
    unfold routed; rw [hroute]; exact hret
  have hlv : e.localVars = sortDedup xs := by unfold Experiment.localVars; rw [hxs]
  simp only [h1, hr, Bool.not_true, Bool.false_eq_true, if_false, bind, Except.bind]
  unfold choiceStage
  rw [published_eq_keyOf, hlv]
  cases hsd : sortDedup xs with
  | nil => exact absurd hsd (sortDedup_ne_nil hne)
  | cons y ys =>
      simp only []
      cases keyOf cfg.printable (e.salt.getD "") (y :: ys) env with
      | error err => rfl
      | ok key =>
          simp only [bind, Except.bind, Functor.map, Except.map, chooseByKey, chooseAt, hu,
            Bool.not_true, Bool.false_and, Bool.false_eq_true, if_false, pure, Except.pure]
          cases Choice.choiceIdx (some (MD5.pos32 key)) pop.length (some ws) none with
          | error err => rfl
          | ok pk =>
              cases pk with
              | random c => rfl
              | idx i =>
                  simp only []
                  cases pop[i]? <;> rfl

/-- the example experiment of C09 on the unit `uid = "u1"`, `country = 1` -/
example : runGenerated Generated.runCfg exC09 [("uid", .str "u1"), ("country", .int 1)] = (do
      let h ← published Generated.runCfg.printable (some "s") ["uid"] [("uid", .str "u1"), ("country", .int 1)]
      chooseAt h [.int 10, .int 20] [.i 1, .i 1]) :=
  C12_compiled_position_eq_published Generated.runCfg C02_generator_canonical rfl rfl exC09 _ _ rfl
    (by decide) _ _ _ rfl rfl ["uid"] rfl (by decide)

/-- the position is a 32-bit number: the hash position `h / 2^32` lies in `[0, 1)` -/
theorem C12_position_lt (s : String) : MD5.pos32 s < 2 ^ 32 := MD5.pos32_lt s

/-- … and so does every published position -/
theorem C12_published_lt (pr : Nat → Bool) (salt : Option String) (xs : List String) (env : Env) (h : Nat)
    (hp : published pr salt xs env = .ok h) : h < 2 ^ 32 := by
  rw [published_eq_keyOf] at hp
  cases hk : keyOf pr (salt.getD "") (sortDedup xs) env with
  | error err => rw [hk] at hp; cases hp
  | ok key =>
      rw [hk] at hp
      cases hp
      exact MD5.pos32_lt key

example : (442407719 : Nat) < 2 ^ 32 :=
  C12_published_lt Generated.isPrintable (some "jos") ["x"] [("x", .str "é")] _ (by decide +kernel)

/-- the order of the splitter declaration is irrelevant; only the field names' alphabetical
    order matters -/
example : published Generated.isPrintable (some "s") ["b", "a"] [("a", .str "1"), ("b", .str "2")]
    = published Generated.isPrintable (some "s") ["a", "b"] [("b", .str "2"), ("a", .str "1")] := by decide +kernel

/-! ### known answers: RFC 1321 test suite, and a non-ASCII key -/

example : MD5.hexdigest "".toUTF8.toList = "d41d8cd98f00b204e9800998ecf8427e" := by decide +kernel
example : MD5.hexdigest "a".toUTF8.toList = "0cc175b9c0f1b6a831c399e269772661" := by decide +kernel
example : MD5.hexdigest "abc".toUTF8.toList = "900150983cd24fb0d6963f7d28e17f72" := by decide +kernel
example : MD5.hexdigest "message digest".toUTF8.toList = "f96b697d7cb7938d525a2f31aaf161d0" := by
  decide +kernel
example : MD5.hexdigest "abcdefghijklmnopqrstuvwxyz".toUTF8.toList = "c3fcd3d76192e4007dfb496cca67e13b" := by
  decide +kernel
/-- two blocks -/
example : MD5.hexdigest
    "ABCDEFGHIJKLMNOPQRSTUVWXYZabcdefghijklmnopqrstuvwxyz0123456789".toUTF8.toList
    = "d174ab98d277d9f5a5611c2c9f419d9f" := by decide +kernel
/-- `int(hashlib.md5("josé".encode("utf-8")).hexdigest()[:8], 16)` -/
example : MD5.pos32 "josé" = 442407719 := by decide +kernel
example : published Generated.isPrintable (some "jos") ["x"] [("x", .str "é")] = .ok 442407719 := by decide +kernel


/-- **table obligation**: the key is hashed as UTF-8 and the salt is rendered with `repr()` -/
theorem C12_key_is_utf8 : (Generated.runCfg.keyUtf8 && Generated.runCfg.strReprSalt) = true := by decide

end Pyab.Properties
