/-
  C07 (parser part, converse) — everything the parser accepts is well-formed.

  `C07_parse.lean` proves that every AST satisfying `Experiment.WF` is parsed back from its
  canonical and from its minimally parenthesised rendering, and lists as not covered the
  token lists that are neither rendering.  This file is the converse of `WF`: whatever token list the LR driver accepts over the
  generated tables — arbitrary parenthesisation, integer weights, any payload on keyword
  tokens — the AST the grammar actions build satisfies `Experiment.WF`
  (`Proofs.LRW.lrParse_wf`, an invariant over the semantic values of the driver's stack).
  So `WF` is *exactly* the set of ASTs the parser can produce
  (`C07_wf_iff_parser_output`), and every accepted program can be re-printed and the
  reprint parses back to the same AST (`C07_reprint_parses_back`).

  No hypothesis about token payloads is needed (and therefore nothing about the lexer):
  the grammar actions themselves match on the payload constructor of the tokens they read
  (`.int` under `NON_NEG_INTEGER`, `.float` under `NON_NEG_FLOAT`, `.str` under
  `STRING_LITERAL`, `.raw` under `ID`), and the driver stops with `no-action` otherwise —
  a token list with a mismatched payload is simply not accepted.  The one fact used about
  the generated tables beyond their production list is the flag `weightToFloat = true`.
-/
import Pyab.Proofs.LRWellFormed
import Pyab.Properties.C07_parse
import Pyab.Generated.Pipeline
namespace Pyab.Properties
open Pyab Pyab.Spec

/-- **C07 (the parser's output is well-formed).** For EVERY token list — no hypothesis on
    kinds or payloads — if the LR driver over the code's own tables accepts it and the
    grammar actions build the AST `e`, then `e` is well-formed: every `return` lists at least
    one group, every group definition is an int / float / string literal with a float
    weight (integer weights have been turned into floats), every tuple is non-empty, the
    splitter list is non-empty when present, and a negative-zero flag sits only on a zero.
    This is the converse of `C07_parse_complete_canonical` / `C07_parse_complete_minimal`. -/
theorem C07_parser_output_well_formed (toks : List Token) (e : Experiment)
    (h : lrParse Generated.lrTables toks = .ok e) : e.WF :=
  Proofs.LRW.lrParse_wf toks e h

/-- the same from source text, through the generated lexer: whatever the lexer makes of the
    text, what the parser then accepts is well-formed (the lexer needs no separate
    statement — see the head comment) -/
theorem C07_parser_output_well_formed_of_text (text : String) (toks : List Token) (e : Experiment)
    (_hlex : lex Generated.lexSpec text = .ok toks)
    (h : lrParse Generated.lrTables toks = .ok e) : e.WF :=
  C07_parser_output_well_formed toks e h

/-- … and for the whole pipeline (`lex`, `lrParse`, code generation checks): every program
    text that compiles has a well-formed AST -/
theorem C07_compiled_ast_well_formed (text : String) (e : Experiment)
    (hcomp : Generated.pipeline.compile text = .ok e) : e.WF := by
  simp only [Pipeline.compile, bind, Except.bind] at hcomp
  have hlr : Generated.pipeline.lr = Generated.lrTables := rfl
  rw [hlr] at hcomp
  cases hl : lex Generated.pipeline.lex text with
  | error err => simp [hl] at hcomp
  | ok toks =>
      simp only [hl] at hcomp
      cases hp : lrParse Generated.lrTables toks with
      | error err => simp [hp] at hcomp
      | ok e' =>
          simp only [hp] at hcomp
          cases hc : compileChecks Generated.pipeline.run.toGenCfg e' with
          | error err => simp [hc] at hcomp
          | ok u =>
              simp only [hc, pure, Except.pure, Except.ok.injEq] at hcomp
              subst hcomp
              exact C07_parser_output_well_formed toks e' hp

/-- **`WF` is exactly the parser's image**: an AST is well-formed iff some token list is
    parsed to it by the generated tables (`←` this file, `→` completeness on the canonical
    rendering) -/
theorem C07_wf_iff_parser_output (e : Experiment) :
    e.WF ↔ ∃ toks, lrParse Generated.lrTables toks = .ok e :=
  ⟨fun h => ⟨tokensOfExperiment e, C07_parse_complete_canonical e h⟩,
   fun ⟨toks, h⟩ => C07_parser_output_well_formed toks e h⟩

/-- **C07 (every accepted program re-prints and parses back).** If the parser accepts a
    token list with AST `e`, then both renderings of `e` — the canonical one, fully
    parenthesised below `and` / `or` / `not`, and the one with minimal parentheses — are
    accepted too, and are parsed back to the same `e`.  Corollary of
    `C07_parser_output_well_formed` and the two completeness theorems; it needs no
    well-formedness hypothesis any more. -/
theorem C07_reprint_parses_back (toks : List Token) (e : Experiment)
    (h : lrParse Generated.lrTables toks = .ok e) :
    lrParse Generated.lrTables (tokensOfExperiment e) = .ok e ∧
    lrParse Generated.lrTables (tokensOfExperimentMin e) = .ok e :=
  have hwf := C07_parser_output_well_formed toks e h
  ⟨C07_parse_complete_canonical e hwf, C07_parse_complete_minimal e hwf⟩

/-- **C07 (re-printing is idempotent).** Parse, print, parse again, print again: the
    second print is the first one — for either printer, and whichever of the two printers
    produced the text that was parsed again. -/
theorem C07_reprint_idempotent (toks : List Token) (e e' : Experiment)
    (h : lrParse Generated.lrTables toks = .ok e)
    (h' : lrParse Generated.lrTables (tokensOfExperiment e) = .ok e' ∨
          lrParse Generated.lrTables (tokensOfExperimentMin e) = .ok e') :
    tokensOfExperiment e' = tokensOfExperiment e ∧
    tokensOfExperimentMin e' = tokensOfExperimentMin e := by
  obtain ⟨h1, h2⟩ := C07_reprint_parses_back toks e h
  have : e' = e := by
    rcases h' with h' | h'
    · rw [h1] at h'; exact (Except.ok.inj h').symm
    · rw [h2] at h'; exact (Except.ok.inj h').symm
  subst this
  exact ⟨rfl, rfl⟩

/-- the reprint is a normal form of token lists: two accepted token lists with the same AST
    have the same reprints, and a reprint is its own reprint -/
theorem C07_reprint_fixed_point (toks : List Token) (e : Experiment)
    (h : lrParse Generated.lrTables toks = .ok e) :
    ∀ e', lrParse Generated.lrTables (tokensOfExperimentMin e) = .ok e' →
      tokensOfExperimentMin e' = tokensOfExperimentMin e :=
  fun e' h' => (C07_reprint_idempotent toks e e' h (.inr h')).2

/-! ### Examples -/

/-- a token list that is NEITHER rendering:
    `def e { splitters : uid
       if ( ( a not   in ( - 0.0 ) ) ) or not ( ( ( b >= - 2 ) ) ) { return "x" weighted 3 , - 0.5 weighted 1.0 }
       else { return 0 weighted 1.0 } }`
    — redundant parentheses around both comparisons, the operator `not in` matched with
    three blanks inside (the payload of a keyword token is its matched text, which the
    parser never looks at), a one-element tuple, `- 0.0`, a negative integer, a negative
    float group and an INTEGER weight `3` -/
def C07w_toks : List Token :=
  [tk "KW_DEF" "def", ⟨"ID", .raw "e"⟩, tk "LBRACE" "{",
   tk "KW_SPLITTERS" "splitters", tk "COLON" ":", ⟨"ID", .raw "uid"⟩,
   tk "KW_IF" "if",
     tk "LPAREN" "(", tk "LPAREN" "(", ⟨"ID", .raw "a"⟩, tk "KW_NOT_IN" "not   in",
       tk "LPAREN" "(", tk "MINUS" "-", ⟨"NON_NEG_FLOAT", .float (.fin 0 0)⟩, tk "RPAREN" ")",
     tk "RPAREN" ")", tk "RPAREN" ")",
     tk "KW_OR" "or", tk "KW_NOT" "not", tk "LPAREN" "(", tk "LPAREN" "(", tk "LPAREN" "(",
       ⟨"ID", .raw "b"⟩, tk "KW_GE" ">=", tk "MINUS" "-", ⟨"NON_NEG_INTEGER", .int 2⟩,
     tk "RPAREN" ")", tk "RPAREN" ")", tk "RPAREN" ")",
   tk "LBRACE" "{", tk "KW_RETURN" "return", ⟨"STRING_LITERAL", .str "x"⟩, tk "KW_WEIGHTED" "weighted",
     ⟨"NON_NEG_INTEGER", .int 3⟩, tk "COMMA" ",", tk "MINUS" "-", ⟨"NON_NEG_FLOAT", .float (.fin 5 (-1))⟩,
     tk "KW_WEIGHTED" "weighted", ⟨"NON_NEG_FLOAT", .float (.fin 1 0)⟩, tk "RBRACE" "}",
   tk "KW_ELSE" "else", tk "LBRACE" "{", tk "KW_RETURN" "return", ⟨"NON_NEG_INTEGER", .int 0⟩,
     tk "KW_WEIGHTED" "weighted", ⟨"NON_NEG_FLOAT", .float (.fin 1 0)⟩, tk "RBRACE" "}",
   tk "RBRACE" "}"]

/-- the AST the actions build from it: parentheses gone, `-0.0` with its flag, the integer
    weight a float -/
def C07w_ast : Experiment :=
  ⟨"e", none, some ["uid"],
    .ifte (.or (.cmp (.ident "a") .notIn (.tuple [.float (.fin 0 0) true]))
               (.not (.cmp (.ident "b") .ge (.int (-2)))))
      (.ret [⟨.str "x", .f (Dbl.ofNat 3)⟩, ⟨.float (.fin (-5) (-1)) false, .f (.fin 1 0)⟩])
      (.else_ (.ret [⟨.int 0, .f (.fin 1 0)⟩]))⟩

/-- the driver accepts it, and what it returns is well-formed — computed, not by the theorem -/
example : (match lrParse Generated.lrTables C07w_toks with | .ok e => e.wf | .error _ => false) = true := by
  decide +kernel

set_option maxRecDepth 100000 in
/-- it returns `C07w_ast` (by evaluation of the driver) -/
theorem C07w_parses : lrParse Generated.lrTables C07w_toks = .ok C07w_ast := rfl

example : C07w_ast.wf = true := by decide

/-- … in agreement with the theorem, which needs no evaluation -/
example : C07w_ast.WF := C07_parser_output_well_formed C07w_toks C07w_ast C07w_parses

/-- the token list is not a rendering of its AST (it has 10 more tokens than the minimal
    one), yet both renderings parse back to the same AST -/
example : C07w_toks.length = 48 ∧ (tokensOfExperimentMin C07w_ast).length = 38 ∧
    (tokensOfExperiment C07w_ast).length = 44 := by decide

example : lrParse Generated.lrTables (tokensOfExperimentMin C07w_ast) = .ok C07w_ast :=
  (C07_reprint_parses_back C07w_toks C07w_ast C07w_parses).2

/-- **ASTs that are not well-formed are not claimed — and by this file they are
    unreachable**: no token list at all is parsed to an experiment with an empty return
    list, … -/
example : ∀ toks, lrParse Generated.lrTables toks ≠ .ok ⟨"e", none, none, .ret []⟩ :=
  fun toks h => absurd (C07_parser_output_well_formed toks _ h) (by decide)

/-- … with an integer weight, … -/
example : ∀ toks, lrParse Generated.lrTables toks ≠ .ok ⟨"e", none, none, .ret [⟨.str "a", .i 1⟩]⟩ :=
  fun toks h => absurd (C07_parser_output_well_formed toks _ h) (by decide)

/-- … with an identifier or a tuple as a group definition, … -/
example : ∀ toks, lrParse Generated.lrTables toks ≠
    .ok ⟨"e", none, none, .ret [⟨.ident "a", .f (.fin 1 0)⟩]⟩ :=
  fun toks h => absurd (C07_parser_output_well_formed toks _ h) (by decide)

/-- … with an empty tuple or an empty splitter list, … -/
example : ∀ toks, lrParse Generated.lrTables toks ≠
    .ok ⟨"e", none, some [], .ifte (.cmp (.ident "a") .isIn (.tuple [])) (.ret [⟨.int 1, .f (.fin 1 0)⟩]) .none⟩ :=
  fun toks h => absurd (C07_parser_output_well_formed toks _ h) (by decide)

/-- … or with the negative-zero flag on a float that is not a zero -/
example : ∀ toks, lrParse Generated.lrTables toks ≠
    .ok ⟨"e", none, none, .ret [⟨.float (.fin 1 0) true, .f (.fin 1 0)⟩]⟩ :=
  fun toks h => absurd (C07_parser_output_well_formed toks _ h) (by decide)

end Pyab.Properties
