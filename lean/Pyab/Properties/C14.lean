/-
  C14 — both layouts of the generated module are equivalent.
  The generator emits the body of `choose_experiment_variant` at indentation depth 1
  (function layout) or depth 2 (class layout).  Statements only; proofs in
  `Pyab/Proofs/Lines.lean` and `Pyab/Proofs/Routing.lean`.
-/
import Pyab.Properties.C02
import Pyab.Properties.EvaluatorPremise
import Pyab.Proofs.Lines
namespace Pyab.Properties
open Pyab Pyab.Spec

/-! ### concrete witnesses used by the `example`s (non-vacuity of the hypotheses) -/

/-- `if a == 1 { return 'x' weighted 1 } else { return 'y' weighted 1 }` -/
def C14.exCond : Cond :=
  .ifte (.cmp (.ident "a") .eq (.int 1)) (.ret [⟨.str "x", .i 1⟩]) (.else_ (.ret [⟨.str "y", .i 1⟩]))

/-- the lines emitted for `C14.exCond` with the body at depth `d` -/
def C14.exLines (d : Nat) : List ILine :=
  [(d, .ifL (.cmp (.name "a") "==" (.const (.int 1)))), (d + 1, .ret [.str "x"] [.i 1]),
   (d, .elseL), (d + 1, .ret [.str "y"] [.i 1]), (d, .raiseU)]

/-- a conditional whose emission fails in both layouts: the group definition is not a literal -/
def C14.exBadCond : Cond := .ret [⟨.ident "g", .i 1⟩]

/-- the generator in /repo emits `C14.exCond` in the depth-1 layout as `C14.exLines 1` -/
theorem C14.exCond_layout1 : bodyLines Generated.genCfg 1 C14.exCond = .ok (C14.exLines 1) := by rfl
/-- the generator in /repo emits `C14.exCond` in the depth-2 layout as `C14.exLines 2` -/
theorem C14.exCond_layout2 : bodyLines Generated.genCfg 2 C14.exCond = .ok (C14.exLines 2) := by rfl
/-- emitting `C14.exBadCond` in the depth-1 layout fails -/
theorem C14.exBadCond_layout1 :
    bodyLines Generated.genCfg 1 C14.exBadCond = .error (.other "group-definition-not-literal") := by rfl

/-- **Layouts are equivalent.** For every conditional and every environment, executing the
    body emitted at depth 1 and executing the body emitted at depth 2 give the same result:
    the same population and weights handed to `deterministic_choice`, or the same error
    (unroutable, or a comparison's TypeError). -/
theorem C14_layouts_equivalent (cfg : GenCfg) (hc : CanonicalExpr cfg) (c : Cond) (env : Env)
    (L1 L2 : List ILine) (h1 : bodyLines cfg 1 c = .ok L1) (h2 : bodyLines cfg 2 c = .ok L2) :
    runLines env .exec L1 = runLines env .exec L2 := by
  rw [C02_routing_correct cfg hc env c 1 L1 h1, C02_routing_correct cfg hc env c 2 L2 h2]

/-- the hypotheses are met by the generator in /repo, a concrete conditional and its two
    concrete layouts -/
example : runLines [("a", .int 1)] .exec (C14.exLines 1) = runLines [("a", .int 1)] .exec (C14.exLines 2) :=
  C14_layouts_equivalent Generated.genCfg C02_generator_canonical C14.exCond [("a", .int 1)]
    (C14.exLines 1) (C14.exLines 2) C14.exCond_layout1 C14.exCond_layout2

/-- **Layouts compile together.** The body can be emitted in the depth-1 layout exactly when
    it can be emitted in the depth-2 layout. -/
theorem C14_layouts_compile_together (cfg : GenCfg) (c : Cond) :
    (∃ L1, bodyLines cfg 1 c = .ok L1) ↔ (∃ L2, bodyLines cfg 2 c = .ok L2) :=
  Proofs.bodyLines_ok_iff_depth cfg c 1 2

/-- left to right, from the concrete depth-1 layout -/
example : ∃ L2, bodyLines Generated.genCfg 2 C14.exCond = .ok L2 :=
  (C14_layouts_compile_together Generated.genCfg C14.exCond).mp ⟨C14.exLines 1, C14.exCond_layout1⟩

/-- right to left, from the concrete depth-2 layout -/
example : ∃ L1, bodyLines Generated.genCfg 1 C14.exCond = .ok L1 :=
  (C14_layouts_compile_together Generated.genCfg C14.exCond).mpr ⟨C14.exLines 2, C14.exCond_layout2⟩

/-- **Same lines modulo indentation.** At any two depths the emitted conditional consists of
    the same lines in the same order (or fails with the same error); only the indentation
    column differs. -/
theorem C14_same_lines_modulo_indent (cfg : GenCfg) (c : Cond) (d d' : Nat) :
    (linesCond cfg d c).map (·.map Prod.snd) = (linesCond cfg d' c).map (·.map Prod.snd) :=
  Proofs.linesCond_contents_depth_indep cfg c d d'

/-- the concrete conditional at depths 1 and 2: the same four lines (the trailing raise is added by `bodyLines`) -/
example : (linesCond Generated.genCfg 1 C14.exCond).map (·.map Prod.snd) =
    .ok ((C14.exLines 2).dropLast.map Prod.snd) := by
  rw [C14_same_lines_modulo_indent Generated.genCfg C14.exCond 1 2]; rfl

/-- **Layouts fail together.** Emitting the body raises an error in the depth-1 layout
    exactly when it raises the same error in the depth-2 layout. -/
theorem C14_layouts_same_error (cfg : GenCfg) (c : Cond) (err : Err) :
    bodyLines cfg 1 c = .error err ↔ bodyLines cfg 2 c = .error err :=
  Proofs.bodyLines_error_depth_indep cfg c 1 2 err

/-- a concrete failing conditional: the depth-1 error is the depth-2 error -/
example : bodyLines Generated.genCfg 2 C14.exBadCond = .error (.other "group-definition-not-literal") :=
  (C14_layouts_same_error Generated.genCfg C14.exBadCond _).mp C14.exBadCond_layout1

/-- **Both layouts are well indented.** Whatever the depth (in particular 1 and 2), the
    emitted body passes the indentation rules `compile()` enforces: every `if`/`elif`/`else`
    is followed by a line one level deeper, no other line goes deeper than its predecessor. -/
theorem C14_both_well_indented (cfg : GenCfg) (c : Cond) (d : Nat) (L : List ILine)
    (h : bodyLines cfg d c = .ok L) : wellIndented L = true :=
  Proofs.bodyLines_wellIndented cfg c d L h

/-- the two concrete layouts -/
example : wellIndented (C14.exLines 1) = true :=
  C14_both_well_indented Generated.genCfg C14.exCond 1 _ C14.exCond_layout1
example : wellIndented (C14.exLines 2) = true :=
  C14_both_well_indented Generated.genCfg C14.exCond 2 _ C14.exCond_layout2

/-- the indentation check is not trivially true: a body whose `if` is followed by a line at
    the same depth is rejected -/
example : wellIndented [(1, .ifL (.cmp (.name "a") "==" (.const (.int 1)))), (1, .raiseU)] = false := by
  rfl

end Pyab.Properties
