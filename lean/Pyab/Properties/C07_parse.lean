/-
  C07 (parser part) — completeness of the code's LR tables on canonical renderings.

  `C06_parse_sound` says the driver accepts only sentences of the documented grammar.
  This file is the converse direction for the *concrete* tables sly built
  (`Generated.lrTables`, 85 states, 44 productions): every well-formed experiment AST has a
  token rendering (`Spec.tokensOfExperiment`, fully parenthesised below `and`/`or`/`not`)
  which those tables accept, and the AST the grammar actions build from it is exactly the
  AST that was rendered.  So no constructor of the AST is unreachable through the parser,
  and on canonical renderings the action/goto tables, the defaulted states and the
  semantic actions agree with the intended reading of the grammar.

  Not covered: token lists that are not canonical renderings — in particular predicates
  relying on the precedence `or < and < not` or on associativity instead of parentheses,
  redundant parentheses, integer-typed weights (pydantic turns them into floats, so no AST
  with an integer weight is ever built), and the lexer (the statement starts from tokens).
-/
import Pyab.Proofs.LRComplete
import Pyab.Properties.C06_parser
namespace Pyab.Properties
open Pyab Pyab.Spec

/-- **C07 (parser completeness on canonical renderings).** Every well-formed experiment
    AST (`Experiment.WF`: non-empty return lists, tuples and splitter lists; literal group
    definitions with float weights; the negative-zero flag only on zeros) has a rendering —
    its canonical token list — that the code's own LR tables parse back to exactly that
    AST.  This is completeness of the generated tables on canonical renderings only:
    arbitrary parenthesisation and operator precedence are NOT covered. -/
theorem C07_parse_complete_canonical (e : Experiment) (hwf : e.WF) :
    lrParse Generated.lrTables (tokensOfExperiment e) = .ok e :=
  Proofs.LRC.lrParse_tokensOf e hwf

/-- the canonical rendering of a well-formed AST is a sentence of the documented grammar
    (completeness composed with the soundness theorem `C06_parse_sound`) -/
theorem C07_canonical_tokens_derive (e : Experiment) (hwf : e.WF) :
    Spec.Derives Spec.documentedProds "header" ((tokensOfExperiment e).map (·.kind)) :=
  C06_parse_sound _ e (C07_parse_complete_canonical e hwf)

/-- rendering is injective on well-formed ASTs: two well-formed experiments with the same
    canonical tokens are the same experiment -/
theorem C07_tokensOf_injective (e e' : Experiment) (hwf : e.WF) (hwf' : e'.WF)
    (h : tokensOfExperiment e = tokensOfExperiment e') : e = e' := by
  have h1 := C07_parse_complete_canonical e hwf
  have h2 := C07_parse_complete_canonical e' hwf'
  rw [h, h2] at h1
  exact (Except.ok.inj h1).symm

/-! ### Examples -/

/-- `def e { return "a" weighted 1.0 }` -/
def C07p_ex1 : Experiment := ⟨"e", none, none, .ret [⟨.str "a", .f (.fin 1 0)⟩]⟩

example : C07p_ex1.WF := by decide

example : (tokensOfExperiment C07p_ex1).map (·.kind) =
    ["KW_DEF", "ID", "LBRACE", "KW_RETURN", "STRING_LITERAL", "KW_WEIGHTED", "NON_NEG_FLOAT", "RBRACE"] := by
  decide

example : lrParse Generated.lrTables (tokensOfExperiment C07p_ex1) = .ok C07p_ex1 :=
  C07_parse_complete_canonical _ (by decide)

/-- salt, splitters, a tuple directly after `(`, nested tuples, negative numbers, `-0.0`,
    `and` / `or` / `not`, an `elif` chain with a final `else`, a nested `if` -/
def C07p_ex2 : Experiment :=
  ⟨"x", some "s", some ["u", "v"],
    .ifte (.and (.cmp (.tuple [.int 1, .int (-2)]) .eq (.ident "x"))
                (.not (.cmp (.ident "y") .isIn (.tuple [.tuple [.str "a"], .float (.fin 0 0) true]))))
      (.ifte (.or (.cmp (.ident "a") .lt (.float (.fin (-3) (-1)) false)) (.cmp (.ident "b") .notIn (.tuple [.int 0])))
        (.ret [⟨.int (-5), .f (.fin 1 0)⟩, ⟨.float (.fin 0 0) true, .f (.fin 3 (-1))⟩])
        .none)
      (.elif (.cmp (.ident "u") .ge (.int 7))
        (.ret [⟨.str "b", .f (.fin 1 0)⟩])
        (.else_ (.ret [⟨.str "c", .f (.fin 1 0)⟩, ⟨.str "d", .f (.fin 1 0)⟩])))⟩

example : C07p_ex2.WF := by decide

example : lrParse Generated.lrTables (tokensOfExperiment C07p_ex2) = .ok C07p_ex2 :=
  C07_parse_complete_canonical _ (by decide)

/-- the theorem's hypothesis is needed: an empty return list is not well-formed, and its
    rendering is rejected -/
example : ¬ (⟨"e", none, none, .ret []⟩ : Experiment).WF := by decide

example : (lrParse Generated.lrTables (tokensOfExperiment ⟨"e", none, none, .ret []⟩)).isOk = false := by
  decide +kernel

end Pyab.Properties
