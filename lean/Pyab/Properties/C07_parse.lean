/-
  C07 (parser part) — completeness of the code's LR tables on canonical renderings.

  `C06_parse_sound` says the driver accepts only sentences of the documented grammar.
  This file is the converse direction for the *concrete* tables sly built
  (`Generated.lrTables`, 85 states, 44 productions): every well-formed experiment AST has a
  token rendering (`Spec.tokensOfExperiment`, fully parenthesised below `and`/`or`/`not`)
  which those tables accept, and the AST the grammar actions build from it is exactly the
  AST that was rendered.  So no constructor of the AST is unreachable through the parser,
  and on canonical renderings the action/goto tables, the defaulted states and the
  semantic actions agree with the intended reading of the grammar.

  Second part (`C07_parse_complete_minimal`): the same for the rendering with MINIMAL
  parentheses (`Spec.tokensOfExperimentMin`, a precedence-climbing printer: parentheses only
  around an `or` below `and` / `not` / on the right of `or`, and around an `and` below `not` /
  on the right of `and`).  Reading such a text back to the tree that was printed needs the
  tables to implement `or < and < not` and left associativity, so the way sly resolved the
  shift/reduce conflicts of the predicate grammar inside the dumped action table is covered
  by a theorem, for every well-formed AST, not by testing.

  Not covered: token lists that are neither rendering — redundant parentheses (more than
  the canonical rendering writes), integer-typed weights (pydantic turns them into floats,
  so no AST with an integer weight is ever built), and the lexer (the statement starts from
  tokens).  For those token lists `C07_wf.lean` proves the converse of `WF`: whatever the
  tables accept has a well-formed AST, hence re-prints and parses back.
-/
import Pyab.Proofs.LRComplete
import Pyab.Proofs.LRCompleteMin
import Pyab.Properties.C06_parser
namespace Pyab.Properties
open Pyab Pyab.Spec

/-- **C07 (parser completeness on canonical renderings).** Every well-formed experiment
    AST (`Experiment.WF`: non-empty return lists, tuples and splitter lists; literal group
    definitions with float weights; the negative-zero flag only on zeros) has a rendering —
    its canonical token list — that the code's own LR tables parse back to exactly that
    AST.  This is completeness of the generated tables on canonical renderings only:
    arbitrary parenthesisation and operator precedence are NOT covered. -/
theorem C07_parse_complete_canonical (e : Experiment) (hwf : e.WF) :
    lrParse Generated.lrTables (tokensOfExperiment e) = .ok e :=
  Proofs.LRC.lrParse_tokensOf e hwf

/-- the canonical rendering of a well-formed AST is a sentence of the documented grammar
    (completeness composed with the soundness theorem `C06_parse_sound`) -/
theorem C07_canonical_tokens_derive (e : Experiment) (hwf : e.WF) :
    Spec.Derives Spec.documentedProds "header" ((tokensOfExperiment e).map (·.kind)) :=
  C06_parse_sound _ e (C07_parse_complete_canonical e hwf)

/-- rendering is injective on well-formed ASTs: two well-formed experiments with the same
    canonical tokens are the same experiment -/
theorem C07_tokensOf_injective (e e' : Experiment) (hwf : e.WF) (hwf' : e'.WF)
    (h : tokensOfExperiment e = tokensOfExperiment e') : e = e' := by
  have h1 := C07_parse_complete_canonical e hwf
  have h2 := C07_parse_complete_canonical e' hwf'
  rw [h, h2] at h1
  exact (Except.ok.inj h1).symm

/-! ### Examples -/

/-- `def e { return "a" weighted 1.0 }` -/
def C07p_ex1 : Experiment := ⟨"e", none, none, .ret [⟨.str "a", .f (.fin 1 0)⟩]⟩

example : C07p_ex1.WF := by decide

example : (tokensOfExperiment C07p_ex1).map (·.kind) =
    ["KW_DEF", "ID", "LBRACE", "KW_RETURN", "STRING_LITERAL", "KW_WEIGHTED", "NON_NEG_FLOAT", "RBRACE"] := by
  decide

example : lrParse Generated.lrTables (tokensOfExperiment C07p_ex1) = .ok C07p_ex1 :=
  C07_parse_complete_canonical _ (by decide)

/-- salt, splitters, a tuple directly after `(`, nested tuples, negative numbers, `-0.0`,
    `and` / `or` / `not`, an `elif` chain with a final `else`, a nested `if` -/
def C07p_ex2 : Experiment :=
  ⟨"x", some "s", some ["u", "v"],
    .ifte (.and (.cmp (.tuple [.int 1, .int (-2)]) .eq (.ident "x"))
                (.not (.cmp (.ident "y") .isIn (.tuple [.tuple [.str "a"], .float (.fin 0 0) true]))))
      (.ifte (.or (.cmp (.ident "a") .lt (.float (.fin (-3) (-1)) false)) (.cmp (.ident "b") .notIn (.tuple [.int 0])))
        (.ret [⟨.int (-5), .f (.fin 1 0)⟩, ⟨.float (.fin 0 0) true, .f (.fin 3 (-1))⟩])
        .none)
      (.elif (.cmp (.ident "u") .ge (.int 7))
        (.ret [⟨.str "b", .f (.fin 1 0)⟩])
        (.else_ (.ret [⟨.str "c", .f (.fin 1 0)⟩, ⟨.str "d", .f (.fin 1 0)⟩])))⟩

example : C07p_ex2.WF := by decide

example : lrParse Generated.lrTables (tokensOfExperiment C07p_ex2) = .ok C07p_ex2 :=
  C07_parse_complete_canonical _ (by decide)

/-- the theorem's hypothesis is needed: an empty return list is not well-formed, and its
    rendering is rejected -/
example : ¬ (⟨"e", none, none, .ret []⟩ : Experiment).WF := by decide

example : (lrParse Generated.lrTables (tokensOfExperiment ⟨"e", none, none, .ret []⟩)).isOk = false := by
  decide +kernel

/-! ### Minimal parentheses: precedence and associativity -/

/-- **C07 (parser completeness on renderings with minimal parentheses).** Every well-formed
    experiment AST, rendered with parentheses in its predicates only where the grammar needs
    them (`tokensOfExperimentMin`: `or a b` prints `a@1 or b@2`, `and a b` prints
    `a@2 and b@3`, `not a` prints `not a@3`, a comparison is an atom, and a sub-predicate whose
    own level — `or` 1, `and` 2, `not` 3 — is below the context level is wrapped in `( … )`),
    is parsed by the code's own LR tables back to exactly that AST.  So the tables implement
    the declared precedence `or < and < not` and left associativity of `and` / `or`: a text
    without the parentheses is read as the tree the precedence rules say, for every nesting
    and in every position a predicate can occur (`if`, `elif`, inside parentheses, under
    `not`, on either side of `and` / `or`), including comparisons whose left term is a tuple
    and therefore starts with `(` like a parenthesised predicate. -/
theorem C07_parse_complete_minimal (e : Experiment) (hwf : e.WF) :
    lrParse Generated.lrTables (tokensOfExperimentMin e) = .ok e :=
  Proofs.LRC.lrParse_tokensOfMin e hwf

/-- the minimal rendering of a well-formed AST is a sentence of the documented grammar -/
theorem C07_minimal_tokens_derive (e : Experiment) (hwf : e.WF) :
    Spec.Derives Spec.documentedProds "header" ((tokensOfExperimentMin e).map (·.kind)) :=
  C06_parse_sound _ e (C07_parse_complete_minimal e hwf)

/-- the minimal rendering is injective on well-formed ASTs: the parentheses it keeps are
    enough to tell any two trees apart -/
theorem C07_tokensOfMin_injective (e e' : Experiment) (hwf : e.WF) (hwf' : e'.WF)
    (h : tokensOfExperimentMin e = tokensOfExperimentMin e') : e = e' := by
  have h1 := C07_parse_complete_minimal e hwf
  have h2 := C07_parse_complete_minimal e' hwf'
  rw [h, h2] at h1
  exact (Except.ok.inj h1).symm

/-- `def e { if p { return "a" weighted 1.0 } }` -/
def C07m_exp (p : Pred) : Experiment :=
  ⟨"e", none, none, .ifte p (.ret [⟨.str "a", .f (.fin 1 0)⟩]) .none⟩

/-- the same experiment as an explicit token list, the predicate given as tokens -/
def C07m_toks (ptoks : List Token) : List Token :=
  [tk "KW_DEF" "def", ⟨"ID", .raw "e"⟩, tk "LBRACE" "{", tk "KW_IF" "if"] ++ ptoks ++
    [tk "LBRACE" "{", tk "KW_RETURN" "return", ⟨"STRING_LITERAL", .str "a"⟩,
     tk "KW_WEIGHTED" "weighted", ⟨"NON_NEG_FLOAT", .float (.fin 1 0)⟩, tk "RBRACE" "}",
     tk "RBRACE" "}"]

/-- `a == 1`, `b < 2`, `c != 3`, `(1, 2) == x`: trees … -/
def C07m_a : Pred := .cmp (.ident "a") .eq (.int 1)
def C07m_b : Pred := .cmp (.ident "b") .lt (.int 2)
def C07m_c : Pred := .cmp (.ident "c") .ne (.int 3)
def C07m_t : Pred := .cmp (.tuple [.int 1, .int 2]) .eq (.ident "x")
/-- … and tokens -/
def C07m_A : List Token := [⟨"ID", .raw "a"⟩, tk "KW_EQ" "==", ⟨"NON_NEG_INTEGER", .int 1⟩]
def C07m_B : List Token := [⟨"ID", .raw "b"⟩, tk "KW_LT" "<", ⟨"NON_NEG_INTEGER", .int 2⟩]
def C07m_C : List Token := [⟨"ID", .raw "c"⟩, tk "KW_NE" "!=", ⟨"NON_NEG_INTEGER", .int 3⟩]
def C07m_T : List Token := [tk "LPAREN" "(", ⟨"NON_NEG_INTEGER", .int 1⟩, tk "COMMA" ",",
  ⟨"NON_NEG_INTEGER", .int 2⟩, tk "RPAREN" ")", tk "KW_EQ" "==", ⟨"ID", .raw "x"⟩]
def C07m_OR : List Token := [tk "KW_OR" "or"]
def C07m_AND : List Token := [tk "KW_AND" "and"]
def C07m_NOT : List Token := [tk "KW_NOT" "not"]
def C07m_LP : List Token := [tk "LPAREN" "("]
def C07m_RP : List Token := [tk "RPAREN" ")"]

/-- the explicit token lists below ARE the minimal renderings: here on token kinds, and in
    every parse example below the explicit list is unified with `tokensOfExperimentMin` of
    the tree when the theorem is applied -/
example : (tokensOfPredMin (.and C07m_a (.or C07m_b C07m_c))).map (·.kind) =
    ["ID", "KW_EQ", "NON_NEG_INTEGER", "KW_AND", "LPAREN", "ID", "KW_LT", "NON_NEG_INTEGER",
     "KW_OR", "ID", "KW_NE", "NON_NEG_INTEGER", "RPAREN"] := by decide

example : tokensOfExperimentMin (C07m_exp (.and C07m_a (.or C07m_b C07m_c))) =
    C07m_toks (C07m_A ++ C07m_AND ++ C07m_LP ++ C07m_B ++ C07m_OR ++ C07m_C ++ C07m_RP) := rfl

/-- left associativity: `a or b or c` is `(a or b) or c` -/
example : lrParse Generated.lrTables (C07m_toks (C07m_A ++ C07m_OR ++ C07m_B ++ C07m_OR ++ C07m_C))
    = .ok (C07m_exp (.or (.or C07m_a C07m_b) C07m_c)) :=
  C07_parse_complete_minimal (C07m_exp (.or (.or C07m_a C07m_b) C07m_c)) (by decide)

/-- … and the other association needs its parentheses: `a or ( b or c )` -/
example : lrParse Generated.lrTables
    (C07m_toks (C07m_A ++ C07m_OR ++ C07m_LP ++ C07m_B ++ C07m_OR ++ C07m_C ++ C07m_RP))
    = .ok (C07m_exp (.or C07m_a (.or C07m_b C07m_c))) :=
  C07_parse_complete_minimal (C07m_exp (.or C07m_a (.or C07m_b C07m_c))) (by decide)

/-- `a and b and c` is `(a and b) and c` -/
example : lrParse Generated.lrTables (C07m_toks (C07m_A ++ C07m_AND ++ C07m_B ++ C07m_AND ++ C07m_C))
    = .ok (C07m_exp (.and (.and C07m_a C07m_b) C07m_c)) :=
  C07_parse_complete_minimal (C07m_exp (.and (.and C07m_a C07m_b) C07m_c)) (by decide)

/-- `a and ( b and c )` -/
example : lrParse Generated.lrTables
    (C07m_toks (C07m_A ++ C07m_AND ++ C07m_LP ++ C07m_B ++ C07m_AND ++ C07m_C ++ C07m_RP))
    = .ok (C07m_exp (.and C07m_a (.and C07m_b C07m_c))) :=
  C07_parse_complete_minimal (C07m_exp (.and C07m_a (.and C07m_b C07m_c))) (by decide)

/-- `and` binds tighter than `or`, on the right: `a or b and c` is `a or (b and c)` -/
example : lrParse Generated.lrTables (C07m_toks (C07m_A ++ C07m_OR ++ C07m_B ++ C07m_AND ++ C07m_C))
    = .ok (C07m_exp (.or C07m_a (.and C07m_b C07m_c))) :=
  C07_parse_complete_minimal (C07m_exp (.or C07m_a (.and C07m_b C07m_c))) (by decide)

/-- … and on the left: `a and b or c` is `(a and b) or c` -/
example : lrParse Generated.lrTables (C07m_toks (C07m_A ++ C07m_AND ++ C07m_B ++ C07m_OR ++ C07m_C))
    = .ok (C07m_exp (.or (.and C07m_a C07m_b) C07m_c)) :=
  C07_parse_complete_minimal (C07m_exp (.or (.and C07m_a C07m_b) C07m_c)) (by decide)

/-- an `or` below an `and` keeps its parentheses: `( a or b ) and c` -/
example : lrParse Generated.lrTables
    (C07m_toks (C07m_LP ++ C07m_A ++ C07m_OR ++ C07m_B ++ C07m_RP ++ C07m_AND ++ C07m_C))
    = .ok (C07m_exp (.and (.or C07m_a C07m_b) C07m_c)) :=
  C07_parse_complete_minimal (C07m_exp (.and (.or C07m_a C07m_b) C07m_c)) (by decide)

/-- `a and ( b or c )` -/
example : lrParse Generated.lrTables
    (C07m_toks (C07m_A ++ C07m_AND ++ C07m_LP ++ C07m_B ++ C07m_OR ++ C07m_C ++ C07m_RP))
    = .ok (C07m_exp (.and C07m_a (.or C07m_b C07m_c))) :=
  C07_parse_complete_minimal (C07m_exp (.and C07m_a (.or C07m_b C07m_c))) (by decide)

/-- **the parentheses are needed where the printer puts them**: the text of the previous
    example without them, `a and b or c`, is accepted too but is a DIFFERENT tree, `(a and b)
    or c` — so `C07_parse_complete_minimal` is not vacuous about precedence -/
example : lrParse Generated.lrTables (C07m_toks (C07m_A ++ C07m_AND ++ C07m_B ++ C07m_OR ++ C07m_C))
    ≠ .ok (C07m_exp (.and C07m_a (.or C07m_b C07m_c))) := by
  have h : lrParse Generated.lrTables (C07m_toks (C07m_A ++ C07m_AND ++ C07m_B ++ C07m_OR ++ C07m_C))
      = .ok (C07m_exp (.or (.and C07m_a C07m_b) C07m_c)) :=
    C07_parse_complete_minimal (C07m_exp (.or (.and C07m_a C07m_b) C07m_c)) (by decide)
  rw [h]
  intro hc
  have hp := congrArg (fun r => match r with
    | Except.ok (⟨_, _, _, .ifte (.or _ _) _ _⟩ : Experiment) => true
    | _ => false) hc
  exact absurd hp (by decide)

/-- `not` binds tightest: `not a and b` is `(not a) and b` -/
example : lrParse Generated.lrTables (C07m_toks (C07m_NOT ++ C07m_A ++ C07m_AND ++ C07m_B))
    = .ok (C07m_exp (.and (.not C07m_a) C07m_b)) :=
  C07_parse_complete_minimal (C07m_exp (.and (.not C07m_a) C07m_b)) (by decide)

/-- `not a or b` is `(not a) or b` -/
example : lrParse Generated.lrTables (C07m_toks (C07m_NOT ++ C07m_A ++ C07m_OR ++ C07m_B))
    = .ok (C07m_exp (.or (.not C07m_a) C07m_b)) :=
  C07_parse_complete_minimal (C07m_exp (.or (.not C07m_a) C07m_b)) (by decide)

/-- `not ( a and b )` keeps its parentheses -/
example : lrParse Generated.lrTables
    (C07m_toks (C07m_NOT ++ C07m_LP ++ C07m_A ++ C07m_AND ++ C07m_B ++ C07m_RP))
    = .ok (C07m_exp (.not (.and C07m_a C07m_b))) :=
  C07_parse_complete_minimal (C07m_exp (.not (.and C07m_a C07m_b))) (by decide)

/-- `not not a` needs none; `a and not b` neither -/
example : lrParse Generated.lrTables (C07m_toks (C07m_NOT ++ C07m_NOT ++ C07m_A))
    = .ok (C07m_exp (.not (.not C07m_a))) :=
  C07_parse_complete_minimal (C07m_exp (.not (.not C07m_a))) (by decide)

example : lrParse Generated.lrTables (C07m_toks (C07m_A ++ C07m_AND ++ C07m_NOT ++ C07m_B))
    = .ok (C07m_exp (.and C07m_a (.not C07m_b))) :=
  C07_parse_complete_minimal (C07m_exp (.and C07m_a (.not C07m_b))) (by decide)

/-- a comparison with a tuple on the left starts with `(` like a parenthesised predicate:
    `( 1 , 2 ) == x and a == 1` at the start of the predicate, and
    `( ( 1 , 2 ) == x or a == 1 ) and not ( 1 , 2 ) == x` -/
example : lrParse Generated.lrTables (C07m_toks (C07m_T ++ C07m_AND ++ C07m_A))
    = .ok (C07m_exp (.and C07m_t C07m_a)) :=
  C07_parse_complete_minimal (C07m_exp (.and C07m_t C07m_a)) (by decide)

example : lrParse Generated.lrTables
    (C07m_toks (C07m_LP ++ C07m_T ++ C07m_OR ++ C07m_A ++ C07m_RP ++ C07m_AND ++ C07m_NOT ++ C07m_T))
    = .ok (C07m_exp (.and (.or C07m_t C07m_a) (.not C07m_t))) :=
  C07_parse_complete_minimal (C07m_exp (.and (.or C07m_t C07m_a) (.not C07m_t))) (by decide)

/-- nested three deep: `not ( not a and ( b or not c ) ) or a and b and c` -/
example : lrParse Generated.lrTables
    (C07m_toks (C07m_NOT ++ C07m_LP ++ C07m_NOT ++ C07m_A ++ C07m_AND ++ C07m_LP ++ C07m_B ++ C07m_OR ++
      C07m_NOT ++ C07m_C ++ C07m_RP ++ C07m_RP ++ C07m_OR ++ C07m_A ++ C07m_AND ++ C07m_B ++ C07m_AND ++ C07m_C))
    = .ok (C07m_exp (.or (.not (.and (.not C07m_a) (.or C07m_b (.not C07m_c))))
        (.and (.and C07m_a C07m_b) C07m_c))) :=
  C07_parse_complete_minimal (C07m_exp (.or (.not (.and (.not C07m_a) (.or C07m_b (.not C07m_c))))
    (.and (.and C07m_a C07m_b) C07m_c))) (by decide)

end Pyab.Properties
