/-
  C07 ("every sentence's tokens lex back") and C08 ("inserting, removing or reshaping white
  space and comments between the tokens leaves the compiled behaviour unchanged") — the lexer
  half, for the rule tables extracted from the Python lexer (`Generated.lexSpec`).

  `C08_trivia.lean` shows that trivia in front of the remaining input is invisible.  This file
  adds the other half: **a token's lexeme followed by a separator lexes as exactly that token,
  and then the rest is lexed** (`C08_tokenStep`, for all 30 token kinds of lexer state 0), and
  assembles both into

  * `C08_roundtrip` / `C07_lex_complete`: the rendering of a token sequence with arbitrary
    well-formed trivia in the gaps lexes to exactly that token sequence — kinds *and* converted
    values;
  * `C08_trivia_invariant`: two renderings of one token sequence with different trivia have
    the same token list.

  **Token kinds and their lexeme languages** (`TokenLex.lexemeOk`, all 30 rules of the state):
  * `( ) - , : { } == >= <= > < !=`: the fixed spelling;
  * the single-word keywords `in not def salt splitters if else weighted return and or`;
  * `KW_NOT_IN`: `not`, one or more `\s` characters, `in`; `KW_ELIF`: `else`, any number
    (also zero: `elseif`) of `\s` characters, `if`;
  * `ID`: `[a-zA-Z_][a-zA-Z0-9_]*` except the eleven keywords and `elseif`;
  * `NON_NEG_INTEGER`: a non-empty run of Unicode decimal digits (`\d`); `NON_NEG_FLOAT`:
    digits `.` digits (Unicode `\d` as well);
  * `STRING_LITERAL`: `"` or `'`, a body without that quote and without line break, the same
    quote.

  **Separation conditions** (`TokenLex.sepOk`; what the text after the lexeme must look like):
  * punctuation, `== >= <= !=`, strings: nothing;
  * `>` and `<`: the next character is not `=`;
  * keywords and `ID`: the next character is not a Unicode word character (`\w`);
    additionally after `not`: not (white space, then `in`, then a non-word character) — that is
    `KW_NOT_IN`; after `else`: not (optional white space, then `if`, then a non-word
    character) — that is `KW_ELIF`.  These two are genuine: `else if` is one token, `else/**/if`
    two — white space and comments are *not* interchangeable there;
  * floats: the next character is not a digit; integers: not a digit, and not `.` + digit.
  All white-space characters and `/` (so all trivia) satisfy every condition except the
  `not`/`else` ones (`sepOk_after_trivia`); a gap containing a comment satisfies those too
  (`sepOk_gap_with_comment`, `sepOk_before_comment`), a pure white-space gap does unless
  `in` / `if` follows (`sepOk_kw2_ws_gap`).  `lexeme_id` … `lexeme_fixed` restate the lexeme
  languages in words (as equivalences).

  Not covered: nothing is left out on the token side.  Beyond the lexer: that equal token lists
  give equal parses and compiled behaviour is immediate (the parser sees only tokens).
-/
import Pyab.Proofs.TokenStep
import Pyab.Properties.C08_trivia
namespace Pyab.Properties
open Pyab Pyab.Trivia Pyab.TokenLex

/-! ### one token -/

/-- **C08, one token**: a lexeme of kind `k`, followed by text that cannot fuse with it, is
    lexed as the token of kind `k`, then the rest is lexed (or its error reported) -/
theorem C08_tokenStep (k : TKind) (lexeme rest : List Char) (hl : lexemeOk k lexeme = true)
    (hs : sepOk k rest = true) (bound : Nat) (hb : (lexeme ++ rest).length ≤ bound)
    (stack : List Nat) :
    lexC S bound 0 stack (lexeme ++ rest) =
      (lexC S bound 0 stack rest).map (fun ts => ⟨k.name, convert T k.conv lexeme⟩ :: ts) :=
  tokenStep k hl hs (by rw [List.length_append] at hb; omega) stack

/-! ### token sequences with trivia -/

/-- a token to be written: its kind and its spelling -/
structure TokSpec where
  kind : TKind
  lexeme : List Char
deriving Repr, DecidableEq

/-- the spelling belongs to the kind's lexeme language -/
def TokSpec.wf (t : TokSpec) : Bool := lexemeOk t.kind t.lexeme

/-- the token the lexer must produce: rule name and converted value -/
def TokSpec.token (t : TokSpec) : Token := ⟨t.kind.name, convert T t.kind.conv t.lexeme⟩

/-- a layout: each token with the trivia written in front of it -/
abbrev Layout := List (List Trivia × TokSpec)

/-- the token specs of a layout -/
def Layout.specs (l : Layout) : List TokSpec := l.map (·.2)

/-- the text: trivia, token, trivia, token, …, final trivia -/
def renderToks : Layout → List Trivia → List Char
  | [], fin => renderAll fin
  | (tr, t) :: rest, fin => renderAll tr ++ (t.lexeme ++ renderToks rest fin)

/-- admissible: all trivia and all token spellings are well formed, and after every token the
    actual following text satisfies the token kind's separation condition -/
def admissible : Layout → List Trivia → Bool
  | [], fin => fin.all Trivia.wf
  | (tr, t) :: rest, fin =>
      tr.all Trivia.wf && t.wf && sepOk t.kind (renderToks rest fin) && admissible rest fin

theorem roundtrip_lexC (stack : List Nat) : ∀ (l : Layout) (fin : List Trivia),
    admissible l fin = true → ∀ bound, (renderToks l fin).length ≤ bound →
      lexC S bound 0 stack (renderToks l fin) = .ok (l.specs.map TokSpec.token)
  | [], fin, h, bound, hb => by
    simp only [admissible, List.all_eq_true] at h
    have := trivia_lexC bound stack [] fin h (by simpa [renderToks] using hb)
    rw [List.append_nil] at this
    rw [renderToks, this, lexC_nil]
    rfl
  | (tr, t) :: rest, fin, h, bound, hb => by
    simp only [admissible, Bool.and_eq_true, List.all_eq_true] at h
    obtain ⟨⟨⟨htr, ht⟩, hsep⟩, hrest⟩ := h
    simp only [renderToks, List.length_append] at hb
    rw [renderToks, trivia_lexC bound stack _ tr htr (by omega),
      tokenStep t.kind ht hsep (by omega) stack,
      roundtrip_lexC stack rest fin hrest bound (by omega)]
    rfl

/-- **C08 round trip, at any point of a run**: any state stack, any previous character, any
    sufficient regex bound and loop fuel -/
theorem C08_roundtrip_run (l : Layout) (fin : List Trivia) (h : admissible l fin = true)
    (bound fuel : Nat) (stack : List Nat) (prev : Option Char)
    (hb : (renderToks l fin).length ≤ bound) (hf : (renderToks l fin).length + 1 ≤ fuel) :
    toksOf (lexLoop S bound fuel 0 stack prev (renderToks l fin)) =
      .ok (l.specs.map TokSpec.token) := by
  rw [toksOf_lexLoop_eq_lexC S_prevFree bound 0 stack prev hf]
  exact roundtrip_lexC stack l fin h bound hb

/-- **C08 round trip** (character lists): an admissible rendering lexes to exactly the token
    sequence it was rendered from -/
theorem C08_roundtrip (l : Layout) (fin : List Trivia) (h : admissible l fin = true) :
    lexChars (renderToks l fin) = .ok (l.specs.map TokSpec.token) :=
  C08_roundtrip_run l fin h _ _ [] none (Nat.le_refl _) (Nat.le_refl _)

/-- **C07, lexer completeness** (`Pyab.lex` on strings): the tokens of a sentence lex back -/
theorem C07_lex_complete (l : Layout) (fin : List Trivia) (h : admissible l fin = true) :
    lex S (String.ofList (renderToks l fin)) = .ok (l.specs.map TokSpec.token) := by
  rw [lex_eq_lexChars, String.toList_ofList]
  exact C08_roundtrip l fin h

/-- **C08, trivia invariance**: two admissible renderings of the same token sequence — with
    different white space, line breaks and comments in the gaps — have the same token list -/
theorem C08_trivia_invariant (l₁ l₂ : Layout) (fin₁ fin₂ : List Trivia)
    (h₁ : admissible l₁ fin₁ = true) (h₂ : admissible l₂ fin₂ = true)
    (hsame : l₁.specs = l₂.specs) :
    lexChars (renderToks l₁ fin₁) = lexChars (renderToks l₂ fin₂) := by
  rw [C08_roundtrip l₁ fin₁ h₁, C08_roundtrip l₂ fin₂ h₂, hsame]

/-- … on strings -/
theorem C08_trivia_invariant_lex (l₁ l₂ : Layout) (fin₁ fin₂ : List Trivia)
    (h₁ : admissible l₁ fin₁ = true) (h₂ : admissible l₂ fin₂ = true)
    (hsame : l₁.specs = l₂.specs) :
    lex S (String.ofList (renderToks l₁ fin₁)) = lex S (String.ofList (renderToks l₂ fin₂)) := by
  rw [C07_lex_complete l₁ fin₁ h₁, C07_lex_complete l₂ fin₂ h₂, hsame]

/-! ### when the separation conditions hold -/

/-- non-empty well-formed trivia starts with a white-space character or with `/` -/
theorem renderAll_head : ∀ (ts : List Trivia), (∀ t ∈ ts, t.wf = true) → ∀ c s,
    renderAll ts = c :: s → isSpace c = true ∨ c = '/'
  | [], _, c, s, h => by simp [renderAll] at h
  | t :: ts, hwf, c, s, h => by
    rw [renderAll_cons] at h
    have ht := hwf t List.mem_cons_self
    cases t with
    | ws cs =>
      cases cs with
      | nil =>
        exact renderAll_head ts (fun t' ht' => hwf t' (List.mem_cons_of_mem _ ht')) c s
          (by simpa [Trivia.render] using h)
      | cons x xs =>
        simp only [Trivia.render, List.cons_append, List.cons.injEq] at h
        simp only [Trivia.wf, List.all_cons, Bool.and_eq_true] at ht
        exact Or.inl (h.1 ▸ ht.1)
    | lineComment body =>
      simp only [Trivia.render, List.cons_append, List.cons.injEq] at h
      exact Or.inr h.1.symm
    | blockComment body =>
      simp only [Trivia.render, List.cons_append, List.cons.injEq] at h
      exact Or.inr h.1.symm

/-- **any non-empty trivia separates**: after a token of any kind except `not` / `else`, a gap
    that renders to at least one character satisfies the separation condition, whatever
    follows -/
theorem sepOk_after_trivia (k : TKind) (hk : k ≠ .kwNot ∧ k ≠ .kwElse) (ts : List Trivia)
    (hwf : ∀ t ∈ ts, t.wf = true) (hne : renderAll ts ≠ []) (s : List Char) :
    sepOk k (renderAll ts ++ s) = true := by
  cases h : renderAll ts with
  | nil => exact absurd h hne
  | cons c r =>
    rw [List.cons_append]
    rcases renderAll_head ts hwf c r h with hc | rfl
    · exact sepOk_of_sepChar hk (space_sepChar hc) _
    · exact sepOk_of_sepChar hk slash_sep _

/-- a gap that starts with a comment separates after every kind, `not` and `else` included -/
theorem sepOk_before_comment (k : TKind) (s : List Char) : sepOk k ('/' :: s) = true :=
  sepOk_kw2_of_sepChar slash_sep (by decide +kernel) s

/-- the end of the text separates after every kind -/
theorem sepOk_at_end (k : TKind) : sepOk k [] = true := sepOk_nil k

/-- punctuation, the two-character operators and strings need no separator at all -/
theorem sepOk_always (k : TKind)
    (hk : k = .lparen ∨ k = .rparen ∨ k = .minus ∨ k = .comma ∨ k = .colon ∨ k = .lbrace ∨
      k = .rbrace ∨ k = .eq ∨ k = .ge ∨ k = .le ∨ k = .ne ∨ k = .string) (s : List Char) :
    sepOk k s = true := by
  rcases hk with rfl | rfl | rfl | rfl | rfl | rfl | rfl | rfl | rfl | rfl | rfl | rfl <;> rfl

/-- a comment (as opposed to a white-space run) -/
def Trivia.isComment : Trivia → Bool
  | .ws _ => false
  | _ => true

theorem renderAll_ne_nil_of_comment : ∀ (ts : List Trivia), ts.any Trivia.isComment = true →
    renderAll ts ≠ []
  | [], h => by simp at h
  | t :: ts, h => by
    rw [renderAll_cons]
    cases t with
    | ws cs =>
      have := renderAll_ne_nil_of_comment ts (by simpa [Trivia.isComment] using h)
      simp [this]
    | lineComment body => simp [Trivia.render]
    | blockComment body => simp [Trivia.render]

theorem followsB0_comment_gap {w : List Char} (hne : w ≠ []) (hw : w.head? ≠ some '/') :
    ∀ (ts : List Trivia), (∀ t ∈ ts, t.wf = true) → ts.any Trivia.isComment = true → ∀ s,
      followsB 0 w (renderAll ts ++ s) = false
  | [], _, h, _ => by simp at h
  | t :: ts, hwf, h, s => by
    rw [renderAll_cons, List.append_assoc]
    cases t with
    | ws cs =>
      have hcs : ∀ x ∈ cs, isSpace x = true := by
        have := hwf _ List.mem_cons_self
        simpa [Trivia.wf] using this
      rw [show (Trivia.ws cs).render = cs from rfl, followsB0_spaces cs _ hcs]
      exact followsB0_comment_gap hne hw ts (fun t' ht' => hwf t' (List.mem_cons_of_mem _ ht'))
        (by simpa [Trivia.isComment] using h) s
    | lineComment body =>
      show followsB 0 w ('/' :: _) = false
      exact followsB_cons_false (by decide +kernel) hw hne
    | blockComment body =>
      show followsB 0 w ('/' :: _) = false
      exact followsB_cons_false (by decide +kernel) hw hne

/-- **a gap containing a comment separates after every kind** — `not` and `else` included,
    whatever follows (even `in` / `if`) -/
theorem sepOk_gap_with_comment (k : TKind) (ts : List Trivia) (hwf : ∀ t ∈ ts, t.wf = true)
    (hc : ts.any Trivia.isComment = true) (s : List Char) :
    sepOk k (renderAll ts ++ s) = true := by
  have hne := renderAll_ne_nil_of_comment ts hc
  by_cases hk : k ≠ .kwNot ∧ k ≠ .kwElse
  · exact sepOk_after_trivia k hk ts hwf hne s
  · have hw : wordSep (renderAll ts ++ s) = true :=
      sepOk_after_trivia .id (by decide) ts hwf hne s
    apply sepOk_kw2_of_not_follows hw
      (followsB0_comment_gap (by decide) (by decide) ts hwf hc s)
      (followsB0_comment_gap (by decide) (by decide) ts hwf hc s)
    cases k <;> simp at hk ⊢

/-- **a pure white-space gap after `not` / `else`** separates unless the text goes on with
    `in` / `if` (then the lexer reads `KW_NOT_IN` / `KW_ELIF`) -/
theorem sepOk_kw2_ws_gap (k : TKind) (hk : k = .kwNot ∨ k = .kwElse) (cs : List Char)
    (hcs : ∀ x ∈ cs, isSpace x = true) (hne : cs ≠ []) (s : List Char)
    (h1 : followsB 0 wIn s = false) (h0 : followsB 0 wIf s = false) :
    sepOk k (cs ++ s) = true := by
  have hw : wordSep (cs ++ s) = true := by
    cases cs with
    | nil => exact absurd rfl hne
    | cons c cs' =>
      rw [List.cons_append, wordSep_cons, space_notWord (hcs c List.mem_cons_self)]
      rfl
  apply sepOk_kw2_of_not_follows hw _ _ k hk
  · rw [followsB0_spaces cs s hcs]; exact h1
  · rw [followsB0_spaces cs s hcs]; exact h0

/-! ### the lexeme languages, in words -/

/-- identifiers: `[a-zA-Z_][a-zA-Z0-9_]*`, not a keyword and not `elseif` -/
theorem lexeme_id (l : List Char) :
    lexemeOk .id l = true ↔ wordLike l = true ∧ l ∉ reserved := by
  simp [lexemeOk]

/-- integers: a non-empty run of (Unicode) decimal digits -/
theorem lexeme_int (l : List Char) :
    lexemeOk .int l = true ↔ l ≠ [] ∧ ∀ x ∈ l, isDigitC x = true := by
  simp [lexemeOk]

/-- floats: digits `.` digits -/
theorem lexeme_float (l : List Char) : lexemeOk .float l = true ↔
    ∃ ip fp, l = ip ++ '.' :: fp ∧ ip ≠ [] ∧ (∀ x ∈ ip, isDigitC x = true) ∧ fp ≠ [] ∧
      ∀ x ∈ fp, isDigitC x = true :=
  ⟨floatOk_split, fun ⟨_, _, hl, h1, h2, h3, h4⟩ => hl ▸ floatOk_intro h1 h2 h3 h4⟩

/-- strings: a quote, a body without that quote and without line break, the same quote -/
theorem lexeme_string (l : List Char) : lexemeOk .string l = true ↔
    ∃ q body, l = q :: (body ++ [q]) ∧ (q = '"' ∨ q = '\'') ∧ (∀ x ∈ body, x ≠ q) ∧
      ∀ x ∈ body, x ≠ '\n' :=
  ⟨strOk_split, fun ⟨_, _, hl, h1, h2, h3⟩ => hl ▸ strOk_intro h1 h2 h3⟩

/-- `not in`: `not`, one or more white-space characters, `in` -/
theorem lexeme_notIn (l : List Char) : lexemeOk .kwNotIn l = true ↔
    ∃ ws, l = wNot ++ (ws ++ wIn) ∧ (∀ x ∈ ws, isSpace x = true) ∧ 1 ≤ ws.length :=
  ⟨spacedOk_split, fun ⟨_, hl, h1, h2⟩ => hl ▸ spacedOk_intro h1 h2
    (fun x hx => by
      have : x = 'i' := by simpa [wIn] using hx.symm
      rw [this]
      decide +kernel)⟩

/-- `else if`: `else`, any number of white-space characters, `if` -/
theorem lexeme_elif (l : List Char) : lexemeOk .kwElif l = true ↔
    ∃ ws, l = wElse ++ (ws ++ wIf) ∧ ∀ x ∈ ws, isSpace x = true :=
  ⟨fun h => let ⟨ws, hl, h1, _⟩ := spacedOk_split h; ⟨ws, hl, h1⟩,
   fun ⟨_, hl, h1⟩ => hl ▸ spacedOk_intro h1 (Nat.zero_le _)
    (fun x hx => by
      have : x = 'i' := by simpa [wIf] using hx.symm
      rw [this]
      decide +kernel)⟩

/-- all other kinds: exactly the fixed spelling -/
theorem lexeme_fixed (k : TKind) (w : List Char) (hf : k.fixed = some w) (l : List Char) :
    lexemeOk k l = true ↔ l = w := by
  have hk : lexemeOk k l = (k.fixed == some l) := by
    cases k <;> first | rfl | (simp [TKind.fixed] at hf)
  rw [hk, hf]
  constructor
  · intro h
    exact (Option.some.inj (beq_iff_eq.1 h)).symm
  · intro h
    rw [h]
    exact beq_self_eq_true _

/-! ### non-vacuity and sanity checks -/

section examples

private def tk (k : TKind) (s : String) : TokSpec := ⟨k, s.toList⟩

/-- `def e1 { salt: "s" if x >= 1.5 and y not in (2, 3) { return weighted } else if z < 4 { } }` -/
private def specs : List TokSpec :=
  [tk .kwDef "def", tk .id "e1", tk .lbrace "{", tk .kwSalt "salt", tk .colon ":",
   tk .string "\"s\"", tk .kwIf "if", tk .id "x", tk .ge ">=", tk .float "1.5", tk .kwAnd "and",
   tk .id "y", tk .kwNotIn "not in", tk .lparen "(", tk .int "2", tk .comma ",", tk .int "3",
   tk .rparen ")", tk .lbrace "{", tk .kwReturn "return", tk .kwWeighted "weighted",
   tk .rbrace "}", tk .kwElif "else if", tk .id "z", tk .lt "<", tk .int "4", tk .lbrace "{",
   tk .rbrace "}", tk .rbrace "}"]

private def sp : List Trivia := [.ws [' ']]

/-- layout 1: one blank where needed (`1`), nothing elsewhere (`0`) -/
private def layout1 : Layout :=
  ([0, 1, 0, 0, 0, 0, 0, 1, 0, 0, 1, 1, 1, 0, 0, 0, 0, 0, 0, 0, 1, 0, 0, 1, 0, 0, 0, 0, 0].map
    (fun (b : Nat) => if b = 1 then sp else [])).zip specs

/-- layout 2: comments with awkward contents, line breaks, tabs everywhere -/
private def layout2 : Layout :=
  layout1.map (fun (_, t) =>
    ([.blockComment " 'q\" def // /* \n ** ".toList, .ws ['\n', '\t'],
      .lineComment " else if \"x".toList, .ws [' ']], t))

example : layout1.specs = specs := by decide +kernel
example : layout2.specs = specs := by decide +kernel
example : admissible layout1 [] = true := by decide +kernel
example : admissible layout2 [.lineComment " the end".toList] = true := by decide +kernel

example : String.ofList (renderToks layout1 []) =
    "def e1{salt:\"s\"if x>=1.5 and y not in(2,3){return weighted}else if z<4{}}" := by
  decide +kernel

/-- the two layouts have the same tokens — by the theorem, not by evaluation -/
example : lexChars (renderToks layout1 []) =
    lexChars (renderToks layout2 [.lineComment " the end".toList]) :=
  C08_trivia_invariant _ _ _ _ (by decide +kernel) (by decide +kernel) (by decide +kernel)

/-- and these tokens are the expected kinds (checked by running the lexer model) -/
example : (lexChars (renderToks layout1 [])).toOption.map (·.map (·.kind)) =
    some (specs.map (·.kind.name)) := by decide +kernel

example : (lexChars (renderToks layout2 [.lineComment " the end".toList])).toOption.map
    (·.map (·.kind)) = some (specs.map (·.kind.name)) := by decide +kernel

/-- the separation conditions are not artefacts: the excluded texts really lex differently -/
example : (lexChars "else if".toList).toOption.map (·.map (·.kind)) = some ["KW_ELIF"] := by
  decide +kernel
example : (lexChars "else/**/if".toList).toOption.map (·.map (·.kind)) =
    some ["KW_ELSE", "KW_IF"] := by decide +kernel
example : sepOk .kwElse " if".toList = false := by decide +kernel
example : sepOk .kwElse "/**/if".toList = true := by decide +kernel
example : (lexChars "elseif".toList).toOption.map (·.map (·.kind)) = some ["KW_ELIF"] := by
  decide +kernel
example : lexemeOk .id "elseif".toList = false := by decide +kernel
example : (lexChars ">=".toList).toOption.map (·.map (·.kind)) = some ["KW_GE"] := by
  decide +kernel
example : sepOk .gt "=".toList = false := by decide +kernel
example : (lexChars "1.5".toList).toOption.map (·.map (·.kind)) = some ["NON_NEG_FLOAT"] := by
  decide +kernel
example : sepOk .int ".5".toList = false := by decide +kernel
example : sepOk .id "1".toList = false := by decide +kernel
example : (lexChars "x1".toList).toOption.map (·.map (·.kind)) = some ["ID"] := by decide +kernel

end examples

end Pyab.Properties
