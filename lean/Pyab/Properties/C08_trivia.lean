/-
  C08 — "Inserting, removing or reshaping whitespace, line breaks, // comments and /* */
  comments — any number per line, spanning lines, with any content including quotes, keywords,
  '//' and '*' — between the tokens of an experiment leaves its compiled behaviour unchanged."

  Proved here, for the rule tables extracted from the Python lexer (`Generated.lexSpec`):
  **trivia in front of the remaining input is invisible to the lexer.**  Whatever sequence of
  white-space runs, `//` comments (with their line break) and `/* */` comments is put in front
  of a remaining input `s`, the token list — kinds *and* converted values — is the token list
  of `s`, and an error for `s` is the same error.  This holds at every point of a run (any
  state stack, any previous character), hence in particular for whole texts (`lex`).

  What is *not* proved here: the converse direction of the property (that trivia may only be
  inserted *between* tokens: inside a string literal or in the middle of an identifier the
  characters are of course not trivia), i.e. the full statement
  `lex (render toks tr₁) = lex (render toks tr₂)` for two trivia layouts of one token
  sequence; it additionally needs "a token's lexeme is lexed as that token when followed by
  trivia", which is a separate obligation per token kind.
-/
import Pyab.Proofs.TriviaConcrete
import Pyab.Proofs.TriviaBound
namespace Pyab.Properties
open Pyab Pyab.Trivia

/-- one piece of trivia, by shape -/
inductive Trivia where
  /-- a run of white-space characters (Python `\s`: blanks, tabs, line breaks, NBSP, …) -/
  | ws (cs : List Char)
  /-- `//body` followed by its line break -/
  | lineComment (body : List Char)
  /-- `/*body*/` -/
  | blockComment (body : List Char)
deriving Repr

/-- well-formedness: a white-space run contains only white space; the body of a line comment
    contains no line break; the body of a block comment does not contain `*/`.  Nothing else is
    required: quotes, keywords, `//`, `/*`, `*` and (in block comments) line breaks are allowed. -/
def Trivia.wf : Trivia → Bool
  | .ws cs => cs.all isSpace
  | .lineComment body => body.all (· != '\n')
  | .blockComment body => noClose body

def Trivia.render : Trivia → List Char
  | .ws cs => cs
  | .lineComment body => '/' :: '/' :: (body ++ ['\n'])
  | .blockComment body => '/' :: '*' :: (body ++ ['*', '/'])

/-- the text of a sequence of trivia pieces -/
def renderAll (ts : List Trivia) : List Char := ts.flatMap Trivia.render

theorem renderAll_cons (t : Trivia) (ts : List Trivia) :
    renderAll (t :: ts) = t.render ++ renderAll ts := by
  simp [renderAll]

/-- `lex` on a list of characters: exactly what `Pyab.lex` does with `text.toList` -/
def lexChars (cs : List Char) : Except Err (List Token) :=
  toksOf (lexLoop S cs.length (cs.length + 1) 0 [] none cs)

theorem lex_eq_lexChars (text : String) : lex S text = lexChars text.toList := rfl

/-! ### the single pieces (restated from `Proofs/TriviaConcrete.lean`) -/

/-- **A** one white-space character in front of the remaining input is invisible -/
theorem C08_space_invisible (bound : Nat) (stack : List Nat) (c : Char) (s : List Char)
    (hc : isSpace c = true) : lexC S bound 0 stack (c :: s) = lexC S bound 0 stack s :=
  space_neutral bound stack c s hc

/-- **B** a `//` comment with its line break is invisible -/
theorem C08_lineComment_invisible (bound : Nat) (stack : List Nat) (body s : List Char)
    (hb : ∀ x ∈ body, x ≠ '\n') (hbound : body.length ≤ bound) :
    lexC S bound 0 stack ('/' :: '/' :: (body ++ '\n' :: s)) = lexC S bound 0 stack s :=
  lineComment_neutral bound stack body s hb hbound

/-- **B'** a `//` comment that ends the text lexes to no tokens -/
theorem C08_lineComment_at_eof (bound : Nat) (stack : List Nat) (body : List Char)
    (hb : ∀ x ∈ body, x ≠ '\n') (hbound : body.length ≤ bound) :
    lexC S bound 0 stack ('/' :: '/' :: body) = .ok [] :=
  lineComment_eof bound stack body hb hbound

/-- **C** a `/* */` comment is invisible, whatever its body (without `*/`) contains -/
theorem C08_blockComment_invisible (bound : Nat) (stack : List Nat) (body s : List Char)
    (hc : noClose body = true) (hbound : body.length ≤ bound) :
    lexC S bound 0 stack ('/' :: '*' :: (body ++ '*' :: '/' :: s)) = lexC S bound 0 stack s :=
  blockComment_neutral bound stack body s hc hbound

/-! ### sequences of trivia -/

theorem trivia_lexC (bound : Nat) (stack : List Nat) (s : List Char) :
    ∀ ts : List Trivia, (∀ t ∈ ts, t.wf = true) → (renderAll ts).length ≤ bound →
      lexC S bound 0 stack (renderAll ts ++ s) = lexC S bound 0 stack s
  | [], _, _ => rfl
  | t :: ts, hwf, hb => by
    have hlen : t.render.length + (renderAll ts).length ≤ bound := by
      rw [renderAll_cons, List.length_append] at hb
      exact hb
    have ih := trivia_lexC bound stack s ts (fun t' ht' => hwf t' (List.mem_cons_of_mem _ ht'))
      (by omega)
    have ht := hwf t List.mem_cons_self
    rw [renderAll_cons, List.append_assoc, ← ih]
    cases t with
    | ws cs =>
      simp only [Trivia.wf, List.all_eq_true] at ht
      exact spaces_neutral bound stack cs _ ht
    | lineComment body =>
      simp only [Trivia.wf, List.all_eq_true, bne_iff_ne] at ht
      simp only [Trivia.render, List.length_cons, List.length_append] at hlen
      have := lineComment_neutral bound stack body (renderAll ts ++ s) ht (by omega)
      simpa [Trivia.render] using this
    | blockComment body =>
      simp only [Trivia.wf] at ht
      simp only [Trivia.render, List.length_cons, List.length_append] at hlen
      have := blockComment_neutral bound stack body (renderAll ts ++ s) ht (by omega)
      simpa [Trivia.render] using this

/-- **C08, trivia prefix, at any point of a run**: with the regex iteration bounds and loop
    fuels sufficient for the respective inputs (as `lexFull` chooses them for the whole text),
    any state stack and any previous characters, the lexer produces for `trivia ++ s` exactly
    the tokens (or the error) it produces for `s`. -/
theorem C08_trivia_prefix_invisible_run (ts : List Trivia) (hwf : ∀ t ∈ ts, t.wf = true)
    (s : List Char) (b1 b2 f1 f2 : Nat) (stack : List Nat) (p1 p2 : Option Char)
    (hb1 : (renderAll ts ++ s).length ≤ b1) (hb2 : s.length ≤ b2)
    (hf1 : (renderAll ts ++ s).length + 1 ≤ f1) (hf2 : s.length + 1 ≤ f2) :
    toksOf (lexLoop S b1 f1 0 stack p1 (renderAll ts ++ s)) =
      toksOf (lexLoop S b2 f2 0 stack p2 s) := by
  rw [toksOf_lexLoop_eq_lexC S_prevFree b1 0 stack p1 hf1,
      toksOf_lexLoop_eq_lexC S_prevFree b2 0 stack p2 hf2,
      trivia_lexC b1 stack s ts hwf (by rw [List.length_append] at hb1; omega)]
  exact lexC_bound_irrel S 0 stack (by rw [List.length_append] at hb1; omega) hb2

/-- **C08, trivia prefix, whole texts (character lists)** -/
theorem C08_trivia_prefix_invisible (ts : List Trivia) (hwf : ∀ t ∈ ts, t.wf = true)
    (s : List Char) : lexChars (renderAll ts ++ s) = lexChars s :=
  C08_trivia_prefix_invisible_run ts hwf s _ _ _ _ [] none none
    (Nat.le_refl _) (Nat.le_refl _) (Nat.le_refl _) (Nat.le_refl _)

/-- **C08, trivia prefix, whole texts (`Pyab.lex` on strings)** -/
theorem C08_trivia_prefix_invisible_lex (ts : List Trivia) (hwf : ∀ t ∈ ts, t.wf = true)
    (text : String) : lex S (String.ofList (renderAll ts) ++ text) = lex S text := by
  rw [lex_eq_lexChars, lex_eq_lexChars, String.toList_append, String.toList_ofList]
  exact C08_trivia_prefix_invisible ts hwf text.toList

/-- a text consisting of trivia only has no tokens -/
theorem C08_trivia_only (ts : List Trivia) (hwf : ∀ t ∈ ts, t.wf = true) :
    lexChars (renderAll ts) = .ok [] := by
  have := C08_trivia_prefix_invisible ts hwf []
  rw [List.append_nil] at this
  rw [this]
  rfl

/-- … also when it ends in a `//` comment without a final line break -/
theorem C08_trivia_then_final_lineComment (ts : List Trivia) (hwf : ∀ t ∈ ts, t.wf = true)
    (body : List Char) (hb : ∀ x ∈ body, x ≠ '\n') :
    lexChars (renderAll ts ++ '/' :: '/' :: body) = .ok [] := by
  rw [C08_trivia_prefix_invisible ts hwf]
  unfold lexChars
  rw [toksOf_lexLoop_eq_lexC S_prevFree _ 0 [] none (Nat.le_refl _)]
  exact lineComment_eof _ [] body hb (by simp only [List.length_cons]; omega)

/-! ### non-vacuity -/

/-- the well-formedness conditions allow the awkward contents the property names:
    quotes, keywords, `//`, `/*`, stars and line breaks inside a block comment -/
example : (Trivia.blockComment "* 'quote\" def // /* \n ** /\n".toList).wf = true := by
  decide +kernel

example : (Trivia.lineComment " return \"x\" /* */ // *".toList).wf = true := by decide +kernel

example : (Trivia.ws [' ', '\t', '\n', '\r', Char.ofNat 160, Char.ofNat 12288]).wf = true := by
  decide +kernel

/-- an instance of the theorem … -/
example :
    lexChars (renderAll [.blockComment " a ".toList, .ws [' '], .blockComment " b ".toList,
        .lineComment "x".toList, .ws ['\n', ' ']] ++ "def e { }".toList) =
      lexChars "def e { }".toList :=
  C08_trivia_prefix_invisible _ (by decide +kernel) _

/-- … whose left-hand text is what one expects … -/
example :
    renderAll [.blockComment " a ".toList, .ws [' '], .blockComment " b ".toList,
        .lineComment "x".toList, .ws ['\n', ' ']] ++ "def e { }".toList =
      "/* a */ /* b *///x\n\n def e { }".toList := by decide +kernel

/-- … and whose right-hand side is a genuine token list (checked by evaluation on both sides) -/
example : (lex S "/* a */ /* b */def e { }").toOption.map (·.map (·.kind)) =
    some ["KW_DEF", "ID", "LBRACE", "RBRACE"] := by decide +kernel

example : (lex S "def e { }").toOption.map (·.map (·.kind)) =
    some ["KW_DEF", "ID", "LBRACE", "RBRACE"] := by decide +kernel

example : (lex S "//x\ndef").toOption.map (·.map (·.kind)) = some ["KW_DEF"] := by
  decide +kernel

example : (lex S "/* 'q\" // /* *\n ** / def */def// def").toOption.map (·.map (·.kind)) =
    some ["KW_DEF"] := by decide +kernel

/-- an unterminated block comment is *not* trivia: the lexer rejects the text -/
example : (match lex S "/* a * / def" with | .error .lexError => true | _ => false) = true := by
  decide +kernel

end Pyab.Properties
