/-
  C13 (reader) — Python reads the emitted text back as exactly the emitted lines.

  `C14_text_is_rendered_lines` (Properties/C14_text.lean) says: the text `genText` writes is
  the lines of `bodyLines`, printed by `Proofs.printILine`, between the fixed pieces of the
  module.  What was missing is the other direction of the chain

      source ──lower──▶ lines ──print──▶ text ──(Python reads)──▶ lines

  namely how PYTHON reads that text.  `Model/PyRead.lean` models this for the fragment the
  generator emits — a tokenizer (names and keywords, int and float literals, short string
  literals through `PyStrLit.pyScanStr`, the operators and punctuation, blanks, the end of
  the line), an expression reader (atoms, `(l op r)`, `(a and b)`, `(a or b)`, `(not a)`,
  tuple displays), a statement reader and a line reader; the driver operation `pyread`
  compares it with CPython's `ast` on the same texts.  The theorems here say that this
  reader inverts the printer.  Statements only; proofs in `Pyab/Proofs/PyReadRoundtrip.lean`.

  Side conditions (`Proofs.LineOK`, computed by `Proofs.lineOKB`; on the source:
  `Proofs.condSrcOK`):
    * names are Python identifiers `[A-Za-z_][A-Za-z0-9_]*` and not keywords
      (`Proofs.isPyName`);
    * operator texts are the canonical ones (`==  !=  <  >  <=  >=  in  not in  and  or  not`;
      for emitted lines this is `CanonicalExpr cfg`);
    * a constant of a line is not a tuple VALUE (the generator lowers tuples to displays);
    * every float constant reads back: the text printed for it is read as that very
      constant (`Proofs.FloatReads`, computed by `Proofs.floatReadsB`: print, read, compare).
      `inf`, `-inf`, `nan` fail it — Python reads these texts as NAMES (finding family K2) —
      and so does a float whose `Dbl` representation is not the one the reader computes
      (e.g. `Dbl.ofInt 3 = 3·2^0` against `6755399441055744·2^-51`: same value, other
      mantissa/exponent pair).  Ints and strings are arbitrary.

  Floats in another representation.  `Dbl` holds a finite float as a pair `m·2^e`; an integer
  weight that the validator turned into a float is `Dbl.ofNat n = n·2^0`, and Python's value
  for the printed `n.0` is the 53-bit pair.  For such lines the theorems hold up to
  re-reading the float constants (`Proofs.rereadILine`; side condition `Proofs.LineStable`,
  computed by `Proofs.lineStableB` / `Proofs.condSrcStable`: the printed text is a float
  literal whose value has the same normal form `Dbl.norm`, the same `-0.0` flag and the same
  printed text): `C13_python_reads_back_the_lines_up_to_float_representation`.  Where the
  exact condition holds, re-reading is the identity (`C13_reader_reread_exact`).

  (Closed since: `Properties/C05_float.lean` proves it for every finite binary64 value — `C05_float_repr_reads_back`,
  `C05_python_reads_back_the_lines`.)  What was NOT proved here in general: that every finite float the DSL lexer can produce satisfies
  `floatReadsB` / `floatStableB` (i.e. that `Dbl.repr` followed by `Dbl.decToDbl` is the
  identity on values — the correctness of the shortest-digits printer).  Both conditions are
  computable and are discharged by evaluation for each concrete program.  The reader does
  not check block structure (`PyExec.wellIndented` does).
-/
import Pyab.Properties.C14_text
import Pyab.Proofs.PyReadRoundtrip
namespace Pyab.Properties
open Pyab Pyab.Spec Pyab.Proofs Pyab.PyRead

/-! ### the reader inverts the printer -/

/-- the text printed for an operand — a name, `None`/`True`/`False`, an int of any size, a
    float that reads back, a string with ANY contents (printed by `repr`), a tuple display of
    such operands, nested at will — is read back as that operand -/
theorem C13_reader_term (printable : Nat → Bool) (t : PTerm) (s : String) (hok : TermOK t)
    (h : printTerm printable t = .ok s) : readTerm s = some t :=
  read_print_term printable t s hok h

/-- the text printed for a condition — comparisons with the eight comparison operators,
    `and`, `or`, `not`, fully parenthesised, nested at will — is read back as that condition -/
theorem C13_reader_expr (printable : Nat → Bool) (e : PExpr) (s : String) (hok : ExprOK e)
    (h : printExpr printable e = .ok s) : readExpr s = some e :=
  read_print_expr printable e s hok h

/-- a printed line — tabs, `if E: ` / `elif E: ` / `else: ` / `return partial(…)` /
    `raise …()`, newline — is read back as its indentation and statement -/
theorem C13_reader_line (printable : Nat → Bool) (x : ILine) (s : String) (hok : LineOK x.2)
    (h : printILine printable x = .ok s) : readLine s = some x :=
  read_print_line printable x s hok h

/-- printed lines, one after the other, are read back as exactly those lines: as many
    lines, each with its indentation and its statement -/
theorem C13_reader_lines (printable : Nat → Bool) (L : List ILine) (s : String)
    (hok : ∀ x ∈ L, LineOK x.2) (h : printLines printable L = .ok s) : readBody s = some L :=
  read_print_lines printable L s hok h

/-- the side condition is computable: `lineOKB` decides it (floats included) -/
theorem C13_reader_side_condition_computable (l : Line) (h : lineOKB l = true) : LineOK l :=
  lineOK_of_B h

/-- for emitted lines the side condition is one on the SOURCE: identifiers are Python names,
    float constants and float weights read back (`condSrcOK`, computable); the operator
    texts are canonical because the generator's operator table is -/
theorem C13_reader_side_condition_of_source (cfg : GenCfg) (hc : CanonicalExpr cfg) (c : Cond)
    (d : Nat) (L : List ILine) (hok : condSrcOK c = true) (h : bodyLines cfg d c = .ok L) :
    ∀ x ∈ L, LineOK x.2 :=
  linesOK_body cfg hc c d L hok h

/-! ### the generated text -/

/-- **Python reads back the lines.**  Together with `C14_text_is_rendered_lines` this closes
    the chain from the text to the lines: if the body of `choose_experiment_variant` is
    emitted as the lines `L` (either layout), then the text `genText` writes is the fixed
    pieces of the module around a body text `B`, and this reader reads `B` as exactly `L` —
    the same number of lines, each with the same indentation and the same statement, the
    same expression trees, names, operators and constants — WHATEVER THE STRINGS OF THE
    SOURCE CONTAIN: a string literal is printed by `repr` and read back as one string
    constant (`Proofs.scan_repr`), so a literal can never change the line structure, open a
    new statement, or turn into code.  Side condition on the source (`condSrcOK`):
    identifiers are Python names and float constants read back (see the head of this file). -/
theorem C13_python_reads_back_the_lines (cfg : GenCfg) (hc : CanonicalExpr cfg) (e : Experiment)
    (expose : Bool) (L : List ILine) (hok : condSrcOK e.cond = true)
    (h : bodyLines cfg (bodyDepth expose) e.cond = .ok L) :
    ∃ B, genText cfg e expose = .ok (moduleText cfg e expose B) ∧ readBody B = some L := by
  obtain ⟨c, r, h1, h2, h3, h4⟩ :=
    genText_eq_lines cfg hc.strTerm hc.tuples (readBack_repr cfg) e expose L h
  have hL := linesOK_body cfg hc e.cond _ L hok h
  refine ⟨c ++ "\n" ++ r, h4, ?_⟩
  have := read_print_body cfg.printable L.dropLast (bodyDepth expose, .raiseU) c r
    (fun y hy => hL y (List.dropLast_subset L hy)) trivial h1 h2
  obtain ⟨ys, rfl⟩ := List.getLast?_eq_some_iff.mp h3
  simpa using this

/-- the same in the layout-independent form used by C14: both layouts of the generator
    (`expose = false`: depth 2, `expose = true`: depth 1) are read back as their own lines -/
theorem C14_python_reads_back_both_layouts (cfg : GenCfg) (hc : CanonicalExpr cfg) (e : Experiment)
    (hok : condSrcOK e.cond = true) (L₁ L₂ : List ILine)
    (h₂ : bodyLines cfg 2 e.cond = .ok L₂) (h₁ : bodyLines cfg 1 e.cond = .ok L₁) :
    (∃ B, genText cfg e false = .ok (moduleText cfg e false B) ∧ readBody B = some L₂) ∧
      (∃ B, genText cfg e true = .ok (moduleText cfg e true B) ∧ readBody B = some L₁) :=
  ⟨C13_python_reads_back_the_lines cfg hc e false L₂ hok h₂,
    C13_python_reads_back_the_lines cfg hc e true L₁ hok h₁⟩

/-- the same for the module printed from given lines (`moduleOfLines`): its body text is
    read back as the lines it was printed from -/
theorem C13_module_body_reads_back (cfg : GenCfg) (e : Experiment) (expose : Bool) (A : List ILine)
    (hok : ∀ x ∈ A, LineOK x.2) (T : String)
    (h : moduleOfLines cfg e expose (A ++ [(bodyDepth expose, .raiseU)]) = .ok T) :
    ∃ B, T = moduleText cfg e expose B ∧ readBody B = some (A ++ [(bodyDepth expose, .raiseU)]) := by
  simp only [moduleOfLines, List.dropLast_concat, bind_ok_iff] at h
  obtain ⟨c, hc, r, hr, h⟩ := h
  simp only [pure, Except.pure, Except.ok.injEq] at h
  exact ⟨c ++ "\n" ++ r, h.symm, read_print_body cfg.printable A _ c r hok trivial hc hr⟩

/-! ### floats up to their representation -/

/-- printed lines are read back as those lines with every float constant and float weight
    replaced by what Python builds from its printed text (`rereadILine`) -/
theorem C13_reader_lines_up_to_float_representation (printable : Nat → Bool) (L : List ILine)
    (s : String) (hok : ∀ x ∈ L, LineStable x.2) (h : printLines printable L = .ok s) :
    readBody s = some (L.map rereadILine) :=
  read_print_lines_reread printable L s hok h

/-- re-reading a float constant changes at most its representation: under the computed
    condition the result reads back exactly, prints as the same text, has the same normal
    form and the same `-0.0` flag -/
theorem C13_reader_reread_same_value (d : Dbl) (nz : Bool) (h : floatStableB d nz = true) :
    FloatReads (rereadFloat d nz).1 (rereadFloat d nz).2 ∧
      floatStr (rereadFloat d nz).1 (rereadFloat d nz).2 = floatStr d nz ∧
      Dbl.norm (rereadFloat d nz).1 = Dbl.norm d ∧ (rereadFloat d nz).2 = nz :=
  floatStable_spec h

/-- where the exact side condition holds, re-reading is the identity: the exact theorems are
    the special case -/
theorem C13_reader_reread_exact (l : Line) (h : lineOKB l = true) : rereadLine l = l :=
  rereadLine_of_B h

/-- **Python reads back the lines, floats up to their representation.**  As
    `C13_python_reads_back_the_lines`, for sources whose float constants and float weights
    are held in any representation (`condSrcStable`, computed): the body text is read as `L`
    with each float constant re-read — the same lines, indentation, statements, names,
    operators, ints and strings; the same float values. -/
theorem C13_python_reads_back_the_lines_up_to_float_representation (cfg : GenCfg)
    (hc : CanonicalExpr cfg) (e : Experiment) (expose : Bool) (L : List ILine)
    (hok : condSrcStable e.cond = true) (h : bodyLines cfg (bodyDepth expose) e.cond = .ok L) :
    ∃ B, genText cfg e expose = .ok (moduleText cfg e expose B) ∧
      readBody B = some (L.map rereadILine) := by
  obtain ⟨c, r, h1, h2, h3, h4⟩ :=
    genText_eq_lines cfg hc.strTerm hc.tuples (readBack_repr cfg) e expose L h
  have hL : ∀ x ∈ L, LineStable x.2 :=
    linesOKW_body (fun _ _ h => h) (fun _ h => h) cfg hc e.cond _ L hok h
  refine ⟨c ++ "\n" ++ r, h4, ?_⟩
  have := read_print_body_reread cfg.printable L.dropLast (bodyDepth expose, .raiseU) c r
    (fun y hy => hL y (List.dropLast_subset L hy)) trivial h1 h2
  obtain ⟨ys, rfl⟩ := List.getLast?_eq_some_iff.mp h3
  simpa using this

/-- deciding equality of results (for the evaluated examples below) -/
local instance : DecidableEq (Except Err String) := fun a b =>
  match a, b with
  | .ok x, .ok y => if h : x = y then isTrue (by rw [h]) else isFalse (by intro h'; cases h'; exact h rfl)
  | .error x, .error y =>
      if h : x = y then isTrue (by rw [h]) else isFalse (by intro h'; cases h'; exact h rfl)
  | .ok _, .error _ => isFalse (by intro h; cases h)
  | .error _, .ok _ => isFalse (by intro h; cases h)

/-! ### examples, by evaluation of the reader (`decide +kernel` on a structural comparison) -/

/-- `(country == 'US')` -/
example : readExpr "(country == 'US')" = some (.cmp (.name "country") "==" (.const (.str "US"))) :=
  eq_of_readsAsExpr (by decide +kernel)

/-- a nested condition: comparison, `and`, `not`, `in`, a tuple display holding a string with a
    quote (printed with double quotes) and a nested tuple -/
example : readExpr "((age >= 18) and (not (x in ('a', \"it's\", (1, 2)))))"
    = some (.bin (.cmp (.name "age") ">=" (.const (.int 18))) "and"
        (.un "not" (.cmp (.name "x") "in"
          (.tuple [.const (.str "a"), .const (.str "it's"),
            .tuple [.const (.int 1), .const (.int 2)]])))) :=
  eq_of_readsAsExpr (by decide +kernel)

/-- that condition was the printed form of the tree -/
example : printExpr Generated.genCfg.printable
    (.bin (.cmp (.name "age") ">=" (.const (.int 18))) "and"
      (.un "not" (.cmp (.name "x") "in"
        (.tuple [.const (.str "a"), .const (.str "it's"), .tuple [.const (.int 1), .const (.int 2)]]))))
    = .ok "((age >= 18) and (not (x in ('a', \"it's\", (1, 2)))))" := by decide +kernel

/-- an `if` line at depth 2 -/
example : readLine "\t\tif (country == 'US'): \n"
    = some (2, .ifL (.cmp (.name "country") "==" (.const (.str "US")))) :=
  eq_of_readsAs (by decide +kernel)

/-- `not in`, the one-member tuple, the empty tuple, negative numbers, `None` -/
example : readLine "\telif ((a not in (b,)) or ((-3, None) != ())): \n"
    = some (1, .elifL (.bin (.cmp (.name "a") "not in" (.tuple [.name "b"])) "or"
        (.cmp (.tuple [.const (.int (-3)), .const .none]) "!=" (.tuple [])))) :=
  eq_of_readsAs (by decide +kernel)

/-- a `return` line: the population and the weights -/
example : readLine
    "\t\t\treturn partial(deterministic_choice, population=['control', \"it's\", 3], weights=[1, 2, 3])\n"
    = some (3, .ret [.str "control", .str "it's", .int 3] [.i 1, .i 2, .i 3]) :=
  eq_of_readsAs (by decide +kernel)

/-- floats: `2.5`, `-0.0`, an exponent form, a float weight -/
example : readLine
    "\treturn partial(deterministic_choice, population=[2.5, -0.0, 1e-07], weights=[0.5, 1])\n"
    = some (1, .ret [.float (Dbl.ofDecimal false 25 1) false, .float (.fin 0 0) true,
        .float (Dbl.ofDecimal false 1 7) false] [.f (Dbl.ofDecimal false 5 1), .i 1]) :=
  eq_of_readsAs (by decide +kernel)

example : readLine "\telse: \n" = some (1, .elseL) := eq_of_readsAs (by decide +kernel)
example : readLine "\t\traise ExperimentConditionalFailedError()\n" = some (2, .raiseU) :=
  eq_of_readsAs (by decide +kernel)

/-- **the injection attempt.**  The line printed for a comparison against the string
    `'+str(print('PWNED'))+'` is read back as ONE comparison whose right operand is that
    string constant — no concatenation, no call -/
example : readLine "\t\tif (country == \"'+str(print('PWNED'))+'\"): \n"
    = some (2, .ifL (.cmp (.name "country") "==" (.const (.str C13_injection)))) :=
  eq_of_readsAs (by decide +kernel)

/-- and that line is what the printer emits for the injected comparison (C14_text) -/
example : printILine Generated.genCfg.printable
    (2, .ifL (.cmp (.name "country") "==" (.const (.str C13_injection))))
    = .ok "\t\tif (country == \"'+str(print('PWNED'))+'\"): \n" := by decide +kernel

/-- had the string been spliced between quotes without `repr`, Python would read something
    else: here the reader sees `'' + str(…) + ''`, which is outside the emitted shapes -/
example : (readLine "\t\tif (country == ''+str(print('PWNED'))+''): \n").isNone = true := by
  decide +kernel

/-- strings with a newline, a backslash, a tab, both quotes, a non-ASCII and a
    non-printable character: one constant, one line -/
example : readLine "\tif (s == 'a\\nb\\\\c\\td\\'e\"f\\x00é'): \n"
    = some (1, .ifL (.cmp (.name "s") "==" (.const (.str "a\nb\\c\td'e\"f\x00é")))) :=
  eq_of_readsAs (by decide +kernel)

/-- the body of the example module of C14_text, read as a whole: seven lines; the empty
    line before the `raise` is skipped -/
example : readBody
    ("\t\tif (country == 'US'): \n" ++
     "\t\t\treturn partial(deterministic_choice, population=['control', 'variant'], weights=[1, 1])\n" ++
     "\t\telif (country in ('CA', 'MX')): \n" ++
     "\t\t\treturn partial(deterministic_choice, population=['north'], weights=[3])\n" ++
     "\t\telse: \n" ++
     "\t\t\treturn partial(deterministic_choice, population=['other'], weights=[2])\n" ++
     "\n" ++
     "\t\traise ExperimentConditionalFailedError()\n") = some C14_text_exampleLines :=
  eq_of_readsAsLines (by decide +kernel)

/-! ### outside the fragment -/

/-- a keyword is not a name; a second statement on the line; a chained comparison; a
    parenthesised operand that is not a tuple; a string prefix; a leading zero -/
example : (readLine "\tif (class == 1): \n").isNone = true := by decide +kernel
example : (readLine "\tif (a == 1): print(2)\n").isNone = true := by decide +kernel
example : (readLine "\tif (a < b < c): \n").isNone = true := by decide +kernel
example : (readLine "\tif ((a) == 1): \n").isNone = true := by decide +kernel
example : (readLine "\tif (a == b'x'): \n").isNone = true := by decide +kernel
example : (readLine "\tif (a == 012): \n").isNone = true := by decide +kernel

/-- finding family K2: the float `inf` is printed as `inf`, which Python reads as a NAME -/
example : printTerm Generated.genCfg.printable (.const (.float .pinf false)) = .ok "inf" := by
  decide +kernel
example : readTerm "inf" = some (.name "inf") := eq_of_readsAsTerm (by decide +kernel)
example : floatReadsB .pinf false = false := by decide +kernel
example : floatReadsB .nan false = false := by decide +kernel

/-! ### examples, by the theorems -/

/-- the side condition of the example source, computed -/
theorem C13_reader_example_source_ok : condSrcOK C13_exampleCond = true := by decide +kernel

/-- the theorem applied to the example experiment of C14_text (nested layout): the text the
    generator writes has a body that is read back as the seven lines of `C13_example_lines` -/
example : ∃ B, genText Generated.genCfg C14_text_example false
      = .ok (moduleText Generated.genCfg C14_text_example false B) ∧
    readBody B = some C14_text_exampleLines :=
  C13_python_reads_back_the_lines Generated.genCfg C02_generator_canonical C14_text_example false _
    C13_reader_example_source_ok C13_example_lines

/-- the same with the injection text in EVERY string of the source: the body is read back as
    the same seven lines with that text inside the constants (`C13_example_lines_injected`) —
    same indentation, same statements, same names and operators -/
example : ∃ B, genText Generated.genCfg
        (substExperiment (fun _ => C13_injection) C14_text_example) false
      = .ok (moduleText Generated.genCfg (substExperiment (fun _ => C13_injection) C14_text_example) false B) ∧
    readBody B = some
      [(2, .ifL (.cmp (.name "country") "==" (.const (.str C13_injection)))),
       (3, .ret [.str C13_injection, .str C13_injection] [.i 1, .i 1]),
       (2, .elifL (.cmp (.name "country") "in"
             (.tuple [.const (.str C13_injection), .const (.str C13_injection)]))),
       (3, .ret [.str C13_injection] [.i 3]),
       (2, .elseL),
       (3, .ret [.str C13_injection] [.i 2]),
       (2, .raiseU)] :=
  C13_python_reads_back_the_lines Generated.genCfg C02_generator_canonical
    (substExperiment (fun _ => C13_injection) C14_text_example) false _
    (by decide +kernel) C13_example_lines_injected

/-- one line through the theorem: the side condition by computation, the printed text by
    evaluation of the printer -/
example : readLine "\t\telif (country in ('CA', 'MX')): \n"
    = some (2, .elifL (.cmp (.name "country") "in" (.tuple [.const (.str "CA"), .const (.str "MX")]))) :=
  C13_reader_line Generated.genCfg.printable _ _ (lineOK_of_B (by decide +kernel)) (by decide +kernel)

/-- the printed form of the string with a newline, a backslash, … used above -/
example : printILine Generated.genCfg.printable
    (1, .ifL (.cmp (.name "s") "==" (.const (.str "a\nb\\c\td'e\"f\x00é"))))
    = .ok "\tif (s == 'a\\nb\\\\c\\td\\'e\"f\\x00é'): \n" := by decide +kernel

/-! ### examples with floats in another representation -/

/-- integer weights turned into floats by the validator (`Dbl.ofNat`), an integer operand
    turned into a float (`Dbl.ofInt`): the exact condition fails, the one up to
    representation holds, and the values are the same -/
example : weightReadsB (Dbl.ofNat 1) = false := by decide +kernel
example : weightStableB (Dbl.ofNat 1) = true := by decide +kernel
example : floatReadsB (Dbl.ofInt 3) false = false := by decide +kernel
example : floatStableB (Dbl.ofInt 3) false = true := by decide +kernel
example : rereadFloat (Dbl.ofInt 3) false = (.fin 6755399441055744 (-51), false) :=
  Prod.ext (eq_of_dblSame (by decide +kernel)) (by decide +kernel)

/-- the example conditional with the weights as the real pipeline holds them -/
def C13_reader_floatWeights : Cond :=
  .ifte (.cmp (.ident "country") .eq (.str "US"))
    (.ret [⟨.str "control", .f (Dbl.ofNat 1)⟩, ⟨.str "variant", .f (Dbl.ofNat 1)⟩])
    (.else_ (.ret [⟨.float (Dbl.ofDecimal false 25 1) false, .f (Dbl.ofDecimal false 5 1)⟩]))

example (L : List ILine) (h : bodyLines Generated.genCfg 2 C13_reader_floatWeights = .ok L) :
    ∃ B, genText Generated.genCfg ⟨"exp", none, some ["uid"], C13_reader_floatWeights⟩ false
        = .ok (moduleText Generated.genCfg ⟨"exp", none, some ["uid"], C13_reader_floatWeights⟩ false B) ∧
      readBody B = some (L.map rereadILine) :=
  C13_python_reads_back_the_lines_up_to_float_representation Generated.genCfg C02_generator_canonical
    ⟨"exp", none, some ["uid"], C13_reader_floatWeights⟩ false L (by decide +kernel) h

/-- the line `return partial(…, weights=[1.0, 1.0])` printed from `Dbl.ofNat 1` weights is read
    back with the weights as Python holds them -/
example : readLine "\t\t\treturn partial(deterministic_choice, population=['control', 'variant'], weights=[1.0, 1.0])\n"
    = some (rereadILine (3, .ret [.str "control", .str "variant"] [.f (Dbl.ofNat 1), .f (Dbl.ofNat 1)])) :=
  eq_of_readsAs (by decide +kernel)

end Pyab.Properties
