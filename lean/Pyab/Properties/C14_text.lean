/-
  C14 (text) — the generated text is the rendering of the emitted lines.

  The model has two views of the generator's output: `genText`, the module text character
  for character, and `bodyLines`, the body of `choose_experiment_variant` as indented lines
  holding expression trees.  The correspondence harness compares `genText` with the text
  the real generator writes; the behavioural theorems (`C02_routing_correct`,
  `C14_layouts_equivalent`, `C13_skeleton_invariant`) talk about `bodyLines`.  The theorems
  here connect the two: the text is exactly the lines, printed by a printer that is
  defined on the lines alone (`Proofs.printILine`), between the fixed pieces of the module.
  Statements only; proofs in `Pyab/Proofs/TextOfLines.lean`.
-/
import Pyab.Properties.C02
import Pyab.Properties.C13
import Pyab.Properties.C14
import Pyab.Proofs.TextOfLines
namespace Pyab.Properties
open Pyab Pyab.Spec Pyab.Proofs

/-! ### the printer on expressions -/

/-- a lowered operand prints as the generator rendered the source operand: digits of an
    int, repr of a float, `repr()` of a string (the lowered constant is that same string),
    a name verbatim, a tuple member by member with Python's one-member comma -/
theorem C14_text_term (cfg : GenCfg) (hc : CanonicalExpr cfg) (t : Term) (pt : PTerm)
    (h : lowerTerm cfg t = .ok pt) : renderTerm cfg t = printTerm cfg.printable pt :=
  printTerm_lower cfg hc.strTerm hc.tuples (readBack_repr cfg) t pt h

/-- a lowered predicate prints as the generator rendered the source predicate, fully
    parenthesised; both views hold the same operator text, whatever the operator table is -/
theorem C14_text_pred (cfg : GenCfg) (hs : cfg.strReprTerm = true) (ht : cfg.tupleRecursive = true)
    (p : Pred) (e : PExpr) (h : lowerPred cfg p = .ok e) :
    renderPred cfg p = printExpr cfg.printable e :=
  printExpr_lower cfg hs ht (readBack_repr cfg) p e h

/-- the text of a conditional emitted at depth `d` is its lines, each printed as
    `d` tabs, the statement, a newline, one after the other -/
theorem C14_text_cond (cfg : GenCfg) (hc : CanonicalExpr cfg) (c : Cond) (d : Nat) (L : List ILine)
    (h : linesCond cfg d c = .ok L) :
    renderCond cfg d c = (L.mapM (printILine cfg.printable)).map String.join :=
  printLines_cond cfg hc.strTerm hc.tuples (readBack_repr cfg) c d L h

/-! ### the module -/

/-- **The text is the rendered lines.**  The correspondence harness compares `genText` with
    the text the real generator writes.  This theorem transports that comparison to the
    structured lines the behavioural theorems are about (`C02_routing_correct`: what
    executing the lines returns; `C14_layouts_equivalent`: depth 1 and depth 2 behave alike;
    `C13_skeleton_invariant`: strings do not shape the lines): whenever the body is emitted
    as the lines `L` — in the nested layout (`expose = false`, depth 2) or the exposed one
    (`expose = true`, depth 1) — the generated text is `moduleOfLines … L`: the imports, the
    `def` line of the experiment function, the `def choose_experiment_variant` line, then
    every line of `L` but the last as *tabs, statement, newline*, an empty line, the last
    line of `L` (the trailing `raise`, at the depth of the body), and the call — in the
    order of the layout.  The printer never fails on emitted lines. -/
theorem C14_text_is_rendered_lines (cfg : GenCfg) (hc : CanonicalExpr cfg) (e : Experiment)
    (expose : Bool) (L : List ILine) (h : bodyLines cfg (bodyDepth expose) e.cond = .ok L) :
    ∃ T, moduleOfLines cfg e expose L = .ok T ∧ genText cfg e expose = .ok T := by
  have := genText_factors cfg hc.strTerm hc.tuples (readBack_repr cfg) e expose
  rw [h] at this
  obtain ⟨c, r, _, _, _, h4⟩ :=
    genText_eq_lines cfg hc.strTerm hc.tuples (readBack_repr cfg) e expose L h
  exact ⟨_, by rw [← h4, this]; rfl, h4⟩

/-- the same, with the text spelled out: `ls` are the printed lines of the conditional,
    the last line of `L` is the `raise` at the depth of the body -/
theorem C14_text_spelled_out (cfg : GenCfg) (hc : CanonicalExpr cfg) (e : Experiment)
    (expose : Bool) (L : List ILine) (h : bodyLines cfg (bodyDepth expose) e.cond = .ok L) :
    ∃ ls : List String, L.dropLast.mapM (printILine cfg.printable) = .ok ls ∧
      L.getLast? = some (bodyDepth expose, .raiseU) ∧
      genText cfg e expose = .ok
        (if expose then
          topline ++ fnDefText cfg e ++ callText cfg e ++ sigText cfg e expose ++
            (String.join ls ++ "\n" ++
              (tabs (bodyDepth expose) ++ "raise ExperimentConditionalFailedError()" ++ "\n"))
        else
          topline ++ fnDefText cfg e ++ sigText cfg e expose ++
            (String.join ls ++ "\n" ++
              (tabs (bodyDepth expose) ++ "raise ExperimentConditionalFailedError()" ++ "\n")) ++
            callText cfg e) := by
  obtain ⟨c, r, h1, h2, h3, h4⟩ :=
    genText_eq_lines cfg hc.strTerm hc.tuples (readBack_repr cfg) e expose L h
  rw [printLines_eq_join] at h1
  cases hls : List.mapM (printILine cfg.printable) L.dropLast with
  | error err => simp [hls, Except.map] at h1
  | ok ls =>
      simp only [hls, Except.map, Except.ok.injEq] at h1
      rw [printILine_raise] at h2
      cases h1; cases h2
      exact ⟨ls, rfl, h3, h4⟩

/-- **The text factors through the lines**, errors included: generating the text is
    emitting the lines and printing them; when emitting the lines fails, generating the
    text fails with that error -/
theorem C14_text_factors_through_lines (cfg : GenCfg) (hc : CanonicalExpr cfg) (e : Experiment)
    (expose : Bool) :
    genText cfg e expose = bodyLines cfg (bodyDepth expose) e.cond >>= moduleOfLines cfg e expose :=
  genText_factors cfg hc.strTerm hc.tuples (readBack_repr cfg) e expose

/-- the text is generated exactly when the lines are emitted -/
theorem C14_text_generated_iff_lines (cfg : GenCfg) (hc : CanonicalExpr cfg) (e : Experiment)
    (expose : Bool) :
    (∃ T, genText cfg e expose = .ok T) ↔ ∃ L, bodyLines cfg (bodyDepth expose) e.cond = .ok L :=
  genText_ok_iff cfg hc.strTerm hc.tuples (readBack_repr cfg) e expose

/-- generating the text and emitting the lines fail with the same error -/
theorem C14_text_same_error_as_lines (cfg : GenCfg) (hc : CanonicalExpr cfg) (e : Experiment)
    (expose : Bool) (err : Err) :
    genText cfg e expose = .error err ↔ bodyLines cfg (bodyDepth expose) e.cond = .error err :=
  genText_error_iff cfg hc.strTerm hc.tuples (readBack_repr cfg) e expose err

/-! ### strings reach the text only through `repr` -/

/-- **The text depends on the strings only through the printed constants.**  Replace every
    string of the conditional (operands, tuple members, group names) by `σ` of it.  If both
    texts are generated, they are the same fixed pieces and the same printer applied to two
    bodies `L`, `L'` that coincide once their constants are blanked (`maskILine`): the same
    number of lines, line by line the same indentation, statement, names, operator texts,
    tuple shapes, number of groups and weights.  With `C14_text_is_rendered_lines` this is
    `C13_skeleton_invariant` said about the text. -/
theorem C13_text_depends_on_strings_only_through_repr (cfg : GenCfg) (hc : CanonicalExpr cfg)
    (σ : String → String) (e : Experiment) (expose : Bool) (T T' : String)
    (h : genText cfg e expose = .ok T) (h' : genText cfg (substExperiment σ e) expose = .ok T') :
    ∃ L L', bodyLines cfg (bodyDepth expose) e.cond = .ok L ∧
      bodyLines cfg (bodyDepth expose) (substCond σ e.cond) = .ok L' ∧
      L.map maskILine = L'.map maskILine ∧
      moduleOfLines cfg e expose L = .ok T ∧ moduleOfLines cfg e expose L' = .ok T' :=
  genText_subst cfg hc (readBack_repr cfg) σ e expose T T' h h'

/-- the sharper form: the text for the source with its strings replaced is printed from the
    lines of the *original* source in which each `str` constant `s` became `σ s` and nothing
    else changed (`substILine`); such a constant is printed by `PyStrLit.pyReprStr`
    (`C13_text_replaced_constant`), so the two texts differ only inside `repr` renderings.
    Errors included: if the original fails, so does the other, with the same error. -/
theorem C13_text_of_replaced_strings (cfg : GenCfg) (hc : CanonicalExpr cfg) (σ : String → String)
    (e : Experiment) (expose : Bool) :
    genText cfg (substExperiment σ e) expose =
      bodyLines cfg (bodyDepth expose) e.cond >>= fun L =>
        moduleOfLines cfg e expose (L.map (substILine σ)) :=
  genText_subst_lines cfg hc.strTerm hc.tuples (readBack_repr cfg) σ e expose

/-- where a replaced constant is printed the text is `repr` of the new string; every other
    constant is untouched -/
theorem C13_text_replaced_constant (printable : Nat → Bool) (σ : String → String) (v : PyVal) :
    printConst printable (substVal σ v) =
      match v with
      | .str s => .ok (PyStrLit.pyReprStr printable (σ s))
      | v => printConst printable v :=
  printConst_substVal printable σ v

/-- corollary: the two bodies have the same number of lines, and line by line the same
    indentation and the same kind of statement (a `return` with the same number of groups) -/
theorem C13_text_same_layout (cfg : GenCfg) (hc : CanonicalExpr cfg) (σ : String → String)
    (c : Cond) (d : Nat) (L L' : List ILine) (h : bodyLines cfg d c = .ok L)
    (h' : bodyLines cfg d (substCond σ c) = .ok L') :
    L.length = L'.length ∧ layoutOf L = layoutOf L' := by
  have hm := C13_skeleton_invariant cfg hc σ c d L L' h h'
  exact ⟨by simpa using congrArg List.length hm, layoutOf_eq_of_mask hm⟩

/-- the error of text generation does not depend on the strings -/
theorem C13_text_same_error_regardless (cfg : GenCfg) (hc : CanonicalExpr cfg) (σ : String → String)
    (e : Experiment) (expose : Bool) (err : Err) :
    genText cfg e expose = .error err ↔ genText cfg (substExperiment σ e) expose = .error err :=
  genText_subst_error cfg hc (readBack_repr cfg) σ e expose err

/-! ### a concrete experiment -/

/-- `C13_exampleCond` as a whole experiment: salt `s1`, split on `user_id` -/
def C14_text_example : Experiment := ⟨"exp", some "s1", some ["user_id"], C13_exampleCond⟩

/-- deciding equality of results (for the evaluated examples below) -/
local instance : DecidableEq (Except Err String) := fun a b =>
  match a, b with
  | .ok x, .ok y => if h : x = y then isTrue (by rw [h]) else isFalse (by intro h'; cases h'; exact h rfl)
  | .error x, .error y =>
      if h : x = y then isTrue (by rw [h]) else isFalse (by intro h'; cases h'; exact h rfl)
  | .ok _, .error _ => isFalse (by intro h; cases h)
  | .error _, .ok _ => isFalse (by intro h; cases h)

/-- the lines of the body in the nested layout (those of `C13_example_lines`) -/
def C14_text_exampleLines : List ILine :=
  [(2, .ifL (.cmp (.name "country") "==" (.const (.str "US")))),
   (3, .ret [.str "control", .str "variant"] [.i 1, .i 1]),
   (2, .elifL (.cmp (.name "country") "in" (.tuple [.const (.str "CA"), .const (.str "MX")]))),
   (3, .ret [.str "north"] [.i 3]),
   (2, .elseL),
   (3, .ret [.str "other"] [.i 2]),
   (2, .raiseU)]

/-- the text the generator in /repo writes for the example, nested layout -/
def C14_text_exampleText : String :=
  "from functools import partial\n" ++
  "from pyab_experiment.codegen.python.custom_exceptions import ExperimentConditionalFailedError\n" ++
  "from pyab_experiment.binning.binning import deterministic_choice\n" ++
  "\n#*******AUTOGENERATED DO NOT MODIFY ***********\n\n" ++
  "def exp(user_id, country, **kwargs): \n" ++
  "\tdef choose_experiment_variant(country): \n" ++
  "\t\tif (country == 'US'): \n" ++
  "\t\t\treturn partial(deterministic_choice, population=['control', 'variant'], weights=[1, 1])\n" ++
  "\t\telif (country in ('CA', 'MX')): \n" ++
  "\t\t\treturn partial(deterministic_choice, population=['north'], weights=[3])\n" ++
  "\t\telse: \n" ++
  "\t\t\treturn partial(deterministic_choice, population=['other'], weights=[2])\n" ++
  "\n" ++
  "\t\traise ExperimentConditionalFailedError()\n" ++
  "\treturn choose_experiment_variant(country=country)('s1'+''.join(map(str, [user_id])))\n"

/-- the model's text for the example, by evaluation -/
example : genText Generated.genCfg C14_text_example false = .ok C14_text_exampleText := by
  decide +kernel

/-- the printed lines of the example, by evaluation: the same text -/
example : moduleOfLines Generated.genCfg C14_text_example false C14_text_exampleLines
    = .ok C14_text_exampleText := by
  decide +kernel

/-- single lines through the printer -/
example : printILine Generated.genCfg.printable
    (2, .elifL (.cmp (.name "country") "in" (.tuple [.const (.str "CA"), .const (.str "MX")])))
    = .ok "\t\telif (country in ('CA', 'MX')): \n" := by decide +kernel
example : printILine Generated.genCfg.printable (3, .ret [.str "it's", .int 3, .float Dbl.nan false] [.i 1, .i 2, .i 3])
    = .ok "\t\t\treturn partial(deterministic_choice, population=[\"it's\", 3, nan], weights=[1, 2, 3])\n" := by
  decide +kernel
example : printTerm Generated.genCfg.printable (.tuple [.name "a"]) = .ok "(a,)" := by decide +kernel

/-- the theorem applied to the example: its hypothesis is `C13_example_lines` -/
example : ∃ T, moduleOfLines Generated.genCfg C14_text_example false C14_text_exampleLines = .ok T ∧
    genText Generated.genCfg C14_text_example false = .ok T :=
  C14_text_is_rendered_lines Generated.genCfg C02_generator_canonical C14_text_example false _
    C13_example_lines

/-- the exposed layout of the same experiment: the same lines one level up, `def` lines swapped -/
example : genText Generated.genCfg C14_text_example true
    = moduleOfLines Generated.genCfg C14_text_example true
        (C14_text_exampleLines.map fun x => (x.1 - 1, x.2)) := by
  decide +kernel

/-- the injection text of C13 in every string: by the theorem the text is printed from the
    original lines with the constants replaced; by evaluation that is the original text with
    each quoted string replaced by one double-quoted literal -/
example : genText Generated.genCfg (substExperiment (fun _ => C13_injection) C14_text_example) false
    = moduleOfLines Generated.genCfg C14_text_example false
        (C14_text_exampleLines.map (substILine fun _ => C13_injection)) := by
  rw [C13_text_of_replaced_strings Generated.genCfg C02_generator_canonical]
  show bodyLines Generated.genCfg 2 C13_exampleCond >>= _ = _
  rw [C13_example_lines]
  rfl

example : printILine Generated.genCfg.printable
    (substILine (fun _ => C13_injection) (2, .ifL (.cmp (.name "country") "==" (.const (.str "US")))))
    = .ok "\t\tif (country == \"'+str(print('PWNED'))+'\"): \n" := by decide +kernel

/-- a failing experiment: text generation fails with the error of the lines -/
example : genText Generated.genCfg ⟨"exp", none, none, C13_failingCond⟩ false
    = .error (.other "group-definition-not-literal") :=
  (C14_text_same_error_as_lines Generated.genCfg C02_generator_canonical
    ⟨"exp", none, none, C13_failingCond⟩ false _).mpr C13_failing_error

end Pyab.Properties
