/- C04 — statements are being added as the proofs land (see DESIGN.md §6). -/
namespace Pyab.Properties

theorem C04_placeholder : True := trivial

end Pyab.Properties
