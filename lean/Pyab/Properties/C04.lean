/-
  C04 — realistic id populations split in proportion, independently across salts.
  "Statistically consistent" is not a theorem about any function (it is false for
  adversarial populations); what is provable is the *reduction* of the property to the
  single empirical fact that MD5 positions of realistic ids are equidistributed:
  group counts are a function of the multiset of hash positions only, each group is
  exactly an interval of the 2^32 grid whose length is w_i/T of the grid to within one
  point, and the whole key (salt first) is what is hashed.  The premise is measured by
  the check (chi-square on real assignments), labelled as a statistical test.
-/
import Pyab.Properties.C03
import Pyab.Properties.EvaluatorPremise
import Pyab.Properties.C01_key
namespace Pyab.Properties
open Pyab Pyab.Spec

/-- how many units of a population (given by their hash positions) fall in group `i` -/
def groupCount (w : List Nat) (i : Nat) (hs : List Nat) : Nat :=
  (hs.filter fun h => decide (IsSpecIdx w h i)).length

/-- group counts depend on the multiset of hash positions only -/
theorem C04_counts_from_positions (w : List Nat) (i : Nat) (hs hs' : List Nat) (h : hs.Perm hs') :
    groupCount w i hs = groupCount w i hs' :=
  (h.filter _).length_eq

/-- group `i` receives exactly the units whose position lies in the grid interval
    `[⌈S_{i-1}·2^32/T⌉, ⌈S_i·2^32/T⌉)` -/
theorem C04_group_is_interval (w : List Nat) (i : Nat) (hs : List Nat) (hi : i < w.length) (hpos : 0 < total w) :
    groupCount w i hs =
      (hs.filter fun h => decide ((prefixSum w i * 2 ^ 32 + total w - 1) / total w ≤ h
        ∧ h < (prefixSum w (i + 1) * 2 ^ 32 + total w - 1) / total w)).length := by
  unfold groupCount
  congr 1
  apply List.filter_congr
  intro h _
  have := C03_share w h i hpos
  simp only [decide_eq_decide]
  constructor
  · intro hx; exact (this.mp hx).2
  · intro hx; exact this.mpr ⟨hi, hx⟩

/-- if the positions of a population are equidistributed over grid intervals up to an error
    `E` (premise, measured not proved), every group's count is within `E` of its share -/
theorem C04_equidistribution_suffices (w : List Nat) (i : Nat) (hs : List Nat) (E : Nat)
    (hi : i < w.length) (hpos : 0 < total w)
    (hequi : ∀ lo hi', lo ≤ hi' →
      ((hs.filter fun h => decide (lo ≤ h ∧ h < hi')).length * 2 ^ 32 ≤ hs.length * (hi' - lo) + E) ∧
      (hs.length * (hi' - lo) ≤ (hs.filter fun h => decide (lo ≤ h ∧ h < hi')).length * 2 ^ 32 + E)) :
    let lo := (prefixSum w i * 2 ^ 32 + total w - 1) / total w
    let hi' := (prefixSum w (i + 1) * 2 ^ 32 + total w - 1) / total w
    groupCount w i hs * 2 ^ 32 ≤ hs.length * (hi' - lo) + E ∧
    hs.length * (hi' - lo) ≤ groupCount w i hs * 2 ^ 32 + E := by
  intro lo hi'
  rw [C04_group_is_interval w i hs hi hpos]
  have hle : lo ≤ hi' := by
    apply Nat.div_le_div_right
    have : prefixSum w i ≤ prefixSum w (i + 1) := by
      unfold prefixSum
      rw [List.take_add_one]
      simp
    have := Nat.mul_le_mul_right (2 ^ 32) this
    omega
  exact hequi lo hi' hle

/-- every byte of the salt enters the hash, salt first: two salts give different MD5 inputs -/
theorem C04_whole_key_hashed (pr : Nat → Bool) (s1 s2 : String) (names : List String) (env : Env) (k1 k2 : String)
    (h1 : keyOf pr s1 names env = .ok k1) (h2 : keyOf pr s2 names env = .ok k2) (hne : s1 ≠ s2) : k1 ≠ k2 :=
  fun hk => hne (C09_key_varies_with_salt pr s1 s2 names env k1 k2 h1 h2 hk)

example : groupCount [1, 1] 0 [0, 2 ^ 31, 2 ^ 31 - 1, 5] = 3 := by decide

end Pyab.Properties
