/-
  C17 — the hypotheses of the interleaving theorems, discharged against the source:
  the write effects of every function on the compile / evaluate paths are extracted
  from /repo by the translator (a conservative syntactic analysis) and must all be
  thread-local; the lexer and the parser are allocated per `parse_source` call; the
  evaluator publishes the new function with exactly one store, after it is built.
-/
import Pyab.Model.Sched
import Pyab.Generated.Effects
namespace Pyab.Properties
open Pyab Pyab.Sched

/-- kinds of write the analysis considers thread-local: a local or `nonlocal` variable of
    the running call, an attribute of `self` (lexer / parser / generator / evaluator object
    of this call), an object freshly allocated in this call, a token object passed to a rule -/
def threadLocalKinds : List String := ["local", "nonlocal", "self-attr", "fresh-object", "param-object"]

def Effect.isThreadLocal (e : Generated.Effect) : Bool := threadLocalKinds.contains e.kind

/-- the abstract thread program of one `parse_source` + generate + evaluate call of thread `t`:
    one store per extracted write effect — to a private location when the effect is
    thread-local, to a shared one otherwise -/
def abstractProg (t : Tid) : Nat → List Generated.Effect → List Instr
  | _, [] => []
  | k, e :: es =>
      (if Effect.isThreadLocal e then Instr.store (.priv t k) 0 else Instr.store (.shared k) 0)
        :: abstractProg t (k + 1) es

theorem abstractProg_owns (t : Tid) : ∀ (k : Nat) (es : List Generated.Effect),
    es.all Effect.isThreadLocal = true → Owns t (abstractProg t k es) = true
  | _, [], _ => by simp [abstractProg, Owns]
  | k, e :: es, h => by
      simp only [List.all_cons, Bool.and_eq_true] at h
      have ih := abstractProg_owns t (k + 1) es h.2
      simp only [Owns, abstractProg, h.1, if_true, List.all_cons, Bool.and_eq_true] at ih ⊢
      exact ⟨by simp [Instr.loadOk, Instr.storeOk, Loc.isPrivOf], ih⟩

/-- **table obligation** (re-extracted from /repo on every run): every write on the
    compile / evaluate paths is thread-local — no `global`, no class attribute, no module
    attribute, nothing the analysis could not classify -/
theorem C17_effects_thread_local : Generated.effects.all Effect.isThreadLocal = true := by decide

/-- **table obligation**: `parse_source` allocates a fresh lexer and a fresh parser per call
    and the evaluator's `code_holder` is a local -/
theorem C17_fresh_objects_per_call :
    (Generated.freshLexerPerCall && Generated.freshParserPerCall && Generated.codeHolderIsLocal) = true := by decide

/-- **table obligation**: `recompile` installs the new function with exactly one store, and
    only after the new code has been built -/
theorem C17_single_publish_after_build :
    (Generated.publishWrites == 1 && Generated.publishAfterBuild) = true := by decide

/-- hence the abstract program of a compile call touches only the calling thread's own
    locations — the hypothesis `Owns` of `C17_noninterference` -/
theorem C17_compile_path_owns (t : Tid) : Owns t (abstractProg t 0 Generated.effects) = true :=
  abstractProg_owns t 0 Generated.effects C17_effects_thread_local

end Pyab.Properties
