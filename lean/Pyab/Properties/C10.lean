/-
  C10 — a monotone ramp never moves a unit to a later-declared group.
  "If weights are changed so that no leading cumulative share decreases, no unit moves
  to a later-declared group: raising the first group's share from 10% to 20% keeps
  everyone who was in it."
  Statements only; helper lemmas live in `Pyab/Proofs/Choice.lean`, `Pyab/Proofs/Choice2.lean`.
-/
import Pyab.Model.Choice
import Pyab.Properties.C10_scaling
import Pyab.Properties.PurePremise
import Pyab.Spec.Interval
import Pyab.Proofs.Choice2
import Pyab.Properties.C03
namespace Pyab.Properties
open Pyab Pyab.Spec

/-- **Monotone ramp, interval rule.**  `w → w'` with every leading cumulative share
    `S_k / T` non-decreasing (cross-multiplied: `S_k · T' ≤ S'_k · T`): the group index of a
    unit at grid position `h` does not increase.
    (`hlen` and `hpos` are part of the property's wording but are not needed by the proof:
    only `0 < total w'` is used.) -/
theorem C10_monotone_ramp (w w' : List Nat) (h i j : Nat)
    (hlen : w.length = w'.length) (hpos : 0 < total w) (hpos' : 0 < total w')
    (hshare : ∀ k, k ≤ w.length → prefixSum w k * total w' ≤ prefixSum w' k * total w)
    (hi : IsSpecIdx w h i) (hj : IsSpecIdx w' h j) : j ≤ i :=
  have _ := hlen
  have _ := hpos
  Proofs.isSpecIdx_ramp w w' h i j hpos' hshare hi hj

/-- **Monotone ramp, the indices the code returns** (integer weights, totals `< 2^21`,
    32-bit hash position): same conclusion for `deterministic_choice`'s results. -/
theorem C10_monotone_ramp_compiled (w w' : List Nat) (h i j : Nat) (hh : h < 2 ^ 32)
    (hlen : w.length = w'.length)
    (hpos : 0 < total w) (hT : total w < 2 ^ 21)
    (hpos' : 0 < total w') (hT' : total w' < 2 ^ 21)
    (hshare : ∀ k, k ≤ w.length → prefixSum w k * total w' ≤ prefixSum w' k * total w)
    (hi : Choice.choiceIdx (some h) w.length (some (floatWeights w)) none = .ok (.idx i))
    (hj : Choice.choiceIdx (some h) w'.length (some (floatWeights w')) none = .ok (.idx j)) :
    j ≤ i := by
  obtain ⟨i0, hi0, hsi⟩ := C03_int_exact w h hh hpos hT
  obtain ⟨j0, hj0, hsj⟩ := C03_int_exact w' h hh hpos' hT'
  rw [hi] at hi0
  rw [hj] at hj0
  have ei : i = i0 := Choice.Pick.idx.inj (Except.ok.inj hi0)
  have ej : j = j0 := Choice.Pick.idx.inj (Except.ok.inj hj0)
  subst ei; subst ej
  exact C10_monotone_ramp w w' h i j hlen hpos hpos' hshare hsi hsj

/-- **The literal "10% → 20%" form.**  Two groups `[a, b] → [a', b']` with the first group's
    share not decreasing (`a/(a+b) ≤ a'/(a'+b')`, cross-multiplied): whoever was in group 0
    stays in group 0.
    The hypothesis `0 < a' + b'` is necessary: with `a = 1, b = 0, a' = b' = 0, h = 0` the share
    inequality `1·0 ≤ 0·1` holds, `IsSpecIdx [1, 0] 0 0` holds, and `IsSpecIdx [0, 0] 0 0` fails
    (all-zero weights select nobody; the code raises `ValueError`). -/
theorem C10_two_group_ramp (a b a' b' h : Nat) (hpos' : 0 < a' + b')
    (hshare : a * (a' + b') ≤ a' * (a + b))
    (h0 : IsSpecIdx [a, b] h 0) : IsSpecIdx [a', b'] h 0 := by
  obtain ⟨_, _, h2⟩ := h0
  have e1 : total [a, b] = a + b := by simp [total]
  have e2 : prefixSum [a, b] (0 + 1) = a := by simp [prefixSum]
  have e1' : total [a', b'] = a' + b' := by simp [total]
  have e2' : prefixSum [a', b'] (0 + 1) = a' := by simp [prefixSum]
  rw [e1, e2] at h2
  refine ⟨by simp, ?_, ?_⟩
  · rw [Proofs.prefixSum_zero, Nat.zero_mul]; exact Nat.zero_le _
  · rw [e1', e2']
    apply Nat.lt_of_not_le
    intro hge
    exact Proofs.ramp_arith (2 ^ 32) (a + b) (a' + b') a a' h hpos' h2 hge hshare

-- the counterexample showing `0 < a' + b'` cannot be dropped from `C10_two_group_ramp`
example : 1 * (0 + 0) ≤ 0 * (1 + 0) ∧ IsSpecIdx [1, 0] 0 0 ∧ ¬ IsSpecIdx [0, 0] 0 0 := by decide

/-- the same for the code's results: `[a, b] → [a', b']`, group 0 is kept -/
theorem C10_two_group_ramp_compiled (a b a' b' h : Nat) (hh : h < 2 ^ 32)
    (hT : a + b < 2 ^ 21) (hpos' : 0 < a' + b') (hT' : a' + b' < 2 ^ 21)
    (hshare : a * (a' + b') ≤ a' * (a + b))
    (h0 : Choice.choiceIdx (some h) 2 (some (floatWeights [a, b])) none = .ok (.idx 0)) :
    Choice.choiceIdx (some h) 2 (some (floatWeights [a', b'])) none = .ok (.idx 0) := by
  have e1 : total [a, b] = a + b := by simp [total]
  have e1' : total [a', b'] = a' + b' := by simp [total]
  by_cases hpos : 0 < a + b
  · obtain ⟨i0, hi0, hsi⟩ := C03_int_exact [a, b] h hh (by omega) (by omega)
    obtain ⟨j0, hj0, hsj⟩ := C03_int_exact [a', b'] h hh (by omega) (by omega)
    have hi0' : Choice.choiceIdx (some h) 2 (some (floatWeights [a, b])) none
        = .ok (.idx i0) := hi0
    rw [h0] at hi0'
    have ei : 0 = i0 := Choice.Pick.idx.inj (Except.ok.inj hi0')
    subst ei
    have := C03_spec_unique [a', b'] h _ _ hsj (C10_two_group_ramp a b a' b' h hpos' hshare hsi)
    subst this
    exact hj0
  · -- all-zero weights: the call raises, so `h0` is impossible
    have ha : a = 0 := by omega
    have hb : b = 0 := by omega
    subst ha; subst hb
    have herr : Choice.choiceIdx (some h) 2 (some (floatWeights [0, 0])) none
        = .error (.valueError "nonpositive") := rfl
    rw [herr] at h0
    cases h0

/-- **The hash position does not depend on the weights**: whenever the weighted call gets past
    its argument checks (running totals `cum`, float total `t`), the result is the bisect of
    `proba h · t`, where `Choice.proba h = h / 2^32` mentions only the id's hash. -/
theorem C10_position_independent_of_weights (h n : Nat) (ws cum : List Num) (last : Num) (t : Dbl)
    (hacc : Choice.accumulate ws = .ok cum) (hlen : cum.length = n)
    (hlast : cum.getLast? = some last)
    (htot : Num.add last (.f Dbl.zero) = .ok (.f t))
    (hposT : Dbl.le t Dbl.zero = false) (hfin : t.isFinite = true) :
    Choice.choiceIdx (some h) n (some ws) none
      = .ok (.idx (Choice.bisect cum (Dbl.mul (Choice.proba h) t) 0 (n - 1))) :=
  Proofs.choiceIdx_eq_bisect h n ws cum last t hacc hlen hlast htot hposT hfin

/-- `proba` is a function of the hash numerator alone -/
theorem C10_proba_def (h : Nat) : Choice.proba h = Dbl.ofNatDivPow2 h 32 := rfl

-- concrete instances meeting the hypotheses
/-- [1, 9] → [2, 8] (10% → 20%): the share hypothesis holds at every cut -/
example : ∀ k, k ≤ [1, 9].length →
    prefixSum [1, 9] k * total [2, 8] ≤ prefixSum [2, 8] k * total [1, 9] := by decide
example : 1 * (2 + 8) ≤ 2 * (1 + 9) := by decide
/-- position `h = 400000000` (≈ 9.3%) is in group 0 under both -/
example : IsSpecIdx [1, 9] 400000000 0 ∧ IsSpecIdx [2, 8] 400000000 0 := by decide
/-- position `h = 600000000` (≈ 14%) moves *earlier*: group 1 under [1, 9], group 0 under [2, 8] -/
example : IsSpecIdx [1, 9] 600000000 1 ∧ IsSpecIdx [2, 8] 600000000 0 := by decide
/-- and through the code -/
example : Choice.choiceIdx (some 400000000) 2 (some (floatWeights [1, 9])) none = .ok (.idx 0)
    ∧ Choice.choiceIdx (some 400000000) 2 (some (floatWeights [2, 8])) none = .ok (.idx 0) :=
  ⟨rfl, rfl⟩

end Pyab.Properties
