/-
  C15 — evaluation is total over field values: once routing selects a return statement with
  a usable weight list, every combination of field values (any Unicode string, any float,
  None, booleans, ints up to the interpreter's digit limit) yields a group of that
  statement; the only value-dependent failure of the key is `str()` of an over-long int.
-/
import Pyab.Generated.Config
import Pyab.Properties.EvaluatorPremise
import Pyab.Spec.Run
import Pyab.Proofs.RunGenerated
import Pyab.Proofs.ChoiceTotal
import Pyab.Proofs.KeyTotal
import Pyab.Properties.C09
import Pyab.Properties.C12
namespace Pyab.Properties
open Pyab Pyab.Spec Pyab.Proofs Pyab.Proofs.Run

/-- **Totality of the hashed choice.**  Hypotheses: the generator facts of C09; UTF-8 key
    encoding; every declared field is passed; routing selects a return statement; the key
    can be built (`hkey`; see `C15_keyOf_total` for when); the experiment has a splitter; the
    weights are usable (`accumulate` succeeds, the total is a positive finite float) and
    there is one weight per group.  Then the call returns a group of the routed statement. -/
theorem C15_total (cfg : RunCfg) (hc : CanonicalExpr cfg.toGenCfg) (hs : cfg.strReprSalt = true)
    (hu : cfg.keyUtf8 = true)
    (e : Experiment) (env : Env) (L : List ILine) (hL : bodyLines cfg.toGenCfg 2 e.cond = .ok L)
    (hp : ∀ n ∈ e.params cfg.toGenCfg, (env.get n).isSome = true)
    (gs : List Group) (pop : List PyVal) (ws : List Num)
    (hroute : specRoute env e.cond = .ok (some gs)) (hret : retVals cfg.toGenCfg gs = .ok (pop, ws))
    (hlv : e.localVars ≠ [])
    (key : String) (hkey : keyOf cfg.printable (e.salt.getD "") e.localVars env = .ok key)
    (cum : List Num) (last : Num) (t : Dbl)
    (hacc : Choice.accumulate ws = .ok cum) (hlast : cum.getLast? = some last)
    (htot : Num.add last (.f Dbl.zero) = .ok (.f t))
    (hpos : Dbl.le t Dbl.zero = false) (hfin : t.isFinite = true)
    (hlen : pop.length = ws.length) (hne : 0 < pop.length) :
    ∃ v ∈ pop, runGenerated cfg e env = .ok (.group v) := by
  obtain ⟨v, hv, hch⟩ := chooseByKey_utf8_ok key pop ws cum last t hacc hlast htot hpos hfin hlen hne
  refine ⟨v, hv, ?_⟩
  rw [C09_factorisation cfg hc hs e env L hL, specRun_eq]
  have h1 : (e.params cfg.toGenCfg).all (fun p => (env.get p).isSome) = true := List.all_eq_true.2 hp
  have hr : routed cfg.toGenCfg env e.cond = .ok (pop, ws) := by
    unfold routed; rw [hroute]; exact hret
  simp only [h1, hr, Bool.not_true, Bool.false_eq_true, if_false, bind, Except.bind]
  unfold choiceStage
  cases hl : e.localVars with
  | nil => exact absurd hl hlv
  | cons y ys =>
      rw [hl] at hkey
      simp [hkey, hu, hch, bind, Except.bind, Functor.map, Except.map]

/-- the example experiment of C09: whatever string the unit id is -/
example (uid : String) : ∃ v ∈ [PyVal.int 10, PyVal.int 20],
    runGenerated Generated.runCfg exC09 [("uid", .str uid), ("country", .int 1)] = .ok (.group v) :=
  C15_total Generated.runCfg C02_generator_canonical rfl rfl exC09 _ _ rfl
    (by
      intro n hn
      have hl : exC09.params Generated.runCfg.toGenCfg = ["uid", "country"] := by decide
      rw [hl] at hn
      simp only [List.mem_cons, List.not_mem_nil, or_false] at hn
      rcases hn with rfl | rfl <;> rfl) [⟨.int 10, .i 1⟩, ⟨.int 20, .i 1⟩] _ [.i 1, .i 1] rfl rfl (by decide)
    ("s" ++ String.join [uid]) rfl [.i 1, .i 2] (.i 2) (Dbl.ofInt 2) rfl rfl rfl (by decide) (by decide)
    rfl (by decide)

/-- without splitters the weighted population is handed to `random.choices` -/
theorem C15_total_random (cfg : RunCfg) (hc : CanonicalExpr cfg.toGenCfg) (hs : cfg.strReprSalt = true)
    (e : Experiment) (env : Env) (L : List ILine) (hL : bodyLines cfg.toGenCfg 2 e.cond = .ok L)
    (hp : ∀ n ∈ e.params cfg.toGenCfg, (env.get n).isSome = true)
    (gs : List Group) (pop : List PyVal) (ws : List Num)
    (hroute : specRoute env e.cond = .ok (some gs)) (hret : retVals cfg.toGenCfg gs = .ok (pop, ws))
    (hlv : e.localVars = [])
    (cum : List Num) (hch : Choice.choiceIdx none pop.length (some ws) none = .ok (.random cum)) :
    runGenerated cfg e env = .ok (.random pop cum) := by
  rw [C09_factorisation cfg hc hs e env L hL, specRun_eq]
  have h1 : (e.params cfg.toGenCfg).all (fun p => (env.get p).isSome) = true := List.all_eq_true.2 hp
  have hr : routed cfg.toGenCfg env e.cond = .ok (pop, ws) := by
    unfold routed; rw [hroute]; exact hret
  simp only [h1, hr, Bool.not_true, Bool.false_eq_true, if_false, bind, Except.bind]
  unfold choiceStage
  simp [hlv, hch, bind, Except.bind, pure, Except.pure]

example : runGenerated Generated.runCfg { exC09 with splitters := none } [("country", .int 1)]
    = .ok (.random [.int 10, .int 20] [.i 1, .i 2]) :=
  C15_total_random Generated.runCfg C02_generator_canonical rfl { exC09 with splitters := none } _ _ rfl
    (by decide) [⟨.int 10, .i 1⟩, ⟨.int 20, .i 1⟩] _ _ rfl rfl rfl _ rfl

/-- **The key is total** over None, booleans, floats (inf, nan, -0.0 included), every string
    and ints up to the digit limit. -/
theorem C15_keyOf_total (pr : Nat → Bool) (salt : String) (names : List String) (env : Env)
    (h : ∀ n ∈ names, ∃ v, env.get n = some v ∧
      (v = .none ∨ (∃ b, v = .bool b) ∨ (∃ d nz, v = .float d nz) ∨ (∃ s, v = .str s) ∨
       (∃ i, v = .int i ∧ PyVal.natDigits i.natAbs ≤ PyVal.maxStrDigits))) :
    ∃ key, keyOf pr salt names env = .ok key := by
  apply keyOf_ok
  intro n hn
  obtain ⟨v, hv, hk⟩ := h n hn
  refine ⟨v, hv, ?_⟩
  rcases hk with rfl | ⟨b, rfl⟩ | ⟨d, nz, rfl⟩ | ⟨s, rfl⟩ | ⟨i, rfl, hi⟩
  · rfl
  · rfl
  · rfl
  · rfl
  · simp [keyable, hi]

example (pr : Nat → Bool) : ∃ key, keyOf pr "s" ["a", "b", "c"]
    [("a", .str "josé ퟿"), ("b", .float .nan false), ("c", .none)] = .ok key :=
  C15_keyOf_total _ _ _ _ (by
    intro n hn
    simp only [List.mem_cons, List.not_mem_nil, or_false] at hn
    rcases hn with rfl | rfl | rfl
    · exact ⟨_, rfl, Or.inr (Or.inr (Or.inr (Or.inl ⟨_, rfl⟩)))⟩
    · exact ⟨_, rfl, Or.inr (Or.inr (Or.inl ⟨_, _, rfl⟩))⟩
    · exact ⟨_, rfl, Or.inl rfl⟩)

/-- … and the first splitter bound to an int beyond the digit limit makes `str()` raise
    ValueError (known finding K3: CPython's int → str conversion limit) -/
theorem C15_keyOf_int_too_long (pr : Nat → Bool) (salt : String) (pre post : List String) (n : String) (i : Int) (env : Env)
    (hpre : ∀ m ∈ pre, ∃ v, env.get m = some v ∧ keyable v = true)
    (hn : env.get n = some (.int i)) (hi : PyVal.natDigits i.natAbs > PyVal.maxStrDigits) :
    keyOf pr salt (pre ++ n :: post) env = .error (.valueError "digits") :=
  keyOf_digits pr salt pre post n i env hpre hn hi

/-- (a concrete 4301-digit literal is beyond what the kernel evaluates through `toString`;
    the example keeps the int symbolic) -/
example (pr : Nat → Bool) (i : Int) (hi : PyVal.natDigits i.natAbs > PyVal.maxStrDigits) :
    keyOf pr "s" ["a", "b"] [("a", .str "x"), ("b", .int i)] = .error (.valueError "digits") :=
  C15_keyOf_int_too_long pr "s" ["a"] [] "b" i _ (by
    intro m hm
    simp only [List.mem_singleton] at hm
    subst hm
    exact ⟨_, rfl, rfl⟩) rfl hi

/-- the only errors of the key construction -/
theorem C15_keyOf_errors (pr : Nat → Bool) (salt : String) (names : List String) (env : Env) (err : Err)
    (h : keyOf pr salt names env = .error err) :
    (err = .nameError ∧ ∃ n ∈ names, env.get n = none) ∨ err = .valueError "digits" :=
  keyOf_err pr salt names env err h

example : (Err.nameError = .nameError ∧ ∃ n ∈ ["a"], Env.get [] n = none) ∨ Err.nameError = .valueError "digits" :=
  C15_keyOf_errors (fun _ => true) "s" ["a"] [] _ rfl

/-! ### `str()` of a value: strings inside tuples are printed by `repr(str)` -/

/-- `str(("it's",))` is `("it's",)`: a string with an apostrophe and no double quote is
    double-quoted -/
example : PyVal.pyStr Generated.isPrintable (.tuple [.str "it's"]) = .ok "(\"it's\",)" := by
  decide +kernel

/-- the value `("a\\b", 1)` in Python source notation (one backslash in the string) prints as the
    text `('a\\b', 1)` (two backslash characters); both sides below are Lean literals, which
    escape a backslash the same way -/
example : PyVal.pyStr Generated.isPrintable (.tuple [.str "a\\b", .int 1]) = .ok "('a\\\\b', 1)" := by
  decide +kernel

/-- … both quotes: single-quoted with the apostrophe escaped; a non-printable character is
    escaped, a printable non-ASCII one is not; nesting -/
example : PyVal.pyStr Generated.isPrintable (.tuple [.str "it's \"q\""]) = .ok "('it\\'s \"q\"',)" := by
  decide +kernel
example : PyVal.pyStr Generated.isPrintable (.tuple [.str "é", .str "\x00"]) = .ok "('é', '\\x00')" := by
  decide +kernel
example : PyVal.pyStr Generated.isPrintable (.tuple [.tuple [.str "x'"], .float (Dbl.ofDecimal false 25 1) false])
    = .ok "((\"x'\",), 2.5)" := by
  decide +kernel

/-- … and so it is the double-quoted print that reaches the key -/
example : keyOf Generated.runCfg.printable "s" ["u"] [("u", .tuple [.str "it's"])] = .ok "s(\"it's\",)" := by
  decide +kernel

/-- the top-level string is not quoted at all -/
theorem C15_pyStr_str (r : String → String) (s : String) : PyVal.pyStrWith r (.str s) = .ok s := rfl

/-- **scalars do not see the string printer**: `str()` of a value that is neither a string
    nor a tuple is the same whatever `repr(str)` is -/
theorem C15_pyStr_scalar_indep (r r' : String → String) (v : PyVal)
    (hs : ∀ s, v ≠ .str s) (ht : ∀ l, v ≠ .tuple l) :
    PyVal.pyStrWith r v = PyVal.pyStrWith r' v := by
  cases v with
  | none => rfl
  | bool b => rfl
  | int i => rfl
  | float d nz => rfl
  | str s => exact absurd rfl (hs s)
  | tuple l => exact absurd rfl (ht l)

/-- in particular for the printer of the configuration: any two `printable` tables agree -/
theorem C15_pyStr_scalar_indep_printable (pr pr' : Nat → Bool) (v : PyVal)
    (hs : ∀ s, v ≠ .str s) (ht : ∀ l, v ≠ .tuple l) :
    PyVal.pyStr pr v = PyVal.pyStr pr' v :=
  C15_pyStr_scalar_indep _ _ v hs ht

/-- (a string at top level is independent of it too: only strings *inside tuples* changed) -/
theorem C15_pyStr_nontuple_indep (r r' : String → String) (v : PyVal) (ht : ∀ l, v ≠ .tuple l) :
    PyVal.pyStrWith r v = PyVal.pyStrWith r' v := by
  cases v with
  | none => rfl
  | bool b => rfl
  | int i => rfl
  | float d nz => rfl
  | str s => rfl
  | tuple l => exact absurd rfl (ht l)

example (r : String → String) : PyVal.pyStrWith r (.float .nan false) = .ok "nan" := by rfl

/-- **UTF-8 never raises an encode error**, whatever the key -/
theorem C15_utf8_never_encode_error (key : String) (pop : List PyVal) (ws : List Num) :
    chooseByKey true key pop ws ≠ .error .encodeError := by
  intro h
  rcases chooseByKey_err true key pop ws _ h with ⟨h1, _⟩ | h1
  · cases h1
  · cases h1

/-- … whereas the ASCII encoding does, on any key with a non-ASCII character -/
theorem C15_ascii_encode_error (key : String) (pop : List PyVal) (ws : List Num)
    (h : isAscii key = false) : chooseByKey false key pop ws = .error .encodeError := by
  unfold chooseByKey
  simp [h, bind, Except.bind]
  rfl

example : chooseByKey false "josé" [.int 1] [.i 1] = .error .encodeError :=
  C15_ascii_encode_error _ _ _ (by decide)


/-- **table obligation**: the key is encoded as UTF-8 (every `str` value is encodable) -/
theorem C15_key_is_utf8 : Generated.runCfg.keyUtf8 = true := by decide

end Pyab.Properties
