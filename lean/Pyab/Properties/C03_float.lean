/-
  C03 for float weights — the partition property lifted from integer weights (`C03.lean`) to
  ARBITRARY non-negative finite binary64 weights, which is what the DSL's decimal weights
  (`weighted 0.1`) become.  Everything is stated on the code's own binary64 arithmetic
  (`Dbl.round`, `Dbl.add`, `Dbl.mul`, `Dbl.lt`): the running sums `S_j` are the ROUNDED cumulative
  sums, the position is the ROUNDED product `x = u·t`.

  Statements only; the proofs live in
    `Proofs/DblOrder.lean`   exact order of finite doubles (cross-multiplication = model `cmp`)
    `Proofs/DblRound.lean`   `Dbl.round` is round-to-nearest-even (`RSpec`), monotone, idempotent
    `Proofs/ChoiceFloat.lean` running sums never decrease; `u·t < t`; the bisect consequences.

  Hypothesis `FloatWeights ws`: every weight is a Python float whose value is a finite result of
  `Dbl.round` on a non-negative dyadic — i.e. a genuine binary64 value ≥ 0.  (The model type
  `Dbl.fin m e` also contains dyadics with more than 53 significant bits, which no Python float
  can hold; for those the running sums can decrease: `accumulate [2^60+1, 0] = [2^60+1, 2^60]`.)
  Decimal literals and integer weights satisfy it (`C03_float_weights_decimal`, `…_ofNat`).

  Boundary found while proving `C03_float_zero_never` (confirmed on CPython): for the LAST group
  the claim needs the total to be a normal double.  With weights `[5e-324, 0.0]` and
  `u = (2^32-1)/2^32` the product `u·t` rounds back up to `t` and the zero-weighted last group IS
  returned (`C03_float_zero_last_subnormal_selected`).  Totals below `2^-1043` only.
-/
import Pyab.Model.Choice
import Pyab.Proofs.ChoiceFloat
namespace Pyab.Properties
open Pyab

/-! ### 1. exact order on finite doubles, without rationals -/

/-- `Dbl.leq` (cross-multiplication by powers of two) is the model's own `≤` on finite values -/
theorem C03_float_le_iff (m1 e1 m2 e2 : Int) :
    Dbl.le (.fin m1 e1) (.fin m2 e2) = true ↔ Dbl.leq (.fin m1 e1) (.fin m2 e2) :=
  Dbl.le_iff_leq m1 e1 m2 e2

/-- … and the model's `<` is its strict part -/
theorem C03_float_lt_iff (m1 e1 m2 e2 : Int) :
    Dbl.lt (.fin m1 e1) (.fin m2 e2) = true ↔
      Dbl.leq (.fin m1 e1) (.fin m2 e2) ∧ ¬ Dbl.leq (.fin m2 e2) (.fin m1 e1) :=
  Dbl.lt_iff_leq m1 e1 m2 e2

theorem C03_float_leq_refl (m e : Int) : Dbl.leq (.fin m e) (.fin m e) := Dbl.leq_refl m e

theorem C03_float_leq_trans (m1 e1 m2 e2 m3 e3 : Int) (h12 : Dbl.leq (.fin m1 e1) (.fin m2 e2))
    (h23 : Dbl.leq (.fin m2 e2) (.fin m3 e3)) : Dbl.leq (.fin m1 e1) (.fin m3 e3) :=
  Dbl.leq_trans m1 e1 m2 e2 m3 e3 h12 h23

theorem C03_float_leq_total (m1 e1 m2 e2 : Int) :
    Dbl.leq (.fin m1 e1) (.fin m2 e2) ∨ Dbl.leq (.fin m2 e2) (.fin m1 e1) :=
  Dbl.leq_total m1 e1 m2 e2

/-! ### 2. rounding is monotone -/

/-- **`Dbl.round` is monotone on non-negative dyadics**: if `m1·2^e1 ≤ m2·2^e2` exactly and the
    larger one rounds to a finite double, so does the smaller one, and the results are ordered
    under the model's comparison. -/
theorem C03_float_round_mono (m1 e1 m2 e2 : Int) (h1 : 0 ≤ m1)
    (hle : Dbl.leq (.fin m1 e1) (.fin m2 e2)) (hfin : (Dbl.round m2 e2).isFinite = true) :
    (Dbl.round m1 e1).isFinite = true ∧ Dbl.le (Dbl.round m1 e1) (Dbl.round m2 e2) = true :=
  Dbl.round_mono m1 e1 m2 e2 h1 hle hfin

/-- rounding a non-negative dyadic gives `+inf` or a finite value with non-negative mantissa -/
theorem C03_float_round_nonneg (m e : Int) (hm : 0 ≤ m) :
    Dbl.round m e = .pinf ∨ ∃ m' e', Dbl.round m e = .fin m' e' ∧ 0 ≤ m' :=
  Dbl.round_nonneg m e hm

/-- rounding is idempotent as a value: re-rounding any representation of a finite result of
    `round` returns a double of the same value -/
theorem C03_float_round_idem (m e m' e' : Int) (hm : 0 ≤ m) (h : Dbl.round m e = .fin m' e') :
    ∃ m'' e'', Dbl.round m' e' = .fin m'' e'' ∧ Dbl.le (.fin m'' e'') (.fin m' e') = true ∧
      Dbl.le (.fin m' e') (.fin m'' e'') = true := by
  have hrep := Dbl.round_isRep m e m' e' hm h
  obtain ⟨hm', _, _⟩ := Dbl.round_fin m e m' e' hm h
  obtain ⟨m'', e'', heq, _, hv⟩ := Dbl.round_idem (.fin m' e') hrep m' e' hm' rfl
  exact ⟨m'', e'', heq, (Dbl.le_iff_val _ _ _ _).2 (le_of_eq hv),
    (Dbl.le_iff_val _ _ _ _).2 (le_of_eq hv.symm)⟩

/-! ### 3. the running sums never decrease -/

/-- all weights are genuine non-negative finite binary64 values, given as Python floats -/
abbrev FloatWeights (ws : List Num) : Prop := Dbl.FloatWeights ws

/-- decimal literals are such weights -/
theorem C03_float_weights_decimal (digits scale : Nat)
    (hfin : (Dbl.ofDecimal false digits scale).isFinite = true) :
    Dbl.NonnegDouble (Dbl.ofDecimal false digits scale) :=
  Dbl.ofDecimal_nonnegDouble digits scale hfin

/-- integer-valued float weights (`C03.floatWeights`) are such weights -/
theorem C03_float_weights_ofNat (k : Nat) (hfin : (Dbl.ofNat k).isFinite = true) :
    Dbl.NonnegDouble (Dbl.ofNat k) :=
  Dbl.ofNat_nonnegDouble k hfin

/-- **`itertools.accumulate` on non-negative float weights is non-decreasing** under the model's
    own `≤`, whenever the last running sum is finite (which forces all of them to be finite). -/
theorem C03_float_cum_sorted (ws cum : List Num) (l : Dbl) (hw : FloatWeights ws)
    (hacc : Choice.accumulate ws = .ok cum) (hlast : cum.getLast? = some (.f l))
    (hfin : l.isFinite = true) :
    ∀ i j, i ≤ j → j < cum.length →
      ∃ ci cj, cum[i]! = .f ci ∧ cum[j]! = .f cj ∧ ci.isFinite = true ∧ cj.isFinite = true ∧
        Dbl.le ci cj = true :=
  Dbl.float_cum_sorted ws cum l hw hacc hlast hfin

/-! ### 4. the partition -/

/-- **Half-open intervals of the rounded cumulative sums, in declared order.**
    Whenever the weighted call returns group `i` on float weights, with `cum` the running sums,
    `t = cum[-1] + 0.0` the total and `x = u·t` the scaled position (`u = h/2^32`, all in binary64):
    `i < n`; every earlier group `j < i` has `x ≥ S_j` (`x < cum[j]` is false); and unless `i` is
    the last group, `x < S_i`.  For the last group `x < S_{n-1}` holds too once `h < 2^32` and the
    total is a normal double — so then `x ∈ [S_{i-1}, S_i)` for every returned `i`. -/
theorem C03_float_partition (ws : List Num) (h n i : Nat) (hw : FloatWeights ws)
    (hres : Choice.choiceIdx (some h) n (some ws) none = .ok (.idx i)) :
    ∃ (cum : List Num) (c t : Dbl), Choice.accumulate ws = .ok cum ∧ cum.length = n ∧
      cum.getLast? = some (.f c) ∧ Num.add (.f c) (.f Dbl.zero) = .ok (.f t) ∧
      i < n ∧
      (∀ j, j < i → Num.dblLt (Dbl.mul (Choice.proba h) t) cum[j]! = false) ∧
      (i < n - 1 → Num.dblLt (Dbl.mul (Choice.proba h) t) cum[i]! = true) ∧
      (h < 2 ^ 32 → Dbl.le (.fin 1 (-1022)) c = true →
        Num.dblLt (Dbl.mul (Choice.proba h) t) (.f c) = true) :=
  Dbl.float_choice_partition ws h n i hw hres

/-- **A group weighted `0.0` is never selected** — first, middle or last.  For the last group
    (`i + 1 = n`) the total must be a normal double, `≥ 2^-1022`; see the counterexample below. -/
theorem C03_float_zero_never (ws cum : List Num) (h n i : Nat) (e : Int) (hh : h < 2 ^ 32)
    (hw : FloatWeights ws) (hacc : Choice.accumulate ws = .ok cum)
    (hz : ws[i]? = some (.f (.fin 0 e)))
    (hnorm : i + 1 = n →
      ∃ c, cum.getLast? = some (.f c) ∧ Dbl.le (.fin 1 (-1022)) c = true) :
    Choice.choiceIdx (some h) n (some ws) none ≠ .ok (.idx i) :=
  Dbl.float_choice_zero_never ws cum h n i e hh hw hacc hz hnorm

/-- the normal-total hypothesis cannot be dropped: with total `2^-1074` the zero-weighted last
    group is returned at the top hash position (CPython agrees: `[5e-324, 0.0]` → second item) -/
theorem C03_float_zero_last_subnormal_selected :
    Choice.choiceIdx (some (2 ^ 32 - 1)) 2
      (some [.f (Dbl.round 1 (-1074)), .f (Dbl.round 0 0)]) none = .ok (.idx 1) := by
  rfl

/-! ### non-vacuity: `0.1` and `0.7` -/

example : FloatWeights [.f (Dbl.ofDecimal false 1 1), .f (Dbl.ofDecimal false 7 1)] := by
  intro w hw'
  simp only [List.mem_cons, List.mem_nil_iff, or_false] at hw'
  rcases hw' with rfl | rfl
  · exact ⟨_, rfl, Dbl.ofDecimal_nonnegDouble 1 1 rfl⟩
  · exact ⟨_, rfl, Dbl.ofDecimal_nonnegDouble 7 1 rfl⟩

example : Choice.choiceIdx (some (2 ^ 29)) 2
    (some [.f (Dbl.ofDecimal false 1 1), .f (Dbl.ofDecimal false 7 1)]) none = .ok (.idx 0) := by
  rfl

example : Choice.choiceIdx (some (2 ^ 32 - 1)) 3
    (some [.f (Dbl.ofDecimal false 1 1), .f (.fin 0 5), .f (Dbl.ofDecimal false 7 1)]) none
      = .ok (.idx 2) := by
  rfl

end Pyab.Properties
