/-
  C11 — evaluator lifecycle: recompile is atomic, repeatable and instance-local.
-/
import Pyab.Spec.Lifecycle
import Pyab.Properties.PurePremise
import Pyab.Proofs.Lifecycle
import Pyab.Generated.Pipeline
import Pyab.Generated.Config
namespace Pyab.Properties
open Pyab Pyab.Spec

/-- **table obligation**: the checksum is stored only after the new text has compiled
    (a failed recompile is not remembered as "already compiled") -/
theorem C11_checksum_after_compile : Generated.pipeline.checksumEarly = false := by decide

/-- **table obligation**: a source is identified by a collision-resistant digest (MD5 / SHA / BLAKE
    family) of its exact UTF-8 text — what makes the `distinct digests` hypothesis below reasonable -/
theorem C11_digest_collision_resistant : Generated.checksumCollisionResistant = true := by decide

/-- **Refinement.** After any sequence of constructions, recompiles with valid or invalid
    text and calls, over any set of evaluators, every operation returns exactly what the
    "last accepted text" specification returns — under the explicit hypothesis that the
    texts occurring in the history have pairwise distinct digests (the code identifies a
    source by its MD5). -/
theorem C11_refinement_history (p : Pipeline) (hce : p.checksumEarly = false) (digest : String → String)
    (ops : List EvOp)
    (hinj : ∀ t1 ∈ textsOf ops, ∀ t2 ∈ textsOf ops, digest t1 = digest t2 → t1 = t2) :
    runHistory p digest [] ops = specHistory p [] ops :=
  (Proofs.history_refines p hce digest (textsOf ops) hinj ops [] []
    (fun _ => Or.inl ⟨rfl, rfl⟩) (fun _ h => h)).symm

/-- the same for the pipeline as it is in /repo now, with MD5 as digest -/
theorem C11_refinement_repo (ops : List EvOp)
    (hinj : ∀ t1 ∈ textsOf ops, ∀ t2 ∈ textsOf ops, md5hex t1 = md5hex t2 → t1 = t2) :
    runHistory Generated.pipeline md5hex [] ops = specHistory Generated.pipeline [] ops :=
  C11_refinement_history _ C11_checksum_after_compile md5hex ops hinj

/-- a failed recompile changes nothing, and the same invalid text raises again — every time -/
theorem C11_invalid_always_raises (p : Pipeline) (w : SpecWorld) (id : Nat) (cur text : String) (e : Err)
    (hcur : w.get id = some cur) (hne : text ≠ cur) (hbad : p.compile text = .error e) :
    specStep p w (.recompile id text) = (w, .err e) ∧
    specStep p (specStep p w (.recompile id text)).1 (.recompile id text) = (w, .err e) := by
  simp [specStep, hcur, hne, hbad]

/-- recompiling the current text is a no-op -/
theorem C11_recompile_same_is_noop (p : Pipeline) (w : SpecWorld) (id : Nat) (cur : String)
    (hcur : w.get id = some cur) : specStep p w (.recompile id cur) = (w, .ok) := by
  simp [specStep, hcur]

/-- no operation on one evaluator affects another -/
theorem C11_instance_local (p : Pipeline) (w : SpecWorld) (op : EvOp) (id id' : Nat) (hne : id ≠ id')
    (hop : match op with | .new i _ => i = id | .recompile i _ => i = id | .call i _ => i = id) :
    (specStep p w op).1.get id' = w.get id' := by
  cases op with
  | new i t =>
      simp only at hop; subst hop
      simp only [specStep]
      cases p.compile t <;> simp [Proofs.spec_get_set, hne]
  | recompile i t =>
      simp only at hop; subst hop
      simp only [specStep]
      cases w.get i with
      | none => rfl
      | some cur =>
          simp only
          split
          · rfl
          · cases p.compile t <;> simp [Proofs.spec_get_set, hne]
  | call i env =>
      simp only [specStep]
      cases w.get i with
      | none => rfl
      | some cur => simp only; cases p.runText cur env <;> rfl

/-- a call never changes any evaluator -/
theorem C11_call_changes_nothing (p : Pipeline) (w : SpecWorld) (id : Nat) (env : Env) :
    (specStep p w (.call id env)).1 = w := by
  simp only [specStep]
  cases w.get id with
  | none => rfl
  | some cur => simp only; cases p.runText cur env <;> rfl

-- non-vacuity: three concrete texts have distinct MD5
example : ∀ t1 ∈ ["a", "b", "def e {"], ∀ t2 ∈ ["a", "b", "def e {"], md5hex t1 = md5hex t2 → t1 = t2 := by
  decide +kernel

end Pyab.Properties
