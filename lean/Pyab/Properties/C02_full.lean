/-
  C02 — entry point of the check: the routing theorems (`C02.lean`) and the end-to-end
  statement for the pipeline regenerated from /repo (`C02_end_to_end.lean`).
-/
import Pyab.Properties.C02
import Pyab.Properties.C02_end_to_end
