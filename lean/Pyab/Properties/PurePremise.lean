/-
  Shared premise of all properties: what the package's own code (every module except the vendored
  sly) computes depends on its arguments only — not on interpreter flags, not on object identity,
  not on the process environment.  The three lists are re-extracted from /repo by the translator
  on every run (Generated/Purity.lean: a syntactic scan, so conservative in one direction only —
  an empty list proves nothing about sly or about C extensions; those are tied by correspondence).
  The failing-input search that belongs to each list: the check re-run under `python -O`; twin
  texts passed as temporaries whose address is recycled; a working directory holding files named
  like the source texts.
-/
import Pyab.Generated.Purity
namespace Pyab.Properties
open Pyab

/-- **table obligation**: the scan saw the package (it is not vacuous) -/
theorem purity_scan_nonempty : 10 ≤ Generated.purityScannedFiles := by decide

/-- **table obligation**: no `assert` and no `__debug__` carries behaviour (`python -O` strips both) -/
theorem no_flag_dependent_statements : Generated.debugDependent = [] := by decide

/-- **table obligation**: nothing is keyed by `id(...)` (addresses are recycled) -/
theorem no_identity_dependence : Generated.identityDependent = [] := by decide

/-- **table obligation**: no module reads the file system, the clock, interpreter state or other
    process-wide facts (the only import from `random` is the documented `choices` fallback) -/
theorem no_ambient_dependence : Generated.ambientDependent = [] := by decide

/-! ### the vendored sly

  sly is not the package's own code, and it does use these constructs — in places that were read once and found harmless:
  four sanity `assert`s (three at class-build time, one in `Lexer.begin` on a class the package passes itself), `id()` as a
  key for LR item sets and reported conflicts while the TABLES ARE BUILT (the objects are kept alive by the tables; nothing is
  keyed by `id()` while lexing or parsing), `import sys` / `inspect` for error reporting and class construction.  The
  obligation pins exactly that set (by stripped source line, so edits elsewhere in sly do not matter): one more `assert`,
  `id()` or ambient import in sly breaks it. -/

def slyDebugBaseline : List String := ["docparse.py: assert hasattr(cls, \"parser\") and hasattr(cls, \"lexer\")", "docparse.py: assert isinstance(parsedict, dict), \"Parser must return a dictionary\"", "lex.py: assert isinstance(cls, LexerMeta), \"state must be a subclass of Lexer\"", "yacc.py: assert self.Productions == ["]
def slyIdentityBaseline : List String := ["yacc.py: already_reported.add((state, id(rule), id(rejected)))", "yacc.py: g = self.lr_goto_cache.get((id(I), x))", "yacc.py: if (state, id(rule), id(rejected)) in already_reported:", "yacc.py: if not g or id(g) in self.lr0_cidhash:", "yacc.py: j = self.lr0_cidhash.get(id(g), -1)", "yacc.py: j = self.lr0_cidhash.get(id(g), -1) # Go to next state", "yacc.py: return self._index_positions[id(value)]", "yacc.py: return self._line_positions[id(value)]", "yacc.py: s1 = s.get(id(n))", "yacc.py: s[id(n)] = s1", "yacc.py: self._index_positions[id(value)] = (sym.index, sym.end)", "yacc.py: self._line_positions[id(value)] = sym.lineno", "yacc.py: self.lr0_cidhash[id(I)] = i", "yacc.py: self.lr0_cidhash[id(g)] = len(C)", "yacc.py: self.lr_goto_cache[(id(I), x)] = g"]
def slyAmbientBaseline : List String := ["ast.py: import sys", "yacc.py: import inspect", "yacc.py: import sys"]

/-- **table obligation**: the vendored sly uses `assert`, `id()` and ambient modules exactly where it did when it was reviewed -/
theorem sly_uses_are_the_reviewed_ones :
    Generated.slyDebugDependent = slyDebugBaseline ∧ Generated.slyIdentityDependent = slyIdentityBaseline ∧
    Generated.slyAmbientDependent = slyAmbientBaseline := by decide

end Pyab.Properties
