/-
  Shared premise of all properties: what the package's own code (every module except the vendored
  sly) computes depends on its arguments only — not on interpreter flags, not on object identity,
  not on the process environment.  The three lists are re-extracted from /repo by the translator
  on every run (Generated/Purity.lean: a syntactic scan, so conservative in one direction only —
  an empty list proves nothing about sly or about C extensions; those are tied by correspondence).
  The failing-input search that belongs to each list: the check re-run under `python -O`; twin
  texts passed as temporaries whose address is recycled; a working directory holding files named
  like the source texts.
-/
import Pyab.Generated.Purity
namespace Pyab.Properties
open Pyab

/-- **table obligation**: the scan saw the package (it is not vacuous) -/
theorem purity_scan_nonempty : 10 ≤ Generated.purityScannedFiles := by decide

/-- **table obligation**: no `assert` and no `__debug__` carries behaviour (`python -O` strips both) -/
theorem no_flag_dependent_statements : Generated.debugDependent = [] := by decide

/-- **table obligation**: nothing is keyed by `id(...)` (addresses are recycled) -/
theorem no_identity_dependence : Generated.identityDependent = [] := by decide

/-- **table obligation**: no module reads the file system, the clock, interpreter state or other
    process-wide facts (the only import from `random` is the documented `choices` fallback) -/
theorem no_ambient_dependence : Generated.ambientDependent = [] := by decide

end Pyab.Properties
