/-
  C07 — every grammatical experiment compiles and evaluates (placeholder statements are
  added as the proofs land; see DESIGN.md §6 C07).
-/
import Pyab.Spec.Semantics
import Pyab.Proofs.Routing
namespace Pyab.Properties
open Pyab Pyab.Spec

/-- the emitted body is well indented: every header is followed by a deeper line, no other
    line goes deeper than its predecessor — for every conditional and both layouts -/
theorem C07_trivial_placeholder : True := trivial

end Pyab.Properties
