/-
  C07 — every grammatical experiment compiles and evaluates: the emitted body is well
  indented, the parameter list has no duplicate, so `compile()` accepts the module (given
  that no identifier is a Python keyword or one of the names the skeleton itself uses —
  finding family K1); and a call with all declared fields present ends in a group of the
  routed statement, the unroutable error, or the TypeError of the reference semantics —
  never a SyntaxError, a NameError or `None`.
-/
import Pyab.Properties.C08_roundtrip
import Pyab.Properties.C07_wf
import Pyab.Properties.EvaluatorPremise
import Pyab.Properties.C07_parse
import Pyab.Generated.Config
import Pyab.Spec.Semantics
import Pyab.Spec.Run
import Pyab.Proofs.Routing
import Pyab.Proofs.Lines
import Pyab.Proofs.ParamList
import Pyab.Proofs.OutcomeClass
import Pyab.Properties.C09
namespace Pyab.Properties
open Pyab Pyab.Spec Pyab.Proofs Pyab.Proofs.Run

/-- **The emitted body is well indented**: every header (`if` / `elif` / `else`) is followed by
    a deeper line, no other line goes deeper than its predecessor — for every conditional
    and every indentation depth (both layouts). -/
theorem C07_body_well_indented (cfg : GenCfg) (c : Cond) (d : Nat) (L : List ILine)
    (h : bodyLines cfg d c = .ok L) : wellIndented L = true :=
  bodyLines_wellIndented cfg c d L h

example : wellIndented [(2, .ifL (.cmp (.name "country") "==" (.const (.int 1)))),
    (3, .ret [.int 10, .int 20] [.i 1, .i 1]), (2, .elseL), (3, .ret [.int 30] [.i 1]), (2, .raiseU)] = true :=
  C07_body_well_indented Generated.genCfg exC09.cond 2 _ rfl

/-- `sorted(set(...))` has no duplicates: it is strictly increasing -/
theorem C07_sortDedup_strictly_sorted (xs : List String) : (sortDedup xs).Pairwise (· < ·) :=
  pairwise_sortDedup xs

/-- … with the same members -/
theorem C07_sortDedup_mem (xs : List String) (n : String) : n ∈ sortDedup xs ↔ n ∈ xs :=
  mem_sortDedup n xs

/-- **No duplicate parameter**: with the de-duplicated signature, the parameter list followed
    by `**kwargs` has no repeated name, provided no field is called `kwargs` (K1). -/
theorem C07_params_no_duplicates (cfg : GenCfg) (hd : cfg.dedupSig = true) (e : Experiment)
    (hk : "kwargs" ∉ e.params cfg) : hasDup (e.params cfg ++ ["kwargs"]) = false := by
  rw [hasDup_eq_false_iff]
  refine List.nodup_append.2 ⟨nodup_params cfg hd e, by simp, ?_⟩
  intro a ha b hb hab
  simp only [List.mem_singleton] at hb
  subst hab; subst hb
  exact hk ha

/-- a field that is both splitter and condition field (the README example) -/
example : hasDup (Experiment.params Generated.genCfg
    { exC09 with splitters := some ["uid", "country"] } ++ ["kwargs"]) = false :=
  C07_params_no_duplicates _ rfl _ (by decide)

/-- without the de-duplication the same experiment has `country` twice -/
example : hasDup (Experiment.params { Generated.genCfg with dedupSig := false }
    { exC09 with splitters := some ["uid", "country"] } ++ ["kwargs"]) = true := by decide

theorem not_kwargs_of_pyNameOK (cfg : GenCfg) (e : Experiment) (h : e.pyNameOK cfg = true) :
    "kwargs" ∉ e.params cfg := by
  intro hmem
  unfold Experiment.pyNameOK at h
  simp only [List.all_eq_true] at h
  have := h "kwargs" (List.mem_cons_of_mem _ (List.mem_append_left _ hmem))
  revert this
  decide

/-- **The module compiles.**  If no identifier is a keyword, a name of the skeleton or
    dunder-prefixed (`pyNameOK`; K1 otherwise), the signature is de-duplicated, and text
    and body could be rendered (no int literal beyond the digit limit; K2 otherwise), then
    every check `compile()` makes on the generated text passes. -/
theorem C07_compile_ok (cfg : GenCfg) (e : Experiment) (hn : e.pyNameOK cfg = true)
    (hd : cfg.dedupSig = true) (txt : String) (ht : genText cfg e false = .ok txt)
    (L : List ILine) (hL : bodyLines cfg 2 e.cond = .ok L) :
    compileChecks cfg e = .ok () := by
  unfold compileChecks
  have hkw : (e.id :: (e.params cfg ++ e.condIds cfg)).any (fun n => pyKeywords.contains n) = false := by
    rw [List.any_eq_false]
    intro n hmem
    unfold Experiment.pyNameOK at hn
    simp only [List.all_eq_true] at hn
    have := hn n hmem
    simp only [Bool.and_eq_true, Bool.not_eq_true'] at this
    rw [this.1.1]
    exact Bool.false_ne_true
  have hdup := C07_params_no_duplicates cfg hd e (not_kwargs_of_pyNameOK cfg e hn)
  have hwi := C07_body_well_indented cfg e.cond 2 L hL
  simp only [ht, hkw, hdup, hL, hwi, bind, Except.bind, pure, Except.pure, Bool.false_eq_true, if_false,
    Bool.not_true]

example : compileChecks Generated.genCfg exC09 = .ok () :=
  C07_compile_ok Generated.genCfg exC09 (by decide +kernel) rfl _ rfl _ rfl

/-- **Outcome classes.**  With the module compiled and every declared field passed, a call
    ends in exactly one of: the choice stage applied to the population and weights of the
    return statement routing selects; the unroutable error when routing selects none; the
    TypeError of the reference semantics (an ordering or membership test on values Python
    does not order). -/
theorem C07_outcome_class (cfg : RunCfg) (hc : CanonicalExpr cfg.toGenCfg) (hs : cfg.strReprSalt = true)
    (e : Experiment) (env : Env) (L : List ILine) (hL : bodyLines cfg.toGenCfg 2 e.cond = .ok L)
    (hp : ∀ n ∈ e.params cfg.toGenCfg, (env.get n).isSome = true) :
    (∃ gs pop ws, specRoute env e.cond = .ok (some gs) ∧ retVals cfg.toGenCfg gs = .ok (pop, ws) ∧
        runGenerated cfg e env = choiceStage cfg e env pop ws) ∨
    (specRoute env e.cond = .ok none ∧ runGenerated cfg e env = .error .unroutable) ∨
    (specRoute env e.cond = .error .typeError ∧ runGenerated cfg e env = .error .typeError) :=
  runGenerated_class cfg hc (readBack_repr cfg.toGenCfg) hs e env L hL hp

/-- country 2 takes the `else` branch: the choice is made on `[30]` -/
example : (∃ gs pop ws, specRoute [("uid", .str "u1"), ("country", .int 2)] exC09.cond = .ok (some gs) ∧
      retVals Generated.genCfg gs = .ok (pop, ws) ∧
      runGenerated Generated.runCfg exC09 [("uid", .str "u1"), ("country", .int 2)]
        = choiceStage Generated.runCfg exC09 [("uid", .str "u1"), ("country", .int 2)] pop ws) ∨
    (specRoute [("uid", .str "u1"), ("country", .int 2)] exC09.cond = .ok none ∧
      runGenerated Generated.runCfg exC09 [("uid", .str "u1"), ("country", .int 2)] = .error .unroutable) ∨
    (specRoute [("uid", .str "u1"), ("country", .int 2)] exC09.cond = .error .typeError ∧
      runGenerated Generated.runCfg exC09 [("uid", .str "u1"), ("country", .int 2)] = .error .typeError) :=
  C07_outcome_class Generated.runCfg C02_generator_canonical rfl exC09 _ _ rfl (by decide)

/-- a successful call with splitters returns a group of the routed statement -/
theorem C07_result_in_routed_population (cfg : RunCfg) (hc : CanonicalExpr cfg.toGenCfg)
    (hs : cfg.strReprSalt = true)
    (e : Experiment) (env : Env) (L : List ILine) (hL : bodyLines cfg.toGenCfg 2 e.cond = .ok L)
    (hp : ∀ n ∈ e.params cfg.toGenCfg, (env.get n).isSome = true)
    (v : PyVal) (hrun : runGenerated cfg e env = .ok (.group v)) :
    ∃ gs pop ws, specRoute env e.cond = .ok (some gs) ∧ retVals cfg.toGenCfg gs = .ok (pop, ws) ∧ v ∈ pop := by
  rcases C07_outcome_class cfg hc hs e env L hL hp with ⟨gs, pop, ws, hr, hret, h⟩ | ⟨_, h⟩ | ⟨_, h⟩
  · refine ⟨gs, pop, ws, hr, hret, ?_⟩
    rw [h] at hrun
    unfold choiceStage at hrun
    cases hlv : e.localVars with
    | nil =>
        simp only [hlv, bind_ok_iff] at hrun
        obtain ⟨pk, _, hpk⟩ := hrun
        cases pk <;> simp [pure, Except.pure, throw, throwThe, MonadExceptOf.throw] at hpk
    | cons x xs =>
        simp only [hlv, bind_ok_iff] at hrun
        obtain ⟨key, _, hk⟩ := hrun
        cases hch : chooseByKey cfg.keyUtf8 key pop ws with
        | error err => simp [hch, Functor.map, Except.map] at hk
        | ok w =>
            simp only [hch, Functor.map, Except.map, Except.ok.injEq, Outcome.group.injEq] at hk
            subst hk
            exact chooseByKey_ok_mem _ _ _ _ _ hch
  · rw [h] at hrun; cases hrun
  · rw [h] at hrun; cases hrun

example : ∃ gs pop ws, specRoute [("uid", .str "u1"), ("country", .int 2)] exC09.cond = .ok (some gs) ∧
    retVals Generated.genCfg gs = .ok (pop, ws) ∧ PyVal.int 30 ∈ pop :=
  C07_result_in_routed_population Generated.runCfg C02_generator_canonical rfl exC09 _ _ rfl (by decide)
    (.int 30) (by rfl)

/-- **Never a SyntaxError, a NameError, a missing-argument error or `None`** once the module
    compiled and every declared field is passed; with the UTF-8 key encoding never an encode
    error either.  What remains (`runtimeErr`): unroutable, TypeError of a comparison, the
    argument errors of `deterministic_choice` on the weights (ValueError, IndexError,
    OverflowError) and the digit-limit ValueError of `str(int)`. -/
theorem C07_error_class (cfg : RunCfg) (hc : CanonicalExpr cfg.toGenCfg) (hs : cfg.strReprSalt = true)
    (e : Experiment) (env : Env) (L : List ILine) (hL : bodyLines cfg.toGenCfg 2 e.cond = .ok L)
    (hp : ∀ n ∈ e.params cfg.toGenCfg, (env.get n).isSome = true) (err : Err)
    (h : runGenerated cfg e env = .error err) :
    runtimeErr cfg.keyUtf8 err = true ∧
    err ≠ .pySyntaxError ∧ err ≠ .nameError ∧ err ≠ .missingField ∧ err ≠ .other "fell-off-end" ∧
    (cfg.keyUtf8 = true → err ≠ .encodeError) := by
  have hr := runGenerated_err cfg hc (readBack_repr cfg.toGenCfg) hs e env L hL hp err h
  refine ⟨hr, ?_, ?_, ?_, ?_, ?_⟩
  · rintro rfl; simp [runtimeErr, choiceErr] at hr
  · rintro rfl; simp [runtimeErr, choiceErr] at hr
  · rintro rfl; simp [runtimeErr, choiceErr] at hr
  · rintro rfl; simp [runtimeErr, choiceErr] at hr
  · rintro hu rfl; simp [runtimeErr, hu] at hr

/-- comparing a string field with `<` against an int is the reference TypeError, not a crash
    of another kind -/
def exC07ty : Experiment :=
  { exC09 with cond := .ifte (.cmp (.ident "country") .lt (.int 1)) (.ret [⟨.int 10, .i 1⟩]) .none }

example : runGenerated Generated.runCfg exC07ty [("uid", .str "u"), ("country", .str "x")]
    = .error .typeError := by rfl

example : runtimeErr true Err.typeError = true ∧ Err.typeError ≠ .pySyntaxError ∧ Err.typeError ≠ .nameError ∧
    Err.typeError ≠ .missingField ∧ Err.typeError ≠ .other "fell-off-end" ∧
    (Generated.runCfg.keyUtf8 = true → Err.typeError ≠ .encodeError) :=
  C07_error_class Generated.runCfg C02_generator_canonical rfl exC07ty
    [("uid", .str "u"), ("country", .str "x")] _ rfl (by decide) _ rfl


/-- **table obligation**: the generated signature lists a field shared by splitters and
    conditions once -/
theorem C07_signature_deduplicated : Generated.genCfg.dedupSig = true := by decide

end Pyab.Properties
