/-
  C17 — concurrent compilation and evaluation are thread-safe.

  Statements only; the model is `Pyab/Model/Sched.lean` (an abstract shared-memory machine:
  any number of threads, one atomic instruction per schedule entry, schedules = arbitrary
  `List Tid`), the proofs are in `Pyab/Proofs/Sched.lean`.

  What is logic here is the *ownership discipline* that makes the Python code safe:

  * `parse_source` (utils/wraper_functions.py) allocates a fresh `ExperimentLexer()` and a
    fresh `ExperimentParser()` on every call and passes them nowhere else; `PythonCodeGen(…)`
    is constructed per call; in `ExperimentEvaluator.recompile` the dictionary `code_holder`
    is a local.  All state the compile pipeline reads or writes is therefore reachable only
    from the calling thread: in the model these are `Loc.priv t _` locations and the pipeline
    is a program satisfying `Owns t`.
  * `recompile` installs the compiled function with ONE attribute store
    `setattr(self, "run_experiment", fn)` after `fn` has been completely built in
    `code_holder`; `__call__` reads it with ONE attribute load `self.run_experiment` and then
    runs the loaded function on its own arguments.  In the model the attribute is the shared
    location `fnLoc`, the recompiler is a thread satisfying `PublishesOnly new`, and a call is
    a thread `load reg fnLoc :: rest` with `Owns c rest`.
  * `self._checksum` is read at the start and written at the end of `recompile` only; with a
    single recompiling thread it is one of that thread's locations, with several concurrent
    recompiles of one evaluator it is a racy shared read that only decides *whether* the
    thread compiles — the `pubSafe` alternative of `PublishesOnly` covers exactly that.
-/
import Pyab.Properties.C17_effects
import Pyab.Properties.PurePremise
import Pyab.Model.Sched
import Pyab.Proofs.Sched
namespace Pyab.Properties
open Pyab.Sched

/-! ## non-interference: compilation / construction -/

/-- **Non-interference.**  Thread `t` (a construction `ExperimentEvaluator(src)`, a `recompile`
    up to its publishing store, or the evaluation of a call after its one load) loads and
    stores only `priv t _` locations: the fresh `ExperimentLexer()`/`ExperimentParser()` of
    `parse_source`, the per-call `PythonCodeGen`, the local `code_holder`, its own arguments.
    The other threads — any number, running any programs — never store to a `priv t _`
    location (they hold no reference to those objects).  Then for EVERY schedule in which `t`
    gets to run to completion, `t`'s final registers are exactly those of running `t` alone,
    and every `priv t _` location holds exactly the value it holds after running `t` alone:
    every construction yields the evaluator it would yield alone, every call returns what the
    same call returns sequentially. -/
theorem C17_noninterference (t : Tid) (mem : Mem) (ths : List ThreadState) (th : ThreadState)
    (ht : ths[t]? = some th) (hown : Owns t th.prog = true)
    (hothers : ∀ j th', j ≠ t → ths[j]? = some th' → NoStoreTo t th'.prog = true)
    (sched : List Tid) (hfair : th.prog.length ≤ sched.count t) :
    EndsAs t (runSched (mem, ths) sched) (runAlone mem th) :=
  noninterference t mem ths th ht hown hothers sched hfair

/-- the same at every intermediate point: after any schedule (complete or not) thread `t` is
    exactly where it is after the same number of its own steps alone.  Only `t`'s *loads*
    need to be private here; its stores may go anywhere. -/
theorem C17_noninterference_prefix (t : Tid) (mem : Mem) (ths : List ThreadState)
    (th : ThreadState) (ht : ths[t]? = some th) (hown : ReadsOwn t th.prog = true)
    (hothers : ∀ j th', j ≠ t → ths[j]? = some th' → NoStoreTo t th'.prog = true)
    (sched : List Tid) :
    EndsAs t (runSched (mem, ths) sched) (stepsAlone (sched.count t) (mem, th)) :=
  noninterference_steps t mem ths th ht hown hothers sched

/-- symmetric form: when every thread `i` touches only `priv i _` (many threads constructing
    evaluators at once), every thread that runs to completion ends exactly as alone -/
theorem C17_noninterference_all (mem : Mem) (ths : List ThreadState)
    (hall : ∀ i th, ths[i]? = some th → Owns i th.prog = true) (sched : List Tid)
    (t : Tid) (th : ThreadState) (ht : ths[t]? = some th)
    (hfair : th.prog.length ≤ sched.count t) :
    EndsAs t (runSched (mem, ths) sched) (runAlone mem th) :=
  noninterference_symmetric mem ths hall sched t th ht hfair

/-! ## atomic publication: a call racing with `recompile` -/

/-- **Old or new, never a mixture.**  `fnLoc` is `self.run_experiment`, holding `old`.
    Thread `r` is a `recompile`: it installs only `new` (`PublishesOnly`: it builds the function
    from private state and stores it with `setattr(self, "run_experiment", fn)`).  No other
    thread stores to `fnLoc`, and no thread stores into another thread's private locations.
    Thread `c` is a call `self.run_experiment(**kwargs)`: ONE load of `fnLoc`, then a
    computation on its own private state.  Then for EVERY schedule that lets the call finish,
    the call ends exactly as the sequential call against the old function, or exactly as the
    sequential call against the new function. -/
theorem C17_publish_atomic (old new : Val) (mem : Mem) (ths : List ThreadState)
    (r : Tid) (thr : ThreadState) (hold : mem fnLoc = old) (hpriv : PrivRespected ths)
    (hr : ths[r]? = some thr) (hrw : PublishesOnly new r mem thr)
    (hothers : ∀ j th, j ≠ r → ths[j]? = some th → NoStoreLoc fnLoc th.prog = true)
    (c : Tid) (thc : ThreadState) (reg : Nat) (rest : List Instr)
    (hc : ths[c]? = some thc) (hp : thc.prog = .load reg fnLoc :: rest)
    (hrest : Owns c rest = true) (sched : List Tid) (hfair : thc.prog.length ≤ sched.count c) :
    EndsAs c (runSched (mem, ths) sched) (runAlone mem thc) ∨
    EndsAs c (runSched (mem, ths) sched) (runAlone (setMem mem fnLoc new) thc) :=
  publish_atomic old new mem ths r thr hold hpriv hr (robust_of_publishesOnly hrw) hothers
    c thc reg rest hc hp hrest sched hfair

/-- under the same hypotheses: at every point of every schedule `self.run_experiment` is the
    old or the new function, and every load of it — by any thread, at any time — returns the
    old or the new function (never an error, never a half-installed value) -/
theorem C17_publish_atomic_load (old new : Val) (mem : Mem) (ths : List ThreadState)
    (r : Tid) (thr : ThreadState) (hold : mem fnLoc = old) (hpriv : PrivRespected ths)
    (hr : ths[r]? = some thr) (hrw : PublishesOnly new r mem thr)
    (hothers : ∀ j th, j ≠ r → ths[j]? = some th → NoStoreLoc fnLoc th.prog = true)
    (sched : List Tid) :
    ((runSched (mem, ths) sched).1 fnLoc = old ∨ (runSched (mem, ths) sched).1 fnLoc = new) ∧
    ∀ (c : Tid) (th : ThreadState) (reg : Nat) (rest : List Instr),
      (runSched (mem, ths) sched).2[c]? = some th → th.prog = .load reg fnLoc :: rest →
      ∃ th', (runSched (mem, ths) (sched ++ [c])).2[c]? = some th' ∧ th'.prog = rest ∧
        (th'.regs reg = old ∨ th'.regs reg = new) :=
  ⟨publish_atomic_value old new mem ths r thr hold hpriv hr (robust_of_publishesOnly hrw) hothers sched,
   fun c th reg rest hc hp =>
    publish_atomic_load old new mem ths r thr hold hpriv hr (robust_of_publishesOnly hrw) hothers
      sched c th reg rest hc hp⟩

/-- **Publish happens-before call ⇒ new.**  If the schedule is `s1 ++ s2`, the recompile runs to
    completion within `s1` and the call starts only in `s2`, the call ends exactly as the
    sequential call against the new function.  (`hrfinal`: run alone, `recompile` leaves `new`
    in `self.run_experiment`.) -/
theorem C17_publish_atomic_ordered (new : Val) (mem : Mem) (ths : List ThreadState) (r : Tid)
    (thr : ThreadState) (hpriv : PrivRespected ths)
    (hr : ths[r]? = some thr) (hrown : ReadsOwn r thr.prog = true)
    (hrfinal : (runAlone mem thr).1 fnLoc = new)
    (hothers : ∀ j th, j ≠ r → ths[j]? = some th → NoStoreLoc fnLoc th.prog = true)
    (c : Tid) (thc : ThreadState) (reg : Nat) (rest : List Instr)
    (hc : ths[c]? = some thc) (hp : thc.prog = .load reg fnLoc :: rest)
    (hrest : Owns c rest = true) (s1 s2 : List Tid)
    (hrdone : thr.prog.length ≤ s1.count r) (hcns : c ∉ s1)
    (hfair : thc.prog.length ≤ s2.count c) :
    EndsAs c (runSched (mem, ths) (s1 ++ s2)) (runAlone (setMem mem fnLoc new) thc) :=
  publish_atomic_ordered new mem ths r thr hpriv hr hrown hrfinal hothers c thc reg rest hc hp
    hrest s1 s2 hrdone hcns hfair

/-- the literal program shape of `recompile`: a straight-line prefix `pre` that touches only
    `priv r _` (parse, generate, `exec` into the local `code_holder`) and — alone — leaves `new`
    in register `reg`, followed by exactly one store `setattr(self, "run_experiment", fn)`.
    Such a thread satisfies the hypotheses `hrw` / `hrown` / `hrfinal` used above. -/
theorem C17_build_then_store (r : Tid) (mem : Mem) (regs : Regs) (pre : List Instr) (reg : Nat)
    (new : Val) (hown : Owns r pre = true) (hjf : JumpFree pre = true)
    (hnew : (runAlone mem ⟨pre, regs⟩).2.regs reg = new) :
    ReadsOwn r (pre ++ [.store fnLoc reg]) = true ∧
    RobustWrites fnLoc (fun v => v = new) r mem ⟨pre ++ [.store fnLoc reg], regs⟩ ∧
    (runAlone mem ⟨pre ++ [.store fnLoc reg], regs⟩).1 fnLoc = new :=
  ⟨readsOwn_publish_shape r fnLoc reg pre hown,
   robust_of_readsOwn (readsOwn_publish_shape r fnLoc reg pre hown)
     (writesOnly_publish_shape r fnLoc rfl reg new pre mem regs hown hjf hnew),
   final_publish_shape fnLoc reg new pre mem regs hjf hnew⟩

/-- **Two concurrent recompiles of one evaluator.**  Threads `r1`, `r2` install `new1`, `new2`
    (each `PublishesOnly`; their `self._checksum` test may race — `pubSafe`).  Every call ends
    exactly as the sequential call against `old`, against `new1`, or against `new2`; and
    `self.run_experiment` always holds one of the three. -/
theorem C17_publish_atomic_two_writers (old new1 new2 : Val) (mem : Mem)
    (ths : List ThreadState) (r1 r2 : Tid) (th1 th2 : ThreadState)
    (hold : mem fnLoc = old) (hpriv : PrivRespected ths)
    (h1 : ths[r1]? = some th1) (h2 : ths[r2]? = some th2)
    (hw1 : PublishesOnly new1 r1 mem th1) (hw2 : PublishesOnly new2 r2 mem th2)
    (hothers : ∀ j th, j ≠ r1 → j ≠ r2 → ths[j]? = some th → NoStoreLoc fnLoc th.prog = true)
    (sched : List Tid) :
    ((runSched (mem, ths) sched).1 fnLoc = old ∨ (runSched (mem, ths) sched).1 fnLoc = new1 ∨
      (runSched (mem, ths) sched).1 fnLoc = new2) ∧
    ∀ (c : Tid) (thc : ThreadState) (reg : Nat) (rest : List Instr),
      ths[c]? = some thc → thc.prog = .load reg fnLoc :: rest → Owns c rest = true →
      thc.prog.length ≤ sched.count c →
      EndsAs c (runSched (mem, ths) sched) (runAlone mem thc) ∨
      EndsAs c (runSched (mem, ths) sched) (runAlone (setMem mem fnLoc new1) thc) ∨
      EndsAs c (runSched (mem, ths) sched) (runAlone (setMem mem fnLoc new2) thc) :=
  ⟨publish_atomic_two_writers_value old new1 new2 mem ths r1 r2 th1 th2 hold hpriv h1 h2
      (robust_of_publishesOnly hw1) (robust_of_publishesOnly hw2) hothers sched,
   fun c thc reg rest hc hp hrest hfair =>
    publish_atomic_two_writers old new1 new2 mem ths r1 r2 th1 th2 hold hpriv h1 h2
      (robust_of_publishesOnly hw1) (robust_of_publishesOnly hw2) hothers c thc reg rest hc hp
      hrest sched hfair⟩

/-- the most general form behind all of the above: any location `g`, any set `S` of allowed
    values, any number of writers, each only required to store values of `S` to `g` whatever
    the others do -/
theorem C17_shared_invariant (g : Loc) (S : Val → Prop) (mem : Mem) (ths : List ThreadState)
    (hinit : S (mem g)) (hpriv : PrivRespected ths)
    (hthr : ∀ i th, ths[i]? = some th → RobustWrites g S i mem th) (sched : List Tid) :
    S ((runSched (mem, ths) sched).1 g) :=
  shared_invariant g S (mem, ths) hinit hpriv hthr sched

/-! ## the hypotheses are satisfiable: concrete thread pools -/

namespace C17Examples

def zeroRegs : Regs := fun _ => 0
def zeroMem : Mem := fun _ => 0

/-- thread 0: a "compile" — computes 5 + 5 through its private memory -/
def compile0 : ThreadState := ⟨[.const 0 5, .store (.priv 0 0) 0, .load 1 (.priv 0 0),
  .op 2 (· + ·) 0 1, .store (.priv 0 1) 2], zeroRegs⟩
/-- thread 1: another private computation -/
def compile1 : ThreadState := ⟨[.const 0 7, .store (.priv 1 0) 0, .load 3 (.priv 1 0)], zeroRegs⟩
/-- thread 2: hostile — hammers shared memory and even *reads* thread 0's private location -/
def noisy2 : ThreadState := ⟨[.load 0 (.shared 3), .store (.shared 3) 0, .load 1 (.priv 0 0),
  .store (.shared 4) 1, .jz 0 1, .store (.shared 5) 1], zeroRegs⟩

def pool1 : List ThreadState := [compile0, compile1, noisy2]
def sched1 : List Tid := [2, 0, 1, 0, 2, 9, 0, 0, 1, 2, 0, 2, 1, 2]

example : Owns 0 compile0.prog = true := by decide
example : compile0.prog.length ≤ sched1.count 0 := by decide

theorem pool1_others : ∀ j th', j ≠ 0 → pool1[j]? = some th' → NoStoreTo 0 th'.prog = true := by
  intro j th' hj h
  match j, hj, h with
  | 1, _, h => cases h; decide
  | 2, _, h => cases h; decide
  | n+3, _, h => simp [pool1] at h

/-- instance of `C17_noninterference`: under the concrete interleaving `sched1`, with a thread
    reading its private data behind its back, thread 0 ends as alone … -/
example : EndsAs 0 (runSched (zeroMem, pool1) sched1) (runAlone zeroMem compile0) :=
  C17_noninterference 0 zeroMem pool1 compile0 rfl (by decide) pool1_others sched1 (by decide)

/-- … i.e. with 10 in register 2 and in `priv 0 1` (checked both through the theorem's
    right-hand side and by directly executing the interleaving) -/
example : (runAlone zeroMem compile0).2.regs 2 = 10 ∧ (runAlone zeroMem compile0).1 (.priv 0 1) = 10 := by
  decide
example : ((runSched (zeroMem, pool1) sched1).2[0]?.map (·.regs 2)) = some 10 ∧
    (runSched (zeroMem, pool1) sched1).1 (.priv 0 1) = 10 := by decide

/-- and for every schedule whatsoever that schedules thread 0 five times -/
example (sched : List Tid) (h : 5 ≤ sched.count 0) :
    EndsAs 0 (runSched (zeroMem, pool1) sched) (runAlone zeroMem compile0) :=
  C17_noninterference 0 zeroMem pool1 compile0 rfl (by decide) pool1_others sched h

/-! ### publication -/

/-- memory with the old function (encoded 7) installed -/
def mem7 : Mem := fun l => if l = fnLoc then 7 else 0

/-- thread 0: `recompile` — builds 42 = 20 + 22 in private memory, then ONE store to `fnLoc` -/
def recompiler : ThreadState := ⟨[.const 0 20, .const 1 22, .op 2 (· + ·) 0 1,
  .store (.priv 0 0) 2, .load 3 (.priv 0 0)] ++ [.store fnLoc 3], zeroRegs⟩
/-- thread 1: `__call__` — ONE load of `fnLoc`, then "applies" the function: result = fn + 1 -/
def callerAt (t : Tid) : ThreadState := ⟨[.load 0 fnLoc, .const 1 1, .op 2 (· + ·) 0 1,
  .store (.priv t 0) 2], zeroRegs⟩
def caller : ThreadState := callerAt 1
/-- thread 2: a bystander reading the evaluator and writing elsewhere -/
def bystander : ThreadState := ⟨[.load 0 fnLoc, .store (.shared 1) 0], zeroRegs⟩

def pool2 : List ThreadState := [recompiler, caller, bystander]

theorem pool2_priv : PrivRespected pool2 := privRespected_of_wellScoped (by decide)

theorem pool2_others : ∀ j th, j ≠ 0 → pool2[j]? = some th → NoStoreLoc fnLoc th.prog = true := by
  intro j th hj h
  match j, hj, h with
  | 1, _, h => cases h; decide
  | 2, _, h => cases h; decide
  | n+3, _, h => simp [pool2] at h

example : storesAlone fnLoc mem7 recompiler = [42] := by decide
theorem recompiler_publishes : PublishesOnly 42 0 mem7 recompiler := by decide

/-- instance of `C17_publish_atomic`: for EVERY schedule that lets the caller finish, the call
    ends as the sequential call with the old function or with the new one … -/
theorem pool2_old_or_new (sched : List Tid) (h : 4 ≤ sched.count 1) :
    EndsAs 1 (runSched (mem7, pool2) sched) (runAlone mem7 caller) ∨
    EndsAs 1 (runSched (mem7, pool2) sched) (runAlone (setMem mem7 fnLoc 42) caller) :=
  C17_publish_atomic 7 42 mem7 pool2 0 recompiler rfl pool2_priv rfl recompiler_publishes
    pool2_others 1 caller 0 _ rfl rfl (by decide) sched h

/-- … i.e. its result register holds 8 = old + 1 or 43 = new + 1, nothing else -/
example (sched : List Tid) (h : 4 ≤ sched.count 1) :
    ∃ th, (runSched (mem7, pool2) sched).2[1]? = some th ∧ (th.regs 2 = 8 ∨ th.regs 2 = 43) := by
  rcases pool2_old_or_new sched h with ⟨e, _⟩ | ⟨e, _⟩
  · exact ⟨_, e, Or.inl (by decide)⟩
  · exact ⟨_, e, Or.inr (by decide)⟩

/-- both outcomes occur: a concrete interleaving where the call loads before the publishing
    store, and one where it loads after it -/
example : ((runSched (mem7, pool2) [0, 0, 1, 0, 2, 0, 0, 1, 0, 1, 2, 1]).2[1]?.map (·.regs 2)) = some 8 := by
  decide
example : ((runSched (mem7, pool2) [0, 0, 0, 2, 0, 0, 0, 1, 1, 2, 1, 1]).2[1]?.map (·.regs 2)) = some 43 := by
  decide

/-- instance of `C17_publish_atomic_ordered` (the recompiler's six steps all precede the call) -/
example (s1 s2 : List Tid) (h1 : 6 ≤ s1.count 0) (hc : 1 ∉ s1) (h2 : 4 ≤ s2.count 1) :
    EndsAs 1 (runSched (mem7, pool2) (s1 ++ s2)) (runAlone (setMem mem7 fnLoc 42) caller) :=
  C17_publish_atomic_ordered 42 mem7 pool2 0 recompiler pool2_priv rfl (by decide) (by decide)
    pool2_others 1 caller 0 _ rfl rfl (by decide) s1 s2 h1 hc h2

/-- the recompiler has the literal "private prefix ++ one store" shape of `C17_build_then_store` -/
example : RobustWrites fnLoc (fun v => v = 42) 0 mem7 recompiler :=
  (C17_build_then_store 0 mem7 zeroRegs _ 3 42 (by decide) (by decide) (by decide)).2.1

/-! ### two recompilers racing on `self._checksum` -/

/-- `self._checksum` -/
def ckLoc : Loc := .shared 1

/-- `recompile(src)` with digest `d` installing `fn`: load the (racy) checksum, compare,
    skip everything if equal, else install `fn` with one store and remember the digest -/
def ckRecompiler (d fn : Val) : ThreadState :=
  ⟨[.load 0 ckLoc, .const 1 d, .op 2 (fun a b => if a = b then 0 else 1) 0 1, .jz 2 3,
    .const 3 fn, .store fnLoc 3, .store ckLoc 1], zeroRegs⟩

def pool3 : List ThreadState := [ckRecompiler 11 42, ckRecompiler 12 99, callerAt 2, callerAt 3]

theorem pool3_priv : PrivRespected pool3 := privRespected_of_wellScoped (by decide)

theorem pool3_others : ∀ j th, j ≠ 0 → j ≠ 1 → pool3[j]? = some th →
    NoStoreLoc fnLoc th.prog = true := by
  intro j th h0 h1 h
  match j, h0, h1, h with
  | 2, _, _, h => cases h; decide
  | 3, _, _, h => cases h; decide
  | n+4, _, _, h => simp [pool3] at h

/-- instance of `C17_publish_atomic_two_writers`: every schedule, both callers -/
example (sched : List Tid) :
    ((runSched (mem7, pool3) sched).1 fnLoc = 7 ∨ (runSched (mem7, pool3) sched).1 fnLoc = 42 ∨
      (runSched (mem7, pool3) sched).1 fnLoc = 99) :=
  (C17_publish_atomic_two_writers 7 42 99 mem7 pool3 0 1 _ _ rfl pool3_priv rfl rfl
    (by decide) (by decide) pool3_others sched).1

example (sched : List Tid) (h : 4 ≤ sched.count 3) :
    EndsAs 3 (runSched (mem7, pool3) sched) (runAlone mem7 (callerAt 3)) ∨
    EndsAs 3 (runSched (mem7, pool3) sched) (runAlone (setMem mem7 fnLoc 42) (callerAt 3)) ∨
    EndsAs 3 (runSched (mem7, pool3) sched) (runAlone (setMem mem7 fnLoc 99) (callerAt 3)) :=
  (C17_publish_atomic_two_writers 7 42 99 mem7 pool3 0 1 _ _ rfl pool3_priv rfl rfl
    (by decide) (by decide) pool3_others sched).2 3 (callerAt 3) 0 _ rfl rfl (by decide) h

/-- a concrete race: both recompilers pass the checksum test before either publishes; the
    last publish wins, caller 2 sees 42 and caller 3 sees 99 -/
example :
    let fin := runSched (mem7, pool3) [0, 1, 0, 1, 0, 1, 0, 1, 0, 0, 2, 2, 2, 2, 1, 1, 1, 0, 3, 3, 3, 3]
    fin.2[2]?.map (·.regs 2) = some 43 ∧ fin.2[3]?.map (·.regs 2) = some 100 ∧ fin.1 fnLoc = 99 := by
  decide

/-- **the defect this model exhibits, and the implementation had (finding D10, repaired by a `fix:` commit)**: two UNSERIALISED
    recompilers of different sources.  Thread 0 installs its function, thread 1 installs its function AND stores its digest, then thread 0
    stores its digest: the function of source 12 (99) ends up installed under the digest of source 11 — after which `recompile(source 11)`
    finds the digest unchanged and is silently skipped.  (Found on the real code by the one-preemption schedule exploration, replayed here.) -/
example :
    let fin := runSched (mem7, [ckRecompiler 11 42, ckRecompiler 12 99]) [0, 0, 0, 0, 0, 0, 1, 1, 1, 1, 1, 1, 1, 0]
    fin.1 fnLoc = 99 ∧ fin.1 ckLoc = 11 := by
  decide

/-- … and then a third recompile back to source 11 changes nothing: the evaluator keeps running the function of source 12 -/
example :
    let fin := runSched (mem7, [ckRecompiler 11 42, ckRecompiler 12 99, ckRecompiler 11 42])
      [0, 0, 0, 0, 0, 0, 1, 1, 1, 1, 1, 1, 1, 0, 2, 2, 2, 2, 2, 2, 2]
    fin.1 fnLoc = 99 ∧ fin.1 ckLoc = 11 := by
  decide

end C17Examples

/-! ### serialised recompiles

  With `recompile` under one lock (table obligation `C17_recompile_serialised`, re-extracted from /repo: every store to the installed
  function and to the checksum, and the test of the checksum, sit inside one `with <lock>` block) a recompile is ONE step of the
  evaluator: `(ck, fn) ↦ if ck = d then (ck, fn) else (d, code d)`.  Whatever the order in which the threads get the lock, the
  installed function is always the code of the stored digest. -/

/-- one serialised recompile to the source with digest `d`, whose compiled function is `code d` -/
def lockedRecompile (code : Val → Val) (st : Val × Val) (d : Val) : Val × Val :=
  if st.1 = d then st else (d, code d)

/-- **invariant**: after any sequence of serialised recompiles (any threads, any order), function and digest belong together -/
theorem C17_serialised_recompiles_consistent (code : Val → Val) (st : Val × Val) (h : st.2 = code st.1) (ds : List Val) :
    (ds.foldl (lockedRecompile code) st).2 = code (ds.foldl (lockedRecompile code) st).1 := by
  induction ds generalizing st with
  | nil => simpa using h
  | cons d ds ih =>
      apply ih
      unfold lockedRecompile
      split
      · exact h
      · rfl

/-- … and the last recompile wins: a recompile to `d` leaves the evaluator running `code d`, whatever happened before -/
theorem C17_serialised_recompile_installs (code : Val → Val) (st : Val × Val) (h : st.2 = code st.1) (d : Val) :
    (lockedRecompile code st d) = (d, code d) := by
  unfold lockedRecompile
  split
  · rename_i he; cases st; simp_all
  · rfl

/-- **table obligation** (re-extracted from /repo): `recompile` is serialised -/
theorem C17_recompile_serialised : Generated.recompileSerialised = true := by decide

end Pyab.Properties
