/-
  Entry module of the C05 check: the string-literal round trip and the table obligations
  (`C05.lean`) together with the float-literal round trip (`C05_float.lean`: every finite double a
  DSL literal can denote is printed by `repr` as a text that Python reads back as the same
  double, in fixed and in exponent notation; exact at the level of `Dbl` terms except at powers
  of two, where two terms denote the same double).
-/
import Pyab.Properties.C05
import Pyab.Properties.C05_float
