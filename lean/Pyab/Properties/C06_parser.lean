/-
  C06 — the parser accepts only sentences of the documented grammar.

  * the production list sly built (translator dump, `Generated.lrProds`) minus the
    augmented production 0 (`S' → header`) is the documented BNF (`Spec.documentedProds`),
    both inclusions;
  * whatever the driver accepts with the generated tables is a derivation of `header`
    from the documented productions covering the whole token list (`Proofs.lrParse_sound`
    needs no assumption on the action / goto tables: every reduce checks the popped symbols).
-/
import Pyab.Proofs.LRSound
import Pyab.Generated.LRTables
namespace Pyab.Properties
open Pyab Pyab.Spec

/-- every production of the code's grammar (apart from the augmented `S' → header`) is a
    documented one -/
theorem C06_tables_are_documented_grammar :
    ∀ p, p ∈ Generated.lrProds.toList.tail → p ∈ Spec.documentedProds := by
  decide

/-- every documented production is in the code's grammar -/
theorem C06_documented_grammar_in_tables :
    ∀ p, p ∈ Spec.documentedProds → p ∈ Generated.lrProds.toList.tail := by
  decide

/-- the start symbol of the generated tables -/
theorem C06_startSym : Generated.lrTables.startSym = "header" := by decide

/-! ### The augmented start symbol never occurs inside a derivation of another symbol -/

mutual
/-- if no production of `qs` mentions `S` on its right-hand side, a derivation of `X ≠ S`
    from `⟨S, r⟩ :: qs` never uses the extra production -/
theorem derives_drop_aug (S : String) (r : List String) (qs : List Prod)
    (hq : ∀ p, p ∈ qs → S ∉ p.rhs) (X : String) (ts : List String)
    (h : Derives (⟨S, r⟩ :: qs) X ts) : X ≠ S → Derives qs X ts :=
  match h with
  | .leaf t => fun _ => .leaf t
  | .node p ts hp hs => fun hne =>
    have hp' : p ∈ qs := by
      rcases List.mem_cons.mp hp with rfl | h
      · exact absurd rfl hne
      · exact h
    .node p ts hp' (derivesSeq_drop_aug S r qs hq _ _ hs (hq p hp'))
theorem derivesSeq_drop_aug (S : String) (r : List String) (qs : List Prod)
    (hq : ∀ p, p ∈ qs → S ∉ p.rhs) (Xs : List String) (ts : List String)
    (h : DerivesSeq (⟨S, r⟩ :: qs) Xs ts) : S ∉ Xs → DerivesSeq qs Xs ts :=
  match h with
  | .nil => fun _ => .nil
  | .cons X Xs t1 t2 hX hXs => fun hn =>
    .cons X Xs t1 t2
      (derives_drop_aug S r qs hq _ _ hX (fun hEq => hn (by simp [hEq])))
      (derivesSeq_drop_aug S r qs hq _ _ hXs (fun hm => hn (List.mem_cons_of_mem _ hm)))
end

/-- **C06 (soundness).** A token list accepted by the LR driver with the tables sly built
    is a sentence of the documented grammar: its kinds are, in order and with nothing
    skipped or left over, one derivation of `header` from `Spec.documentedProds`. -/
theorem C06_parse_sound (toks : List Token) (e : Experiment)
    (h : lrParse Generated.lrTables toks = .ok e) :
    Spec.Derives Spec.documentedProds "header" (toks.map (·.kind)) := by
  have h1 := Proofs.lrParse_sound Generated.lrTables toks e h
  rw [C06_startSym] at h1
  have hlist : Generated.lrTables.prods.toList
      = ⟨"S'", ["header"]⟩ :: Generated.lrProds.toList.tail := rfl
  rw [hlist] at h1
  have hq : ∀ p, p ∈ Generated.lrProds.toList.tail → "S'" ∉ p.rhs := by decide
  have h2 := derives_drop_aug "S'" ["header"] _ hq _ _ h1 (by decide)
  exact Proofs.derives_mono _ _ C06_tables_are_documented_grammar _ _ h2

/-- tokens of `def e { return "a" weighted 1 }` -/
def C06_exampleToks : List Token := [
  ⟨"KW_DEF", .raw "def"⟩, ⟨"ID", .raw "e"⟩, ⟨"LBRACE", .raw "{"⟩,
  ⟨"KW_RETURN", .raw "return"⟩, ⟨"STRING_LITERAL", .str "a"⟩, ⟨"KW_WEIGHTED", .raw "weighted"⟩,
  ⟨"NON_NEG_INTEGER", .int 1⟩, ⟨"RBRACE", .raw "}"⟩]

/-- the theorem is not vacuous: the driver accepts a concrete program -/
example : (lrParse Generated.lrTables C06_exampleToks).isOk = true := by decide +kernel

end Pyab.Properties
