/-
  C01 / C09 / C15 — what the hashed key depends on.
  The generated code hashes `salt + ''.join(map(str, [fields in sorted(set(splitters)) order]))`.
  Statements only; proofs in `Pyab/Proofs/SortDedup.lean`.
-/
import Pyab.Proofs.SortDedup
namespace Pyab.Properties
open Pyab

/-! ### `sorted(set(names))` -/

/-- `sorted(set(xs))` has exactly the members of `xs` -/
theorem C01_sortDedup_mem (x : String) (xs : List String) : x ∈ sortDedup xs ↔ x ∈ xs :=
  Proofs.mem_sortDedup x xs

/-- `sorted(set(xs))` is strictly increasing by code point order, hence duplicate free -/
theorem C01_sortDedup_sorted (xs : List String) : (sortDedup xs).Pairwise (· < ·) :=
  Proofs.sortDedup_sorted xs

/-- `sorted(set(xs))` is a function of the set of names -/
theorem C01_sortDedup_ext (xs ys : List String) (h : ∀ x, x ∈ xs ↔ x ∈ ys) :
    sortDedup xs = sortDedup ys :=
  Proofs.sortDedup_ext xs ys h

/-- in particular of the multiset -/
theorem C01_sortDedup_perm (xs ys : List String) (h : xs.Perm ys) : sortDedup xs = sortDedup ys :=
  Proofs.sortDedup_perm xs ys h

theorem C01_sortDedup_idem (xs : List String) : sortDedup (sortDedup xs) = sortDedup xs :=
  Proofs.sortDedup_idem xs

example : sortDedup ["b", "a", "b", "B", "ab"] = ["B", "a", "ab", "b"] := by decide
example : sortDedup ["b", "a"] = sortDedup ["a", "b", "a"] := by decide

/-! ### C01 — the key is canonical -/

/-- **Key canonicity.** The hashed key depends on the *set* of splitter names only — not on
    the order in which they were declared nor on repetitions — for every salt and every
    assignment of field values (including those where the key raises). -/
theorem C01_key_canonical (pr : Nat → Bool) (salt : String) (xs ys : List String) (env : Env)
    (hset : ∀ x, x ∈ xs ↔ x ∈ ys) :
    keyOf pr salt (sortDedup xs) env = keyOf pr salt (sortDedup ys) env :=
  Proofs.keyOf_canonical pr salt xs ys env hset

example (pr : Nat → Bool) (env : Env) :
    keyOf pr "s" (sortDedup ["b", "a", "b"]) env = keyOf pr "s" (sortDedup ["a", "b"]) env :=
  C01_key_canonical pr "s" _ _ env (by intro x; simp only [List.mem_cons, List.not_mem_nil]; grind)

example (pr : Nat → Bool) : keyOf pr "s" (sortDedup ["b", "a", "b"]) [("b", .int 2), ("a", .str "x")] = .ok "sx2" := by rfl

/-! ### C09 — splitter order, salt -/

/-- **Splitter order is irrelevant.** Two experiments whose splitter declarations name the
    same set of fields have the same `local_vars` (so the same key expression and the same
    leading parameters). -/
theorem C09_splitter_order_irrelevant (e e' : Experiment) (xs ys : List String)
    (h1 : e.splitters = some xs) (h2 : e'.splitters = some ys)
    (hset : ∀ x, x ∈ xs ↔ x ∈ ys) : e.localVars = e'.localVars :=
  Proofs.localVars_ext e e' xs ys h1 h2 hset

example :
    ({ id := "e", salt := some "s", splitters := some ["b", "a"], cond := .ret [] } : Experiment).localVars
  = ({ id := "f", salt := none, splitters := some ["a", "b", "a"], cond := .ret [] } : Experiment).localVars :=
  C09_splitter_order_irrelevant _ _ ["b", "a"] ["a", "b", "a"] rfl rfl
    (by intro x; simp only [List.mem_cons, List.not_mem_nil]; grind)

/-- **The key determines the salt.** For the same fields and the same arguments, equal keys
    force equal salts; i.e. two different salts always hash different keys. -/
theorem C09_key_varies_with_salt (pr : Nat → Bool) (s1 s2 : String) (names : List String) (env : Env)
    (k1 k2 : String) (h1 : keyOf pr s1 names env = .ok k1) (h2 : keyOf pr s2 names env = .ok k2)
    (hk : k1 = k2) : s1 = s2 :=
  Proofs.keyOf_salt_injective pr s1 s2 names env k1 k2 h1 h2 hk

/-- contrapositive form -/
theorem C09_key_differs_of_salt_ne (pr : Nat → Bool) (s1 s2 : String) (names : List String) (env : Env)
    (k1 k2 : String) (h1 : keyOf pr s1 names env = .ok k1) (h2 : keyOf pr s2 names env = .ok k2)
    (hs : s1 ≠ s2) : k1 ≠ k2 :=
  Proofs.keyOf_ne_of_salt_ne pr s1 s2 names env k1 k2 h1 h2 hs

example (pr : Nat → Bool) : keyOf pr "s1" ["a"] [("a", .int 7)] = .ok "s17" := by rfl
example (pr : Nat → Bool) : keyOf pr "s2" ["a"] [("a", .int 7)] = .ok "s27" := by rfl
example : "s17" ≠ "s27" :=
  C09_key_differs_of_salt_ne (fun _ => true) "s1" "s2" ["a"] [("a", .int 7)] _ _ rfl rfl (by decide)

/-- **One field: the key determines the printed value.** With one splitter field and the
    same salt, two values whose `str()` differ give different keys. -/
theorem C09_key_varies_with_value (pr : Nat → Bool) (salt n : String) (env env' : Env) (v v' : PyVal) (p p' : String)
    (hget : env.get n = some v) (hget' : env'.get n = some v')
    (hp : PyVal.pyStr pr v = .ok p) (hp' : PyVal.pyStr pr v' = .ok p') (hne : p ≠ p') :
    keyOf pr salt [n] env ≠ keyOf pr salt [n] env' :=
  Proofs.keyOf_single_injective pr salt n env env' v v' p p' hget hget' hp hp' hne

example (pr : Nat → Bool) : keyOf pr "s" ["a"] [("a", .int 7)] ≠ keyOf pr "s" ["a"] [("a", .int 8)] :=
  C09_key_varies_with_value pr "s" "a" _ _ (.int 7) (.int 8) "7" "8" rfl rfl rfl rfl (by decide)

/-! ### C15 — only the printed form of a value reaches the key -/

/-- **Same print, same key** (general form). If every named field is bound in both
    argument sets (or in neither) to values with the same `str()` outcome, the keys are equal. -/
theorem C15_same_print_same_key_list (pr : Nat → Bool) (salt : String) (names : List String) (env env' : Env)
    (h : ∀ n ∈ names, (env.get n).map (PyVal.pyStr pr) = (env'.get n).map (PyVal.pyStr pr)) :
    keyOf pr salt names env = keyOf pr salt names env' := by
  apply Proofs.keyOf_congr
  intro n hn
  have := h n hn
  unfold Proofs.keyPart
  cases h1 : env.get n <;> cases h2 : env'.get n <;> simp_all

/-- **Same print, same key.** One splitter field `n`: values `v`, `v'` with
    `str(v) == str(v')` give the same key (so the same bucket) — e.g. the int `1` and the
    string `'1'`. -/
theorem C15_same_print_same_key (pr : Nat → Bool) (salt n : String) (v v' : PyVal)
    (h : PyVal.pyStr pr v = PyVal.pyStr pr v') :
    keyOf pr salt [n] [(n, v)] = keyOf pr salt [n] [(n, v')] :=
  Proofs.keyOf_single_same_print pr salt n _ _ v v' (by simp [Env.get]) (by simp [Env.get]) h

example (pr : Nat → Bool) : keyOf pr "s" ["id"] [("id", .int 1)] = keyOf pr "s" ["id"] [("id", .str "1")] :=
  C15_same_print_same_key pr "s" "id" (.int 1) (.str "1") (by rfl)

/-- the documented non-injectivity of concatenation: field values are joined without a
    separator, so different argument tuples can share a key -/
example (pr : Nat → Bool) : keyOf pr "" ["a", "b"] [("a", .str "ab"), ("b", .str "c")]
        = keyOf pr "" ["a", "b"] [("a", .str "a"), ("b", .str "bc")] := by rfl

example (pr : Nat → Bool) : PyVal.pyStr pr (.int 1) = PyVal.pyStr pr (.str "1") := by rfl

end Pyab.Properties
