/-
  The text is the rendering of the lines.

  `Codegen.genText` produces the generated module character for character; `PyExec`'s
  `lowerTerm / lowerPred / linesCond / bodyLines` produce the *structured* view (indented
  lines holding expression trees) that the behavioural theorems talk about.  This file
  defines a printer for the structured view and proves that the text `genText` emits is
  exactly the printed lines, placed between the fixed pieces of the module (imports, the
  two `def` lines, the call).  Hence comparing `genText` with the real generator's output
  also ties the lines.
-/
import Pyab.Proofs.Mask
namespace Pyab.Proofs
open Pyab Pyab.Spec

/-! ### a printer for the structured view -/

/-- `repr()` of a constant as the generator's text shows it: `None`, `True`/`False`, the
    decimal digits of an int (`ValueError` beyond CPython's digit limit), the float repr,
    the quoted and escaped string (`PyStrLit.pyReprStr`) -/
def printConst (printable : Nat → Bool) (v : PyVal) : Except Err String :=
  PyVal.pyReprWith (PyStrLit.pyReprStr printable) v

mutual
def printTerm (printable : Nat → Bool) : PTerm → Except Err String
  | .const v => printConst printable v
  | .name n => pure n
  | .tuple l => do
      let parts ← printTerms printable l
      match parts with
      | [p] => pure ("(" ++ p ++ ",)")
      | _ => pure ("(" ++ ", ".intercalate parts ++ ")")
def printTerms (printable : Nat → Bool) : List PTerm → Except Err (List String)
  | [] => pure []
  | t :: ts => do
      let a ← printTerm printable t
      let b ← printTerms printable ts
      pure (a :: b)
end

def printExpr (printable : Nat → Bool) : PExpr → Except Err String
  | .cmp l op r => do
      let a ← printTerm printable l
      let b ← printTerm printable r
      pure ("(" ++ a ++ " " ++ op ++ " " ++ b ++ ")")
  | .bin x op y => do
      let a ← printExpr printable x
      let b ← printExpr printable y
      pure ("(" ++ a ++ " " ++ op ++ " " ++ b ++ ")")
  | .un op x => do
      let a ← printExpr printable x
      pure ("(" ++ op ++ " " ++ a ++ ")")

/-- one statement, without indentation and without the newline -/
def printLine (printable : Nat → Bool) : Line → Except Err String
  | .ifL e => do pure ("if " ++ (← printExpr printable e) ++ ": ")
  | .elifL e => do pure ("elif " ++ (← printExpr printable e) ++ ": ")
  | .elseL => pure "else: "
  | .ret pop ws => do
      let p ← pop.mapM (printConst printable)
      let w ← ws.mapM renderWeight
      pure ("return partial(deterministic_choice, population=" ++ renderList p
        ++ ", weights=" ++ renderList w ++ ")")
  | .raiseU => pure "raise ExperimentConditionalFailedError()"

/-- one line of the module: `depth` tabs, the statement, a newline -/
def printILine (printable : Nat → Bool) (x : ILine) : Except Err String := do
  pure (tabs x.1 ++ (← printLine printable x.2) ++ "\n")

/-- the lines one after the other -/
def printLines (printable : Nat → Bool) : List ILine → Except Err String
  | [] => pure ""
  | x :: xs => do
      let a ← printILine printable x
      let b ← printLines printable xs
      pure (a ++ b)

theorem printLines_eq_join (printable : Nat → Bool) :
    ∀ L : List ILine, printLines printable L = (L.mapM (printILine printable)).map String.join
  | [] => by simp [printLines, Except.map, pure, Except.pure]
  | x :: xs => by
      simp only [printLines, List.mapM_cons, printLines_eq_join printable xs]
      cases printILine printable x <;> cases List.mapM (printILine printable) xs <;>
        simp [bind, Except.bind, Except.map, pure, Except.pure, String.join_cons]

theorem printLines_append (printable : Nat → Bool) :
    ∀ (A B : List ILine) (a b : String), printLines printable A = .ok a → printLines printable B = .ok b →
      printLines printable (A ++ B) = .ok (a ++ b)
  | [], B, a, b, hA, hB => by
      simp only [printLines, pure, Except.pure, Except.ok.injEq] at hA
      subst hA
      simpa using hB
  | x :: A, B, a, b, hA, hB => by
      simp only [printLines, bind_ok_iff] at hA
      obtain ⟨u, hu, v, hv, h⟩ := hA
      cases h
      have ih := printLines_append printable A B v b hv hB
      simp [printLines, hu, ih, bind, Except.bind, pure, Except.pure, String.append_assoc]

/-! ### small facts about `Except` binds -/

theorem bind_error_iff {α β : Type} {x : Except Err α} {f : α → Except Err β} {e : Err} :
    (x >>= f) = .error e ↔ x = .error e ∨ ∃ a, x = .ok a ∧ f a = .error e := by
  cases x <;> simp [bind, Except.bind]

theorem pure_ne_error {α : Type} (a : α) (e : Err) : (pure a : Except Err α) ≠ .error e := by
  intro h; cases h

/-! ### terms -/

theorem printConst_int (printable : Nat → Bool) (i : Int) : printConst printable (.int i) = intStr i := by
  simp [printConst, PyVal.pyReprWith, intStr]

theorem printConst_float (printable : Nat → Bool) (d : Dbl) (nz : Bool) :
    printConst printable (.float d nz) = .ok (floatStr d nz) := by
  simp [printConst, PyVal.pyReprWith, floatStr, pure, Except.pure]

theorem printConst_str (printable : Nat → Bool) (s : String) :
    printConst printable (.str s) = .ok (PyStrLit.pyReprStr printable s) := by
  simp [printConst, PyVal.pyReprWith, pure, Except.pure]

mutual
/-- a lowered term prints, and prints as the generator rendered the source term -/
theorem printTerm_lower_ok (cfg : GenCfg) (hs : cfg.strReprTerm = true) (ht : cfg.tupleRecursive = true)
    (hrb : ∀ s, readBackStr cfg true s = .ok s) :
    ∀ (t : Term) (pt : PTerm), lowerTerm cfg t = .ok pt →
      ∃ s, renderTerm cfg t = .ok s ∧ printTerm cfg.printable pt = .ok s
  | .int i, pt, h => by
      simp only [lowerTerm, bind_ok_iff] at h
      obtain ⟨u, hu, h⟩ := h
      cases h
      exact ⟨u, by simp [renderTerm, hu], by simp [printTerm, printConst_int, hu]⟩
  | .float d nz, pt, h => by
      simp only [lowerTerm] at h
      cases h
      exact ⟨floatStr d nz, by simp [renderTerm, pure, Except.pure], by simp [printTerm, printConst_float]⟩
  | .str s, pt, h => by
      simp only [lowerTerm, hs, hrb, bind_ok_iff] at h
      obtain ⟨s', hs, h⟩ := h
      cases hs; cases h
      exact ⟨PyStrLit.pyReprStr cfg.printable s,
        by simp [renderTerm, renderStr, hs, pure, Except.pure],
        by simp [printTerm, printConst_str]⟩
  | .ident n, pt, h => by
      simp only [lowerTerm] at h
      cases h
      exact ⟨n, by simp [renderTerm, pure, Except.pure], by simp [printTerm, pure, Except.pure]⟩
  | .tuple l, pt, h => by
      simp only [lowerTerm, ht, if_true, bind_ok_iff] at h
      obtain ⟨pl, hpl, h⟩ := h
      cases h
      obtain ⟨parts, h1, h2⟩ := printTerms_lower_ok cfg hs ht hrb l pl hpl
      refine ⟨match parts with | [p] => "(" ++ p ++ ",)" | _ => "(" ++ ", ".intercalate parts ++ ")", ?_, ?_⟩
      · simp only [renderTerm, ht, if_true, h1]
        cases parts with
        | nil => rfl
        | cons p ps => cases ps <;> rfl
      · simp only [printTerm, h2]
        cases parts with
        | nil => rfl
        | cons p ps => cases ps <;> rfl
theorem printTerms_lower_ok (cfg : GenCfg) (hs : cfg.strReprTerm = true) (ht : cfg.tupleRecursive = true)
    (hrb : ∀ s, readBackStr cfg true s = .ok s) :
    ∀ (l : List Term) (pl : List PTerm), lowerTerms cfg l = .ok pl →
      ∃ parts, renderTerms cfg l = .ok parts ∧ printTerms cfg.printable pl = .ok parts
  | [], pl, h => by
      simp only [lowerTerms] at h
      cases h
      exact ⟨[], by simp [renderTerms, pure, Except.pure], by simp [printTerms, pure, Except.pure]⟩
  | t :: ts, pl, h => by
      simp only [lowerTerms, bind_ok_iff] at h
      obtain ⟨a, ha, b, hb, h⟩ := h
      cases h
      obtain ⟨s, h1, h2⟩ := printTerm_lower_ok cfg hs ht hrb t a ha
      obtain ⟨ss, h3, h4⟩ := printTerms_lower_ok cfg hs ht hrb ts b hb
      exact ⟨s :: ss, by simp [renderTerms, h1, h3, bind, Except.bind, pure, Except.pure],
        by simp [printTerms, h2, h4, bind, Except.bind, pure, Except.pure]⟩
end

mutual
/-- an error while lowering a term is the error the generator's rendering raises -/
theorem renderTerm_lower_error (cfg : GenCfg) (hs : cfg.strReprTerm = true) (ht : cfg.tupleRecursive = true)
    (hrb : ∀ s, readBackStr cfg true s = .ok s) :
    ∀ (t : Term) (err : Err), lowerTerm cfg t = .error err → renderTerm cfg t = .error err
  | .int i, err, h => by
      simp only [lowerTerm, bind_error_iff] at h
      rcases h with h | ⟨_, _, h⟩
      · simpa [renderTerm] using h
      · exact absurd h (pure_ne_error _ _)
  | .float d nz, err, h => by
      simp only [lowerTerm] at h
      exact absurd h (pure_ne_error _ _)
  | .str s, err, h => by
      simp only [lowerTerm, hs, hrb, bind_error_iff] at h
      rcases h with h | ⟨_, _, h⟩
      · cases h
      · exact absurd h (pure_ne_error _ _)
  | .ident n, err, h => by
      simp only [lowerTerm] at h
      exact absurd h (pure_ne_error _ _)
  | .tuple l, err, h => by
      simp only [lowerTerm, ht, if_true, bind_error_iff] at h
      rcases h with h | ⟨_, _, h⟩
      · have := renderTerms_lower_error cfg hs ht hrb l err h
        simp [renderTerm, ht, this, bind, Except.bind]
      · exact absurd h (pure_ne_error _ _)
theorem renderTerms_lower_error (cfg : GenCfg) (hs : cfg.strReprTerm = true) (ht : cfg.tupleRecursive = true)
    (hrb : ∀ s, readBackStr cfg true s = .ok s) :
    ∀ (l : List Term) (err : Err), lowerTerms cfg l = .error err → renderTerms cfg l = .error err
  | [], err, h => by
      simp only [lowerTerms] at h
      exact absurd h (pure_ne_error _ _)
  | t :: ts, err, h => by
      simp only [lowerTerms, bind_error_iff] at h
      rcases h with h | ⟨a, ha, h | ⟨b, hb, h⟩⟩
      · simp [renderTerms, renderTerm_lower_error cfg hs ht hrb t err h, bind, Except.bind]
      · obtain ⟨s, h1, _⟩ := printTerm_lower_ok cfg hs ht hrb t a ha
        simp [renderTerms, h1, renderTerms_lower_error cfg hs ht hrb ts err h, bind, Except.bind]
      · exact absurd h (pure_ne_error _ _)
end

/-! ### predicates (any operator table: both views store the same `cfg.op name` text) -/

theorem printExpr_lower_ok (cfg : GenCfg) (hs : cfg.strReprTerm = true) (ht : cfg.tupleRecursive = true)
    (hrb : ∀ s, readBackStr cfg true s = .ok s) :
    ∀ (p : Pred) (e : PExpr), lowerPred cfg p = .ok e →
      ∃ s, renderPred cfg p = .ok s ∧ printExpr cfg.printable e = .ok s
  | .cmp l op r, e, h => by
      simp only [lowerPred, bind_ok_iff] at h
      obtain ⟨a, ha, b, hb, h⟩ := h
      cases h
      obtain ⟨x, h1, h2⟩ := printTerm_lower_ok cfg hs ht hrb l a ha
      obtain ⟨y, h3, h4⟩ := printTerm_lower_ok cfg hs ht hrb r b hb
      exact ⟨_, by simp [renderPred, h1, h3, bind, Except.bind, pure, Except.pure]; rfl,
        by simp [printExpr, h2, h4, bind, Except.bind, pure, Except.pure]⟩
  | .and p q, e, h => by
      simp only [lowerPred, bind_ok_iff] at h
      obtain ⟨a, ha, b, hb, h⟩ := h
      cases h
      obtain ⟨x, h1, h2⟩ := printExpr_lower_ok cfg hs ht hrb p a ha
      obtain ⟨y, h3, h4⟩ := printExpr_lower_ok cfg hs ht hrb q b hb
      exact ⟨_, by simp [renderPred, h1, h3, bind, Except.bind, pure, Except.pure]; rfl,
        by simp [printExpr, h2, h4, bind, Except.bind, pure, Except.pure]⟩
  | .or p q, e, h => by
      simp only [lowerPred, bind_ok_iff] at h
      obtain ⟨a, ha, b, hb, h⟩ := h
      cases h
      obtain ⟨x, h1, h2⟩ := printExpr_lower_ok cfg hs ht hrb p a ha
      obtain ⟨y, h3, h4⟩ := printExpr_lower_ok cfg hs ht hrb q b hb
      exact ⟨_, by simp [renderPred, h1, h3, bind, Except.bind, pure, Except.pure]; rfl,
        by simp [printExpr, h2, h4, bind, Except.bind, pure, Except.pure]⟩
  | .not p, e, h => by
      simp only [lowerPred, bind_ok_iff] at h
      obtain ⟨a, ha, h⟩ := h
      cases h
      obtain ⟨x, h1, h2⟩ := printExpr_lower_ok cfg hs ht hrb p a ha
      exact ⟨_, by simp [renderPred, h1, bind, Except.bind, pure, Except.pure]; rfl,
        by simp [printExpr, h2, bind, Except.bind, pure, Except.pure]⟩

theorem renderPred_lower_error (cfg : GenCfg) (hs : cfg.strReprTerm = true) (ht : cfg.tupleRecursive = true)
    (hrb : ∀ s, readBackStr cfg true s = .ok s) :
    ∀ (p : Pred) (err : Err), lowerPred cfg p = .error err → renderPred cfg p = .error err
  | .cmp l op r, err, h => by
      simp only [lowerPred, bind_error_iff] at h
      rcases h with h | ⟨a, ha, h | ⟨b, hb, h⟩⟩
      · simp [renderPred, renderTerm_lower_error cfg hs ht hrb l err h, bind, Except.bind]
      · obtain ⟨x, h1, _⟩ := printTerm_lower_ok cfg hs ht hrb l a ha
        simp [renderPred, h1, renderTerm_lower_error cfg hs ht hrb r err h, bind, Except.bind]
      · exact absurd h (pure_ne_error _ _)
  | .and p q, err, h => by
      simp only [lowerPred, bind_error_iff] at h
      rcases h with h | ⟨a, ha, h | ⟨b, hb, h⟩⟩
      · simp [renderPred, renderPred_lower_error cfg hs ht hrb p err h, bind, Except.bind]
      · obtain ⟨x, h1, _⟩ := printExpr_lower_ok cfg hs ht hrb p a ha
        simp [renderPred, h1, renderPred_lower_error cfg hs ht hrb q err h, bind, Except.bind]
      · exact absurd h (pure_ne_error _ _)
  | .or p q, err, h => by
      simp only [lowerPred, bind_error_iff] at h
      rcases h with h | ⟨a, ha, h | ⟨b, hb, h⟩⟩
      · simp [renderPred, renderPred_lower_error cfg hs ht hrb p err h, bind, Except.bind]
      · obtain ⟨x, h1, _⟩ := printExpr_lower_ok cfg hs ht hrb p a ha
        simp [renderPred, h1, renderPred_lower_error cfg hs ht hrb q err h, bind, Except.bind]
      · exact absurd h (pure_ne_error _ _)
  | .not p, err, h => by
      simp only [lowerPred, bind_error_iff] at h
      rcases h with h | ⟨a, ha, h⟩
      · simp [renderPred, renderPred_lower_error cfg hs ht hrb p err h, bind, Except.bind]
      · exact absurd h (pure_ne_error _ _)

/-! ### return statements -/

theorem printConst_groupVal_ok (cfg : GenCfg) (hrb : ∀ s, readBackStr cfg true s = .ok s)
    (t : Term) (v : PyVal) (h : groupVal cfg t = .ok v) :
    ∃ s, renderGroupDef cfg t = .ok s ∧ printConst cfg.printable v = .ok s := by
  cases t with
  | int i =>
      simp only [groupVal, bind_ok_iff] at h
      obtain ⟨u, hu, h⟩ := h
      cases h
      exact ⟨u, by simp [renderGroupDef, hu], by simp [printConst_int, hu]⟩
  | float d nz =>
      simp only [groupVal] at h
      cases h
      exact ⟨floatStr d nz, by simp [renderGroupDef, pure, Except.pure], by simp [printConst_float]⟩
  | str s =>
      simp only [groupVal, hrb, bind_ok_iff] at h
      obtain ⟨s', hs, h⟩ := h
      cases hs; cases h
      exact ⟨PyStrLit.pyReprStr cfg.printable s, by simp [renderGroupDef, pure, Except.pure],
        by simp [printConst_str]⟩
  | ident n => simp [groupVal, throw, throwThe, MonadExceptOf.throw] at h
  | tuple l => simp [groupVal, throw, throwThe, MonadExceptOf.throw] at h

theorem renderGroupDef_groupVal_error (cfg : GenCfg) (hrb : ∀ s, readBackStr cfg true s = .ok s)
    (t : Term) (err : Err) (h : groupVal cfg t = .error err) : renderGroupDef cfg t = .error err := by
  cases t with
  | int i =>
      simp only [groupVal, bind_error_iff] at h
      rcases h with h | ⟨_, _, h⟩
      · simpa [renderGroupDef] using h
      · exact absurd h (pure_ne_error _ _)
  | float d nz =>
      simp only [groupVal] at h
      exact absurd h (pure_ne_error _ _)
  | str s =>
      simp only [groupVal, hrb, bind_error_iff] at h
      rcases h with h | ⟨_, _, h⟩
      · cases h
      · exact absurd h (pure_ne_error _ _)
  | ident n => simpa [groupVal, renderGroupDef, throw, throwThe, MonadExceptOf.throw] using h
  | tuple l => simpa [groupVal, renderGroupDef, throw, throwThe, MonadExceptOf.throw] using h

theorem pop_ok (cfg : GenCfg) (hrb : ∀ s, readBackStr cfg true s = .ok s) :
    ∀ (gs : List Group) (pop : List PyVal), gs.mapM (fun g => groupVal cfg g.defn) = .ok pop →
      ∃ ps, gs.mapM (fun g => renderGroupDef cfg g.defn) = .ok ps ∧
        pop.mapM (printConst cfg.printable) = .ok ps
  | [], pop, h => by
      simp only [List.mapM_nil] at h
      cases h
      exact ⟨[], rfl, rfl⟩
  | g :: gs, pop, h => by
      simp only [List.mapM_cons, bind_ok_iff] at h
      obtain ⟨v, hv, vs, hvs, h⟩ := h
      cases h
      obtain ⟨s, h1, h2⟩ := printConst_groupVal_ok cfg hrb g.defn v hv
      obtain ⟨ss, h3, h4⟩ := pop_ok cfg hrb gs vs hvs
      exact ⟨s :: ss, by simp [List.mapM_cons, h1, h3, bind, Except.bind, pure, Except.pure],
        by simp [List.mapM_cons, h2, h4, bind, Except.bind, pure, Except.pure]⟩

theorem pop_error (cfg : GenCfg) (hrb : ∀ s, readBackStr cfg true s = .ok s) :
    ∀ (gs : List Group) (err : Err), gs.mapM (fun g => groupVal cfg g.defn) = .error err →
      gs.mapM (fun g => renderGroupDef cfg g.defn) = .error err
  | [], err, h => by
      simp only [List.mapM_nil] at h
      exact absurd h (pure_ne_error _ _)
  | g :: gs, err, h => by
      simp only [List.mapM_cons, bind_error_iff] at h
      rcases h with h | ⟨v, hv, h | ⟨vs, hvs, h⟩⟩
      · simp [List.mapM_cons, renderGroupDef_groupVal_error cfg hrb g.defn err h, bind, Except.bind]
      · obtain ⟨s, h1, _⟩ := printConst_groupVal_ok cfg hrb g.defn v hv
        simp [List.mapM_cons, h1, pop_error cfg hrb gs err h, bind, Except.bind]
      · exact absurd h (pure_ne_error _ _)

theorem weights_mapM_map :
    ∀ gs : List Group, (gs.map (·.weight)).mapM renderWeight = gs.mapM (fun g => renderWeight g.weight)
  | [] => by simp
  | g :: gs => by simp [List.mapM_cons, weights_mapM_map gs]

theorem paren_nl : ")\n" = ")" ++ "\n" := by decide
theorem colon_nl : ": \n" = ": " ++ "\n" := by decide

/-- the `return` line: the generator's text is the printed `Line.ret` -/
theorem printILine_lowerReturn_ok (cfg : GenCfg) (hrb : ∀ s, readBackStr cfg true s = .ok s)
    (d : Nat) (gs : List Group) (l : Line) (h : lowerReturn cfg gs = .ok l) :
    ∃ s, renderReturn cfg d gs = .ok s ∧ printILine cfg.printable (d, l) = .ok s := by
  simp only [lowerReturn, retVals, bind_ok_iff] at h
  obtain ⟨⟨pop, ws⟩, ⟨pop', hpop, w, hw, hpw⟩, hl⟩ := h
  cases hpw; cases hl
  obtain ⟨ps, h1, h2⟩ := pop_ok cfg hrb gs pop hpop
  refine ⟨tabs d ++ "return partial(deterministic_choice, population=" ++ renderList ps
        ++ ", weights=" ++ renderList w ++ ")\n", ?_, ?_⟩
  · simp only [renderReturn, h1, hw, bind, Except.bind, pure, Except.pure]
  · have hw' : (gs.map (·.weight)).mapM renderWeight = .ok w := by rw [weights_mapM_map]; exact hw
    simp only [printILine, printLine, h2, hw', bind, Except.bind, pure, Except.pure, paren_nl,
      String.append_assoc]

theorem renderReturn_lowerReturn_error (cfg : GenCfg) (hrb : ∀ s, readBackStr cfg true s = .ok s)
    (d : Nat) (gs : List Group) (err : Err) (h : lowerReturn cfg gs = .error err) :
    renderReturn cfg d gs = .error err := by
  simp only [lowerReturn, retVals, bind_error_iff] at h
  rcases h with (h | ⟨pop, hpop, h | ⟨w, hw, h⟩⟩) | ⟨_, _, h⟩
  · simp [renderReturn, pop_error cfg hrb gs err h, bind, Except.bind]
  · obtain ⟨ps, h1, _⟩ := pop_ok cfg hrb gs pop hpop
    simp [renderReturn, h1, h, bind, Except.bind]
  · exact absurd h (pure_ne_error _ _)
  · exact absurd h (pure_ne_error _ _)

/-! ### conditionals -/

mutual
/-- the text emitted for a conditional is the emitted lines, printed one after the other -/
theorem printLines_cond_ok (cfg : GenCfg) (hs : cfg.strReprTerm = true) (ht : cfg.tupleRecursive = true)
    (hrb : ∀ s, readBackStr cfg true s = .ok s) :
    ∀ (c : Cond) (d : Nat) (L : List ILine), linesCond cfg d c = .ok L →
      ∃ s, renderCond cfg d c = .ok s ∧ printLines cfg.printable L = .ok s
  | .ret gs, d, L, h => by
      simp only [linesCond, bind_ok_iff] at h
      obtain ⟨l, hl, h⟩ := h
      cases h
      obtain ⟨s, h1, h2⟩ := printILine_lowerReturn_ok cfg hrb d gs l hl
      exact ⟨s, by simpa [renderCond] using h1,
        by simp [printLines, h2, bind, Except.bind, pure, Except.pure]⟩
  | .ifte p t rest, d, L, h => by
      simp only [linesCond, bind_ok_iff] at h
      obtain ⟨e, he, tb, htb, fb, hfb, h⟩ := h
      cases h
      obtain ⟨ps, hp1, hp2⟩ := printExpr_lower_ok cfg hs ht hrb p e he
      obtain ⟨ts, ht1, ht2⟩ := printLines_cond_ok cfg hs ht hrb t (d + 1) tb htb
      obtain ⟨fs, hf1, hf2⟩ := printLines_sub_ok cfg hs ht hrb rest d fb hfb
      refine ⟨tabs d ++ "if " ++ ps ++ ": \n" ++ ts ++ fs, ?_, ?_⟩
      · simp only [renderCond, hp1, ht1, hf1, bind, Except.bind, pure, Except.pure]
      · have := printLines_append cfg.printable tb fb ts fs ht2 hf2
        simp only [List.cons_append, printLines, printILine, printLine, hp2, this, bind, Except.bind,
          pure, Except.pure, colon_nl, String.append_assoc]
theorem printLines_sub_ok (cfg : GenCfg) (hs : cfg.strReprTerm = true) (ht : cfg.tupleRecursive = true)
    (hrb : ∀ s, readBackStr cfg true s = .ok s) :
    ∀ (sb : Sub) (d : Nat) (L : List ILine), linesSub cfg d sb = .ok L →
      ∃ s, renderSub cfg d sb = .ok s ∧ printLines cfg.printable L = .ok s
  | .none, d, L, h => by
      simp only [linesSub] at h
      cases h
      exact ⟨"", rfl, rfl⟩
  | .else_ t, d, L, h => by
      simp only [linesSub, bind_ok_iff] at h
      obtain ⟨tb, htb, h⟩ := h
      cases h
      obtain ⟨ts, ht1, ht2⟩ := printLines_cond_ok cfg hs ht hrb t (d + 1) tb htb
      refine ⟨tabs d ++ "else: \n" ++ ts, ?_, ?_⟩
      · simp only [renderSub, ht1, bind, Except.bind, pure, Except.pure]
      · simp only [printLines, printILine, printLine, ht2, bind, Except.bind, pure,
          Except.pure, String.append_assoc]
        rfl
  | .elif p t rest, d, L, h => by
      simp only [linesSub, bind_ok_iff] at h
      obtain ⟨e, he, tb, htb, fb, hfb, h⟩ := h
      cases h
      obtain ⟨ps, hp1, hp2⟩ := printExpr_lower_ok cfg hs ht hrb p e he
      obtain ⟨ts, ht1, ht2⟩ := printLines_cond_ok cfg hs ht hrb t (d + 1) tb htb
      obtain ⟨fs, hf1, hf2⟩ := printLines_sub_ok cfg hs ht hrb rest d fb hfb
      refine ⟨tabs d ++ "elif " ++ ps ++ ": \n" ++ ts ++ fs, ?_, ?_⟩
      · simp only [renderSub, hp1, ht1, hf1, bind, Except.bind, pure, Except.pure]
      · have := printLines_append cfg.printable tb fb ts fs ht2 hf2
        simp only [List.cons_append, printLines, printILine, printLine, hp2, this, bind, Except.bind,
          pure, Except.pure, colon_nl, String.append_assoc]
end

mutual
/-- an error while emitting the lines is the error the text generation raises -/
theorem renderCond_lines_error (cfg : GenCfg) (hs : cfg.strReprTerm = true) (ht : cfg.tupleRecursive = true)
    (hrb : ∀ s, readBackStr cfg true s = .ok s) :
    ∀ (c : Cond) (d : Nat) (err : Err), linesCond cfg d c = .error err → renderCond cfg d c = .error err
  | .ret gs, d, err, h => by
      simp only [linesCond, bind_error_iff] at h
      rcases h with h | ⟨_, _, h⟩
      · simpa [renderCond] using renderReturn_lowerReturn_error cfg hrb d gs err h
      · exact absurd h (pure_ne_error _ _)
  | .ifte p t rest, d, err, h => by
      simp only [linesCond, bind_error_iff] at h
      rcases h with h | ⟨e, he, h | ⟨tb, htb, h | ⟨fb, hfb, h⟩⟩⟩
      · simp [renderCond, renderPred_lower_error cfg hs ht hrb p err h, bind, Except.bind]
      · obtain ⟨ps, hp1, _⟩ := printExpr_lower_ok cfg hs ht hrb p e he
        simp [renderCond, hp1, renderCond_lines_error cfg hs ht hrb t (d + 1) err h, bind, Except.bind]
      · obtain ⟨ps, hp1, _⟩ := printExpr_lower_ok cfg hs ht hrb p e he
        obtain ⟨ts, ht1, _⟩ := printLines_cond_ok cfg hs ht hrb t (d + 1) tb htb
        simp [renderCond, hp1, ht1, renderSub_lines_error cfg hs ht hrb rest d err h, bind, Except.bind]
      · exact absurd h (pure_ne_error _ _)
theorem renderSub_lines_error (cfg : GenCfg) (hs : cfg.strReprTerm = true) (ht : cfg.tupleRecursive = true)
    (hrb : ∀ s, readBackStr cfg true s = .ok s) :
    ∀ (sb : Sub) (d : Nat) (err : Err), linesSub cfg d sb = .error err → renderSub cfg d sb = .error err
  | .none, d, err, h => by
      simp only [linesSub] at h
      exact absurd h (pure_ne_error _ _)
  | .else_ t, d, err, h => by
      simp only [linesSub, bind_error_iff] at h
      rcases h with h | ⟨_, _, h⟩
      · simp [renderSub, renderCond_lines_error cfg hs ht hrb t (d + 1) err h, bind, Except.bind]
      · exact absurd h (pure_ne_error _ _)
  | .elif p t rest, d, err, h => by
      simp only [linesSub, bind_error_iff] at h
      rcases h with h | ⟨e, he, h | ⟨tb, htb, h | ⟨fb, hfb, h⟩⟩⟩
      · simp [renderSub, renderPred_lower_error cfg hs ht hrb p err h, bind, Except.bind]
      · obtain ⟨ps, hp1, _⟩ := printExpr_lower_ok cfg hs ht hrb p e he
        simp [renderSub, hp1, renderCond_lines_error cfg hs ht hrb t (d + 1) err h, bind, Except.bind]
      · obtain ⟨ps, hp1, _⟩ := printExpr_lower_ok cfg hs ht hrb p e he
        obtain ⟨ts, ht1, _⟩ := printLines_cond_ok cfg hs ht hrb t (d + 1) tb htb
        simp [renderSub, hp1, ht1, renderSub_lines_error cfg hs ht hrb rest d err h, bind, Except.bind]
      · exact absurd h (pure_ne_error _ _)
end

/-! ### the module -/

/-- indentation depth of the body of `choose_experiment_variant` in the two layouts -/
def bodyDepth (expose : Bool) : Nat := if expose then 1 else 2

/-- `def <experiment id>(<parameters>, **kwargs): ` -/
def fnDefText (cfg : GenCfg) (e : Experiment) : String :=
  "def " ++ e.id ++ "(" ++ ", ".intercalate (e.params cfg ++ ["**kwargs"]) ++ "): \n"

/-- `def choose_experiment_variant(<identifiers of the predicates>): `, one level above the body -/
def sigText (cfg : GenCfg) (e : Experiment) (expose : Bool) : String :=
  tabs (bodyDepth expose - 1) ++ "def choose_experiment_variant(" ++ ", ".intercalate (e.condIds cfg) ++ "): \n"

/-- `return choose_experiment_variant(<id>=<id>, …)(<key expression>)` -/
def callText (cfg : GenCfg) (e : Experiment) : String :=
  tabs 1 ++ "return choose_experiment_variant("
    ++ ", ".intercalate ((e.condIds cfg).map fun i => i ++ "=" ++ i) ++ ")(" ++ keyText cfg e ++ ")\n"

/-- the fixed pieces of the generated module around the text of the body, in the order of
    the layout: nested (`expose = false`) or exposed (`expose = true`) -/
def moduleText (cfg : GenCfg) (e : Experiment) (expose : Bool) (body : String) : String :=
  if expose then topline ++ fnDefText cfg e ++ callText cfg e ++ sigText cfg e expose ++ body
  else topline ++ fnDefText cfg e ++ sigText cfg e expose ++ body ++ callText cfg e

/-- the generated module printed from the lines of the body `L` (as `bodyLines` gives them:
    the lines of the conditional, then the trailing `raise`): all lines but the last, an
    empty line, the `raise` line — between the fixed pieces -/
def moduleOfLines (cfg : GenCfg) (e : Experiment) (expose : Bool) (L : List ILine) : Except Err String := do
  let c ← printLines cfg.printable L.dropLast
  let r ← printILine cfg.printable (bodyDepth expose, .raiseU)
  pure (moduleText cfg e expose (c ++ "\n" ++ r))

theorem printILine_raise (printable : Nat → Bool) (d : Nat) :
    printILine printable (d, .raiseU) = .ok (tabs d ++ "raise ExperimentConditionalFailedError()" ++ "\n") := rfl

/-- `genText` is the rendered conditional between the fixed pieces -/
theorem genText_eq_render (cfg : GenCfg) (e : Experiment) (expose : Bool) :
    genText cfg e expose =
      (renderCond cfg (bodyDepth expose) e.cond >>= fun b =>
        pure (moduleText cfg e expose
          (b ++ "\n" ++ (tabs (bodyDepth expose) ++ "raise ExperimentConditionalFailedError()" ++ "\n")))) := by
  cases expose <;>
    simp only [genText, bodyDepth, moduleText, fnDefText, sigText, callText, if_true, if_false,
      Bool.false_eq_true, String.append_assoc]

/-- **(d), success.**  If the body is emitted as the lines `L`, the generated text is those
    lines printed (all but the trailing `raise`, an empty line, the `raise` line) between
    the fixed pieces of the module -/
theorem genText_eq_lines (cfg : GenCfg) (hs : cfg.strReprTerm = true) (ht : cfg.tupleRecursive = true)
    (hrb : ∀ s, readBackStr cfg true s = .ok s) (e : Experiment) (expose : Bool) (L : List ILine)
    (h : bodyLines cfg (bodyDepth expose) e.cond = .ok L) :
    ∃ c r, printLines cfg.printable L.dropLast = .ok c ∧
      printILine cfg.printable (bodyDepth expose, .raiseU) = .ok r ∧
      L.getLast? = some (bodyDepth expose, .raiseU) ∧
      genText cfg e expose = .ok (moduleText cfg e expose (c ++ "\n" ++ r)) := by
  simp only [bodyLines, bind_ok_iff] at h
  obtain ⟨Lc, hLc, h⟩ := h
  cases h
  obtain ⟨c, h1, h2⟩ := printLines_cond_ok cfg hs ht hrb e.cond (bodyDepth expose) Lc hLc
  refine ⟨c, _, by simpa using h2, printILine_raise _ _, by simp, ?_⟩
  rw [genText_eq_render, h1]
  rfl

/-- **(d), failure.**  If emitting the lines fails, generating the text fails with the same error -/
theorem genText_error_of_lines (cfg : GenCfg) (hs : cfg.strReprTerm = true) (ht : cfg.tupleRecursive = true)
    (hrb : ∀ s, readBackStr cfg true s = .ok s) (e : Experiment) (expose : Bool) (err : Err)
    (h : bodyLines cfg (bodyDepth expose) e.cond = .error err) : genText cfg e expose = .error err := by
  simp only [bodyLines, bind_error_iff] at h
  rcases h with h | ⟨_, _, h⟩
  · rw [genText_eq_render, renderCond_lines_error cfg hs ht hrb e.cond _ err h]
    rfl
  · exact absurd h (pure_ne_error _ _)

/-- **(d), both.**  `genText` factors through the lines: emit the lines, print them -/
theorem genText_factors (cfg : GenCfg) (hs : cfg.strReprTerm = true) (ht : cfg.tupleRecursive = true)
    (hrb : ∀ s, readBackStr cfg true s = .ok s) (e : Experiment) (expose : Bool) :
    genText cfg e expose = bodyLines cfg (bodyDepth expose) e.cond >>= moduleOfLines cfg e expose := by
  cases h : bodyLines cfg (bodyDepth expose) e.cond with
  | error err => rw [genText_error_of_lines cfg hs ht hrb e expose err h]; rfl
  | ok L =>
      obtain ⟨c, r, h1, h2, _, h4⟩ := genText_eq_lines cfg hs ht hrb e expose L h
      rw [h4]
      simp only [moduleOfLines, h1, h2, bind, Except.bind, pure, Except.pure]

theorem genText_ok_iff (cfg : GenCfg) (hs : cfg.strReprTerm = true) (ht : cfg.tupleRecursive = true)
    (hrb : ∀ s, readBackStr cfg true s = .ok s) (e : Experiment) (expose : Bool) :
    (∃ T, genText cfg e expose = .ok T) ↔ ∃ L, bodyLines cfg (bodyDepth expose) e.cond = .ok L := by
  cases h : bodyLines cfg (bodyDepth expose) e.cond with
  | error err => simp [genText_error_of_lines cfg hs ht hrb e expose err h]
  | ok L =>
      obtain ⟨c, r, _, _, _, h4⟩ := genText_eq_lines cfg hs ht hrb e expose L h
      simp [h4]

theorem genText_error_iff (cfg : GenCfg) (hs : cfg.strReprTerm = true) (ht : cfg.tupleRecursive = true)
    (hrb : ∀ s, readBackStr cfg true s = .ok s) (e : Experiment) (expose : Bool) (err : Err) :
    genText cfg e expose = .error err ↔ bodyLines cfg (bodyDepth expose) e.cond = .error err := by
  cases h : bodyLines cfg (bodyDepth expose) e.cond with
  | error err' => simp [genText_error_of_lines cfg hs ht hrb e expose err' h]
  | ok L =>
      obtain ⟨c, r, _, _, _, h4⟩ := genText_eq_lines cfg hs ht hrb e expose L h
      simp [h4]

/-! ### the same facts as equations between the two renderings -/

theorem printTerm_lower (cfg : GenCfg) (hs : cfg.strReprTerm = true) (ht : cfg.tupleRecursive = true)
    (hrb : ∀ s, readBackStr cfg true s = .ok s) (t : Term) (pt : PTerm)
    (h : lowerTerm cfg t = .ok pt) : renderTerm cfg t = printTerm cfg.printable pt := by
  obtain ⟨s, h1, h2⟩ := printTerm_lower_ok cfg hs ht hrb t pt h
  rw [h1, h2]

theorem printExpr_lower (cfg : GenCfg) (hs : cfg.strReprTerm = true) (ht : cfg.tupleRecursive = true)
    (hrb : ∀ s, readBackStr cfg true s = .ok s) (p : Pred) (e : PExpr)
    (h : lowerPred cfg p = .ok e) : renderPred cfg p = printExpr cfg.printable e := by
  obtain ⟨s, h1, h2⟩ := printExpr_lower_ok cfg hs ht hrb p e h
  rw [h1, h2]

theorem printLines_cond (cfg : GenCfg) (hs : cfg.strReprTerm = true) (ht : cfg.tupleRecursive = true)
    (hrb : ∀ s, readBackStr cfg true s = .ok s) (c : Cond) (d : Nat) (L : List ILine)
    (h : linesCond cfg d c = .ok L) :
    renderCond cfg d c = (L.mapM (printILine cfg.printable)).map String.join := by
  obtain ⟨s, h1, h2⟩ := printLines_cond_ok cfg hs ht hrb c d L h
  rw [h1, ← printLines_eq_join, h2]

theorem printLines_sub (cfg : GenCfg) (hs : cfg.strReprTerm = true) (ht : cfg.tupleRecursive = true)
    (hrb : ∀ s, readBackStr cfg true s = .ok s) (sb : Sub) (d : Nat) (L : List ILine)
    (h : linesSub cfg d sb = .ok L) :
    renderSub cfg d sb = (L.mapM (printILine cfg.printable)).map String.join := by
  obtain ⟨s, h1, h2⟩ := printLines_sub_ok cfg hs ht hrb sb d L h
  rw [h1, ← printLines_eq_join, h2]

/-- the conditional's text and lines as one equation, errors included -/
theorem renderCond_factors (cfg : GenCfg) (hs : cfg.strReprTerm = true) (ht : cfg.tupleRecursive = true)
    (hrb : ∀ s, readBackStr cfg true s = .ok s) (c : Cond) (d : Nat) :
    renderCond cfg d c = linesCond cfg d c >>= printLines cfg.printable := by
  cases h : linesCond cfg d c with
  | error err => rw [renderCond_lines_error cfg hs ht hrb c d err h]; rfl
  | ok L =>
      obtain ⟨s, h1, h2⟩ := printLines_cond_ok cfg hs ht hrb c d L h
      rw [h1]; exact h2.symm

/-! ### string substitution: the text changes only where a constant is printed -/

mutual
theorem idents_substTerm (σ : String → String) : ∀ t : Term, (substTerm σ t).idents = t.idents
  | .int _ => rfl
  | .float _ _ => rfl
  | .str _ => by simp [substTerm, Term.idents]
  | .ident _ => rfl
  | .tuple l => by simp [substTerm, Term.idents, identsList_substTerms σ l]
theorem identsList_substTerms (σ : String → String) :
    ∀ l : List Term, Term.identsList (substTerms σ l) = Term.identsList l
  | [] => rfl
  | t :: ts => by simp [substTerms, Term.identsList, idents_substTerm σ t, identsList_substTerms σ ts]
end

theorem identsTop_substTerm (σ : String → String) (t : Term) : (substTerm σ t).identsTop = t.identsTop := by
  cases t <;> simp [substTerm, Term.identsTop]

theorem idents_substPred (σ : String → String) (deep : Bool) :
    ∀ p : Pred, (substPred σ p).idents deep = p.idents deep
  | .cmp l op r => by simp [substPred, Pred.idents, idents_substTerm, identsTop_substTerm]
  | .and a b => by simp [substPred, Pred.idents, idents_substPred σ deep a, idents_substPred σ deep b]
  | .or a b => by simp [substPred, Pred.idents, idents_substPred σ deep a, idents_substPred σ deep b]
  | .not a => by simp [substPred, Pred.idents, idents_substPred σ deep a]

mutual
theorem idents_substCond (σ : String → String) (deep : Bool) :
    ∀ c : Cond, (substCond σ c).idents deep = c.idents deep
  | .ret _ => by simp [substCond, Cond.idents]
  | .ifte p t rest => by
      simp [substCond, Cond.idents, idents_substPred, idents_substCond σ deep t, idents_substSub σ deep rest]
theorem idents_substSub (σ : String → String) (deep : Bool) :
    ∀ s : Sub, (substSub σ s).idents deep = s.idents deep
  | .none => by simp [substSub, Sub.idents]
  | .else_ t => by simp [substSub, Sub.idents, idents_substCond σ deep t]
  | .elif p t rest => by
      simp [substSub, Sub.idents, idents_substPred, idents_substCond σ deep t, idents_substSub σ deep rest]
end

/-- every string of the conditional (predicate operands, tuple members, group names) replaced -/
def substExperiment (σ : String → String) (e : Experiment) : Experiment :=
  { e with cond := substCond σ e.cond }

theorem condIds_subst (cfg : GenCfg) (σ : String → String) (e : Experiment) :
    (substExperiment σ e).condIds cfg = e.condIds cfg := by
  simp [Experiment.condIds, substExperiment, idents_substCond]

theorem params_subst (cfg : GenCfg) (σ : String → String) (e : Experiment) :
    (substExperiment σ e).params cfg = e.params cfg := by
  simp only [Experiment.params, condIds_subst]
  rfl

/-- the fixed pieces of the module do not see the strings of the conditional -/
theorem moduleText_subst (cfg : GenCfg) (σ : String → String) (e : Experiment) (expose : Bool) :
    moduleText cfg (substExperiment σ e) expose = moduleText cfg e expose := by
  funext body
  simp only [moduleText, fnDefText, sigText, callText, params_subst, condIds_subst]
  rfl

theorem moduleOfLines_subst (cfg : GenCfg) (σ : String → String) (e : Experiment) (expose : Bool) :
    moduleOfLines cfg (substExperiment σ e) expose = moduleOfLines cfg e expose := by
  funext L
  simp only [moduleOfLines, moduleText_subst]

/-- what kind of statement a line is -/
inductive LineKind where
  | ifK | elifK | elseK | retK (groups : Nat) | raiseK
deriving DecidableEq, Repr

def lineKind : Line → LineKind
  | .ifL _ => .ifK
  | .elifL _ => .elifK
  | .elseL => .elseK
  | .ret pop _ => .retK pop.length
  | .raiseU => .raiseK

/-- indentation and kind of every line -/
def layoutOf (L : List ILine) : List (Nat × LineKind) := L.map fun x => (x.1, lineKind x.2)

theorem kind_maskLine (l : Line) : lineKind (maskLine l) = lineKind l := by
  cases l <;> simp [maskLine, lineKind]

theorem layoutOf_mask (L : List ILine) : layoutOf (L.map maskILine) = layoutOf L := by
  simp [layoutOf, List.map_map, Function.comp_def, maskILine, kind_maskLine]

theorem layoutOf_eq_of_mask {L L' : List ILine} (h : L.map maskILine = L'.map maskILine) :
    layoutOf L = layoutOf L' := by
  rw [← layoutOf_mask L, h, layoutOf_mask]

/-- **The text depends on the strings only through the printed constants.**  If the text is
    generated for `e` and for `e` with every string of the conditional replaced, both texts
    are `moduleOfLines` — the same fixed pieces, the same printer — of bodies whose lines
    coincide once the constants are blanked: same number of lines, same indentation, same
    statements, same names, operators, tuple shapes, number of groups and weights. -/
theorem genText_subst (cfg : GenCfg) (hc : CanonicalExpr cfg)
    (hrb : ∀ s, readBackStr cfg true s = .ok s) (σ : String → String) (e : Experiment) (expose : Bool)
    (T T' : String) (h : genText cfg e expose = .ok T)
    (h' : genText cfg (substExperiment σ e) expose = .ok T') :
    ∃ L L', bodyLines cfg (bodyDepth expose) e.cond = .ok L ∧
      bodyLines cfg (bodyDepth expose) (substCond σ e.cond) = .ok L' ∧
      L.map maskILine = L'.map maskILine ∧
      moduleOfLines cfg e expose L = .ok T ∧ moduleOfLines cfg e expose L' = .ok T' := by
  rw [genText_factors cfg hc.strTerm hc.tuples hrb, bind_ok_iff] at h h'
  obtain ⟨L, hL, hT⟩ := h
  obtain ⟨L', hL', hT'⟩ := h'
  rw [moduleOfLines_subst] at hT'
  exact ⟨L, L', hL, hL', bodyLines_subst_skeleton cfg hc hrb σ e.cond _ L L' hL hL', hT, hT'⟩

/-- whether the text is generated, and the error otherwise, does not depend on the strings -/
theorem genText_subst_error (cfg : GenCfg) (hc : CanonicalExpr cfg)
    (hrb : ∀ s, readBackStr cfg true s = .ok s) (σ : String → String) (e : Experiment) (expose : Bool)
    (err : Err) :
    genText cfg e expose = .error err ↔ genText cfg (substExperiment σ e) expose = .error err := by
  rw [genText_error_iff cfg hc.strTerm hc.tuples hrb, genText_error_iff cfg hc.strTerm hc.tuples hrb]
  exact bodyLines_subst_error cfg hc hrb σ e.cond _ err

/-! ### string substitution acts on the lines constant by constant -/

/-- the replacement applied to a constant: only a `str` changes -/
def substVal (σ : String → String) : PyVal → PyVal
  | .str s => .str (σ s)
  | v => v

mutual
def substPTerm (σ : String → String) : PTerm → PTerm
  | .const v => .const (substVal σ v)
  | .name n => .name n
  | .tuple l => .tuple (substPTerms σ l)
def substPTerms (σ : String → String) : List PTerm → List PTerm
  | [] => []
  | t :: ts => substPTerm σ t :: substPTerms σ ts
end

def substPExpr (σ : String → String) : PExpr → PExpr
  | .cmp l op r => .cmp (substPTerm σ l) op (substPTerm σ r)
  | .bin a op b => .bin (substPExpr σ a) op (substPExpr σ b)
  | .un op a => .un op (substPExpr σ a)

def substLine (σ : String → String) : Line → Line
  | .ifL e => .ifL (substPExpr σ e)
  | .elifL e => .elifL (substPExpr σ e)
  | .elseL => .elseL
  | .ret pop ws => .ret (pop.map (substVal σ)) ws
  | .raiseU => .raiseU

def substILine (σ : String → String) : ILine → ILine := fun x => (x.1, substLine σ x.2)

/-- where a replaced constant is printed, the text is the `repr` of the new string;
    every other constant prints as before -/
theorem printConst_substVal (printable : Nat → Bool) (σ : String → String) (v : PyVal) :
    printConst printable (substVal σ v) =
      match v with
      | .str s => .ok (PyStrLit.pyReprStr printable (σ s))
      | v => printConst printable v := by
  cases v <;> simp [substVal, printConst_str]

mutual
theorem lowerTerm_subst (cfg : GenCfg) (hs : cfg.strReprTerm = true) (ht : cfg.tupleRecursive = true)
    (hrb : ∀ s, readBackStr cfg true s = .ok s) (σ : String → String) :
    ∀ t : Term, lowerTerm cfg (substTerm σ t) = (lowerTerm cfg t).map (substPTerm σ)
  | .int i => by
      simp only [substTerm, lowerTerm]
      cases intStr i <;> rfl
  | .float d nz => rfl
  | .str s => by
      simp only [substTerm, lowerTerm, hs, hrb]
      rfl
  | .ident n => rfl
  | .tuple l => by
      simp only [substTerm, lowerTerm, ht, if_true, lowerTerms_subst cfg hs ht hrb σ l]
      cases lowerTerms cfg l <;> rfl
theorem lowerTerms_subst (cfg : GenCfg) (hs : cfg.strReprTerm = true) (ht : cfg.tupleRecursive = true)
    (hrb : ∀ s, readBackStr cfg true s = .ok s) (σ : String → String) :
    ∀ l : List Term, lowerTerms cfg (substTerms σ l) = (lowerTerms cfg l).map (substPTerms σ)
  | [] => rfl
  | t :: ts => by
      simp only [substTerms, lowerTerms, lowerTerm_subst cfg hs ht hrb σ t, lowerTerms_subst cfg hs ht hrb σ ts]
      cases lowerTerm cfg t <;> cases lowerTerms cfg ts <;> rfl
end

theorem lowerPred_subst (cfg : GenCfg) (hs : cfg.strReprTerm = true) (ht : cfg.tupleRecursive = true)
    (hrb : ∀ s, readBackStr cfg true s = .ok s) (σ : String → String) :
    ∀ p : Pred, lowerPred cfg (substPred σ p) = (lowerPred cfg p).map (substPExpr σ)
  | .cmp l op r => by
      simp only [substPred, lowerPred, lowerTerm_subst cfg hs ht hrb σ]
      cases lowerTerm cfg l <;> cases lowerTerm cfg r <;> rfl
  | .and a b => by
      simp only [substPred, lowerPred, lowerPred_subst cfg hs ht hrb σ a, lowerPred_subst cfg hs ht hrb σ b]
      cases lowerPred cfg a <;> cases lowerPred cfg b <;> rfl
  | .or a b => by
      simp only [substPred, lowerPred, lowerPred_subst cfg hs ht hrb σ a, lowerPred_subst cfg hs ht hrb σ b]
      cases lowerPred cfg a <;> cases lowerPred cfg b <;> rfl
  | .not a => by
      simp only [substPred, lowerPred, lowerPred_subst cfg hs ht hrb σ a]
      cases lowerPred cfg a <;> rfl

theorem groupVal_subst (cfg : GenCfg) (hrb : ∀ s, readBackStr cfg true s = .ok s)
    (σ : String → String) (t : Term) :
    groupVal cfg (substTerm σ t) = (groupVal cfg t).map (substVal σ) := by
  cases t with
  | int i => simp only [substTerm, groupVal]; cases intStr i <;> rfl
  | float d nz => rfl
  | str s => simp only [substTerm, groupVal, hrb]; rfl
  | ident n => rfl
  | tuple l => rfl

theorem pop_subst (cfg : GenCfg) (hrb : ∀ s, readBackStr cfg true s = .ok s) (σ : String → String) :
    ∀ gs : List Group,
      (gs.map (substGroup σ)).mapM (fun g => groupVal cfg g.defn)
        = (gs.mapM (fun g => groupVal cfg g.defn)).map (List.map (substVal σ))
  | [] => rfl
  | g :: gs => by
      simp only [List.map_cons, List.mapM_cons, pop_subst cfg hrb σ gs]
      have : groupVal cfg (substGroup σ g).defn = (groupVal cfg g.defn).map (substVal σ) :=
        groupVal_subst cfg hrb σ g.defn
      rw [this]
      cases groupVal cfg g.defn <;> cases List.mapM (fun g => groupVal cfg g.defn) gs <;> rfl

theorem lowerReturn_subst (cfg : GenCfg) (hrb : ∀ s, readBackStr cfg true s = .ok s)
    (σ : String → String) (gs : List Group) :
    lowerReturn cfg (gs.map (substGroup σ)) = (lowerReturn cfg gs).map (substLine σ) := by
  simp only [lowerReturn, retVals, weights_subst, weightList_subst, pop_subst cfg hrb σ gs]
  cases List.mapM (fun g => groupVal cfg g.defn) gs <;>
    cases List.mapM (fun g => renderWeight g.weight) gs <;> rfl

mutual
theorem linesCond_subst (cfg : GenCfg) (hs : cfg.strReprTerm = true) (ht : cfg.tupleRecursive = true)
    (hrb : ∀ s, readBackStr cfg true s = .ok s) (σ : String → String) :
    ∀ (c : Cond) (d : Nat),
      linesCond cfg d (substCond σ c) = (linesCond cfg d c).map (List.map (substILine σ))
  | .ret gs, d => by
      simp only [substCond, linesCond, lowerReturn_subst cfg hrb σ gs]
      cases lowerReturn cfg gs <;> rfl
  | .ifte p t rest, d => by
      simp only [substCond, linesCond, lowerPred_subst cfg hs ht hrb σ p,
        linesCond_subst cfg hs ht hrb σ t (d + 1), linesSub_subst cfg hs ht hrb σ rest d]
      cases lowerPred cfg p <;> cases linesCond cfg (d + 1) t <;> cases linesSub cfg d rest <;>
        simp [bind, Except.bind, Except.map, pure, Except.pure, substILine, substLine]
theorem linesSub_subst (cfg : GenCfg) (hs : cfg.strReprTerm = true) (ht : cfg.tupleRecursive = true)
    (hrb : ∀ s, readBackStr cfg true s = .ok s) (σ : String → String) :
    ∀ (sb : Sub) (d : Nat),
      linesSub cfg d (substSub σ sb) = (linesSub cfg d sb).map (List.map (substILine σ))
  | .none, d => rfl
  | .else_ t, d => by
      simp only [substSub, linesSub, linesCond_subst cfg hs ht hrb σ t (d + 1)]
      cases linesCond cfg (d + 1) t <;> rfl
  | .elif p t rest, d => by
      simp only [substSub, linesSub, lowerPred_subst cfg hs ht hrb σ p,
        linesCond_subst cfg hs ht hrb σ t (d + 1), linesSub_subst cfg hs ht hrb σ rest d]
      cases lowerPred cfg p <;> cases linesCond cfg (d + 1) t <;> cases linesSub cfg d rest <;>
        simp [bind, Except.bind, Except.map, pure, Except.pure, substILine, substLine]
end

/-- the body emitted for the source with its strings replaced is the body emitted for the
    source, with the replacement applied to each `str` constant — nothing else changes,
    and the same error is raised if any -/
theorem bodyLines_subst (cfg : GenCfg) (hs : cfg.strReprTerm = true) (ht : cfg.tupleRecursive = true)
    (hrb : ∀ s, readBackStr cfg true s = .ok s) (σ : String → String) (c : Cond) (d : Nat) :
    bodyLines cfg d (substCond σ c) = (bodyLines cfg d c).map (List.map (substILine σ)) := by
  simp only [bodyLines, linesCond_subst cfg hs ht hrb σ c d]
  cases linesCond cfg d c <;>
    simp [bind, Except.bind, Except.map, pure, Except.pure, substILine, substLine]

/-- the text generated for the source with its strings replaced is the module printed from
    the lines of the *original* source with the replacement applied to each `str` constant:
    the two texts are printed from the same lines up to the contents of those constants,
    each of which is printed by `PyStrLit.pyReprStr` (`printConst_substVal`) -/
theorem genText_subst_lines (cfg : GenCfg) (hs : cfg.strReprTerm = true) (ht : cfg.tupleRecursive = true)
    (hrb : ∀ s, readBackStr cfg true s = .ok s) (σ : String → String) (e : Experiment) (expose : Bool) :
    genText cfg (substExperiment σ e) expose =
      bodyLines cfg (bodyDepth expose) e.cond >>= fun L =>
        moduleOfLines cfg e expose (L.map (substILine σ)) := by
  rw [genText_factors cfg hs ht hrb, moduleOfLines_subst]
  show bodyLines cfg (bodyDepth expose) (substCond σ e.cond) >>= _ = _
  rw [bodyLines_subst cfg hs ht hrb]
  cases bodyLines cfg (bodyDepth expose) e.cond <;> rfl

/-! ### the replacement is invisible once the constants are blanked -/

mutual
theorem maskTerm_substPTerm (σ : String → String) : ∀ t : PTerm, maskTerm (substPTerm σ t) = maskTerm t
  | .const _ => rfl
  | .name _ => rfl
  | .tuple l => by simp [substPTerm, maskTerm, maskTerms_substPTerms σ l]
theorem maskTerms_substPTerms (σ : String → String) :
    ∀ l : List PTerm, maskTerms (substPTerms σ l) = maskTerms l
  | [] => rfl
  | t :: ts => by simp [substPTerms, maskTerms, maskTerm_substPTerm σ t, maskTerms_substPTerms σ ts]
end

theorem maskExpr_substPExpr (σ : String → String) : ∀ e : PExpr, maskExpr (substPExpr σ e) = maskExpr e
  | .cmp l op r => by simp [substPExpr, maskExpr, maskTerm_substPTerm]
  | .bin a op b => by simp [substPExpr, maskExpr, maskExpr_substPExpr σ a, maskExpr_substPExpr σ b]
  | .un op a => by simp [substPExpr, maskExpr, maskExpr_substPExpr σ a]

theorem maskILine_substILine (σ : String → String) (x : ILine) : maskILine (substILine σ x) = maskILine x := by
  obtain ⟨d, l⟩ := x
  cases l <;> simp [substILine, substLine, maskILine, maskLine, maskExpr_substPExpr, List.map_map,
    Function.comp_def]

theorem layoutOf_substILine (σ : String → String) (L : List ILine) :
    layoutOf (L.map (substILine σ)) = layoutOf L := by
  apply layoutOf_eq_of_mask
  simp [List.map_map, Function.comp_def, maskILine_substILine]

end Pyab.Proofs
