/-
  Python's reading of the emitted text inverts the printer.

  `Model/PyRead.lean` models how Python reads the text of the generated function body
  (tokenizer, expression reader, statement reader, lines).  `Proofs/TextOfLines.lean` has
  the printer of the structured view (`printTerm / printExpr / printLine / printILine /
  printLines`) and the proof that `genText` is the printed lines.  This file proves

      readTerm (printTerm t) = some t         readExpr (printExpr e) = some e
      readLine (printILine x) = some x        readBody (printLines L) = some L

  (`read_print_term`, `read_print_expr`, `read_print_line`, `read_print_lines`,
  `read_print_body`) for every line whose names are Python identifiers and not keywords,
  whose operator texts are the canonical ones and whose float constants read back
  (`LineOK`; `FloatReads`, computed by `floatReadsB`) — for arbitrary ints and arbitrary
  strings (`scan_repr` of `Proofs/StrLit.lean`).

  How it goes.  Text to tokens: `tokenizeLine` is freed from its fuel (`tokenizeF_fuel`),
  each kind of token is read back before a delimiter (`nextTok_word`, `nextTok_nat`,
  `nextTok_repr`, the symbols), pieces of text compose (`LexesP.append`).  Tokens to trees:
  `reads_const`, `reads_name`, `reads_tuple`, then `reads_term` / `reads_expr` by induction
  on the tree, each producing the tokens and the fact that the expression reader rebuilds
  the tree from them with any fuel at least their number.  Statements (`reads_stmt`), one
  line (`readLineChars_stmt`), all lines (`readBodyF_lines`).

  Floats.  `FloatReads d nz` asks that the printed text of the constant is read back as that
  very `Dbl` term; `floatReadsB` computes it (print, read as a number — `scanNumber_extend`
  carries the reading of the whole text to any context — compare).  `Dbl` has several terms
  for one value, so for constants held otherwise (`Dbl.ofNat 1`) the round trip is stated up
  to re-reading (`rereadILine`, `read_print_lines_reread`, condition `floatStableB`).
  The side conditions are parametric (`LineOKW`, `condSrcOKW`); `linesOKW_body` derives them
  for emitted lines from a computed condition on the source.
-/
import Pyab.Model.PyRead
import Pyab.Proofs.TextOfLines
import Pyab.Proofs.StrLit
namespace Pyab.Proofs
open Pyab Pyab.Spec Pyab.PyRead

/-! ### the tokenizer without its fuel -/

theorem tokenizeF_nil (n : Nat) : tokenizeF n [] = some ([], []) := by
  cases n <;> rfl

theorem tokenizeF_fuel : ∀ (n m : Nat) (cs : List Char), cs.length ≤ n → cs.length ≤ m →
    tokenizeF n cs = tokenizeF m cs
  | n, m, [], _, _ => by rw [tokenizeF_nil, tokenizeF_nil]
  | 0, _, _ :: _, h, _ => by simp at h
  | _, 0, _ :: _, _, h => by simp at h
  | n + 1, m + 1, c :: cs, hn, hm => by
      simp only [List.length_cons, Nat.add_le_add_iff_right] at hn hm
      simp only [tokenizeF]
      split
      · rfl
      split
      · exact tokenizeF_fuel n m cs hn hm
      split
      · rename_i t rest _
        split
        · rename_i hl
          simp only [List.length_cons] at hl
          rw [tokenizeF_fuel n m rest (by omega) (by omega)]
        · rfl
      · rfl

/-- put a token in front of a tokenizer result -/
def prep (ts : List Tok) : Option (List Tok × List Char) → Option (List Tok × List Char) :=
  Option.map fun (us, r) => (ts ++ us, r)

theorem prep_nil (x) : prep [] x = x := by
  cases x <;> simp [prep]

theorem prep_append (a b : List Tok) (x) : prep (a ++ b) x = prep a (prep b x) := by
  cases x <;> simp [prep]

theorem tokenizeLine_nil : tokenizeLine [] = some ([], []) := rfl

theorem tokenizeLine_nl (cs : List Char) : tokenizeLine ('\n' :: cs) = some ([], cs) := by
  simp [tokenizeLine, tokenizeF]

theorem tokenizeLine_blank (cs : List Char) : tokenizeLine (' ' :: cs) = tokenizeLine cs := by
  simp [tokenizeLine, tokenizeF]

theorem tokenizeLine_tok (c : Char) (cs : List Char) (t : Tok) (rest : List Char)
    (h1 : c ≠ '\n') (h2 : c ≠ ' ') (h : nextTok (c :: cs) = some (t, rest))
    (hl : rest.length ≤ cs.length) :
    tokenizeLine (c :: cs) = prep [t] (tokenizeLine rest) := by
  simp only [tokenizeLine, List.length_cons, tokenizeF, beq_iff_eq, h1, h2, if_false, h]
  rw [if_pos (by omega), tokenizeF_fuel cs.length rest.length rest hl (Nat.le_refl _)]
  rfl

/-! ### single tokens -/

/-- what follows an operand in the emitted text -/
def delim : List Char → Bool
  | [] => true
  | c :: _ => c == ')' || c == ',' || c == ' ' || c == ']' || c == ':' || c == '\n'

theorem delim_cases {rest : List Char} (h : delim rest = true) :
    rest = [] ∨ ∃ c r, rest = c :: r ∧ (c = ')' ∨ c = ',' ∨ c = ' ' ∨ c = ']' ∨ c = ':' ∨ c = '\n') := by
  cases rest with
  | nil => exact .inl rfl
  | cons c r => exact .inr ⟨c, r, rfl, by simpa [delim, or_assoc] using h⟩

theorem takeWhile_append_stop {p : Char → Bool} (w rest : List Char) (hw : ∀ c ∈ w, p c = true)
    (hr : ∀ c r, rest = c :: r → p c = false) : (w ++ rest).takeWhile p = w := by
  induction w with
  | nil =>
    cases rest with
    | nil => rfl
    | cons c r => simp [hr c r rfl]
  | cons a w ih =>
    have ha : p a = true := hw a (by simp)
    have := ih (fun c hc => hw c (by simp [hc]))
    simp [ha, this]

theorem dropWhile_append_stop {p : Char → Bool} (w rest : List Char) (hw : ∀ c ∈ w, p c = true)
    (hr : ∀ c r, rest = c :: r → p c = false) : (w ++ rest).dropWhile p = rest := by
  induction w with
  | nil =>
    cases rest with
    | nil => rfl
    | cons c r => simp [hr c r rfl]
  | cons a w ih =>
    have ha : p a = true := hw a (by simp)
    have := ih (fun c hc => hw c (by simp [hc]))
    simp [ha, this]

theorem delim_not_idChar {rest : List Char} (h : delim rest = true) :
    ∀ c r, rest = c :: r → isIdChar c = false := by
  intro c r hc
  rcases delim_cases h with h | ⟨c', r', h', hc'⟩
  · simp [h] at hc
  · rw [h'] at hc; cases hc
    rcases hc' with h | h | h | h | h | h <;> subst h <;> decide

theorem delim_not_digit {rest : List Char} (h : delim rest = true) :
    ∀ c r, rest = c :: r → Char.isDigit c = false := by
  intro c r hc
  rcases delim_cases h with h | ⟨c', r', h', hc'⟩
  · simp [h] at hc
  · rw [h'] at hc; cases hc
    rcases hc' with h | h | h | h | h | h <;> subst h <;> decide

theorem isIdStart_not_quote {c : Char} (h : isIdStart c = true) : (c == '\'' || c == '"') = false := by
  cases hq : (c == '\'' || c == '"')
  · rfl
  · simp only [Bool.or_eq_true, beq_iff_eq] at hq
    rcases hq with hq | hq <;> subst hq <;> simp [isIdStart] at h

theorem isIdStart_ne {c : Char} (h : isIdStart c = true) : c ≠ '\n' ∧ c ≠ ' ' := by
  constructor <;> (intro hc; subst hc; simp [isIdStart] at h)

/-- what may follow a word: no letter, digit, `_`, and no quote -/
def wordStop : List Char → Bool
  | [] => true
  | c :: _ => !isIdChar c && c != '\'' && c != '"'

theorem delim_wordStop {rest : List Char} (h : delim rest = true) : wordStop rest = true := by
  rcases delim_cases h with h | ⟨c', r', h', hc'⟩
  · subst h; rfl
  · subst h'
    rcases hc' with h | h | h | h | h | h <;> subst h <;> rfl

/-- a word followed by something that ends it -/
theorem nextTok_word' (c : Char) (w rest : List Char) (t : Tok) (hc : isIdStart c = true)
    (hw : ∀ x ∈ w, isIdChar x = true) (ht : classifyWord (String.ofList (c :: w)) = some t)
    (hr : wordStop rest = true) : nextTok (c :: (w ++ rest)) = some (t, rest) := by
  have hstop : ∀ x r, rest = x :: r → isIdChar x = false := by
    intro x r hx; subst hx
    simp only [wordStop, Bool.and_eq_true, Bool.not_eq_true'] at hr
    exact hr.1.1
  have hq : (rest.head? == some '\'' || rest.head? == some '"') = false := by
    cases rest with
    | nil => rfl
    | cons x r =>
      simp only [wordStop, Bool.and_eq_true, bne_iff_ne, ne_eq] at hr
      simp [hr.1.2, hr.2]
  have hs1 := takeWhile_append_stop w rest hw hstop
  have hs2 := dropWhile_append_stop w rest hw hstop
  simp only [nextTok, isIdStart_not_quote hc, hc, if_true, hs1, hs2, ht, hq,
    Bool.false_eq_true, if_false]
  rfl

/-- a word followed by a delimiter -/
theorem nextTok_word (c : Char) (w rest : List Char) (t : Tok) (hc : isIdStart c = true)
    (hw : ∀ x ∈ w, isIdChar x = true) (ht : classifyWord (String.ofList (c :: w)) = some t)
    (hr : delim rest = true) : nextTok (c :: (w ++ rest)) = some (t, rest) :=
  nextTok_word' c w rest t hc hw ht (delim_wordStop hr)

/-! ### numbers -/

theorem isDigit_not_quote {c : Char} (h : c.isDigit = true) : (c == '\'' || c == '"') = false := by
  cases hq : (c == '\'' || c == '"')
  · rfl
  · simp only [Bool.or_eq_true, beq_iff_eq] at hq
    rcases hq with hq | hq <;> subst hq <;> simp [Char.isDigit] at h

theorem isDigit_not_idStart {c : Char} (h : c.isDigit = true) : isIdStart c = false := by
  simp only [Char.isDigit, Bool.and_eq_true, decide_eq_true_eq, ge_iff_le, UInt32.le_iff_toNat_le] at h
  simp only [isIdStart, Char.isAlpha, Char.isUpper, Char.isLower, Bool.or_eq_false_iff,
    Bool.and_eq_false_iff, decide_eq_false_iff_not, beq_eq_false_iff_ne, ge_iff_le,
    UInt32.le_iff_toNat_le]
  have h1 := h.1
  have h2 := h.2
  simp only [Char.reduceVal, UInt32.reduceToNat] at h1 h2 ⊢
  refine ⟨⟨?_, ?_⟩, ?_⟩
  · omega
  · omega
  · intro hc; subst hc; simp at h2

theorem isDigit_ne {c : Char} (h : c.isDigit = true) : c ≠ '\n' ∧ c ≠ ' ' := by
  constructor <;> (intro hc; subst hc; simp [Char.isDigit] at h)

theorem delim_numFollowOK {rest : List Char} (h : delim rest = true) : numFollowOK rest = true := by
  rcases delim_cases h with h | ⟨c', r', h', hc'⟩
  · subst h; rfl
  · subst h'
    rcases hc' with h | h | h | h | h | h <;> subst h <;> rfl

/-- the end of a number before a delimiter: no exponent -/
theorem scanExp_delim (ip fp : List Char) (isFloat : Bool) (rest : List Char) (h : delim rest = true) :
    scanExp ip fp isFloat rest =
      if isFloat then some (.float (mkFloat ip fp 0), rest)
      else if ip.head? == some '0' && ip.any (· != '0') then none
      else some (.int (Nat.ofDigitChars 10 ip 0), rest) := by
  have hf := delim_numFollowOK h
  rcases delim_cases h with h | ⟨c', r', h', hc'⟩
  · subst h; simp [scanExp, scanPlain, numFinish, hf]
  · subst h'
    rcases hc' with h | h | h | h | h | h <;> subst h <;> simp [scanExp, scanPlain, numFinish, hf]

theorem scanNumber_digits (ds rest : List Char) (hd : ∀ c ∈ ds, c.isDigit = true)
    (hr : delim rest = true) : scanNumber (ds ++ rest) = scanExp ds [] false rest := by
  have h1 := takeWhile_append_stop ds rest hd (delim_not_digit hr)
  have h2 := dropWhile_append_stop ds rest hd (delim_not_digit hr)
  unfold scanNumber
  simp only [h1, h2]
  rcases delim_cases hr with h | ⟨c', r', h', hc'⟩
  · subst h; rfl
  · subst h'
    rcases hc' with h | h | h | h | h | h <;> subst h <;> rfl

/-- decimal digits without a superfluous leading zero, before a delimiter: an `int` literal -/
theorem nextTok_digits (d : Char) (ds rest : List Char) (hd : ∀ c ∈ d :: ds, c.isDigit = true)
    (hz : ((d :: ds).head? == some '0' && (d :: ds).any (· != '0')) = false)
    (hr : delim rest = true) :
    nextTok (d :: (ds ++ rest)) = some (.int (Nat.ofDigitChars 10 (d :: ds) 0), rest) := by
  have hd0 : d.isDigit = true := hd d (by simp)
  have hn := scanNumber_digits (d :: ds) rest hd hr
  simp only [List.cons_append] at hn
  simp only [nextTok, isDigit_not_quote hd0, isDigit_not_idStart hd0, hd0, if_true,
    Bool.false_eq_true, if_false, hn]
  rw [scanExp_delim _ _ _ _ hr, hz]
  rfl

theorem toDigits_head_ne_zero : ∀ n : Nat, 0 < n → (Nat.toDigits 10 n).head? ≠ some '0' := by
  intro n
  induction n using Nat.strongRecOn with
  | _ n ih =>
    intro hn
    by_cases h : n < 10
    · rw [Nat.toDigits_of_lt_base h]
      simp only [List.head?_cons, ne_eq, Option.some.injEq, Nat.digitChar_eq_zero]
      omega
    · rw [Nat.toDigits_of_base_le (by decide) (by omega)]
      rw [List.head?_append]
      have := ih (n / 10) (by omega) (by omega)
      cases hh : (Nat.toDigits 10 (n / 10)).head? with
      | none => exact absurd (List.head?_eq_none_iff.mp hh) Nat.toDigits_ne_nil
      | some x =>
        rw [hh] at this
        simpa using this

theorem toDigits_no_leading_zero (n : Nat) :
    ((Nat.toDigits 10 n).head? == some '0' && (Nat.toDigits 10 n).any (· != '0')) = false := by
  by_cases hn : n = 0
  · subst hn; rfl
  · have := toDigits_head_ne_zero n (by omega)
    cases h : (Nat.toDigits 10 n).head? == some '0'
    · rfl
    · simp only [beq_iff_eq] at h
      exact absurd h this

/-- the decimal digits of a natural number before a delimiter -/
theorem nextTok_nat (n : Nat) (rest : List Char) (hr : delim rest = true) :
    ∃ d ds, Nat.toDigits 10 n = d :: ds ∧ d.isDigit = true ∧
      nextTok (d :: (ds ++ rest)) = some (.int n, rest) := by
  cases h : Nat.toDigits 10 n with
  | nil => exact absurd h Nat.toDigits_ne_nil
  | cons d ds =>
    have hd : ∀ c ∈ d :: ds, c.isDigit = true := by
      intro c hc
      rw [← h] at hc
      exact Nat.isDigit_of_mem_toDigits (by decide) (by decide) hc
    have hz := toDigits_no_leading_zero n
    rw [h] at hz
    refine ⟨d, ds, rfl, hd d (by simp), ?_⟩
    rw [nextTok_digits d ds rest hd hz hr, ← h, Nat.ofDigitChars_ten_toDigits]

/-! ### strings -/

theorem delim_not_squote {rest : List Char} (h : delim rest = true) : rest.head? ≠ some '\'' := by
  rcases delim_cases h with h | ⟨c', r', h', hc'⟩
  · subst h; simp
  · subst h'
    rcases hc' with h | h | h | h | h | h <;> subst h <;> simp

/-- the `repr` of a string before a delimiter: one string token holding that string -/
theorem nextTok_repr (p : Nat → Bool) (s rest : List Char) (hr : delim rest = true) :
    ∃ q body, PyStrLit.pyReprChars p s = q :: body ∧ q ≠ '\n' ∧ q ≠ ' ' ∧
      nextTok (q :: (body ++ rest)) = some (.str (String.ofList s), rest) := by
  have hscan := scan_repr p s rest (fun _ => delim_not_squote hr)
  have hq := chooseQuote_isQuote s
  refine ⟨PyStrLit.chooseQuote s, s.flatMap (PyStrLit.escapeChar p (PyStrLit.chooseQuote s)) ++ [PyStrLit.chooseQuote s],
    rfl, ?_, ?_, ?_⟩
  · rcases hq with h | h <;> rw [h] <;> decide
  · rcases hq with h | h <;> rw [h] <;> decide
  · have hq' : (PyStrLit.chooseQuote s == '\'' || PyStrLit.chooseQuote s == '"') = true := by
      rcases hq with h | h <;> rw [h] <;> decide
    simp only [PyStrLit.pyReprChars, List.cons_append] at hscan
    simp only [nextTok, hq', if_true, hscan]
    rfl

/-! ### composing pieces of text -/

/-- the text `cs` is read as the tokens `ts`, whatever text satisfying `P` follows -/
def LexesP (P : List Char → Prop) (cs : List Char) (ts : List Tok) : Prop :=
  ∀ rest, P rest → tokenizeLine (cs ++ rest) = prep ts (tokenizeLine rest)

/-- … before a delimiter (`)`, `,`, a blank, `]`, `:`, the end of the line) -/
abbrev Lexes := LexesP (fun r => delim r = true)
/-- … before anything -/
abbrev LexesAny := LexesP (fun _ => True)

theorem LexesP.append {P Q : List Char → Prop} {a b : List Char} {ta tb : List Tok}
    (ha : LexesP P a ta) (hb : LexesP Q b tb) (hPQ : ∀ rest, Q rest → P (b ++ rest)) :
    LexesP Q (a ++ b) (ta ++ tb) := by
  intro rest hr
  rw [List.append_assoc, ha (b ++ rest) (hPQ rest hr), hb rest hr, prep_append]

theorem LexesAny.toP {P : List Char → Prop} {a : List Char} {ta : List Tok} (ha : LexesAny a ta) :
    LexesP P a ta := fun rest _ => ha rest trivial

theorem LexesP.nil (P : List Char → Prop) : LexesP P [] [] := by
  intro rest _; simp [prep_nil]

/-- a piece read before anything, then any piece -/
theorem LexesAny.then {Q : List Char → Prop} {a b : List Char} {ta tb : List Tok}
    (ha : LexesAny a ta) (hb : LexesP Q b tb) : LexesP Q (a ++ b) (ta ++ tb) :=
  LexesP.append ha hb (fun _ _ => trivial)

/-- a piece that needs a delimiter, then a piece that starts with one -/
theorem Lexes.then {Q : List Char → Prop} {a b : List Char} {ta tb : List Tok}
    (ha : Lexes a ta) (hb : LexesP Q b tb) (hd : ∀ rest, delim (b ++ rest) = true) :
    LexesP Q (a ++ b) (ta ++ tb) :=
  LexesP.append ha hb (fun rest _ => hd rest)

theorem lexes_blank : LexesAny [' '] [] := by
  intro rest _
  simp [tokenizeLine_blank, prep_nil]

/-- one token that does not depend on what follows -/
theorem lexesAny_of_nextTok (c : Char) (cs : List Char) (t : Tok) (h1 : c ≠ '\n') (h2 : c ≠ ' ')
    (h : ∀ rest, nextTok (c :: (cs ++ rest)) = some (t, rest)) : LexesAny (c :: cs) [t] := by
  intro rest _
  rw [List.cons_append, tokenizeLine_tok c (cs ++ rest) t rest h1 h2 (h rest) (by simp)]

theorem lexes_lpar : LexesAny ['('] [.sym .lpar] :=
  lexesAny_of_nextTok '(' [] _ (by decide) (by decide) (fun _ => rfl)
theorem lexes_rpar : LexesAny [')'] [.sym .rpar] :=
  lexesAny_of_nextTok ')' [] _ (by decide) (by decide) (fun _ => rfl)
theorem lexes_lbrk : LexesAny ['['] [.sym .lbrk] :=
  lexesAny_of_nextTok '[' [] _ (by decide) (by decide) (fun _ => rfl)
theorem lexes_rbrk : LexesAny [']'] [.sym .rbrk] :=
  lexesAny_of_nextTok ']' [] _ (by decide) (by decide) (fun _ => rfl)
theorem lexes_comma : LexesAny [','] [.sym .comma] :=
  lexesAny_of_nextTok ',' [] _ (by decide) (by decide) (fun _ => rfl)
theorem lexes_colon : LexesAny [':'] [.sym .colon] :=
  lexesAny_of_nextTok ':' [] _ (by decide) (by decide) (fun _ => rfl)
theorem lexes_minus : LexesAny ['-'] [.sym .minus] :=
  lexesAny_of_nextTok '-' [] _ (by decide) (by decide) (fun _ => rfl)

/-- a word of the fragment followed by a delimiter -/
theorem lexes_word (c : Char) (w : List Char) (t : Tok) (hc : isIdStart c = true)
    (hw : ∀ x ∈ w, isIdChar x = true) (ht : classifyWord (String.ofList (c :: w)) = some t) :
    Lexes (c :: w) [t] := by
  intro rest hr
  have := nextTok_word c w rest t hc hw ht hr
  rw [List.cons_append, tokenizeLine_tok c (w ++ rest) t rest (isIdStart_ne hc).1 (isIdStart_ne hc).2
    this (by simp)]

theorem lexes_nat (n : Nat) : Lexes (Nat.toDigits 10 n) [.int n] := by
  intro rest hr
  obtain ⟨d, ds, h, hd, ht⟩ := nextTok_nat n rest hr
  rw [h, List.cons_append, tokenizeLine_tok d (ds ++ rest) _ rest (isDigit_ne hd).1 (isDigit_ne hd).2
    ht (by simp)]

theorem lexes_repr (p : Nat → Bool) (s : List Char) :
    Lexes (PyStrLit.pyReprChars p s) [.str (String.ofList s)] := by
  intro rest hr
  obtain ⟨q, body, h, h1, h2, ht⟩ := nextTok_repr p s rest hr
  rw [h, List.cons_append, tokenizeLine_tok q (body ++ rest) _ rest h1 h2 ht (by simp)]

/-! ### operators and keywords of the fragment -/

/-- a token whose text ends before a blank -/
theorem lexesAny_tok_blank (c : Char) (cs : List Char) (t : Tok) (h1 : c ≠ '\n') (h2 : c ≠ ' ')
    (h : ∀ rest, nextTok (c :: (cs ++ ' ' :: rest)) = some (t, ' ' :: rest)) :
    LexesAny (c :: (cs ++ [' '])) [t] := by
  intro rest _
  simp only [List.cons_append, List.append_assoc, List.nil_append]
  rw [tokenizeLine_tok c (cs ++ ' ' :: rest) t (' ' :: rest) h1 h2 (h rest) (by simp),
    tokenizeLine_blank]

/-- a word of the fragment followed by a blank -/
theorem lexesAny_word_blank (c : Char) (w : List Char) (t : Tok) (hc : isIdStart c = true)
    (hw : ∀ x ∈ w, isIdChar x = true) (ht : classifyWord (String.ofList (c :: w)) = some t) :
    LexesAny (c :: (w ++ [' '])) [t] := by
  have := (lexes_word c w t hc hw ht).then lexes_blank (fun _ => rfl)
  simpa using this

/-- the comparison operators as the generator's operator table spells them -/
def cmpOps : List String := ["==", "!=", "<", ">", "<=", ">=", "in", "not in"]

theorem cmpOp_reads (op : String) (h : op ∈ cmpOps) :
    ∃ ts, LexesAny (' ' :: (op.toList ++ [' '])) ts ∧ ts.length ≤ 2 ∧
      (∀ r, cmpOp (ts ++ r) = some (op, r)) := by
  simp only [cmpOps, List.mem_cons, List.mem_nil_iff, or_false] at h
  rcases h with h | h | h | h | h | h | h | h <;> subst h
  · refine ⟨[.sym .eq], ?_, by simp, fun _ => rfl⟩
    exact lexes_blank.then (lexesAny_tok_blank '=' ['='] _ (by decide) (by decide) (fun _ => rfl))
  · refine ⟨[.sym .ne], ?_, by simp, fun _ => rfl⟩
    exact lexes_blank.then (lexesAny_tok_blank '!' ['='] _ (by decide) (by decide) (fun _ => rfl))
  · refine ⟨[.sym .lt], ?_, by simp, fun _ => rfl⟩
    exact lexes_blank.then (lexesAny_tok_blank '<' [] _ (by decide) (by decide) (fun _ => rfl))
  · refine ⟨[.sym .gt], ?_, by simp, fun _ => rfl⟩
    exact lexes_blank.then (lexesAny_tok_blank '>' [] _ (by decide) (by decide) (fun _ => rfl))
  · refine ⟨[.sym .le], ?_, by simp, fun _ => rfl⟩
    exact lexes_blank.then (lexesAny_tok_blank '<' ['='] _ (by decide) (by decide) (fun _ => rfl))
  · refine ⟨[.sym .ge], ?_, by simp, fun _ => rfl⟩
    exact lexes_blank.then (lexesAny_tok_blank '>' ['='] _ (by decide) (by decide) (fun _ => rfl))
  · refine ⟨[.kw .kIn], ?_, by simp, fun _ => rfl⟩
    exact lexes_blank.then (lexesAny_word_blank 'i' ['n'] _ (by decide) (by decide) rfl)
  · refine ⟨[.kw .kNot, .kw .kIn], ?_, by simp, fun _ => rfl⟩
    exact lexes_blank.then ((lexesAny_word_blank 'n' ['o', 't'] _ (by decide) (by decide) rfl).then
      (lexesAny_word_blank 'i' ['n'] _ (by decide) (by decide) rfl))

theorem boolOp_reads (op : String) (h : op = "and" ∨ op = "or") :
    ∃ ts, LexesAny (' ' :: (op.toList ++ [' '])) ts ∧ ts.length ≤ 1 ∧
      (∀ r, boolOp (ts ++ r) = some (op, r)) := by
  rcases h with h | h <;> subst h
  · exact ⟨[.kw .kAnd], lexes_blank.then
      (lexesAny_word_blank 'a' ['n', 'd'] _ (by decide) (by decide) rfl), by simp, fun _ => rfl⟩
  · exact ⟨[.kw .kOr], lexes_blank.then
      (lexesAny_word_blank 'o' ['r'] _ (by decide) (by decide) rfl), by simp, fun _ => rfl⟩

theorem lexes_not : LexesAny ("not".toList ++ [' ']) [.kw .kNot] :=
  lexesAny_word_blank 'n' ['o', 't'] _ (by decide) (by decide) rfl

/-! ### side conditions -/

/-- a Python identifier `[A-Za-z_][A-Za-z0-9_]*` that is not a keyword -/
def isPyName (n : String) : Bool :=
  match n.toList with
  | [] => false
  | c :: w => isIdStart c && w.all isIdChar && !pyKeywords.contains n

/-- the text `s` is read as a float literal of value `d'`, with a `-` in front if `neg` -/
def LexFloat (s : String) (neg : Bool) (d' : Dbl) : Prop :=
  Lexes s.toList ((if neg then [.sym .minus] else []) ++ [.float d'])

/-- the constant Python builds from an optional `-` and a float literal -/
def signedFloat (neg : Bool) (d' : Dbl) : Dbl × Bool :=
  if neg then (Dbl.neg d', isZero d') else (d', false)

/-- **the side condition on float constants**: the text printed for the constant is read
    back as that very constant.  (`inf`, `-inf`, `nan` never satisfy it: Python reads these
    texts as names — finding family K2.) -/
def FloatReads (d : Dbl) (nz : Bool) : Prop :=
  ∃ neg d', LexFloat (floatStr d nz) neg d' ∧ signedFloat neg d' = (d, nz)

/-- the same for a float weight -/
def WeightReads (d : Dbl) : Prop :=
  ∃ neg d', LexFloat (Dbl.repr d) neg d' ∧ (signedFloat neg d').1 = d

/-- constants: everything but a tuple value (the generator lowers tuples to displays); `F` is
    the condition on float constants -/
def ConstOKW (F : Dbl → Bool → Prop) : PyVal → Prop
  | .float d nz => F d nz
  | .tuple _ => False
  | _ => True

mutual
/-- operands: names are Python names, constants satisfy `ConstOKW` -/
def TermOKW (F : Dbl → Bool → Prop) : PTerm → Prop
  | .const v => ConstOKW F v
  | .name n => isPyName n = true
  | .tuple l => TermsOKW F l
def TermsOKW (F : Dbl → Bool → Prop) : List PTerm → Prop
  | [] => True
  | t :: ts => TermOKW F t ∧ TermsOKW F ts
end

/-- conditions: operands as above, operator texts the canonical ones -/
def ExprOKW (F : Dbl → Bool → Prop) : PExpr → Prop
  | .cmp l op r => TermOKW F l ∧ op ∈ cmpOps ∧ TermOKW F r
  | .bin a op b => ExprOKW F a ∧ (op = "and" ∨ op = "or") ∧ ExprOKW F b
  | .un op a => op = "not" ∧ ExprOKW F a

/-- weights; `W` is the condition on float weights -/
def NumOKW (W : Dbl → Prop) : Num → Prop
  | .i _ => True
  | .f d => W d

def LineOKW (F : Dbl → Bool → Prop) (W : Dbl → Prop) : Line → Prop
  | .ifL e => ExprOKW F e
  | .elifL e => ExprOKW F e
  | .ret pop ws => (∀ v ∈ pop, ConstOKW F v) ∧ (∀ w ∈ ws, NumOKW W w)
  | _ => True

/-- **the side conditions of the round trip**: float constants and float weights read back
    exactly (`FloatReads`, `WeightReads`) -/
abbrev ConstOK := ConstOKW FloatReads
abbrev TermOK := TermOKW FloatReads
abbrev TermsOK := TermsOKW FloatReads
abbrev ExprOK := ExprOKW FloatReads
abbrev NumOK := NumOKW WeightReads
abbrev LineOK := LineOKW FloatReads WeightReads

/-! ### operands -/

/-- the first token of an operand: neither `)` nor `not` -/
def TermStart (ts : List Tok) : Prop :=
  ∃ tk tl, ts = tk :: tl ∧ (∀ s, tk = .sym s → s ≠ .rpar) ∧ (∀ k, tk = .kw k → k ≠ .kNot)

/-- `cs` is the text of the operand `t`: before a delimiter it is read as tokens from which
    the expression reader rebuilds `t` -/
def ReadsTerm (cs : List Char) (t : PTerm) : Prop :=
  ∃ ts, Lexes cs ts ∧ TermStart ts ∧
    ∀ f r, ts.length ≤ f → parseNode f (ts ++ r) = some (.term t, r)

/-- `cs` is the text of the condition `e` -/
def ReadsExpr (cs : List Char) (e : PExpr) : Prop :=
  ∃ ts, LexesAny cs ts ∧ TermStart ts ∧
    ∀ f r, ts.length ≤ f → parseNode f (ts ++ r) = some (.expr e, r)

/-- `cs` is the text of the constant `v` -/
def ReadsConst (cs : List Char) (v : PyVal) : Prop :=
  ∃ ts, Lexes cs ts ∧ ts.length ≤ 2 ∧
    (∀ r, parseAtom (ts ++ r) = some (v, r)) ∧
    (∀ f r, parseNode (f + 1) (ts ++ r) = some (.term (.const v), r)) ∧ TermStart ts

theorem ReadsConst.term {cs : List Char} {v : PyVal} (h : ReadsConst cs v) : ReadsTerm cs (.const v) := by
  obtain ⟨ts, h1, h2, _, h4, h5⟩ := h
  refine ⟨ts, h1, h5, ?_⟩
  intro f r hf
  obtain ⟨tk, tl, rfl, _⟩ := h5
  obtain ⟨f', rfl⟩ : ∃ f', f = f' + 1 := ⟨f - 1, by simp at hf; omega⟩
  exact h4 f' r

theorem toString_int_toList (i : Int) :
    (toString i).toList = match i with
      | .ofNat n => Nat.toDigits 10 n
      | .negSucc n => '-' :: Nat.toDigits 10 (n + 1) := by
  cases i with
  | ofNat n => show (Nat.repr n).toList = _; simp
  | negSucc n => show ("-" ++ Nat.repr (n + 1)).toList = _; simp

theorem reads_int (i : Int) : ReadsConst (toString i).toList (.int i) := by
  rw [toString_int_toList]
  cases i with
  | ofNat n =>
    exact ⟨[.int n], lexes_nat n, by simp, fun _ => rfl, fun _ _ => rfl, ⟨_, _, rfl, by simp, by simp⟩⟩
  | negSucc n =>
    refine ⟨[.sym .minus, .int (n + 1)], ?_, by simp, fun _ => rfl, fun _ _ => rfl, ⟨_, _, rfl, by simp, by simp⟩⟩
    exact lexes_minus.then (lexes_nat (n + 1))

theorem reads_str (p : Nat → Bool) (s : String) : ReadsConst (PyStrLit.pyReprStr p s).toList (.str s) := by
  have h := lexes_repr p s.toList
  rw [String.ofList_toList] at h
  refine ⟨[.str s], ?_, by simp, fun _ => rfl, fun _ _ => rfl, ⟨_, _, rfl, by simp, by simp⟩⟩
  simpa [PyStrLit.pyReprStr] using h

theorem reads_float (d : Dbl) (nz : Bool) (h : FloatReads d nz) :
    ReadsConst (floatStr d nz).toList (.float d nz) := by
  obtain ⟨neg, d', hl, hs⟩ := h
  cases neg with
  | false =>
    simp only [signedFloat, Bool.false_eq_true, if_false, Prod.mk.injEq] at hs
    obtain ⟨rfl, rfl⟩ := hs
    exact ⟨_, hl, by simp, fun _ => rfl, fun _ _ => rfl, ⟨_, _, rfl, by simp, by simp⟩⟩
  | true =>
    simp only [signedFloat, if_true, Prod.mk.injEq] at hs
    obtain ⟨rfl, rfl⟩ := hs
    exact ⟨_, hl, by simp, fun _ => rfl, fun _ _ => rfl, ⟨_, _, rfl, by simp, by simp⟩⟩

theorem reads_const (p : Nat → Bool) (v : PyVal) (s : String) (hv : ConstOK v)
    (h : printConst p v = .ok s) : ReadsConst s.toList v := by
  cases v with
  | none =>
    simp only [printConst, PyVal.pyReprWith, pure, Except.pure, Except.ok.injEq] at h
    subst h
    exact ⟨[.kw .kNone], lexes_word 'N' ['o', 'n', 'e'] _ (by decide) (by decide) rfl, by simp,
      fun _ => rfl, fun _ _ => rfl, ⟨_, _, rfl, by simp, by simp⟩⟩
  | bool b =>
    simp only [printConst, PyVal.pyReprWith, pure, Except.pure, Except.ok.injEq] at h
    subst h
    cases b
    · exact ⟨[.kw .kFalse], lexes_word 'F' ['a', 'l', 's', 'e'] _ (by decide) (by decide) rfl, by simp,
        fun _ => rfl, fun _ _ => rfl, ⟨_, _, rfl, by simp, by simp⟩⟩
    · exact ⟨[.kw .kTrue], lexes_word 'T' ['r', 'u', 'e'] _ (by decide) (by decide) rfl, by simp,
        fun _ => rfl, fun _ _ => rfl, ⟨_, _, rfl, by simp, by simp⟩⟩
  | int i =>
    rw [printConst_int] at h
    simp only [intStr] at h
    split at h
    · cases h
    · cases h; exact reads_int i
  | float d nz =>
    rw [printConst_float] at h
    cases h
    exact reads_float d nz hv
  | str s' =>
    rw [printConst_str] at h
    cases h
    exact reads_str p s'
  | tuple l => exact absurd hv (by simp [ConstOKW])

theorem not_keyword_of_contains {n : String} (h : pyKeywords.contains n = false) :
    ∀ k ∈ pyKeywords, (n == k) = false := by
  intro k hk
  cases hnk : n == k
  · rfl
  · simp only [beq_iff_eq] at hnk
    subst hnk
    have : pyKeywords.contains n = true := List.contains_iff_mem.mpr hk
    rw [h] at this; cases this

theorem classifyWord_name (n : String) (h : pyKeywords.contains n = false) :
    classifyWord n = some (.name n) := by
  have hk := not_keyword_of_contains h
  simp only [classifyWord, hk "if" (by decide), hk "elif" (by decide), hk "else" (by decide),
    hk "return" (by decide), hk "raise" (by decide), hk "and" (by decide), hk "or" (by decide),
    hk "not" (by decide), hk "in" (by decide), hk "None" (by decide), hk "True" (by decide),
    hk "False" (by decide), h, Bool.false_eq_true, if_false]

theorem reads_name (n : String) (h : isPyName n = true) : ReadsTerm n.toList (.name n) := by
  unfold isPyName at h
  cases hl : n.toList with
  | nil => rw [hl] at h; cases h
  | cons c w =>
    rw [hl] at h
    simp only [Bool.and_eq_true, List.all_eq_true, Bool.not_eq_true'] at h
    obtain ⟨⟨hc, hw⟩, hk⟩ := h
    have hn : String.ofList (c :: w) = n := by rw [← hl, String.ofList_toList]
    refine ⟨[.name n], lexes_word c w _ hc hw (by rw [hn]; exact classifyWord_name n hk),
      ⟨_, _, rfl, by simp, by simp⟩, ?_⟩
    intro f r hf
    obtain ⟨f', rfl⟩ : ∃ f', f = f' + 1 := ⟨f - 1, by simp at hf; omega⟩
    rfl

/-! ### tuple displays -/

/-- `a, b, …, z` -/
def joinComma : List (List Char) → List Char
  | [] => []
  | [a] => a
  | a :: b :: l => a ++ ',' :: ' ' :: joinComma (b :: l)

theorem intercalate_toList (parts : List String) :
    (", ".intercalate parts).toList = joinComma (parts.map String.toList) := by
  rw [String.toList_intercalate]
  induction parts with
  | nil => rfl
  | cons a l ih =>
    cases l with
    | nil => simp [joinComma]
    | cons b l =>
      simp only [List.map_cons, List.intercalate_cons_cons, joinComma] at ih ⊢
      rw [ih]
      simp

theorem parseItems_last (f : Nat) (toks : List Tok) (t : PTerm) (r : List Tok) (hs : TermStart toks)
    (h : parseNode f toks = some (.term t, .sym .rpar :: r)) : parseItems (f + 1) toks = some ([t], r) := by
  obtain ⟨tk, tl, rfl, h1, _⟩ := hs
  cases tk with
  | sym s => cases s <;> first | exact absurd rfl (h1 _ rfl) | simp [parseItems, h]
  | _ => simp [parseItems, h]

theorem parseItems_more (f : Nat) (toks : List Tok) (t : PTerm) (r : List Tok) (hs : TermStart toks)
    (h : parseNode f toks = some (.term t, .sym .comma :: r)) :
    parseItems (f + 1) toks = (parseItems f r).map fun (ts, r') => (t :: ts, r') := by
  obtain ⟨tk, tl, rfl, h1, _⟩ := hs
  cases tk with
  | sym s => cases s <;> first | exact absurd rfl (h1 _ rfl) | simp [parseItems, h]
  | _ => simp [parseItems, h]

/-- the texts `parts` are the texts of the operands `l`, one by one -/
def ReadsTerms : List (List Char) → List PTerm → Prop
  | [], [] => True
  | a :: as, t :: ts => ReadsTerm a t ∧ ReadsTerms as ts
  | _, _ => False

/-- the members of a tuple display after its first comma, up to the closing `)` -/
theorem reads_items : ∀ (parts : List (List Char)) (l : List PTerm), ReadsTerms parts l →
    parts ≠ [] → ∃ ts, LexesAny (joinComma parts ++ [')']) ts ∧
      ∀ f r, ts.length ≤ f → parseItems f (ts ++ r) = some (l, r)
  | [], _, _, hne => absurd rfl hne
  | [a], [], h, _ => by simp [ReadsTerms] at h
  | [a], _ :: _ :: _, h, _ => by simp [ReadsTerms] at h
  | [a], [t], h, _ => by
      obtain ⟨⟨ta, hl, hs, hp⟩, _⟩ := h
      refine ⟨ta ++ [.sym .rpar], hl.then lexes_rpar (fun _ => rfl), ?_⟩
      intro f r hf
      simp only [List.length_append, List.length_cons, List.length_nil] at hf
      obtain ⟨f', rfl⟩ : ∃ f', f = f' + 1 := ⟨f - 1, by omega⟩
      simp only [List.append_assoc, List.cons_append, List.nil_append]
      obtain ⟨tk, tl, rfl, h1, h2⟩ := hs
      exact parseItems_last f' _ _ r ⟨tk, _, rfl, h1, h2⟩ (hp f' _ (by simp at hf ⊢; omega))
  | a :: b :: rest, [], h, _ => by simp [ReadsTerms] at h
  | a :: b :: rest, t :: l, h, _ => by
      obtain ⟨⟨ta, hl, hs, hp⟩, hrest⟩ := h
      obtain ⟨ts', hl', hp'⟩ := reads_items (b :: rest) l hrest (by simp)
      refine ⟨ta ++ .sym .comma :: ts', ?_, ?_⟩
      · have := hl.then (lexes_comma.then (lexes_blank.then hl')) (fun _ => rfl)
        simpa [joinComma] using this
      · intro f r hf
        simp only [List.length_append, List.length_cons] at hf
        obtain ⟨f', rfl⟩ : ∃ f', f = f' + 1 := ⟨f - 1, by omega⟩
        obtain ⟨tk, tl, rfl, h1, h2⟩ := hs
        simp only [List.append_assoc, List.cons_append]
        have hpn := hp f' (.sym .comma :: (ts' ++ r)) (by simp at hf ⊢; omega)
        simp only [List.cons_append] at hpn
        rw [parseItems_more f' _ t (ts' ++ r) ⟨tk, _, rfl, h1, h2⟩ hpn, hp' f' r (by omega)]
        rfl

/-! ### the parenthesised forms -/

theorem parseGroup_tuple (f : Nat) (toks : List Tok) (t : PTerm) (r1 : List Tok) (hs : TermStart toks)
    (h : parseNode f toks = some (.term t, .sym .comma :: r1)) :
    parseGroup (f + 1) toks = (parseItems f r1).map fun (ts, r3) => (.term (.tuple (t :: ts)), r3) := by
  obtain ⟨tk, tl, rfl, h1, h2⟩ := hs
  cases tk with
  | sym s => cases s <;> first | exact absurd rfl (h1 _ rfl) | simp [parseGroup, h, cmpOp]
  | kw k => cases k <;> first | exact absurd rfl (h2 _ rfl) | simp [parseGroup, h, cmpOp]
  | _ => simp [parseGroup, h, cmpOp]

theorem parseGroup_cmp (f : Nat) (toks : List Tok) (l rt : PTerm) (op : String) (r1 r2 r3 : List Tok)
    (hs : TermStart toks) (h : parseNode f toks = some (.term l, r1))
    (hop : cmpOp r1 = some (op, r2)) (hr : parseNode f r2 = some (.term rt, .sym .rpar :: r3)) :
    parseGroup (f + 1) toks = some (.expr (.cmp l op rt), r3) := by
  obtain ⟨tk, tl, rfl, h1, h2⟩ := hs
  cases tk with
  | sym s => cases s <;> first | exact absurd rfl (h1 _ rfl) | simp [parseGroup, h, hop, hr]
  | kw k => cases k <;> first | exact absurd rfl (h2 _ rfl) | simp [parseGroup, h, hop, hr]
  | _ => simp [parseGroup, h, hop, hr]

theorem parseGroup_bin (f : Nat) (toks : List Tok) (a b : PExpr) (op : String) (r1 r2 r3 : List Tok)
    (hs : TermStart toks) (h : parseNode f toks = some (.expr a, r1))
    (hop : boolOp r1 = some (op, r2)) (hr : parseNode f r2 = some (.expr b, .sym .rpar :: r3)) :
    parseGroup (f + 1) toks = some (.expr (.bin a op b), r3) := by
  obtain ⟨tk, tl, rfl, h1, h2⟩ := hs
  cases tk with
  | sym s => cases s <;> first | exact absurd rfl (h1 _ rfl) | simp [parseGroup, h, hop, hr]
  | kw k => cases k <;> first | exact absurd rfl (h2 _ rfl) | simp [parseGroup, h, hop, hr]
  | _ => simp [parseGroup, h, hop, hr]

theorem parseGroup_not (f : Nat) (r r' : List Tok) (e : PExpr)
    (h : parseNode f r = some (.expr e, .sym .rpar :: r')) :
    parseGroup (f + 1) (.kw .kNot :: r) = some (.expr (.un "not" e), r') := by
  simp [parseGroup, h]

theorem termStart_lpar (tl : List Tok) : TermStart (.sym .lpar :: tl) :=
  ⟨_, _, rfl, by simp, by simp⟩

/-- the text of a tuple display, from the texts of its members -/
def tupleText : List (List Char) → List Char
  | [p] => '(' :: (p ++ [',', ')'])
  | parts => '(' :: (joinComma parts ++ [')'])

theorem reads_tuple : ∀ (parts : List (List Char)) (l : List PTerm), ReadsTerms parts l →
    ReadsTerm (tupleText parts) (.tuple l)
  | [], [], _ => by
      refine ⟨[.sym .lpar, .sym .rpar], LexesAny.toP (lexes_lpar.then lexes_rpar), termStart_lpar _, ?_⟩
      intro f r hf
      simp only [List.length_cons, List.length_nil] at hf
      obtain ⟨f', rfl⟩ : ∃ f', f = f' + 2 := ⟨f - 2, by omega⟩
      rfl
  | [], _ :: _, h => by simp [ReadsTerms] at h
  | _ :: _, [], h => by simp [ReadsTerms] at h
  | [a], [t], h => by
      obtain ⟨⟨ta, hl, hs, hp⟩, _⟩ := h
      refine ⟨.sym .lpar :: (ta ++ [.sym .comma, .sym .rpar]), ?_, termStart_lpar _, ?_⟩
      · have := LexesAny.toP (P := fun r => delim r = true)
          (lexes_lpar.then (hl.then (lexes_comma.then lexes_rpar) (fun _ => rfl)))
        simpa [tupleText] using this
      · intro f r hf
        simp only [List.length_cons, List.length_append, List.length_nil] at hf
        obtain ⟨f', rfl⟩ : ∃ f', f = f' + 2 := ⟨f - 2, by omega⟩
        simp only [List.cons_append, List.append_assoc, List.nil_append]
        have hpn := hp f' (.sym .comma :: .sym .rpar :: r) (by omega)
        show parseGroup (f' + 1) _ = _
        rw [parseGroup_tuple f' _ t _ (by
          obtain ⟨tk, tl, rfl, h1, h2⟩ := hs; exact ⟨tk, _, rfl, h1, h2⟩) hpn]
        obtain ⟨f'', rfl⟩ : ∃ f'', f' = f'' + 1 := ⟨f' - 1, by
          obtain ⟨tk, tl, rfl, _⟩ := hs; simp at hf; omega⟩
        rfl
  | [a], _ :: _ :: _, h => by simp [ReadsTerms] at h
  | a :: b :: rest, t :: l, h => by
      obtain ⟨⟨ta, hl, hs, hp⟩, hrest⟩ := h
      obtain ⟨ts', hl', hp'⟩ := reads_items (b :: rest) l hrest (by simp)
      refine ⟨.sym .lpar :: (ta ++ .sym .comma :: ts'), ?_, termStart_lpar _, ?_⟩
      · have := LexesAny.toP (P := fun r => delim r = true)
          (lexes_lpar.then (hl.then (lexes_comma.then (lexes_blank.then hl')) (fun _ => rfl)))
        simpa [tupleText, joinComma] using this
      · intro f r hf
        simp only [List.length_cons, List.length_append] at hf
        obtain ⟨f', rfl⟩ : ∃ f', f = f' + 2 := ⟨f - 2, by omega⟩
        simp only [List.cons_append, List.append_assoc]
        have hpn := hp f' (.sym .comma :: (ts' ++ r)) (by omega)
        show parseGroup (f' + 1) _ = _
        rw [parseGroup_tuple f' _ t _ (by
          obtain ⟨tk, tl, rfl, h1, h2⟩ := hs; exact ⟨tk, _, rfl, h1, h2⟩) hpn,
          hp' f' r (by omega)]
        rfl

/-! ### the printer's operands and conditions are read back -/

theorem intercalate_eq_joinComma : ∀ xs : List (List Char), [',', ' '].intercalate xs = joinComma xs
  | [] => rfl
  | [a] => by simp [joinComma]
  | a :: b :: l => by
      simp only [List.intercalate_cons_cons, joinComma, intercalate_eq_joinComma (b :: l)]
      simp

/-- the text the printer emits for a tuple display, from the texts of its members -/
def tupleStr : List String → String
  | [p] => "(" ++ p ++ ",)"
  | parts => "(" ++ ", ".intercalate parts ++ ")"

theorem tupleStr_toList (parts : List String) :
    (tupleStr parts).toList = tupleText (parts.map String.toList) := by
  match parts with
  | [] => rfl
  | [p] => simp [tupleStr, tupleText]
  | p :: q :: l =>
    simp [tupleStr, tupleText, String.toList_intercalate, intercalate_eq_joinComma, joinComma]

theorem printTerm_tuple (p : Nat → Bool) (l : List PTerm) :
    printTerm p (.tuple l) = printTerms p l >>= fun parts => pure (tupleStr parts) := by
  simp only [printTerm]
  congr 1
  funext parts
  match parts with
  | [] => rfl
  | [_] => rfl
  | _ :: _ :: _ => rfl

theorem parseNode_lpar (f : Nat) (r : List Tok) : parseNode (f + 1) (.sym .lpar :: r) = parseGroup f r := by
  simp only [parseNode]

mutual
/-- **operands.**  The text printed for an operand is read back as that operand -/
theorem reads_term (p : Nat → Bool) : ∀ (t : PTerm) (s : String), TermOK t → printTerm p t = .ok s →
    ReadsTerm s.toList t
  | .const v, s, hv, h => by
      simp only [printTerm] at h
      exact (reads_const p v s (by simpa [TermOKW] using hv) h).term
  | .name n, s, hn, h => by
      simp only [printTerm, pure, Except.pure, Except.ok.injEq] at h
      subst h
      exact reads_name n (by simpa [TermOKW] using hn)
  | .tuple l, s, hl, h => by
      rw [printTerm_tuple, bind_ok_iff] at h
      obtain ⟨parts, hparts, h⟩ := h
      cases h
      rw [tupleStr_toList]
      exact reads_tuple _ l (reads_terms p l parts (by simpa [TermOKW] using hl) hparts)
theorem reads_terms (p : Nat → Bool) : ∀ (l : List PTerm) (parts : List String), TermsOK l →
    printTerms p l = .ok parts → ReadsTerms (parts.map String.toList) l
  | [], parts, _, h => by
      simp only [printTerms, pure, Except.pure, Except.ok.injEq] at h
      subst h
      trivial
  | t :: ts, parts, hl, h => by
      simp only [printTerms, bind_ok_iff] at h
      obtain ⟨a, ha, b, hb, h⟩ := h
      cases h
      simp only [TermsOKW] at hl
      exact ⟨reads_term p t a hl.1 ha, reads_terms p ts b hl.2 hb⟩
end

/-- **conditions.**  The text printed for a condition is read back as that condition -/
theorem reads_expr (p : Nat → Bool) : ∀ (e : PExpr) (s : String), ExprOK e → printExpr p e = .ok s →
    ReadsExpr s.toList e
  | .cmp l op r, s, hok, h => by
      simp only [printExpr, bind_ok_iff] at h
      obtain ⟨a, ha, b, hb, h⟩ := h
      cases h
      obtain ⟨hl, hop, hr⟩ := hok
      obtain ⟨ta, hla, hsa, hpa⟩ := reads_term p l a hl ha
      obtain ⟨tb, hlb, hsb, hpb⟩ := reads_term p r b hr hb
      obtain ⟨top, hlop, hlen, hpop⟩ := cmpOp_reads op hop
      refine ⟨.sym .lpar :: (ta ++ (top ++ (tb ++ [.sym .rpar]))), ?_, termStart_lpar _, ?_⟩
      · have := lexes_lpar.then (hla.then (hlop.then (hlb.then lexes_rpar (fun _ => rfl))) (fun _ => rfl))
        simpa using this
      · intro f r' hf
        simp only [List.length_cons, List.length_append, List.length_nil] at hf
        obtain ⟨f', rfl⟩ : ∃ f', f = f' + 2 := ⟨f - 2, by omega⟩
        simp only [List.cons_append, List.append_assoc, List.nil_append]
        rw [parseNode_lpar]
        exact parseGroup_cmp f' _ l r op _ _ r' (by
            obtain ⟨tk, tl, rfl, h1, h2⟩ := hsa; exact ⟨tk, _, rfl, h1, h2⟩)
          (hpa f' _ (by omega)) (hpop _) (hpb f' _ (by omega))
  | .bin x op y, s, hok, h => by
      simp only [printExpr, bind_ok_iff] at h
      obtain ⟨a, ha, b, hb, h⟩ := h
      cases h
      obtain ⟨hx, hop, hy⟩ := hok
      obtain ⟨ta, hla, hsa, hpa⟩ := reads_expr p x a hx ha
      obtain ⟨tb, hlb, hsb, hpb⟩ := reads_expr p y b hy hb
      obtain ⟨top, hlop, hlen, hpop⟩ := boolOp_reads op hop
      refine ⟨.sym .lpar :: (ta ++ (top ++ (tb ++ [.sym .rpar]))), ?_, termStart_lpar _, ?_⟩
      · have := lexes_lpar.then (hla.then (hlop.then (hlb.then lexes_rpar)))
        simpa using this
      · intro f r' hf
        simp only [List.length_cons, List.length_append, List.length_nil] at hf
        obtain ⟨f', rfl⟩ : ∃ f', f = f' + 2 := ⟨f - 2, by omega⟩
        simp only [List.cons_append, List.append_assoc, List.nil_append]
        rw [parseNode_lpar]
        exact parseGroup_bin f' _ x y op _ _ r' (by
            obtain ⟨tk, tl, rfl, h1, h2⟩ := hsa; exact ⟨tk, _, rfl, h1, h2⟩)
          (hpa f' _ (by omega)) (hpop _) (hpb f' _ (by omega))
  | .un op x, s, hok, h => by
      simp only [printExpr, bind_ok_iff] at h
      obtain ⟨a, ha, h⟩ := h
      cases h
      obtain ⟨hop, hx⟩ := hok
      subst hop
      obtain ⟨ta, hla, hsa, hpa⟩ := reads_expr p x a hx ha
      refine ⟨.sym .lpar :: .kw .kNot :: (ta ++ [.sym .rpar]), ?_, termStart_lpar _, ?_⟩
      · have := lexes_lpar.then (lexes_not.then (hla.then lexes_rpar))
        simpa using this
      · intro f r' hf
        simp only [List.length_cons, List.length_append, List.length_nil] at hf
        obtain ⟨f', rfl⟩ : ∃ f', f = f' + 2 := ⟨f - 2, by omega⟩
        simp only [List.cons_append, List.append_assoc, List.nil_append]
        rw [parseNode_lpar]
        exact parseGroup_not f' _ r' x (hpa f' _ (by omega))

/-! ### list displays -/

/-- `cs` is the text of the list member `a` as `item` reads it -/
def ReadsItem {α : Type} (item : List Tok → Option (α × List Tok)) (cs : List Char) (a : α) : Prop :=
  ∃ ts, Lexes cs ts ∧ ts ≠ [] ∧ ∀ r, item (ts ++ r) = some (a, r)

def ReadsItems {α : Type} (item : List Tok → Option (α × List Tok)) : List (List Char) → List α → Prop
  | [], [] => True
  | a :: as, t :: ts => ReadsItem item a t ∧ ReadsItems item as ts
  | _, _ => False

/-- the members of a list display and its closing `]` -/
theorem reads_seq {α : Type} (item : List Tok → Option (α × List Tok)) :
    ∀ (parts : List (List Char)) (l : List α), ReadsItems item parts l → parts ≠ [] →
      ∃ ts, LexesAny (joinComma parts ++ [']']) ts ∧ l.length ≤ ts.length ∧
        (∃ tk tl, ts = tk :: tl ∧ ∀ r, item (tk :: (tl ++ r)) ≠ none) ∧
        ∀ f r, l.length ≤ f → parseSeq item f (ts ++ r) = some (l, r)
  | [], _, _, hne => absurd rfl hne
  | [a], [], h, _ => by simp [ReadsItems] at h
  | [a], _ :: _ :: _, h, _ => by simp [ReadsItems] at h
  | [a], [t], h, _ => by
      obtain ⟨⟨ta, hl, hne, hp⟩, _⟩ := h
      refine ⟨ta ++ [.sym .rbrk], hl.then lexes_rbrk (fun _ => rfl), by simp, ?_, ?_⟩
      · cases ta with
        | nil => exact absurd rfl hne
        | cons tk tl =>
          refine ⟨tk, tl ++ [.sym .rbrk], rfl, ?_⟩
          intro r
          have := hp (.sym .rbrk :: r)
          simp only [List.cons_append, List.append_assoc, List.nil_append] at this ⊢
          rw [this]; simp
      · intro f r hf
        simp only [List.length_cons, List.length_nil] at hf
        obtain ⟨f', rfl⟩ : ∃ f', f = f' + 1 := ⟨f - 1, by omega⟩
        simp only [List.append_assoc, List.cons_append, List.nil_append, parseSeq, hp]
  | a :: b :: rest, [], h, _ => by simp [ReadsItems] at h
  | a :: b :: rest, t :: l, h, _ => by
      obtain ⟨⟨ta, hl, hne, hp⟩, hrest⟩ := h
      obtain ⟨ts', hl', hlen, _, hp'⟩ := reads_seq item (b :: rest) l hrest (by simp)
      refine ⟨ta ++ .sym .comma :: ts', ?_, ?_, ?_, ?_⟩
      · have := hl.then (lexes_comma.then (lexes_blank.then hl')) (fun _ => rfl)
        simpa [joinComma] using this
      · simp; omega
      · cases ta with
        | nil => exact absurd rfl hne
        | cons tk tl =>
          refine ⟨tk, tl ++ .sym .comma :: ts', rfl, ?_⟩
          intro r
          have := hp (.sym .comma :: (ts' ++ r))
          simp only [List.cons_append, List.append_assoc] at this ⊢
          rw [this]; simp
      · intro f r hf
        simp only [List.length_cons] at hf
        obtain ⟨f', rfl⟩ : ∃ f', f = f' + 1 := ⟨f - 1, by omega⟩
        simp only [List.append_assoc, List.cons_append, parseSeq, hp, hp' f' r (by omega)]
        rfl

/-- a list display `[a, b, …]` (possibly empty) followed by anything -/
theorem reads_list {α : Type} (item : List Tok → Option (α × List Tok))
    (hrb : ∀ r, item (.sym .rbrk :: r) = none)
    (parts : List (List Char)) (l : List α) (h : ReadsItems item parts l) :
    ∃ ts, LexesAny ('[' :: (joinComma parts ++ [']'])) (.sym .lbrk :: ts) ∧
      ∀ r, parseList item (ts ++ r) = some (l, r) := by
  cases parts with
  | nil =>
    cases l with
    | nil => exact ⟨[.sym .rbrk], lexes_lbrk.then lexes_rbrk, fun _ => rfl⟩
    | cons _ _ => simp [ReadsItems] at h
  | cons a as =>
    obtain ⟨ts, hl, hlen, ⟨tk, tl, rfl, hhead⟩, hp⟩ := reads_seq item (a :: as) l h (by simp)
    refine ⟨tk :: tl, lexes_lbrk.then hl, ?_⟩
    intro r
    have hne : ∀ r', tk :: (tl ++ r) ≠ .sym .rbrk :: r' := by
      intro r' heq
      have := hhead r
      rw [heq, hrb] at this
      exact this rfl
    have : parseList item (tk :: tl ++ r) = parseSeq item (tk :: tl ++ r).length (tk :: tl ++ r) := by
      simp only [List.cons_append]
      unfold parseList
      split
      · rename_i r' heq; exact absurd heq (hne r')
      · rfl
    rw [this, hp _ r (by simp at hlen ⊢; omega)]

/-! ### statements -/

/-- a word followed by something that ends it -/
theorem lexesP_word (c : Char) (w : List Char) (t : Tok) (hc : isIdStart c = true)
    (hw : ∀ x ∈ w, isIdChar x = true) (ht : classifyWord (String.ofList (c :: w)) = some t) :
    LexesP (fun r => wordStop r = true) (c :: w) [t] := by
  intro rest hr
  have := nextTok_word' c w rest t hc hw ht hr
  rw [List.cons_append, tokenizeLine_tok c (w ++ rest) t rest (isIdStart_ne hc).1 (isIdStart_ne hc).2
    this (by simp)]

theorem lexes_assign_lbrk : LexesAny ['=', '['] [.sym .assign, .sym .lbrk] := by
  have h1 : LexesP (fun r => r.head? = some '[') ['='] [.sym .assign] := by
    intro rest hr
    cases rest with
    | nil => simp at hr
    | cons c r =>
      simp only [List.head?_cons, Option.some.injEq] at hr
      subst hr
      rw [List.cons_append, tokenizeLine_tok '=' _ (.sym .assign) ('[' :: r) (by decide) (by decide) rfl
        (by simp)]
  exact LexesP.append h1 lexes_lbrk (fun _ _ => rfl)

/-- `cs` is the text of the statement `l`: it starts with a letter, is read as tokens
    whatever follows, and the statement reader rebuilds `l` -/
def ReadsStmt (cs : List Char) (l : Line) : Prop :=
  (∃ c cs', cs = c :: cs' ∧ isIdStart c = true) ∧
    ∃ toks, LexesAny cs toks ∧ parseStmt toks = some l

theorem parseCond_of (ts : List Tok) (e : PExpr)
    (h : ∀ f r, ts.length ≤ f → parseNode f (ts ++ r) = some (.expr e, r)) :
    parseCond (ts ++ [.sym .colon]) = some e := by
  have := h (ts ++ [Tok.sym .colon]).length [Tok.sym .colon] (by simp)
  simp only [parseCond, this]

theorem reads_if (p : Nat → Bool) (e : PExpr) (s : String) (he : ExprOK e)
    (h : printExpr p e = .ok s) : ReadsStmt ("if " ++ s ++ ": ").toList (.ifL e) := by
  obtain ⟨ts, hl, _, hp⟩ := reads_expr p e s he h
  refine ⟨⟨'i', _, by simp; rfl, by decide⟩, .kw .kIf :: (ts ++ [.sym .colon]), ?_, ?_⟩
  · have := (lexesAny_word_blank 'i' ['f'] _ (by decide) (by decide) rfl).then
      (hl.then (lexes_colon.then lexes_blank))
    simpa using this
  · simp [parseStmt, parseCond_of ts e hp]

theorem reads_elif (p : Nat → Bool) (e : PExpr) (s : String) (he : ExprOK e)
    (h : printExpr p e = .ok s) : ReadsStmt ("elif " ++ s ++ ": ").toList (.elifL e) := by
  obtain ⟨ts, hl, _, hp⟩ := reads_expr p e s he h
  refine ⟨⟨'e', _, by simp; rfl, by decide⟩, .kw .kElif :: (ts ++ [.sym .colon]), ?_, ?_⟩
  · have := (lexesAny_word_blank 'e' ['l', 'i', 'f'] _ (by decide) (by decide) rfl).then
      (hl.then (lexes_colon.then lexes_blank))
    simpa using this
  · simp [parseStmt, parseCond_of ts e hp]

theorem reads_else : ReadsStmt "else: ".toList .elseL := by
  refine ⟨⟨'e', _, rfl, by decide⟩, [.kw .kElse, .sym .colon], ?_, rfl⟩
  exact (lexes_word 'e' ['l', 's', 'e'] _ (by decide) (by decide) rfl).then
    (lexes_colon.then lexes_blank) (fun _ => rfl)

theorem reads_raise : ReadsStmt "raise ExperimentConditionalFailedError()".toList .raiseU := by
  refine ⟨⟨'r', _, rfl, by decide⟩,
    [.kw .kRaise, .name "ExperimentConditionalFailedError", .sym .lpar, .sym .rpar], ?_, rfl⟩
  exact (lexesAny_word_blank 'r' ['a', 'i', 's', 'e'] _ (by decide) (by decide) rfl).then
    (LexesP.append (lexesP_word 'E' "xperimentConditionalFailedError".toList _ (by decide) (by decide) rfl)
      (lexes_lpar.then lexes_rpar) (fun _ _ => rfl))

/-! ### the `return` statement -/

theorem lexes_assign : LexesP (fun r => r.head? = some '[') ['='] [.sym .assign] := by
  intro rest hr
  cases rest with
  | nil => simp at hr
  | cons c r =>
    simp only [List.head?_cons, Option.some.injEq] at hr
    subst hr
    rw [List.cons_append, tokenizeLine_tok '=' _ (.sym .assign) ('[' :: r) (by decide) (by decide) rfl
      (by simp)]

theorem lexes_retPrefix : LexesP (fun r => r.head? = some '[')
    "return partial(deterministic_choice, population=".toList
    [.kw .kReturn, .name "partial", .sym .lpar, .name "deterministic_choice", .sym .comma,
      .name "population", .sym .assign] := by
  have h1 := lexesAny_word_blank 'r' "eturn".toList _ (by decide) (by decide) rfl
  have h2 := lexesP_word 'p' "artial".toList _ (by decide) (by decide) rfl
  have h3 := lexes_word 'd' "eterministic_choice".toList _ (by decide) (by decide) rfl
  have h4 := lexesP_word 'p' "opulation".toList _ (by decide) (by decide) rfl
  exact h1.then (LexesP.append h2 (lexes_lpar.then (h3.then (lexes_comma.then (lexes_blank.then
    (LexesP.append h4 lexes_assign (fun _ _ => rfl)))) (fun _ => rfl))) (fun _ _ => rfl))

theorem lexes_weights : LexesP (fun r => r.head? = some '[') ", weights=".toList
    [.sym .comma, .name "weights", .sym .assign] := by
  have h := lexesP_word 'w' "eights".toList _ (by decide) (by decide) rfl
  exact lexes_comma.then (lexes_blank.then (LexesP.append h lexes_assign (fun _ _ => rfl)))

theorem renderList_toList (parts : List String) :
    (renderList parts).toList = '[' :: (joinComma (parts.map String.toList) ++ [']']) := by
  simp [renderList, String.toList_intercalate, intercalate_eq_joinComma]

theorem reads_pop (p : Nat → Bool) : ∀ (pop : List PyVal) (ps : List String),
    (∀ v ∈ pop, ConstOK v) → pop.mapM (printConst p) = .ok ps →
    ReadsItems parseAtom (ps.map String.toList) pop
  | [], ps, _, h => by
      simp only [List.mapM_nil, pure, Except.pure, Except.ok.injEq] at h
      subst h; trivial
  | v :: vs, ps, hok, h => by
      simp only [List.mapM_cons, bind_ok_iff] at h
      obtain ⟨a, ha, b, hb, h⟩ := h
      cases h
      obtain ⟨ts, hl, _, hp, _, hs⟩ := reads_const p v a (hok v (by simp)) ha
      refine ⟨⟨ts, hl, ?_, hp⟩, reads_pop p vs b (fun v hv => hok v (by simp [hv])) hb⟩
      obtain ⟨tk, tl, rfl, _⟩ := hs
      simp

theorem reads_weight (w : Num) (s : String) (hw : NumOK w) (h : renderWeight w = .ok s) :
    ReadsItem parseNum s.toList w := by
  cases w with
  | i v =>
    simp only [renderWeight, intStr] at h
    split at h
    · cases h
    · cases h
      rw [toString_int_toList]
      cases v with
      | ofNat n => exact ⟨[.int n], lexes_nat n, by simp, fun _ => rfl⟩
      | negSucc n =>
        exact ⟨[.sym .minus, .int (n + 1)], lexes_minus.then (lexes_nat (n + 1)), by simp, fun _ => rfl⟩
  | f d =>
    simp only [renderWeight, pure, Except.pure, Except.ok.injEq] at h
    subst h
    obtain ⟨neg, d', hl, hd⟩ := hw
    cases neg with
    | false =>
      simp only [signedFloat, Bool.false_eq_true, if_false] at hd
      subst hd
      exact ⟨_, hl, by simp, fun _ => rfl⟩
    | true =>
      simp only [signedFloat, if_true] at hd
      subst hd
      exact ⟨_, hl, by simp, fun _ => rfl⟩

theorem reads_weights : ∀ (ws : List Num) (ss : List String),
    (∀ w ∈ ws, NumOK w) → ws.mapM renderWeight = .ok ss →
    ReadsItems parseNum (ss.map String.toList) ws
  | [], ss, _, h => by
      simp only [List.mapM_nil, pure, Except.pure, Except.ok.injEq] at h
      subst h; trivial
  | w :: ws, ss, hok, h => by
      simp only [List.mapM_cons, bind_ok_iff] at h
      obtain ⟨a, ha, b, hb, h⟩ := h
      cases h
      exact ⟨reads_weight w a (hok w (by simp)) ha,
        reads_weights ws b (fun v hv => hok v (by simp [hv])) hb⟩

theorem reads_ret (p : Nat → Bool) (pop : List PyVal) (ws : List Num) (s : String)
    (hok : LineOK (.ret pop ws)) (h : printLine p (.ret pop ws) = .ok s) :
    ReadsStmt s.toList (.ret pop ws) := by
  simp only [printLine, bind_ok_iff] at h
  obtain ⟨ps, hps, wss, hws, h⟩ := h
  simp only [pure, Except.pure, Except.ok.injEq] at h
  subst h
  obtain ⟨tp, hlp, hpp⟩ := reads_list parseAtom (fun _ => rfl) _ pop (reads_pop p pop ps hok.1 hps)
  obtain ⟨tw, hlw, hpw⟩ := reads_list parseNum (fun _ => rfl) _ ws (reads_weights ws wss hok.2 hws)
  refine ⟨⟨'r', _, by simp [String.toList_append]; rfl, by decide⟩,
    .kw .kReturn :: .name "partial" :: .sym .lpar :: .name "deterministic_choice" :: .sym .comma ::
      .name "population" :: .sym .assign :: .sym .lbrk :: (tp ++ (.sym .comma :: .name "weights" ::
        .sym .assign :: .sym .lbrk :: (tw ++ [.sym .rpar]))), ?_, ?_⟩
  · have := LexesP.append lexes_retPrefix
      (hlp.then (LexesP.append lexes_weights (hlw.then lexes_rpar) (fun _ _ => rfl))) (fun _ _ => rfl)
    simp only [String.toList_append, renderList_toList]
    simpa using this
  · simp [parseStmt, hpp, hpw]

/-! ### lines -/

/-- **statements.**  The text printed for a statement is read back as that statement -/
theorem reads_stmt (p : Nat → Bool) (l : Line) (s : String) (hok : LineOK l)
    (h : printLine p l = .ok s) : ReadsStmt s.toList l := by
  cases l with
  | ifL e =>
    simp only [printLine, bind_ok_iff] at h
    obtain ⟨a, ha, h⟩ := h
    cases h
    exact reads_if p e a hok ha
  | elifL e =>
    simp only [printLine, bind_ok_iff] at h
    obtain ⟨a, ha, h⟩ := h
    cases h
    exact reads_elif p e a hok ha
  | elseL => cases h; exact reads_else
  | ret pop ws => exact reads_ret p pop ws s hok h
  | raiseU => cases h; exact reads_raise

theorem isIdStart_ne_tab {c : Char} (h : isIdStart c = true) : c ≠ '\t' := by
  intro hc; subst hc; simp [isIdStart] at h

theorem tabs_toList (d : Nat) : (tabs d).toList = List.replicate d '\t' := by
  simp [tabs]

/-- a printed line — tabs, the statement, the end of the line or of the text — is read as
    its indentation and statement; what follows the line is left over -/
theorem readLineChars_stmt (d : Nat) (cs : List Char) (l : Line) (h : ReadsStmt cs l) :
    (∀ rest, readLineChars (List.replicate d '\t' ++ (cs ++ '\n' :: rest)) = some ((d, l), rest)) ∧
      readLineChars (List.replicate d '\t' ++ cs) = some ((d, l), []) := by
  obtain ⟨⟨c, cs', rfl, hc⟩, toks, hl, hp⟩ := h
  have htab : ∀ x ∈ List.replicate d '\t', (x == '\t') = true := by
    intro x hx; simp [List.eq_of_mem_replicate hx]
  have hstop : ∀ (tail : List Char) (x : Char) (r : List Char), c :: tail = x :: r → (x == '\t') = false := by
    intro tail x r hx
    cases hx
    simpa using isIdStart_ne_tab hc
  have hblank : ((c :: cs').head? == some ' ') = false := by
    simpa using (isIdStart_ne hc).2
  constructor
  · intro rest
    have h1 := takeWhile_append_stop (p := (· == '\t')) _ (c :: (cs' ++ '\n' :: rest)) htab (hstop _)
    have h2 := dropWhile_append_stop (p := (· == '\t')) _ (c :: (cs' ++ '\n' :: rest)) htab (hstop _)
    have h3 := hl ('\n' :: rest) trivial
    rw [tokenizeLine_nl] at h3
    simp only [List.cons_append] at h3 ⊢
    simp only [readLineChars, h1, h2, h3, prep, List.head?_cons]
    simp [hp, (isIdStart_ne hc).2]
  · have h1 := takeWhile_append_stop (p := (· == '\t')) _ (c :: cs') htab (hstop _)
    have h2 := dropWhile_append_stop (p := (· == '\t')) _ (c :: cs') htab (hstop _)
    have h3 := hl [] trivial
    rw [tokenizeLine_nil] at h3
    simp only [List.append_nil] at h3
    simp only [readLineChars, h1, h2, h3, prep, List.head?_cons]
    simp [hp, (isIdStart_ne hc).2]

/-- the characters of a printed line: tabs, the statement, a newline -/
theorem printILine_toList (p : Nat → Bool) (x : ILine) (s : String) (h : printILine p x = .ok s) :
    ∃ st, printLine p x.2 = .ok st ∧ s.toList = List.replicate x.1 '\t' ++ (st.toList ++ ['\n']) := by
  simp only [printILine, bind_ok_iff] at h
  obtain ⟨st, hst, h⟩ := h
  simp only [pure, Except.pure, Except.ok.injEq] at h
  subst h
  exact ⟨st, hst, by simp [String.toList_append, tabs_toList]⟩

/-- **one line.**  `readLine` inverts `printILine` -/
theorem read_print_line (p : Nat → Bool) (x : ILine) (s : String) (hok : LineOK x.2)
    (h : printILine p x = .ok s) : readLine s = some x := by
  obtain ⟨st, hst, hs⟩ := printILine_toList p x s h
  have := (readLineChars_stmt x.1 st.toList x.2 (reads_stmt p x.2 st hok hst)).1 []
  simp only [readLine, hs, this]

/-- the same, with text after the line -/
theorem readLineChars_print (p : Nat → Bool) (x : ILine) (s : String) (hok : LineOK x.2)
    (h : printILine p x = .ok s) (rest : List Char) :
    readLineChars (s.toList ++ rest) = some (x, rest) := by
  obtain ⟨st, hst, hs⟩ := printILine_toList p x s h
  have := (readLineChars_stmt x.1 st.toList x.2 (reads_stmt p x.2 st hok hst)).1 rest
  simpa [hs] using this

theorem readBodyF_nil (n : Nat) : readBodyF n [] = some [] := by
  cases n <;> rfl

/-- a printed line at the head of the text: one step of `readBody` -/
theorem readBodyF_line (p : Nat → Bool) (x : ILine) (s : String) (hok : LineOK x.2)
    (h : printILine p x = .ok s) (n : Nat) (rest : List Char) :
    readBodyF (n + 1) (s.toList ++ rest) = (readBodyF n rest).map (x :: ·) := by
  have hline := readLineChars_print p x s hok h rest
  obtain ⟨st, hst, hs⟩ := printILine_toList p x s h
  obtain ⟨⟨c, cs', hc, hid⟩, _⟩ := reads_stmt p x.2 st hok hst
  have htab : ∀ y ∈ List.replicate x.1 '\t', (y == '\t') = true := by
    intro y hy; simp [List.eq_of_mem_replicate hy]
  have hstop : ∀ (y : Char) (r : List Char), c :: (cs' ++ '\n' :: rest) = y :: r → (y == '\t') = false := by
    intro y r hy
    cases hy
    simpa using isIdStart_ne_tab hid
  have h2 := dropWhile_append_stop (p := (· == '\t')) _ (c :: (cs' ++ '\n' :: rest)) htab hstop
  have hform : s.toList ++ rest = List.replicate x.1 '\t' ++ c :: (cs' ++ '\n' :: rest) := by
    rw [hs, hc]; simp
  cases hcs : s.toList ++ rest with
  | nil => rw [hform] at hcs; simp at hcs
  | cons a as =>
    rw [hcs] at hline hform
    simp only [readBodyF]
    rw [hline, hform, h2]
    simp [(isIdStart_ne hid).1]

/-- an empty line at the head of the text is skipped -/
theorem readBodyF_blank (n : Nat) (rest : List Char) :
    readBodyF (n + 1) ('\n' :: rest) = readBodyF n rest := by
  simp [readBodyF]

theorem readBodyF_lines (p : Nat → Bool) : ∀ (L : List ILine) (s : String),
    (∀ x ∈ L, LineOK x.2) → printLines p L = .ok s → ∀ (n : Nat) (rest : List Char),
      readBodyF (n + L.length) (s.toList ++ rest) = (readBodyF n rest).map (L ++ ·)
  | [], s, _, h, n, rest => by
      simp only [printLines, pure, Except.pure, Except.ok.injEq] at h
      subst h
      cases h : readBodyF n rest <;> simp [h]
  | x :: xs, s, hok, h, n, rest => by
      simp only [printLines, bind_ok_iff] at h
      obtain ⟨a, ha, b, hb, h⟩ := h
      simp only [pure, Except.pure, Except.ok.injEq] at h
      subst h
      rw [String.toList_append, List.append_assoc, List.length_cons, ← Nat.add_assoc,
        readBodyF_line p x a (hok x (by simp)) ha,
        readBodyF_lines p xs b (fun y hy => hok y (by simp [hy])) hb n rest]
      cases readBodyF n rest <;> simp

theorem printLines_length (p : Nat → Bool) : ∀ (L : List ILine) (s : String),
    printLines p L = .ok s → L.length ≤ s.length
  | [], _, _ => by simp
  | x :: xs, s, h => by
      simp only [printLines, bind_ok_iff] at h
      obtain ⟨a, ha, b, hb, h⟩ := h
      simp only [pure, Except.pure, Except.ok.injEq] at h
      subst h
      have := printLines_length p xs b hb
      obtain ⟨st, _, hs⟩ := printILine_toList p x a ha
      have ha1 : 1 ≤ a.length := by
        rw [← String.length_toList, hs]; simp; omega
      simp only [String.length_append, List.length_cons]
      omega

/-- **all lines.**  `readBody` inverts `printLines`: the printed lines are read back as
    exactly those lines -/
theorem read_print_lines (p : Nat → Bool) (L : List ILine) (s : String)
    (hok : ∀ x ∈ L, LineOK x.2) (h : printLines p L = .ok s) : readBody s = some L := by
  have hlen := printLines_length p L s h
  have := readBodyF_lines p L s hok h (s.length + 1 - L.length) []
  rw [Nat.sub_add_cancel (by omega), List.append_nil, readBodyF_nil] at this
  simpa [readBody] using this

/-- **the body as `moduleOfLines` lays it out**: the lines of the conditional, an empty line,
    the final line.  It is read back as those lines followed by the final line. -/
theorem read_print_body (p : Nat → Bool) (A : List ILine) (x : ILine) (c r : String)
    (hA : ∀ y ∈ A, LineOK y.2) (hx : LineOK x.2)
    (hc : printLines p A = .ok c) (hr : printILine p x = .ok r) :
    readBody (c ++ "\n" ++ r) = some (A ++ [x]) := by
  have hlen := printLines_length p A c hc
  have h1 := readBodyF_lines p A c hA hc ((c ++ "\n" ++ r).length + 1 - A.length)
    ('\n' :: (r.toList ++ []))
  have hr1 : 1 ≤ r.length := by
    obtain ⟨st, _, hs⟩ := printILine_toList p x r hr
    rw [← String.length_toList, hs]; simp; omega
  have hl : (c ++ "\n" ++ r).length = c.length + 1 + r.length := by
    simp [String.length_append, (by decide : "\n".length = 1)]
  obtain ⟨m, hm⟩ : ∃ m, (c ++ "\n" ++ r).length + 1 - A.length = m + 2 :=
    ⟨(c ++ "\n" ++ r).length + 1 - A.length - 2, by omega⟩
  rw [hm, readBodyF_blank, readBodyF_line p x r hx hr, readBodyF_nil, ← hm,
    Nat.sub_add_cancel (by omega)] at h1
  simp only [readBody, String.toList_append]
  have : "\n".toList = ['\n'] := rfl
  rw [this]
  simpa using h1

/-! ### the statements in terms of the reader's entry points -/

/-- **`read_print_term`.**  The text printed for an operand, alone, is read back as that operand -/
theorem read_print_term (p : Nat → Bool) (t : PTerm) (s : String) (hok : TermOK t)
    (h : printTerm p t = .ok s) : readTerm s = some t := by
  obtain ⟨ts, hl, _, hp⟩ := reads_term p t s hok h
  have h1 := hl [] rfl
  rw [List.append_nil, tokenizeLine_nil] at h1
  have h2 := hp ts.length [] (Nat.le_refl _)
  simp only [List.append_nil] at h2
  simp [readTerm, readNode, h1, prep, h2]

/-- **`read_print_expr`.**  The text printed for a condition, alone, is read back as that condition -/
theorem read_print_expr (p : Nat → Bool) (e : PExpr) (s : String) (hok : ExprOK e)
    (h : printExpr p e = .ok s) : readExpr s = some e := by
  obtain ⟨ts, hl, _, hp⟩ := reads_expr p e s hok h
  have h1 := hl [] trivial
  rw [List.append_nil, tokenizeLine_nil] at h1
  have h2 := hp ts.length [] (Nat.le_refl _)
  simp only [List.append_nil] at h2
  simp [readExpr, readNode, h1, prep, h2]

/-! ### float literals: a decidable criterion for `FloatReads` -/

/-- `rest` does not continue a run of `p`-characters -/
def stops (p : Char → Bool) (rest : List Char) : Prop := ∀ c r, rest = c :: r → p c = false

theorem takeWhile_append_of_stops {p : Char → Bool} (cs rest : List Char) (h : stops p rest) :
    (cs ++ rest).takeWhile p = cs.takeWhile p := by
  induction cs with
  | nil =>
    cases rest with
    | nil => rfl
    | cons c r => simp [h c r rfl]
  | cons a cs ih =>
    simp only [List.cons_append, List.takeWhile_cons, ih]

theorem dropWhile_append_of_stops {p : Char → Bool} (cs rest : List Char) (h : stops p rest) :
    (cs ++ rest).dropWhile p = cs.dropWhile p ++ rest := by
  induction cs with
  | nil =>
    cases rest with
    | nil => rfl
    | cons c r => simp [h c r rfl]
  | cons a cs ih =>
    simp only [List.cons_append, List.dropWhile_cons, ih]
    split <;> rfl

theorem numFinish_nil {t t' : Tok} {r : List Char} (h : numFinish t r = some (t', [])) :
    t' = t ∧ r = [] := by
  unfold numFinish at h
  split at h
  · simp only [Option.some.injEq, Prod.mk.injEq] at h
    exact ⟨h.1.symm, h.2⟩
  · cases h

theorem scanPlain_nil {ip fp : List Char} {isFloat : Bool} {r : List Char} {t : Tok}
    (h : scanPlain ip fp isFloat r = some (t, [])) : r = [] := by
  unfold scanPlain at h
  split at h
  · exact (numFinish_nil h).2
  · split at h
    · cases h
    · exact (numFinish_nil h).2

/-- the end of a number that ends its text also ends it before a delimiter -/
theorem scanExp_extend (ip fp : List Char) (isFloat : Bool) (r : List Char) (t : Tok)
    (h : scanExp ip fp isFloat r = some (t, [])) (rest : List Char) (hr : delim rest = true) :
    scanExp ip fp isFloat (r ++ rest) = some (t, rest) := by
  have hf := delim_numFollowOK hr
  have hs : stops Char.isDigit rest := delim_not_digit hr
  cases r with
  | nil =>
    rw [List.nil_append, scanExp_delim _ _ _ _ hr]
    simp only [scanExp, scanPlain, numFinish, numFollowOK, if_true] at h
    cases isFloat with
    | true => simpa using h
    | false =>
      simp only [Bool.false_eq_true, if_false] at h ⊢
      split at h
      · cases h
      · rename_i hz
        simp only [hz]
        simpa using h
  | cons c r1 =>
    by_cases hc : (c == 'e' || c == 'E') = true
    · cases r1 with
      | nil => simp [scanExp, hc] at h
      | cons s r2 =>
        simp only [scanExp, hc, if_true] at h
        simp only [List.cons_append, scanExp, hc, if_true]
        have hr3 : (if (s == '+' || s == '-') = true then r2 ++ rest else s :: (r2 ++ rest)) =
            (if (s == '+' || s == '-') = true then r2 else s :: r2) ++ rest := by
          split <;> rfl
        rw [hr3]
        generalize (if (s == '+' || s == '-') = true then r2 else s :: r2) = r3 at h ⊢
        rw [takeWhile_append_of_stops _ _ hs, dropWhile_append_of_stops _ _ hs]
        by_cases hed : ((List.takeWhile Char.isDigit r3).isEmpty ||
            decide ((List.takeWhile Char.isDigit r3).length > 3)) = true
        · rw [if_pos hed] at h; cases h
        · rw [if_neg hed] at h ⊢
          obtain ⟨rfl, h0⟩ := numFinish_nil h
          rw [h0, List.nil_append, numFinish, hf]
          rfl
    · simp only [scanExp, hc, Bool.false_eq_true, if_false] at h
      exact absurd (scanPlain_nil h) (by simp)

/-- a number that is the whole text is read the same before a delimiter -/
theorem scanNumber_extend (cs : List Char) (t : Tok) (h : scanNumber cs = some (t, []))
    (rest : List Char) (hr : delim rest = true) : scanNumber (cs ++ rest) = some (t, rest) := by
  have hs : stops Char.isDigit rest := delim_not_digit hr
  unfold scanNumber at h ⊢
  rw [takeWhile_append_of_stops _ _ hs, dropWhile_append_of_stops _ _ hs]
  cases hd : cs.dropWhile Char.isDigit with
  | nil =>
    rw [hd] at h
    simp only [] at h
    have := scanExp_extend _ _ _ [] t h rest hr
    simp only [List.nil_append] at this ⊢
    rcases delim_cases hr with h' | ⟨c', r', h', hc'⟩
    · subst h'; exact this
    · subst h'
      rcases hc' with h'' | h'' | h'' | h'' | h'' | h'' <;> subst h'' <;> exact this
  | cons c r2 =>
    rw [hd] at h
    simp only [List.cons_append] at h ⊢
    by_cases hc : (c == '.') = true
    · simp only [hc, if_true] at h ⊢
      rw [takeWhile_append_of_stops _ _ hs, dropWhile_append_of_stops _ _ hs]
      exact scanExp_extend _ _ _ _ t h rest hr
    · simp only [hc, Bool.false_eq_true, if_false] at h ⊢
      exact scanExp_extend _ _ _ (c :: r2) t h rest hr


/-- the text is an optional `-` and one float literal: the sign and the literal's value -/
def readFloatText (cs : List Char) : Option (Bool × Dbl) :=
  let neg := cs.head? == some '-'
  let body := if neg then cs.drop 1 else cs
  match body with
  | d :: _ =>
    if d.isDigit then
      match scanNumber body with
      | some (.float v, []) => some (neg, v)
      | _ => none
    else none
  | [] => none

theorem lexes_number (d : Char) (b : List Char) (t : Tok) (hd : d.isDigit = true)
    (h : scanNumber (d :: b) = some (t, [])) : Lexes (d :: b) [t] := by
  intro rest hr
  have hn : nextTok (d :: (b ++ rest)) = some (t, rest) := by
    have := scanNumber_extend (d :: b) t h rest hr
    simp only [List.cons_append] at this
    simp only [nextTok, isDigit_not_quote hd, isDigit_not_idStart hd, hd, if_true,
      Bool.false_eq_true, if_false, this]
  rw [List.cons_append, tokenizeLine_tok d (b ++ rest) t rest (isDigit_ne hd).1 (isDigit_ne hd).2 hn
    (by simp)]

theorem lexFloat_of_readFloatText (s : String) (neg : Bool) (v : Dbl)
    (h : readFloatText s.toList = some (neg, v)) : LexFloat s neg v := by
  unfold readFloatText at h
  unfold LexFloat
  generalize s.toList = cs at h ⊢
  cases hneg : cs.head? == some '-' with
  | false =>
    simp only [hneg, Bool.false_eq_true, if_false] at h
    cases cs with
    | nil => simp at h
    | cons d b =>
      simp only [] at h
      split at h
      · rename_i hd
        split at h
        · rename_i v' hs
          simp only [Option.some.injEq, Prod.mk.injEq] at h
          obtain ⟨rfl, rfl⟩ := h
          simpa using lexes_number d b _ hd hs
        · cases h
      · cases h
  | true =>
    simp only [hneg, if_true] at h
    cases cs with
    | nil => simp at hneg
    | cons m cs' =>
      simp only [List.head?_cons, beq_iff_eq, Option.some.injEq] at hneg
      subst hneg
      simp only [List.drop_succ_cons, List.drop_zero] at h
      cases cs' with
      | nil => simp at h
      | cons d b =>
        simp only [] at h
        split at h
        · rename_i hd
          split at h
          · rename_i v' hs
            simp only [Option.some.injEq, Prod.mk.injEq] at h
            obtain ⟨rfl, rfl⟩ := h
            have := lexes_minus.then (lexes_number d b _ hd hs)
            simpa using this
          · cases h
        · cases h

/-- the same `Dbl` (same mantissa and exponent, not just the same value) -/
def dblSame : Dbl → Dbl → Bool
  | .fin m e, .fin m' e' => m == m' && e == e'
  | .pinf, .pinf => true
  | .ninf, .ninf => true
  | .nan, .nan => true
  | _, _ => false

theorem eq_of_dblSame {a b : Dbl} (h : dblSame a b = true) : a = b := by
  cases a <;> cases b <;> simp_all [dblSame]

/-- **the float side condition, computed**: print the constant, read the text, compare -/
def floatReadsB (d : Dbl) (nz : Bool) : Bool :=
  match readFloatText (floatStr d nz).toList with
  | some (neg, v) => dblSame (signedFloat neg v).1 d && ((signedFloat neg v).2 == nz)
  | none => false

def weightReadsB (d : Dbl) : Bool :=
  match readFloatText (Dbl.repr d).toList with
  | some (neg, v) => dblSame (signedFloat neg v).1 d
  | none => false

theorem floatReads_of_B {d : Dbl} {nz : Bool} (h : floatReadsB d nz = true) : FloatReads d nz := by
  unfold floatReadsB at h
  split at h
  · rename_i neg v hr
    simp only [Bool.and_eq_true, beq_iff_eq] at h
    refine ⟨neg, v, lexFloat_of_readFloatText _ neg v hr, ?_⟩
    rw [← eq_of_dblSame h.1, ← h.2]
  · cases h

theorem weightReads_of_B {d : Dbl} (h : weightReadsB d = true) : WeightReads d := by
  unfold weightReadsB at h
  split at h
  · rename_i neg v hr
    exact ⟨neg, v, lexFloat_of_readFloatText _ neg v hr, eq_of_dblSame h⟩
  · cases h

example : floatReadsB (Dbl.ofDecimal false 25 1) false = true := by decide +kernel
example : floatReadsB (Dbl.neg (Dbl.ofDecimal false 25 1)) false = true := by decide +kernel
example : floatReadsB (Dbl.ofDecimal false 1 7) false = true := by decide +kernel
example : floatReadsB (Dbl.ofDecimal false 123456789012345678 0) false = true := by decide +kernel
example : floatReadsB (.fin 0 0) true = true := by decide +kernel
example : floatReadsB (.fin 0 0) false = true := by decide +kernel
example : floatReadsB .pinf false = false := by decide +kernel
example : floatReadsB .nan false = false := by decide +kernel
example : floatReadsB (Dbl.ofInt 3) false = false := by decide +kernel

/-! ### the side conditions, computed -/

/-- `fb`: the computed condition on float constants -/
def constOKBW (fb : Dbl → Bool → Bool) : PyVal → Bool
  | .float d nz => fb d nz
  | .tuple _ => false
  | _ => true

mutual
def termOKBW (fb : Dbl → Bool → Bool) : PTerm → Bool
  | .const v => constOKBW fb v
  | .name n => isPyName n
  | .tuple l => termsOKBW fb l
def termsOKBW (fb : Dbl → Bool → Bool) : List PTerm → Bool
  | [] => true
  | t :: ts => termOKBW fb t && termsOKBW fb ts
end

def exprOKBW (fb : Dbl → Bool → Bool) : PExpr → Bool
  | .cmp l op r => termOKBW fb l && cmpOps.contains op && termOKBW fb r
  | .bin a op b => exprOKBW fb a && (op == "and" || op == "or") && exprOKBW fb b
  | .un op a => op == "not" && exprOKBW fb a

/-- `wb`: the computed condition on float weights -/
def numOKBW (wb : Dbl → Bool) : Num → Bool
  | .i _ => true
  | .f d => wb d

def lineOKBW (fb : Dbl → Bool → Bool) (wb : Dbl → Bool) : Line → Bool
  | .ifL e => exprOKBW fb e
  | .elifL e => exprOKBW fb e
  | .ret pop ws => pop.all (constOKBW fb) && ws.all (numOKBW wb)
  | _ => true

/-- **the side condition of the exact round trip, computed** -/
abbrev constOKB := constOKBW floatReadsB
abbrev termOKB := termOKBW floatReadsB
abbrev exprOKB := exprOKBW floatReadsB
abbrev numOKB := numOKBW weightReadsB
abbrev lineOKB := lineOKBW floatReadsB weightReadsB

theorem constOKW_of_B {F : Dbl → Bool → Prop} {fb : Dbl → Bool → Bool}
    (hf : ∀ d nz, fb d nz = true → F d nz) {v : PyVal} (h : constOKBW fb v = true) : ConstOKW F v := by
  cases v with
  | float d nz => exact hf d nz h
  | tuple l => simp [constOKBW] at h
  | _ => trivial

mutual
theorem termOKW_of_B {F : Dbl → Bool → Prop} {fb : Dbl → Bool → Bool}
    (hf : ∀ d nz, fb d nz = true → F d nz) : ∀ {t : PTerm}, termOKBW fb t = true → TermOKW F t
  | .const v, h => by simpa [TermOKW] using constOKW_of_B hf (by simpa [termOKBW] using h)
  | .name n, h => by simpa [TermOKW, termOKBW] using h
  | .tuple l, h => by
      have := termsOKW_of_B hf (l := l) (by simpa [termOKBW] using h)
      simpa [TermOKW] using this
theorem termsOKW_of_B {F : Dbl → Bool → Prop} {fb : Dbl → Bool → Bool}
    (hf : ∀ d nz, fb d nz = true → F d nz) : ∀ {l : List PTerm}, termsOKBW fb l = true → TermsOKW F l
  | [], _ => by simp [TermsOKW]
  | t :: ts, h => by
      simp only [termsOKBW, Bool.and_eq_true] at h
      exact ⟨termOKW_of_B hf h.1, termsOKW_of_B hf h.2⟩
end

theorem exprOKW_of_B {F : Dbl → Bool → Prop} {fb : Dbl → Bool → Bool}
    (hf : ∀ d nz, fb d nz = true → F d nz) : ∀ {e : PExpr}, exprOKBW fb e = true → ExprOKW F e
  | .cmp l op r, h => by
      simp only [exprOKBW, Bool.and_eq_true, List.contains_iff_mem] at h
      exact ⟨termOKW_of_B hf h.1.1, h.1.2, termOKW_of_B hf h.2⟩
  | .bin a op b, h => by
      simp only [exprOKBW, Bool.and_eq_true, Bool.or_eq_true, beq_iff_eq] at h
      exact ⟨exprOKW_of_B hf h.1.1, h.1.2, exprOKW_of_B hf h.2⟩
  | .un op a, h => by
      simp only [exprOKBW, Bool.and_eq_true, beq_iff_eq] at h
      exact ⟨h.1, exprOKW_of_B hf h.2⟩

theorem numOKW_of_B {W : Dbl → Prop} {wb : Dbl → Bool} (hw : ∀ d, wb d = true → W d)
    {w : Num} (h : numOKBW wb w = true) : NumOKW W w := by
  cases w with
  | i v => trivial
  | f d => exact hw d h

theorem lineOKW_of_B {F : Dbl → Bool → Prop} {W : Dbl → Prop} {fb : Dbl → Bool → Bool}
    {wb : Dbl → Bool} (hf : ∀ d nz, fb d nz = true → F d nz) (hw : ∀ d, wb d = true → W d)
    {l : Line} (h : lineOKBW fb wb l = true) : LineOKW F W l := by
  cases l with
  | ifL e => exact exprOKW_of_B hf h
  | elifL e => exact exprOKW_of_B hf h
  | ret pop ws =>
    simp only [lineOKBW, Bool.and_eq_true, List.all_eq_true] at h
    exact ⟨fun v hv => constOKW_of_B hf (h.1 v hv), fun w hw' => numOKW_of_B hw (h.2 w hw')⟩
  | elseL => trivial
  | raiseU => trivial

theorem constOK_of_B {v : PyVal} (h : constOKB v = true) : ConstOK v :=
  constOKW_of_B (fun _ _ => floatReads_of_B) h
theorem numOK_of_B {w : Num} (h : numOKB w = true) : NumOK w :=
  numOKW_of_B (fun _ => weightReads_of_B) h
theorem exprOK_of_B {e : PExpr} (h : exprOKB e = true) : ExprOK e :=
  exprOKW_of_B (fun _ _ => floatReads_of_B) h
theorem lineOK_of_B {l : Line} (h : lineOKB l = true) : LineOK l :=
  lineOKW_of_B (fun _ _ => floatReads_of_B) (fun _ => weightReads_of_B) h

/-! ### the side conditions on the source: every emitted line satisfies `LineOK` -/

mutual
/-- operands of the source: identifiers are Python names, float constants satisfy `fb` -/
def termSrcOKW (fb : Dbl → Bool → Bool) : Term → Bool
  | .float d nz => fb d nz
  | .ident n => isPyName n
  | .tuple l => termsSrcOKW fb l
  | _ => true
def termsSrcOKW (fb : Dbl → Bool → Bool) : List Term → Bool
  | [] => true
  | t :: ts => termSrcOKW fb t && termsSrcOKW fb ts
end

def predSrcOKW (fb : Dbl → Bool → Bool) : Pred → Bool
  | .cmp l _ r => termSrcOKW fb l && termSrcOKW fb r
  | .and a b => predSrcOKW fb a && predSrcOKW fb b
  | .or a b => predSrcOKW fb a && predSrcOKW fb b
  | .not a => predSrcOKW fb a

def groupSrcOKW (fb : Dbl → Bool → Bool) (wb : Dbl → Bool) (g : Group) : Bool :=
  (match g.defn with
    | .float d nz => fb d nz
    | _ => true) && numOKBW wb g.weight

mutual
def condSrcOKW (fb : Dbl → Bool → Bool) (wb : Dbl → Bool) : Cond → Bool
  | .ret gs => gs.all (groupSrcOKW fb wb)
  | .ifte p t rest => predSrcOKW fb p && condSrcOKW fb wb t && subSrcOKW fb wb rest
def subSrcOKW (fb : Dbl → Bool → Bool) (wb : Dbl → Bool) : Sub → Bool
  | .none => true
  | .else_ t => condSrcOKW fb wb t
  | .elif p t rest => predSrcOKW fb p && condSrcOKW fb wb t && subSrcOKW fb wb rest
end

/-- **the side condition on the source, computed**: identifiers are Python names, float
    constants and float weights read back exactly -/
abbrev condSrcOK := condSrcOKW floatReadsB weightReadsB

mutual
theorem termOK_lower {F : Dbl → Bool → Prop} {fb : Dbl → Bool → Bool}
    (hf : ∀ d nz, fb d nz = true → F d nz) (cfg : GenCfg) (hc : CanonicalExpr cfg) :
    ∀ (t : Term) (pt : PTerm), termSrcOKW fb t = true → lowerTerm cfg t = .ok pt → TermOKW F pt
  | .int i, pt, _, h => by
      simp only [lowerTerm, bind_ok_iff] at h
      obtain ⟨_, _, h⟩ := h
      cases h
      simp [TermOKW, ConstOKW]
  | .float d nz, pt, hok, h => by
      simp only [lowerTerm] at h
      cases h
      simpa [TermOKW, ConstOKW] using hf d nz (by simpa [termSrcOKW] using hok)
  | .str s, pt, _, h => by
      simp only [lowerTerm, bind_ok_iff] at h
      obtain ⟨s', _, h⟩ := h
      cases h
      simp [TermOKW, ConstOKW]
  | .ident n, pt, hok, h => by
      simp only [lowerTerm] at h
      cases h
      simpa [TermOKW, termSrcOKW] using hok
  | .tuple l, pt, hok, h => by
      simp only [lowerTerm, hc.tuples, if_true, bind_ok_iff] at h
      obtain ⟨pl, hpl, h⟩ := h
      cases h
      have := termsOK_lower hf cfg hc l pl (by simpa [termSrcOKW] using hok) hpl
      simpa [TermOKW] using this
theorem termsOK_lower {F : Dbl → Bool → Prop} {fb : Dbl → Bool → Bool}
    (hf : ∀ d nz, fb d nz = true → F d nz) (cfg : GenCfg) (hc : CanonicalExpr cfg) :
    ∀ (l : List Term) (pl : List PTerm), termsSrcOKW fb l = true → lowerTerms cfg l = .ok pl →
      TermsOKW F pl
  | [], pl, _, h => by
      simp only [lowerTerms] at h
      cases h
      simp [TermsOKW]
  | t :: ts, pl, hok, h => by
      simp only [lowerTerms, bind_ok_iff] at h
      obtain ⟨a, ha, b, hb, h⟩ := h
      cases h
      simp only [termsSrcOKW, Bool.and_eq_true] at hok
      exact ⟨termOK_lower hf cfg hc t a hok.1 ha, termsOK_lower hf cfg hc ts b hok.2 hb⟩
end

theorem cmpOp_of_canonical {cfg : GenCfg} (hc : CanonicalExpr cfg) (op : CmpOp) :
    cfg.op op.name ∈ cmpOps := by
  cases op
  · rw [CmpOp.name, hc.ops ("EQ", "==") (by simp [canonicalOps])]; simp [cmpOps]
  · rw [CmpOp.name, hc.ops ("GT", ">") (by simp [canonicalOps])]; simp [cmpOps]
  · rw [CmpOp.name, hc.ops ("LT", "<") (by simp [canonicalOps])]; simp [cmpOps]
  · rw [CmpOp.name, hc.ops ("GE", ">=") (by simp [canonicalOps])]; simp [cmpOps]
  · rw [CmpOp.name, hc.ops ("LE", "<=") (by simp [canonicalOps])]; simp [cmpOps]
  · rw [CmpOp.name, hc.ops ("NE", "!=") (by simp [canonicalOps])]; simp [cmpOps]
  · rw [CmpOp.name, hc.ops ("IN", "in") (by simp [canonicalOps])]; simp [cmpOps]
  · rw [CmpOp.name, hc.ops ("NOT_IN", "not in") (by simp [canonicalOps])]; simp [cmpOps]

theorem exprOK_lower {F : Dbl → Bool → Prop} {fb : Dbl → Bool → Bool}
    (hf : ∀ d nz, fb d nz = true → F d nz) (cfg : GenCfg) (hc : CanonicalExpr cfg) :
    ∀ (p : Pred) (e : PExpr), predSrcOKW fb p = true → lowerPred cfg p = .ok e → ExprOKW F e
  | .cmp l op r, e, hok, h => by
      simp only [lowerPred, bind_ok_iff] at h
      obtain ⟨a, ha, b, hb, h⟩ := h
      cases h
      simp only [predSrcOKW, Bool.and_eq_true] at hok
      exact ⟨termOK_lower hf cfg hc l a hok.1 ha, cmpOp_of_canonical hc op,
        termOK_lower hf cfg hc r b hok.2 hb⟩
  | .and x y, e, hok, h => by
      simp only [lowerPred, bind_ok_iff] at h
      obtain ⟨a, ha, b, hb, h⟩ := h
      cases h
      simp only [predSrcOKW, Bool.and_eq_true] at hok
      exact ⟨exprOK_lower hf cfg hc x a hok.1 ha, .inl (and_of_canonical hc),
        exprOK_lower hf cfg hc y b hok.2 hb⟩
  | .or x y, e, hok, h => by
      simp only [lowerPred, bind_ok_iff] at h
      obtain ⟨a, ha, b, hb, h⟩ := h
      cases h
      simp only [predSrcOKW, Bool.and_eq_true] at hok
      exact ⟨exprOK_lower hf cfg hc x a hok.1 ha, .inr (or_of_canonical hc),
        exprOK_lower hf cfg hc y b hok.2 hb⟩
  | .not x, e, hok, h => by
      simp only [lowerPred, bind_ok_iff] at h
      obtain ⟨a, ha, h⟩ := h
      cases h
      exact ⟨not_of_canonical hc, exprOK_lower hf cfg hc x a (by simpa [predSrcOKW] using hok) ha⟩

theorem constOK_groupVal {F : Dbl → Bool → Prop} {fb : Dbl → Bool → Bool}
    (hf : ∀ d nz, fb d nz = true → F d nz) (cfg : GenCfg) (t : Term) (v : PyVal)
    (hok : (match t with | .float d nz => fb d nz | _ => true) = true)
    (h : groupVal cfg t = .ok v) : ConstOKW F v := by
  cases t with
  | int i =>
    simp only [groupVal, bind_ok_iff] at h
    obtain ⟨_, _, h⟩ := h
    cases h; trivial
  | float d nz =>
    simp only [groupVal] at h
    cases h
    exact hf d nz hok
  | str s =>
    simp only [groupVal, bind_ok_iff] at h
    obtain ⟨_, _, h⟩ := h
    cases h; trivial
  | ident n => simp [groupVal, throw, throwThe, MonadExceptOf.throw] at h
  | tuple l => simp [groupVal, throw, throwThe, MonadExceptOf.throw] at h

theorem popOK_lower {F : Dbl → Bool → Prop} {fb : Dbl → Bool → Bool} {wb : Dbl → Bool}
    (hf : ∀ d nz, fb d nz = true → F d nz) (cfg : GenCfg) : ∀ (gs : List Group) (pop : List PyVal),
    gs.all (groupSrcOKW fb wb) = true → gs.mapM (fun g => groupVal cfg g.defn) = .ok pop →
      ∀ v ∈ pop, ConstOKW F v
  | [], pop, _, h => by
      simp only [List.mapM_nil] at h
      cases h
      simp
  | g :: gs, pop, hok, h => by
      simp only [List.mapM_cons, bind_ok_iff] at h
      obtain ⟨v, hv, vs, hvs, h⟩ := h
      cases h
      simp only [List.all_cons, Bool.and_eq_true] at hok
      intro w hw
      simp only [List.mem_cons] at hw
      rcases hw with rfl | hw
      · exact constOK_groupVal hf cfg g.defn _ (by
          have := hok.1; simp only [groupSrcOKW, Bool.and_eq_true] at this; exact this.1) hv
      · exact popOK_lower hf cfg gs vs hok.2 hvs w hw

theorem lineOK_lowerReturn {F : Dbl → Bool → Prop} {W : Dbl → Prop} {fb : Dbl → Bool → Bool}
    {wb : Dbl → Bool} (hf : ∀ d nz, fb d nz = true → F d nz) (hw : ∀ d, wb d = true → W d)
    (cfg : GenCfg) (gs : List Group) (l : Line)
    (hok : gs.all (groupSrcOKW fb wb) = true) (h : lowerReturn cfg gs = .ok l) : LineOKW F W l := by
  simp only [lowerReturn, retVals, bind_ok_iff] at h
  obtain ⟨⟨pop, ws⟩, ⟨pop', hpop, w, _, hpw⟩, hl⟩ := h
  cases hpw; cases hl
  refine ⟨popOK_lower hf cfg gs pop hok hpop, ?_⟩
  intro w hw'
  simp only [List.mem_map] at hw'
  obtain ⟨g, hg, rfl⟩ := hw'
  have := List.all_eq_true.mp hok g hg
  simp only [groupSrcOKW, Bool.and_eq_true] at this
  exact numOKW_of_B hw this.2

mutual
theorem linesOK_cond {F : Dbl → Bool → Prop} {W : Dbl → Prop} {fb : Dbl → Bool → Bool}
    {wb : Dbl → Bool} (hf : ∀ d nz, fb d nz = true → F d nz) (hw : ∀ d, wb d = true → W d)
    (cfg : GenCfg) (hc : CanonicalExpr cfg) :
    ∀ (c : Cond) (d : Nat) (L : List ILine), condSrcOKW fb wb c = true → linesCond cfg d c = .ok L →
      ∀ x ∈ L, LineOKW F W x.2
  | .ret gs, d, L, hok, h => by
      simp only [linesCond, bind_ok_iff] at h
      obtain ⟨l, hl, h⟩ := h
      cases h
      intro x hx
      simp only [List.mem_singleton] at hx
      subst hx
      exact lineOK_lowerReturn hf hw cfg gs l (by simpa [condSrcOKW] using hok) hl
  | .ifte p t rest, d, L, hok, h => by
      simp only [linesCond, bind_ok_iff] at h
      obtain ⟨e, he, tb, htb, fb', hfb, h⟩ := h
      cases h
      simp only [condSrcOKW, Bool.and_eq_true] at hok
      intro x hx
      simp only [List.mem_cons, List.mem_append] at hx
      rcases hx with (rfl | hx) | hx
      · exact exprOK_lower hf cfg hc p e hok.1.1 he
      · exact linesOK_cond hf hw cfg hc t (d + 1) tb hok.1.2 htb x hx
      · exact linesOK_sub hf hw cfg hc rest d fb' hok.2 hfb x hx
theorem linesOK_sub {F : Dbl → Bool → Prop} {W : Dbl → Prop} {fb : Dbl → Bool → Bool}
    {wb : Dbl → Bool} (hf : ∀ d nz, fb d nz = true → F d nz) (hw : ∀ d, wb d = true → W d)
    (cfg : GenCfg) (hc : CanonicalExpr cfg) :
    ∀ (sb : Sub) (d : Nat) (L : List ILine), subSrcOKW fb wb sb = true → linesSub cfg d sb = .ok L →
      ∀ x ∈ L, LineOKW F W x.2
  | .none, d, L, _, h => by
      simp only [linesSub] at h
      cases h
      simp
  | .else_ t, d, L, hok, h => by
      simp only [linesSub, bind_ok_iff] at h
      obtain ⟨tb, htb, h⟩ := h
      cases h
      intro x hx
      simp only [List.mem_cons] at hx
      rcases hx with rfl | hx
      · trivial
      · exact linesOK_cond hf hw cfg hc t (d + 1) tb (by simpa [subSrcOKW] using hok) htb x hx
  | .elif p t rest, d, L, hok, h => by
      simp only [linesSub, bind_ok_iff] at h
      obtain ⟨e, he, tb, htb, fb', hfb, h⟩ := h
      cases h
      simp only [subSrcOKW, Bool.and_eq_true] at hok
      intro x hx
      simp only [List.mem_cons, List.mem_append] at hx
      rcases hx with (rfl | hx) | hx
      · exact exprOK_lower hf cfg hc p e hok.1.1 he
      · exact linesOK_cond hf hw cfg hc t (d + 1) tb hok.1.2 htb x hx
      · exact linesOK_sub hf hw cfg hc rest d fb' hok.2 hfb x hx
end

/-- every line the generator emits for a source that satisfies the computed condition
    (`fb` on float constants, `wb` on float weights, identifiers Python names) satisfies the
    corresponding condition on lines -/
theorem linesOKW_body {F : Dbl → Bool → Prop} {W : Dbl → Prop} {fb : Dbl → Bool → Bool}
    {wb : Dbl → Bool} (hf : ∀ d nz, fb d nz = true → F d nz) (hw : ∀ d, wb d = true → W d)
    (cfg : GenCfg) (hc : CanonicalExpr cfg) (c : Cond) (d : Nat) (L : List ILine)
    (hok : condSrcOKW fb wb c = true) (h : bodyLines cfg d c = .ok L) : ∀ x ∈ L, LineOKW F W x.2 := by
  simp only [bodyLines, bind_ok_iff] at h
  obtain ⟨Lc, hLc, h⟩ := h
  cases h
  intro x hx
  simp only [List.mem_append, List.mem_singleton] at hx
  rcases hx with hx | rfl
  · exact linesOK_cond hf hw cfg hc c d Lc hok hLc x hx
  · trivial

/-- every line the generator emits for a source whose identifiers are Python names and whose
    float constants read back satisfies the reader's side condition -/
theorem linesOK_body (cfg : GenCfg) (hc : CanonicalExpr cfg) (c : Cond) (d : Nat) (L : List ILine)
    (hok : condSrcOK c = true) (h : bodyLines cfg d c = .ok L) : ∀ x ∈ L, LineOK x.2 :=
  linesOKW_body (fun _ _ => floatReads_of_B) (fun _ => weightReads_of_B) cfg hc c d L hok h

/-! ### floats in another representation: read back up to the representation

  `Dbl` holds a finite float as a pair `m * 2^e`, and the same value has several pairs.  The
  reader computes its own pair from the digits (`Dbl.decToDbl`, 53-bit mantissa), so a
  constant such as `Dbl.ofNat 1 = 1·2^0` (an integer weight turned into a float) is read
  back as `4503599627370496·2^-52`: the same float, not the same `Dbl` term.  For such
  constants the round trip holds up to this re-reading (`rereadFloat`), which is the identity
  when `floatReadsB` holds. -/

/-- what Python makes of the text printed for a float constant -/
def rereadFloat (d : Dbl) (nz : Bool) : Dbl × Bool :=
  match readFloatText (floatStr d nz).toList with
  | some (neg, v) => signedFloat neg v
  | none => (d, nz)

/-- **the side condition on float constants, up to representation** (computed): the printed
    text is a float literal; the float Python builds from it has the same value — the same
    normal form `Dbl.norm`, the same `-0.0` flag — and prints as the same text -/
def floatStableB (d : Dbl) (nz : Bool) : Bool :=
  match readFloatText (floatStr d nz).toList with
  | some (neg, v) =>
      floatStr (signedFloat neg v).1 (signedFloat neg v).2 == floatStr d nz &&
        dblSame (Dbl.norm (signedFloat neg v).1) (Dbl.norm d) && (signedFloat neg v).2 == nz
  | none => false

def rereadWeight (d : Dbl) : Dbl :=
  match readFloatText (Dbl.repr d).toList with
  | some (neg, v) => (signedFloat neg v).1
  | none => d

def weightStableB (d : Dbl) : Bool :=
  match readFloatText (Dbl.repr d).toList with
  | some (neg, v) =>
      Dbl.repr (signedFloat neg v).1 == Dbl.repr d && dblSame (Dbl.norm (signedFloat neg v).1) (Dbl.norm d)
  | none => false

theorem floatStable_spec {d : Dbl} {nz : Bool} (h : floatStableB d nz = true) :
    FloatReads (rereadFloat d nz).1 (rereadFloat d nz).2 ∧
      floatStr (rereadFloat d nz).1 (rereadFloat d nz).2 = floatStr d nz ∧
      Dbl.norm (rereadFloat d nz).1 = Dbl.norm d ∧ (rereadFloat d nz).2 = nz := by
  unfold floatStableB at h
  unfold rereadFloat
  split at h
  · rename_i neg v hr
    simp only [Bool.and_eq_true, beq_iff_eq] at h
    refine ⟨⟨neg, v, ?_, rfl⟩, h.1.1, eq_of_dblSame h.1.2, h.2⟩
    apply lexFloat_of_readFloatText
    rw [h.1.1]; exact hr
  · cases h

theorem weightStable_spec {d : Dbl} (h : weightStableB d = true) :
    WeightReads (rereadWeight d) ∧ Dbl.repr (rereadWeight d) = Dbl.repr d ∧
      Dbl.norm (rereadWeight d) = Dbl.norm d := by
  unfold weightStableB at h
  unfold rereadWeight
  split at h
  · rename_i neg v hr
    simp only [Bool.and_eq_true, beq_iff_eq] at h
    refine ⟨⟨neg, v, ?_, rfl⟩, h.1, eq_of_dblSame h.2⟩
    apply lexFloat_of_readFloatText
    rw [h.1]; exact hr
  · cases h

/-- where the exact condition holds, re-reading changes nothing -/
theorem rereadFloat_of_readsB {d : Dbl} {nz : Bool} (h : floatReadsB d nz = true) :
    rereadFloat d nz = (d, nz) := by
  unfold floatReadsB at h
  unfold rereadFloat
  split at h
  · rename_i neg v hr
    simp only [Bool.and_eq_true, beq_iff_eq] at h
    try simp only [hr]
    exact Prod.ext (eq_of_dblSame h.1) h.2
  · cases h

/-! the lines with every float constant and float weight re-read -/

def rereadVal : PyVal → PyVal
  | .float d nz => .float (rereadFloat d nz).1 (rereadFloat d nz).2
  | v => v

mutual
def rereadTerm : PTerm → PTerm
  | .const v => .const (rereadVal v)
  | .name n => .name n
  | .tuple l => .tuple (rereadTerms l)
def rereadTerms : List PTerm → List PTerm
  | [] => []
  | t :: ts => rereadTerm t :: rereadTerms ts
end

def rereadExpr : PExpr → PExpr
  | .cmp l op r => .cmp (rereadTerm l) op (rereadTerm r)
  | .bin a op b => .bin (rereadExpr a) op (rereadExpr b)
  | .un op a => .un op (rereadExpr a)

def rereadNum : Num → Num
  | .f d => .f (rereadWeight d)
  | w => w

def rereadLine : Line → Line
  | .ifL e => .ifL (rereadExpr e)
  | .elifL e => .elifL (rereadExpr e)
  | .ret pop ws => .ret (pop.map rereadVal) (ws.map rereadNum)
  | l => l

def rereadILine (x : ILine) : ILine := (x.1, rereadLine x.2)

/-- the side conditions up to the representation of floats -/
abbrev FloatStable (d : Dbl) (nz : Bool) : Prop := floatStableB d nz = true
abbrev WeightStable (d : Dbl) : Prop := weightStableB d = true
abbrev LineStable := LineOKW FloatStable WeightStable
abbrev lineStableB := lineOKBW floatStableB weightStableB
abbrev condSrcStable := condSrcOKW floatStableB weightStableB

theorem const_reread (p : Nat → Bool) (v : PyVal) (h : ConstOKW FloatStable v) :
    ConstOK (rereadVal v) ∧ printConst p (rereadVal v) = printConst p v := by
  cases v with
  | float d nz =>
    obtain ⟨h1, h2, _, _⟩ := floatStable_spec (d := d) (nz := nz) h
    exact ⟨h1, by simp only [rereadVal, printConst_float, h2]⟩
  | tuple l => exact absurd h (by simp [ConstOKW])
  | _ => exact ⟨trivial, rfl⟩

mutual
theorem term_reread (p : Nat → Bool) : ∀ (t : PTerm), TermOKW FloatStable t →
    TermOK (rereadTerm t) ∧ printTerm p (rereadTerm t) = printTerm p t
  | .const v, h => by
      have := const_reread p v (by simpa [TermOKW] using h)
      exact ⟨by simpa [rereadTerm, TermOKW] using this.1, by simp only [rereadTerm, printTerm, this.2]⟩
  | .name n, h => ⟨by simpa [rereadTerm, TermOKW] using h, rfl⟩
  | .tuple l, h => by
      have := terms_reread p l (by simpa [TermOKW] using h)
      exact ⟨by simpa [rereadTerm, TermOKW] using this.1, by simp only [rereadTerm, printTerm, this.2]⟩
theorem terms_reread (p : Nat → Bool) : ∀ (l : List PTerm), TermsOKW FloatStable l →
    TermsOK (rereadTerms l) ∧ printTerms p (rereadTerms l) = printTerms p l
  | [], _ => ⟨by simp [rereadTerms, TermsOKW], rfl⟩
  | t :: ts, h => by
      simp only [TermsOKW] at h
      have h1 := term_reread p t h.1
      have h2 := terms_reread p ts h.2
      exact ⟨⟨h1.1, h2.1⟩, by simp only [rereadTerms, printTerms, h1.2, h2.2]⟩
end

theorem expr_reread (p : Nat → Bool) : ∀ (e : PExpr), ExprOKW FloatStable e →
    ExprOK (rereadExpr e) ∧ printExpr p (rereadExpr e) = printExpr p e
  | .cmp l op r, h => by
      have h1 := term_reread p l h.1
      have h2 := term_reread p r h.2.2
      exact ⟨⟨h1.1, h.2.1, h2.1⟩, by simp only [rereadExpr, printExpr, h1.2, h2.2]⟩
  | .bin a op b, h => by
      have h1 := expr_reread p a h.1
      have h2 := expr_reread p b h.2.2
      exact ⟨⟨h1.1, h.2.1, h2.1⟩, by simp only [rereadExpr, printExpr, h1.2, h2.2]⟩
  | .un op a, h => by
      have h1 := expr_reread p a h.2
      exact ⟨⟨h.1, h1.1⟩, by simp only [rereadExpr, printExpr, h1.2]⟩

theorem num_reread (w : Num) (h : NumOKW WeightStable w) :
    NumOK (rereadNum w) ∧ renderWeight (rereadNum w) = renderWeight w := by
  cases w with
  | i v => exact ⟨trivial, rfl⟩
  | f d =>
    obtain ⟨h1, h2, _⟩ := weightStable_spec (d := d) h
    exact ⟨h1, by simp only [rereadNum, renderWeight, h2]⟩

theorem mapM_map_congr {α β : Type} (f g : α → Except Err β) (r : α → α) :
    ∀ (l : List α), (∀ a ∈ l, f (r a) = g a) → (l.map r).mapM f = l.mapM g
  | [], _ => rfl
  | a :: as, h => by
      simp only [List.map_cons, List.mapM_cons, h a (by simp),
        mapM_map_congr f g r as (fun b hb => h b (by simp [hb]))]

theorem line_reread (p : Nat → Bool) (l : Line) (h : LineStable l) :
    LineOK (rereadLine l) ∧ printLine p (rereadLine l) = printLine p l := by
  cases l with
  | ifL e =>
    have := expr_reread p e h
    exact ⟨this.1, by simp only [rereadLine, printLine, this.2]⟩
  | elifL e =>
    have := expr_reread p e h
    exact ⟨this.1, by simp only [rereadLine, printLine, this.2]⟩
  | elseL => exact ⟨trivial, rfl⟩
  | raiseU => exact ⟨trivial, rfl⟩
  | ret pop ws =>
    refine ⟨⟨?_, ?_⟩, ?_⟩
    · intro v hv
      simp only [List.mem_map] at hv
      obtain ⟨v', hv', rfl⟩ := hv
      exact (const_reread p v' (h.1 v' hv')).1
    · intro w hw
      simp only [List.mem_map] at hw
      obtain ⟨w', hw', rfl⟩ := hw
      exact (num_reread w' (h.2 w' hw')).1
    · simp only [rereadLine, printLine,
        mapM_map_congr (printConst p) (printConst p) rereadVal pop
          (fun v hv => (const_reread p v (h.1 v hv)).2),
        mapM_map_congr renderWeight renderWeight rereadNum ws
          (fun w hw => (num_reread w (h.2 w hw)).2)]

theorem lines_reread (p : Nat → Bool) : ∀ (L : List ILine), (∀ x ∈ L, LineStable x.2) →
    (∀ x ∈ L.map rereadILine, LineOK x.2) ∧ printLines p (L.map rereadILine) = printLines p L
  | [], _ => ⟨by simp, rfl⟩
  | x :: xs, h => by
      have h1 := line_reread p x.2 (h x (by simp))
      have h2 := lines_reread p xs (fun y hy => h y (by simp [hy]))
      refine ⟨?_, ?_⟩
      · intro y hy
        simp only [List.map_cons, List.mem_cons] at hy
        rcases hy with rfl | hy
        · exact h1.1
        · exact h2.1 y hy
      · simp only [List.map_cons, printLines, printILine, rereadILine, h1.2, h2.2]

/-- **all lines, floats up to representation.**  The printed lines are read back as those
    lines with every float constant and float weight re-read (same value, same text) -/
theorem read_print_lines_reread (p : Nat → Bool) (L : List ILine) (s : String)
    (hok : ∀ x ∈ L, LineStable x.2) (h : printLines p L = .ok s) :
    readBody s = some (L.map rereadILine) := by
  obtain ⟨h1, h2⟩ := lines_reread p L hok
  exact read_print_lines p _ s h1 (by rw [h2]; exact h)

theorem read_print_body_reread (p : Nat → Bool) (A : List ILine) (x : ILine) (c r : String)
    (hA : ∀ y ∈ A, LineStable y.2) (hx : LineStable x.2)
    (hc : printLines p A = .ok c) (hr : printILine p x = .ok r) :
    readBody (c ++ "\n" ++ r) = some ((A ++ [x]).map rereadILine) := by
  obtain ⟨h1, h2⟩ := lines_reread p A hA
  have h3 := line_reread p x.2 hx
  have := read_print_body p (A.map rereadILine) (rereadILine x) c r h1 h3.1 (by rw [h2]; exact hc)
    (by simp only [printILine, rereadILine, h3.2] at hr ⊢; exact hr)
  simpa using this


/-! where the exact conditions hold, re-reading is the identity -/

theorem rereadWeight_of_readsB {d : Dbl} (h : weightReadsB d = true) : rereadWeight d = d := by
  unfold weightReadsB at h
  unfold rereadWeight
  split at h
  · rename_i neg v hr
    try simp only [hr]
    exact eq_of_dblSame h
  · cases h

theorem rereadVal_of_B {v : PyVal} (h : constOKB v = true) : rereadVal v = v := by
  cases v with
  | float d nz =>
    have := rereadFloat_of_readsB (d := d) (nz := nz) h
    simp only [rereadVal, this]
  | _ => rfl

mutual
theorem rereadTerm_of_B : ∀ {t : PTerm}, termOKB t = true → rereadTerm t = t
  | .const v, h => by
      simp only [rereadTerm, rereadVal_of_B (v := v) (by simpa [termOKBW] using h)]
  | .name n, _ => rfl
  | .tuple l, h => by
      simp only [rereadTerm, rereadTerms_of_B (l := l) (by simpa [termOKBW] using h)]
theorem rereadTerms_of_B : ∀ {l : List PTerm}, termsOKBW floatReadsB l = true → rereadTerms l = l
  | [], _ => rfl
  | t :: ts, h => by
      simp only [termsOKBW, Bool.and_eq_true] at h
      simp only [rereadTerms, rereadTerm_of_B h.1, rereadTerms_of_B h.2]
end

theorem rereadExpr_of_B : ∀ {e : PExpr}, exprOKB e = true → rereadExpr e = e
  | .cmp l op r, h => by
      simp only [exprOKBW, Bool.and_eq_true] at h
      simp only [rereadExpr, rereadTerm_of_B h.1.1, rereadTerm_of_B h.2]
  | .bin a op b, h => by
      simp only [exprOKBW, Bool.and_eq_true] at h
      simp only [rereadExpr, rereadExpr_of_B h.1.1, rereadExpr_of_B h.2]
  | .un op a, h => by
      simp only [exprOKBW, Bool.and_eq_true] at h
      simp only [rereadExpr, rereadExpr_of_B h.2]

theorem rereadNum_of_B {w : Num} (h : numOKB w = true) : rereadNum w = w := by
  cases w with
  | i v => rfl
  | f d => simp only [rereadNum, rereadWeight_of_readsB (d := d) h]

theorem map_id_of {α : Type} (f : α → α) : ∀ (l : List α), (∀ a ∈ l, f a = a) → l.map f = l
  | [], _ => rfl
  | a :: as, h => by
      simp only [List.map_cons, h a (by simp), map_id_of f as (fun b hb => h b (by simp [hb]))]

theorem rereadLine_of_B {l : Line} (h : lineOKB l = true) : rereadLine l = l := by
  cases l with
  | ifL e => simp only [rereadLine, rereadExpr_of_B (e := e) h]
  | elifL e => simp only [rereadLine, rereadExpr_of_B (e := e) h]
  | ret pop ws =>
    simp only [lineOKBW, Bool.and_eq_true, List.all_eq_true] at h
    simp only [rereadLine, map_id_of rereadVal pop (fun v hv => rereadVal_of_B (h.1 v hv)),
      map_id_of rereadNum ws (fun w hw => rereadNum_of_B (h.2 w hw))]
  | elseL => rfl
  | raiseU => rfl

/-! ### structural equality of lines as a computation (for evaluated examples) -/

mutual
def sameVal : PyVal → PyVal → Bool
  | .none, .none => true
  | .bool a, .bool b => a == b
  | .int a, .int b => a == b
  | .float a x, .float b y => dblSame a b && x == y
  | .str a, .str b => a == b
  | .tuple a, .tuple b => sameVals a b
  | _, _ => false
def sameVals : List PyVal → List PyVal → Bool
  | [], [] => true
  | a :: as, b :: bs => sameVal a b && sameVals as bs
  | _, _ => false
end

mutual
theorem eq_of_sameVal : ∀ (a b : PyVal), sameVal a b = true → a = b
  | .none, b, h => by cases b <;> simp_all [sameVal]
  | .bool a, b, h => by cases b <;> simp_all [sameVal]
  | .int a, b, h => by cases b <;> simp_all [sameVal]
  | .float a x, b, h => by
      cases b <;> simp_all [sameVal]
      exact eq_of_dblSame h.1
  | .str a, b, h => by cases b <;> simp_all [sameVal]
  | .tuple a, b, h => by
      cases b with
      | tuple b => simp only [sameVal] at h; rw [eq_of_sameVals a b h]
      | _ => simp [sameVal] at h
theorem eq_of_sameVals : ∀ (a b : List PyVal), sameVals a b = true → a = b
  | [], b, h => by cases b <;> simp_all [sameVals]
  | a :: as, b, h => by
      cases b with
      | nil => simp [sameVals] at h
      | cons b bs =>
        simp only [sameVals, Bool.and_eq_true] at h
        rw [eq_of_sameVal a b h.1, eq_of_sameVals as bs h.2]
end

mutual
def sameTerm : PTerm → PTerm → Bool
  | .const a, .const b => sameVal a b
  | .name a, .name b => a == b
  | .tuple a, .tuple b => sameTerms a b
  | _, _ => false
def sameTerms : List PTerm → List PTerm → Bool
  | [], [] => true
  | a :: as, b :: bs => sameTerm a b && sameTerms as bs
  | _, _ => false
end

mutual
theorem eq_of_sameTerm : ∀ (a b : PTerm), sameTerm a b = true → a = b
  | .const a, b, h => by
      cases b with
      | const b => simp only [sameTerm] at h; rw [eq_of_sameVal a b h]
      | _ => simp [sameTerm] at h
  | .name a, b, h => by cases b <;> simp_all [sameTerm]
  | .tuple a, b, h => by
      cases b with
      | tuple b => simp only [sameTerm] at h; rw [eq_of_sameTerms a b h]
      | _ => simp [sameTerm] at h
theorem eq_of_sameTerms : ∀ (a b : List PTerm), sameTerms a b = true → a = b
  | [], b, h => by cases b <;> simp_all [sameTerms]
  | a :: as, b, h => by
      cases b with
      | nil => simp [sameTerms] at h
      | cons b bs =>
        simp only [sameTerms, Bool.and_eq_true] at h
        rw [eq_of_sameTerm a b h.1, eq_of_sameTerms as bs h.2]
end

def sameExpr : PExpr → PExpr → Bool
  | .cmp a o b, .cmp a' o' b' => sameTerm a a' && o == o' && sameTerm b b'
  | .bin a o b, .bin a' o' b' => sameExpr a a' && o == o' && sameExpr b b'
  | .un o a, .un o' a' => o == o' && sameExpr a a'
  | _, _ => false

theorem eq_of_sameExpr : ∀ (a b : PExpr), sameExpr a b = true → a = b
  | .cmp a o b, e, h => by
      cases e with
      | cmp a' o' b' =>
        simp only [sameExpr, Bool.and_eq_true, beq_iff_eq] at h
        rw [eq_of_sameTerm a a' h.1.1, h.1.2, eq_of_sameTerm b b' h.2]
      | _ => simp [sameExpr] at h
  | .bin a o b, e, h => by
      cases e with
      | bin a' o' b' =>
        simp only [sameExpr, Bool.and_eq_true, beq_iff_eq] at h
        rw [eq_of_sameExpr a a' h.1.1, h.1.2, eq_of_sameExpr b b' h.2]
      | _ => simp [sameExpr] at h
  | .un o a, e, h => by
      cases e with
      | un o' a' =>
        simp only [sameExpr, Bool.and_eq_true, beq_iff_eq] at h
        rw [h.1, eq_of_sameExpr a a' h.2]
      | _ => simp [sameExpr] at h

def sameNum : Num → Num → Bool
  | .i a, .i b => a == b
  | .f a, .f b => dblSame a b
  | _, _ => false

theorem eq_of_sameNum (a b : Num) (h : sameNum a b = true) : a = b := by
  cases a <;> cases b <;> simp_all [sameNum]
  exact eq_of_dblSame h

def sameNums : List Num → List Num → Bool
  | [], [] => true
  | a :: as, b :: bs => sameNum a b && sameNums as bs
  | _, _ => false

theorem eq_of_sameNums : ∀ (a b : List Num), sameNums a b = true → a = b
  | [], b, h => by cases b <;> simp_all [sameNums]
  | a :: as, b, h => by
      cases b with
      | nil => simp [sameNums] at h
      | cons b bs =>
        simp only [sameNums, Bool.and_eq_true] at h
        rw [eq_of_sameNum a b h.1, eq_of_sameNums as bs h.2]

def sameLine : Line → Line → Bool
  | .ifL a, .ifL b => sameExpr a b
  | .elifL a, .elifL b => sameExpr a b
  | .elseL, .elseL => true
  | .ret p w, .ret p' w' => sameVals p p' && sameNums w w'
  | .raiseU, .raiseU => true
  | _, _ => false

theorem eq_of_sameLine (a b : Line) (h : sameLine a b = true) : a = b := by
  cases a <;> cases b <;> simp_all [sameLine]
  · exact eq_of_sameExpr _ _ h
  · exact eq_of_sameExpr _ _ h
  · exact ⟨eq_of_sameVals _ _ h.1, eq_of_sameNums _ _ h.2⟩

def sameLines : List ILine → List ILine → Bool
  | [], [] => true
  | a :: as, b :: bs => a.1 == b.1 && sameLine a.2 b.2 && sameLines as bs
  | _, _ => false

theorem eq_of_sameLines : ∀ (a b : List ILine), sameLines a b = true → a = b
  | [], b, h => by cases b <;> simp_all [sameLines]
  | (d, l) :: as, b, h => by
      cases b with
      | nil => simp [sameLines] at h
      | cons b bs =>
        obtain ⟨d', l'⟩ := b
        simp only [sameLines, Bool.and_eq_true, beq_iff_eq] at h
        rw [h.1.1, eq_of_sameLine l l' h.1.2, eq_of_sameLines as bs h.2]

/-- the reader's answer is this line -/
def readsAs (r : Option ILine) (x : ILine) : Bool :=
  match r with
  | some y => y.1 == x.1 && sameLine y.2 x.2
  | none => false

theorem eq_of_readsAs {r : Option ILine} {x : ILine} (h : readsAs r x = true) : r = some x := by
  cases r with
  | none => simp [readsAs] at h
  | some y =>
    obtain ⟨d, l⟩ := y
    obtain ⟨d', l'⟩ := x
    simp only [readsAs, Bool.and_eq_true, beq_iff_eq] at h
    rw [h.1, eq_of_sameLine l l' h.2]

/-- the reader's answer is these lines -/
def readsAsLines (r : Option (List ILine)) (L : List ILine) : Bool :=
  match r with
  | some L' => sameLines L' L
  | none => false

theorem eq_of_readsAsLines {r : Option (List ILine)} {L : List ILine} (h : readsAsLines r L = true) :
    r = some L := by
  cases r with
  | none => simp [readsAsLines] at h
  | some L' => rw [eq_of_sameLines L' L h]

/-- the reader's answer is this condition -/
def readsAsExpr (r : Option PExpr) (e : PExpr) : Bool :=
  match r with
  | some e' => sameExpr e' e
  | none => false

theorem eq_of_readsAsExpr {r : Option PExpr} {e : PExpr} (h : readsAsExpr r e = true) : r = some e := by
  cases r with
  | none => simp [readsAsExpr] at h
  | some e' => rw [eq_of_sameExpr e' e h]

/-- the reader's answer is this operand -/
def readsAsTerm (r : Option PTerm) (t : PTerm) : Bool :=
  match r with
  | some t' => sameTerm t' t
  | none => false

theorem eq_of_readsAsTerm {r : Option PTerm} {t : PTerm} (h : readsAsTerm r t = true) : r = some t := by
  cases r with
  | none => simp [readsAsTerm] at h
  | some t' => rw [eq_of_sameTerm t' t h]

end Pyab.Proofs
