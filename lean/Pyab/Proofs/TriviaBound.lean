/-
  C08 (lexer half), part 2b: the iteration bound of the regex matcher is irrelevant once it
  is at least the length of the remaining input.

  `Re.m t bound (.rep …)` runs `repLoop` with fuel `bound + min + 2`.  Every iteration beyond
  the mandatory ones must consume a character, so any two bounds `≥ s.length` give the same
  answer (`Re.m_bound_irrel`); hence the same holds for `matchPrefix`, `firstMatch`, `lexLoop`
  and `lexC`.
-/
import Pyab.Proofs.TriviaLexer
namespace Pyab
namespace Re

/-- two continuations agree on every position reachable from `(n, s)` by consuming input -/
def KAgree (n : Nat) (s : List Char) (k1 k2 : K) : Prop :=
  ∀ p' n' s', n ≤ n' → n' + s'.length = n + s.length → k1 p' n' s' = k2 p' n' s'

theorem KAgree.here {n s} {k1 k2 : K} (h : KAgree n s k1 k2) (p : Option Char) :
    k1 p n s = k2 p n s := h p n s (Nat.le_refl _) rfl

theorem KAgree.mono {n s n' s'} {k1 k2 : K} (h : KAgree n s k1 k2) (hn : n ≤ n')
    (hs : n' + s'.length = n + s.length) : KAgree n' s' k1 k2 := by
  intro p'' n'' s'' h1 h2
  exact h p'' n'' s'' (by omega) (by omega)

theorem repLoop_bound_irrel {one1 one2 : Option Char → Nat → List Char → K → Option (Nat × List Char)}
    (g : Bool) (b1 b2 : Nat)
    (hone : ∀ p n s k1 k2, s.length ≤ b1 → s.length ≤ b2 → KAgree n s k1 k2 →
      one1 p n s k1 = one2 p n s k2) :
    ∀ (f1 f2 min : Nat) (max : Option Nat) (p : Option Char) (n : Nat) (s : List Char) (k1 k2 : K),
      s.length ≤ b1 → s.length ≤ b2 → s.length + min + 1 ≤ f1 → s.length + min + 1 ≤ f2 →
      KAgree n s k1 k2 →
      repLoop one1 g f1 min max p n s k1 = repLoop one2 g f2 min max p n s k2
  | 0, _, _, _, _, _, _, _, _, _, _, h, _, _ => by omega
  | _ + 1, 0, _, _, _, _, _, _, _, _, _, _, h, _ => by omega
  | f1 + 1, f2 + 1, min, max, p, n, s, k1, k2, hb1, hb2, hf1, hf2, hk => by
    simp only [repLoop]
    split
    · next hmin =>
      apply hone p n s _ _ hb1 hb2
      intro p' n' s' hn hs
      exact repLoop_bound_irrel g b1 b2 hone f1 f2 (min - 1) _ p' n' s' k1 k2
        (by omega) (by omega) (by omega) (by omega) (hk.mono hn hs)
    · split
      · exact hk.here p
      · have hmore : ∀ mx,
            one1 p n s (fun p' n' s' =>
              if n' > n then repLoop one1 g f1 0 mx p' n' s' k1 else none) =
            one2 p n s (fun p' n' s' =>
              if n' > n then repLoop one2 g f2 0 mx p' n' s' k2 else none) := by
          intro mx
          apply hone p n s _ _ hb1 hb2
          intro p' n' s' hn hs
          by_cases hgt : n' > n
          · simp only [hgt, if_true]
            exact repLoop_bound_irrel g b1 b2 hone f1 f2 0 mx p' n' s' k1 k2
              (by omega) (by omega) (by omega) (by omega) (hk.mono hn hs)
          · simp only [hgt, if_false]
        rw [hmore, hk.here p]

local macro "one_char_irrel" : tactic => `(tactic| (
  intro p n s k1 k2 _ _ hk
  cases s with
  | nil => simp only [m]
  | cons x xs =>
    simp only [m]
    split
    · exact hk (some x) (n + 1) xs (Nat.le_succ n) (by simp only [List.length_cons]; omega)
    · rfl))

theorem m_bound_irrel (t : CharTables) (b1 b2 : Nat) :
    ∀ (r : Re) (p : Option Char) (n : Nat) (s : List Char) (k1 k2 : K),
      s.length ≤ b1 → s.length ≤ b2 → KAgree n s k1 k2 →
      m t b1 r p n s k1 = m t b2 r p n s k2
  | .eps => by
    intro p n s k1 k2 _ _ hk
    simp only [m]
    exact hk.here p
  | .lit _ => by one_char_irrel
  | .notLit _ => by one_char_irrel
  | .set _ _ => by one_char_irrel
  | .any => by one_char_irrel
  | .seq a b => by
    intro p n s k1 k2 hb1 hb2 hk
    simp only [m]
    apply m_bound_irrel t b1 b2 a p n s _ _ hb1 hb2
    intro p' n' s' hn hs
    exact m_bound_irrel t b1 b2 b p' n' s' k1 k2 (by omega) (by omega) (hk.mono hn hs)
  | .alt a b => by
    intro p n s k1 k2 hb1 hb2 hk
    simp only [m]
    rw [m_bound_irrel t b1 b2 a p n s k1 k2 hb1 hb2 hk,
        m_bound_irrel t b1 b2 b p n s k1 k2 hb1 hb2 hk]
  | .rep min max g r => by
    intro p n s k1 k2 hb1 hb2 hk
    simp only [m]
    exact repLoop_bound_irrel g b1 b2
      (fun p n s k1 k2 h1 h2 hk => m_bound_irrel t b1 b2 r p n s k1 k2 h1 h2 hk)
      _ _ min max p n s k1 k2 hb1 hb2 (by omega) (by omega) hk
  | .boundary _ => by
    intro p n s k1 k2 _ _ hk
    simp only [m]
    rw [hk.here p]
  | .look _ r => by
    intro p n s k1 k2 hb1 hb2 hk
    simp only [m]
    rw [m_bound_irrel t b1 b2 r p n s _ _ hb1 hb2 (fun _ _ _ _ _ => rfl), hk.here p]
  | .unsupported _ => by
    intro p n s k1 k2 _ _ _
    simp only [m]

theorem matchPrefix_bound_irrel (t : CharTables) {b1 b2 : Nat} (r : Re) (prev : Option Char)
    {s : List Char} (h1 : s.length ≤ b1) (h2 : s.length ≤ b2) :
    matchPrefix t b1 r prev s = matchPrefix t b2 r prev s :=
  m_bound_irrel t b1 b2 r prev 0 s _ _ h1 h2 (fun _ _ _ _ _ => rfl)

end Re

theorem firstMatch_bound_irrel (t : CharTables) {b1 b2 : Nat} (rules : List LexRule)
    (prev : Option Char) {s : List Char} (h1 : s.length ≤ b1) (h2 : s.length ≤ b2) :
    firstMatch t b1 rules prev s = firstMatch t b2 rules prev s := by
  induction rules with
  | nil => rfl
  | cons r rs ih =>
    simp only [firstMatch]
    rw [Re.matchPrefix_bound_irrel t r.re prev h1 h2, ih]

theorem lexLoop_bound_irrel (spec : LexSpec) (b1 b2 : Nat) :
    ∀ (fuel st : Nat) (stack : List Nat) (prev : Option Char) (s : List Char),
      s.length ≤ b1 → s.length ≤ b2 →
      lexLoop spec b1 fuel st stack prev s = lexLoop spec b2 fuel st stack prev s
  | 0, _, _, _, _, _, _ => by simp only [lexLoop]
  | fuel + 1, st, stack, prev, s, h1, h2 => by
    cases s with
    | nil => simp only [lexLoop]
    | cons c cs =>
      simp only [lexLoop]
      cases hst : spec.states[st]? with
      | none => rfl
      | some state =>
        simp only []
        rw [firstMatch_bound_irrel spec.tables state.rules prev h1 h2]
        cases hfm : firstMatch spec.tables b2 state.rules prev (c :: cs) with
        | none =>
          simp only []
          rw [lexLoop_bound_irrel spec b1 b2 fuel st stack (some c) cs
            (by simp at h1; omega) (by simp at h2; omega)]
        | some res =>
          obtain ⟨r, n, rest⟩ := res
          simp only []
          by_cases hn : n = 0
          · simp [hn]
          · have hlen := firstMatch_rest_length hfm hn
            have ih : ∀ st' stack' prev',
                lexLoop spec b1 fuel st' stack' prev' rest =
                lexLoop spec b2 fuel st' stack' prev' rest := fun st' stack' prev' =>
              lexLoop_bound_irrel spec b1 b2 fuel st' stack' prev' rest
                (by simp at h1; omega) (by simp at h2; omega)
            simp only [ih]

theorem lexC_bound_irrel (spec : LexSpec) {b1 b2 : Nat} (st : Nat) (stack : List Nat)
    {s : List Char} (h1 : s.length ≤ b1) (h2 : s.length ≤ b2) :
    lexC spec b1 st stack s = lexC spec b2 st stack s := by
  unfold lexC
  rw [lexLoop_bound_irrel spec b1 b2 _ st stack none s h1 h2]

end Pyab
