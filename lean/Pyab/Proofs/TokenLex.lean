/-
  C07/C08 (lexer half, tokens), part 2: the concrete token rules of lexer state 0
  (`Generated.lexState0`), rule by rule: which inputs each rule matches and which it does not.

  * `lexC_step_emit`: one step of the canonical lexer reading for a token rule;
  * character classes as finite lists (`idChars`, ASCII/Unicode digits);
  * keyword rules `kw\b` (`kw_hit`, `kw_miss`), the two-word rules `not\s+in\b`, `else\s*if\b`
    (`spaced_hit`, `spaced_some`, `spaced_miss`);
  * the expected shapes of the token rules (`kwRule`, `notInRule`, …, `strRule`); the rules are
    looked up in the generated table by name (`Proofs/RuleTable.lean`), never by position.
-/
import Pyab.Proofs.TokenRegex
import Pyab.Proofs.TriviaConcrete
import Pyab.Proofs.TriviaBound
namespace Pyab.TokenLex
open Pyab Pyab.Re Pyab.Trivia

/-! ### 0. one lexer step for a token rule -/

theorem toksOf_bind_emit (x : Except Err LexOut) (t : Token) (f : LexOut → List Piece) :
    toksOf (x >>= fun out => pure ⟨t :: out.toks, f out⟩) = (toksOf x).map (fun ts => t :: ts) := by
  cases x <;> rfl

theorem lexC_step_emit {spec : LexSpec} (hp : spec.prevFree = true) {bound st : Nat}
    {stack : List Nat} {c : Char} {cs : List Char} {state : LexState} {r : LexRule} {n : Nat}
    {rest : List Char} {conv : Conv} (hst : spec.states[st]? = some state)
    (hfm : firstMatch spec.tables bound state.rules none (c :: cs) = some (r, n, rest))
    (hn : n ≠ 0) (ha : r.action = .emit conv) :
    lexC spec bound st stack (c :: cs) =
      (lexC spec bound st stack rest).map
        (fun ts => ⟨r.name, convert spec.tables conv ((c :: cs).take n)⟩ :: ts) := by
  have hn' : (n == 0) = false := by simpa using hn
  have hlen := firstMatch_rest_length hfm hn
  rw [← toksOf_lexLoop_eq_lexC hp bound st stack ((c :: cs).take n).getLast?
        (s := rest) (fuel := cs.length + 1) (by omega)]
  unfold lexC
  simp only [List.length_cons, lexLoop, hst, hfm, hn', Bool.false_eq_true, if_false, ha]
  exact toksOf_bind_emit _ _ _

/-- a token step on `lexeme ++ rest` in state 0 of the extracted lexer -/
theorem tokenStep_of_firstMatch {bound : Nat} {lexeme rest : List Char} {r : LexRule}
    {conv : Conv} (hne : lexeme ≠ [])
    (hfm : firstMatch T bound Generated.lexState0.rules none (lexeme ++ rest) =
      some (r, lexeme.length, rest))
    (ha : r.action = .emit conv) (stack : List Nat) :
    lexC S bound 0 stack (lexeme ++ rest) =
      (lexC S bound 0 stack rest).map (fun ts => ⟨r.name, convert T conv lexeme⟩ :: ts) := by
  cases lexeme with
  | nil => exact absurd rfl hne
  | cons c cs =>
    have h := lexC_step_emit S_prevFree (stack := stack) (c := c) (cs := cs ++ rest) S_state0
      (by rw [S_tables]; exact hfm) (by simp) ha
    have ht : (c :: (cs ++ rest)).take (c :: cs).length = c :: cs := by
      rw [← List.cons_append, List.take_left']
      rfl
    rw [ht] at h
    exact h

/-! ### 1. small matcher facts -/

theorem m_lit_hit (t : CharTables) (bound : Nat) (c : Char) (p : Option Char) (n : Nat)
    (s : List Char) (k : K) : m t bound (.lit c.toNat) p n (c :: s) k = k (some c) (n + 1) s := by
  simp only [m, beq_self_eq_true, if_true]

theorem m_lit_hit' (t : CharTables) (bound : Nat) {c : Char} {code : Nat} (h : c.toNat = code)
    (p : Option Char) (n : Nat) (s : List Char) (k : K) :
    m t bound (.lit code) p n (c :: s) k = k (some c) (n + 1) s := by
  subst h
  exact m_lit_hit t bound c p n s k

theorem m_lit_miss (t : CharTables) (bound : Nat) {x : Char} {code : Nat} (h : x.toNat ≠ code)
    (p : Option Char) (n : Nat) (s : List Char) (k : K) :
    m t bound (.lit code) p n (x :: s) k = none := by
  simp only [m]
  rw [if_neg (by simpa using h)]

theorem m_lit_nil (t : CharTables) (bound : Nat) (code : Nat) (p : Option Char) (n : Nat) (k : K) :
    m t bound (.lit code) p n [] k = none := by
  simp only [m]

theorem m_alt_eq (t : CharTables) (bound : Nat) (a b : Re) (p : Option Char) (n : Nat)
    (s : List Char) (k : K) :
    m t bound (.alt a b) p n s k = (m t bound a p n s k).orElse (fun _ => m t bound b p n s k) := by
  simp only [m]

/-- a repetition with a mandatory iteration fails where the class does not continue -/
theorem repLoop_min_stop {P one} (h : ClassLike P one) {tail : List Char} (ht : Stops P tail)
    (g : Bool) (fuel min : Nat) (max : Option Nat) (p : Option Char) (n : Nat) (k : K) :
    repLoop one g fuel (min + 1) max p n tail k = none := by
  cases fuel with
  | zero => simp [repLoop]
  | succ f =>
    simp only [repLoop, Nat.zero_lt_succ, gt_iff_lt, if_true]
    exact h.stop ht _ _ _

theorem takeWhile_all (p : Char → Bool) : ∀ l : List Char, ∀ x ∈ l.takeWhile p, p x = true
  | [], x, hx => by simp at hx
  | y :: l, x, hx => by
    rw [List.takeWhile_cons] at hx
    split at hx
    · next hy =>
      rcases List.mem_cons.1 hx with rfl | hx
      · exact hy
      · exact takeWhile_all p l x hx
    · simp at hx

theorem stops_dropWhile (p : Char → Bool) : ∀ l : List Char, Stops p (l.dropWhile p)
  | [] => by intro x hx; simp at hx
  | y :: l => by
    intro x hx
    rw [List.dropWhile_cons] at hx
    split at hx
    · exact stops_dropWhile p l x hx
    · next hy =>
      simp only [List.head?_cons, Option.some.injEq] at hx
      subst hx
      simpa using hy

/-! ### 2. character classes -/

/-- Unicode word character (`\w`, the class `\b` uses) -/
def isWordC (c : Char) : Bool := inRanges Generated.wordRanges c.toNat
/-- Unicode decimal digit (`\d`) -/
def isDigitC (c : Char) : Bool := inRanges Generated.digitRanges c.toNat

theorem isWordChar_some (c : Char) : isWordChar T (some c) = isWordC c := rfl

/-- the next character (if any) is not a word character -/
def wordSep (rest : List Char) : Bool := !(isWordChar T rest.head?)

theorem wordSep_nil : wordSep [] = true := rfl
theorem wordSep_cons (c : Char) (s : List Char) : wordSep (c :: s) = !isWordC c := rfl

def idStartItems : List SetItem := [.range 97 122, .range 65 90, .chr 95]
def idItems : List SetItem := [.range 97 122, .range 65 90, .range 48 57, .chr 95]

/-- `[a-zA-Z_]` -/
def isIdStart (c : Char) : Bool := (idStartItems.any (·.test T c.toNat)) != false
/-- `[a-zA-Z0-9_]` -/
def isIdChar (c : Char) : Bool := (idItems.any (·.test T c.toNat)) != false

def idCodes : List Nat := List.range' 48 10 ++ List.range' 65 26 ++ [95] ++ List.range' 97 26
def idChars : List Char := idCodes.map Char.ofNat

theorem isIdChar_mem {c : Char} (h : isIdChar c = true) : c ∈ idChars := by
  have hc : c = Char.ofNat c.toNat := (Char.ofNat_toNat c).symm
  rw [hc]
  apply List.mem_map_of_mem
  simp [isIdChar, idItems, SetItem.test] at h
  simp only [idCodes, List.mem_append, List.mem_range'_1, List.mem_singleton]
  omega

theorem isIdStart_idChar {c : Char} (h : isIdStart c = true) : isIdChar c = true := by
  simp [isIdStart, idStartItems, SetItem.test] at h
  simp [isIdChar, idItems, SetItem.test]
  omega

theorem idChars_word_all : idChars.all isWordC = true := by decide +kernel
theorem idChars_notSpace_all : idChars.all (fun c => !isSpace c) = true := by decide +kernel

theorem idChar_word {c : Char} (h : isIdChar c = true) : isWordC c = true :=
  List.all_eq_true.1 idChars_word_all c (isIdChar_mem h)

theorem idChar_notSpace {c : Char} (h : isIdChar c = true) : isSpace c = false := by
  have := List.all_eq_true.1 idChars_notSpace_all c (isIdChar_mem h)
  simpa using this

theorem spaceChars_notWord_all : spaceChars.all (fun c => !isWordC c) = true := by decide +kernel

theorem space_notWord {c : Char} (h : isSpace c = true) : isWordC c = false := by
  have := List.all_eq_true.1 spaceChars_notWord_all c (isSpace_mem h)
  simpa using this

/-- identifier-shaped: `[a-zA-Z_][a-zA-Z0-9_]*` -/
def wordLike : List Char → Bool
  | [] => false
  | c :: cs => isIdStart c && cs.all isIdChar

theorem wordLike_idChars {l : List Char} (h : wordLike l = true) : ∀ x ∈ l, isIdChar x = true := by
  cases l with
  | nil => simp [wordLike] at h
  | cons c cs =>
    simp only [wordLike, Bool.and_eq_true, List.all_eq_true] at h
    intro x hx
    rcases List.mem_cons.1 hx with rfl | hx
    · exact isIdStart_idChar h.1
    · exact h.2 x hx

/-! ### 3. words followed by a non-word character -/

/-- if `lexeme ++ rest` (rest not starting with a word character) starts with the word `w`,
    then `w` is a prefix of `lexeme` -/
theorem word_prefix_cases {lexeme w rest s' : List Char} (hw : ∀ x ∈ w, isWordC x = true)
    (hs : wordSep rest = true) (h : lexeme ++ rest = w ++ s') :
    ∃ a, lexeme = w ++ a ∧ s' = a ++ rest := by
  rcases List.append_eq_append_iff.1 h with ⟨a, hwa, hr⟩ | ⟨a, hl, hs'⟩
  · cases a with
    | nil => exact ⟨[], by simpa using hwa.symm, by simpa using hr.symm⟩
    | cons x a' =>
      exfalso
      have hx : isWordC x = true := hw x (by rw [hwa]; simp)
      rw [hr, List.cons_append, wordSep_cons, hx] at hs
      cases hs
  · exact ⟨a, hl, hs'⟩

theorem word_split {a w rest s' : List Char} (ha : ∀ x ∈ a, isWordC x = true)
    (hw : ∀ x ∈ w, isWordC x = true) (hs : wordSep rest = true) (hs' : wordSep s' = true)
    (h : a ++ rest = w ++ s') : a = w ∧ rest = s' := by
  obtain ⟨b, hab, hsb⟩ := word_prefix_cases hw hs h
  cases b with
  | nil => exact ⟨by simpa using hab, by simpa using hsb.symm⟩
  | cons x b' =>
    exfalso
    have hx : isWordC x = true := ha x (by rw [hab]; simp)
    rw [hsb, List.cons_append, wordSep_cons, hx] at hs'
    cases hs'

/-! ### 4. keyword rules `kw\b` -/

/-- the regex of a keyword rule: the letters, then `\b` -/
def kwRe (w : List Char) : Re := litsThen (w.map Char.toNat) (.boundary false)

theorem lastOr_word {w : List Char} (hw : w ≠ []) (hwc : ∀ x ∈ w, isIdChar x = true)
    (p : Option Char) : isWordChar T (lastOr p w) = true := by
  obtain ⟨c, hc, hP⟩ := lastOr_mem (P := fun x => isIdChar x = true) w p hw hwc
  rw [hc, isWordChar_some]
  exact idChar_word hP

theorem kwRe_hit {w : List Char} (hw : w ≠ []) (hwc : ∀ x ∈ w, isIdChar x = true)
    {s' : List Char} (hs : wordSep s' = true) (bound : Nat) (p : Option Char) (n : Nat) (k : K) :
    m T bound (kwRe w) p n (w ++ s') k = k (lastOr p w) (n + w.length) s' := by
  unfold kwRe
  rw [m_litsThen_hit, m_boundary_false, lastOr_word hw hwc]
  unfold wordSep at hs
  have : isWordChar T s'.head? = false := by simpa using hs
  rw [this]
  rfl

theorem kwRe_some {w : List Char} (hw : w ≠ []) (hwc : ∀ x ∈ w, isIdChar x = true)
    {bound : Nat} {p : Option Char} {n : Nat} {s : List Char} {k : K} {res : Nat × List Char}
    (h : m T bound (kwRe w) p n s k = some res) :
    ∃ s', s = w ++ s' ∧ wordSep s' = true ∧ k (lastOr p w) (n + w.length) s' = some res := by
  unfold kwRe at h
  obtain ⟨s', hs, hm⟩ := m_litsThen_some T bound _ w p n s k res h
  rw [m_boundary_false, lastOr_word hw hwc] at hm
  refine ⟨s', hs, ?_⟩
  unfold wordSep
  cases hb : isWordChar T s'.head? with
  | true => rw [hb] at hm; simp at hm
  | false => rw [hb] at hm; exact ⟨rfl, by simpa using hm⟩

/-- the keyword rule matches its word followed by a non-word character -/
theorem kw_hit {w : List Char} (hw : w ≠ []) (hwc : ∀ x ∈ w, isIdChar x = true)
    {rest : List Char} (hs : wordSep rest = true) (bound : Nat) (prev : Option Char) :
    matchPrefix T bound (kwRe w) prev (w ++ rest) = some (w.length, rest) := by
  unfold matchPrefix
  rw [kwRe_hit hw hwc hs, Nat.zero_add]

/-- the keyword rule does not match any other identifier-shaped lexeme -/
theorem kw_miss {w : List Char} (hw : w ≠ []) (hwc : ∀ x ∈ w, isIdChar x = true)
    {lexeme rest : List Char} (hl : ∀ x ∈ lexeme, isIdChar x = true) (hs : wordSep rest = true)
    (hne : lexeme ≠ w) (bound : Nat) (prev : Option Char) :
    matchPrefix T bound (kwRe w) prev (lexeme ++ rest) = none := by
  cases hm : matchPrefix T bound (kwRe w) prev (lexeme ++ rest) with
  | none => rfl
  | some res =>
    exfalso
    unfold matchPrefix at hm
    obtain ⟨s', hs', hsep, _⟩ := kwRe_some hw hwc hm
    exact hne (word_split (fun x hx => idChar_word (hl x hx)) (fun x hx => idChar_word (hwc x hx))
      hs hsep hs').1

/-! ### 5. the two-word rules `w1\s{min,}w2\b` -/

def spaceItems : List SetItem := [.cat "space"]
def spaceP : Char → Bool := fun x => (spaceItems.any (·.test T x.toNat)) != false
theorem spaceP_eq (c : Char) : spaceP c = isSpace c := setSpace c

def spacedRe (w1 : List Char) (min : Nat) (w2 : List Char) : Re :=
  litsThen (w1.map Char.toNat) (.seq (.rep min none true (.set spaceItems false)) (kwRe w2))

/-- `s` is at least `min` white-space characters, then the word `w`, then no word character -/
def followsB (min : Nat) (w : List Char) (s : List Char) : Bool :=
  decide (min ≤ (s.takeWhile isSpace).length) &&
    (w.isPrefixOf (s.dropWhile isSpace) && wordSep ((s.dropWhile isSpace).drop w.length))

theorem followsB_iff {min : Nat} {w s : List Char} : followsB min w s = true ↔
    min ≤ (s.takeWhile isSpace).length ∧
      ∃ s'', s.dropWhile isSpace = w ++ s'' ∧ wordSep s'' = true := by
  unfold followsB
  simp only [Bool.and_eq_true, decide_eq_true_eq, List.isPrefixOf_iff_prefix]
  constructor
  · rintro ⟨h1, ⟨t, ht⟩, h3⟩
    refine ⟨h1, t, ht.symm, ?_⟩
    rw [← ht, List.drop_left] at h3
    exact h3
  · rintro ⟨h1, s'', h2, h3⟩
    refine ⟨h1, ⟨s'', h2.symm⟩, ?_⟩
    rw [h2, List.drop_left]
    exact h3

theorem spaceClass (bound : Nat) :
    ClassLike spaceP (fun p' n' s' k' => m T bound (.set spaceItems false) p' n' s' k') :=
  classLike_set T bound spaceItems

/-- a match of `\s{min,}w2\b`: the white space, the word, a boundary -/
theorem spacedTail_some {w2 : List Char} (hw2 : w2 ≠ []) (hw2c : ∀ x ∈ w2, isIdChar x = true)
    {min bound : Nat} {p : Option Char} {n : Nat} {s' : List Char} {k : K}
    {res : Nat × List Char}
    (h : m T bound (.seq (.rep min none true (.set spaceItems false)) (kwRe w2)) p n s' k = some res) :
    followsB min w2 s' = true := by
  cases hf : followsB min w2 s' with
  | true => rfl
  | false =>
    exfalso
    rw [m_seq_eq, m_rep_eq] at h
    have hsplit : s' = s'.takeWhile isSpace ++ s'.dropWhile isSpace :=
      List.takeWhile_append_dropWhile.symm
    have hrun : ∀ x ∈ s'.takeWhile isSpace, spaceP x = true := by
      intro x hx
      rw [spaceP_eq]
      exact takeWhile_all isSpace s' x hx
    have hstop : Stops spaceP (s'.dropWhile isSpace) := by
      intro x hx
      rw [spaceP_eq]
      exact stops_dropWhile isSpace s' x hx
    rw [hsplit] at h
    rw [repLoop_greedy_class_none (spaceClass bound) _ _ min p n _ _ hrun hstop] at h
    · cases h
    · intro a b q hab hmin
      cases hm2 : m T bound (kwRe w2) q (n + a.length) (b ++ s'.dropWhile isSpace) k with
      | none => rfl
      | some res2 =>
        exfalso
        obtain ⟨s'', hs'', hsep, _⟩ := kwRe_some hw2 hw2c hm2
        cases b with
        | nil =>
          rw [List.append_nil] at hab
          have : followsB min w2 s' = true :=
            followsB_iff.2 ⟨by rw [hab]; exact hmin, s'', by simpa using hs'', hsep⟩
          rw [hf] at this
          cases this
        | cons x b' =>
          cases w2 with
          | nil => exact hw2 rfl
          | cons y w2' =>
            simp only [List.cons_append, List.cons.injEq] at hs''
            have hx : isSpace x = true := by
              rw [← spaceP_eq]
              exact hrun x (by rw [hab]; simp)
            have hy := idChar_notSpace (hw2c y List.mem_cons_self)
            rw [← hs''.1, hx] at hy
            cases hy

theorem spaced_some {w1 w2 : List Char} (hw2 : w2 ≠ []) (hw2c : ∀ x ∈ w2, isIdChar x = true)
    {min bound : Nat} {prev : Option Char} {s : List Char} {res : Nat × List Char}
    (h : matchPrefix T bound (spacedRe w1 min w2) prev s = some res) :
    ∃ s', s = w1 ++ s' ∧ followsB min w2 s' = true := by
  unfold matchPrefix spacedRe at h
  obtain ⟨s', hs, hm⟩ := m_litsThen_some T bound _ w1 prev 0 s _ res h
  exact ⟨s', hs, spacedTail_some hw2 hw2c hm⟩

/-- the two-word rule does not match an identifier-shaped lexeme (followed by a non-word
    character) unless the lexeme is the first word and the second one follows, or (no blank
    required) the lexeme is the two words run together -/
theorem spaced_miss {w1 w2 : List Char} (hw1c : ∀ x ∈ w1, isIdChar x = true)
    (hw2 : w2 ≠ []) (hw2c : ∀ x ∈ w2, isIdChar x = true) {min : Nat}
    {lexeme rest : List Char} (hl : ∀ x ∈ lexeme, isIdChar x = true) (hs : wordSep rest = true)
    (h1 : ¬ (lexeme = w1 ∧ followsB min w2 rest = true))
    (h2 : ¬ (min = 0 ∧ lexeme = w1 ++ w2)) (bound : Nat) (prev : Option Char) :
    matchPrefix T bound (spacedRe w1 min w2) prev (lexeme ++ rest) = none := by
  cases hm : matchPrefix T bound (spacedRe w1 min w2) prev (lexeme ++ rest) with
  | none => rfl
  | some res =>
    exfalso
    obtain ⟨s', hs', hf⟩ := spaced_some hw2 hw2c hm
    obtain ⟨a, hla, hsa⟩ := word_prefix_cases (fun x hx => idChar_word (hw1c x hx)) hs hs'
    cases a with
    | nil =>
      rw [List.append_nil] at hla
      rw [List.nil_append] at hsa
      exact h1 ⟨hla, hsa ▸ hf⟩
    | cons x a' =>
      have hxid : isIdChar x = true := hl x (by rw [hla]; simp)
      have hxs := idChar_notSpace hxid
      obtain ⟨hmin, s'', hdrop, hsep⟩ := followsB_iff.1 hf
      rw [hsa, List.cons_append] at hmin hdrop
      rw [List.takeWhile_cons, hxs] at hmin
      rw [List.dropWhile_cons, hxs] at hdrop
      simp only [Bool.false_eq_true, if_false, List.length_nil, Nat.le_zero_eq] at hmin hdrop
      have ha : ∀ y ∈ x :: a', isWordC y = true := fun y hy =>
        idChar_word (hl y (by rw [hla]; exact List.mem_append_right _ hy))
      have := (word_split ha (fun y hy => idChar_word (hw2c y hy)) hs hsep
        (by simpa using hdrop)).1
      exact h2 ⟨hmin, by rw [hla, this]⟩

/-- the two-word rule matches its two words separated by (at least `min`) white space -/
theorem spaced_hit {w1 w2 ws rest : List Char} (hw2 : w2 ≠ [])
    (hw2c : ∀ x ∈ w2, isIdChar x = true) {min : Nat} (hws : ∀ x ∈ ws, isSpace x = true)
    (hmin : min ≤ ws.length) (hs : wordSep rest = true) {bound : Nat}
    (hb : ws.length ≤ bound + min + 1) (prev : Option Char) :
    matchPrefix T bound (spacedRe w1 min w2) prev (w1 ++ (ws ++ (w2 ++ rest))) =
      some ((w1 ++ (ws ++ w2)).length, rest) := by
  unfold matchPrefix spacedRe
  rw [m_litsThen_hit, m_seq_eq, m_rep_eq]
  apply repLoop_greedy_class (spaceClass bound) ws _ min _ _ (w2 ++ rest) _ _
    (fun x hx => by rw [spaceP_eq]; exact hws x hx) ?_ (by omega) hmin
  · intro q
    rw [kwRe_hit hw2 hw2c hs]
    simp only [List.length_append, Nat.zero_add, Nat.add_assoc]
  · intro x hx
    cases w2 with
    | nil => exact absurd rfl hw2
    | cons y w2' =>
      simp only [List.cons_append, List.head?_cons, Option.some.injEq] at hx
      subst hx
      rw [spaceP_eq]
      exact idChar_notSpace (hw2c _ List.mem_cons_self)

/-! ### 6. the shapes of the token rules (what the proofs expect to find in the table) -/

def wIn : List Char := ['i', 'n']
def wNot : List Char := ['n', 'o', 't']
def wDef : List Char := ['d', 'e', 'f']
def wSalt : List Char := ['s', 'a', 'l', 't']
def wSplitters : List Char := ['s', 'p', 'l', 'i', 't', 't', 'e', 'r', 's']
def wIf : List Char := ['i', 'f']
def wElse : List Char := ['e', 'l', 's', 'e']
def wWeighted : List Char := ['w', 'e', 'i', 'g', 'h', 't', 'e', 'd']
def wReturn : List Char := ['r', 'e', 't', 'u', 'r', 'n']
def wAnd : List Char := ['a', 'n', 'd']
def wOr : List Char := ['o', 'r']

def kwRule (name : String) (w : List Char) : LexRule := ⟨name, kwRe w, .emit .raw⟩
def notInRule : LexRule := ⟨"KW_NOT_IN", spacedRe wNot 1 wIn, .emit .raw⟩
def elifRule : LexRule := ⟨"KW_ELIF", spacedRe wElse 0 wIf, .emit .raw⟩
def idRule : LexRule :=
  ⟨"ID", .seq (.set idStartItems false) (.rep 0 none true (.set idItems false)), .emit .raw⟩
def digitItems : List SetItem := [.cat "digit"]
/-- `\d+` -/
def digitsRe : Re := .rep 1 none true (.set digitItems false)
def floatRule : LexRule := ⟨"NON_NEG_FLOAT", .seq digitsRe (.seq (.lit 46) digitsRe), .emit .float⟩
def intRule : LexRule := ⟨"NON_NEG_INTEGER", digitsRe, .emit .int⟩
/-- `q.*?q` -/
def quotedRe (q : Nat) : Re := .seq (.lit q) (.seq (.rep 0 none false .any) (.lit q))
def strRule : LexRule := ⟨"STRING_LITERAL", .alt (quotedRe 34) (quotedRe 39), .emit .strip1⟩

/-- a one-character rule -/
def litRule (name : String) (c : Char) : LexRule := ⟨name, .lit c.toNat, .emit .raw⟩
/-- a two-character rule -/
def lit2Rule (name : String) (c d : Char) : LexRule :=
  ⟨name, .seq (.lit c.toNat) (.lit d.toNat), .emit .raw⟩

end Pyab.TokenLex
