/-
  Which errors the reference routing can raise when every identifier is bound (only the
  TypeError of an ordering / membership test), and: the return statement routing selects
  is one of the conditional's return statements, all of which were rendered when the body
  was emitted.
-/
import Pyab.Spec.Semantics
import Pyab.Proofs.Routing
import Pyab.Proofs.ChoiceTotal
namespace Pyab.Proofs.Run
open Pyab Pyab.Spec
set_option linter.unusedSimpArgs false

/-! ### comparisons raise only TypeError -/

mutual
theorem pyCmp_err : ∀ (a b : PyVal) (err : Err), PyVal.pyCmp a b = .error err → err = .typeError
  | .tuple l, .tuple l', err, h => by
      simp only [PyVal.pyCmp] at h
      exact pyCmpList_err l l' err h
  | .tuple _, .none, err, h | .tuple _, .bool _, err, h | .tuple _, .int _, err, h
  | .tuple _, .float _ _, err, h | .tuple _, .str _, err, h
  | .none, .tuple _, err, h | .bool _, .tuple _, err, h | .int _, .tuple _, err, h
  | .float _ _, .tuple _, err, h | .str _, .tuple _, err, h => by
      simp [PyVal.pyCmp, throw, throwThe, MonadExceptOf.throw] at h; exact h.symm
  | .str _, .str _, err, h => by simp [PyVal.pyCmp, pure, Except.pure] at h
  | .none, .none, err, h | .none, .bool _, err, h | .none, .int _, err, h | .none, .float _ _, err, h
  | .none, .str _, err, h
  | .bool _, .none, err, h | .bool _, .bool _, err, h | .bool _, .int _, err, h | .bool _, .float _ _, err, h
  | .bool _, .str _, err, h
  | .int _, .none, err, h | .int _, .bool _, err, h | .int _, .int _, err, h | .int _, .float _ _, err, h
  | .int _, .str _, err, h
  | .float _ _, .none, err, h | .float _ _, .bool _, err, h | .float _ _, .int _, err, h
  | .float _ _, .float _ _, err, h | .float _ _, .str _, err, h
  | .str _, .none, err, h | .str _, .bool _, err, h | .str _, .int _, err, h | .str _, .float _ _, err, h => by
      simp [PyVal.pyCmp, PyVal.toNum, pure, Except.pure, throw, throwThe, MonadExceptOf.throw] at h
      try exact h.symm
theorem pyCmpList_err : ∀ (l l' : List PyVal) (err : Err), PyVal.pyCmpList l l' = .error err → err = .typeError
  | [], [], err, h => by simp [PyVal.pyCmpList, pure, Except.pure] at h
  | [], _ :: _, err, h => by simp [PyVal.pyCmpList, pure, Except.pure] at h
  | _ :: _, [], err, h => by simp [PyVal.pyCmpList, pure, Except.pure] at h
  | x :: xs, y :: ys, err, h => by
      simp only [PyVal.pyCmpList] at h
      split at h
      · exact pyCmpList_err xs ys err h
      · exact pyCmp_err x y err h
end

theorem pyIn_err (a b : PyVal) (err : Err) (h : PyVal.pyIn a b = .error err) : err = .typeError := by
  unfold PyVal.pyIn at h
  split at h
  · simp [pure, Except.pure] at h
  · split at h
    · simp [pure, Except.pure] at h
    · simp [throw, throwThe, MonadExceptOf.throw] at h; exact h.symm
  · simp [throw, throwThe, MonadExceptOf.throw] at h; exact h.symm

theorem specCmp_err (op : CmpOp) (a b : PyVal) (err : Err) (h : specCmp op a b = .error err) :
    err = .typeError := by
  cases op <;> simp only [specCmp, bind_err_iff, pure, Except.pure] at h
  · cases h
  · rcases h with h | ⟨_, _, h⟩
    · exact pyCmp_err _ _ _ h
    · cases h
  · rcases h with h | ⟨_, _, h⟩
    · exact pyCmp_err _ _ _ h
    · cases h
  · rcases h with h | ⟨_, _, h⟩
    · exact pyCmp_err _ _ _ h
    · cases h
  · rcases h with h | ⟨_, _, h⟩
    · exact pyCmp_err _ _ _ h
    · cases h
  · cases h
  · exact pyIn_err _ _ _ h
  · rcases h with h | ⟨_, _, h⟩
    · exact pyIn_err _ _ _ h
    · cases h

/-! ### terms over bound identifiers have a value -/

/-- every listed name is bound -/
def Bound (names : List String) (env : Env) : Prop := ∀ n ∈ names, (env.get n).isSome = true

theorem Bound.left {a b : List String} {env : Env} (h : Bound (a ++ b) env) : Bound a env :=
  fun n hn => h n (List.mem_append_left _ hn)
theorem Bound.right {a b : List String} {env : Env} (h : Bound (a ++ b) env) : Bound b env :=
  fun n hn => h n (List.mem_append_right _ hn)

mutual
theorem specTerm_ok (env : Env) : ∀ t : Term, Bound t.idents env → ∃ v, specTerm env t = .ok v
  | .int _, _ => ⟨_, rfl⟩
  | .float _ _, _ => ⟨_, rfl⟩
  | .str _, _ => ⟨_, rfl⟩
  | .ident n, h => by
      have := h n (by simp [Term.idents])
      cases hg : env.get n with
      | none => simp [hg] at this
      | some v => exact ⟨v, by simp [specTerm, hg, pure, Except.pure]⟩
  | .tuple l, h => by
      have hb : Bound (Term.identsList l) env := by simpa [Term.idents] using h
      obtain ⟨vs, hvs⟩ := specTerms_ok env l hb
      exact ⟨.tuple vs, by simp [specTerm, hvs, bind, Except.bind, pure, Except.pure]⟩
theorem specTerms_ok (env : Env) : ∀ l : List Term, Bound (Term.identsList l) env → ∃ vs, specTerms env l = .ok vs
  | [], _ => ⟨[], rfl⟩
  | t :: ts, h => by
      simp only [Term.identsList] at h
      obtain ⟨v, hv⟩ := specTerm_ok env t h.left
      obtain ⟨vs, hvs⟩ := specTerms_ok env ts h.right
      exact ⟨v :: vs, by simp [specTerms, hv, hvs, bind, Except.bind, pure, Except.pure]⟩
end

theorem specPred_err (env : Env) : ∀ (p : Pred) (err : Err), Bound (p.idents true) env →
    specPred env p = .error err → err = .typeError
  | .cmp l op r, err, hb, h => by
      simp only [Pred.idents, if_true] at hb
      obtain ⟨a, ha⟩ := specTerm_ok env l hb.left
      obtain ⟨b, hb'⟩ := specTerm_ok env r hb.right
      simp only [specPred, ha, hb', bind, Except.bind] at h
      exact specCmp_err op a b err h
  | .and a b, err, hb, h => by
      simp only [Pred.idents] at hb
      simp only [specPred, bind_err_iff] at h
      rcases h with h | ⟨v, _, h⟩
      · exact specPred_err env a err hb.left h
      · cases v
        · simp [pure, Except.pure] at h
        · simp only [if_true] at h
          exact specPred_err env b err hb.right h
  | .or a b, err, hb, h => by
      simp only [Pred.idents] at hb
      simp only [specPred, bind_err_iff] at h
      rcases h with h | ⟨v, _, h⟩
      · exact specPred_err env a err hb.left h
      · cases v
        · simp only [Bool.false_eq_true, if_false] at h
          exact specPred_err env b err hb.right h
        · simp [pure, Except.pure] at h
  | .not a, err, hb, h => by
      simp only [Pred.idents] at hb
      simp only [specPred, bind_err_iff] at h
      rcases h with h | ⟨_, _, h⟩
      · exact specPred_err env a err hb h
      · simp [pure, Except.pure] at h

mutual
theorem specRoute_err (env : Env) : ∀ (c : Cond) (err : Err), Bound (c.idents true) env →
    specRoute env c = .error err → err = .typeError
  | .ret _, err, _, h => by simp [specRoute, pure, Except.pure] at h
  | .ifte p t rest, err, hb, h => by
      simp only [Cond.idents] at hb
      simp only [specRoute, bind_err_iff] at h
      rcases h with h | ⟨v, _, h⟩
      · exact specPred_err env p err hb.left.left h
      · cases v
        · simp only [Bool.false_eq_true, if_false] at h
          exact specSub_err env rest err hb.right h
        · simp only [if_true] at h
          exact specRoute_err env t err hb.left.right h
theorem specSub_err (env : Env) : ∀ (s : Sub) (err : Err), Bound (s.idents true) env →
    specSub env s = .error err → err = .typeError
  | .none, err, _, h => by simp [specSub, pure, Except.pure] at h
  | .else_ t, err, hb, h => by
      simp only [Sub.idents] at hb
      simp only [specSub] at h
      exact specRoute_err env t err hb h
  | .elif p t rest, err, hb, h => by
      simp only [Sub.idents] at hb
      simp only [specSub, bind_err_iff] at h
      rcases h with h | ⟨v, _, h⟩
      · exact specPred_err env p err hb.left.left h
      · cases v
        · simp only [Bool.false_eq_true, if_false] at h
          exact specSub_err env rest err hb.right h
        · simp only [if_true] at h
          exact specRoute_err env t err hb.left.right h
end

/-! ### the routed return statement is one of the emitted ones -/

mutual
/-- the return statements of a conditional -/
def condRets : Cond → List (List Group)
  | .ret gs => [gs]
  | .ifte _ t rest => condRets t ++ subRets rest
def subRets : Sub → List (List Group)
  | .none => []
  | .else_ t => condRets t
  | .elif _ t rest => condRets t ++ subRets rest
end

mutual
theorem specRoute_mem (env : Env) : ∀ (c : Cond) (gs : List Group),
    specRoute env c = .ok (some gs) → gs ∈ condRets c
  | .ret gs', gs, h => by
      simp only [specRoute, pure, Except.pure, Except.ok.injEq, Option.some.injEq] at h
      simp [condRets, h]
  | .ifte p t rest, gs, h => by
      simp only [specRoute, bind_ok_iff] at h
      obtain ⟨v, _, h⟩ := h
      simp only [condRets, List.mem_append]
      cases v
      · simp only [Bool.false_eq_true, if_false] at h
        exact Or.inr (specSub_mem env rest gs h)
      · simp only [if_true] at h
        exact Or.inl (specRoute_mem env t gs h)
theorem specSub_mem (env : Env) : ∀ (s : Sub) (gs : List Group),
    specSub env s = .ok (some gs) → gs ∈ subRets s
  | .none, gs, h => by simp [specSub, pure, Except.pure] at h
  | .else_ t, gs, h => by
      simp only [specSub] at h
      simp only [subRets]
      exact specRoute_mem env t gs h
  | .elif p t rest, gs, h => by
      simp only [specSub, bind_ok_iff] at h
      obtain ⟨v, _, h⟩ := h
      simp only [subRets, List.mem_append]
      cases v
      · simp only [Bool.false_eq_true, if_false] at h
        exact Or.inr (specSub_mem env rest gs h)
      · simp only [if_true] at h
        exact Or.inl (specRoute_mem env t gs h)
end

mutual
theorem linesCond_rets_ok (cfg : GenCfg) : ∀ (c : Cond) (d : Nat) (L : List ILine),
    linesCond cfg d c = .ok L → ∀ gs ∈ condRets c, ∃ pw, retVals cfg gs = .ok pw
  | .ret gs', d, L, h => by
      simp only [linesCond, lowerReturn, bind_ok_iff] at h
      obtain ⟨_, ⟨pw, hpw, _⟩, _⟩ := h
      intro gs hgs
      simp only [condRets, List.mem_singleton] at hgs
      subst hgs
      exact ⟨pw, hpw⟩
  | .ifte p t rest, d, L, h => by
      simp only [linesCond, bind_ok_iff] at h
      obtain ⟨_, _, tb, htb, fb, hfb, _⟩ := h
      intro gs hgs
      simp only [condRets, List.mem_append] at hgs
      rcases hgs with hgs | hgs
      · exact linesCond_rets_ok cfg t (d + 1) tb htb gs hgs
      · exact linesSub_rets_ok cfg rest d fb hfb gs hgs
theorem linesSub_rets_ok (cfg : GenCfg) : ∀ (s : Sub) (d : Nat) (L : List ILine),
    linesSub cfg d s = .ok L → ∀ gs ∈ subRets s, ∃ pw, retVals cfg gs = .ok pw
  | .none, d, L, h => by
      intro gs hgs
      simp [subRets] at hgs
  | .else_ t, d, L, h => by
      simp only [linesSub, bind_ok_iff] at h
      obtain ⟨tb, htb, _⟩ := h
      intro gs hgs
      simp only [subRets] at hgs
      exact linesCond_rets_ok cfg t (d + 1) tb htb gs hgs
  | .elif p t rest, d, L, h => by
      simp only [linesSub, bind_ok_iff] at h
      obtain ⟨_, _, tb, htb, fb, hfb, _⟩ := h
      intro gs hgs
      simp only [subRets, List.mem_append] at hgs
      rcases hgs with hgs | hgs
      · exact linesCond_rets_ok cfg t (d + 1) tb htb gs hgs
      · exact linesSub_rets_ok cfg rest d fb hfb gs hgs
end

/-- if the body was emitted, the return statement routing selects was rendered -/
theorem routed_retVals_ok (cfg : GenCfg) (env : Env) (c : Cond) (d : Nat) (L : List ILine)
    (hL : bodyLines cfg d c = .ok L) (gs : List Group) (hr : specRoute env c = .ok (some gs)) :
    ∃ pop ws, retVals cfg gs = .ok (pop, ws) := by
  simp only [bodyLines, bind_ok_iff] at hL
  obtain ⟨Lc, hLc, _⟩ := hL
  obtain ⟨⟨pop, ws⟩, h⟩ := linesCond_rets_ok cfg c d Lc hLc gs (specRoute_mem env c gs hr)
  exact ⟨pop, ws, h⟩

end Pyab.Proofs.Run
