/-
  C07/C08 (lexer half, tokens), part 4: the token kinds of the experiment language, their
  lexeme languages (`lexemeOk`), their "cannot fuse with what follows" conditions (`sepOk`),
  and the one-token step of the lexer (`token_firstMatch`, `tokenStep`).

  The generated rule table is consulted in exactly two theorems, both position-free and both
  evaluated on the actual table by `decide +kernel`:
  * `TKind.rule_found`: the rule called `k.name` (looked up by name) is the expected rule;
  * `TKind.pre_ok`: every rule that stands before it in the table passes `k.preOk`.
  Harmless reorderings of the table leave both true; reorderings that change the lexer's
  behaviour on some token make `TKind.pre_ok` fail.
-/
import Pyab.Proofs.TokenRules
namespace Pyab.TokenLex
open Pyab Pyab.Re Pyab.Trivia

/-- the 30 token kinds of lexer state 0 -/
inductive TKind where
  | lparen | rparen | minus | comma | colon | lbrace | rbrace
  | eq | ge | le | gt | lt | ne
  | kwIn | kwNotIn | kwNot | kwDef | kwSalt | kwSplitters | kwIf | kwElif | kwElse
  | kwWeighted | kwReturn | kwAnd | kwOr
  | id | float | int | string
deriving DecidableEq, Repr

/-- the rule of the kind as the proofs expect it: its name, the shape of its regex, its action.
    `TKind.rule_found` checks that the generated table contains exactly this rule under this
    name — wherever it stands in the table. -/
def TKind.rule : TKind → LexRule
  | .lparen => litRule "LPAREN" '(' | .rparen => litRule "RPAREN" ')'
  | .minus => litRule "MINUS" '-' | .comma => litRule "COMMA" ','
  | .colon => litRule "COLON" ':' | .lbrace => litRule "LBRACE" '{'
  | .rbrace => litRule "RBRACE" '}'
  | .eq => lit2Rule "KW_EQ" '=' '=' | .ge => lit2Rule "KW_GE" '>' '='
  | .le => lit2Rule "KW_LE" '<' '=' | .gt => litRule "KW_GT" '>' | .lt => litRule "KW_LT" '<'
  | .ne => lit2Rule "KW_NE" '!' '='
  | .kwIn => kwRule "KW_IN" wIn | .kwNotIn => notInRule | .kwNot => kwRule "KW_NOT" wNot
  | .kwDef => kwRule "KW_DEF" wDef | .kwSalt => kwRule "KW_SALT" wSalt
  | .kwSplitters => kwRule "KW_SPLITTERS" wSplitters | .kwIf => kwRule "KW_IF" wIf
  | .kwElif => elifRule | .kwElse => kwRule "KW_ELSE" wElse
  | .kwWeighted => kwRule "KW_WEIGHTED" wWeighted | .kwReturn => kwRule "KW_RETURN" wReturn
  | .kwAnd => kwRule "KW_AND" wAnd | .kwOr => kwRule "KW_OR" wOr
  | .id => idRule | .float => floatRule | .int => intRule | .string => strRule

/-- the token name sly reports (the rule name) -/
def TKind.name (k : TKind) : String := k.rule.name

/-- the value conversion of the rule's action -/
def TKind.conv : TKind → Conv
  | .float => .float
  | .int => .int
  | .string => .strip1
  | _ => .raw

theorem TKind.rule_action (k : TKind) : k.rule.action = .emit k.conv := by cases k <;> rfl

/-- **table obligation (a)**: for every kind, the rule of that name in the generated table —
    found by scanning the table for the name, not by position — is the expected rule (regex
    shape and action) -/
theorem TKind.rule_found (k : TKind) : ruleNamed k.name R0 = some k.rule := by
  cases k <;> decide +kernel

/-- the kinds with exactly one spelling -/
def TKind.fixed : TKind → Option (List Char)
  | .lparen => some ['('] | .rparen => some [')'] | .minus => some ['-'] | .comma => some [',']
  | .colon => some [':'] | .lbrace => some ['{'] | .rbrace => some ['}']
  | .eq => some ['=', '='] | .ge => some ['>', '='] | .le => some ['<', '=']
  | .gt => some ['>'] | .lt => some ['<'] | .ne => some ['!', '=']
  | .kwIn => some wIn | .kwNot => some wNot | .kwDef => some wDef | .kwSalt => some wSalt
  | .kwSplitters => some wSplitters | .kwIf => some wIf | .kwElse => some wElse
  | .kwWeighted => some wWeighted | .kwReturn => some wReturn | .kwAnd => some wAnd
  | .kwOr => some wOr
  | _ => none

/-- words that are not identifiers: the keywords, and `elseif` (which `else\s*if\b` matches) -/
def reserved : List (List Char) :=
  [wIn, wNot, wDef, wSalt, wSplitters, wIf, wElse, wWeighted, wReturn, wAnd, wOr, wElse ++ wIf]

/-- `w1`, at least `min` white-space characters, `w2` -/
def spacedOk (w1 : List Char) (min : Nat) (w2 : List Char) (l : List Char) : Bool :=
  w1.isPrefixOf l &&
    (decide (min ≤ ((l.drop w1.length).takeWhile isSpace).length) &&
      (l.drop w1.length).dropWhile isSpace == w2)

/-- digits `.` digits -/
def floatOk (l : List Char) : Bool :=
  match l.dropWhile isDigitC with
  | '.' :: fp => !(l.takeWhile isDigitC).isEmpty && !fp.isEmpty && fp.all isDigitC
  | _ => false

/-- quote, body without that quote and without line break, the same quote -/
def strOk : List Char → Bool
  | q :: r => (q == '"' || q == '\'') && r.getLast? == some q &&
      r.dropLast.all (fun x => x != q && x != '\n')
  | [] => false

/-- **the lexeme language of each token kind** -/
def lexemeOk (k : TKind) (l : List Char) : Bool :=
  match k with
  | .id => wordLike l && !reserved.contains l
  | .int => !l.isEmpty && l.all isDigitC
  | .float => floatOk l
  | .string => strOk l
  | .kwNotIn => spacedOk wNot 1 wIn l
  | .kwElif => spacedOk wElse 0 wIf l
  | k => k.fixed == some l

/-- **what may follow a token of each kind** without changing how its lexeme is read -/
def sepOk (k : TKind) (rest : List Char) : Bool :=
  match k with
  | .gt | .lt => rest.head? != some '='
  | .kwNot => wordSep rest && !followsB 1 wIn rest
  | .kwElse => wordSep rest && !followsB 0 wIf rest
  | .kwIn | .kwNotIn | .kwDef | .kwSalt | .kwSplitters | .kwIf | .kwElif | .kwWeighted
  | .kwReturn | .kwAnd | .kwOr | .id => wordSep rest
  | .float => digitSep rest
  | .int => intSep rest
  | _ => true

theorem lexemeOk_nil (k : TKind) : lexemeOk k [] = false := by cases k <;> rfl

/-! ### structure of the variable lexemes -/

theorem spacedOk_split {w1 w2 l : List Char} {min : Nat} (h : spacedOk w1 min w2 l = true) :
    ∃ ws, l = w1 ++ (ws ++ w2) ∧ (∀ x ∈ ws, isSpace x = true) ∧ min ≤ ws.length := by
  simp only [spacedOk, Bool.and_eq_true, decide_eq_true_eq, beq_iff_eq,
    List.isPrefixOf_iff_prefix] at h
  obtain ⟨⟨t, ht⟩, hmin, hdrop⟩ := h
  subst ht
  rw [List.drop_left] at hmin hdrop
  refine ⟨t.takeWhile isSpace, ?_, takeWhile_all isSpace t, hmin⟩
  rw [← hdrop, List.takeWhile_append_dropWhile]

theorem floatOk_split {l : List Char} (h : floatOk l = true) :
    ∃ ip fp, l = ip ++ '.' :: fp ∧ ip ≠ [] ∧ (∀ x ∈ ip, isDigitC x = true) ∧ fp ≠ [] ∧
      ∀ x ∈ fp, isDigitC x = true := by
  unfold floatOk at h
  split at h
  · next fp hdrop =>
    simp only [Bool.and_eq_true, Bool.not_eq_true', List.isEmpty_eq_false_iff,
      List.all_eq_true] at h
    refine ⟨l.takeWhile isDigitC, fp, ?_, h.1.1, takeWhile_all isDigitC l, h.1.2, h.2⟩
    rw [← hdrop, List.takeWhile_append_dropWhile]
  · cases h

theorem strOk_split {l : List Char} (h : strOk l = true) :
    ∃ q body, l = q :: (body ++ [q]) ∧ (q = '"' ∨ q = '\'') ∧ (∀ x ∈ body, x ≠ q) ∧
      ∀ x ∈ body, x ≠ '\n' := by
  cases l with
  | nil => simp [strOk] at h
  | cons q r =>
    simp only [strOk, Bool.and_eq_true, Bool.or_eq_true, beq_iff_eq, List.all_eq_true,
      bne_iff_ne, ne_eq] at h
    obtain ⟨⟨hq, hlast⟩, hbody⟩ := h
    obtain ⟨ys, rfl⟩ := List.getLast?_eq_some_iff.1 hlast
    rw [List.dropLast_concat] at hbody
    exact ⟨q, ys, rfl, hq, fun x hx => (hbody x hx).1, fun x hx => (hbody x hx).2⟩

/-! ### what the rules tried before a kind's rule must look like -/

/-- what `sepOk` excludes after `not` / `else`: (minimal number of blanks, second word) -/
def TKind.excl : TKind → Option (Nat × List Char)
  | .kwNot => some (1, wIn)
  | .kwElse => some (0, wIf)
  | _ => none

/-- **the check a rule tried before the rule of kind `k` must pass** (so that it cannot match a
    lexeme of kind `k` followed by a separator):
    * punctuation, `== >= <= !=`, the two-word keywords: it cannot start with the kind's first
      character;
    * `>` / `<`: the same, or it is `>=` / `<=`;
    * keywords and `ID`: `wordPreOk` — it cannot start with a letter or `_`, or is the
      keyword rule of a different word (for `ID`: of a reserved word), or is a two-word rule
      that the kind's separation condition rules out;
    * floats: it cannot start with a digit; integers: the same, or it is the float rule;
    * strings: it cannot start with a quote. -/
def TKind.preOk (k : TKind) (r : LexRule) : Bool :=
  match k with
  | .lparen => !firstOk T r.re '(' | .rparen => !firstOk T r.re ')'
  | .minus => !firstOk T r.re '-' | .comma => !firstOk T r.re ','
  | .colon => !firstOk T r.re ':' | .lbrace => !firstOk T r.re '{'
  | .rbrace => !firstOk T r.re '}'
  | .eq => !firstOk T r.re '=' | .ge => !firstOk T r.re '>' | .le => !firstOk T r.re '<'
  | .ne => !firstOk T r.re '!'
  | .gt => !firstOk T r.re '>' || r.re == .seq (.lit '>'.toNat) (.lit 61)
  | .lt => !firstOk T r.re '<' || r.re == .seq (.lit '<'.toNat) (.lit 61)
  | .kwNotIn => !firstOk T r.re 'n'
  | .kwElif => !firstOk T r.re 'e'
  | .kwIn => wordPreOk (fun w' => w' != wIn) none r.re
  | .kwNot => wordPreOk (fun w' => w' != wNot) (some (1, wIn)) r.re
  | .kwDef => wordPreOk (fun w' => w' != wDef) none r.re
  | .kwSalt => wordPreOk (fun w' => w' != wSalt) none r.re
  | .kwSplitters => wordPreOk (fun w' => w' != wSplitters) none r.re
  | .kwIf => wordPreOk (fun w' => w' != wIf) none r.re
  | .kwElse => wordPreOk (fun w' => w' != wElse) (some (0, wIf)) r.re
  | .kwWeighted => wordPreOk (fun w' => w' != wWeighted) none r.re
  | .kwReturn => wordPreOk (fun w' => w' != wReturn) none r.re
  | .kwAnd => wordPreOk (fun w' => w' != wAnd) none r.re
  | .kwOr => wordPreOk (fun w' => w' != wOr) none r.re
  | .id => wordPreOk (fun w' => reserved.contains w') none r.re
  | .float => digitBlocked r.re
  | .int => r.re == floatRule.re || digitBlocked r.re
  | .string => !firstOk T r.re '"' && !firstOk T r.re '\''

/-- **table obligation (b)**: for every kind, every rule that precedes the kind's rule in the
    generated table (found by scanning the table up to the rule's name) passes the kind's check.
    Where an order dependence is real (keywords before `ID`, `>=` before `>`, `not in` before
    `not`, `else if` before `else`, floats before integers) a table that violates it fails
    here. -/
theorem TKind.pre_ok (k : TKind) : (rulesBefore k.name R0).all k.preOk = true := by
  cases k <;> decide +kernel

/-! ### the one-token step -/

theorem fixed_of_ok {k : TKind} {l w : List Char} (hf : k.fixed = some w)
    (hk : k ≠ .id ∧ k ≠ .int ∧ k ≠ .float ∧ k ≠ .string ∧ k ≠ .kwNotIn ∧ k ≠ .kwElif)
    (h : lexemeOk k l = true) : l = w := by
  have : (k.fixed == some l) = true := by
    cases k <;> first | exact h | simp at hk
  rw [hf] at this
  exact (by simpa using this : w = l).symm

set_option hygiene false in
local macro "kw_case " k:term ", " w:term : tactic => `(tactic| (
  have hlw := fixed_of_ok (w := $w) rfl (by decide) hl
  subst hlw
  exact kw_firstMatch (TKind.rule_found $k) rfl (by decide +kernel) (excl := none)
    (TKind.pre_ok $k) hs (fun _ _ h => by cases h) bound prev))

set_option hygiene false in
local macro "fixed1_case " k:term ", " w:term : tactic => `(tactic| (
  have hlw := fixed_of_ok (w := $w) rfl (by decide) hl
  subst hlw
  exact fixed1 (TKind.rule_found $k) rfl (TKind.pre_ok $k) rest bound prev))

set_option hygiene false in
local macro "fixed2_case " k:term ", " w:term : tactic => `(tactic| (
  have hlw := fixed_of_ok (w := $w) rfl (by decide) hl
  subst hlw
  exact fixed2 (TKind.rule_found $k) rfl (TKind.pre_ok $k) rest bound prev))

/-- **the winning rule**: on `lexeme ++ rest`, with `lexeme` in the lexeme language of kind `k`
    and `rest` satisfying the kind's separation condition, the first matching rule of lexer
    state 0 is the rule of `k`, and it matches exactly `lexeme` -/
theorem token_firstMatch (k : TKind) {lexeme rest : List Char} (hl : lexemeOk k lexeme = true)
    (hs : sepOk k rest = true) {bound : Nat} (hb : lexeme.length ≤ bound) (prev : Option Char) :
    firstMatch T bound Generated.lexState0.rules prev (lexeme ++ rest) =
      some (k.rule, lexeme.length, rest) := by
  cases k with
  | lparen => fixed1_case .lparen, ['(']
  | rparen => fixed1_case .rparen, [')']
  | minus => fixed1_case .minus, ['-']
  | comma => fixed1_case .comma, [',']
  | colon => fixed1_case .colon, [':']
  | lbrace => fixed1_case .lbrace, ['{']
  | rbrace => fixed1_case .rbrace, ['}']
  | eq => fixed2_case .eq, ['=', '=']
  | ge => fixed2_case .ge, ['>', '=']
  | le => fixed2_case .le, ['<', '=']
  | ne => fixed2_case .ne, ['!', '=']
  | gt =>
    have hlw := fixed_of_ok (w := ['>']) rfl (by decide) hl
    subst hlw
    exact op1_firstMatch (TKind.rule_found .gt) rfl (TKind.pre_ok .gt) hs bound prev
  | lt =>
    have hlw := fixed_of_ok (w := ['<']) rfl (by decide) hl
    subst hlw
    exact op1_firstMatch (TKind.rule_found .lt) rfl (TKind.pre_ok .lt) hs bound prev
  | kwIn => kw_case .kwIn, wIn
  | kwDef => kw_case .kwDef, wDef
  | kwSalt => kw_case .kwSalt, wSalt
  | kwSplitters => kw_case .kwSplitters, wSplitters
  | kwIf => kw_case .kwIf, wIf
  | kwWeighted => kw_case .kwWeighted, wWeighted
  | kwReturn => kw_case .kwReturn, wReturn
  | kwAnd => kw_case .kwAnd, wAnd
  | kwOr => kw_case .kwOr, wOr
  | kwNot =>
    have hlw := fixed_of_ok (w := wNot) rfl (by decide) hl
    subst hlw
    simp only [sepOk, Bool.and_eq_true, Bool.not_eq_true'] at hs
    exact kw_firstMatch (TKind.rule_found .kwNot) rfl (by decide +kernel)
      (excl := some (1, wIn)) (TKind.pre_ok .kwNot) hs.1
      (fun _ _ h => by cases h; exact hs.2) bound prev
  | kwElse =>
    have hlw := fixed_of_ok (w := wElse) rfl (by decide) hl
    subst hlw
    simp only [sepOk, Bool.and_eq_true, Bool.not_eq_true'] at hs
    exact kw_firstMatch (TKind.rule_found .kwElse) rfl (by decide +kernel)
      (excl := some (0, wIf)) (TKind.pre_ok .kwElse) hs.1
      (fun _ _ h => by cases h; exact hs.2) bound prev
  | kwNotIn =>
    obtain ⟨ws, rfl, hws, hmin⟩ := spacedOk_split hl
    have hlen : ws.length ≤ bound := by
      simp only [List.length_append] at hb
      omega
    exact spaced_firstMatch (c := 'n') (w1' := ['o', 't']) (w2 := wIn) (min := 1)
      (TKind.rule_found .kwNotIn) rfl (TKind.pre_ok .kwNotIn) (by decide) (by decide +kernel)
      hws hmin hs hlen prev
  | kwElif =>
    obtain ⟨ws, rfl, hws, hmin⟩ := spacedOk_split hl
    have hlen : ws.length ≤ bound := by
      simp only [List.length_append] at hb
      omega
    exact spaced_firstMatch (c := 'e') (w1' := ['l', 's', 'e']) (w2 := wIf) (min := 0)
      (TKind.rule_found .kwElif) rfl (TKind.pre_ok .kwElif) (by decide) (by decide +kernel)
      hws hmin hs hlen prev
  | id =>
    simp only [lexemeOk, Bool.and_eq_true, Bool.not_eq_true'] at hl
    obtain ⟨hwl, hres⟩ := hl
    refine id_firstMatch (TKind.rule_found .id) rfl (TKind.pre_ok .id) hwl hs ?_ hb prev
    intro w hw heq
    subst heq
    rw [hres] at hw
    cases hw
  | float =>
    obtain ⟨ip, fp, rfl, hip, hipd, hfp, hfpd⟩ := floatOk_split hl
    exact float_firstMatch (TKind.rule_found .float) rfl (TKind.pre_ok .float) hip hipd hfp hfpd
      hs hb prev
  | int =>
    simp only [lexemeOk, Bool.and_eq_true, Bool.not_eq_true', List.isEmpty_eq_false_iff,
      List.all_eq_true] at hl
    exact int_firstMatch (TKind.rule_found .int) rfl (TKind.pre_ok .int) hl.1 hl.2 hs hb prev
  | string =>
    obtain ⟨q, body, rfl, hq, hbq, hbn⟩ := strOk_split hl
    have hlen : body.length ≤ bound := by
      simp only [List.length_cons, List.length_append] at hb
      omega
    have := str_firstMatch (TKind.rule_found .string) rfl (TKind.pre_ok .string) hq hbq hbn
      (rest := rest) hlen prev
    have e1 : (q :: (body ++ [q])) ++ rest = q :: (body ++ q :: rest) := by simp
    have e2 : (q :: (body ++ [q])).length = body.length + 2 := by simp
    rw [e1, e2]
    exact this

/-- **one token**: a lexeme of kind `k`, followed by text that cannot fuse with it, is lexed as
    exactly the token of kind `k` (with the rule's value conversion), and then the rest is
    lexed -/
theorem tokenStep (k : TKind) {lexeme rest : List Char} (hl : lexemeOk k lexeme = true)
    (hs : sepOk k rest = true) {bound : Nat} (hb : lexeme.length ≤ bound) (stack : List Nat) :
    lexC S bound 0 stack (lexeme ++ rest) =
      (lexC S bound 0 stack rest).map (fun ts => ⟨k.name, convert T k.conv lexeme⟩ :: ts) := by
  have hne : lexeme ≠ [] := by
    intro h
    rw [h, lexemeOk_nil] at hl
    cases hl
  exact tokenStep_of_firstMatch hne (token_firstMatch k hl hs hb none) k.rule_action stack

/-! ### separators: what trivia (and most token starts) begin with -/

/-- a character that separates every token kind from what follows: not a word character, not a
    digit, not `=` and not `.` -/
def sepChar (c : Char) : Bool := !isWordC c && !isDigitC c && c != '=' && c != '.'

theorem spaceChars_sep_all : spaceChars.all sepChar = true := by decide +kernel
theorem slash_sep : sepChar '/' = true := by decide +kernel

theorem space_sepChar {c : Char} (h : isSpace c = true) : sepChar c = true :=
  List.all_eq_true.1 spaceChars_sep_all c (isSpace_mem h)

/-- after a separator character every kind except `not` / `else` is safe -/
theorem sepOk_of_sepChar {k : TKind} (hk : k ≠ .kwNot ∧ k ≠ .kwElse) {c : Char}
    (hc : sepChar c = true) (s : List Char) : sepOk k (c :: s) = true := by
  simp only [sepChar, Bool.and_eq_true, Bool.not_eq_true', bne_iff_ne, ne_eq] at hc
  obtain ⟨⟨⟨hw, hd⟩, heq⟩, hdot⟩ := hc
  have hws : wordSep (c :: s) = true := by rw [wordSep_cons, hw]; rfl
  have hds : digitSep (c :: s) = true := by simp [digitSep, digitHead, hd]
  have his : intSep (c :: s) = true := by simp [intSep, hd, hdot]
  have hhd : ((c :: s).head? != some '=') = true := by simpa using heq
  cases k <;> first
    | exact absurd rfl hk.1
    | exact absurd rfl hk.2
    | (simp only [sepOk] <;> first
        | with_reducible exact hws
        | with_reducible exact hds
        | with_reducible exact his
        | with_reducible exact hhd)

theorem followsB_cons_false {min : Nat} {w : List Char} {c : Char} {s : List Char}
    (hc : isSpace c = false) (hw : w.head? ≠ some c) (hne : w ≠ []) :
    followsB min w (c :: s) = false := by
  cases w with
  | nil => exact absurd rfl hne
  | cons y w' =>
    have hyc : (y == c) = false := by
      simp only [List.head?_cons, ne_eq, Option.some.injEq] at hw
      simpa using hw
    simp [followsB, hc, List.isPrefixOf, hyc]

/-- `not` / `else` are safe before a separator character that is not white space (e.g. the `/`
    of a comment, or punctuation) -/
theorem sepOk_kw2_of_sepChar {k : TKind} {c : Char} (hc : sepChar c = true)
    (hsp : isSpace c = false) (s : List Char) : sepOk k (c :: s) = true := by
  by_cases hk : k ≠ .kwNot ∧ k ≠ .kwElse
  · exact sepOk_of_sepChar hk hc s
  · have hcw : isWordC c = false := by
      simp only [sepChar, Bool.and_eq_true, Bool.not_eq_true'] at hc
      exact hc.1.1.1
    have hws : wordSep (c :: s) = true := by rw [wordSep_cons, hcw]; rfl
    have hiw : isWordC 'i' = true := by decide +kernel
    have hci : c ≠ 'i' := by
      intro h
      rw [h, hiw] at hcw
      cases hcw
    have hf1 : followsB 1 wIn (c :: s) = false :=
      followsB_cons_false hsp (by simpa [wIn] using Ne.symm hci) (by decide)
    have hf0 : followsB 0 wIf (c :: s) = false :=
      followsB_cons_false hsp (by simpa [wIf] using Ne.symm hci) (by decide)
    cases k <;> first | (simp at hk; done) | simp [sepOk, hws, hf1, hf0]

/-! ### `not` / `else` across white space and comments -/

theorem followsB_mono {min : Nat} {w s : List Char} (h : followsB min w s = true) :
    followsB 0 w s = true := by
  simp only [followsB, Bool.and_eq_true, decide_eq_true_eq] at h ⊢
  exact ⟨Nat.zero_le _, h.2⟩

theorem followsB0_space {w : List Char} {c : Char} {s : List Char} (hc : isSpace c = true) :
    followsB 0 w (c :: s) = followsB 0 w s := by
  simp [followsB, hc]

/-- leading white space does not change whether (optional blanks and) the word `w` follows -/
theorem followsB0_spaces {w : List Char} : ∀ (cs s : List Char), (∀ x ∈ cs, isSpace x = true) →
    followsB 0 w (cs ++ s) = followsB 0 w s
  | [], _, _ => rfl
  | c :: cs, s, h => by
    rw [List.cons_append, followsB0_space (h c List.mem_cons_self)]
    exact followsB0_spaces cs s (fun x hx => h x (List.mem_cons_of_mem _ hx))

/-- `not` / `else` followed by text that does not continue (after optional blanks) with
    `in` / `if` -/
theorem sepOk_kw2_of_not_follows {rest : List Char} (hw : wordSep rest = true)
    (h1 : followsB 0 wIn rest = false) (h0 : followsB 0 wIf rest = false) (k : TKind)
    (hk : k = .kwNot ∨ k = .kwElse) : sepOk k rest = true := by
  rcases hk with rfl | rfl
  · have : followsB 1 wIn rest = false := by
      cases h : followsB 1 wIn rest with
      | false => rfl
      | true => rw [followsB_mono h] at h1; cases h1
    simp [sepOk, hw, this]
  · simp [sepOk, hw, h0]

/-! ### the lexeme languages contain what they should -/

theorem takeWhile_run {p : Char → Bool} : ∀ (run tail : List Char), (∀ x ∈ run, p x = true) →
    Stops p tail → (run ++ tail).takeWhile p = run ∧ (run ++ tail).dropWhile p = tail
  | [], [], _, _ => ⟨rfl, rfl⟩
  | [], y :: t, _, hs => by
    have hy : p y = false := hs y rfl
    simp [hy]
  | x :: run, tail, hr, hs => by
    have hx : p x = true := hr x List.mem_cons_self
    have ih := takeWhile_run run tail (fun y hy => hr y (List.mem_cons_of_mem _ hy)) hs
    simp [hx, ih.1, ih.2]

theorem strOk_intro {q : Char} (hq : q = '"' ∨ q = '\'') {body : List Char}
    (hbq : ∀ x ∈ body, x ≠ q) (hbn : ∀ x ∈ body, x ≠ '\n') : strOk (q :: (body ++ [q])) = true := by
  simp only [strOk, Bool.and_eq_true, Bool.or_eq_true, beq_iff_eq, List.all_eq_true,
    bne_iff_ne, ne_eq, List.dropLast_concat, List.getLast?_concat]
  exact ⟨⟨hq, trivial⟩, fun x hx => ⟨hbq x hx, hbn x hx⟩⟩

theorem floatOk_intro {ip fp : List Char} (hip : ip ≠ []) (hipd : ∀ x ∈ ip, isDigitC x = true)
    (hfp : fp ≠ []) (hfpd : ∀ x ∈ fp, isDigitC x = true) : floatOk (ip ++ '.' :: fp) = true := by
  have hstop : Stops isDigitC ('.' :: fp) := by
    intro x hx
    simp only [List.head?_cons, Option.some.injEq] at hx
    rw [← hx]
    exact dot_notDigit
  obtain ⟨h1, h2⟩ := takeWhile_run ip ('.' :: fp) hipd hstop
  unfold floatOk
  rw [h2, h1]
  simp only [Bool.and_eq_true, Bool.not_eq_true', List.isEmpty_eq_false_iff, List.all_eq_true]
  exact ⟨⟨hip, hfp⟩, hfpd⟩

theorem spacedOk_intro {w1 w2 ws : List Char} {min : Nat} (hws : ∀ x ∈ ws, isSpace x = true)
    (hmin : min ≤ ws.length) (hw2 : ∀ x, w2.head? = some x → isSpace x = false) :
    spacedOk w1 min w2 (w1 ++ (ws ++ w2)) = true := by
  obtain ⟨h1, h2⟩ := takeWhile_run (p := isSpace) ws w2 hws hw2
  simp only [spacedOk, Bool.and_eq_true, decide_eq_true_eq, beq_iff_eq,
    List.isPrefixOf_iff_prefix, List.drop_left, h1, h2]
  exact ⟨⟨_, rfl⟩, hmin, trivial⟩

/-- the end of the text separates every kind -/
theorem sepOk_nil (k : TKind) : sepOk k [] = true := by cases k <;> rfl

end Pyab.TokenLex
