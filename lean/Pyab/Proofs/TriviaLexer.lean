/-
  C08 (lexer half), part 2: generic facts about the tokenizer loop `lexLoop`.

  * `toksOf`: the token list of a lexer result (pieces forgotten).
  * `lexLoop_fuel_irrel`: any two sufficient fuels (`≥ length + 1`) give the same result;
    `lexLoop_fuel_mono`: a run that does not end in the fuel error is unchanged by more fuel.
  * `lexLoop_prev_indep`: for a spec none of whose rules looks at the previous character
    before consuming one (`LexSpec.prevFree`), the result does not depend on `prev`.
  * `lexC`: the canonical fuel-free and prev-free reading of `toksOf ∘ lexLoop`, with one-step
    lemmas for `ignore` / `push` / `pop` rules.
  * `lexC_class_neutral`: if at every input starting with a `P`-character the winning rule is
    an `ignore` rule whose lexeme consists of `P`-characters, then a leading `P`-character is
    invisible in the token list.
-/
import Pyab.Proofs.TriviaRegex
namespace Pyab

/-- the tokens of a lexer run, pieces forgotten -/
def toksOf (r : Except Err LexOut) : Except Err (List Token) := r.map (·.toks)

theorem toksOf_bind_trivia (x : Except Err LexOut) (f : LexOut → List Piece) :
    toksOf (x >>= fun out => pure ⟨out.toks, f out⟩) = toksOf x := by
  cases x <;> rfl

/-! ### 1. `firstMatch` -/

theorem firstMatch_append_none {t : CharTables} {bound : Nat} {pre post : List LexRule}
    {prev : Option Char} {s : List Char}
    (h : ∀ r ∈ pre, Re.matchPrefix t bound r.re prev s = none) :
    firstMatch t bound (pre ++ post) prev s = firstMatch t bound post prev s := by
  induction pre with
  | nil => rfl
  | cons r rs ih =>
    simp only [List.cons_append, firstMatch, h r List.mem_cons_self]
    exact ih (fun r' hr' => h r' (List.mem_cons_of_mem _ hr'))

theorem firstMatch_cons_none {t : CharTables} {bound : Nat} {r : LexRule} {rs : List LexRule}
    {prev : Option Char} {s : List Char} (h : Re.matchPrefix t bound r.re prev s = none) :
    firstMatch t bound (r :: rs) prev s = firstMatch t bound rs prev s := by
  simp only [firstMatch, h]

theorem firstMatch_cons_some {t : CharTables} {bound : Nat} {r : LexRule} {rs : List LexRule}
    {prev : Option Char} {s : List Char} {n : Nat} {rest : List Char}
    (h : Re.matchPrefix t bound r.re prev s = some (n, rest)) :
    firstMatch t bound (r :: rs) prev s = some (r, n, rest) := by
  simp only [firstMatch, h]

theorem firstMatch_prev_indep {t : CharTables} {bound : Nat} {rules : List LexRule}
    (h : ∀ r ∈ rules, Re.readsPrev r.re = false) (p1 p2 : Option Char) (s : List Char) :
    firstMatch t bound rules p1 s = firstMatch t bound rules p2 s := by
  induction rules with
  | nil => rfl
  | cons r rs ih =>
    simp only [firstMatch]
    rw [Re.matchPrefix_prev_indep (h r List.mem_cons_self) p1 p2,
        ih (fun r' hr' => h r' (List.mem_cons_of_mem _ hr'))]

theorem firstMatch_rest_length {t : CharTables} {bound : Nat} {rules : List LexRule}
    {prev : Option Char} {c : Char} {cs : List Char} {r : LexRule} {n : Nat} {rest : List Char}
    (h : firstMatch t bound rules prev (c :: cs) = some (r, n, rest)) (hn : n ≠ 0) :
    rest.length ≤ cs.length := by
  have hs := congrArg List.length (firstMatch_split h).1
  simp only [List.length_append, List.length_take, List.length_cons] at hs
  omega

/-! ### 2. fuel -/

theorem lexLoop_fuel_irrel (spec : LexSpec) (bound : Nat) :
    ∀ (f1 f2 st : Nat) (stack : List Nat) (prev : Option Char) (s : List Char),
      s.length + 1 ≤ f1 → s.length + 1 ≤ f2 →
      lexLoop spec bound f1 st stack prev s = lexLoop spec bound f2 st stack prev s
  | 0, _, _, _, _, _, h1, _ => by omega
  | _ + 1, 0, _, _, _, _, _, h2 => by omega
  | g1 + 1, g2 + 1, st, stack, prev, s, h1, h2 => by
    cases s with
    | nil => simp only [lexLoop]
    | cons c cs =>
      simp only [lexLoop]
      cases hst : spec.states[st]? with
      | none => rfl
      | some state =>
        simp only []
        cases hfm : firstMatch spec.tables bound state.rules prev (c :: cs) with
        | none =>
          simp only []
          rw [lexLoop_fuel_irrel spec bound g1 g2 st stack (some c) cs
            (by simp at h1; omega) (by simp at h2; omega)]
        | some res =>
          obtain ⟨r, n, rest⟩ := res
          simp only []
          by_cases hn : n = 0
          · simp [hn]
          · have hlen := firstMatch_rest_length hfm hn
            have ih : ∀ st' stack' prev',
                lexLoop spec bound g1 st' stack' prev' rest =
                lexLoop spec bound g2 st' stack' prev' rest := fun st' stack' prev' =>
              lexLoop_fuel_irrel spec bound g1 g2 st' stack' prev' rest
                (by simp at h1; omega) (by simp at h2; omega)
            simp only [ih]

theorem bind_ne_error {ε α β} {x : Except ε α} {f : α → Except ε β} {e : ε}
    (h : (x >>= f) ≠ .error e) : x ≠ .error e := by
  intro hx
  subst hx
  exact h rfl

/-- **fuel monotonicity**: the only fuel failure is `.error (.other "fuel")`; a run that ends
    differently is reproduced verbatim by every larger fuel -/
theorem lexLoop_fuel_mono (spec : LexSpec) (bound : Nat) :
    ∀ (f f' st : Nat) (stack : List Nat) (prev : Option Char) (s : List Char),
      f ≤ f' → lexLoop spec bound f st stack prev s ≠ .error (.other "fuel") →
      lexLoop spec bound f' st stack prev s = lexLoop spec bound f st stack prev s
  | 0, _, _, _, _, _, _, h => by exact absurd rfl h
  | _ + 1, 0, _, _, _, _, hle, _ => by omega
  | f + 1, g + 1, st, stack, prev, s, hle, h => by
    have hfg : f ≤ g := by omega
    cases s with
    | nil => simp only [lexLoop]
    | cons c cs =>
      simp only [lexLoop] at h ⊢
      cases hst : spec.states[st]? with
      | none => rfl
      | some state =>
        simp only [hst] at h ⊢
        cases hfm : firstMatch spec.tables bound state.rules prev (c :: cs) with
        | none =>
          simp only [hfm] at h ⊢
          by_cases hr : state.errorRaises = true
          · simp [hr]
          · simp only [hr] at h ⊢
            rw [lexLoop_fuel_mono spec bound f g st stack (some c) cs hfg (bind_ne_error h)]
        | some res =>
          obtain ⟨r, n, rest⟩ := res
          simp only [hfm] at h ⊢
          by_cases hn : n = 0
          · simp [hn]
          · have hn' : (n == 0) = false := by simpa using hn
            simp only [hn', Bool.false_eq_true, if_false] at h ⊢
            cases hact : r.action with
            | emit conv =>
              simp only [hact] at h ⊢
              rw [lexLoop_fuel_mono spec bound f g _ _ _ rest hfg (bind_ne_error h)]
            | ignore =>
              simp only [hact] at h ⊢
              rw [lexLoop_fuel_mono spec bound f g _ _ _ rest hfg (bind_ne_error h)]
            | push st' =>
              simp only [hact] at h ⊢
              rw [lexLoop_fuel_mono spec bound f g _ _ _ rest hfg (bind_ne_error h)]
            | pop =>
              simp only [hact] at h ⊢
              cases stack with
              | nil => rfl
              | cons st' stack' =>
                simp only [] at h ⊢
                rw [lexLoop_fuel_mono spec bound f g _ _ _ rest hfg (bind_ne_error h)]
            | unknown w => simp only

/-! ### 3. previous character -/

/-- no rule of the spec inspects the previous character before consuming one -/
def LexSpec.prevFree (spec : LexSpec) : Bool :=
  spec.states.toList.all (fun st => st.rules.all (fun r => !Re.readsPrev r.re))

theorem LexSpec.prevFree_lookup {spec : LexSpec} (h : spec.prevFree = true) {i : Nat}
    {state : LexState} (hst : spec.states[i]? = some state) :
    ∀ r ∈ state.rules, Re.readsPrev r.re = false := by
  intro r hr
  have hmem : state ∈ spec.states.toList := by
    rw [Array.mem_toList_iff]
    exact Array.mem_of_getElem? hst
  simp only [LexSpec.prevFree, List.all_eq_true] at h
  simpa using h state hmem r hr

theorem lexLoop_prev_indep {spec : LexSpec} (hp : spec.prevFree = true) (bound : Nat) :
    ∀ (fuel st : Nat) (stack : List Nat) (p1 p2 : Option Char) (s : List Char),
      lexLoop spec bound fuel st stack p1 s = lexLoop spec bound fuel st stack p2 s
  | 0, _, _, _, _, _ => by simp only [lexLoop]
  | fuel + 1, st, stack, p1, p2, s => by
    cases s with
    | nil => simp only [lexLoop]
    | cons c cs =>
      simp only [lexLoop]
      cases hst : spec.states[st]? with
      | none => rfl
      | some state =>
        simp only []
        rw [firstMatch_prev_indep (LexSpec.prevFree_lookup hp hst) p1 p2]

/-! ### 4. the canonical reading and its one-step lemmas -/

/-- tokens of the remaining input `s` in lexer state `st` with state stack `stack`
    (sufficient fuel, no previous character) -/
def lexC (spec : LexSpec) (bound st : Nat) (stack : List Nat) (s : List Char) :
    Except Err (List Token) :=
  toksOf (lexLoop spec bound (s.length + 1) st stack none s)

theorem toksOf_lexLoop_eq_lexC {spec : LexSpec} (hp : spec.prevFree = true) (bound : Nat)
    {fuel : Nat} (st : Nat) (stack : List Nat) (prev : Option Char) {s : List Char}
    (hf : s.length + 1 ≤ fuel) :
    toksOf (lexLoop spec bound fuel st stack prev s) = lexC spec bound st stack s := by
  unfold lexC
  rw [lexLoop_fuel_irrel spec bound fuel (s.length + 1) st stack prev s hf (Nat.le_refl _),
      lexLoop_prev_indep hp bound _ st stack prev none s]

theorem lexC_nil (spec : LexSpec) (bound : Nat) (stack : List Nat) :
    lexC spec bound 0 stack [] = .ok [] := by
  simp [lexC, lexLoop, toksOf]
  rfl

section step
variable {spec : LexSpec} (hp : spec.prevFree = true) {bound st : Nat} {stack : List Nat}
  {c : Char} {cs : List Char} {state : LexState} {r : LexRule} {n : Nat} {rest : List Char}
include hp

theorem lexC_step_ignore (hst : spec.states[st]? = some state)
    (hfm : firstMatch spec.tables bound state.rules none (c :: cs) = some (r, n, rest))
    (hn : n ≠ 0) (ha : r.action = .ignore) :
    lexC spec bound st stack (c :: cs) = lexC spec bound st stack rest := by
  have hn' : (n == 0) = false := by simpa using hn
  have hlen := firstMatch_rest_length hfm hn
  rw [← toksOf_lexLoop_eq_lexC hp bound st stack ((c :: cs).take n).getLast?
        (s := rest) (fuel := cs.length + 1) (by omega)]
  unfold lexC
  simp only [List.length_cons, lexLoop, hst, hfm, hn', Bool.false_eq_true, if_false, ha]
  exact toksOf_bind_trivia _ _

theorem lexC_step_push {st' : Nat} (hst : spec.states[st]? = some state)
    (hfm : firstMatch spec.tables bound state.rules none (c :: cs) = some (r, n, rest))
    (hn : n ≠ 0) (ha : r.action = .push st') :
    lexC spec bound st stack (c :: cs) = lexC spec bound st' (st :: stack) rest := by
  have hn' : (n == 0) = false := by simpa using hn
  have hlen := firstMatch_rest_length hfm hn
  rw [← toksOf_lexLoop_eq_lexC hp bound st' (st :: stack) ((c :: cs).take n).getLast?
        (s := rest) (fuel := cs.length + 1) (by omega)]
  unfold lexC
  simp only [List.length_cons, lexLoop, hst, hfm, hn', Bool.false_eq_true, if_false, ha]
  exact toksOf_bind_trivia _ _

theorem lexC_step_pop {st' : Nat} (hst : spec.states[st]? = some state)
    (hfm : firstMatch spec.tables bound state.rules none (c :: cs) = some (r, n, rest))
    (hn : n ≠ 0) (ha : r.action = .pop) :
    lexC spec bound st (st' :: stack) (c :: cs) = lexC spec bound st' stack rest := by
  have hn' : (n == 0) = false := by simpa using hn
  have hlen := firstMatch_rest_length hfm hn
  rw [← toksOf_lexLoop_eq_lexC hp bound st' stack ((c :: cs).take n).getLast?
        (s := rest) (fuel := cs.length + 1) (by omega)]
  unfold lexC
  simp only [List.length_cons, lexLoop, hst, hfm, hn', Bool.false_eq_true, if_false, ha]
  exact toksOf_bind_trivia _ _

end step

/-! ### 5. a class of characters that only ever forms ignored lexemes -/

section neutral
variable {spec : LexSpec} (hp : spec.prevFree = true) {bound st : Nat} {state : LexState}
  (hst : spec.states[st]? = some state) (P : Char → Prop)
  (H : ∀ c s, P c → ∃ r n rest lexeme,
      firstMatch spec.tables bound state.rules none (c :: s) = some (r, n, rest) ∧
      r.action = .ignore ∧ c :: s = lexeme ++ rest ∧ lexeme.length = n ∧ lexeme ≠ [] ∧
      ∀ x ∈ lexeme, P x)
include hp hst H

omit hp hst H in
private theorem run_of_single (stack : List Nat) (N : Nat)
    (hsingle : ∀ s : List Char, s.length < N → ∀ c, P c →
      lexC spec bound st stack (c :: s) = lexC spec bound st stack s) :
    ∀ (l rest : List Char), (∀ x ∈ l, P x) → (l ++ rest).length < N + 1 →
      lexC spec bound st stack (l ++ rest) = lexC spec bound st stack rest
  | [], _, _, _ => rfl
  | x :: l, rest, hl, hlen => by
    have h1 : (l ++ rest).length < N := by simp at hlen ⊢; omega
    rw [List.cons_append, hsingle (l ++ rest) h1 x (hl x List.mem_cons_self)]
    exact run_of_single stack N hsingle l rest
      (fun y hy => hl y (List.mem_cons_of_mem _ hy)) (by omega)

private theorem single_neutral_aux (stack : List Nat) :
    ∀ (N : Nat) (s : List Char), s.length < N → ∀ c, P c →
      lexC spec bound st stack (c :: s) = lexC spec bound st stack s
  | 0, _, h, _, _ => by omega
  | N + 1, s, hlen, c, hc => by
    obtain ⟨r, n, rest, lexeme, hfm, ha, hsplit, hn, hne, hP⟩ := H c s hc
    have hn0 : n ≠ 0 := by
      intro h0
      rw [h0] at hn
      exact hne (List.length_eq_zero_iff.1 hn)
    rw [lexC_step_ignore hp hst hfm hn0 ha]
    cases lexeme with
    | nil => exact absurd rfl hne
    | cons y l =>
      simp only [List.cons_append, List.cons.injEq] at hsplit
      obtain ⟨_, hs⟩ := hsplit
      subst hs
      exact (run_of_single P stack N
        (single_neutral_aux stack N) l rest
        (fun x hx => hP x (List.mem_cons_of_mem _ hx)) (by omega)).symm

/-- a leading `P`-character is invisible in the token list -/
theorem lexC_class_neutral (stack : List Nat) (c : Char) (s : List Char) (hc : P c) :
    lexC spec bound st stack (c :: s) = lexC spec bound st stack s :=
  single_neutral_aux hp hst P H stack (s.length + 1) s (Nat.lt_succ_self _) c hc

/-- a leading run of `P`-characters is invisible in the token list -/
theorem lexC_class_run_neutral (stack : List Nat) (l s : List Char) (hl : ∀ x ∈ l, P x) :
    lexC spec bound st stack (l ++ s) = lexC spec bound st stack s := by
  induction l with
  | nil => rfl
  | cons x l ih =>
    rw [List.cons_append, lexC_class_neutral hp hst P H stack x (l ++ s) (hl x List.mem_cons_self)]
    exact ih (fun y hy => hl y (List.mem_cons_of_mem _ hy))

end neutral

end Pyab
