/-
  Completeness of the generated LR tables on renderings with MINIMAL parentheses
  (`Spec.tokensOfExperimentMin`): operator precedence (`or < and < not`) and left
  associativity, as sly resolved them inside the dumped action table, are covered by

      lrParse_tokensOfMin : e.WF → lrParse Generated.lrTables (tokensOfExperimentMin e) = .ok e

  The simulation invariant for predicates carries the context level.  A predicate may start
  in six states (after `if`, `elif`, `(`, `or`, `and`, `not`); each has a *minimal level*
  (`minLvl`): after `or` only level ≥ 2 may be read bare (state 55, reached with the right
  operand, reduces on `or`), after `and` and `not` only level 3 (states 56 / 38 reduce on
  everything).  Each lookahead has a level too (`laLvl`: `{`, `)` ↦ 0, `or` ↦ 1, `and` ↦ 2):
  a predicate printed at level `ℓ` is followed only by lookaheads of level ≤ `ℓ`.  Then

      RunsAt ℓ (tokensOfPredAt ℓ p) p

  says: from any stack whose top state `s` may start a predicate with `minLvl s ≤ ℓ`, on
  `tokensOfPredAt ℓ p ++ rest` with `laLvl (la rest) ≤ ℓ`, the driver reaches the stack with
  `⟨goto s predicate, "predicate", p⟩` pushed and `rest` left.
-/
import Pyab.Spec.UnparseMin
import Pyab.Proofs.LRComplete
namespace Pyab.Proofs.LRC
open Pyab Pyab.Spec

/-! ### Table facts for predicates read by precedence -/

/-- states in which a predicate may start: after `KW_IF`, `KW_ELIF`, `LPAREN`, `KW_OR`,
    `KW_AND`, `KW_NOT` -/
def pStart : List Nat := [15, 74, 22, 36, 37, 21]

/-- the lowest context level that may be read bare in a start state -/
def minLvl : Nat → Nat
  | 36 => 2
  | 37 => 3
  | 21 => 3
  | _ => 1

/-- the level of a lookahead that may follow a predicate -/
def laLvl : String → Nat
  | "KW_OR" => 1
  | "KW_AND" => 2
  | _ => 0

theorem pStart_facts : ∀ s ∈ pStart,
    s ∈ termStart ∧ s ∈ parenStart ∧ act s "KW_NOT" = .shift 21 ∧
    G s "predicate" = some (gt s "predicate") ∧ gt s "term" ∈ cmpMid ∧
    (minLvl s ≤ 2 → act (gt s "predicate") "KW_AND" = .shift 37) ∧
    (minLvl s ≤ 1 → act (gt s "predicate") "KW_OR" = .shift 36) := by decide +kernel

/-- state 55 (`predicate KW_OR predicate ·`) reduces on every follow token except `and` -/
theorem or_reduce_facts_min : ∀ k ∈ Fpred, laLvl k ≤ 1 → act 55 k = .reduce 16 := by decide +kernel

theorem pStart_state_facts :
    22 ∈ pStart ∧ minLvl 22 = 1 ∧ 36 ∈ pStart ∧ minLvl 36 = 2 ∧ 37 ∈ pStart ∧ minLvl 37 = 3 ∧
    21 ∈ pStart ∧ minLvl 21 = 3 ∧ 15 ∈ pStart ∧ minLvl 15 = 1 ∧ 74 ∈ pStart ∧ minLvl 74 = 1 := by
  decide

theorem Fpred_sub_Fterm : ∀ k ∈ Fpred, k ∈ Fterm := by decide

/-! ### The invariant -/

/-- `toks` is read as the predicate `p` in every start state of minimal level ≤ `c`, before
    every follow token of level ≤ `c` -/
def RunsAt (c : Nat) (toks : List Token) (p : Pred) : Prop :=
  ∀ (σ : List Entry) (rest : List Token), topState σ ∈ pStart → minLvl (topState σ) ≤ c →
    la rest ∈ Fpred → laLvl (la rest) ≤ c →
    Run (3 * toks.length) σ (toks ++ rest)
      (⟨gt (topState σ) "predicate", "predicate", .pred p⟩ :: σ) rest

/-- the wrapping step of the printer: a body that is read at its own level `c` is, wrapped in
    parentheses when `c < ℓ`, read at every level `ℓ` -/
theorem RunsAt.wrap {c : Nat} {toks : List Token} {p : Pred} (h : RunsAt c toks p) (hc : 1 ≤ c)
    (ℓ : Nat) : RunsAt ℓ (parenIf (decide (c < ℓ)) toks) p := by
  intro σ rest hs hm hla hll
  by_cases hlt : c < ℓ
  · -- parenthesised: `( toks )`, the body read at level 1 in state 22 before `)`
    obtain ⟨_, hsP, _, _, _, _, _⟩ := pStart_facts _ hs
    obtain ⟨hLP, hg⟩ := parenStart_facts _ hsP
    obtain ⟨_, h39, hRP⟩ := paren_facts
    obtain ⟨h22, hm22, _⟩ := pStart_state_facts
    obtain ⟨r57, _, _, _⟩ := pred_reduce_facts _ hla
    have hr : la (tk "RPAREN" ")" :: rest) ∈ Fpred := by show "RPAREN" ∈ Fpred; decide
    have hrl : laLvl (la (tk "RPAREN" ")" :: rest)) ≤ c := by show laLvl "RPAREN" ≤ c; exact Nat.zero_le _
    simp only [parenIf, hlt, decide_true, if_true, List.cons_append, List.append_assoc,
      List.nil_append]
    apply Run.mono
    · shift hLP
      apply Run.trans (h (⟨22, _, _⟩ :: σ) _ h22 (by rw [topState_cons, hm22]; exact hc) hr hrl)
      simp only [topState_cons]
      rw [h39]
      shift hRP
      apply red18 r57 hg
      exact Run.refl
    · simp only [List.length_cons, List.length_append, List.length_nil]; omega
  · have hle : ℓ ≤ c := Nat.le_of_not_lt hlt
    simp only [parenIf, hlt, decide_false, Bool.false_eq_true, if_false]
    exact h σ rest hs (Nat.le_trans hm hle) hla (Nat.le_trans hll hle)

/-- a comparison is read in every start state before every follow token -/
theorem run_cmp_min (l : Term) (op : CmpOp) (r : Term) (hwl : termWF l = true)
    (hwr : termWF r = true) (c : Nat) :
    RunsAt c (tokensOfTerm l ++ tokenOfOp op :: tokensOfTerm r) (.cmp l op r) := by
  intro σ rest hs _ hla _
  obtain ⟨hsT, _, _, hg, hmid, _, _⟩ := pStart_facts _ hs
  obtain ⟨h41, h61, _, _, _, _, _, _⟩ := pred_state_facts
  obtain ⟨_, r61, _, _⟩ := pred_reduce_facts _ hla
  have hop : la (tokenOfOp op :: (tokensOfTerm r ++ rest)) ∈ Fterm := op_kind_mem op
  simp only [List.cons_append, List.append_assoc]
  apply Run.mono
  · apply Run.trans (run_term l hwl σ _ hsT hop)
    apply Run.trans (run_op op (⟨gt (topState σ) "term", _, _⟩ :: σ) _ hmid (la_term_first r rest))
    apply Run.trans (run_term r hwr (⟨41, _, _⟩ :: _) _ h41 (Fpred_sub_Fterm _ hla))
    simp only [topState_cons]
    rw [h61]
    apply red19 r61 hg
    exact Run.refl
  · simp only [List.length_cons, List.length_append]; omega

/-- `a or b`, bare: `a` at level 1 before `or`, `b` at level 2 after it (state 36), then
    `predicate → predicate KW_OR predicate` on every follow token of level ≤ 1 -/
theorem run_or_min {ta tb : List Token} {a b : Pred} (ha : RunsAt 1 ta a) (hb : RunsAt 2 tb b) :
    RunsAt 1 (ta ++ tk "KW_OR" "or" :: tb) (.or a b) := by
  intro σ rest hs hm hla hll
  obtain ⟨_, _, _, hg, _, _, hOR⟩ := pStart_facts _ hs
  obtain ⟨_, _, h36, hm36, _⟩ := pStart_state_facts
  obtain ⟨_, _, _, _, _, h55, _, _⟩ := pred_state_facts
  have r55 := or_reduce_facts_min _ hla hll
  have hk : la (tk "KW_OR" "or" :: (tb ++ rest)) ∈ Fpred := by show "KW_OR" ∈ Fpred; decide
  have hkl : laLvl (la (tk "KW_OR" "or" :: (tb ++ rest))) ≤ 1 := Nat.le_refl 1
  simp only [List.cons_append, List.append_assoc]
  apply Run.mono
  · apply Run.trans (ha σ _ hs hm hk hkl)
    shift (hOR hm)
    apply Run.trans (hb (⟨36, _, _⟩ :: _) rest h36 (by rw [topState_cons, hm36]; exact Nat.le_refl 2) hla
      (Nat.le_trans hll (by decide)))
    simp only [topState_cons]
    rw [h55]
    apply red16 r55 hg
    exact Run.refl
  · simp only [List.length_cons, List.length_append]; omega

/-- `a and b`, bare: `a` at level 2 before `and`, `b` at level 3 after it (state 37), then
    `predicate → predicate KW_AND predicate` on every follow token -/
theorem run_and_min {ta tb : List Token} {a b : Pred} (ha : RunsAt 2 ta a) (hb : RunsAt 3 tb b) :
    RunsAt 2 (ta ++ tk "KW_AND" "and" :: tb) (.and a b) := by
  intro σ rest hs hm hla hll
  obtain ⟨_, _, _, hg, _, hAND, _⟩ := pStart_facts _ hs
  obtain ⟨_, _, _, _, h37, hm37, _⟩ := pStart_state_facts
  obtain ⟨_, _, _, _, _, _, _, h56⟩ := pred_state_facts
  obtain ⟨_, _, r56, _⟩ := pred_reduce_facts _ hla
  have hk : la (tk "KW_AND" "and" :: (tb ++ rest)) ∈ Fpred := by show "KW_AND" ∈ Fpred; decide
  have hkl : laLvl (la (tk "KW_AND" "and" :: (tb ++ rest))) ≤ 2 := Nat.le_refl 2
  simp only [List.cons_append, List.append_assoc]
  apply Run.mono
  · apply Run.trans (ha σ _ hs hm hk hkl)
    shift (hAND hm)
    apply Run.trans (hb (⟨37, _, _⟩ :: _) rest h37 (by rw [topState_cons, hm37]; exact Nat.le_refl 3) hla
      (Nat.le_trans hll (by decide)))
    simp only [topState_cons]
    rw [h56]
    apply red17 r56 hg
    exact Run.refl
  · simp only [List.length_cons, List.length_append]; omega

/-- `not a`, bare: `a` at level 3 after `not` (state 21), then `predicate → KW_NOT predicate`
    on every follow token (the rule has the precedence of `KW_NOT`, the highest) -/
theorem run_not_min {ta : List Token} {a : Pred} (ha : RunsAt 3 ta a) :
    RunsAt 3 (tk "KW_NOT" "not" :: ta) (.not a) := by
  intro σ rest hs _ hla hll
  obtain ⟨_, _, hNOT, hg, _, _, _⟩ := pStart_facts _ hs
  obtain ⟨_, _, _, _, _, _, h21, hm21, _⟩ := pStart_state_facts
  obtain ⟨_, _, _, h38, _, _, _, _⟩ := pred_state_facts
  obtain ⟨_, _, _, r38⟩ := pred_reduce_facts _ hla
  simp only [List.cons_append]
  apply Run.mono
  · shift hNOT
    apply Run.trans (ha (⟨21, _, _⟩ :: σ) rest h21 (by rw [topState_cons, hm21]; exact Nat.le_refl 3) hla hll)
    simp only [topState_cons]
    rw [h38]
    apply red15 r38 hg
    exact Run.refl
  · simp only [List.length_cons]; omega

/-- `predicate`, printed at any level `ℓ` with minimal parentheses (levels 1, 2, 3 occur;
    the statement is vacuous at level 0, which no start state admits) -/
theorem run_predAt : (p : Pred) → predWF p = true → ∀ ℓ, RunsAt ℓ (tokensOfPredAt ℓ p) p
  | .cmp l op r, hwf, ℓ => by
    have hwl : termWF l = true := by simp [predWF] at hwf; exact hwf.1
    have hwr : termWF r = true := by simp [predWF] at hwf; exact hwf.2
    simp only [tokensOfPredAt]
    exact run_cmp_min l op r hwl hwr ℓ
  | .or a b, hwf, ℓ => by
    have hwa : predWF a = true := by simp [predWF] at hwf; exact hwf.1
    have hwb : predWF b = true := by simp [predWF] at hwf; exact hwf.2
    simp only [tokensOfPredAt]
    exact (run_or_min (run_predAt a hwa 1) (run_predAt b hwb 2)).wrap (Nat.le_refl 1) ℓ
  | .and a b, hwf, ℓ => by
    have hwa : predWF a = true := by simp [predWF] at hwf; exact hwf.1
    have hwb : predWF b = true := by simp [predWF] at hwf; exact hwf.2
    simp only [tokensOfPredAt]
    exact (run_and_min (run_predAt a hwa 2) (run_predAt b hwb 3)).wrap (by decide) ℓ
  | .not a, hwf, ℓ => by
    have hwa : predWF a = true := by simpa [predWF] using hwf
    simp only [tokensOfPredAt]
    exact (run_not_min (run_predAt a hwa 3)).wrap (by decide) ℓ

/-- `predicate` with minimal parentheses after `if` / `elif` (states 15 / 74), before `{` -/
theorem run_predMin (p : Pred) (hwf : predWF p = true) (σ : List Entry) (rest : List Token)
    (hs : topState σ ∈ predStart) (hla : la rest ∈ Fpred0) :
    Run (3 * (tokensOfPredMin p).length) σ (tokensOfPredMin p ++ rest)
      (⟨gt (topState σ) "predicate", "predicate", .pred p⟩ :: σ) rest := by
  have hsp : topState σ ∈ pStart ∧ minLvl (topState σ) ≤ 1 := by
    revert hs; generalize topState σ = s; revert s; decide
  have hl : la rest ∈ Fpred ∧ laLvl (la rest) ≤ 1 := by
    revert hla; generalize la rest = k; revert k; decide
  exact run_predAt p hwf 1 σ rest hsp.1 hsp.2 hl.1 hl.2

/-! ### Conditionals and the experiment, over the minimal rendering -/

mutual
/-- `conditional` (minimal rendering), before a closing `RBRACE` -/
theorem run_condMin : (c : Cond) → condWF c = true →
    ∀ (σ : List Entry) (rest : List Token), topState σ ∈ condStart → la rest = "RBRACE" →
    Run (3 * (tokensOfCondMin c).length) σ (tokensOfCondMin c ++ rest)
      (⟨gt (topState σ) "conditional", "conditional", .cond c⟩ :: σ) rest
  | .ret gs, hwf, σ, rest, hs, hla => by
    obtain ⟨_, hRET, hg, hgR⟩ := condStart_facts _ hs
    obtain ⟨h16, h31, _, _, _, _, _, _, _, _⟩ := cond_state_facts
    obtain ⟨_, r14, _, r31, _, _, _, _, _⟩ := act_defaulted (la rest)
    have hne : gs ≠ [] := by
      intro h; subst h; simp [condWF] at hwf
    have hwg : groupsWF gs = true := by simp [condWF] at hwf; exact hwf.2
    simp only [tokensOfCondMin, List.cons_append]
    apply Run.mono
    · shift hRET
      apply Run.trans (run_groups gs hne hwg (⟨16, _, _⟩ :: σ) rest h16 hla)
      simp only [topState_cons]
      rw [h31]
      apply red34 r31 hgR
      apply red10 r14 hg
      exact Run.refl
    · simp only [List.length_cons]; omega
  | .ifte p t r, hwf, σ, rest, hs, hla => by
    obtain ⟨hIF, _, hg, _⟩ := condStart_facts _ hs
    obtain ⟨_, _, h15, h20, hLB, h35, h54, hRB, h67, h71⟩ := cond_state_facts
    obtain ⟨_, _, _, _, r71, _, _, _, _⟩ := act_defaulted (la rest)
    have hw : predWF p = true ∧ condWF t = true ∧ subWF r = true := by
      simp [condWF] at hwf; exact ⟨hwf.1.1, hwf.1.2, hwf.2⟩
    obtain ⟨hwp, hwt, hwr⟩ := hw
    have hk1 : la (tk "LBRACE" "{" :: (tokensOfCondMin t ++ tk "RBRACE" "}" :: (tokensOfSubMin r ++ rest))) ∈ Fpred0 := by
      show "LBRACE" ∈ Fpred0; decide
    have hk2 : la (tk "RBRACE" "}" :: (tokensOfSubMin r ++ rest)) = "RBRACE" := rfl
    simp only [tokensOfCondMin, List.cons_append, List.append_assoc]
    apply Run.mono
    · shift hIF
      apply Run.trans (run_predMin p hwp (⟨15, _, _⟩ :: σ) _ h15 hk1)
      simp only [topState_cons]
      rw [h20]
      shift hLB
      apply Run.trans (run_condMin t hwt (⟨35, _, _⟩ :: _) _ h35 hk2)
      simp only [topState_cons]
      rw [h54]
      shift hRB
      apply Run.trans (run_subMin r hwr (⟨67, _, _⟩ :: _) rest h67 hla)
      simp only [topState_cons]
      rw [h71]
      apply red11 r71 hg
      exact Run.refl
    · simp only [List.length_cons, List.length_append]; omega
/-- `subconditional` (minimal rendering), before a closing `RBRACE` -/
theorem run_subMin : (r : Sub) → subWF r = true →
    ∀ (σ : List Entry) (rest : List Token), topState σ ∈ subStart → la rest = "RBRACE" →
    Run (3 * (tokensOfSubMin r).length + 2) σ (tokensOfSubMin r ++ rest)
      (⟨gt (topState σ) "subconditional", "subconditional", .sub r⟩ :: σ) rest
  | .none, _, σ, rest, hs, hla => by
    obtain ⟨rE, hgE, hg, _, _⟩ := subStart_facts _ hs
    obtain ⟨_, _, _, _, _, r72, _, _, _⟩ := act_defaulted (la rest)
    simp only [tokensOfSubMin, List.nil_append]
    apply Run.mono
    · reduce red2 (by rw [hla]; exact rE), hgE
      apply red12 r72 hg
      exact Run.refl
    · simp
  | .else_ t, hwf, σ, rest, hs, hla => by
    obtain ⟨_, _, hg, hELSE, _⟩ := subStart_facts _ hs
    obtain ⟨hLB, h77, h79, hRB, _, _, _, _, _, _, _, _⟩ := sub_state_facts
    obtain ⟨_, _, _, _, _, _, _, r81, _⟩ := act_defaulted (la rest)
    have hwt : condWF t = true := by simpa [subWF] using hwf
    have hk2 : la (tk "RBRACE" "}" :: rest) = "RBRACE" := rfl
    simp only [tokensOfSubMin, List.cons_append, List.append_assoc, List.nil_append]
    apply Run.mono
    · shift hELSE
      shift hLB
      apply Run.trans (run_condMin t hwt (⟨77, _, _⟩ :: _) _ h77 hk2)
      simp only [topState_cons]
      rw [h79]
      shift hRB
      apply red13 r81 hg
      exact Run.refl
    · simp only [List.length_cons, List.length_append]; omega
  | .elif p t r, hwf, σ, rest, hs, hla => by
    obtain ⟨_, _, hg, _, hELIF⟩ := subStart_facts _ hs
    obtain ⟨_, _, _, _, h74, h78, hLB, h80, h82, hRB, h83, h84⟩ := sub_state_facts
    obtain ⟨_, _, _, _, _, _, _, _, r84⟩ := act_defaulted (la rest)
    have hw : predWF p = true ∧ condWF t = true ∧ subWF r = true := by
      simp [subWF] at hwf; exact ⟨hwf.1.1, hwf.1.2, hwf.2⟩
    obtain ⟨hwp, hwt, hwr⟩ := hw
    have hk1 : la (tk "LBRACE" "{" :: (tokensOfCondMin t ++ tk "RBRACE" "}" :: (tokensOfSubMin r ++ rest))) ∈ Fpred0 := by
      show "LBRACE" ∈ Fpred0; decide
    have hk2 : la (tk "RBRACE" "}" :: (tokensOfSubMin r ++ rest)) = "RBRACE" := rfl
    simp only [tokensOfSubMin, List.cons_append, List.append_assoc]
    apply Run.mono
    · shift hELIF
      apply Run.trans (run_predMin p hwp (⟨74, _, _⟩ :: σ) _ h74 hk1)
      simp only [topState_cons]
      rw [h78]
      shift hLB
      apply Run.trans (run_condMin t hwt (⟨80, _, _⟩ :: _) _ h80 hk2)
      simp only [topState_cons]
      rw [h82]
      shift hRB
      apply Run.trans (run_subMin r hwr (⟨83, _, _⟩ :: _) rest h83 hla)
      simp only [topState_cons]
      rw [h84]
      apply red14 r84 hg
      exact Run.refl
    · simp only [List.length_cons, List.length_append]; omega
end

theorem la_condMin (c : Cond) (rest : List Token) : la (tokensOfCondMin c ++ rest) ∈ Fcond := by
  cases c <;> (simp only [tokensOfCondMin, List.cons_append, la]; decide)

theorem la_splitters_condMin (o : Option (List String)) (c : Cond) (rest : List Token) :
    la (tokensOfSplitters o ++ (tokensOfCondMin c ++ rest)) ∈ Fsalt := by
  cases o with
  | none =>
    have := la_condMin c rest
    simp only [tokensOfSplitters, List.nil_append]
    revert this
    generalize la (tokensOfCondMin c ++ rest) = k
    intro hk
    simp only [Fcond, List.mem_cons, List.not_mem_nil, or_false] at hk
    rcases hk with rfl | rfl <;> decide
  | some l => simp only [tokensOfSplitters, List.cons_append, la]; decide

/-- the whole experiment (minimal rendering), from the empty stack to the accepting
    configuration -/
theorem run_experimentMin (e : Experiment) (hwf : e.WF) :
    Run (3 * (tokensOfExperimentMin e).length + 10) [] (tokensOfExperimentMin e)
      [⟨1, "header", .exp e⟩] [] := by
  obtain ⟨id, salt, sp, c⟩ := e
  obtain ⟨hDEF, hID, hgH, hLB, h9, h13, hRB, hg, _⟩ := header_facts
  have hw : splittersWF sp = true ∧ condWF c = true := by
    simpa [Experiment.WF, Experiment.wf] using hwf
  obtain ⟨hwsp, hwc⟩ := hw
  have hk2 : la [tk "RBRACE" "}"] = "RBRACE" := rfl
  simp only [tokensOfExperimentMin]
  apply Run.mono
  · shift hDEF
    shift hID
    reduce red3 (act_defaulted _).1, hgH
    shift hLB
    apply Run.trans (run_salt salt _ _ _ _ (la_splitters_condMin sp c _))
    apply Run.trans (run_splitters sp hwsp _ _ _ _ (la_condMin c _))
    apply Run.trans (run_condMin c hwc (⟨9, _, _⟩ :: _) _ h9 hk2)
    simp only [topState_cons]
    rw [h13]
    shift hRB
    reduce red1 (act_defaulted _).2.2.1, hg
    exact Run.refl
  · simp only [List.length_cons, List.length_append, List.length_nil]; omega

/-- **Completeness on renderings with minimal parentheses.** The token rendering of every
    well-formed experiment AST in which predicates carry parentheses only where precedence
    (`or < and < not`) and left associativity require them is accepted by the driver with
    the generated tables, and the AST built is exactly the one rendered. -/
theorem lrParse_tokensOfMin (e : Experiment) (hwf : e.WF) :
    lrParse Generated.lrTables (tokensOfExperimentMin e) = .ok e := by
  obtain ⟨n, hn, hf⟩ := run_experimentMin e hwf
  unfold lrParse
  have hfuel : 16 * (tokensOfExperimentMin e).length + 64
      = (16 * (tokensOfExperimentMin e).length + 64 - n - 1 + 1) + n := by omega
  rw [hfuel, hf, lrLoop_accept _ _ _ header_facts.2.2.2.2.2.2.2.2]

end Pyab.Proofs.LRC
