/-
  C08 (lexer half), part 3: the concrete rule tables extracted from the Python lexer.

  With `S := Generated.lexSpec`, in lexer state 0 (ExperimentLexer):
  * `space_neutral`: one leading white-space character (any of Python's `\s`) is invisible;
  * `lineComment_step` / `lineComment_neutral` / `lineComment_eof`: `//…` up to the line end;
  * `blockComment_neutral`: `/* … */` with any body that does not contain `*/` (newlines,
    quotes, `//`, `/*`, `*` allowed).
  All statements are about `lexC S bound st stack s`, the token list of `lexLoop` with
  sufficient fuel (see `toksOf_lexLoop_eq_lexC`).
-/
import Pyab.Proofs.TriviaLexer
import Pyab.Proofs.RuleTable
import Pyab.Generated.LexRules
namespace Pyab.Trivia
open Pyab Pyab.Re

abbrev S : LexSpec := Generated.lexSpec
abbrev T : CharTables := Generated.charTables

theorem S_prevFree : S.prevFree = true := by decide +kernel
theorem S_state0 : S.states[0]? = some Generated.lexState0 := rfl
theorem S_state1 : S.states[1]? = some Generated.lexState1 := rfl
theorem S_tables : S.tables = T := rfl

/-! ### 1. the trivia rules of the two tables, found by name -/

/-- the rule table of lexer state 0 (ExperimentLexer) -/
abbrev R0 : List LexRule := Generated.lexState0.rules
/-- the rule table of lexer state 1 (BlockComment) -/
abbrev R1 : List LexRule := Generated.lexState1.rules

/-! the shapes the proofs below expect -/
def bcs : LexRule := ⟨"BLOCK_COMMENT_START", (.seq (.lit 47) (.lit 42)), .push 1⟩
def ic : LexRule :=
  ⟨"inline_comment", (.seq (.lit 47) (.seq (.lit 47) (.rep 0 none true .any))), .ignore⟩
def nl : LexRule := ⟨"newline", (.rep 1 none true (.lit 10)), .ignore⟩
def wsr : LexRule := ⟨"ws", (.rep 1 none true (.set [.cat "space"] false)), .ignore⟩
def bce : LexRule :=
  ⟨"BLOCK_COMMENT_END", (.seq (.rep 0 none false .any) (.seq (.lit 42) (.lit 47))), .pop⟩
def bcc : LexRule := ⟨"t_block_comment_content", (.rep 1 none true .any), .ignore⟩

/-! **table obligations (a)**: the rule of each name, looked up in the actual table, has the
    expected regex and action (position-free: `ruleNamed` scans the table) -/
theorem bcs_found : ruleNamed "BLOCK_COMMENT_START" R0 = some bcs := by decide +kernel
theorem ic_found : ruleNamed "inline_comment" R0 = some ic := by decide +kernel
theorem nl_found : ruleNamed "newline" R0 = some nl := by decide +kernel
theorem ws_found : ruleNamed "ws" R0 = some wsr := by decide +kernel
theorem bce_found : ruleNamed "BLOCK_COMMENT_END" R1 = some bce := by decide +kernel
theorem bcc_found : ruleNamed "t_block_comment_content" R1 = some bcc := by decide +kernel
theorem nl1_found : ruleNamed "newline" R1 = some nl := by decide +kernel

/-! ### 2. Python's `\s` as a finite list -/

/-- `c` is a white-space character in the sense of Python's `\s` on `str` patterns -/
def isSpace (c : Char) : Bool := inRanges Generated.spaceRanges c.toNat

theorem inRanges_go_sound (rs : Array (Nat × Nat)) (c : Nat) :
    ∀ fuel lo hi, hi ≤ rs.size → inRanges.go rs c fuel lo hi = true →
      ∃ i, i < rs.size ∧ (rs[i]!).1 ≤ c ∧ c ≤ (rs[i]!).2
  | 0, _, _, _, h => by simp [inRanges.go] at h
  | fuel + 1, lo, hi, hhi, h => by
    simp only [inRanges.go] at h
    split at h
    · next hlt =>
      split at h
      · exact inRanges_go_sound rs c fuel _ _ (by omega) h
      · split at h
        · exact inRanges_go_sound rs c fuel _ _ hhi h
        · refine ⟨(lo + hi) / 2, by omega, by omega, by omega⟩
    · cases h

def spaceCodes : List Nat :=
  [9, 10, 11, 12, 13, 28, 29, 30, 31, 32, 133, 160, 5760,
   8192, 8193, 8194, 8195, 8196, 8197, 8198, 8199, 8200, 8201, 8202,
   8232, 8233, 8239, 8287, 12288]

def spaceChars : List Char := spaceCodes.map Char.ofNat

local macro "space_range" : tactic => `(tactic| (
  intro h1 h2
  simp only [spaceCodes, List.mem_cons, List.mem_nil_iff, or_false]
  omega))

theorem spaceCodes_of_range : ∀ i, i < Generated.spaceRanges.size → ∀ n,
    (Generated.spaceRanges[i]!).1 ≤ n → n ≤ (Generated.spaceRanges[i]!).2 → n ∈ spaceCodes
  | 0, _, n => by show 9 ≤ n → n ≤ 13 → _; space_range
  | 1, _, n => by show 28 ≤ n → n ≤ 32 → _; space_range
  | 2, _, n => by show 133 ≤ n → n ≤ 133 → _; space_range
  | 3, _, n => by show 160 ≤ n → n ≤ 160 → _; space_range
  | 4, _, n => by show 5760 ≤ n → n ≤ 5760 → _; space_range
  | 5, _, n => by show 8192 ≤ n → n ≤ 8202 → _; space_range
  | 6, _, n => by show 8232 ≤ n → n ≤ 8233 → _; space_range
  | 7, _, n => by show 8239 ≤ n → n ≤ 8239 → _; space_range
  | 8, _, n => by show 8287 ≤ n → n ≤ 8287 → _; space_range
  | 9, _, n => by show 12288 ≤ n → n ≤ 12288 → _; space_range
  | k + 10, h, _ => by
    have : Generated.spaceRanges.size = 10 := rfl
    omega

theorem isSpace_mem {c : Char} (h : isSpace c = true) : c ∈ spaceChars := by
  unfold isSpace inRanges at h
  obtain ⟨i, hi, h1, h2⟩ := inRanges_go_sound _ _ _ _ _ (Nat.le_refl _) h
  have := spaceCodes_of_range i hi _ h1 h2
  have hc : c = Char.ofNat c.toNat := (Char.ofNat_toNat c).symm
  rw [hc]
  exact List.mem_map_of_mem this

/-- the enumeration is exact: every listed character is a `\s` character -/
theorem spaceChars_isSpace : spaceChars.all isSpace = true := by decide +kernel

theorem isSpace_newline : isSpace '\n' = true := by decide +kernel

theorem setSpace (c : Char) :
    (([SetItem.cat "space"].any (·.test T c.toNat)) != false) = isSpace c := by
  simp [SetItem.test, CharTables.isCat, isSpace, T, Generated.charTables]

/-! ### 3. no earlier rule matches at a trivia start

  **table obligations (b)**: decidable checks over the rules that actually precede a trivia
  rule in the table (`rulesBefore`, found by scanning — no fixed count, no positions). -/

/-- every rule tried before `newline` cannot start with a line break
    (real order dependence: `ws` = `\s+` must come after `newline`) -/
theorem nl_pre_ok :
    (rulesBefore "newline" R0).all (fun r => !firstOk T r.re '\n') = true := by decide +kernel

/-- every rule tried before `ws` cannot start with a white-space character, or is `\n+` -/
theorem ws_pre_ok :
    spaceChars.all (fun c =>
      (rulesBefore "ws" R0).all (fun r => !firstOk T r.re c || r.re == nl.re)) = true := by
  decide +kernel

/-- every rule tried before `/*` cannot start with `/`, or is `//.*` -/
theorem bcs_pre_ok :
    (rulesBefore "BLOCK_COMMENT_START" R0).all
      (fun r => !firstOk T r.re '/' || r.re == ic.re) = true := by decide +kernel

/-- every rule tried before `//.*` cannot start with `/`, or is `/\*` -/
theorem ic_pre_ok :
    (rulesBefore "inline_comment" R0).all
      (fun r => !firstOk T r.re '/' || r.re == bcs.re) = true := by decide +kernel

/-- state 1: before the end rule `.*?\*/` only `\n+` may be tried
    (real order dependence: the content rule `.+` must come after it) -/
theorem bce_pre_ok : (rulesBefore "BLOCK_COMMENT_END" R1).all (fun r => r.re == nl.re) = true := by
  decide +kernel

/-- state 1: before the content rule `.+` only the end rule and `\n+` may be tried -/
theorem bcc_pre_ok :
    (rulesBefore "t_block_comment_content" R1).all
      (fun r => r.re == bce.re || r.re == nl.re) = true := by decide +kernel

/-- state 1: before `\n+` only the end rule and the content rule may be tried -/
theorem nl1_pre_ok :
    (rulesBefore "newline" R1).all (fun r => r.re == bce.re || r.re == bcc.re) = true := by
  decide +kernel

/-! ### 4. what the trivia rules match -/

theorem toNat_eq_10 {x : Char} (h : x.toNat = 10) : x = '\n' := by
  rw [← Char.ofNat_toNat x, h]

theorem toNat_eq_42 {x : Char} (h : x.toNat = 42) : x = '*' := by
  rw [← Char.ofNat_toNat x, h]

theorem toNat_eq_47 {x : Char} (h : x.toNat = 47) : x = '/' := by
  rw [← Char.ofNat_toNat x, h]

/-- `\n+` at a newline -/
theorem nl_match (bound : Nat) (prev : Option Char) (s : List Char) :
    ∃ l rest, matchPrefix T bound nl.re prev ('\n' :: s) = some (1 + l.length, rest) ∧
      s = l ++ rest ∧ ∀ x ∈ l, x = '\n' := by
  obtain ⟨l, rest, h1, h2, h3⟩ := rep1_match (P := fun x => x.toNat = 10) (lit_okP T bound 10)
    (c := '\n') (s := s) (by intro p n k; simp [m]) true prev
  exact ⟨l, rest, h1, h2, fun x hx => toNat_eq_10 (h3 x hx)⟩

/-- `\n+` anywhere else -/
theorem nl_nomatch {c : Char} (hc : c ≠ '\n') (bound : Nat) (prev : Option Char) (s : List Char) :
    matchPrefix T bound nl.re prev (c :: s) = none := by
  apply matchPrefix_none_of_firstOk
  have : c.toNat ≠ 10 := fun h => hc (toNat_eq_10 h)
  simp [nl, firstOk, this]

/-- `\s+` at a white-space character -/
theorem ws_match {c : Char} (hc : isSpace c = true) (bound : Nat) (prev : Option Char)
    (s : List Char) :
    ∃ l rest, matchPrefix T bound wsr.re prev (c :: s) = some (1 + l.length, rest) ∧
      s = l ++ rest ∧ ∀ x ∈ l, isSpace x = true := by
  obtain ⟨l, rest, h1, h2, h3⟩ := rep1_match (set_okP T bound [.cat "space"] false)
    (c := c) (s := s) (by intro p n k; simp only [m, setSpace, hc, if_true]) true prev
  exact ⟨l, rest, h1, h2, fun x hx => by rw [← setSpace]; exact h3 x hx⟩

/-! ### 5. A — white space in state 0 -/

/-- no rule tried before `newline` matches at a line break -/
theorem nl_blocked (bound : Nat) (prev : Option Char) (s : List Char) :
    ∀ r ∈ rulesBefore "newline" R0, matchPrefix T bound r.re prev ('\n' :: s) = none := by
  intro r hr
  have := rulesBefore_all nl_pre_ok r hr
  exact matchPrefix_none_of_firstOk (by simpa using this)

/-- no rule tried before `ws` matches at a white-space character other than a line break -/
theorem ws_blocked {c : Char} (hc : isSpace c = true) (hnl : c ≠ '\n') (bound : Nat)
    (prev : Option Char) (s : List Char) :
    ∀ r ∈ rulesBefore "ws" R0, matchPrefix T bound r.re prev (c :: s) = none := by
  intro r hr
  have := rulesBefore_all (List.all_eq_true.1 ws_pre_ok c (isSpace_mem hc)) r hr
  rcases Bool.or_eq_true _ _ ▸ this with h | h
  · exact matchPrefix_none_of_firstOk (by simpa using h)
  · rw [beq_iff_eq.1 h]
    exact nl_nomatch hnl bound prev s

theorem space_H (bound : Nat) : ∀ c s, isSpace c = true → ∃ r n rest lexeme,
    firstMatch S.tables bound Generated.lexState0.rules none (c :: s) = some (r, n, rest) ∧
    r.action = .ignore ∧ c :: s = lexeme ++ rest ∧ lexeme.length = n ∧ lexeme ≠ [] ∧
    ∀ x ∈ lexeme, isSpace x = true := by
  intro c s hc
  rw [S_tables]
  by_cases hnl : c = '\n'
  · subst hnl
    obtain ⟨l, rest, h1, h2, h3⟩ := nl_match bound none s
    refine ⟨nl, _, rest, '\n' :: l, firstMatch_named nl_found (nl_blocked bound none s) h1, rfl,
      by rw [h2]; rfl, by simp [Nat.add_comm], by simp, ?_⟩
    intro x hx
    rcases List.mem_cons.1 hx with rfl | hx
    · exact hc
    · rw [h3 x hx]; exact hc
  · obtain ⟨l, rest, h1, h2, h3⟩ := ws_match hc bound none s
    refine ⟨wsr, _, rest, c :: l, firstMatch_named ws_found (ws_blocked hc hnl bound none s) h1,
      rfl, by rw [h2]; rfl, by simp [Nat.add_comm], by simp, ?_⟩
    intro x hx
    rcases List.mem_cons.1 hx with rfl | hx
    · exact hc
    · exact h3 x hx

/-- **A**: one leading white-space character is invisible to the lexer (state 0) -/
theorem space_neutral (bound : Nat) (stack : List Nat) (c : Char) (s : List Char)
    (hc : isSpace c = true) : lexC S bound 0 stack (c :: s) = lexC S bound 0 stack s :=
  lexC_class_neutral S_prevFree S_state0 (fun x => isSpace x = true) (space_H bound) stack c s hc

/-- a leading run of white-space characters is invisible to the lexer (state 0) -/
theorem spaces_neutral (bound : Nat) (stack : List Nat) (l s : List Char)
    (hl : ∀ x ∈ l, isSpace x = true) : lexC S bound 0 stack (l ++ s) = lexC S bound 0 stack s :=
  lexC_class_run_neutral S_prevFree S_state0 (fun x => isSpace x = true) (space_H bound) stack l s hl

/-! ### 6. B — line comments -/

theorem bcs_nomatch_slash (bound : Nat) (prev : Option Char) (s : List Char) :
    matchPrefix T bound bcs.re prev ('/' :: '/' :: s) = none := by
  simp [matchPrefix, bcs, m]

/-- no rule tried before `//.*` matches at `//` -/
theorem ic_blocked (bound : Nat) (prev : Option Char) (s : List Char) :
    ∀ r ∈ rulesBefore "inline_comment" R0,
      matchPrefix T bound r.re prev ('/' :: '/' :: s) = none := by
  intro r hr
  have := rulesBefore_all ic_pre_ok r hr
  rcases Bool.or_eq_true _ _ ▸ this with h | h
  · exact matchPrefix_none_of_firstOk (by simpa using h)
  · rw [beq_iff_eq.1 h]
    exact bcs_nomatch_slash bound prev s

/-- `//.*` swallows the rest of the line -/
theorem ic_match (bound : Nat) (prev : Option Char) (body tail : List Char)
    (hb : ∀ x ∈ body, x ≠ '\n') (ht : LineEnd tail) (hbound : body.length ≤ bound) :
    matchPrefix T bound ic.re prev ('/' :: '/' :: (body ++ tail)) = some (2 + body.length, tail) := by
  unfold matchPrefix
  simp only [ic, m]
  have e1 : ('/'.toNat == 47) = true := by decide
  simp only [e1, if_true]
  exact repLoop_greedy_run (dotLike_any T bound) body _ 0 _ _ tail _ _ hb ht (by omega)
    (Nat.zero_le _) (fun _ => rfl)

/-- one step: a line comment up to (not including) the line end is skipped -/
theorem lineComment_step (bound : Nat) (stack : List Nat) (body tail : List Char)
    (hb : ∀ x ∈ body, x ≠ '\n') (ht : LineEnd tail) (hbound : body.length ≤ bound) :
    lexC S bound 0 stack ('/' :: '/' :: (body ++ tail)) = lexC S bound 0 stack tail := by
  have hfm : firstMatch S.tables bound Generated.lexState0.rules none ('/' :: '/' :: (body ++ tail)) =
      some (ic, 2 + body.length, tail) := by
    rw [S_tables]
    exact firstMatch_named ic_found (ic_blocked bound none _)
      (ic_match bound none body tail hb ht hbound)
  exact lexC_step_ignore S_prevFree S_state0 hfm (by omega) rfl

/-- **B**: a line comment together with its terminating newline is invisible -/
theorem lineComment_neutral (bound : Nat) (stack : List Nat) (body s : List Char)
    (hb : ∀ x ∈ body, x ≠ '\n') (hbound : body.length ≤ bound) :
    lexC S bound 0 stack ('/' :: '/' :: (body ++ '\n' :: s)) = lexC S bound 0 stack s := by
  rw [lineComment_step bound stack body ('\n' :: s) hb (Or.inr ⟨s, rfl⟩) hbound]
  exact space_neutral bound stack '\n' s isSpace_newline

/-- **B**, end of input: a final line comment without newline lexes to no tokens -/
theorem lineComment_eof (bound : Nat) (stack : List Nat) (body : List Char)
    (hb : ∀ x ∈ body, x ≠ '\n') (hbound : body.length ≤ bound) :
    lexC S bound 0 stack ('/' :: '/' :: body) = .ok [] := by
  have := lineComment_step bound stack body [] hb (Or.inl rfl) hbound
  rw [List.append_nil] at this
  rw [this, lexC_nil]

/-! ### 7. C — block comments -/

/-- the body of a block comment: does not contain the two-character sequence `*/` -/
def noClose : List Char → Bool
  | [] => true
  | x :: rest => !(x == '*' && rest.head? == some '/') && noClose rest

theorem noClose_suffix : ∀ (a b : List Char), noClose (a ++ b) = true → noClose b = true
  | [], _, h => h
  | _ :: a, b, h => by
    simp only [List.cons_append, noClose, Bool.and_eq_true] at h
    exact noClose_suffix a b h.2

/-- the `\*/` part of the end rule -/
abbrev closeRe : Re := .seq (.lit 42) (.lit 47)

theorem close_hit (bound : Nat) (q : Option Char) (n : Nat) (s : List Char) (k : K) :
    m T bound closeRe q n ('*' :: '/' :: s) k = k (some '/') (n + 1 + 1) s := by
  have e1 : ('*'.toNat == 42) = true := by decide
  have e2 : ('/'.toNat == 47) = true := by decide
  simp only [m, e1, e2, if_true]

theorem close_fail_nl (bound : Nat) (q : Option Char) (n : Nat) (s : List Char) (k : K) :
    m T bound closeRe q n ('\n' :: s) k = none := by
  have e1 : ('\n'.toNat == 42) = false := by decide
  simp [m]

theorem close_fail_nil (bound : Nat) (q : Option Char) (n : Nat) (k : K) :
    m T bound closeRe q n [] k = none := by
  simp [m]

theorem close_fail_lineEnd (bound : Nat) (q : Option Char) (n : Nat) {tail : List Char}
    (ht : LineEnd tail) (k : K) : m T bound closeRe q n tail k = none := by
  rcases ht with rfl | ⟨tl, rfl⟩
  · exact close_fail_nil bound q n k
  · exact close_fail_nl bound q n tl k

/-- inside a body without `*/`, followed by the real `*/`, the end marker matches nowhere -/
theorem close_fail (bound : Nat) {x : Char} {w : List Char} (h : noClose (x :: w) = true)
    (q : Option Char) (n : Nat) (s : List Char) (k : K) :
    m T bound closeRe q n (x :: (w ++ '*' :: '/' :: s)) k = none := by
  simp only [m]
  split
  · next hx =>
    have hx' : x = '*' := toNat_eq_42 (by simpa using hx)
    subst hx'
    cases w with
    | nil =>
      simp
    | cons y w' =>
      simp only [List.cons_append]
      split
      · next hy =>
        have hy' : y = '/' := toNat_eq_47 (by simpa using hy)
        subst hy'
        simp [noClose] at h
      · rfl
  · rfl

/-- the end rule `.*?\*/` on a last line: consumes through the first (= the real) `*/` -/
theorem bce_hit (bound : Nat) (prev : Option Char) (u s : List Char)
    (hl : ∀ x ∈ u, x ≠ '\n') (hc : noClose u = true) (hbound : u.length ≤ bound) :
    matchPrefix T bound bce.re prev (u ++ '*' :: '/' :: s) = some (u.length + 2, s) := by
  unfold matchPrefix
  rw [show bce.re = .seq (.rep 0 none false .any) closeRe from rfl, m_seq_eq, m_rep_eq]
  refine repLoop_lazy_hit (dotLike_any T bound) u _ _ _ _ _ _ hl (by omega) ?_ ?_
  · intro a b q hab hb
    cases b with
    | nil => exact absurd rfl hb
    | cons x b' =>
      have hcb : noClose (x :: b') = true := noClose_suffix a _ (hab ▸ hc)
      exact close_fail bound hcb q _ s _
  · intro q
    rw [close_hit]
    simp

/-- the end rule on a line that is not the last one of the comment: no match -/
theorem bce_miss (bound : Nat) (prev : Option Char) (line u2 s : List Char)
    (hl : ∀ x ∈ line, x ≠ '\n') (hc : noClose (line ++ '\n' :: u2) = true) :
    matchPrefix T bound bce.re prev (line ++ '\n' :: (u2 ++ '*' :: '/' :: s)) = none := by
  unfold matchPrefix
  rw [show bce.re = .seq (.rep 0 none false .any) closeRe from rfl, m_seq_eq, m_rep_eq]
  refine repLoop_lazy_miss (dotLike_any T bound) line _ _ _ _ _ hl (Or.inr ⟨_, rfl⟩) ?_
  intro a b q hab
  cases b with
  | nil => exact close_fail_nl bound q _ _ _
  | cons x b' =>
    have hcb : noClose (x :: (b' ++ '\n' :: u2)) = true := by
      apply noClose_suffix a
      rw [← List.cons_append, ← List.append_assoc, ← hab]
      exact hc
    have := close_fail bound hcb q (0 + a.length) s (fun _ n rest => some (n, rest))
    simpa [List.append_assoc] using this

/-- the content rule `.+` swallows a non-empty rest of line -/
theorem bcc_match (bound : Nat) (prev : Option Char) (line tail : List Char)
    (hl : ∀ x ∈ line, x ≠ '\n') (hne : line ≠ []) (ht : LineEnd tail)
    (hbound : line.length ≤ bound) :
    matchPrefix T bound bcc.re prev (line ++ tail) = some (line.length, tail) := by
  unfold matchPrefix
  rw [show bcc.re = .rep 1 none true .any from rfl, m_rep_eq]
  have h1 : 1 ≤ line.length := by
    cases line with
    | nil => exact absurd rfl hne
    | cons _ _ => simp
  have := repLoop_greedy_run (dotLike_any T bound) line (bound + 1 + 2) 1 prev 0 tail
    (fun _ n rest => some (n, rest)) (0 + line.length, tail) hl ht (by omega) h1 (fun _ => rfl)
  simpa using this

theorem bcc_nomatch_nl (bound : Nat) (prev : Option Char) (s : List Char) :
    matchPrefix T bound bcc.re prev ('\n' :: s) = none :=
  matchPrefix_none_of_firstOk (by decide)

/-- newlines inside a block comment are skipped one run at a time -/
theorem nl1_H (bound : Nat) : ∀ c s, c = '\n' → ∃ r n rest lexeme,
    firstMatch S.tables bound Generated.lexState1.rules none (c :: s) = some (r, n, rest) ∧
    r.action = .ignore ∧ c :: s = lexeme ++ rest ∧ lexeme.length = n ∧ lexeme ≠ [] ∧
    ∀ x ∈ lexeme, x = '\n' := by
  intro c s hc
  subst hc
  obtain ⟨l, rest, h1, h2, h3⟩ := nl_match bound none s
  have hmiss : matchPrefix T bound bce.re none ('\n' :: s) = none := by
    unfold matchPrefix
    rw [show bce.re = .seq (.rep 0 none false .any) closeRe from rfl, m_seq_eq, m_rep_eq]
    refine repLoop_lazy_miss (dotLike_any T bound) [] _ _ _ ('\n' :: s) _ (by simp)
      (Or.inr ⟨_, rfl⟩) ?_
    intro a b q hab
    have hb : b = [] := by
      cases b with
      | nil => rfl
      | cons _ _ => cases a <;> simp at hab
    subst hb
    exact close_fail_nl bound q _ _ _
  have hpre : ∀ r ∈ rulesBefore "newline" R1, matchPrefix T bound r.re none ('\n' :: s) = none := by
    intro r hr
    have := rulesBefore_all nl1_pre_ok r hr
    rcases Bool.or_eq_true _ _ ▸ this with h | h
    · rw [beq_iff_eq.1 h]; exact hmiss
    · rw [beq_iff_eq.1 h]; exact bcc_nomatch_nl bound none s
  rw [S_tables]
  refine ⟨nl, _, rest, '\n' :: l, firstMatch_named nl1_found hpre h1, rfl, by rw [h2]; rfl,
    by simp [Nat.add_comm], by simp, ?_⟩
  intro x hx
  rcases List.mem_cons.1 hx with rfl | hx
  · rfl
  · exact h3 x hx

theorem nl1_neutral (bound : Nat) (stack : List Nat) (s : List Char) :
    lexC S bound 1 stack ('\n' :: s) = lexC S bound 1 stack s :=
  lexC_class_neutral S_prevFree S_state1 (fun x => x = '\n') (nl1_H bound) stack '\n' s rfl

/-- split a text at its first newline -/
theorem split_line : ∀ (u : List Char), ∃ line tail, u = line ++ tail ∧
    (∀ x ∈ line, x ≠ '\n') ∧ (tail = [] ∨ ∃ u2, tail = '\n' :: u2)
  | [] => ⟨[], [], rfl, by simp, Or.inl rfl⟩
  | x :: u => by
    by_cases hx : x = '\n'
    · exact ⟨[], x :: u, rfl, by simp, Or.inr ⟨u, by rw [hx]⟩⟩
    · obtain ⟨line, tail, h1, h2, h3⟩ := split_line u
      refine ⟨x :: line, tail, by rw [h1]; rfl, ?_, h3⟩
      intro y hy
      rcases List.mem_cons.1 hy with rfl | hy
      · exact hx
      · exact h2 y hy

/-- the opening `/*` switches to the block-comment state -/
theorem blockComment_open (bound : Nat) (stack : List Nat) (w : List Char) :
    lexC S bound 0 stack ('/' :: '*' :: w) = lexC S bound 1 (0 :: stack) w := by
  have hm : matchPrefix T bound bcs.re none ('/' :: '*' :: w) = some (2, w) := by
    simp [matchPrefix, bcs, m]
  have hfm : firstMatch S.tables bound Generated.lexState0.rules none ('/' :: '*' :: w) =
      some (bcs, 2, w) := by
    have hic : matchPrefix T bound ic.re none ('/' :: '*' :: w) = none := by
      simp [matchPrefix, ic, m]
    have hpre : ∀ r ∈ rulesBefore "BLOCK_COMMENT_START" R0,
        matchPrefix T bound r.re none ('/' :: '*' :: w) = none := by
      intro r hr
      have := rulesBefore_all bcs_pre_ok r hr
      rcases Bool.or_eq_true _ _ ▸ this with h | h
      · exact matchPrefix_none_of_firstOk (by simpa using h)
      · rw [beq_iff_eq.1 h]; exact hic
    rw [S_tables]
    exact firstMatch_named bcs_found hpre hm
  exact lexC_step_push S_prevFree S_state0 hfm (by omega) rfl

/-- inside the block-comment state: everything up to and including the first `*/` is skipped
    and the lexer is back in the state below -/
theorem blockComment_inner (bound st0 : Nat) (stack : List Nat) (s : List Char) :
    ∀ (N : Nat) (u : List Char), u.length < N → noClose u = true → u.length ≤ bound →
      lexC S bound 1 (st0 :: stack) (u ++ '*' :: '/' :: s) = lexC S bound st0 stack s
  | 0, _, h, _, _ => by omega
  | N + 1, u, hN, hc, hbound => by
    obtain ⟨line, tail, hu, hl, htail⟩ := split_line u
    rcases htail with rfl | ⟨u2, rfl⟩
    · -- last line of the comment: the end rule fires
      rw [List.append_nil] at hu
      subst hu
      have hm := bce_hit bound none u s hl hc hbound
      have hne : u ++ '*' :: '/' :: s ≠ [] := by simp
      obtain ⟨c, cs, hcs⟩ : ∃ c cs, u ++ '*' :: '/' :: s = c :: cs := by
        cases h : u ++ '*' :: '/' :: s with
        | nil => exact absurd h hne
        | cons c cs => exact ⟨c, cs, rfl⟩
      rw [hcs] at hm ⊢
      have hcnl : c ≠ '\n' := by
        cases u with
        | nil =>
          simp only [List.nil_append, List.cons.injEq] at hcs
          rw [← hcs.1]
          decide
        | cons x u' =>
          simp only [List.cons_append, List.cons.injEq] at hcs
          rw [← hcs.1]
          exact hl x List.mem_cons_self
      have hpre : ∀ r ∈ rulesBefore "BLOCK_COMMENT_END" R1,
          matchPrefix T bound r.re none (c :: cs) = none := by
        intro r hr
        have := rulesBefore_all bce_pre_ok r hr
        rw [beq_iff_eq.1 this]
        exact nl_nomatch hcnl bound none cs
      have hfm : firstMatch S.tables bound Generated.lexState1.rules none (c :: cs) =
          some (bce, u.length + 2, s) := by
        rw [S_tables]
        exact firstMatch_named bce_found hpre hm
      exact lexC_step_pop S_prevFree S_state1 hfm (by omega) rfl
    · subst hu
      cases line with
      | nil =>
        -- an empty line: the newline run is skipped
        simp only [List.nil_append, List.cons_append] at hc hN hbound ⊢
        rw [nl1_neutral]
        exact blockComment_inner bound st0 stack s N u2 (by simp at hN; omega)
          (noClose_suffix ['\n'] u2 hc) (by simp at hbound; omega)
      | cons x l' =>
        -- a non-final line: the end rule misses, `.+` takes the line
        have hmiss : matchPrefix T bound bce.re none
            (x :: (l' ++ '\n' :: (u2 ++ '*' :: '/' :: s))) = none :=
          bce_miss bound none (x :: l') u2 s hl hc
        have hlen : (x :: l').length ≤ bound := by
          simp only [List.length_append, List.length_cons] at hbound ⊢
          omega
        have hcont : matchPrefix T bound bcc.re none
            (x :: (l' ++ '\n' :: (u2 ++ '*' :: '/' :: s))) =
            some ((x :: l').length, '\n' :: (u2 ++ '*' :: '/' :: s)) :=
          bcc_match bound none (x :: l') ('\n' :: (u2 ++ '*' :: '/' :: s)) hl
            (by simp) (Or.inr ⟨_, rfl⟩) hlen
        have hassoc : (x :: l' ++ '\n' :: u2) ++ '*' :: '/' :: s =
            x :: (l' ++ '\n' :: (u2 ++ '*' :: '/' :: s)) := by simp
        rw [hassoc]
        have hfm : firstMatch S.tables bound Generated.lexState1.rules none
            (x :: (l' ++ '\n' :: (u2 ++ '*' :: '/' :: s))) =
            some (bcc, (x :: l').length, '\n' :: (u2 ++ '*' :: '/' :: s)) := by
          have hxnl : x ≠ '\n' := hl x List.mem_cons_self
          have hpre : ∀ r ∈ rulesBefore "t_block_comment_content" R1,
              matchPrefix T bound r.re none (x :: (l' ++ '\n' :: (u2 ++ '*' :: '/' :: s))) = none := by
            intro r hr
            have := rulesBefore_all bcc_pre_ok r hr
            rcases Bool.or_eq_true _ _ ▸ this with h | h
            · rw [beq_iff_eq.1 h]; exact hmiss
            · rw [beq_iff_eq.1 h]; exact nl_nomatch hxnl bound none _
          rw [S_tables]
          exact firstMatch_named bcc_found hpre hcont
        rw [lexC_step_ignore S_prevFree S_state1 hfm (by simp) rfl]
        have := blockComment_inner bound st0 stack s N ('\n' :: u2)
          (by simp at hN ⊢; omega) (noClose_suffix (x :: l') _ hc)
          (by simp at hbound ⊢; omega)
        simpa using this

/-- **C**: a block comment `/* body */` whose body does not contain `*/` is invisible -/
theorem blockComment_neutral (bound : Nat) (stack : List Nat) (body s : List Char)
    (hc : noClose body = true) (hbound : body.length ≤ bound) :
    lexC S bound 0 stack ('/' :: '*' :: (body ++ '*' :: '/' :: s)) = lexC S bound 0 stack s := by
  rw [blockComment_open]
  exact blockComment_inner bound 0 stack s (body.length + 1) body (Nat.lt_succ_self _) hc hbound

end Pyab.Trivia
