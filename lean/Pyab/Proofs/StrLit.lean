/-
  C05/C13 core lemma: `repr()` text is read back by Python's short-string-literal
  scanner as exactly the original string, consuming exactly that text.

  Side condition (visible in `scan_repr`): when `s = []` the rendered text is `''`;
  if the following text starts with another `'`, Python (and `pyScanStr`) sees the
  opening of a triple-quoted string `'''` and the round trip fails
  (`scan_repr_nil_quote` below proves the failure, so the hypothesis is exactly
  necessary and sufficient).  For `s ≠ []` nothing is required of `rest`.
-/
import Pyab.Model.PyStrLit
namespace Pyab.Proofs
open Pyab Pyab.PyStrLit

/-! ### hex digits -/

theorem hexVal_hexDigit : ∀ d, d < 16 → hexVal (hexDigit d) = some d := by decide

/-- one step of `hexN`'s fold -/
def hexStep (acc : Option Nat) (c : Char) : Option Nat :=
  match acc, hexVal c with
  | some a, some v => some (a * 16 + v)
  | _, _ => none

theorem hexN_eq (cs : List Char) : hexN cs = cs.foldl hexStep (some 0) := rfl

theorem foldl_hexFixed (w : Nat) : ∀ (a n : Nat), n < 16 ^ w →
    (hexFixed w n).foldl hexStep (some a) = some (a * 16 ^ w + n) := by
  induction w with
  | zero => intro a n h; simp at h; simp [hexFixed, h]
  | succ w ih =>
    intro a n h
    have h1 : n / 16 < 16 ^ w := by
      rw [Nat.pow_succ] at h; omega
    rw [hexFixed, List.foldl_append, ih a _ h1]
    simp only [List.foldl_cons, List.foldl_nil, hexStep, hexVal_hexDigit (n % 16) (Nat.mod_lt _ (by decide))]
    rw [Nat.pow_succ, ← Nat.mul_assoc]
    generalize a * 16 ^ w = k
    congr 1; omega

theorem hexN_hexFixed (w n : Nat) (h : n < 16 ^ w) : hexN (hexFixed w n) = some n := by
  rw [hexN_eq, foldl_hexFixed w 0 n h]; simp

/-! ### `scanBody` computation lemmas -/

/-- prepend a decoded character to a scan result -/
def consFst (c : Char) : Option (List Char × List Char) → Option (List Char × List Char) :=
  Option.map fun (b, r) => (c :: b, r)

theorem scanBody_x (q h1 h2 s v) (h : hexN [h1, h2] = some v) :
    scanBody q ('\\' :: 'x' :: h1 :: h2 :: s) = consFst (Char.ofNat v) (scanBody q s) := by
  rw [scanBody, h]; rfl

theorem scanBody_u (q h1 h2 h3 h4 s v) (h : hexN [h1, h2, h3, h4] = some v)
    (hv : ¬ (0xD800 ≤ v ∧ v ≤ 0xDFFF)) :
    scanBody q ('\\' :: 'u' :: h1 :: h2 :: h3 :: h4 :: s) = consFst (Char.ofNat v) (scanBody q s) := by
  rw [scanBody, h]; simp [consFst]; omega

theorem scanBody_U (q h1 h2 h3 h4 h5 h6 h7 h8 s v) (h : hexN [h1, h2, h3, h4, h5, h6, h7, h8] = some v)
    (hv : ¬ (0xD800 ≤ v ∧ v ≤ 0xDFFF)) (hv2 : v ≤ 0x10FFFF) :
    scanBody q ('\\' :: 'U' :: h1 :: h2 :: h3 :: h4 :: h5 :: h6 :: h7 :: h8 :: s) = consFst (Char.ofNat v) (scanBody q s) := by
  rw [scanBody, h]; simp [consFst]; omega

theorem scanBody_plain (q c s) (h : c ≠ '\\') : scanBody q (c :: s) =
    if c == q then some ([], s)
    else if c == '\n' || c == '\r' || c == '\\' then none
    else consFst c (scanBody q s) := by
  rw [scanBody]
  all_goals simp_all [consFst]

theorem scanBody_bs_bs (q s) : scanBody q ('\\' :: '\\' :: s) = consFst '\\' (scanBody q s) := by
  rw [scanBody]; rfl
  all_goals simp
theorem scanBody_bs_sq (q s) : scanBody q ('\\' :: '\'' :: s) = consFst '\'' (scanBody q s) := by
  rw [scanBody]; rfl
  all_goals simp
theorem scanBody_bs_dq (q s) : scanBody q ('\\' :: '"' :: s) = consFst '"' (scanBody q s) := by
  rw [scanBody]; rfl
  all_goals simp
theorem scanBody_bs_n (q s) : scanBody q ('\\' :: 'n' :: s) = consFst '\n' (scanBody q s) := by
  rw [scanBody]; rfl
  all_goals simp
theorem scanBody_bs_t (q s) : scanBody q ('\\' :: 't' :: s) = consFst '\t' (scanBody q s) := by
  rw [scanBody]; rfl
  all_goals simp
theorem scanBody_bs_r (q s) : scanBody q ('\\' :: 'r' :: s) = consFst '\r' (scanBody q s) := by
  rw [scanBody]; rfl
  all_goals simp

theorem hexFixed_two (n) : hexFixed 2 n = [hexDigit (n / 16 % 16), hexDigit (n % 16)] := by
  simp [hexFixed]
theorem hexFixed_four (n) : hexFixed 4 n =
    [hexDigit (n / 16 / 16 / 16 % 16), hexDigit (n / 16 / 16 % 16), hexDigit (n / 16 % 16), hexDigit (n % 16)] := by
  simp [hexFixed]
theorem hexFixed_eight (n) : hexFixed 8 n =
    [hexDigit (n / 16 / 16 / 16 / 16 / 16 / 16 / 16 % 16), hexDigit (n / 16 / 16 / 16 / 16 / 16 / 16 % 16),
     hexDigit (n / 16 / 16 / 16 / 16 / 16 % 16), hexDigit (n / 16 / 16 / 16 / 16 % 16),
     hexDigit (n / 16 / 16 / 16 % 16), hexDigit (n / 16 / 16 % 16), hexDigit (n / 16 % 16), hexDigit (n % 16)] := by
  simp [hexFixed]

theorem scanBody_hex2 (q : Char) (c : Char) (tail) (h : c.toNat < 256) :
    scanBody q ('\\' :: 'x' :: hexFixed 2 c.toNat ++ tail) = consFst c (scanBody q tail) := by
  have hh := hexN_hexFixed 2 c.toNat (by simpa using h)
  rw [hexFixed_two] at hh ⊢
  simp only [List.cons_append, List.nil_append]
  rw [scanBody_x _ _ _ _ _ hh, Char.ofNat_toNat]

theorem scanBody_hex4 (q : Char) (c : Char) (tail) (h : c.toNat < 65536) :
    scanBody q ('\\' :: 'u' :: hexFixed 4 c.toNat ++ tail) = consFst c (scanBody q tail) := by
  have hh := hexN_hexFixed 4 c.toNat (by simpa using h)
  rw [hexFixed_four] at hh ⊢
  simp only [List.cons_append, List.nil_append]
  rw [scanBody_u _ _ _ _ _ _ _ hh (by
    have : c.toNat < 0xd800 ∨ (0xdfff < c.toNat ∧ c.toNat < 0x110000) := c.valid
    omega), Char.ofNat_toNat]

theorem scanBody_hex8 (q : Char) (c : Char) (tail) :
    scanBody q ('\\' :: 'U' :: hexFixed 8 c.toNat ++ tail) = consFst c (scanBody q tail) := by
  have hv : c.toNat < 0xd800 ∨ (0xdfff < c.toNat ∧ c.toNat < 0x110000) := c.valid
  have hh := hexN_hexFixed 8 c.toNat (by simp only [Nat.reducePow]; omega)
  rw [hexFixed_eight] at hh ⊢
  simp only [List.cons_append, List.nil_append]
  rw [scanBody_U _ _ _ _ _ _ _ _ _ _ _ hh (by omega) (by omega), Char.ofNat_toNat]

theorem scanBody_escape (p : Nat → Bool) (q c : Char) (tail : List Char) (hq : q = '\'' ∨ q = '"') :
    scanBody q (escapeChar p q c ++ tail) = consFst c (scanBody q tail) := by
  unfold escapeChar
  simp only []
  by_cases h1 : (c == q || c == '\\') = true
  · rw [if_pos h1]
    simp only [Bool.or_eq_true, beq_iff_eq] at h1
    simp only [List.cons_append, List.nil_append]
    rcases h1 with h1 | h1
    · subst h1; rcases hq with hq | hq <;> subst hq
      · exact scanBody_bs_sq _ _
      · exact scanBody_bs_dq _ _
    · subst h1; exact scanBody_bs_bs _ _
  rw [if_neg h1]
  simp only [Bool.or_eq_true, beq_iff_eq, not_or] at h1
  by_cases h2 : (c == '\t') = true
  · rw [if_pos h2]; simp only [beq_iff_eq] at h2; subst h2; exact scanBody_bs_t _ _
  rw [if_neg h2]
  by_cases h3 : (c == '\n') = true
  · rw [if_pos h3]; simp only [beq_iff_eq] at h3; subst h3; exact scanBody_bs_n _ _
  rw [if_neg h3]
  by_cases h4 : (c == '\r') = true
  · rw [if_pos h4]; simp only [beq_iff_eq] at h4; subst h4; exact scanBody_bs_r _ _
  rw [if_neg h4]
  simp only [beq_iff_eq] at h2 h3 h4
  have plain : scanBody q ([c] ++ tail) = consFst c (scanBody q tail) := by
    simp only [List.cons_append, List.nil_append]
    rw [scanBody_plain _ _ _ h1.2]
    simp [h1.1, h1.2, h3, h4]
  by_cases h5 : (decide (c.toNat < 32) || c.toNat == 127) = true
  · rw [if_pos h5]
    simp only [Bool.or_eq_true, decide_eq_true_eq, beq_iff_eq] at h5
    exact scanBody_hex2 _ _ _ (by omega)
  rw [if_neg h5]
  by_cases h6 : c.toNat < 127
  · rw [if_pos h6]; exact plain
  rw [if_neg h6]
  by_cases h7 : p c.toNat = true
  · rw [if_pos h7]; exact plain
  rw [if_neg h7]
  by_cases h8 : c.toNat ≤ 255
  · rw [if_pos h8]; exact scanBody_hex2 _ _ _ (by omega)
  rw [if_neg h8]
  by_cases h9 : c.toNat ≤ 65535
  · rw [if_pos h9]; exact scanBody_hex4 _ _ _ (by omega)
  rw [if_neg h9]
  exact scanBody_hex8 _ _ _

theorem chooseQuote_isQuote (s : List Char) : chooseQuote s = '\'' ∨ chooseQuote s = '"' := by
  unfold chooseQuote; split <;> simp

theorem quote_ne_bs {q : Char} (hq : q = '\'' ∨ q = '"') : q ≠ '\\' := by
  rcases hq with h | h <;> subst h <;> decide

theorem scanBody_body (p : Nat → Bool) (q : Char) (hq : q = '\'' ∨ q = '"') (s rest : List Char) :
    scanBody q (s.flatMap (escapeChar p q) ++ q :: rest) = some (s, rest) := by
  induction s with
  | nil =>
    simp only [List.flatMap_nil, List.nil_append]
    rw [scanBody_plain _ _ _ (quote_ne_bs hq)]; simp
  | cons c s ih =>
    rw [List.flatMap_cons, List.append_assoc, scanBody_escape p q c _ hq, ih]; rfl

theorem escapeChar_head (p : Nat → Bool) (q c : Char) (hq : q = '\'' ∨ q = '"') :
    ∃ h t, escapeChar p q c = h :: t ∧ h ≠ q := by
  have hb := quote_ne_bs hq
  unfold escapeChar
  simp only []
  by_cases h1 : (c == q || c == '\\') = true
  · rw [if_pos h1]; exact ⟨_, _, rfl, hb.symm⟩
  rw [if_neg h1]
  simp only [Bool.or_eq_true, beq_iff_eq, not_or] at h1
  repeat' split
  all_goals first | exact ⟨_, _, rfl, hb.symm⟩ | exact ⟨_, _, rfl, h1.1⟩

theorem pyScanStr_short (q : Char) (hq : q = '\'' ∨ q = '"') (body : List Char)
    (h : ∀ t, body ≠ q :: q :: t) :
    pyScanStr (q :: body) = (scanBody q body).map fun (b, r) => (String.ofList b, r) := by
  have hq' : (q == '\'' || q == '"') = true := by
    rcases hq with h | h <;> subst h <;> decide
  unfold pyScanStr
  simp only [hq', if_true]
  split
  · rename_i q2 q3 t
    by_cases hc : (q2 == q && q3 == q) = true
    · simp only [Bool.and_eq_true, beq_iff_eq] at hc
      exact absurd (by rw [hc.1, hc.2]) (h t)
    · rw [if_neg hc]
  · rfl

/-! ### main theorem -/

/-- the text `repr()` emits for `s` is read back by Python's literal scanner as exactly `s`,
    consuming exactly that text — for every string, every `printable` classification, and
    whatever follows, except Python's triple-quote corner: the empty string renders as `''`,
    and `''` directly followed by `'` opens a triple-quoted literal.  `hrest` is decidable and
    is the weakest possible side condition (see `scan_repr_nil_quote`). -/
theorem scan_repr (printable : Nat → Bool) (s : List Char) (rest : List Char)
    (hrest : s = [] → rest.head? ≠ some '\'') :
    pyScanStr (pyReprChars printable s ++ rest) = some (String.ofList s, rest) := by
  have hq := chooseQuote_isQuote s
  unfold pyReprChars
  simp only [List.cons_append, List.append_assoc, List.nil_append]
  rw [pyScanStr_short _ hq, scanBody_body printable _ hq]; rfl
  intro t ht
  cases s with
  | nil =>
    simp only [List.flatMap_nil, List.nil_append, List.cons.injEq, true_and] at ht
    apply hrest rfl
    rw [ht]; rfl
  | cons c s' =>
    obtain ⟨h, t', he, hne⟩ := escapeChar_head printable (chooseQuote (c :: s')) c hq
    rw [List.flatMap_cons, he] at ht
    simp only [List.cons_append, List.cons.injEq] at ht
    exact hne ht.1

/-- the side condition of `scan_repr` cannot be dropped: `repr("")` followed by `'` is the
    opening of a triple-quoted string, which `pyScanStr` rejects -/
theorem scan_repr_nil_quote (printable : Nat → Bool) (rest : List Char) :
    pyScanStr (pyReprChars printable [] ++ '\'' :: rest) = none := by
  simp [pyReprChars, chooseQuote, pyScanStr]

/-- nothing after the literal: no side condition -/
theorem scan_repr_nil_rest (printable : Nat → Bool) (s : List Char) :
    pyScanStr (pyReprChars printable s ++ []) = some (String.ofList s, []) :=
  scan_repr printable s [] (fun _ => by simp)

/-- the literal is followed by any character other than `'` (in particular any non-quote
    character: `)`, `,`, space, `]`, `+`, …) -/
theorem scan_repr_cons_rest (printable : Nat → Bool) (s : List Char) (c : Char) (rest : List Char)
    (hc : c ≠ '\'') :
    pyScanStr (pyReprChars printable s ++ c :: rest) = some (String.ofList s, c :: rest) :=
  scan_repr printable s (c :: rest) (fun _ => by simpa using hc)

/-- non-empty strings: no side condition on what follows -/
theorem scan_repr_ne_nil (printable : Nat → Bool) (s : List Char) (rest : List Char) (hs : s ≠ []) :
    pyScanStr (pyReprChars printable s ++ rest) = some (String.ofList s, rest) :=
  scan_repr printable s rest (fun h => absurd h hs)

end Pyab.Proofs
