import Pyab.Model.PyStrLit
namespace Pyab.Proofs
open Pyab Pyab.PyStrLit

/-- the text `repr()` emits for `s` is read back by Python's literal scanner as exactly `s`,
    consuming exactly that text — for every string, every `printable` classification, and
    whatever follows -/
theorem scan_repr (printable : Nat → Bool) (s : List Char) (rest : List Char) :
    pyScanStr (pyReprChars printable s ++ rest) = some (String.ofList s, rest) := by
  sorry

end Pyab.Proofs
