/-
  Proofs about the interleaving model `Pyab.Model.Sched`:
  * `isolated_on` / `noninterference` — a thread whose loads stay inside a region nobody
    else writes behaves, under EVERY schedule, exactly as it does alone;
  * `shared_invariant` / `publish_atomic` — a location written only with values from `S`
    only ever holds (and any load of it only ever returns) a value from `S`.
-/
import Pyab.Model.Sched
namespace Pyab.Sched

/-! ## list helpers -/

theorem rev_ind {α} {P : List α → Prop} (nil : P [])
    (snoc : ∀ l a, P l → P (l ++ [a])) : ∀ l, P l := by
  intro l
  rw [← List.reverse_reverse l]
  induction l.reverse with
  | nil => exact nil
  | cons a t ih => rw [List.reverse_cons]; exact snoc _ _ ih

/-! ## single instructions -/

theorem execInstr_prog_sub (mem regs rest i) :
    ∀ j ∈ (execInstr mem regs rest i).2.prog, j ∈ rest := by
  intro j hj
  cases i <;> simp only [execInstr] at hj <;> try exact hj
  split at hj
  · exact List.mem_of_mem_drop hj
  · exact hj

theorem execInstr_length (mem regs rest i) :
    (execInstr mem regs rest i).2.prog.length ≤ rest.length := by
  cases i <;> simp only [execInstr] <;> try exact Nat.le_refl _
  split
  · rw [List.length_drop]; exact Nat.sub_le _ _
  · exact Nat.le_refl _

/-- the thread-state part of a step depends on memory only through the loaded location,
    and the memory effect is the same store -/
theorem execInstr_agree (A : Loc → Bool) (m1 m2 : Mem) (regs rest i)
    (hi : Instr.loadOk A i = true) (hA : AgreeOn A m1 m2) :
    (execInstr m1 regs rest i).2 = (execInstr m2 regs rest i).2 ∧
    AgreeOn A (execInstr m1 regs rest i).1 (execInstr m2 regs rest i).1 := by
  cases i with
  | load r l =>
      simp only [Instr.loadOk] at hi
      simp only [execInstr, hA l hi]
      exact ⟨trivial, hA⟩
  | store l r =>
      refine ⟨rfl, ?_⟩
      intro l' hl'
      simp only [execInstr, setMem]
      split
      · rfl
      · exact hA l' hl'
  | op d f a b => exact ⟨rfl, hA⟩
  | const d v => exact ⟨rfl, hA⟩
  | jz r n => exact ⟨rfl, hA⟩

/-- a step that does not store into `A` leaves `A` unchanged -/
theorem execInstr_frame (A : Loc → Bool) (mem : Mem) (regs rest i)
    (hi : Instr.storeOk (fun l => !A l) i = true) :
    AgreeOn A (execInstr mem regs rest i).1 mem := by
  intro l hl
  cases i with
  | store l' r =>
      simp only [Instr.storeOk] at hi
      simp only [execInstr, setMem]
      split
      · next h => subst h; simp [hl] at hi
      · rfl
  | load r l' => rfl
  | op d f a b => rfl
  | const d v => rfl
  | jz r n => rfl

/-- the memory effect of a step is exactly its store event -/
theorem execInstr_mem (mem : Mem) (regs rest i) (g : Loc) :
    (execInstr mem regs rest i).1 g = mem g ∨
    ∃ v, storeEvent ⟨i :: rest, regs⟩ = some (g, v) ∧ (execInstr mem regs rest i).1 g = v := by
  cases i with
  | store l' r =>
      by_cases h : g = l'
      · subst h; right; exact ⟨regs r, rfl, by simp [execInstr, setMem]⟩
      · left; simp [execInstr, setMem, h]
  | load r l' => left; rfl
  | op d f a b => left; rfl
  | const d v => left; rfl
  | jz r n => left; rfl

/-! ## running alone -/

theorem stepAlone_nil {s : Mem × ThreadState} (h : s.2.prog = []) : stepAlone s = s := by
  simp [stepAlone, stepThread, h]

theorem stepAlone_cons {s : Mem × ThreadState} {i rest} (h : s.2.prog = i :: rest) :
    stepAlone s = execInstr s.1 s.2.regs rest i := by
  simp [stepAlone, stepThread, h]

theorem stepsAlone_nil {s : Mem × ThreadState} (h : s.2.prog = []) : ∀ n, stepsAlone n s = s := by
  intro n
  induction n with
  | zero => rfl
  | succ n ih => rw [stepsAlone, stepAlone_nil h, ih]

theorem stepsAlone_add (a b : Nat) (s) : stepsAlone (a + b) s = stepsAlone b (stepsAlone a s) := by
  induction a generalizing s with
  | zero => simp [stepsAlone]
  | succ a ih => rw [Nat.succ_add, stepsAlone, stepsAlone, ih]

theorem stepsAlone_succ (n : Nat) (s) : stepsAlone (n+1) s = stepAlone (stepsAlone n s) := by
  rw [stepsAlone_add]; rfl

theorem stepAlone_length (s : Mem × ThreadState) (h : s.2.prog ≠ []) :
    (stepAlone s).2.prog.length < s.2.prog.length := by
  cases hp : s.2.prog with
  | nil => exact absurd hp h
  | cons i rest =>
      rw [stepAlone_cons hp]
      exact Nat.lt_succ_of_le (execInstr_length _ _ _ _)

theorem stepsAlone_finished : ∀ (n : Nat) (s : Mem × ThreadState), s.2.prog.length ≤ n →
    (stepsAlone n s).2.prog = [] := by
  intro n
  induction n with
  | zero => intro s h; exact List.eq_nil_of_length_eq_zero (Nat.le_zero.mp h)
  | succ n ih =>
      intro s h
      rw [stepsAlone]
      by_cases hp : s.2.prog = []
      · rw [stepAlone_nil hp, stepsAlone_nil hp]; exact hp
      · apply ih
        have := stepAlone_length s hp
        omega

/-- once the program is exhausted further scheduling changes nothing: running at least
    `length` steps is running to completion -/
theorem stepsAlone_of_le (mem : Mem) (th : ThreadState) (n : Nat) (h : th.prog.length ≤ n) :
    stepsAlone n (mem, th) = runAlone mem th := by
  obtain ⟨d, rfl⟩ := Nat.exists_eq_add_of_le h
  rw [stepsAlone_add, runAlone]
  exact stepsAlone_nil (stepsAlone_finished th.prog.length (mem, th) (Nat.le_refl _)) d

theorem runAlone_finished (mem th) : (runAlone mem th).2.prog = [] :=
  stepsAlone_finished _ _ (Nat.le_refl _)

theorem stepAlone_prog_sub (s : Mem × ThreadState) : ∀ j ∈ (stepAlone s).2.prog, j ∈ s.2.prog := by
  intro j hj
  cases hp : s.2.prog with
  | nil => rw [stepAlone_nil hp, hp] at hj; exact absurd hj List.not_mem_nil
  | cons i rest =>
      rw [stepAlone_cons hp] at hj
      exact List.mem_cons_of_mem _ (execInstr_prog_sub _ _ _ _ j hj)

theorem storeEvent_nil {th : ThreadState} (h : th.prog = []) : storeEvent th = none := by
  simp [storeEvent, h]

/-! ## configurations -/

/-- `stepCfg` unfolded for an unfinished thread -/
theorem stepCfg_cons {cfg : Config} {t th i rest} (ht : cfg.2[t]? = some th)
    (hp : th.prog = i :: rest) :
    stepCfg cfg t = ((execInstr cfg.1 th.regs rest i).1, cfg.2.set t (execInstr cfg.1 th.regs rest i).2) := by
  simp [stepCfg, ht, stepThread, hp]

theorem stepCfg_nil {cfg : Config} {t th} (ht : cfg.2[t]? = some th) (hp : th.prog = []) :
    stepCfg cfg t = cfg := by
  simp [stepCfg, ht, stepThread, hp]

theorem stepCfg_none {cfg : Config} {t} (ht : cfg.2[t]? = none) : stepCfg cfg t = cfg := by
  simp [stepCfg, ht]

theorem runSched_cons (cfg : Config) (t sched) :
    runSched cfg (t :: sched) = runSched (stepCfg cfg t) sched := rfl

theorem runSched_append (cfg : Config) (s1 s2) :
    runSched cfg (s1 ++ s2) = runSched (runSched cfg s1) s2 := by
  simp [runSched, List.foldl_append]

theorem runSched_snoc (cfg : Config) (s t) :
    runSched cfg (s ++ [t]) = stepCfg (runSched cfg s) t := by
  rw [runSched_append]; rfl

/-- a step only ever shrinks programs: each thread's remaining program consists of
    instructions of its previous program -/
theorem stepCfg_prog_sub (cfg : Config) (t : Tid) :
    ∀ (j : Tid) (th' : ThreadState), (stepCfg cfg t).2[j]? = some th' →
      ∃ th, cfg.2[j]? = some th ∧ ∀ x ∈ th'.prog, x ∈ th.prog := by
  intro j th' h
  cases ht : cfg.2[t]? with
  | none => rw [stepCfg_none ht] at h; exact ⟨th', h, fun _ hx => hx⟩
  | some th =>
      cases hp : th.prog with
      | nil => rw [stepCfg_nil ht hp] at h; exact ⟨th', h, fun _ hx => hx⟩
      | cons i rest =>
          rw [stepCfg_cons ht hp] at h
          simp only [List.getElem?_set] at h
          split at h
          · next heq =>
              subst heq
              split at h
              · cases h
                refine ⟨th, ht, fun x hx => ?_⟩
                rw [hp]
                exact List.mem_cons_of_mem _ (execInstr_prog_sub _ _ _ _ x hx)
              · cases h
          · exact ⟨th', h, fun _ hx => hx⟩

theorem runSched_prog_sub (cfg : Config) (sched : List Tid) :
    ∀ (j : Tid) (th' : ThreadState), (runSched cfg sched).2[j]? = some th' →
      ∃ th, cfg.2[j]? = some th ∧ ∀ x ∈ th'.prog, x ∈ th.prog := by
  induction sched generalizing cfg with
  | nil => intro j th' h; exact ⟨th', h, fun _ hx => hx⟩
  | cons t sched ih =>
      intro j th' h
      rw [runSched_cons] at h
      obtain ⟨th1, h1, hs1⟩ := ih _ j th' h
      obtain ⟨th0, h0, hs0⟩ := stepCfg_prog_sub cfg t j th1 h1
      exact ⟨th0, h0, fun x hx => hs0 x (hs1 x hx)⟩

theorem all_of_sub {p : Instr → Bool} {l l' : List Instr} (h : l.all p = true)
    (hs : ∀ x ∈ l', x ∈ l) : l'.all p = true := by
  rw [List.all_eq_true] at *
  exact fun x hx => h x (hs x hx)

/-! ## isolation: the general non-interference theorem -/

/-- thread `t` of `cfg` is in the state `s.2`, and memory agrees with `s.1` on region `A` -/
structure Tracks (A : Loc → Bool) (t : Tid) (cfg : Config) (s : Mem × ThreadState) : Prop where
  thread : cfg.2[t]? = some s.2
  mem : AgreeOn A cfg.1 s.1

theorem tracks_step_self {A t cfg s} (hT : Tracks A t cfg s) (hL : LoadsIn A s.2.prog = true) :
    Tracks A t (stepCfg cfg t) (stepAlone s) := by
  cases hp : s.2.prog with
  | nil => rw [stepCfg_nil hT.thread hp, stepAlone_nil hp]; exact hT
  | cons i rest =>
      rw [stepCfg_cons hT.thread hp, stepAlone_cons hp]
      have hi : Instr.loadOk A i = true := by
        rw [LoadsIn, List.all_eq_true] at hL
        exact hL i (by rw [hp]; exact List.mem_cons_self)
      obtain ⟨h1, h2⟩ := execInstr_agree A cfg.1 s.1 s.2.regs rest i hi hT.mem
      constructor
      · have hlt : t < cfg.2.length := by
          have := hT.thread
          rw [List.getElem?_eq_some_iff] at this
          exact this.1
        simp only [List.getElem?_set_self hlt, h1]
      · exact h2

theorem tracks_step_other {A t cfg s} (hT : Tracks A t cfg s) {j : Tid} (hj : j ≠ t)
    (hO : ∀ th, cfg.2[j]? = some th → NoStoreIn A th.prog = true) :
    Tracks A t (stepCfg cfg j) s := by
  cases hjt : cfg.2[j]? with
  | none => rw [stepCfg_none hjt]; exact hT
  | some th =>
      cases hp : th.prog with
      | nil => rw [stepCfg_nil hjt hp]; exact hT
      | cons i rest =>
          rw [stepCfg_cons hjt hp]
          have hi : Instr.storeOk (fun l => !A l) i = true := by
            have := hO th hjt
            rw [NoStoreIn, List.all_eq_true] at this
            exact this i (by rw [hp]; exact List.mem_cons_self)
          constructor
          · simp only [List.getElem?_set_ne hj]; exact hT.thread
          · intro l hl
            rw [execInstr_frame A cfg.1 th.regs rest i hi l hl]
            exact hT.mem l hl

theorem others_preserved {A : Loc → Bool} {t : Tid} {cfg : Config}
    (hO : ∀ j th, j ≠ t → cfg.2[j]? = some th → NoStoreIn A th.prog = true) (i : Tid) :
    ∀ j th, j ≠ t → (stepCfg cfg i).2[j]? = some th → NoStoreIn A th.prog = true := by
  intro j th hj h
  obtain ⟨th0, h0, hs⟩ := stepCfg_prog_sub cfg i j th h
  exact all_of_sub (hO j th0 hj h0) hs

/-- **Isolation.**  Let `A` be a region of memory such that thread `t` loads only from `A`
    and no other thread ever stores into `A`.  Then after ANY schedule, thread `t`'s state
    (remaining program and registers) and the contents of `A` are exactly those obtained by
    running `t` alone for as many steps as it was scheduled. -/
theorem isolated_on (A : Loc → Bool) (t : Tid) (sched : List Tid) :
    ∀ (cfg : Config) (s : Mem × ThreadState), Tracks A t cfg s → LoadsIn A s.2.prog = true →
      (∀ j th, j ≠ t → cfg.2[j]? = some th → NoStoreIn A th.prog = true) →
      Tracks A t (runSched cfg sched) (stepsAlone (sched.count t) s) := by
  induction sched with
  | nil => intro cfg s hT _ _; exact hT
  | cons i sched ih =>
      intro cfg s hT hL hO
      rw [runSched_cons, List.count_cons]
      by_cases hi : i = t
      · subst hi
        simp only [beq_self_eq_true, if_true, stepsAlone]
        exact ih _ _ (tracks_step_self hT hL) (all_of_sub hL (stepAlone_prog_sub s))
          (others_preserved hO i)
      · have : (i == t) = false := by simpa using hi
        simp only [this, Bool.false_eq_true, if_false, Nat.add_zero]
        exact ih _ _ (tracks_step_other hT hi (fun th h => hO i th hi h)) hL
          (others_preserved hO i)

/-- a thread that is not scheduled keeps its state, and a region nobody (else) stores
    into keeps its contents -/
theorem tracks_unscheduled (A : Loc → Bool) (t : Tid) (sched : List Tid) (hns : t ∉ sched) :
    ∀ (cfg : Config) (s : Mem × ThreadState), Tracks A t cfg s →
      (∀ j th, j ≠ t → cfg.2[j]? = some th → NoStoreIn A th.prog = true) →
      Tracks A t (runSched cfg sched) s := by
  induction sched with
  | nil => intro cfg s hT _; exact hT
  | cons i sched ih =>
      intro cfg s hT hO
      rw [runSched_cons]
      have hi : i ≠ t := fun h => hns (h ▸ List.mem_cons_self)
      exact ih (fun h => hns (List.mem_cons_of_mem _ h)) _ _
        (tracks_step_other hT hi (fun th h => hO i th hi h)) (others_preserved hO i)


/-! ## monotonicity of the access disciplines -/

theorem loadOk_mono {A B : Loc → Bool} (h : ∀ l, A l = true → B l = true) (i : Instr)
    (hi : i.loadOk A = true) : i.loadOk B = true := by
  cases i <;> first | exact h _ hi | rfl

theorem storeOk_mono {A B : Loc → Bool} (h : ∀ l, A l = true → B l = true) (i : Instr)
    (hi : i.storeOk A = true) : i.storeOk B = true := by
  cases i <;> first | exact h _ hi | rfl

theorem all_mono {p q : Instr → Bool} {l : List Instr} (h : ∀ x, p x = true → q x = true)
    (hl : l.all p = true) : l.all q = true := by
  rw [List.all_eq_true] at *
  exact fun x hx => h x (hl x hx)

theorem loadsIn_mono {A B : Loc → Bool} (h : ∀ l, A l = true → B l = true) {prog}
    (hp : LoadsIn A prog = true) : LoadsIn B prog = true :=
  all_mono (loadOk_mono h) hp

theorem owns_readsOwn {t prog} (h : Owns t prog = true) : ReadsOwn t prog = true :=
  all_mono (fun x hx => by simp only [Bool.and_eq_true] at hx; exact hx.1) h

theorem isPrivOf_ne {i t : Tid} (h : i ≠ t) (l : Loc) (hl : Loc.isPrivOf i l = true) :
    (!Loc.isPrivOf t l) = true := by
  cases l with
  | priv t' x =>
      simp only [Loc.isPrivOf, beq_iff_eq] at hl
      subst hl
      simp [Loc.isPrivOf, h]
  | shared g => rfl

/-- a thread that owns all its accesses never stores into anybody else's private locations -/
theorem owns_noStoreTo {i t : Tid} (h : i ≠ t) {prog} (ho : Owns i prog = true) :
    NoStoreTo t prog = true :=
  all_mono (fun x hx => by
    simp only [Bool.and_eq_true] at hx
    exact storeOk_mono (isPrivOf_ne h) x hx.2) ho

theorem noStoreIn_union {A B : Loc → Bool} {prog} (ha : NoStoreIn A prog = true)
    (hb : NoStoreIn B prog = true) : NoStoreIn (fun l => A l || B l) prog = true := by
  rw [NoStoreIn, List.all_eq_true] at *
  intro x hx
  have h1 := ha x hx
  have h2 := hb x hx
  cases x <;> simp_all [Instr.storeOk]

theorem wellScopedFrom_get : ∀ (ths : List ThreadState) (j i : Nat) (th : ThreadState),
    wellScopedFrom j ths = true → ths[i]? = some th → StoresScoped (j + i) th.prog = true := by
  intro ths
  induction ths with
  | nil => intro j i th _ h; simp at h
  | cons a rest ih =>
      intro j i th hw h
      simp only [wellScopedFrom, Bool.and_eq_true] at hw
      cases i with
      | zero => simp at h; subst h; exact hw.1
      | succ i =>
          simp only [List.getElem?_cons_succ] at h
          have := ih (j+1) i th hw.2 h
          rwa [Nat.add_assoc, Nat.add_comm 1 i] at this

/-- the decidable check `WellScoped` implies that private locations are respected -/
theorem privRespected_of_wellScoped {ths : List ThreadState} (h : WellScoped ths = true) :
    PrivRespected ths := by
  intro i j th hij hj
  have hs := wellScopedFrom_get ths 0 j th h hj
  rw [Nat.zero_add] at hs
  refine all_mono (fun x hx => storeOk_mono ?_ x hx) hs
  intro l hl
  cases l with
  | priv t x =>
      simp only [beq_iff_eq] at hl
      subst hl
      simp [Loc.isPrivOf, Ne.symm hij]
  | shared g => rfl

theorem privRespected_runSched {cfg : Config} (h : PrivRespected cfg.2) (sched : List Tid) :
    PrivRespected (runSched cfg sched).2 := by
  intro i j th hij hj
  obtain ⟨th0, h0, hs⟩ := runSched_prog_sub cfg sched j th hj
  exact all_of_sub (h i j th0 hij h0) hs

theorem privRespected_stepCfg {cfg : Config} (h : PrivRespected cfg.2) (t : Tid) :
    PrivRespected (stepCfg cfg t).2 := privRespected_runSched h [t]

/-! ## non-interference -/

/-- **Non-interference, every prefix.**  If thread `t` loads only from its private locations
    and no other thread stores into them, then under every schedule thread `t` is exactly
    where it would be after the same number of steps alone. -/
theorem noninterference_steps (t : Tid) (mem : Mem) (ths : List ThreadState) (th : ThreadState)
    (ht : ths[t]? = some th) (hown : ReadsOwn t th.prog = true)
    (hothers : ∀ j th', j ≠ t → ths[j]? = some th' → NoStoreTo t th'.prog = true)
    (sched : List Tid) :
    (runSched (mem, ths) sched).2[t]? = some (stepsAlone (sched.count t) (mem, th)).2 ∧
    ∀ x, (runSched (mem, ths) sched).1 (.priv t x) = (stepsAlone (sched.count t) (mem, th)).1 (.priv t x) := by
  have T := isolated_on (Loc.isPrivOf t) t sched (mem, ths) (mem, th) ⟨ht, fun _ _ => rfl⟩ hown hothers
  exact ⟨T.thread, fun x => T.mem _ (by simp [Loc.isPrivOf])⟩

/-- **Non-interference (asymmetric form).**  Thread `t` touches only `priv t _`; the other
    threads may do anything except store to `priv t _`.  Then for every schedule that lets
    `t` run to completion, `t` ends in exactly the state (registers) `runAlone` gives, and all
    `priv t _` locations hold the values they hold after `runAlone`. -/
theorem noninterference (t : Tid) (mem : Mem) (ths : List ThreadState) (th : ThreadState)
    (ht : ths[t]? = some th) (hown : Owns t th.prog = true)
    (hothers : ∀ j th', j ≠ t → ths[j]? = some th' → NoStoreTo t th'.prog = true)
    (sched : List Tid) (hfair : th.prog.length ≤ sched.count t) :
    (runSched (mem, ths) sched).2[t]? = some (runAlone mem th).2 ∧
    ∀ x, (runSched (mem, ths) sched).1 (.priv t x) = (runAlone mem th).1 (.priv t x) := by
  have := noninterference_steps t mem ths th ht (owns_readsOwn hown) hothers sched
  rwa [stepsAlone_of_le mem th _ hfair] at this

/-- **Non-interference (symmetric form).**  If every thread `i` touches only `priv i _`, then
    under every schedule every thread that is scheduled to completion ends exactly as alone. -/
theorem noninterference_symmetric (mem : Mem) (ths : List ThreadState)
    (hall : ∀ i th, ths[i]? = some th → Owns i th.prog = true)
    (sched : List Tid) (t : Tid) (th : ThreadState) (ht : ths[t]? = some th)
    (hfair : th.prog.length ≤ sched.count t) :
    (runSched (mem, ths) sched).2[t]? = some (runAlone mem th).2 ∧
    ∀ x, (runSched (mem, ths) sched).1 (.priv t x) = (runAlone mem th).1 (.priv t x) :=
  noninterference t mem ths th ht (hall t th ht)
    (fun j th' hj h => owns_noStoreTo hj (hall j th' h)) sched hfair

/-! ## a shared location written only with values from `S` -/

theorem storeEvent_mk {th : ThreadState} {i rest} (hp : th.prog = i :: rest) :
    storeEvent ⟨i :: rest, th.regs⟩ = storeEvent th := by
  cases th; simp only at hp; subst hp; rfl

theorem storeEvent_noStore {g : Loc} {th : ThreadState} {v}
    (hn : NoStoreLoc g th.prog = true) : storeEvent th ≠ some (g, v) := by
  intro h
  rw [NoStoreLoc, NoStoreIn, List.all_eq_true] at hn
  cases hp : th.prog with
  | nil => simp [storeEvent, hp] at h
  | cons i rest =>
      have hi := hn i (by rw [hp]; exact List.mem_cons_self)
      cases i <;> simp [storeEvent, hp] at h
      simp [Instr.storeOk, h.1] at hi

theorem stepCfg_self {cfg : Config} {t : Tid} {th : ThreadState} (ht : cfg.2[t]? = some th) :
    (stepCfg cfg t).1 = (stepAlone (cfg.1, th)).1 ∧
    (stepCfg cfg t).2[t]? = some (stepAlone (cfg.1, th)).2 := by
  cases hp : th.prog with
  | nil => rw [stepCfg_nil ht hp, stepAlone_nil (s := (cfg.1, th)) hp]; exact ⟨rfl, ht⟩
  | cons i rest =>
      rw [stepCfg_cons ht hp, stepAlone_cons (s := (cfg.1, th)) hp]
      have hlt : t < cfg.2.length := by
        rw [List.getElem?_eq_some_iff] at ht; exact ht.1
      exact ⟨rfl, List.getElem?_set_self hlt⟩

/-- in every schedule, each thread only ever passes through states it can reach alone under
    arbitrary interference on non-private memory -/
theorem havoc_tracks (cfg : Config) (hpriv : PrivRespected cfg.2) (i : Tid) (th0 : ThreadState)
    (h0 : cfg.2[i]? = some th0) (sched : List Tid) :
    ∃ s, HavocReach i (cfg.1, th0) s ∧ Tracks (Loc.isPrivOf i) i (runSched cfg sched) s := by
  induction sched using rev_ind with
  | nil => exact ⟨_, .refl, h0, fun _ _ => rfl⟩
  | snoc sch j ih =>
      obtain ⟨s, hr, T⟩ := ih
      rw [runSched_snoc]
      by_cases hj : j = i
      · subst hj
        obtain ⟨e1, e2⟩ := stepCfg_self T.thread
        refine ⟨_, .step (runSched cfg sch).1 hr T.mem, e2, ?_⟩
        intro l _; rw [e1]
      · exact ⟨s, hr, tracks_step_other T hj
          (fun th h => privRespected_runSched hpriv sch i j th (Ne.symm hj) h)⟩

/-- **Invariant of a shared location.**  Suppose `g` initially holds a value in `S`; no thread
    stores into another thread's private locations; and every thread, whatever the others
    do, stores to `g` only values in `S` (`RobustWrites`; in particular: it never stores to
    `g`, or it reads only its own private locations and alone stores only values in `S`).
    Then after EVERY schedule `g` holds a value in `S`. -/
theorem shared_invariant (g : Loc) (S : Val → Prop) (cfg : Config)
    (hinit : S (cfg.1 g)) (hpriv : PrivRespected cfg.2)
    (hthr : ∀ i th, cfg.2[i]? = some th → RobustWrites g S i cfg.1 th)
    (sched : List Tid) : S ((runSched cfg sched).1 g) := by
  induction sched using rev_ind with
  | nil => exact hinit
  | snoc s j ih =>
      rw [runSched_snoc]
      cases hj : (runSched cfg s).2[j]? with
      | none => rw [stepCfg_none hj]; exact ih
      | some thN =>
          cases hp : thN.prog with
          | nil => rw [stepCfg_nil hj hp]; exact ih
          | cons i rest =>
              rw [stepCfg_cons hj hp]
              rcases execInstr_mem (runSched cfg s).1 thN.regs rest i g with h | ⟨v, hev, hv⟩
              · show S ((execInstr _ _ _ _).1 g)
                rw [h]; exact ih
              · show S ((execInstr _ _ _ _).1 g)
                rw [hv]
                rw [storeEvent_mk hp] at hev
                obtain ⟨th0, h0, _⟩ := runSched_prog_sub cfg s j thN hj
                obtain ⟨st, hreach, T⟩ := havoc_tracks cfg hpriv j th0 h0 s
                have heq : thN = st.2 := Option.some.inj (hj.symm.trans T.thread)
                rw [heq] at hev
                exact hthr j th0 h0 st hreach v hev

/-! ### sufficient conditions for `RobustWrites` -/

theorem havocReach_prog_sub {i : Tid} {s0 s : Mem × ThreadState} (h : HavocReach i s0 s) :
    ∀ x ∈ s.2.prog, x ∈ s0.2.prog := by
  induction h with
  | refl => exact fun _ hx => hx
  | step m' _ _ ih => exact fun x hx => ih x (stepAlone_prog_sub (m', _) x hx)

/-- a thread that never stores to `g` -/
theorem robust_of_noStoreLoc {g : Loc} {S : Val → Prop} {i : Tid} {mem : Mem} {th : ThreadState}
    (h : NoStoreLoc g th.prog = true) : RobustWrites g S i mem th := by
  intro s hs v hev
  exact absurd hev (storeEvent_noStore (all_of_sub h (havocReach_prog_sub hs)))

theorem stepAlone_agree {A : Loc → Bool} {m1 m2 : Mem} {th : ThreadState}
    (hL : LoadsIn A th.prog = true) (hA : AgreeOn A m1 m2) :
    (stepAlone (m1, th)).2 = (stepAlone (m2, th)).2 ∧
    AgreeOn A (stepAlone (m1, th)).1 (stepAlone (m2, th)).1 := by
  cases hp : th.prog with
  | nil =>
      rw [stepAlone_nil (s := (m1, th)) hp, stepAlone_nil (s := (m2, th)) hp]; exact ⟨rfl, hA⟩
  | cons i rest =>
      rw [stepAlone_cons (s := (m1, th)) hp, stepAlone_cons (s := (m2, th)) hp]
      have hi : Instr.loadOk A i = true := by
        rw [LoadsIn, List.all_eq_true] at hL
        exact hL i (by rw [hp]; exact List.mem_cons_self)
      exact execInstr_agree A m1 m2 th.regs rest i hi hA

/-- a thread that loads only its private locations is immune to interference: its havoc
    states are its alone states -/
theorem havocReach_readsOwn {i : Tid} {mem : Mem} {th : ThreadState}
    (ho : ReadsOwn i th.prog = true) {s : Mem × ThreadState} (h : HavocReach i (mem, th) s) :
    ∃ k, s.2 = (stepsAlone k (mem, th)).2 ∧
      AgreeOn (Loc.isPrivOf i) s.1 (stepsAlone k (mem, th)).1 := by
  induction h with
  | refl => exact ⟨0, rfl, fun _ _ => rfl⟩
  | @step s m' hr hm ih =>
      obtain ⟨k, e2, e1⟩ := ih
      refine ⟨k+1, ?_⟩
      rw [stepsAlone_succ]
      have hL : LoadsIn (Loc.isPrivOf i) s.2.prog = true := all_of_sub ho (havocReach_prog_sub hr)
      have hA : AgreeOn (Loc.isPrivOf i) m' (stepsAlone k (mem, th)).1 :=
        fun l hl => (hm l hl).trans (e1 l hl)
      rw [e2] at hL ⊢
      exact stepAlone_agree hL hA

theorem robust_of_readsOwn {g : Loc} {S : Val → Prop} {i : Tid} {mem : Mem} {th : ThreadState}
    (ho : ReadsOwn i th.prog = true) (hw : WritesOnly g S mem th) : RobustWrites g S i mem th := by
  intro s hs v hev
  obtain ⟨k, e2, _⟩ := havocReach_readsOwn ho hs
  rw [e2] at hev
  exact hw k v hev

/-- invariant behind `pubSafe` -/
def PubInv (g : Loc) (ok : Val → Bool) (th : ThreadState) : Prop :=
  pubSafe g ok th.prog = true ∨
  ∃ r rest, th.prog = .store g r :: rest ∧ ok (th.regs r) = true ∧ pubSafe g ok rest = true

theorem pubInv_step {g : Loc} {ok : Val → Bool} {th : ThreadState} (h : PubInv g ok th) (m : Mem) :
    PubInv g ok (stepAlone (m, th)).2 := by
  cases hp : th.prog with
  | nil => rw [stepAlone_nil (s := (m, th)) hp]; exact h
  | cons i rest =>
      rw [stepAlone_cons (s := (m, th)) hp]
      rcases h with h | ⟨r, rest', hp', _, hrest⟩
      · rw [hp] at h
        cases i with
        | load r l => left; simpa [pubSafe, execInstr] using h
        | op d f a b => left; simpa [pubSafe, execInstr] using h
        | store l r =>
            left
            simp only [pubSafe, Bool.and_eq_true] at h
            exact h.2
        | jz r n =>
            left
            simp only [pubSafe, Bool.and_eq_true, decide_eq_true_eq] at h
            simp only [execInstr]
            split
            · rw [List.drop_eq_nil_of_le h.1]; rfl
            · exact h.2
        | const r v =>
            cases rest with
            | nil => left; rfl
            | cons i2 rest2 =>
                cases i2 with
                | store l r' =>
                    simp only [pubSafe, Bool.and_eq_true, Bool.or_eq_true, bne_iff_ne, ne_eq,
                      beq_iff_eq] at h
                    by_cases hl : l = g
                    · right
                      subst hl
                      rcases h.1 with h1 | ⟨h1, h2⟩
                      · exact absurd rfl h1
                      · subst h1
                        exact ⟨r, rest2, rfl, by simp [execInstr, setReg, h2], h.2⟩
                    · left
                      simp only [execInstr, pubSafe, Bool.and_eq_true, bne_iff_ne, ne_eq]
                      exact ⟨hl, h.2⟩
                | load r' l => left; simpa [pubSafe, execInstr] using h
                | op d f a b => left; simpa [pubSafe, execInstr] using h
                | const r' v' => left; simpa [pubSafe, execInstr] using h
                | jz r' n => left; simpa [pubSafe, execInstr] using h
      · rw [hp] at hp'
        cases hp'
        left; exact hrest

theorem pubInv_event {g : Loc} {ok : Val → Bool} {th : ThreadState} (h : PubInv g ok th) {v : Val}
    (hev : storeEvent th = some (g, v)) : ok v = true := by
  rcases h with h | ⟨r, rest, hp, hok, _⟩
  · exfalso
    cases hp : th.prog with
    | nil => simp [storeEvent, hp] at hev
    | cons i rest =>
        rw [hp] at h
        cases i <;> simp [storeEvent, hp] at hev
        simp [pubSafe, hev.1] at h
  · simp [storeEvent, hp] at hev
    rw [← hev]; exact hok

/-- a `pubSafe` thread stores to `g` only allowed constants, whatever it reads -/
theorem robust_of_pubSafe {g : Loc} {ok : Val → Bool} {i : Tid} {mem : Mem} {th : ThreadState}
    (h : pubSafe g ok th.prog = true) : RobustWrites g (fun v => ok v = true) i mem th := by
  intro s hs
  have : PubInv g ok s.2 := by
    induction hs with
    | refl => exact Or.inl h
    | step m' _ _ ih => exact pubInv_step ih m'
  exact fun v hev => pubInv_event this hev

theorem robust_weaken {g : Loc} {S S' : Val → Prop} {i mem th} (h : ∀ v, S v → S' v)
    (hw : RobustWrites g S i mem th) : RobustWrites g S' i mem th :=
  fun s hs v hev => h v (hw s hs v hev)

/-- every load of `g`, by any thread, at any point of any schedule, returns a value in `S` -/
theorem load_observes (g : Loc) (S : Val → Prop) (cfg : Config)
    (hinit : S (cfg.1 g)) (hpriv : PrivRespected cfg.2)
    (hthr : ∀ i th, cfg.2[i]? = some th → RobustWrites g S i cfg.1 th)
    (sched : List Tid) (c : Tid) (th : ThreadState) (reg : Nat) (rest : List Instr)
    (hc : (runSched cfg sched).2[c]? = some th) (hp : th.prog = .load reg g :: rest) :
    ∃ th', (runSched cfg (sched ++ [c])).2[c]? = some th' ∧ th'.prog = rest ∧ S (th'.regs reg) := by
  have hS := shared_invariant g S cfg hinit hpriv hthr sched
  have hlt : c < (runSched cfg sched).2.length := by
    rw [List.getElem?_eq_some_iff] at hc; exact hc.1
  rw [runSched_snoc, stepCfg_cons hc hp]
  refine ⟨_, List.getElem?_set_self hlt, rfl, ?_⟩
  simpa [execInstr, setReg] using hS

theorem setMem_same (m : Mem) (l : Loc) (v : Val) : setMem m l v l = v := by simp [setMem]

theorem setMem_self (m : Mem) (l : Loc) : setMem m l (m l) = m := by
  funext l'; simp only [setMem]; split
  · next h => rw [h]
  · rfl

/-- **A call racing with writers of `g`.**  Under the hypotheses of `shared_invariant`, let
    thread `c` be "load `g` into `reg`, then compute on private state".  Then for every
    schedule that lets `c` finish there is ONE value `v ∈ S` such that `c` ends exactly as
    the sequential run of `c` against a memory in which `g` holds `v` — never a mixture.
    (`m` is any reference memory agreeing with the current one on `priv c _`.) -/
theorem call_observes (g : Loc) (S : Val → Prop) (cfg : Config)
    (hinit : S (cfg.1 g)) (hpriv : PrivRespected cfg.2)
    (hthr : ∀ i th, cfg.2[i]? = some th → RobustWrites g S i cfg.1 th)
    (m : Mem) (c : Tid) (thc : ThreadState) (reg : Nat) (rest : List Instr)
    (hc : cfg.2[c]? = some thc) (hm : AgreeOn (Loc.isPrivOf c) cfg.1 m)
    (hp : thc.prog = .load reg g :: rest) (hrest : Owns c rest = true)
    (sched : List Tid) (hfair : thc.prog.length ≤ sched.count c) :
    ∃ v, S v ∧ Tracks (Loc.isPrivOf c) c (runSched cfg sched) (runAlone (setMem m g v) thc) := by
  have hmem : c ∈ sched := by
    apply List.count_pos_iff.mp
    rw [hp] at hfair; simp at hfair; omega
  obtain ⟨s1, s2, rfl, hns⟩ := List.eq_append_cons_of_mem hmem
  have T1 : Tracks (Loc.isPrivOf c) c (runSched cfg s1) (m, thc) :=
    tracks_unscheduled _ c s1 hns cfg (m, thc) ⟨hc, hm⟩
      (fun j th hj h => hpriv c j th (Ne.symm hj) h)
  have hS1 := shared_invariant g S cfg hinit hpriv hthr s1
  refine ⟨(runSched cfg s1).1 g, hS1, ?_⟩
  rw [runSched_append, runSched_cons]
  have hlt : c < (runSched cfg s1).2.length := by
    have := T1.thread; rw [List.getElem?_eq_some_iff] at this; exact this.1
  have hsa : stepAlone (setMem m g ((runSched cfg s1).1 g), thc) =
      (setMem m g ((runSched cfg s1).1 g), ⟨rest, setReg thc.regs reg ((runSched cfg s1).1 g)⟩) := by
    rw [stepAlone_cons (s := (_, thc)) hp]
    simp [execInstr, setMem_same]
  have T2 : Tracks (Loc.isPrivOf c) c (stepCfg (runSched cfg s1) c)
      (stepAlone (setMem m g ((runSched cfg s1).1 g), thc)) := by
    rw [hsa, stepCfg_cons T1.thread hp]
    constructor
    · simp [List.getElem?_set_self hlt, execInstr]
    · intro l hl
      show (runSched cfg s1).1 l = setMem m g _ l
      simp only [setMem]
      split
      · next h => rw [h]
      · exact T1.mem l hl
  have T3 := isolated_on (Loc.isPrivOf c) c s2 _ _ T2
    (by rw [hsa]; exact owns_readsOwn hrest)
    (fun j th hj h => privRespected_stepCfg (privRespected_runSched hpriv s1) c c j th (Ne.symm hj) h)
  have hcount : thc.prog.length ≤ s2.count c + 1 := by
    rw [List.count_append, List.count_cons, List.count_eq_zero.mpr hns] at hfair
    simpa using hfair
  have : stepsAlone (s2.count c) (stepAlone (setMem m g ((runSched cfg s1).1 g), thc)) =
      runAlone (setMem m g ((runSched cfg s1).1 g)) thc := by
    rw [← stepsAlone_of_le _ thc _ hcount]; rfl
  rwa [this] at T3

/-- **Publish happens-before call.**  If moreover thread `r` is the only thread that stores to
    `g`, it reads only its private locations, alone it leaves `new` in `g`, and the schedule is
    `s1 ++ s2` where `r` runs to completion within `s1` and the caller `c` starts only in `s2`,
    then `c` ends exactly as the sequential run of `c` against `g = new`. -/
theorem call_after_publish (g : Loc) (new : Val) (cfg : Config) (hpriv : PrivRespected cfg.2)
    (r c : Tid) (thr thc : ThreadState) (reg : Nat) (rest : List Instr)
    (hr : cfg.2[r]? = some thr) (hc : cfg.2[c]? = some thc)
    (hrown : ReadsOwn r thr.prog = true) (hrfinal : (runAlone cfg.1 thr).1 g = new)
    (hothers : ∀ j th, j ≠ r → cfg.2[j]? = some th → NoStoreLoc g th.prog = true)
    (hp : thc.prog = .load reg g :: rest) (hrest : Owns c rest = true)
    (s1 s2 : List Tid) (hrdone : thr.prog.length ≤ s1.count r) (hcns : c ∉ s1)
    (hfair : thc.prog.length ≤ s2.count c) :
    Tracks (Loc.isPrivOf c) c (runSched cfg (s1 ++ s2)) (runAlone (setMem cfg.1 g new) thc) := by
  have T := isolated_on (fun l => Loc.isPrivOf r l || l == g) r s1 cfg (cfg.1, thr)
    ⟨hr, fun _ _ => rfl⟩ (loadsIn_mono (fun l hl => by simp [hl]) hrown)
    (fun j th hj h => noStoreIn_union (hpriv r j th (Ne.symm hj) h) (hothers j th hj h))
  rw [stepsAlone_of_le cfg.1 thr _ hrdone] at T
  have hg : (runSched cfg s1).1 g = new := by
    rw [T.mem g (by simp), hrfinal]
  have Tc : Tracks (Loc.isPrivOf c) c (runSched cfg s1) (cfg.1, thc) :=
    tracks_unscheduled _ c s1 hcns cfg (cfg.1, thc) ⟨hc, fun _ _ => rfl⟩
      (fun j th hj h => hpriv c j th (Ne.symm hj) h)
  rw [runSched_append]
  obtain ⟨v, hv, Tv⟩ := call_observes g (fun v => v = new) (runSched cfg s1) hg
    (privRespected_runSched hpriv s1)
    (fun i th hi => by
      apply robust_of_noStoreLoc
      by_cases hir : i = r
      · subst hir
        have : th = (runAlone cfg.1 thr).2 := Option.some.inj (hi.symm.trans T.thread)
        rw [this, runAlone_finished]; rfl
      · obtain ⟨th0, h0, hs⟩ := runSched_prog_sub cfg s1 i th hi
        exact all_of_sub (hothers i th0 hir h0) hs)
    cfg.1 c thc reg rest Tc.thread Tc.mem hp hrest s2 hfair
  rw [hv] at Tv
  exact Tv

/-! ## the decidable sufficient condition for `WritesOnly` -/

theorem mem_storesFuel (g : Loc) (v : Val) : ∀ (n k : Nat) (s : Mem × ThreadState), k < n →
    storeEvent (stepsAlone k s).2 = some (g, v) → v ∈ storesFuel g n s := by
  intro n
  induction n with
  | zero => intro k s hk; exact absurd hk (Nat.not_lt_zero _)
  | succ n ih =>
      intro k s hk h
      rw [storesFuel]
      cases k with
      | zero =>
          simp only [stepsAlone] at h
          rw [h]; simp
      | succ k =>
          rw [stepsAlone] at h
          exact List.mem_append_right _ (ih k _ (Nat.lt_of_succ_lt_succ hk) h)

theorem writesOnly_of_storesAlone {g : Loc} {S : Val → Prop} {mem : Mem} {th : ThreadState}
    (h : ∀ v ∈ storesAlone g mem th, S v) : WritesOnly g S mem th := by
  intro k v hev
  apply h
  apply mem_storesFuel g v _ k _ _ hev
  apply Nat.lt_of_not_le
  intro hle
  rw [storeEvent_nil (stepsAlone_finished k (mem, th) hle)] at hev
  cases hev


/-! ## the "build privately, then publish with one store" program shape -/

theorem execInstr_append (mem : Mem) (regs : Regs) (pre suf : List Instr) (i : Instr)
    (hj : i.isJump = false) :
    execInstr mem regs (pre ++ suf) i =
      ((execInstr mem regs pre i).1,
        ⟨(execInstr mem regs pre i).2.prog ++ suf, (execInstr mem regs pre i).2.regs⟩) ∧
    (execInstr mem regs pre i).2.prog = pre := by
  cases i <;> simp_all [execInstr, Instr.isJump]

theorem runAlone_cons (mem : Mem) (regs : Regs) (i : Instr) (pre : List Instr)
    (hj : i.isJump = false) :
    runAlone mem ⟨i :: pre, regs⟩ =
      runAlone (execInstr mem regs pre i).1 ⟨pre, (execInstr mem regs pre i).2.regs⟩ := by
  have h2 := (execInstr_append mem regs pre [] i hj).2
  show stepsAlone (pre.length + 1) _ = _
  rw [stepsAlone, stepAlone_cons (s := (mem, ⟨i :: pre, regs⟩)) rfl, runAlone]
  show stepsAlone pre.length (execInstr mem regs pre i) = _
  have : execInstr mem regs pre i =
      ((execInstr mem regs pre i).1, ⟨pre, (execInstr mem regs pre i).2.regs⟩) := by
    conv => lhs; rw [show execInstr mem regs pre i =
      ((execInstr mem regs pre i).1, ⟨(execInstr mem regs pre i).2.prog, (execInstr mem regs pre i).2.regs⟩) from rfl]
    rw [h2]
  rw [this]

/-- a recompiler of the shape `pre ++ [store g reg]`, where the straight-line prefix `pre`
    touches only `priv r _` and alone leaves `new` in `reg`, stores to `g` only `new` -/
theorem writesOnly_publish_shape (r : Tid) (g : Loc) (hg : Loc.isPrivOf r g = false)
    (reg : Nat) (new : Val) : ∀ (pre : List Instr) (mem : Mem) (regs : Regs),
    Owns r pre = true → JumpFree pre = true →
    (runAlone mem ⟨pre, regs⟩).2.regs reg = new →
    WritesOnly g (fun v => v = new) mem ⟨pre ++ [.store g reg], regs⟩ := by
  intro pre
  induction pre with
  | nil =>
      intro mem regs _ _ hnew k v hev
      cases k with
      | zero =>
          simp [stepsAlone, storeEvent] at hev
          rw [← hev]; exact hnew
      | succ k =>
          rw [stepsAlone, stepAlone_cons (s := (mem, ⟨[] ++ [Instr.store g reg], regs⟩)) (i := Instr.store g reg) (rest := []) rfl,
            stepsAlone_nil (by rfl), storeEvent_nil (by rfl)] at hev
          cases hev
  | cons i pre ih =>
      intro mem regs hown hjf hnew k v hev
      simp only [Owns, JumpFree, List.all_cons, Bool.and_eq_true] at hown hjf
      have hij : i.isJump = false := by simpa using hjf.1
      cases k with
      | zero =>
          exfalso
          cases i <;> simp [stepsAlone, storeEvent] at hev
          have := hown.1.2
          simp [Instr.storeOk, hev.1, hg] at this
      | succ k =>
          rw [stepsAlone, stepAlone_cons (s := (mem, ⟨(i :: pre) ++ [Instr.store g reg], regs⟩)) (i := i) (rest := pre ++ [Instr.store g reg]) rfl] at hev
          simp only at hev
          obtain ⟨h1, h2⟩ := execInstr_append mem regs pre [.store g reg] i hij
          rw [h1, h2] at hev
          refine ih _ _ hown.2 hjf.2 ?_ k v hev
          rw [← runAlone_cons mem regs i pre hij]; exact hnew

theorem readsOwn_publish_shape (r : Tid) (g : Loc) (reg : Nat) (pre : List Instr)
    (h : Owns r pre = true) : ReadsOwn r (pre ++ [.store g reg]) = true := by
  have := owns_readsOwn h
  simp only [ReadsOwn, LoadsIn, List.all_append, Bool.and_eq_true] at *
  exact ⟨this, by simp [Instr.loadOk]⟩

/-- … and, run alone, leaves `new` in `g` -/
theorem final_publish_shape (g : Loc) (reg : Nat) (new : Val) :
    ∀ (pre : List Instr) (mem : Mem) (regs : Regs), JumpFree pre = true →
    (runAlone mem ⟨pre, regs⟩).2.regs reg = new →
    (runAlone mem ⟨pre ++ [.store g reg], regs⟩).1 g = new := by
  intro pre
  induction pre with
  | nil =>
      intro mem regs _ hnew
      show (setMem mem g (regs reg)) g = new
      rw [setMem_same]; exact hnew
  | cons i pre ih =>
      intro mem regs hjf hnew
      simp only [JumpFree, List.all_cons, Bool.and_eq_true] at hjf
      have hij : i.isJump = false := by simpa using hjf.1
      rw [runAlone_cons mem regs i pre hij] at hnew
      have := ih _ _ hjf.2 hnew
      rw [List.cons_append, runAlone_cons mem regs i _ hij]
      obtain ⟨h1, _⟩ := execInstr_append mem regs pre [.store g reg] i hij
      rw [h1]
      exact this


/-! ## publishing an evaluator's function with one attribute store -/

theorem Tracks.endsAs {t cfg s} (T : Tracks (Loc.isPrivOf t) t cfg s) : EndsAs t cfg s :=
  ⟨T.thread, fun x => T.mem _ (by simp [Loc.isPrivOf])⟩

/-- thread classification for one writer `r` -/
theorem one_writer_hthr {S : Val → Prop} {mem : Mem} {ths : List ThreadState} {r : Tid}
    {thr : ThreadState} (hr : ths[r]? = some thr) (hrw : RobustWrites fnLoc S r mem thr)
    (hothers : ∀ j th, j ≠ r → ths[j]? = some th → NoStoreLoc fnLoc th.prog = true) :
    ∀ i th, ths[i]? = some th → RobustWrites fnLoc S i mem th := by
  intro i th hi
  by_cases h : i = r
  · subst h
    have : th = thr := Option.some.inj (hi.symm.trans hr)
    subst this
    exact hrw
  · exact robust_of_noStoreLoc (hothers i th h hi)

theorem two_writers_hthr {S : Val → Prop} {mem : Mem} {ths : List ThreadState} {r1 r2 : Tid}
    {th1 th2 : ThreadState} (h1 : ths[r1]? = some th1) (h2 : ths[r2]? = some th2)
    (hw1 : RobustWrites fnLoc S r1 mem th1) (hw2 : RobustWrites fnLoc S r2 mem th2)
    (hothers : ∀ j th, j ≠ r1 → j ≠ r2 → ths[j]? = some th → NoStoreLoc fnLoc th.prog = true) :
    ∀ i th, ths[i]? = some th → RobustWrites fnLoc S i mem th := by
  intro i th hi
  by_cases h : i = r1
  · subst h
    have : th = th1 := Option.some.inj (hi.symm.trans h1)
    subst this
    exact hw1
  · by_cases h' : i = r2
    · subst h'
      have : th = th2 := Option.some.inj (hi.symm.trans h2)
      subst this
      exact hw2
    · exact robust_of_noStoreLoc (hothers i th h h' hi)

theorem robust_of_publishesOnly {new : Val} {r : Tid} {mem : Mem} {th : ThreadState}
    (h : PublishesOnly new r mem th) : RobustWrites fnLoc (fun v => v = new) r mem th := by
  rcases h with ⟨ho, hs⟩ | h
  · exact robust_of_readsOwn ho (writesOnly_of_storesAlone hs)
  · exact robust_weaken (fun v hv => by simpa using hv) (robust_of_pubSafe h)

section OneWriter
variable (old new : Val) (mem : Mem) (ths : List ThreadState) (r : Tid) (thr : ThreadState)
  (hold : mem fnLoc = old) (hpriv : PrivRespected ths)
  (hr : ths[r]? = some thr) (hrw : RobustWrites fnLoc (fun v => v = new) r mem thr)
  (hothers : ∀ j th, j ≠ r → ths[j]? = some th → NoStoreLoc fnLoc th.prog = true)
include hold hpriv hr hrw hothers

/-- under every schedule the installed function is the old one or the new one -/
theorem publish_atomic_value (sched : List Tid) :
    (runSched (mem, ths) sched).1 fnLoc = old ∨ (runSched (mem, ths) sched).1 fnLoc = new :=
  shared_invariant fnLoc (fun v => v = old ∨ v = new) (mem, ths) (Or.inl hold) hpriv
    (one_writer_hthr hr (robust_weaken (fun _ h => Or.inr h) hrw) hothers) sched

/-- every load of the installed function — by any thread, at any point of any schedule —
    returns the old or the new function -/
theorem publish_atomic_load (sched : List Tid) (c : Tid) (th : ThreadState) (reg : Nat)
    (rest : List Instr) (hc : (runSched (mem, ths) sched).2[c]? = some th)
    (hp : th.prog = .load reg fnLoc :: rest) :
    ∃ th', (runSched (mem, ths) (sched ++ [c])).2[c]? = some th' ∧ th'.prog = rest ∧
      (th'.regs reg = old ∨ th'.regs reg = new) :=
  load_observes fnLoc (fun v => v = old ∨ v = new) (mem, ths) (Or.inl hold) hpriv
    (one_writer_hthr hr (robust_weaken (fun _ h => Or.inr h) hrw) hothers)
    sched c th reg rest hc hp

/-- a call (one load of the installed function, then private computation) racing with the
    recompile ends exactly as the sequential call against the old function, or exactly as
    the sequential call against the new function -/
theorem publish_atomic (c : Tid) (thc : ThreadState) (reg : Nat) (rest : List Instr)
    (hc : ths[c]? = some thc) (hp : thc.prog = .load reg fnLoc :: rest)
    (hrest : Owns c rest = true) (sched : List Tid) (hfair : thc.prog.length ≤ sched.count c) :
    EndsAs c (runSched (mem, ths) sched) (runAlone mem thc) ∨
    EndsAs c (runSched (mem, ths) sched) (runAlone (setMem mem fnLoc new) thc) := by
  obtain ⟨v, hv, T⟩ := call_observes fnLoc (fun v => v = old ∨ v = new) (mem, ths) (Or.inl hold) hpriv
    (one_writer_hthr hr (robust_weaken (fun _ h => Or.inr h) hrw) hothers)
    mem c thc reg rest hc (fun _ _ => rfl) hp hrest sched hfair
  rcases hv with hv | hv
  · left
    have : setMem mem fnLoc v = mem := by rw [hv, ← hold]; exact setMem_self mem fnLoc
    rw [this] at T; exact T.endsAs
  · right; rw [hv] at T; exact T.endsAs

end OneWriter

/-- if the recompile completed before the call started, the call sees the new function -/
theorem publish_atomic_ordered (new : Val) (mem : Mem) (ths : List ThreadState) (r : Tid)
    (thr : ThreadState) (hpriv : PrivRespected ths)
    (hr : ths[r]? = some thr) (hrown : ReadsOwn r thr.prog = true)
    (hrfinal : (runAlone mem thr).1 fnLoc = new)
    (hothers : ∀ j th, j ≠ r → ths[j]? = some th → NoStoreLoc fnLoc th.prog = true)
    (c : Tid) (thc : ThreadState) (reg : Nat) (rest : List Instr)
    (hc : ths[c]? = some thc) (hp : thc.prog = .load reg fnLoc :: rest)
    (hrest : Owns c rest = true) (s1 s2 : List Tid)
    (hrdone : thr.prog.length ≤ s1.count r) (hcns : c ∉ s1)
    (hfair : thc.prog.length ≤ s2.count c) :
    EndsAs c (runSched (mem, ths) (s1 ++ s2)) (runAlone (setMem mem fnLoc new) thc) :=
  (call_after_publish fnLoc new (mem, ths) hpriv r c thr thc reg rest hr hc hrown hrfinal hothers
    hp hrest s1 s2 hrdone hcns hfair).endsAs

section TwoWriters
variable (old new1 new2 : Val) (mem : Mem) (ths : List ThreadState) (r1 r2 : Tid)
  (th1 th2 : ThreadState)
  (hold : mem fnLoc = old) (hpriv : PrivRespected ths)
  (h1 : ths[r1]? = some th1) (h2 : ths[r2]? = some th2)
  (hw1 : RobustWrites fnLoc (fun v => v = new1) r1 mem th1)
  (hw2 : RobustWrites fnLoc (fun v => v = new2) r2 mem th2)
  (hothers : ∀ j th, j ≠ r1 → j ≠ r2 → ths[j]? = some th → NoStoreLoc fnLoc th.prog = true)
include hold hpriv h1 h2 hw1 hw2 hothers

theorem publish_atomic_two_writers_value (sched : List Tid) :
    (runSched (mem, ths) sched).1 fnLoc = old ∨ (runSched (mem, ths) sched).1 fnLoc = new1 ∨
    (runSched (mem, ths) sched).1 fnLoc = new2 :=
  shared_invariant fnLoc (fun v => v = old ∨ v = new1 ∨ v = new2) (mem, ths) (Or.inl hold) hpriv
    (two_writers_hthr h1 h2 (robust_weaken (fun _ h => Or.inr (Or.inl h)) hw1)
      (robust_weaken (fun _ h => Or.inr (Or.inr h)) hw2) hothers) sched

theorem publish_atomic_two_writers_load (sched : List Tid) (c : Tid) (th : ThreadState)
    (reg : Nat) (rest : List Instr) (hc : (runSched (mem, ths) sched).2[c]? = some th)
    (hp : th.prog = .load reg fnLoc :: rest) :
    ∃ th', (runSched (mem, ths) (sched ++ [c])).2[c]? = some th' ∧ th'.prog = rest ∧
      (th'.regs reg = old ∨ th'.regs reg = new1 ∨ th'.regs reg = new2) :=
  load_observes fnLoc (fun v => v = old ∨ v = new1 ∨ v = new2) (mem, ths) (Or.inl hold) hpriv
    (two_writers_hthr h1 h2 (robust_weaken (fun _ h => Or.inr (Or.inl h)) hw1)
      (robust_weaken (fun _ h => Or.inr (Or.inr h)) hw2) hothers) sched c th reg rest hc hp

theorem publish_atomic_two_writers (c : Tid) (thc : ThreadState) (reg : Nat) (rest : List Instr)
    (hc : ths[c]? = some thc) (hp : thc.prog = .load reg fnLoc :: rest)
    (hrest : Owns c rest = true) (sched : List Tid) (hfair : thc.prog.length ≤ sched.count c) :
    EndsAs c (runSched (mem, ths) sched) (runAlone mem thc) ∨
    EndsAs c (runSched (mem, ths) sched) (runAlone (setMem mem fnLoc new1) thc) ∨
    EndsAs c (runSched (mem, ths) sched) (runAlone (setMem mem fnLoc new2) thc) := by
  obtain ⟨v, hv, T⟩ := call_observes fnLoc (fun v => v = old ∨ v = new1 ∨ v = new2) (mem, ths)
    (Or.inl hold) hpriv
    (two_writers_hthr h1 h2 (robust_weaken (fun _ h => Or.inr (Or.inl h)) hw1)
      (robust_weaken (fun _ h => Or.inr (Or.inr h)) hw2) hothers)
    mem c thc reg rest hc (fun _ _ => rfl) hp hrest sched hfair
  rcases hv with hv | hv | hv
  · left
    have : setMem mem fnLoc v = mem := by rw [hv, ← hold]; exact setMem_self mem fnLoc
    rw [this] at T; exact T.endsAs
  · right; left; rw [hv] at T; exact T.endsAs
  · right; right; rw [hv] at T; exact T.endsAs

end TwoWriters

end Pyab.Sched
