/-
  **`repr(float)` reads back**: for every genuine finite binary64 value, the text `Dbl.repr`
  prints is read by the reader's number scanner as a double of the same value.

  Pieces (each in its own file):
    `FloatReprRound`   `roundRat` / `decToDbl` are correctly rounded (`RSpec`); the near lemma
    `FloatReprCanon`   the `Dbl` term `decToDbl` builds depends on the decimal's value only
    `FloatReprDigits`  (A) the digit search succeeds with at most 17 digits (`shortestDigits_good`)
    `FloatReprInv`     `norm` and the digit search depend on the value only, not on the pair `m·2^e`
    `FloatReprText`    (B, text) the scanner reads every shape `repr` writes as `decToDbl D s`
  Here they are assembled:

    `repr_reads`            the text of `repr (fin m e)` is read as sign + a positive finite double
                            of value `|m|·2^e` (namely `decToDbl` of the shortest digits)
    `floatStableB_fin`      `floatStableB (fin m e) false = true`   \
    `weightStableB_fin`     `weightStableB (fin m e) = true`         | for `m = 0` or `fin |m| e` genuine
    `floatStableB_zero`     `floatStableB (fin 0 e) nz = true`      /
    `floatReadsB_of_canonical`, `weightReadsB_of_canonical`
                            the EXACT condition (`floatReadsB`: the very same `Dbl` term comes back)
                            for a double in the reader's own representation that is not a power of two
                            above the subnormal range (see below why that exception is necessary).

  On exactness.  `floatReadsB d nz` asks that reading the text gives back the TERM `d`.  That is
  false for some finite doubles a DSL literal denotes, e.g. `ofDecimal false 931322574615478515625 30`
  (the literal `0.000000000931322574615478515625 = 2^-30`) is `fin 2^52 (-82)`; `repr` prints
  `9.313225746154785e-10`, which lies below `2^-30` and is read as `fin 2^53 (-83)` — the same value
  in the lower binade's representation.  `floatStableB` (same value, same printed text) is the
  statement that holds for all of them.
-/
import Pyab.Proofs.FloatReprInv
import Pyab.Proofs.FloatReprText

namespace Pyab
namespace Dbl
open Pyab.Proofs Pyab.PyRead

/-! ### trailing zeros -/

theorem stripZeros_spec : ∀ (fuel D : Nat) (s : Int), D ≠ 0 →
    (stripZeros fuel D s).1 ≠ 0 ∧ decVal (stripZeros fuel D s).1 (stripZeros fuel D s).2 = decVal D s
  | 0, D, s, h => ⟨h, rfl⟩
  | fuel + 1, D, s, h => by
    unfold stripZeros
    split
    · rename_i hc
      simp only [Bool.and_eq_true, bne_iff_ne, ne_eq, beq_iff_eq] at hc
      have hD10 : D / 10 ≠ 0 := by omega
      obtain ⟨i1, i2⟩ := stripZeros_spec fuel (D / 10) (s + 1) hD10
      refine ⟨i1, ?_⟩
      rw [i2]
      unfold decVal
      have hD : D = 10 * (D / 10) := by omega
      have hDq : (D : ℚ) = 10 * ((D / 10 : Nat) : ℚ) := by exact_mod_cast hD
      rw [ten_zpow_add, zpow_one, hDq]; ring
    · exact ⟨h, rfl⟩

/-! ### the decimal exponent stays within three digits -/

set_option exponentiation.threshold 2000 in
theorem pow_facts : (2 : ℚ) ^ (1025 : Int) < 10 ^ (309 : Int) ∧ (10 : ℚ) ^ (-324 : Int) < 2 ^ (-1075 : Int) := by
  have a1 : (2 : Nat) ^ 1025 < 10 ^ 309 := by decide +kernel
  have a2 : (2 : Nat) ^ 1075 < 10 ^ 324 := by decide +kernel
  constructor
  · have h : ((2 ^ 1025 : Nat) : ℚ) < ((10 ^ 309 : Nat) : ℚ) := by exact_mod_cast a1
    push_cast at h
    exact_mod_cast h
  · have h : ((2 ^ 1075 : Nat) : ℚ) < ((10 ^ 324 : Nat) : ℚ) := by exact_mod_cast a2
    push_cast at h
    rw [zpow_neg, zpow_neg]
    have h2 : (0 : ℚ) < 2 ^ (1075 : Int) := by positivity
    exact (inv_lt_inv₀ (by positivity) h2).2 (by exact_mod_cast h)

theorem decpt_bound (D : Nat) (s : Int) (hD : D ≠ 0) (hlo : (2 : ℚ) ^ (-1075 : Int) < decVal D s)
    (hhi : decVal D s < 2 ^ (1025 : Int)) : ((numDigits D : Int) + s - 1).natAbs < 1000 := by
  obtain ⟨p1, p2⟩ := pow_facts
  have hpos := numDigits_pos D
  have hT := ten_zpow_pos s
  have h1 : (10 : ℚ) ^ ((numDigits D : Int) - 1) ≤ (D : ℚ) := by
    have := numDigits_le D hD
    have h' : ((10 ^ (numDigits D - 1) : Nat) : ℚ) ≤ (D : ℚ) := by exact_mod_cast this
    push_cast at h'
    rw [← zpow_natCast] at h'
    rwa [show ((numDigits D - 1 : Nat) : Int) = (numDigits D : Int) - 1 by omega] at h'
  have h2 : (D : ℚ) < (10 : ℚ) ^ (numDigits D : Int) := by
    have := numDigits_lt D
    have h' : (D : ℚ) < ((10 ^ numDigits D : Nat) : ℚ) := by exact_mod_cast this
    push_cast at h'
    rwa [← zpow_natCast] at h'
  have h3 : (10 : ℚ) ^ ((numDigits D : Int) - 1 + s) ≤ decVal D s := by
    rw [ten_zpow_add]; exact mul_le_mul_of_nonneg_right h1 hT.le
  have h4 : decVal D s < (10 : ℚ) ^ ((numDigits D : Int) + s) := by
    rw [ten_zpow_add]; exact mul_lt_mul_of_pos_right h2 hT
  have h5 : (10 : ℚ) ^ ((numDigits D : Int) - 1 + s) < 10 ^ (309 : Int) :=
    lt_of_le_of_lt h3 (lt_trans hhi p1)
  have h6 : (10 : ℚ) ^ (-324 : Int) < (10 : ℚ) ^ ((numDigits D : Int) + s) :=
    lt_trans p2 (lt_trans hlo h4)
  rw [ten_zpow_lt_iff] at h5 h6
  omega

/-- a candidate with `p ≥ 1` digits is within a factor two of the exact value -/
theorem cand_bounds (n d p : Nat) (hn : n ≠ 0) (hd : d ≠ 0) (hp : 1 ≤ p) (c : Nat × Int)
    (hc : c ∈ sigCandidates n d p) :
    (n : ℚ) / d < 2 * decVal c.1 c.2 ∧ decVal c.1 c.2 ≤ 2 * ((n : ℚ) / d) := by
  have hlo := candLo_ge n d hn hd p hp
  obtain ⟨b1, b2⟩ := candLo_spec n d hd (decExp n d - (p : Int) + 1)
  rw [sigCandidates_eq] at hc
  generalize decExp n d - (p : Int) + 1 = s at *
  generalize candLo n d s = lo at *
  have hlo1 : 1 ≤ lo := le_trans (Nat.one_le_pow _ _ (by omega)) hlo
  have hstep : decVal (lo + 1) s = decVal lo s + 10 ^ s := by unfold decVal; push_cast; ring
  have hT := ten_zpow_pos s
  have hge : (10 : ℚ) ^ s ≤ decVal lo s := by
    unfold decVal
    have : (1 : ℚ) ≤ (lo : ℚ) := by exact_mod_cast hlo1
    nlinarith
  rw [hstep] at b2
  simp only [List.mem_cons, List.mem_nil_iff, or_false] at hc
  rcases hc with rfl | rfl
  · constructor <;> (simp only []; linarith)
  · simp only [hstep]
    constructor <;> linarith

/-! ### reading the text of `repr` -/

theorem isZero_of_ne (m e : Int) (hm : m ≠ 0) : PyRead.isZero (fin m e) = false := by
  unfold PyRead.isZero
  split
  · rename_i h; injection h with h1 h2; exact absurd h1 hm
  · rfl

/-- **the text of `repr` reads back**: for a non-zero finite double whose absolute value is a
    genuine binary64 value, the reader's number scanner reads the printed text as the sign and a
    positive finite double of the same absolute value — `decToDbl` of the shortest digits -/
theorem repr_reads (m e : Int) (hm : m ≠ 0) (hrep : IsRep (fin (m.natAbs : Int) e)) :
    ∃ m1 e1 : Int, 0 < m1 ∧ (m1 : ℚ) * 2 ^ e1 = (m.natAbs : ℚ) * 2 ^ e ∧
      readFloatText (Dbl.repr (fin m e)).toList = some (decide (m < 0), fin m1 e1) ∧
      fin m1 e1 = decToDbl (shortestDigits m.natAbs e).1 (shortestDigits m.natAbs e).2 := by
  have hn : m.natAbs ≠ 0 := by omega
  obtain ⟨p, hp1, _, _, hmem, hkeep⟩ := shortestDigits_good m.natAbs hn e hrep
  obtain ⟨hnf, hdf, hvf⟩ := toFrac_val m.natAbs hn e
  obtain ⟨cb1, cb2⟩ := cand_bounds _ _ p hnf hdf hp1 _ hmem
  rw [hvf] at cb1 cb2
  generalize hsd : shortestDigits m.natAbs e = sd at *
  obtain ⟨D0, s0⟩ := sd
  simp only [] at cb1 cb2
  obtain ⟨hD0, m1, e1, hdec, hm1, hval⟩ := val_of_keepB m.natAbs hn e D0 s0 hkeep
  rw [val_fin] at hval
  -- the value is positive, so is the mantissa read
  have hxpos : (0 : ℚ) < (m.natAbs : ℚ) * 2 ^ e :=
    mul_pos (by exact_mod_cast Nat.pos_of_ne_zero hn) (two_zpow_pos e)
  have hm1pos : 0 < m1 := by
    have : (0 : ℚ) < (m1 : ℚ) := by
      rw [← hval] at hxpos
      exact (mul_pos_iff_of_pos_right (two_zpow_pos e1)).1 hxpos
    exact_mod_cast this
  refine ⟨m1, e1, hm1pos, hval, ?_, hdec.symm⟩
  -- range of the value
  obtain ⟨k, Q, hx, hk, hQ0, _, _, _, _⟩ := isRep_witness (m.natAbs : Int) e (by omega) hrep
  rw [Int.cast_natCast] at hx
  have hxlo : (2 : ℚ) ^ (-1074 : Int) ≤ (m.natAbs : ℚ) * 2 ^ e := by
    rw [hx]
    have h1 : (1 : ℚ) ≤ (Q : ℚ) := by exact_mod_cast hQ0
    calc (2 : ℚ) ^ (-1074 : Int) ≤ 2 ^ k := two_zpow_le hk
      _ = 1 * 2 ^ k := (one_mul _).symm
      _ ≤ (Q : ℚ) * 2 ^ k := mul_le_mul_of_nonneg_right h1 (two_zpow_pos k).le
  have hxhi : (m.natAbs : ℚ) * 2 ^ e < 2 ^ (1024 : Int) := by
    obtain ⟨_, _, _, _, _, hlt⟩ := hrep
    rw [val_fin, Int.cast_natCast] at hlt; exact hlt
  -- the text
  rw [repr_fin m e hm, hsd]
  simp only []
  obtain ⟨hD', hvD'⟩ := stripZeros_spec 20 D0 s0 hD0
  generalize (stripZeros 20 D0 s0).1 = D' at *
  generalize (stripZeros 20 D0 s0).2 = s' at *
  have hex : ((numDigits D' : Int) + s' - 1).natAbs < 1000 := by
    apply decpt_bound D' s' hD'
    · rw [hvD']
      have : (2 : ℚ) ^ (-1074 : Int) = 2 * 2 ^ (-1075 : Int) := by
        rw [show (-1074 : Int) = 1 + (-1075) by norm_num, two_zpow_add]; norm_num
      rw [this] at hxlo
      linarith
    · rw [hvD']
      have : (2 : ℚ) ^ (1025 : Int) = 2 * 2 ^ (1024 : Int) := by
        rw [show (1025 : Int) = 1 + 1024 by norm_num, two_zpow_add]; norm_num
      rw [this]
      linarith
  have hsgn : (if m < 0 then "-" else "") = (if decide (m < 0) = true then "-" else "") := by
    by_cases h : m < 0 <;> simp [h]
  rw [hsgn, read_fmtDigits (decide (m < 0)) D' s' hD' hex,
    decToDbl_congr D' s' D0 s0 hD' hD0 hvD', hdec]

/-! ### `repr` depends on the value only -/

theorem repr_congr_pos (a b : Nat) (ha : a ≠ 0) (hb : b ≠ 0) (e e' : Int)
    (hrep : IsRep (fin (a : Int) e)) (h : (a : ℚ) * 2 ^ e = (b : ℚ) * 2 ^ e') :
    Dbl.repr (fin (a : Int) e) = Dbl.repr (fin (b : Int) e') := by
  rw [repr_fin _ _ (by omega), repr_fin _ _ (by omega)]
  simp only [Int.natAbs_natCast]
  rw [shortestDigits_congr a b ha hb e e' hrep h]
  have h1 : ¬ ((a : Int) < 0) := by omega
  have h2 : ¬ ((b : Int) < 0) := by omega
  rw [if_neg h1, if_neg h2]

theorem repr_congr_neg (a b : Nat) (ha : a ≠ 0) (hb : b ≠ 0) (e e' : Int)
    (hrep : IsRep (fin (a : Int) e)) (h : (a : ℚ) * 2 ^ e = (b : ℚ) * 2 ^ e') :
    Dbl.repr (fin (-(a : Int)) e) = Dbl.repr (fin (-(b : Int)) e') := by
  rw [repr_fin _ _ (by omega), repr_fin _ _ (by omega)]
  simp only [Int.natAbs_neg, Int.natAbs_natCast]
  rw [shortestDigits_congr a b ha hb e e' hrep h]
  have h1 : (-(a : Int) < 0) := by omega
  have h2 : (-(b : Int) < 0) := by omega
  rw [if_pos h1, if_pos h2]

/-! ### the side conditions of the reader, for every genuine double -/

/-- what Python builds from the text of `repr (fin m e)`: no `-0.0` flag, the same printed text,
    the same normal form -/
theorem reread_core (m e : Int) (hm : m ≠ 0) (hrep : IsRep (fin (m.natAbs : Int) e)) :
    ∃ neg v, readFloatText (Dbl.repr (fin m e)).toList = some (neg, v) ∧
      (signedFloat neg v).2 = false ∧
      Dbl.repr (signedFloat neg v).1 = Dbl.repr (fin m e) ∧
      norm (signedFloat neg v).1 = norm (fin m e) ∧ ∃ a b, norm (fin m e) = fin a b := by
  obtain ⟨m1, e1, hm1, hval, hread, -⟩ := repr_reads m e hm hrep
  obtain ⟨k1, rfl⟩ : ∃ k1 : Nat, m1 = (k1 : Int) := ⟨m1.toNat, by omega⟩
  have hk1 : k1 ≠ 0 := by omega
  rw [Int.cast_natCast] at hval
  refine ⟨_, _, hread, ?_⟩
  obtain ⟨n, rfl | rfl⟩ := Int.eq_nat_or_neg m
  · have hn : n ≠ 0 := by omega
    rw [Int.natAbs_natCast] at hval hrep
    have hdec : decide ((n : Int) < 0) = false := by simp
    have hrep1 : IsRep (fin (k1 : Int) e1) :=
      isRep_congr n k1 e e1 (by omega) hrep (by push_cast; exact hval.symm)
    obtain ⟨o, k, hno, -, -⟩ := norm_pos n hn e
    rw [hdec]
    simp only [signedFloat, Bool.false_eq_true, if_false]
    exact ⟨trivial, repr_congr_pos k1 n hk1 hn e1 e hrep1 hval, norm_congr k1 n hk1 hn e1 e hval,
      _, _, hno⟩
  · have hn : n ≠ 0 := by omega
    rw [Int.natAbs_neg, Int.natAbs_natCast] at hval hrep
    have hdec : decide (-(n : Int) < 0) = true := by simp; omega
    have hrep1 : IsRep (fin (k1 : Int) e1) :=
      isRep_congr n k1 e e1 (by omega) hrep (by push_cast; exact hval.symm)
    obtain ⟨o, k, hno, -, -⟩ := norm_pos n hn e
    rw [hdec]
    simp only [signedFloat, if_true, Dbl.neg]
    refine ⟨isZero_of_ne _ _ (by omega), repr_congr_neg k1 n hk1 hn e1 e hrep1 hval, ?_, ?_⟩
    · rw [norm_neg_nat k1 hk1, norm_neg_nat n hn, norm_congr k1 n hk1 hn e1 e hval]
    · rw [norm_neg_nat n hn, hno]; exact ⟨_, _, rfl⟩

theorem dblSame_fin (a b : Int) : dblSame (fin a b) (fin a b) = true := by simp [dblSame]

/-- **(B), up to the representation**: the text printed for a non-zero finite double whose absolute
    value is a genuine binary64 value is a float literal; what Python builds from it has the same
    value (normal form), prints as the same text, and carries no `-0.0` flag -/
theorem floatStableB_ne (m e : Int) (hm : m ≠ 0) (hrep : IsRep (fin (m.natAbs : Int) e)) :
    floatStableB (fin m e) false = true := by
  obtain ⟨neg, v, h1, h2, h3, h4, a, b, h5⟩ := reread_core m e hm hrep
  unfold floatStableB
  have hfs : ∀ d, floatStr d false = Dbl.repr d := fun _ => rfl
  rw [hfs, h1]
  simp only [h2, hfs, h3, h4, h5, dblSame_fin, beq_self_eq_true, Bool.and_self]

theorem weightStableB_ne (m e : Int) (hm : m ≠ 0) (hrep : IsRep (fin (m.natAbs : Int) e)) :
    weightStableB (fin m e) = true := by
  obtain ⟨neg, v, h1, h2, h3, h4, a, b, h5⟩ := reread_core m e hm hrep
  unfold weightStableB
  rw [h1]
  simp only [h3, h4, h5, dblSame_fin, beq_self_eq_true, Bool.and_self]

/-- zero, with or without the `-0.0` flag -/
theorem floatStableB_zero (e : Int) (nz : Bool) : floatStableB (fin 0 e) nz = true := by
  have h1 : ∀ nz, floatStr (fin 0 e) nz = floatStr (fin 0 0) nz := fun nz => by
    unfold floatStr; rw [repr_zero, repr_zero]
  have h2 : norm (fin 0 e) = norm (fin 0 0) := by unfold norm; rfl
  unfold floatStableB
  rw [h1, h2]
  cases nz <;> decide +kernel

theorem weightStableB_zero (e : Int) : weightStableB (fin 0 e) = true := by
  have h1 : Dbl.repr (fin 0 e) = Dbl.repr (fin 0 0) := by rw [repr_zero, repr_zero]
  have h2 : norm (fin 0 e) = norm (fin 0 0) := by unfold norm; rfl
  unfold weightStableB
  rw [h1, h2]
  decide +kernel

/-- **every finite double** (`m = 0`, or `|m|·2^e` a genuine binary64 value): the float side
    condition of the reader, up to the representation -/
theorem floatStableB_fin (m e : Int) (h : m = 0 ∨ IsRep (fin (m.natAbs : Int) e)) :
    floatStableB (fin m e) false = true := by
  by_cases hm : m = 0
  · subst hm; exact floatStableB_zero e false
  · exact floatStableB_ne m e hm (h.resolve_left hm)

theorem weightStableB_fin (m e : Int) (h : m = 0 ∨ IsRep (fin (m.natAbs : Int) e)) :
    weightStableB (fin m e) = true := by
  by_cases hm : m = 0
  · subst hm; exact weightStableB_zero e
  · exact weightStableB_ne m e hm (h.resolve_left hm)

/-! ### the exact condition, for doubles in the reader's own representation -/

/-- a non-zero finite double read from a decimal: its pair is the `RSpecW` witnesses of the decimal,
    and it is a genuine binary64 value -/
theorem decToDbl_fin_struct (D : Nat) (s : Int) (hD : D ≠ 0) (m e : Int) (h : decToDbl D s = fin m e)
    (hm : m ≠ 0) : RSpecW (decVal D s) e m ∧ 0 < m ∧ IsRep (fin m e) := by
  obtain ⟨K, Q, hW, hr⟩ := decToDbl_struct D s hD
  have hstruct : RSpecW (decVal D s) e m ∧ 0 < m := by
    rw [hr] at h
    unfold roundOut at h
    split at h
    · injection h with h1 h2; exact absurd h1.symm hm
    · split at h
      · cases h
      · rename_i hQ _
        injection h with h1 h2
        subst h1; subst h2
        exact ⟨hW, by omega⟩
  refine ⟨hstruct.1, hstruct.2, ?_⟩
  obtain ⟨r, hspec, hcase⟩ := decToDbl_spec D s hD
  rcases hcase with ⟨hlt, m', e', h1, h2, h3⟩ | ⟨_, hinf⟩
  · rw [h] at h1
    injection h1 with g1 g2
    subst g1; subst g2
    refine ⟨m, e, rfl, h2, ?_, ?_⟩
    · rw [val_fin, h3]; exact RSpec_idem hspec
    · rw [val_fin, h3]; exact hlt
  · rw [h] at hinf; cases hinf

/-- the range of the rounded mantissa -/
theorem RSpecW_range {v : ℚ} {k Q : Int} (h : RSpecW v k Q) :
    Q ≤ 2 ^ 53 ∧ (k ≠ -1074 → 2 ^ 52 ≤ Q) ∧ -1074 ≤ k := by
  obtain ⟨hk, hu, hl, ha, hb, -, -⟩ := h
  obtain ⟨e1, f1, g1⟩ := zpow_split k
  have hP := two_zpow_pos (k - 1)
  refine ⟨Q_le_of hP (by rw [← g1]; exact hu) ha, ?_, hk⟩
  intro hne
  rcases hl with h | h
  · exact absurd h hne
  · exact Q_ge_of hP (by rw [← f1]; exact h) hb

/-- two pairs in the reader's representation with the same value are the same pair, except at a
    power of two, which has one pair in its own binade (`2^52`) and one in the binade below (`2^53`) -/
theorem canon_unique (m e m1 e1 : Int) (hm0 : 0 < m) (hm : m ≤ 2 ^ 53) (hml : e ≠ -1074 → 2 ^ 52 ≤ m)
    (he : -1074 ≤ e) (hm1 : m1 ≤ 2 ^ 53) (hm1l : e1 ≠ -1074 → 2 ^ 52 ≤ m1) (he1 : -1074 ≤ e1)
    (hval : (m1 : ℚ) * 2 ^ e1 = (m : ℚ) * 2 ^ e) (h53 : m ≠ 2 ^ 53)
    (h52 : ¬ (m = 2 ^ 52 ∧ e ≠ -1074)) : m1 = m ∧ e1 = e := by
  rcases lt_trichotomy e1 e with hlt | heq | hgt
  · exfalso
    -- m1 = m·2^(e-e1)
    have hq : (m1 : ℚ) = ((m * 2 ^ (e - e1).toNat : Int) : ℚ) := by
      push_cast
      rw [two_zpow_toNat _ (by omega)]
      have hE : (2 : ℚ) ^ e = 2 ^ (e - e1) * 2 ^ e1 := by rw [← two_zpow_add]; congr 1; ring
      rw [hE] at hval
      apply mul_right_cancel₀ (ne_of_gt (two_zpow_pos e1))
      rw [hval]; ring
    have hi : m1 = m * 2 ^ (e - e1).toNat := by exact_mod_cast hq
    obtain ⟨j, hj⟩ : ∃ j, (e - e1).toNat = j + 1 := ⟨(e - e1).toNat - 1, by omega⟩
    rw [hj, pow_succ] at hi
    have hpos : (1 : Int) ≤ 2 ^ j := by exact_mod_cast Nat.one_le_two_pow
    have h2m : 2 * m ≤ m1 := by
      rw [hi]; nlinarith
    have := hml (by omega)
    exact h52 ⟨by omega, by omega⟩
  · subst heq
    refine ⟨?_, rfl⟩
    have := mul_right_cancel₀ (ne_of_gt (two_zpow_pos e1)) hval
    exact_mod_cast this
  · exfalso
    have hq : (m : ℚ) = ((m1 * 2 ^ (e1 - e).toNat : Int) : ℚ) := by
      push_cast
      rw [two_zpow_toNat _ (by omega)]
      have hE : (2 : ℚ) ^ e1 = 2 ^ (e1 - e) * 2 ^ e := by rw [← two_zpow_add]; congr 1; ring
      rw [hE] at hval
      apply mul_right_cancel₀ (ne_of_gt (two_zpow_pos e))
      rw [← hval]; ring
    have hi : m = m1 * 2 ^ (e1 - e).toNat := by exact_mod_cast hq
    obtain ⟨j, hj⟩ : ∃ j, (e1 - e).toNat = j + 1 := ⟨(e1 - e).toNat - 1, by omega⟩
    rw [hj, pow_succ] at hi
    have hpos : (1 : Int) ≤ 2 ^ j := by exact_mod_cast Nat.one_le_two_pow
    have h1 := hm1l (by omega)
    have h2m : 2 * m1 ≤ m := by
      rw [hi]; nlinarith
    omega

/-- **(B), exactly**: a double in the reader's own representation (`decToDbl D s = fin n e`) that is
    not a power of two above the subnormal range — `n ≠ 2^53`, and `n ≠ 2^52` unless `e = -1074` —
    is read back from its printed text as the very same `Dbl` term, with either sign -/
theorem reads_exact (D : Nat) (s : Int) (hD : D ≠ 0) (n : Nat) (e : Int)
    (h : decToDbl D s = fin (n : Int) e) (hn : n ≠ 0) (h53 : n ≠ 2 ^ 53)
    (h52 : ¬ (n = 2 ^ 52 ∧ e ≠ -1074)) (m : Int) (hmn : m.natAbs = n) :
    readFloatText (Dbl.repr (fin m e)).toList = some (decide (m < 0), fin (n : Int) e) := by
  obtain ⟨hW, hpos, hrep⟩ := decToDbl_fin_struct D s hD n e h (by omega)
  obtain ⟨r1, r2, r3⟩ := RSpecW_range hW
  have hm : m ≠ 0 := by omega
  obtain ⟨m1, e1, hm1, hval, hread, hdec⟩ := repr_reads m e hm (by rw [hmn]; exact hrep)
  rw [hmn] at hval hdec
  generalize hsd : shortestDigits n e = sd at hdec
  obtain ⟨D0, s0⟩ := sd
  simp only [] at hdec
  have hD0 : D0 ≠ 0 := by
    intro h0
    subst h0
    have : decToDbl 0 s0 = fin 0 0 := by
      unfold decToDbl roundRat
      split <;> simp
    rw [this] at hdec
    injection hdec with g1 g2
    omega
  obtain ⟨hW1, _, _⟩ := decToDbl_fin_struct D0 s0 hD0 m1 e1 hdec.symm (by omega)
  obtain ⟨q1, q2, q3⟩ := RSpecW_range hW1
  obtain ⟨g1, g2⟩ := canon_unique n e m1 e1 hpos r1 r2 r3 q1 q2 q3 (by rw [hval]; push_cast; rfl)
    (by intro hc; apply h53; exact_mod_cast hc)
    (by rintro ⟨hc, hc'⟩; exact h52 ⟨by exact_mod_cast hc, hc'⟩)
  rw [hread, g1, g2]

theorem floatReadsB_exact (D : Nat) (s : Int) (hD : D ≠ 0) (n : Nat) (e : Int)
    (h : decToDbl D s = fin (n : Int) e) (hn : n ≠ 0) (h53 : n ≠ 2 ^ 53)
    (h52 : ¬ (n = 2 ^ 52 ∧ e ≠ -1074)) :
    floatReadsB (fin (n : Int) e) false = true ∧ floatReadsB (fin (-(n : Int)) e) false = true ∧
      weightReadsB (fin (n : Int) e) = true ∧ weightReadsB (fin (-(n : Int)) e) = true := by
  have hp := reads_exact D s hD n e h hn h53 h52 (n : Int) (Int.natAbs_natCast n)
  have hq := reads_exact D s hD n e h hn h53 h52 (-(n : Int)) (by simp)
  have d1 : decide ((n : Int) < 0) = false := by simp
  have d2 : decide (-(n : Int) < 0) = true := by simp; omega
  rw [d1] at hp
  rw [d2] at hq
  have hfs : ∀ d, floatStr d false = Dbl.repr d := fun _ => rfl
  have hz : PyRead.isZero (fin (n : Int) e) = false := isZero_of_ne _ _ (by omega)
  refine ⟨?_, ?_, ?_, ?_⟩
  · unfold floatReadsB
    rw [hfs, hp]
    simp only [signedFloat, Bool.false_eq_true, if_false, dblSame_fin, beq_self_eq_true, Bool.and_self]
  · unfold floatReadsB
    rw [hfs, hq]
    simp only [signedFloat, if_true, Dbl.neg, hz, dblSame_fin, beq_self_eq_true, Bool.and_self]
  · unfold weightReadsB
    rw [hp]
    simp only [signedFloat, Bool.false_eq_true, if_false, dblSame_fin]
  · unfold weightReadsB
    rw [hq]
    simp only [signedFloat, if_true, Dbl.neg, dblSame_fin]

/-! ### a computable test for "genuine finite binary64 value" -/

/-- rounding commutes with the sign (the case left open in `Proofs/DblRound.lean`) -/
theorem round_neg_nat (n : Nat) (hn : n ≠ 0) (e : Int) :
    round (-(n : Int)) e = Dbl.neg (round (n : Int) e) := by
  have h0 : ((n : Int) == 0) = false := by rw [beq_eq_false_iff_ne]; omega
  have h0' : ((-(n : Int)) == 0) = false := by rw [beq_eq_false_iff_ne]; omega
  have hneg : ¬ ((n : Int) < 0) := by omega
  have hneg' : (-(n : Int)) < 0 := by omega
  unfold round
  simp only [h0, h0', Bool.false_eq_true, if_false, Int.natAbs_neg, Int.natAbs_natCast, hneg, hneg',
    if_true]
  split
  · split <;> rfl
  · split
    all_goals
      split
      · rfl
      · split <;> rfl

/-- `|m|·2^e` is a fixed point of rounding: decidable by evaluation -/
def isBinary64 (m e : Int) : Bool := round (m.natAbs : Int) e == fin (m.natAbs : Int) e

theorem isRep_of_isBinary64 (m e : Int) (h : isBinary64 m e = true) : IsRep (fin (m.natAbs : Int) e) := by
  unfold isBinary64 at h
  obtain ⟨r, hr, hcase⟩ := round_spec_nat m.natAbs e
  rcases hcase with ⟨hlt, m', e', h1, h2, h3⟩ | ⟨_, hinf⟩
  · rw [h1, beq_fin_iff, val_fin, h3] at h
    refine ⟨_, _, rfl, by omega, ?_, ?_⟩
    · rw [← h]; rw [val_fin, Int.cast_natCast, ← h] at *; exact RSpec_idem hr
    · rw [← h]; exact hlt
  · rw [hinf] at h
    exact absurd h (by simp [BEq.beq, Dbl.beq, cmp]; decide)

theorem isBinary64_of_isRep (m e : Int) (hm : 0 ≤ m) (h : IsRep (fin m e)) : isBinary64 m e = true := by
  unfold isBinary64
  have hm' : ((m.natAbs : Nat) : Int) = m := by omega
  rw [hm']
  obtain ⟨m', e', h1, _, h3⟩ := round_idem (fin m e) h m e hm (by rw [val_fin])
  rw [h1, beq_fin_iff, h3]

/-- the condition on a float constant of the source: a finite genuine binary64 value; the
    `-0.0` flag only on a zero -/
def finiteFloatB (d : Dbl) (nz : Bool) : Bool :=
  match d with
  | fin m e => isBinary64 m e && (!nz || m == 0)
  | _ => false

/-- the condition on a float weight of the source: a finite genuine binary64 value -/
def finiteWeightB (d : Dbl) : Bool :=
  match d with
  | fin m e => isBinary64 m e
  | _ => false

theorem floatStableB_of_finite (d : Dbl) (nz : Bool) (h : finiteFloatB d nz = true) :
    floatStableB d nz = true := by
  cases d with
  | fin m e =>
    simp only [finiteFloatB, Bool.and_eq_true, Bool.or_eq_true, Bool.not_eq_eq_eq_not, Bool.not_true,
      beq_iff_eq] at h
    obtain ⟨h1, h2⟩ := h
    by_cases hm : m = 0
    · subst hm; exact floatStableB_zero e nz
    · have hnz : nz = false := h2.resolve_right hm
      subst hnz
      exact floatStableB_ne m e hm (isRep_of_isBinary64 m e h1)
  | pinf => simp [finiteFloatB] at h
  | ninf => simp [finiteFloatB] at h
  | nan => simp [finiteFloatB] at h

theorem weightStableB_of_finite (d : Dbl) (h : finiteWeightB d = true) : weightStableB d = true := by
  cases d with
  | fin m e =>
    simp only [finiteWeightB] at h
    exact weightStableB_fin m e (Or.inr (isRep_of_isBinary64 m e h))
  | pinf => simp [finiteWeightB] at h
  | ninf => simp [finiteWeightB] at h
  | nan => simp [finiteWeightB] at h

/-- the `-0.0` flag the parser computes for `- <float literal>` -/
def negZeroFlag (d : Dbl) : Bool :=
  match d with
  | .fin 0 _ => true
  | _ => false

/-- a genuine non-negative double and its negation pass the test -/
theorem finiteFloatB_of_isRep (d : Dbl) (h : IsRep d) :
    finiteFloatB d false = true ∧ finiteWeightB d = true ∧
      finiteFloatB (Dbl.neg d) (negZeroFlag d) = true ∧ finiteWeightB (Dbl.neg d) = true := by
  obtain ⟨m, e, rfl, hm, hs, hlt⟩ := h
  have hb := isBinary64_of_isRep m e hm ⟨m, e, rfl, hm, hs, hlt⟩
  have hbn : isBinary64 (-m) e = true := by
    unfold isBinary64 at hb ⊢
    rw [Int.natAbs_neg]; exact hb
  refine ⟨by simp [finiteFloatB, hb], by simp [finiteWeightB, hb], ?_, by simp [finiteWeightB, Dbl.neg, hbn]⟩
  by_cases h0 : m = 0
  · subst h0
    simp [finiteFloatB, Dbl.neg, hb, negZeroFlag]
  · have : negZeroFlag (fin m e) = false := by
      unfold negZeroFlag
      split
      · rename_i heq; injection heq with a b; exact absurd a h0
      · rfl
    rw [this]
    simp [finiteFloatB, Dbl.neg, hbn]

theorem finiteFloatB_neg_of_isRep (d : Dbl) (h : IsRep d) : finiteFloatB (Dbl.neg d) false = true := by
  obtain ⟨m, e, rfl, hm, hs, hlt⟩ := h
  have hb := isBinary64_of_isRep m e hm ⟨m, e, rfl, hm, hs, hlt⟩
  have hbn : isBinary64 (-m) e = true := by
    unfold isBinary64 at hb ⊢
    rw [Int.natAbs_neg]; exact hb
  simp [finiteFloatB, Dbl.neg, hbn]

theorem isFinite_of_neg {d : Dbl} (h : (Dbl.neg d).isFinite = true) : d.isFinite = true := by
  cases d <;> simp_all [Dbl.neg, isFinite]

/-- an integer operand turned into a float by the validator (`float(i)`), of either sign -/
theorem finiteFloatB_ofInt (i : Int) (hfin : (ofInt i).isFinite = true) :
    finiteFloatB (ofInt i) false = true := by
  obtain ⟨n, rfl | rfl⟩ := Int.eq_nat_or_neg i
  · exact (finiteFloatB_of_isRep _ (NonnegDouble.isRep ⟨n, 0, by omega, rfl, hfin⟩)).1
  · by_cases hn : n = 0
    · subst hn
      exact (finiteFloatB_of_isRep _ (NonnegDouble.isRep ⟨0, 0, by omega, rfl, hfin⟩)).1
    · unfold ofInt at hfin ⊢
      rw [round_neg_nat n hn 0] at hfin ⊢
      exact finiteFloatB_neg_of_isRep _
        (NonnegDouble.isRep ⟨n, 0, by omega, rfl, isFinite_of_neg hfin⟩)

end Dbl
end Pyab
