/-
  C07/C08 (lexer half): looking rules up in a generated rule table BY NAME.

  The rule tables in `Generated/LexRules.lean` are regenerated on every run.  The proofs about
  them must not depend on the position of a rule in the table, only on
  (a) the rule of a given name (`ruleNamed`), its regex and its action, and
  (b) a decidable property of every rule that is tried before it (`rulesBefore`),
  both of which are evaluated on the actual table by `decide +kernel`.

  * `ruleNamed name rules`: the first rule called `name`;
  * `rulesBefore name rules`: the rules tried before it;
  * `firstMatch_named`: that rule wins when it matches and no rule before it does;
  * decidable equality of regexes / actions / rules (to compare a rule found in the table with
    the shape the proof expects).
-/
import Pyab.Proofs.TriviaLexer
namespace Pyab

deriving instance DecidableEq for Re
deriving instance DecidableEq for LexAction
deriving instance DecidableEq for LexRule

/-- the first rule of the table with this name -/
def ruleNamed (name : String) (rules : List LexRule) : Option LexRule :=
  rules.find? (·.name == name)

/-- the rules the lexer tries before the first rule with this name -/
def rulesBefore (name : String) (rules : List LexRule) : List LexRule :=
  rules.takeWhile (·.name != name)

/-- the table, split at the rule with this name -/
theorem rules_split_named {name : String} : ∀ {rules : List LexRule} {r : LexRule},
    ruleNamed name rules = some r → ∃ post, rules = rulesBefore name rules ++ r :: post
  | [], _, h => by simp [ruleNamed] at h
  | x :: rules, r, h => by
    unfold ruleNamed at h
    rw [List.find?_cons] at h
    unfold rulesBefore
    rw [List.takeWhile_cons]
    cases hx : (x.name == name) with
    | true =>
      rw [hx] at h
      simp only [Option.some.injEq] at h
      subst h
      exact ⟨rules, by simp [bne, hx]⟩
    | false =>
      rw [hx] at h
      obtain ⟨post, hpost⟩ := rules_split_named (name := name) (rules := rules) h
      refine ⟨post, ?_⟩
      simp only [bne, hx, Bool.not_false, if_true, List.cons_append]
      exact congrArg _ hpost

/-- **the rule called `name` wins** when it matches and none of the rules before it does -/
theorem firstMatch_named {t : CharTables} {bound : Nat} {name : String} {rules : List LexRule}
    {r : LexRule} {prev : Option Char} {s rest : List Char} {n : Nat}
    (hr : ruleNamed name rules = some r)
    (hpre : ∀ r' ∈ rulesBefore name rules, Re.matchPrefix t bound r'.re prev s = none)
    (hm : Re.matchPrefix t bound r.re prev s = some (n, rest)) :
    firstMatch t bound rules prev s = some (r, n, rest) := by
  obtain ⟨post, hpost⟩ := rules_split_named hr
  rw [hpost, firstMatch_append_none hpre]
  exact firstMatch_cons_some hm

/-- every rule before `name` satisfies the (decidable) check `ok` -/
theorem rulesBefore_all {name : String} {rules : List LexRule} {ok : LexRule → Bool}
    (h : (rulesBefore name rules).all ok = true) : ∀ r' ∈ rulesBefore name rules, ok r' = true :=
  fun r' hr' => List.all_eq_true.1 h r' hr'

end Pyab
