import Pyab.Spec.Semantics
namespace Pyab.Proofs
open Pyab Pyab.Spec

/-! ### operators -/

theorem op_of_canonical {cfg : GenCfg} (hc : CanonicalExpr cfg) (op : CmpOp) :
    pyCompare (cfg.op op.name) = specCmp op := by
  funext a b
  cases op
  · rw [CmpOp.name, hc.ops ("EQ", "==") (by simp [canonicalOps])]; simp [pyCompare, specCmp]
  · rw [CmpOp.name, hc.ops ("GT", ">") (by simp [canonicalOps])]; simp [pyCompare, specCmp]
  · rw [CmpOp.name, hc.ops ("LT", "<") (by simp [canonicalOps])]; simp [pyCompare, specCmp]
  · rw [CmpOp.name, hc.ops ("GE", ">=") (by simp [canonicalOps])]; simp [pyCompare, specCmp]
  · rw [CmpOp.name, hc.ops ("LE", "<=") (by simp [canonicalOps])]; simp [pyCompare, specCmp]
  · rw [CmpOp.name, hc.ops ("NE", "!=") (by simp [canonicalOps])]; simp [pyCompare, specCmp]
  · rw [CmpOp.name, hc.ops ("IN", "in") (by simp [canonicalOps])]; simp [pyCompare, specCmp]
  · rw [CmpOp.name, hc.ops ("NOT_IN", "not in") (by simp [canonicalOps])]; simp [pyCompare, specCmp]

theorem and_of_canonical {cfg : GenCfg} (hc : CanonicalExpr cfg) : cfg.op "AND" = "and" :=
  hc.ops ("AND", "and") (by simp [canonicalOps])
theorem or_of_canonical {cfg : GenCfg} (hc : CanonicalExpr cfg) : cfg.op "OR" = "or" :=
  hc.ops ("OR", "or") (by simp [canonicalOps])
theorem not_of_canonical {cfg : GenCfg} (hc : CanonicalExpr cfg) : cfg.op "NOT" = "not" :=
  hc.ops ("NOT", "not") (by simp [canonicalOps])

/-! ### small facts about `Except` binds -/

theorem bind_ok_iff {α β : Type} {x : Except Err α} {f : α → Except Err β} {b : β} :
    (x >>= f) = .ok b ↔ ∃ a, x = .ok a ∧ f a = .ok b := by
  cases x <;> simp [bind, Except.bind]

/-! ### terms -/

mutual
theorem evalTerm_lower (cfg : GenCfg) (hc : CanonicalExpr cfg)
    (hrb : ∀ s, readBackStr cfg true s = .ok s) (env : Env) :
    ∀ (t : Term) (pt : PTerm), lowerTerm cfg t = .ok pt → evalTerm env pt = specTerm env t
  | .int i, pt, h => by
      simp only [lowerTerm, bind_ok_iff] at h
      obtain ⟨_, _, h⟩ := h
      cases h
      simp [evalTerm, specTerm]
  | .float d nz, pt, h => by
      simp only [lowerTerm] at h
      cases h
      simp [evalTerm, specTerm]
  | .str s, pt, h => by
      simp only [lowerTerm, hc.strTerm, hrb, bind_ok_iff] at h
      obtain ⟨s', hs, h⟩ := h
      cases hs; cases h
      simp [evalTerm, specTerm]
  | .ident n, pt, h => by
      simp only [lowerTerm] at h
      cases h
      simp only [evalTerm, specTerm]
      cases env.get n <;> rfl
  | .tuple l, pt, h => by
      simp only [lowerTerm, hc.tuples, if_true, bind_ok_iff] at h
      obtain ⟨pl, hpl, h⟩ := h
      cases h
      simp [evalTerm, specTerm, evalTerms_lower cfg hc hrb env l pl hpl]
theorem evalTerms_lower (cfg : GenCfg) (hc : CanonicalExpr cfg)
    (hrb : ∀ s, readBackStr cfg true s = .ok s) (env : Env) :
    ∀ (l : List Term) (pl : List PTerm), lowerTerms cfg l = .ok pl → evalTerms env pl = specTerms env l
  | [], pl, h => by
      simp only [lowerTerms] at h
      cases h
      simp [evalTerms, specTerms]
  | t :: ts, pl, h => by
      simp only [lowerTerms, bind_ok_iff] at h
      obtain ⟨a, ha, b, hb, h⟩ := h
      cases h
      simp [evalTerms, specTerms, evalTerm_lower cfg hc hrb env t a ha, evalTerms_lower cfg hc hrb env ts b hb]
end

/-! ### predicates -/

theorem evalExpr_lower (cfg : GenCfg) (hc : CanonicalExpr cfg)
    (hrb : ∀ s, readBackStr cfg true s = .ok s) (env : Env) :
    ∀ (p : Pred) (e : PExpr), lowerPred cfg p = .ok e → evalExpr env e = specPred env p
  | .cmp l op r, e, h => by
      simp only [lowerPred, bind_ok_iff] at h
      obtain ⟨a, ha, b, hb, h⟩ := h
      cases h
      simp [evalExpr, specPred, evalTerm_lower cfg hc hrb env l a ha, evalTerm_lower cfg hc hrb env r b hb,
        op_of_canonical hc]
  | .and p q, e, h => by
      simp only [lowerPred, bind_ok_iff] at h
      obtain ⟨a, ha, b, hb, h⟩ := h
      cases h
      simp [evalExpr, specPred, and_of_canonical hc, evalExpr_lower cfg hc hrb env p a ha,
        evalExpr_lower cfg hc hrb env q b hb]
  | .or p q, e, h => by
      simp only [lowerPred, bind_ok_iff] at h
      obtain ⟨a, ha, b, hb, h⟩ := h
      cases h
      simp [evalExpr, specPred, or_of_canonical hc, evalExpr_lower cfg hc hrb env p a ha,
        evalExpr_lower cfg hc hrb env q b hb]
  | .not p, e, h => by
      simp only [lowerPred, bind_ok_iff] at h
      obtain ⟨a, ha, h⟩ := h
      cases h
      simp [evalExpr, specPred, not_of_canonical hc, evalExpr_lower cfg hc hrb env p a ha]

end Pyab.Proofs

namespace Pyab.Proofs
open Pyab Pyab.Spec

/-! ### indentation structure of the emitted lines -/

/-- `rest` does not continue a chain at depth `d`: it is empty or starts shallower -/
def NotClause : Line → Prop
  | .elifL _ => False
  | .elseL => False
  | _ => True

def Neutral (d : Nat) (rest : List ILine) : Prop :=
  rest = [] ∨ ∃ d' l r, rest = (d', l) :: r ∧ (d' < d ∨ (d' = d ∧ NotClause l))

theorem neutral_seek (env : Env) (d : Nat) (rest : List ILine) (h : Neutral d rest) :
    runLines env (.seek d) rest = runLines env .exec rest := by
  rcases h with rfl | ⟨d', l, r, rfl, hlt | ⟨rfl, hl⟩⟩
  · simp [runLines]
  · have h1 : ¬ d' > d := by omega
    have h2 : (d' == d) = false := by simp; omega
    simp [runLines, classify, h1, h2]
  · cases l <;> simp [NotClause] at hl <;> simp [runLines, classify]

theorem neutral_skip (env : Env) (d : Nat) (rest : List ILine) (h : Neutral d rest) :
    runLines env (.skipChain d) rest = runLines env .exec rest := by
  rcases h with rfl | ⟨d', l, r, rfl, hlt | ⟨rfl, hl⟩⟩
  · simp [runLines]
  · have h1 : ¬ d' > d := by omega
    have h2 : (d' == d) = false := by simp; omega
    simp [runLines, classify, h1, h2]
  · cases l <;> simp [NotClause] at hl <;> simp [runLines, classify]

/-- every line is indented at least `d` -/
def AllGe (d : Nat) (L : List ILine) : Prop := ∀ x ∈ L, d ≤ x.1

theorem seek_skips (env : Env) (d0 : Nat) :
    ∀ (L rest : List ILine), AllGe (d0 + 1) L → runLines env (.seek d0) (L ++ rest) = runLines env (.seek d0) rest
  | [], rest, _ => by simp
  | (d', l) :: L, rest, h => by
      have hd : d' > d0 := by have := h (d', l) (by simp); simp at this; omega
      have := seek_skips env d0 L rest (fun x hx => h x (by simp [hx]))
      simp [runLines, classify, hd, this]

theorem skip_skips (env : Env) (d0 : Nat) :
    ∀ (L rest : List ILine), AllGe (d0 + 1) L → runLines env (.skipChain d0) (L ++ rest) = runLines env (.skipChain d0) rest
  | [], rest, _ => by simp
  | (d', l) :: L, rest, h => by
      have hd : d' > d0 := by have := h (d', l) (by simp); simp at this; omega
      have := skip_skips env d0 L rest (fun x hx => h x (by simp [hx]))
      simp [runLines, classify, hd, this]

mutual
theorem linesCond_allGe (cfg : GenCfg) : ∀ (c : Cond) (d : Nat) (L : List ILine), linesCond cfg d c = .ok L → AllGe d L
  | .ret gs, d, L, h => by
      simp only [linesCond, bind_ok_iff] at h
      obtain ⟨l, _, h⟩ := h
      cases h
      intro x hx; simp at hx; subst hx; simp
  | .ifte p t rest, d, L, h => by
      simp only [linesCond, bind_ok_iff] at h
      obtain ⟨e, _, tb, htb, fb, hfb, h⟩ := h
      cases h
      intro x hx
      simp at hx
      rcases hx with rfl | hx | hx
      · simp
      · have := linesCond_allGe cfg t (d + 1) tb htb x hx; omega
      · exact linesSub_allGe cfg rest d fb hfb x hx
theorem linesSub_allGe (cfg : GenCfg) : ∀ (s : Sub) (d : Nat) (L : List ILine), linesSub cfg d s = .ok L → AllGe d L
  | .none, d, L, h => by
      simp only [linesSub] at h
      cases h
      intro x hx; simp at hx
  | .else_ t, d, L, h => by
      simp only [linesSub, bind_ok_iff] at h
      obtain ⟨tb, htb, h⟩ := h
      cases h
      intro x hx
      simp at hx
      rcases hx with rfl | hx
      · simp
      · have := linesCond_allGe cfg t (d + 1) tb htb x hx; omega
  | .elif p t rest, d, L, h => by
      simp only [linesSub, bind_ok_iff] at h
      obtain ⟨e, _, tb, htb, fb, hfb, h⟩ := h
      cases h
      intro x hx
      simp at hx
      rcases hx with rfl | hx | hx
      · simp
      · have := linesCond_allGe cfg t (d + 1) tb htb x hx; omega
      · exact linesSub_allGe cfg rest d fb hfb x hx
end

/-- what follows the body of a branch at depth `d+1` inside a chain at depth `d` is neutral for `d+1` -/
theorem neutral_sub_append (cfg : GenCfg) (s : Sub) (d : Nat) (L rest : List ILine)
    (h : linesSub cfg d s = .ok L) (hr : Neutral d rest) : Neutral (d + 1) (L ++ rest) := by
  cases s with
  | none =>
      simp only [linesSub] at h; cases h
      rcases hr with rfl | ⟨d', l, r, rfl, hlt⟩
      · left; simp
      · right; exact ⟨d', l, r, by simp, by omega⟩
  | else_ t =>
      simp only [linesSub, bind_ok_iff] at h
      obtain ⟨tb, _, h⟩ := h; cases h
      right; exact ⟨d, .elseL, tb ++ rest, by simp, by omega⟩
  | elif p t r =>
      simp only [linesSub, bind_ok_iff] at h
      obtain ⟨e, _, tb, _, fb, _, h⟩ := h; cases h
      right; exact ⟨d, .elifL e, tb ++ fb ++ rest, by simp, by omega⟩

/-- the remaining clauses of a chain are skipped once a branch has been taken -/
theorem skipChain_sub (cfg : GenCfg) (env : Env) :
    ∀ (s : Sub) (d : Nat) (L rest : List ILine), linesSub cfg d s = .ok L → Neutral d rest →
      runLines env (.skipChain d) (L ++ rest) = runLines env .exec rest
  | .none, d, L, rest, h, hr => by
      simp only [linesSub] at h; cases h
      simpa using neutral_skip env d rest hr
  | .else_ t, d, L, rest, h, hr => by
      simp only [linesSub, bind_ok_iff] at h
      obtain ⟨tb, htb, h⟩ := h; cases h
      have hge := linesCond_allGe cfg t (d + 1) tb htb
      simp [runLines, classify, skip_skips env d tb rest hge, neutral_skip env d rest hr]
  | .elif p t r, d, L, rest, h, hr => by
      simp only [linesSub, bind_ok_iff] at h
      obtain ⟨e, _, tb, htb, fb, hfb, h⟩ := h; cases h
      have hge := linesCond_allGe cfg t (d + 1) tb htb
      have ih := skipChain_sub cfg env r d fb rest hfb hr
      simp [runLines, classify, List.append_assoc, skip_skips env d tb (fb ++ rest) hge, ih]

/-- falling out of a nested conditional that selected nothing lands after the chain -/
theorem exec_sub_after_taken (cfg : GenCfg) (env : Env) (s : Sub) (d : Nat) (L rest : List ILine)
    (h : linesSub cfg d s = .ok L) (hr : Neutral d rest) :
    runLines env .exec (L ++ rest) = runLines env .exec rest := by
  cases s with
  | none => simp only [linesSub] at h; cases h; simp
  | else_ t =>
      have := skipChain_sub cfg env (.else_ t) d L rest h hr
      simp only [linesSub, bind_ok_iff] at h
      obtain ⟨tb, htb, h⟩ := h; cases h
      simp only [List.cons_append, runLines, classify, execAct] at this ⊢
      simpa using this
  | elif p t r =>
      have := skipChain_sub cfg env (.elif p t r) d L rest h hr
      simp only [linesSub, bind_ok_iff] at h
      obtain ⟨e, _, tb, htb, fb, hfb, h⟩ := h; cases h
      simp only [List.cons_append, runLines, classify, execAct] at this ⊢
      simpa using this

end Pyab.Proofs

namespace Pyab.Proofs
open Pyab Pyab.Spec

/-- what the routed return statement hands to `deterministic_choice`, or the unroutable
    error, or the error raised while evaluating a predicate -/
def routeResult (cfg : GenCfg) (r : Except Err (Option (List Group)))
    (onNone : Except Err (List PyVal × List Num)) : Except Err (List PyVal × List Num) :=
  match r with
  | .error e => .error e
  | .ok none => onNone
  | .ok (some gs) => retVals cfg gs

mutual
/-- executing the lines emitted for a conditional at depth `d`, followed by anything that
    does not continue a chain at depth `d` -/
theorem run_linesCond (cfg : GenCfg) (hc : CanonicalExpr cfg)
    (hrb : ∀ s, readBackStr cfg true s = .ok s) (env : Env) :
    ∀ (c : Cond) (d : Nat) (L rest : List ILine), linesCond cfg d c = .ok L → Neutral d rest →
      runLines env .exec (L ++ rest) = routeResult cfg (specRoute env c) (runLines env .exec rest)
  | .ret gs, d, L, rest, h, _ => by
      simp only [linesCond, lowerReturn, bind_ok_iff] at h
      obtain ⟨l, ⟨⟨pop, ws⟩, hv, hl⟩, h⟩ := h
      cases hl; cases h
      simp [runLines, classify, execAct, specRoute, routeResult, hv, pure, Except.pure]
  | .ifte p t sub, d, L, rest, h, hr => by
      simp only [linesCond, bind_ok_iff] at h
      obtain ⟨e, he, tb, htb, fb, hfb, h⟩ := h
      cases h
      have hp := evalExpr_lower cfg hc hrb env p e he
      have hN : Neutral (d + 1) (fb ++ rest) := neutral_sub_append cfg sub d fb rest hfb hr
      have ihT := run_linesCond cfg hc hrb env t (d + 1) tb (fb ++ rest) htb hN
      have ihS := run_linesSub cfg hc hrb env sub d fb rest hfb hr
      have hge := linesCond_allGe cfg t (d + 1) tb htb
      have hfall := exec_sub_after_taken cfg env sub d fb rest hfb hr
      simp only [List.cons_append, List.append_assoc, runLines, classify, execAct, specRoute, hp]
      cases hsp : specPred env p with
      | error err => simp [routeResult, bind, Except.bind]
      | ok b =>
        cases b with
        | true =>
            simp only [bind, Except.bind, if_true]
            rw [ihT, hfall]
        | false =>
            simp only [bind, Except.bind, Bool.false_eq_true, if_false]
            rw [seek_skips env d tb (fb ++ rest) hge, ihS]
/-- continuing a chain at depth `d` after a false `if`/`elif` -/
theorem run_linesSub (cfg : GenCfg) (hc : CanonicalExpr cfg)
    (hrb : ∀ s, readBackStr cfg true s = .ok s) (env : Env) :
    ∀ (s : Sub) (d : Nat) (L rest : List ILine), linesSub cfg d s = .ok L → Neutral d rest →
      runLines env (.seek d) (L ++ rest) = routeResult cfg (specSub env s) (runLines env .exec rest)
  | .none, d, L, rest, h, hr => by
      simp only [linesSub] at h; cases h
      simp [specSub, routeResult, neutral_seek env d rest hr, pure, Except.pure]
  | .else_ t, d, L, rest, h, hr => by
      simp only [linesSub, bind_ok_iff] at h
      obtain ⟨tb, htb, h⟩ := h; cases h
      have hN : Neutral (d + 1) rest := by
        rcases hr with rfl | ⟨d', l, r, rfl, hlt⟩
        · left; rfl
        · right; exact ⟨d', l, r, rfl, by omega⟩
      have ihT := run_linesCond cfg hc hrb env t (d + 1) tb rest htb hN
      simp [runLines, classify, specSub, ihT]
  | .elif p t sub, d, L, rest, h, hr => by
      simp only [linesSub, bind_ok_iff] at h
      obtain ⟨e, he, tb, htb, fb, hfb, h⟩ := h
      cases h
      have hp := evalExpr_lower cfg hc hrb env p e he
      have hN : Neutral (d + 1) (fb ++ rest) := neutral_sub_append cfg sub d fb rest hfb hr
      have ihT := run_linesCond cfg hc hrb env t (d + 1) tb (fb ++ rest) htb hN
      have ihS := run_linesSub cfg hc hrb env sub d fb rest hfb hr
      have hge := linesCond_allGe cfg t (d + 1) tb htb
      have hfall := exec_sub_after_taken cfg env sub d fb rest hfb hr
      simp only [List.cons_append, List.append_assoc, runLines, classify, specSub, hp,
        Nat.lt_irrefl, gt_iff_lt, if_false, beq_self_eq_true, if_true]
      cases hsp : specPred env p with
      | error err => simp [routeResult, bind, Except.bind]
      | ok b =>
        cases b with
        | true =>
            simp only [bind, Except.bind, if_true]
            rw [ihT, hfall]
        | false =>
            simp only [bind, Except.bind, Bool.false_eq_true, if_false]
            rw [seek_skips env d tb (fb ++ rest) hge, ihS]
end

/-- the whole body of `choose_experiment_variant`: conditionals, then the trailing raise -/
theorem run_bodyLines (cfg : GenCfg) (hc : CanonicalExpr cfg)
    (hrb : ∀ s, readBackStr cfg true s = .ok s) (env : Env) (c : Cond) (d : Nat) (L : List ILine)
    (h : bodyLines cfg d c = .ok L) :
    runLines env .exec L = routeResult cfg (specRoute env c) (.error .unroutable) := by
  simp only [bodyLines, bind_ok_iff] at h
  obtain ⟨Lc, hLc, h⟩ := h
  cases h
  have hN : Neutral d [(d, Line.raiseU)] := by
    right; exact ⟨d, .raiseU, [], rfl, Or.inr ⟨rfl, trivial⟩⟩
  have := run_linesCond cfg hc hrb env c d Lc [(d, .raiseU)] hLc hN
  rw [this]
  simp [runLines, classify, execAct]
  rfl

end Pyab.Proofs
