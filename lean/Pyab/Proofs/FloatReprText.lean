/-
  The text `Dbl.repr` writes around the digits — fixed or exponent notation, the sign, `.0`,
  leading `0.000`, `e+XX` / `e-XX` — is read by the number scanner of `Model/PyRead.lean`
  (`readFloatText`) as the decimal those digits denote:

      readFloatText (fmtDigits sgn D s).toList = some (neg, decToDbl D s)         (`read_fmtDigits`)

  for every non-zero digit block `D`, every scale `s` with a decimal exponent of at most three
  digits; `repr_fin` says that `repr (fin m e)` is `fmtDigits` of the stripped shortest digits.
  The reader may see another digit block and scale than `(D, s)` (appended zeros in `D000.0`);
  the double is the same because `decToDbl` depends on the value only (`decToDbl_congr`).
-/
import Pyab.Proofs.PyReadRoundtrip
import Pyab.Proofs.FloatReprCanon

namespace Pyab
namespace Dbl
open Pyab.Proofs Pyab.PyRead

/-! ### `repr` in two steps: digits, then text -/

/-- the text `repr` writes for the sign text `sgn`, the stripped digits `D` and the scale `s` -/
def fmtDigits (sgn : String) (D : Nat) (s : Int) : String :=
  let ds := toString D
  let nd : Int := ds.length
  let decpt : Int := nd + s
  if -4 < decpt && decpt ≤ 16 then
    if s ≥ 0 then sgn ++ ds ++ String.ofList (List.replicate s.toNat '0') ++ ".0"
    else if decpt > 0 then
      sgn ++ String.ofList (ds.toList.take decpt.toNat) ++ "." ++ String.ofList (ds.toList.drop decpt.toNat)
    else sgn ++ "0." ++ String.ofList (List.replicate (-decpt).toNat '0') ++ ds
  else
    let ex := decpt - 1
    let mant := if ds.length == 1 then ds
                else String.ofList (ds.toList.take 1) ++ "." ++ String.ofList (ds.toList.drop 1)
    let exs := toString ex.natAbs
    let exs := if exs.length < 2 then "0" ++ exs else exs
    sgn ++ mant ++ "e" ++ (if ex < 0 then "-" else "+") ++ exs

theorem repr_fin (m e : Int) (hm : m ≠ 0) :
    Dbl.repr (fin m e) = fmtDigits (if m < 0 then "-" else "")
      (stripZeros 20 (shortestDigits m.natAbs e).1 (shortestDigits m.natAbs e).2).1
      (stripZeros 20 (shortestDigits m.natAbs e).1 (shortestDigits m.natAbs e).2).2 := by
  have h0 : (m == 0) = false := by simpa using hm
  unfold Dbl.repr
  simp only [h0, Bool.false_eq_true, if_false]
  rfl

theorem repr_zero (e : Int) : Dbl.repr (fin 0 e) = "0.0" := rfl

/-- the same text as a list of characters, from the digit characters `L` of `D` -/
def fmtList (L : List Char) (s : Int) : List Char :=
  if -4 < (L.length : Int) + s ∧ (L.length : Int) + s ≤ 16 then
    if s ≥ 0 then L ++ (List.replicate s.toNat '0' ++ ['.', '0'])
    else if (L.length : Int) + s > 0 then
      L.take ((L.length : Int) + s).toNat ++ '.' :: L.drop ((L.length : Int) + s).toNat
    else '0' :: '.' :: (List.replicate (-((L.length : Int) + s)).toNat '0' ++ L)
  else
    (if L.length = 1 then L else L.take 1 ++ '.' :: L.drop 1) ++
      'e' :: (if (L.length : Int) + s - 1 < 0 then '-' else '+') ::
        (if (Nat.toDigits 10 ((L.length : Int) + s - 1).natAbs).length < 2
          then '0' :: Nat.toDigits 10 ((L.length : Int) + s - 1).natAbs
          else Nat.toDigits 10 ((L.length : Int) + s - 1).natAbs)

theorem toString_nat_toList (n : Nat) : (toString n).toList = Nat.toDigits 10 n := by
  simp

theorem toString_nat_length (n : Nat) : (toString n).length = (Nat.toDigits 10 n).length := by
  rw [← String.length_toList, toString_nat_toList]

set_option linter.unusedSimpArgs false in
theorem fmtDigits_toList (sgn : String) (D : Nat) (s : Int) :
    (fmtDigits sgn D s).toList = sgn.toList ++ fmtList (Nat.toDigits 10 D) s := by
  unfold fmtDigits fmtList
  simp only [toString_nat_length, toString_nat_toList]
  generalize hL : Nat.toDigits 10 D = L
  generalize hX : Nat.toDigits 10 ((L.length : Int) + s - 1).natAbs = X
  by_cases h1 : -4 < (L.length : Int) + s ∧ (L.length : Int) + s ≤ 16
  · have h1' : (decide (-4 < (L.length : Int) + s) && decide ((L.length : Int) + s ≤ 16)) = true := by
      simpa using h1
    rw [if_pos h1, if_pos h1']
    by_cases h2 : s ≥ 0
    · rw [if_pos h2, if_pos h2]
      simp [String.toList_append, String.toList_ofList, List.append_assoc, hL, hX]
    · rw [if_neg h2, if_neg h2]
      by_cases h3 : (L.length : Int) + s > 0
      · rw [if_pos h3, if_pos h3]
        simp [String.toList_append, String.toList_ofList, List.append_assoc, hL, hX]
      · rw [if_neg h3, if_neg h3]
        simp [String.toList_append, String.toList_ofList, List.append_assoc, hL, hX]
  · have h1' : (decide (-4 < (L.length : Int) + s) && decide ((L.length : Int) + s ≤ 16)) = false := by
      simpa using h1
    rw [if_neg h1, h1']
    simp only [Bool.false_eq_true, if_false]
    by_cases h4 : L.length = 1
    · have h4' : (L.length == 1) = true := by simpa using h4
      rw [if_pos h4, h4']
      by_cases h5 : X.length < 2
      · rw [if_pos h5, if_pos h5]
        by_cases h6 : (L.length : Int) + s - 1 < 0
        · rw [if_pos h6, if_pos h6]
          simp [String.toList_append, String.toList_ofList, List.append_assoc, hL, hX]
        · rw [if_neg h6, if_neg h6]
          simp [String.toList_append, String.toList_ofList, List.append_assoc, hL, hX]
      · rw [if_neg h5, if_neg h5]
        by_cases h6 : (L.length : Int) + s - 1 < 0
        · rw [if_pos h6, if_pos h6]
          simp [String.toList_append, String.toList_ofList, List.append_assoc, hL, hX]
        · rw [if_neg h6, if_neg h6]
          simp [String.toList_append, String.toList_ofList, List.append_assoc, hL, hX]
    · have h4' : (L.length == 1) = false := by simpa using h4
      rw [if_neg h4, h4']
      simp only [Bool.false_eq_true, if_false]
      by_cases h5 : X.length < 2
      · rw [if_pos h5, if_pos h5]
        by_cases h6 : (L.length : Int) + s - 1 < 0
        · rw [if_pos h6, if_pos h6]
          simp [String.toList_append, String.toList_ofList, List.append_assoc, hL, hX]
        · rw [if_neg h6, if_neg h6]
          simp [String.toList_append, String.toList_ofList, List.append_assoc, hL, hX]
      · rw [if_neg h5, if_neg h5]
        by_cases h6 : (L.length : Int) + s - 1 < 0
        · rw [if_pos h6, if_pos h6]
          simp [String.toList_append, String.toList_ofList, List.append_assoc, hL, hX]
        · rw [if_neg h6, if_neg h6]
          simp [String.toList_append, String.toList_ofList, List.append_assoc, hL, hX]

/-! ### the scanner on the shapes `repr` writes -/

theorem tw_all (l : List Char) (h : ∀ c ∈ l, c.isDigit = true) :
    l.takeWhile Char.isDigit = l ∧ l.dropWhile Char.isDigit = [] := by
  have a := takeWhile_append_stop l [] h (by simp)
  have b := dropWhile_append_stop l [] h (by simp)
  rw [List.append_nil] at a b
  exact ⟨a, b⟩

theorem mkFloat_eq (ip fp : List Char) (ex : Int) :
    mkFloat ip fp ex = decToDbl (Nat.ofDigitChars 10 (ip ++ fp) 0) (ex - (fp.length : Int)) := rfl

theorem scanExp_end (ip fp : List Char) :
    scanExp ip fp true [] = some (.float (mkFloat ip fp 0), []) := by
  simp [scanExp, scanPlain, numFinish, numFollowOK]

/-- `ip.fp` -/
theorem scanNumber_fixed (ip fp : List Char) (hip : ∀ c ∈ ip, c.isDigit = true)
    (hfp : ∀ c ∈ fp, c.isDigit = true) :
    scanNumber (ip ++ '.' :: fp) = some (.float (mkFloat ip fp 0), []) := by
  have hstop : ∀ c r, '.' :: fp = c :: r → Char.isDigit c = false := by
    intro c r h; cases h; decide
  have h1 := takeWhile_append_stop ip ('.' :: fp) hip hstop
  have h2 := dropWhile_append_stop ip ('.' :: fp) hip hstop
  obtain ⟨h3, h4⟩ := tw_all fp hfp
  unfold scanNumber
  simp only [h1, h2, beq_self_eq_true, if_true, h3, h4]
  exact scanExp_end ip fp

/-- the exponent part `e±ddd` -/
theorem scanExp_e (ip fp : List Char) (isFloat : Bool) (sg : Char) (hsg : sg = '+' ∨ sg = '-')
    (ed : List Char) (hed : ∀ c ∈ ed, c.isDigit = true) (hne : ed ≠ []) (hlen : ed.length ≤ 3) :
    scanExp ip fp isFloat ('e' :: sg :: ed) =
      some (.float (mkFloat ip fp (if sg == '-' then -((Nat.ofDigitChars 10 ed 0 : Nat) : Int)
        else ((Nat.ofDigitChars 10 ed 0 : Nat) : Int))), []) := by
  obtain ⟨h3, h4⟩ := tw_all ed hed
  have hs : (sg == '+' || sg == '-') = true := by rcases hsg with h | h <;> subst h <;> decide
  have hemp : (ed.isEmpty || decide (ed.length > 3)) = false := by
    cases ed with
    | nil => exact absurd rfl hne
    | cons a t => simp at hlen ⊢; omega
  simp only [scanExp, beq_self_eq_true, Bool.true_or, if_true, hs, h3, h4, hemp, Bool.false_eq_true,
    if_false, numFinish, numFollowOK]

/-- `ip.fpe±ddd` -/
theorem scanNumber_sci (ip fp : List Char) (hip : ∀ c ∈ ip, c.isDigit = true)
    (hfp : ∀ c ∈ fp, c.isDigit = true) (sg : Char) (hsg : sg = '+' ∨ sg = '-')
    (ed : List Char) (hed : ∀ c ∈ ed, c.isDigit = true) (hne : ed ≠ []) (hlen : ed.length ≤ 3) :
    scanNumber (ip ++ '.' :: (fp ++ 'e' :: sg :: ed)) =
      some (.float (mkFloat ip fp (if sg == '-' then -((Nat.ofDigitChars 10 ed 0 : Nat) : Int)
        else ((Nat.ofDigitChars 10 ed 0 : Nat) : Int))), []) := by
  have hstop : ∀ c r, '.' :: (fp ++ 'e' :: sg :: ed) = c :: r → Char.isDigit c = false := by
    intro c r h; cases h; decide
  have hstop2 : ∀ c r, 'e' :: sg :: ed = c :: r → Char.isDigit c = false := by
    intro c r h; cases h; decide
  have h1 := takeWhile_append_stop ip _ hip hstop
  have h2 := dropWhile_append_stop ip _ hip hstop
  have h3 := takeWhile_append_stop fp _ hfp hstop2
  have h4 := dropWhile_append_stop fp _ hfp hstop2
  unfold scanNumber
  simp only [h1, h2, beq_self_eq_true, if_true, h3, h4]
  exact scanExp_e ip fp true sg hsg ed hed hne hlen

/-- `ipe±ddd` -/
theorem scanNumber_sci1 (ip : List Char) (hip : ∀ c ∈ ip, c.isDigit = true)
    (sg : Char) (hsg : sg = '+' ∨ sg = '-')
    (ed : List Char) (hed : ∀ c ∈ ed, c.isDigit = true) (hne : ed ≠ []) (hlen : ed.length ≤ 3) :
    scanNumber (ip ++ 'e' :: sg :: ed) =
      some (.float (mkFloat ip [] (if sg == '-' then -((Nat.ofDigitChars 10 ed 0 : Nat) : Int)
        else ((Nat.ofDigitChars 10 ed 0 : Nat) : Int))), []) := by
  have hstop2 : ∀ c r, 'e' :: sg :: ed = c :: r → Char.isDigit c = false := by
    intro c r h; cases h; decide
  have h1 := takeWhile_append_stop ip _ hip hstop2
  have h2 := dropWhile_append_stop ip _ hip hstop2
  unfold scanNumber
  simp only [h1, h2]
  have : ('e' == '.') = false := by decide
  simp only [this, Bool.false_eq_true, if_false]
  exact scanExp_e ip [] false sg hsg ed hed hne hlen

/-! ### the five shapes -/

theorem decVal_scale (D : Nat) (s : Int) (n : Nat) : decVal (10 ^ n * D) (s - n) = decVal D s := by
  unfold decVal
  push_cast
  rw [sub_eq_add_neg, ten_zpow_add, zpow_neg, zpow_natCast]
  have : (10 : ℚ) ^ n ≠ 0 := by positivity
  field_simp

theorem ofDigitChars_zeros_append (z : Nat) (L : List Char) :
    Nat.ofDigitChars 10 (List.replicate z '0' ++ L) 0 = Nat.ofDigitChars 10 L 0 := by
  rw [Nat.ofDigitChars_append, Nat.ofDigitChars_replicate_zero, Nat.mul_zero]

theorem ofDigitChars_append_zeros (z : Nat) (L : List Char) :
    Nat.ofDigitChars 10 (L ++ List.replicate z '0') 0 = 10 ^ z * Nat.ofDigitChars 10 L 0 := by
  rw [Nat.ofDigitChars_append, Nat.ofDigitChars_replicate_zero]

theorem isDigit_zero : Char.isDigit '0' = true := by decide

theorem digits_replicate (z : Nat) : ∀ c ∈ List.replicate z '0', c.isDigit = true := by
  intro c hc
  rw [List.mem_replicate] at hc
  rw [hc.2]; decide

/-- `D000.0` -/
theorem scan_shape1 (L : List Char) (hLd : ∀ c ∈ L, c.isDigit = true) (s : Int) (hs : s ≥ 0)
    (hD : Nat.ofDigitChars 10 L 0 ≠ 0) :
    scanNumber (L ++ (List.replicate s.toNat '0' ++ ['.', '0'])) =
      some (.float (decToDbl (Nat.ofDigitChars 10 L 0) s), []) := by
  have e1 : L ++ (List.replicate s.toNat '0' ++ ['.', '0']) =
      (L ++ List.replicate s.toNat '0') ++ '.' :: ['0'] := by simp
  rw [e1, scanNumber_fixed _ _ (by
    intro c hc
    rcases List.mem_append.1 hc with h | h
    · exact hLd c h
    · exact digits_replicate _ c h) (by intro c hc; simp at hc; subst hc; decide), mkFloat_eq]
  have e2 : (L ++ List.replicate s.toNat '0') ++ ['0'] = L ++ List.replicate (s.toNat + 1) '0' := by
    rw [List.append_assoc, List.replicate_succ']
  rw [e2, ofDigitChars_append_zeros]
  have h10 : 10 ^ (s.toNat + 1) * Nat.ofDigitChars 10 L 0 ≠ 0 := Nat.mul_ne_zero (by positivity) hD
  rw [decToDbl_congr _ _ (Nat.ofDigitChars 10 L 0) s h10 hD]
  have : ((0 : Int) - (([('0' : Char)].length : Nat) : Int)) = s - ((s.toNat + 1 : Nat) : Int) := by
    simp only [List.length_singleton]; omega
  rw [this, decVal_scale]

/-- `DD.DDD` -/
theorem scan_shape2 (L : List Char) (hLd : ∀ c ∈ L, c.isDigit = true) (s : Int) (hs : s < 0)
    (hpos : (L.length : Int) + s > 0) :
    scanNumber (L.take ((L.length : Int) + s).toNat ++ '.' :: L.drop ((L.length : Int) + s).toNat) =
      some (.float (decToDbl (Nat.ofDigitChars 10 L 0) s), []) := by
  rw [scanNumber_fixed _ _ (fun c hc => hLd c (List.mem_of_mem_take hc))
    (fun c hc => hLd c (List.mem_of_mem_drop hc)), mkFloat_eq, List.take_append_drop]
  have hlen : (0 : Int) - (((L.drop ((L.length : Int) + s).toNat).length : Nat) : Int) = s := by
    rw [List.length_drop]; omega
  rw [hlen]

/-- `0.000DDD` -/
theorem scan_shape3 (L : List Char) (hLd : ∀ c ∈ L, c.isDigit = true) (s : Int)
    (hneg : ¬ (L.length : Int) + s > 0) :
    scanNumber ('0' :: '.' :: (List.replicate (-((L.length : Int) + s)).toNat '0' ++ L)) =
      some (.float (decToDbl (Nat.ofDigitChars 10 L 0) s), []) := by
  have e1 : '0' :: '.' :: (List.replicate (-((L.length : Int) + s)).toNat '0' ++ L) =
      ['0'] ++ '.' :: (List.replicate (-((L.length : Int) + s)).toNat '0' ++ L) := rfl
  rw [e1, scanNumber_fixed _ _ (by intro c hc; simp at hc; subst hc; decide) (by
    intro c hc
    rcases List.mem_append.1 hc with h | h
    · exact digits_replicate _ c h
    · exact hLd c h), mkFloat_eq]
  have e2 : ['0'] ++ (List.replicate (-((L.length : Int) + s)).toNat '0' ++ L) =
      List.replicate ((-((L.length : Int) + s)).toNat + 1) '0' ++ L := by
    rw [List.replicate_succ]; rfl
  rw [e2, ofDigitChars_zeros_append]
  have hlen : (0 : Int) -
      (((List.replicate (-((L.length : Int) + s)).toNat '0' ++ L).length : Nat) : Int) = s := by
    rw [List.length_append, List.length_replicate]; omega
  rw [hlen]

/-- the digits of the exponent: at least two, at most three, value `|ex|` -/
theorem expDigits_spec (a : Nat) (ha : a < 1000) :
    let X := Nat.toDigits 10 a
    let ed := if X.length < 2 then '0' :: X else X
    (∀ c ∈ ed, c.isDigit = true) ∧ ed ≠ [] ∧ ed.length ≤ 3 ∧ Nat.ofDigitChars 10 ed 0 = a := by
  intro X ed
  have hX : ∀ c ∈ X, c.isDigit = true := fun c hc =>
    Nat.isDigit_of_mem_toDigits (by decide) (by decide) hc
  have hXne : X ≠ [] := Nat.toDigits_ne_nil
  have hXlen : X.length ≤ 3 := (Nat.length_toDigits_le_iff (by decide) (by decide)).2 (by simpa using ha)
  have hXv : Nat.ofDigitChars 10 X 0 = a := Nat.ofDigitChars_ten_toDigits
  by_cases h : X.length < 2
  · have : ed = '0' :: X := if_pos h
    rw [this]
    refine ⟨?_, by simp, by simp; omega, ?_⟩
    · intro c hc
      rcases List.mem_cons.1 hc with h' | h'
      · rw [h']; decide
      · exact hX c h'
    · rw [Nat.ofDigitChars_cons]; simpa using hXv
  · have : ed = X := if_neg h
    rw [this]
    exact ⟨hX, hXne, hXlen, hXv⟩

/-- `D.DDDe±XX`, `De±XX` -/
theorem scan_shape_sci (L : List Char) (hLd : ∀ c ∈ L, c.isDigit = true) (hLne : L ≠ []) (s : Int)
    (hex : ((L.length : Int) + s - 1).natAbs < 1000) :
    scanNumber ((if L.length = 1 then L else L.take 1 ++ '.' :: L.drop 1) ++
      'e' :: (if (L.length : Int) + s - 1 < 0 then '-' else '+') ::
        (if (Nat.toDigits 10 ((L.length : Int) + s - 1).natAbs).length < 2
          then '0' :: Nat.toDigits 10 ((L.length : Int) + s - 1).natAbs
          else Nat.toDigits 10 ((L.length : Int) + s - 1).natAbs)) =
      some (.float (decToDbl (Nat.ofDigitChars 10 L 0) s), []) := by
  obtain ⟨d1, d2, d3, d4⟩ := expDigits_spec _ hex
  generalize (if (Nat.toDigits 10 ((L.length : Int) + s - 1).natAbs).length < 2
          then '0' :: Nat.toDigits 10 ((L.length : Int) + s - 1).natAbs
          else Nat.toDigits 10 ((L.length : Int) + s - 1).natAbs) = ed at *
  have hsg : (if (L.length : Int) + s - 1 < 0 then '-' else '+') = '+' ∨
      (if (L.length : Int) + s - 1 < 0 then '-' else '+') = '-' := by
    split
    · exact Or.inr rfl
    · exact Or.inl rfl
  have hval : (if (if (L.length : Int) + s - 1 < 0 then '-' else '+') == '-'
      then -((Nat.ofDigitChars 10 ed 0 : Nat) : Int) else ((Nat.ofDigitChars 10 ed 0 : Nat) : Int)) =
      (L.length : Int) + s - 1 := by
    rw [d4]
    by_cases h : (L.length : Int) + s - 1 < 0
    · rw [if_pos h]
      have : (('-' : Char) == '-') = true := by decide
      rw [if_pos this]; omega
    · rw [if_neg h]
      have : (('+' : Char) == '-') = false := by decide
      rw [this]; simp only [Bool.false_eq_true, if_false]; omega
  by_cases h1 : L.length = 1
  · rw [if_pos h1, scanNumber_sci1 L hLd _ hsg ed d1 d2 d3, hval, mkFloat_eq, List.append_nil]
    have hlen : (L.length : Int) + s - 1 - ((([] : List Char).length : Nat) : Int) = s := by
      simp only [List.length_nil]; omega
    rw [hlen]
  · rw [if_neg h1]
    have e1 : (L.take 1 ++ '.' :: L.drop 1) ++ 'e' :: (if (L.length : Int) + s - 1 < 0 then '-' else '+') :: ed
        = L.take 1 ++ '.' :: (L.drop 1 ++ 'e' :: (if (L.length : Int) + s - 1 < 0 then '-' else '+') :: ed) := by
      simp
    rw [e1, scanNumber_sci _ _ (fun c hc => hLd c (List.mem_of_mem_take hc))
      (fun c hc => hLd c (List.mem_of_mem_drop hc)) _ hsg ed d1 d2 d3, hval, mkFloat_eq,
      List.take_append_drop]
    have hlen : (L.length : Int) + s - 1 - (((L.drop 1).length : Nat) : Int) = s := by
      rw [List.length_drop]
      have : 0 < L.length := List.length_pos_iff.2 hLne
      omega
    rw [hlen]

/-- every shape starts with a digit and is scanned as the decimal `D·10^s` -/
theorem scan_fmtList (L : List Char) (hLd : ∀ c ∈ L, c.isDigit = true) (hLne : L ≠ []) (s : Int)
    (hD : Nat.ofDigitChars 10 L 0 ≠ 0) (hex : ((L.length : Int) + s - 1).natAbs < 1000) :
    scanNumber (fmtList L s) = some (.float (decToDbl (Nat.ofDigitChars 10 L 0) s), []) ∧
      ∃ d r, fmtList L s = d :: r ∧ d.isDigit = true := by
  obtain ⟨a, t, rfl⟩ := List.exists_cons_of_ne_nil hLne
  have ha : a.isDigit = true := hLd a (by simp)
  unfold fmtList
  by_cases h1 : -4 < ((a :: t).length : Int) + s ∧ ((a :: t).length : Int) + s ≤ 16
  · rw [if_pos h1]
    by_cases h2 : s ≥ 0
    · rw [if_pos h2]
      exact ⟨scan_shape1 _ hLd s h2 hD, a, _, rfl, ha⟩
    · rw [if_neg h2]
      by_cases h3 : ((a :: t).length : Int) + s > 0
      · rw [if_pos h3]
        refine ⟨scan_shape2 _ hLd s (by omega) h3, a, ?_⟩
        obtain ⟨n, hn⟩ : ∃ n, (((a :: t).length : Int) + s).toNat = n + 1 := ⟨_, (Nat.succ_pred_eq_of_pos (by omega)).symm⟩
        rw [hn]
        exact ⟨_, rfl, ha⟩
      · rw [if_neg h3]
        exact ⟨scan_shape3 _ hLd s h3, '0', _, rfl, by decide⟩
  · rw [if_neg h1]
    refine ⟨scan_shape_sci _ hLd hLne s hex, a, ?_⟩
    by_cases h4 : (a :: t).length = 1
    · rw [if_pos h4]; exact ⟨_, rfl, ha⟩
    · rw [if_neg h4]; exact ⟨_, rfl, ha⟩

/-! ### the float reader on the text of `repr` -/

theorem readFloatText_body (neg : Bool) (body : List Char) (d : Char) (r : List Char)
    (hb : body = d :: r) (hd : d.isDigit = true) (v : Dbl)
    (hs : scanNumber body = some (.float v, [])) :
    readFloatText ((if neg then "-" else "").toList ++ body) = some (neg, v) := by
  subst hb
  have hdm : (d == '-') = false := by
    cases h : d == '-'
    · rfl
    · rw [beq_iff_eq] at h; subst h; exact absurd hd (by decide)
  cases neg with
  | false =>
    have : (if false = true then "-" else "").toList = [] := rfl
    rw [this, List.nil_append]
    unfold readFloatText
    simp only [List.head?_cons, Option.some.injEq, beq_iff_eq]
    have hne : ¬ d = '-' := by simpa using hdm
    have hne' : (some d == some '-') = false := by simpa using hne
    simp only [hne', hne, if_false, hd, if_true, hs]
  | true =>
    have : (if true = true then "-" else "").toList = ['-'] := rfl
    rw [this]
    unfold readFloatText
    simp only [List.cons_append, List.nil_append, List.head?_cons, beq_self_eq_true, if_true,
      List.drop_succ_cons, List.drop_zero, hd, hs]

/-- **the text of `repr` around the digits `D`, scale `s`, is read as the decimal `D·10^s`** -/
theorem read_fmtDigits (neg : Bool) (D : Nat) (s : Int) (hD : D ≠ 0)
    (hex : ((numDigits D : Int) + s - 1).natAbs < 1000) :
    readFloatText (fmtDigits (if neg then "-" else "") D s).toList = some (neg, decToDbl D s) := by
  rw [fmtDigits_toList]
  have hv : Nat.ofDigitChars 10 (Nat.toDigits 10 D) 0 = D := Nat.ofDigitChars_ten_toDigits
  have hlen : numDigits D = (Nat.toDigits 10 D).length := toString_nat_length D
  rw [hlen] at hex
  obtain ⟨h1, d, r, h2, h3⟩ := scan_fmtList (Nat.toDigits 10 D)
    (fun c hc => Nat.isDigit_of_mem_toDigits (by decide) (by decide) hc) Nat.toDigits_ne_nil s
    (by rw [hv]; exact hD) hex
  rw [hv] at h1
  exact readFloatText_body neg _ d r h2 h3 _ h1

end Dbl
end Pyab
