/-
  Completeness of the generated LR tables on canonical renderings — part 3:
  return lists, conditionals, the header, and the round-trip theorem
  `lrParse_tokensOf : e.WF → lrParse Generated.lrTables (tokensOfExperiment e) = .ok e`.
-/
import Pyab.Proofs.LRCompleteSim
namespace Pyab.Proofs.LRC
open Pyab Pyab.Spec

/-! ### Defaulted states: the reduce happens on any lookahead -/

theorem act_defaulted (k : String) :
    act 5 k = .reduce 3 ∧ act 14 k = .reduce 10 ∧ act 19 k = .reduce 1 ∧ act 31 k = .reduce 34 ∧
    act 71 k = .reduce 11 ∧ act 72 k = .reduce 12 ∧ act 76 k = .reduce 35 ∧ act 81 k = .reduce 13 ∧
    act 84 k = .reduce 14 :=
  ⟨rfl, rfl, rfl, rfl, rfl, rfl, rfl, rfl, rfl⟩

/-! ### Return lists -/

/-- states in which a `return_statement` may start: after `KW_RETURN`, after `COMMA` -/
def retStart : List Nat := [16, 70]

theorem retStart_facts : ∀ s ∈ retStart,
    s ∈ litStart ∧ gt s "literal" = 32 ∧
    G s "return_statement" = some (gt s "return_statement") := by decide +kernel

theorem group_facts :
    act 32 "KW_WEIGHTED" = .shift 52 ∧ act 52 "NON_NEG_FLOAT" = .shift 64 ∧ G 52 "weight" = some 63 ∧
    act 64 "COMMA" = .reduce 37 ∧ act 64 "RBRACE" = .reduce 37 ∧
    act 63 "COMMA" = .shift 70 ∧ act 63 "RBRACE" = .reduce 36 ∧
    70 ∈ retStart ∧ gt 70 "return_statement" = 76 := by decide +kernel

theorem run_groups : (gs : List Group) → gs ≠ [] → groupsWF gs = true →
    ∀ (σ : List Entry) (rest : List Token), topState σ ∈ retStart → la rest = "RBRACE" →
    Run (3 * (tokensOfGroups gs).length) σ (tokensOfGroups gs ++ rest)
      (⟨gt (topState σ) "return_statement", "return_statement", .groups gs⟩ :: σ) rest
  | [], hne, _, _, _, _, _ => absurd rfl hne
  | [⟨t, w⟩], _, hwf, σ, rest, hs, hla => by
    obtain ⟨hsL, h32, hg⟩ := retStart_facts _ hs
    obtain ⟨hW, hF, hgW, _, r64, _, r63, _, _⟩ := group_facts
    have hw : termIsLiteral t = true ∧ termWF t = true ∧ ∃ d, w = .f d := by
      cases w with
      | i v => simp [groupsWF, groupWF] at hwf
      | f d => simp [groupsWF, groupWF] at hwf; exact ⟨hwf.1, hwf.2, d, rfl⟩
    obtain ⟨hl, hwt, d, rfl⟩ := hw
    have hk : la (tk "KW_WEIGHTED" "weighted" :: (tokensOfWeight (.f d) ++ rest)) ∈ Flit := by
      show "KW_WEIGHTED" ∈ Flit; decide
    simp only [tokensOfGroups, List.cons_append, List.append_assoc]
    apply Run.mono
    · apply Run.trans (run_literal t hl hwt σ _ hsL hk)
      rw [h32]
      shift hW
      simp only [tokensOfWeight, List.cons_append, List.nil_append]
      shift hF
      reduce red37 (by rw [hla]; exact r64), hgW
      apply red36 (by rw [hla]; exact r63) hg
      exact Run.refl
    · simp only [tokensOfWeight, List.length_cons, List.length_append, List.length_nil]; omega
  | ⟨t, w⟩ :: g' :: gs, _, hwf, σ, rest, hs, hla => by
    obtain ⟨hsL, h32, hg⟩ := retStart_facts _ hs
    obtain ⟨hW, hF, hgW, r64, _, hCO, _, h70, h76⟩ := group_facts
    have r76 := (act_defaulted (la rest)).2.2.2.2.2.2.1
    have hw : termIsLiteral t = true ∧ termWF t = true ∧ groupsWF (g' :: gs) = true ∧ ∃ d, w = .f d := by
      cases w with
      | i v => simp [groupsWF, groupWF] at hwf
      | f d =>
        have : (termIsLiteral t = true ∧ termWF t = true) ∧ groupsWF (g' :: gs) = true := by
          simpa [groupsWF, groupWF] using hwf
        exact ⟨this.1.1, this.1.2, this.2, d, rfl⟩
    obtain ⟨hl, hwt, hwgs, d, rfl⟩ := hw
    have hk : la (tk "KW_WEIGHTED" "weighted" :: (tokensOfWeight (.f d) ++
        tk "COMMA" "," :: (tokensOfGroups (g' :: gs) ++ rest))) ∈ Flit := by
      show "KW_WEIGHTED" ∈ Flit; decide
    simp only [tokensOfGroups, List.cons_append, List.append_assoc]
    apply Run.mono
    · apply Run.trans (run_literal t hl hwt σ _ hsL hk)
      rw [h32]
      shift hW
      simp only [tokensOfWeight, List.cons_append, List.nil_append]
      shift hF
      reduce red37 r64, hgW
      shift hCO
      apply Run.trans (run_groups (g' :: gs) (by simp) hwgs (⟨70, _, _⟩ :: _) rest h70 hla)
      simp only [topState_cons]
      rw [h76]
      apply red35 r76 hg
      exact Run.refl
    · simp only [tokensOfWeight, List.length_cons, List.length_append, List.length_nil]; omega

/-! ### Conditionals -/

/-- states in which a `conditional` may start -/
def condStart : List Nat := [9, 35, 77, 80]
/-- states in which a `subconditional` may start: after the `RBRACE` of an `if` / `elif` block -/
def subStart : List Nat := [67, 83]
/-- first tokens of a conditional -/
def Fcond : List String := ["KW_IF", "KW_RETURN"]

theorem condStart_facts : ∀ s ∈ condStart,
    act s "KW_IF" = .shift 15 ∧ act s "KW_RETURN" = .shift 16 ∧
    G s "conditional" = some (gt s "conditional") ∧ G s "return_expr" = some 14 := by decide +kernel

theorem subStart_facts : ∀ s ∈ subStart,
    act s "RBRACE" = .reduce 2 ∧ G s "empty" = some 72 ∧
    G s "subconditional" = some (gt s "subconditional") ∧
    act s "KW_ELSE" = .shift 73 ∧ act s "KW_ELIF" = .shift 74 := by decide +kernel

theorem cond_state_facts :
    16 ∈ retStart ∧ gt 16 "return_statement" = 31 ∧
    15 ∈ predStart ∧ gt 15 "predicate" = 20 ∧ act 20 "LBRACE" = .shift 35 ∧
    35 ∈ condStart ∧ gt 35 "conditional" = 54 ∧ act 54 "RBRACE" = .shift 67 ∧
    67 ∈ subStart ∧ gt 67 "subconditional" = 71 := by decide +kernel

theorem sub_state_facts :
    act 73 "LBRACE" = .shift 77 ∧ 77 ∈ condStart ∧ gt 77 "conditional" = 79 ∧ act 79 "RBRACE" = .shift 81 ∧
    74 ∈ predStart ∧ gt 74 "predicate" = 78 ∧ act 78 "LBRACE" = .shift 80 ∧
    80 ∈ condStart ∧ gt 80 "conditional" = 82 ∧ act 82 "RBRACE" = .shift 83 ∧
    83 ∈ subStart ∧ gt 83 "subconditional" = 84 := by decide +kernel

mutual
/-- `conditional`, before a closing `RBRACE` -/
theorem run_cond : (c : Cond) → condWF c = true →
    ∀ (σ : List Entry) (rest : List Token), topState σ ∈ condStart → la rest = "RBRACE" →
    Run (3 * (tokensOfCond c).length) σ (tokensOfCond c ++ rest)
      (⟨gt (topState σ) "conditional", "conditional", .cond c⟩ :: σ) rest
  | .ret gs, hwf, σ, rest, hs, hla => by
    obtain ⟨_, hRET, hg, hgR⟩ := condStart_facts _ hs
    obtain ⟨h16, h31, _, _, _, _, _, _, _, _⟩ := cond_state_facts
    obtain ⟨_, r14, _, r31, _, _, _, _, _⟩ := act_defaulted (la rest)
    have hne : gs ≠ [] := by
      intro h; subst h; simp [condWF] at hwf
    have hwg : groupsWF gs = true := by simp [condWF] at hwf; exact hwf.2
    simp only [tokensOfCond, List.cons_append]
    apply Run.mono
    · shift hRET
      apply Run.trans (run_groups gs hne hwg (⟨16, _, _⟩ :: σ) rest h16 hla)
      simp only [topState_cons]
      rw [h31]
      apply red34 r31 hgR
      apply red10 r14 hg
      exact Run.refl
    · simp only [List.length_cons]; omega
  | .ifte p t r, hwf, σ, rest, hs, hla => by
    obtain ⟨hIF, _, hg, _⟩ := condStart_facts _ hs
    obtain ⟨_, _, h15, h20, hLB, h35, h54, hRB, h67, h71⟩ := cond_state_facts
    obtain ⟨_, _, _, _, r71, _, _, _, _⟩ := act_defaulted (la rest)
    have hw : predWF p = true ∧ condWF t = true ∧ subWF r = true := by
      simp [condWF] at hwf; exact ⟨hwf.1.1, hwf.1.2, hwf.2⟩
    obtain ⟨hwp, hwt, hwr⟩ := hw
    have hk1 : la (tk "LBRACE" "{" :: (tokensOfCond t ++ tk "RBRACE" "}" :: (tokensOfSub r ++ rest))) ∈ Fpred0 := by
      show "LBRACE" ∈ Fpred0; decide
    have hk2 : la (tk "RBRACE" "}" :: (tokensOfSub r ++ rest)) = "RBRACE" := rfl
    simp only [tokensOfCond, List.cons_append, List.append_assoc]
    apply Run.mono
    · shift hIF
      apply Run.trans (run_pred p hwp (⟨15, _, _⟩ :: σ) _ h15 hk1)
      simp only [topState_cons]
      rw [h20]
      shift hLB
      apply Run.trans (run_cond t hwt (⟨35, _, _⟩ :: _) _ h35 hk2)
      simp only [topState_cons]
      rw [h54]
      shift hRB
      apply Run.trans (run_sub r hwr (⟨67, _, _⟩ :: _) rest h67 hla)
      simp only [topState_cons]
      rw [h71]
      apply red11 r71 hg
      exact Run.refl
    · simp only [List.length_cons, List.length_append]; omega
/-- `subconditional`, before a closing `RBRACE` -/
theorem run_sub : (r : Sub) → subWF r = true →
    ∀ (σ : List Entry) (rest : List Token), topState σ ∈ subStart → la rest = "RBRACE" →
    Run (3 * (tokensOfSub r).length + 2) σ (tokensOfSub r ++ rest)
      (⟨gt (topState σ) "subconditional", "subconditional", .sub r⟩ :: σ) rest
  | .none, _, σ, rest, hs, hla => by
    obtain ⟨rE, hgE, hg, _, _⟩ := subStart_facts _ hs
    obtain ⟨_, _, _, _, _, r72, _, _, _⟩ := act_defaulted (la rest)
    simp only [tokensOfSub, List.nil_append]
    apply Run.mono
    · reduce red2 (by rw [hla]; exact rE), hgE
      apply red12 r72 hg
      exact Run.refl
    · simp
  | .else_ t, hwf, σ, rest, hs, hla => by
    obtain ⟨_, _, hg, hELSE, _⟩ := subStart_facts _ hs
    obtain ⟨hLB, h77, h79, hRB, _, _, _, _, _, _, _, _⟩ := sub_state_facts
    obtain ⟨_, _, _, _, _, _, _, r81, _⟩ := act_defaulted (la rest)
    have hwt : condWF t = true := by simpa [subWF] using hwf
    have hk2 : la (tk "RBRACE" "}" :: rest) = "RBRACE" := rfl
    simp only [tokensOfSub, List.cons_append, List.append_assoc, List.nil_append]
    apply Run.mono
    · shift hELSE
      shift hLB
      apply Run.trans (run_cond t hwt (⟨77, _, _⟩ :: _) _ h77 hk2)
      simp only [topState_cons]
      rw [h79]
      shift hRB
      apply red13 r81 hg
      exact Run.refl
    · simp only [List.length_cons, List.length_append]; omega
  | .elif p t r, hwf, σ, rest, hs, hla => by
    obtain ⟨_, _, hg, _, hELIF⟩ := subStart_facts _ hs
    obtain ⟨_, _, _, _, h74, h78, hLB, h80, h82, hRB, h83, h84⟩ := sub_state_facts
    obtain ⟨_, _, _, _, _, _, _, _, r84⟩ := act_defaulted (la rest)
    have hw : predWF p = true ∧ condWF t = true ∧ subWF r = true := by
      simp [subWF] at hwf; exact ⟨hwf.1.1, hwf.1.2, hwf.2⟩
    obtain ⟨hwp, hwt, hwr⟩ := hw
    have hk1 : la (tk "LBRACE" "{" :: (tokensOfCond t ++ tk "RBRACE" "}" :: (tokensOfSub r ++ rest))) ∈ Fpred0 := by
      show "LBRACE" ∈ Fpred0; decide
    have hk2 : la (tk "RBRACE" "}" :: (tokensOfSub r ++ rest)) = "RBRACE" := rfl
    simp only [tokensOfSub, List.cons_append, List.append_assoc]
    apply Run.mono
    · shift hELIF
      apply Run.trans (run_pred p hwp (⟨74, _, _⟩ :: σ) _ h74 hk1)
      simp only [topState_cons]
      rw [h78]
      shift hLB
      apply Run.trans (run_cond t hwt (⟨80, _, _⟩ :: _) _ h80 hk2)
      simp only [topState_cons]
      rw [h82]
      shift hRB
      apply Run.trans (run_sub r hwr (⟨83, _, _⟩ :: _) rest h83 hla)
      simp only [topState_cons]
      rw [h84]
      apply red14 r84 hg
      exact Run.refl
    · simp only [List.length_cons, List.length_append]; omega
end

theorem la_cond (c : Cond) (rest : List Token) : la (tokensOfCond c ++ rest) ∈ Fcond := by
  cases c <;> (simp only [tokensOfCond, List.cons_append, la]; decide)

/-! ### Header: salt, splitters -/

/-- states in which `fields` may start -/
def fieldsStart : List Nat := [17, 53]

theorem fieldsStart_facts : ∀ s ∈ fieldsStart,
    act s "ID" = .shift 34 ∧ G s "fields" = some (gt s "fields") := by decide +kernel

theorem fields_facts :
    act 34 "COMMA" = .shift 53 ∧ 53 ∈ fieldsStart ∧ gt 53 "fields" = 66 ∧
    ∀ k ∈ Fcond, act 34 k = .reduce 8 ∧ act 66 k = .reduce 9 ∧ act 33 k = .reduce 6 ∧
      act 6 k = .reduce 2 ∧ act 11 k = .reduce 7 := by decide +kernel

theorem run_fields : (l : List String) → l ≠ [] →
    ∀ (σ : List Entry) (rest : List Token), topState σ ∈ fieldsStart → la rest ∈ Fcond →
    Run (3 * (tokensOfFields l).length) σ (tokensOfFields l ++ rest)
      (⟨gt (topState σ) "fields", "fields", .fields l⟩ :: σ) rest
  | [], hne, _, _, _, _ => absurd rfl hne
  | [n], _, σ, rest, hs, hla => by
    obtain ⟨hID, hg⟩ := fieldsStart_facts _ hs
    obtain ⟨r34, _, _, _, _⟩ := fields_facts.2.2.2 _ hla
    simp only [tokensOfFields, List.cons_append, List.nil_append]
    apply Run.mono
    · shift hID
      apply red8 r34 hg
      exact Run.refl
    · simp
  | n :: n' :: l, _, σ, rest, hs, hla => by
    obtain ⟨hID, hg⟩ := fieldsStart_facts _ hs
    obtain ⟨hCO, h53, h66, hk⟩ := fields_facts
    obtain ⟨_, r66, _, _, _⟩ := hk _ hla
    simp only [tokensOfFields, List.cons_append]
    apply Run.mono
    · shift hID
      shift hCO
      apply Run.trans (run_fields (n' :: l) (by simp) (⟨53, _, _⟩ :: _) rest h53 hla)
      simp only [topState_cons]
      rw [h66]
      apply red9 r66 hg
      exact Run.refl
    · simp only [List.length_cons]; omega

/-- lookaheads after the optional salt -/
def Fsalt : List String := ["KW_IF", "KW_RETURN", "KW_SPLITTERS"]

theorem salt_facts :
    act 4 "KW_SALT" = .shift 7 ∧ act 7 "COLON" = .shift 12 ∧ act 12 "STRING_LITERAL" = .shift 18 ∧
    G 4 "opt_header_salt" = some 6 ∧ G 4 "empty" = some 8 ∧
    ∀ k ∈ Fsalt, act 18 k = .reduce 4 ∧ act 4 k = .reduce 2 ∧ act 8 k = .reduce 5 := by decide +kernel

/-- `opt_header_salt` in state 4 (after `def ID {`) -/
theorem run_salt (o : Option String) (y : String) (v : Sem) (σ : List Entry) (rest : List Token)
    (hla : la rest ∈ Fsalt) :
    Run (3 * (tokensOfSalt o).length + 2) (⟨4, y, v⟩ :: σ) (tokensOfSalt o ++ rest)
      (⟨6, "opt_header_salt", .optStr o⟩ :: ⟨4, y, v⟩ :: σ) rest := by
  obtain ⟨hSA, hCO, hST, hg, hgE, hk⟩ := salt_facts
  obtain ⟨r18, r4, r8⟩ := hk _ hla
  cases o with
  | none =>
    simp only [tokensOfSalt, List.nil_append]
    apply Run.mono
    · reduce red2 r4, hgE
      reduce red5 r8, hg
      exact Run.refl
    · simp
  | some s =>
    simp only [tokensOfSalt, List.cons_append, List.nil_append]
    apply Run.mono
    · shift hSA
      shift hCO
      shift hST
      reduce red4 r18, hg
      exact Run.refl
    · simp

theorem splitters_facts :
    act 6 "KW_SPLITTERS" = .shift 10 ∧ act 10 "COLON" = .shift 17 ∧ 17 ∈ fieldsStart ∧
    gt 17 "fields" = 33 ∧ G 6 "opt_splitter" = some 9 ∧ G 6 "empty" = some 11 := by decide +kernel

/-- `opt_splitter` in state 6 -/
theorem run_splitters (o : Option (List String)) (hwf : splittersWF o = true)
    (y : String) (v : Sem) (σ : List Entry) (rest : List Token) (hla : la rest ∈ Fcond) :
    Run (3 * (tokensOfSplitters o).length + 2) (⟨6, y, v⟩ :: σ) (tokensOfSplitters o ++ rest)
      (⟨9, "opt_splitter", .optFields o⟩ :: ⟨6, y, v⟩ :: σ) rest := by
  obtain ⟨hSP, hCO, h17, h33, hg, hgE⟩ := splitters_facts
  obtain ⟨_, _, r33, r6, r11⟩ := fields_facts.2.2.2 _ hla
  cases o with
  | none =>
    simp only [tokensOfSplitters, List.nil_append]
    apply Run.mono
    · reduce red2 r6, hgE
      reduce red7 r11, hg
      exact Run.refl
    · simp
  | some l =>
    have hne : l ≠ [] := by
      intro h; subst h; simp [splittersWF] at hwf
    simp only [tokensOfSplitters, List.cons_append]
    apply Run.mono
    · shift hSP
      shift hCO
      apply Run.trans (run_fields l hne (⟨17, _, _⟩ :: _) rest h17 hla)
      simp only [topState_cons]
      rw [h33]
      reduce red6 r33, hg
      exact Run.refl
    · simp only [List.length_cons]; omega

theorem la_splitters_cond (o : Option (List String)) (c : Cond) (rest : List Token) :
    la (tokensOfSplitters o ++ (tokensOfCond c ++ rest)) ∈ Fsalt := by
  cases o with
  | none =>
    have := la_cond c rest
    simp only [tokensOfSplitters, List.nil_append]
    revert this
    generalize la (tokensOfCond c ++ rest) = k
    intro hk
    simp only [Fcond, List.mem_cons, List.not_mem_nil, or_false] at hk
    rcases hk with rfl | rfl <;> decide
  | some l => simp only [tokensOfSplitters, List.cons_append, la]; decide

theorem header_facts :
    act 0 "KW_DEF" = .shift 3 ∧ act 3 "ID" = .shift 5 ∧ G 0 "header_id" = some 2 ∧
    act 2 "LBRACE" = .shift 4 ∧ 9 ∈ condStart ∧ gt 9 "conditional" = 13 ∧
    act 13 "RBRACE" = .shift 19 ∧ G 0 "header" = some 1 ∧ act 1 "$end" = .accept := by decide +kernel

/-- the whole experiment, from the empty stack to the accepting configuration -/
theorem run_experiment (e : Experiment) (hwf : e.WF) :
    Run (3 * (tokensOfExperiment e).length + 10) [] (tokensOfExperiment e)
      [⟨1, "header", .exp e⟩] [] := by
  obtain ⟨id, salt, sp, c⟩ := e
  obtain ⟨hDEF, hID, hgH, hLB, h9, h13, hRB, hg, _⟩ := header_facts
  have hw : splittersWF sp = true ∧ condWF c = true := by
    simpa [Experiment.WF, Experiment.wf] using hwf
  obtain ⟨hwsp, hwc⟩ := hw
  have hk2 : la [tk "RBRACE" "}"] = "RBRACE" := rfl
  simp only [tokensOfExperiment]
  apply Run.mono
  · shift hDEF
    shift hID
    reduce red3 (act_defaulted _).1, hgH
    shift hLB
    apply Run.trans (run_salt salt _ _ _ _ (la_splitters_cond sp c _))
    apply Run.trans (run_splitters sp hwsp _ _ _ _ (la_cond c _))
    apply Run.trans (run_cond c hwc (⟨9, _, _⟩ :: _) _ h9 hk2)
    simp only [topState_cons]
    rw [h13]
    shift hRB
    reduce red1 (act_defaulted _).2.2.1, hg
    exact Run.refl
  · simp only [List.length_cons, List.length_append, List.length_nil]; omega

/-- **Completeness on canonical renderings.** The canonical token rendering of every
    well-formed experiment AST is accepted by the driver with the generated tables, and the
    AST built is exactly the one rendered. -/
theorem lrParse_tokensOf (e : Experiment) (hwf : e.WF) :
    lrParse Generated.lrTables (tokensOfExperiment e) = .ok e := by
  obtain ⟨n, hn, hf⟩ := run_experiment e hwf
  unfold lrParse
  have hfuel : 16 * (tokensOfExperiment e).length + 64
      = (16 * (tokensOfExperiment e).length + 64 - n - 1 + 1) + n := by omega
  rw [hfuel, hf, lrLoop_accept _ _ _ header_facts.2.2.2.2.2.2.2.2]

end Pyab.Proofs.LRC
