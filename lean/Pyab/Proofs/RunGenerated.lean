/-
  `runGenerated` factors through the reference routing; which fields of the environment
  the reference semantics and the key can read.
-/
import Pyab.Spec.Semantics
import Pyab.Spec.Run
import Pyab.Proofs.Routing
import Pyab.Proofs.ParamList
namespace Pyab.Proofs.Run
open Pyab Pyab.Spec

/-- two environments give the same value (or both nothing) to every listed name -/
def AgreeOn (names : List String) (env env' : Env) : Prop := ∀ n ∈ names, env.get n = env'.get n

theorem AgreeOn.mono {a b : List String} {env env' : Env} (h : AgreeOn b env env')
    (hs : ∀ n ∈ a, n ∈ b) : AgreeOn a env env' := fun n hn => h n (hs n hn)

theorem AgreeOn.left {a b : List String} {env env' : Env} (h : AgreeOn (a ++ b) env env') :
    AgreeOn a env env' := h.mono (fun _ hn => List.mem_append_left _ hn)

theorem AgreeOn.right {a b : List String} {env env' : Env} (h : AgreeOn (a ++ b) env env') :
    AgreeOn b env env' := h.mono (fun _ hn => List.mem_append_right _ hn)

/-! ### the reference semantics reads only the identifiers a term / predicate / conditional mentions -/

mutual
theorem specTerm_agree (env env' : Env) :
    ∀ t : Term, AgreeOn t.idents env env' → specTerm env t = specTerm env' t
  | .int _, _ => by simp [specTerm]
  | .float _ _, _ => by simp [specTerm]
  | .str _, _ => by simp [specTerm]
  | .ident n, h => by
      have := h n (by simp [Term.idents])
      simp [specTerm, this]
  | .tuple l, h => by
      have : AgreeOn (Term.identsList l) env env' := by simpa [Term.idents] using h
      simp [specTerm, specTerms_agree env env' l this]
theorem specTerms_agree (env env' : Env) :
    ∀ l : List Term, AgreeOn (Term.identsList l) env env' → specTerms env l = specTerms env' l
  | [], _ => by simp [specTerms]
  | t :: ts, h => by
      simp only [Term.identsList] at h
      simp [specTerms, specTerm_agree env env' t h.left, specTerms_agree env env' ts h.right]
end

theorem specPred_agree (env env' : Env) :
    ∀ p : Pred, AgreeOn (p.idents true) env env' → specPred env p = specPred env' p
  | .cmp l op r, h => by
      simp only [Pred.idents, if_true] at h
      simp [specPred, specTerm_agree env env' l h.left, specTerm_agree env env' r h.right]
  | .and a b, h => by
      simp only [Pred.idents] at h
      simp [specPred, specPred_agree env env' a h.left, specPred_agree env env' b h.right]
  | .or a b, h => by
      simp only [Pred.idents] at h
      simp [specPred, specPred_agree env env' a h.left, specPred_agree env env' b h.right]
  | .not a, h => by
      simp only [Pred.idents] at h
      simp [specPred, specPred_agree env env' a h]

mutual
theorem specRoute_agree (env env' : Env) :
    ∀ c : Cond, AgreeOn (c.idents true) env env' → specRoute env c = specRoute env' c
  | .ret _, _ => by simp [specRoute]
  | .ifte p t rest, h => by
      simp only [Cond.idents] at h
      simp [specRoute, specPred_agree env env' p h.left.left, specRoute_agree env env' t h.left.right,
        specSub_agree env env' rest h.right]
theorem specSub_agree (env env' : Env) :
    ∀ s : Sub, AgreeOn (s.idents true) env env' → specSub env s = specSub env' s
  | .none, _ => by simp [specSub]
  | .else_ t, h => by
      simp only [Sub.idents] at h
      simp [specSub, specRoute_agree env env' t h]
  | .elif p t rest, h => by
      simp only [Sub.idents] at h
      simp [specSub, specPred_agree env env' p h.left.left, specRoute_agree env env' t h.left.right,
        specSub_agree env env' rest h.right]
end

/-! ### the key reads only the listed names -/

theorem mapM_congr_mem {α β : Type} (f g : α → Except Err β) :
    ∀ l : List α, (∀ a ∈ l, f a = g a) → l.mapM f = l.mapM g
  | [], _ => by simp
  | a :: as, h => by
      have h1 := h a (by simp)
      have h2 := mapM_congr_mem f g as (fun b hb => h b (List.mem_cons_of_mem _ hb))
      simp only [List.mapM_cons, h1, h2]

theorem keyOf_agree (pr : Nat → Bool) (salt : String) (names : List String) (env env' : Env) (h : AgreeOn names env env') :
    keyOf pr salt names env = keyOf pr salt names env' := by
  unfold keyOf
  rw [mapM_congr_mem _ _ names]
  intro n hn
  rw [h n hn]

theorem paramsPresent_agree (names : List String) (env env' : Env) (h : AgreeOn names env env') :
    names.all (fun p => (env.get p).isSome) = names.all (fun p => (env'.get p).isSome) := by
  induction names with
  | nil => rfl
  | cons n ns ih =>
      simp only [List.all_cons, h n (by simp), ih (h.mono (fun _ hm => List.mem_cons_of_mem _ hm))]

/-! ### the stage after routing -/

theorem choiceStage_agree (cfg : RunCfg) (e : Experiment) (env env' : Env) (pop : List PyVal) (ws : List Num)
    (h : AgreeOn e.localVars env env') : choiceStage cfg e env pop ws = choiceStage cfg e env' pop ws := by
  unfold choiceStage
  cases hlv : e.localVars with
  | nil => rfl
  | cons x xs =>
      simp only []
      rw [hlv] at h
      rw [keyOf_agree _ _ _ env env' h]

theorem routed_eq_routeResult (cfg : GenCfg) (env : Env) (c : Cond) :
    routed cfg env c = routeResult cfg (specRoute env c) (.error .unroutable) := by
  unfold routed routeResult
  cases specRoute env c with
  | error e => rfl
  | ok o => cases o <;> rfl

/-- `runGenerated`, with the execution of the emitted lines replaced by the reference routing
    (the emitted lines still have to exist: rendering can fail on an over-long int literal) -/
theorem runGenerated_eq (cfg : RunCfg) (hc : CanonicalExpr cfg.toGenCfg)
    (hrb : ∀ s, readBackStr cfg.toGenCfg true s = .ok s) (hs : cfg.strReprSalt = true)
    (e : Experiment) (env : Env) :
    runGenerated cfg e env =
      (if !(e.params cfg.toGenCfg).all (fun p => (env.get p).isSome) then .error .missingField
       else match bodyLines cfg.toGenCfg 2 e.cond with
        | .error err => .error err
        | .ok _ => do
            let pw ← routed cfg.toGenCfg env e.cond
            choiceStage cfg e env pw.1 pw.2) := by
  unfold runGenerated
  by_cases hp : (e.params cfg.toGenCfg).all (fun p => (env.get p).isSome) = true
  · simp only [hp, Bool.not_true, Bool.false_eq_true, if_false]
    cases hL : bodyLines cfg.toGenCfg 2 e.cond with
    | error err => rfl
    | ok L =>
        have hrun := run_bodyLines cfg.toGenCfg hc hrb env e.cond 2 L hL
        rw [← routed_eq_routeResult] at hrun
        simp only [bind, Except.bind, pure, Except.pure, hrun]
        cases routed cfg.toGenCfg env e.cond with
        | error err => rfl
        | ok pw =>
            obtain ⟨pop, ws⟩ := pw
            simp only [choiceStage]
            cases hlv : e.localVars with
            | nil =>
                simp only []
                cases Choice.choiceIdx none pop.length (some ws) none with
                | error err => rfl
                | ok pk => cases pk <;> rfl
            | cons x xs =>
                simp only []
                cases hsalt : e.salt with
                | none =>
                    simp only [Option.getD, bind, Except.bind, Functor.map, Except.map]
                | some s =>
                    simp only [hs, hrb, Option.getD, bind, Except.bind, Functor.map, Except.map]
  · have hp' : (e.params cfg.toGenCfg).all (fun p => (env.get p).isSome) = false := by simpa using hp
    simp only [hp', Bool.not_false, if_true]
    rfl

end Pyab.Proofs.Run

namespace Pyab.Proofs.Run
open Pyab Pyab.Spec

theorem specRun_eq (cfg : RunCfg) (e : Experiment) (env : Env) :
    specRun cfg e env =
      (if !(e.params cfg.toGenCfg).all (fun p => (env.get p).isSome) then .error .missingField
       else do
            let pw ← routed cfg.toGenCfg env e.cond
            choiceStage cfg e env pw.1 pw.2) := by
  unfold specRun
  by_cases hp : (e.params cfg.toGenCfg).all (fun p => (env.get p).isSome) = true
  · simp only [hp, Bool.not_true, Bool.false_eq_true, if_false]
  · have hp' : (e.params cfg.toGenCfg).all (fun p => (env.get p).isSome) = false := by simpa using hp
    simp only [hp', Bool.not_false, if_true]
    rfl

theorem runGenerated_eq_specRun (cfg : RunCfg) (hc : CanonicalExpr cfg.toGenCfg)
    (hrb : ∀ s, readBackStr cfg.toGenCfg true s = .ok s) (hs : cfg.strReprSalt = true)
    (e : Experiment) (env : Env) (L : List ILine) (hL : bodyLines cfg.toGenCfg 2 e.cond = .ok L) :
    runGenerated cfg e env = specRun cfg e env := by
  rw [runGenerated_eq cfg hc hrb hs, specRun_eq, hL]

/-- without the hypothesis that the body can be emitted: the two environments still give
    the same result when they agree on the declared fields -/
theorem runGenerated_agree (cfg : RunCfg) (hc : CanonicalExpr cfg.toGenCfg)
    (hrb : ∀ s, readBackStr cfg.toGenCfg true s = .ok s) (hs : cfg.strReprSalt = true)
    (e : Experiment) (env env' : Env)
    (h : AgreeOn (e.params cfg.toGenCfg ++ e.condIds cfg.toGenCfg ++ e.localVars) env env') :
    runGenerated cfg e env = runGenerated cfg e env' := by
  rw [runGenerated_eq cfg hc hrb hs, runGenerated_eq cfg hc hrb hs]
  rw [paramsPresent_agree _ env env' h.left.left]
  have hroute : routed cfg.toGenCfg env e.cond = routed cfg.toGenCfg env' e.cond := by
    unfold routed
    rw [specRoute_agree env env' e.cond]
    refine h.left.right.mono ?_
    intro n hn
    unfold Experiment.condIds
    rw [hc.tuples]
    exact (mem_sortDedup n _).2 hn
  rw [hroute]
  have hcs : ∀ pop ws, choiceStage cfg e env pop ws = choiceStage cfg e env' pop ws :=
    fun pop ws => choiceStage_agree cfg e env env' pop ws h.right
  simp only [hcs]

end Pyab.Proofs.Run
