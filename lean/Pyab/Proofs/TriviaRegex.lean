/-
  C08 (lexer half), part 1: generic facts about the backtracking regex matcher `Re.m`
  that the trivia theorems need.

  * `Re.firstOk` / `Re.firstOk_sound`: a computable over-approximation of "this regex can
    match an input whose first character is `c`".
  * `Re.readsPrev` / `Re.m_prev_indep` / `Re.matchPrefix_prev_indep`: a regex that does not
    start (after nullable parts) with `\b` or a look-around gives the same answer for every
    "previous character".
  * `Re.StepOKP` …: the characters consumed by a repetition of a one-character class all
    belong to that class.
  * `Re.repLoop_greedy_run`, `Re.repLoop_lazy_hit`, `Re.repLoop_lazy_miss`: exact behaviour of
    greedy / lazy repetition of `.` on one line.
-/
import Pyab.Proofs.LexNoSkip
namespace Pyab
namespace Re

/-! ### 1. first-character filter -/

/-- over-approximation of "`r` can succeed on an input whose first character is `x`" -/
def firstOk (t : CharTables) : Re → Char → Bool
  | .eps, _ => true
  | .lit c, x => x.toNat == c
  | .notLit c, x => x.toNat != c
  | .set items neg, x => (items.any (·.test t x.toNat)) != neg
  | .any, x => x != '\n'
  | .seq a _, x => firstOk t a x
  | .alt a b, x => firstOk t a x || firstOk t b x
  | .rep min _ _ r, x => min == 0 || firstOk t r x
  | .boundary _, _ => true
  | .look _ _, _ => true
  | .unsupported _, _ => false

theorem firstOk_sound (t : CharTables) (bound : Nat) :
    ∀ (r : Re) (p : Option Char) (n : Nat) (c : Char) (s : List Char) (k : K) (res : Nat × List Char),
      m t bound r p n (c :: s) k = some res → firstOk t r c = true
  | .eps, _, _, _, _, _, _, _ => rfl
  | .lit _, _, _, _, _, _, _, h => by
      simp only [m] at h
      split at h
      · next hx => simpa [firstOk] using hx
      · cases h
  | .notLit _, _, _, _, _, _, _, h => by
      simp only [m] at h
      split at h
      · next hx => simpa [firstOk] using hx
      · cases h
  | .set _ _, _, _, _, _, _, _, h => by
      simp only [m] at h
      split at h
      · next hx => simpa [firstOk] using hx
      · cases h
  | .any, _, _, _, _, _, _, h => by
      simp only [m] at h
      split at h
      · next hx => simpa [firstOk] using hx
      · cases h
  | .seq a _, p, n, c, s, _, res, h => by
      simp only [m] at h
      exact firstOk_sound t bound a p n c s _ res h
  | .alt a b, p, n, c, s, k, res, h => by
      simp only [m] at h
      simp only [firstOk, Bool.or_eq_true]
      rcases orElse_some h with h1 | h1
      · exact Or.inl (firstOk_sound t bound a p n c s k res h1)
      · exact Or.inr (firstOk_sound t bound b p n c s k res h1)
  | .rep min mx g r, p, n, c, s, k, res, h => by
      simp only [m] at h
      cases min with
      | zero => simp [firstOk]
      | succ mn =>
        have hf : bound + (mn + 1) + 2 = (bound + mn + 2) + 1 := by omega
        rw [hf] at h
        simp only [repLoop, Nat.zero_lt_succ, gt_iff_lt, if_true] at h
        simp only [firstOk, Bool.or_eq_true]
        exact Or.inr (firstOk_sound t bound r p n c s _ res h)
  | .boundary _, _, _, _, _, _, _, _ => rfl
  | .look _ _, _, _, _, _, _, _, _ => rfl
  | .unsupported _, _, _, _, _, _, _, h => by simp [m] at h

theorem matchPrefix_none_of_firstOk {t : CharTables} {bound : Nat} {r : Re} {prev : Option Char}
    {c : Char} {s : List Char} (h : firstOk t r c = false) :
    matchPrefix t bound r prev (c :: s) = none := by
  cases hm : matchPrefix t bound r prev (c :: s) with
  | none => rfl
  | some res =>
    have := firstOk_sound t bound r prev 0 c s _ res hm
    rw [h] at this
    cases this

/-! ### 2. independence of the previous character -/

/-- may `r` call its continuation without having consumed a character (over-approximation) -/
def nullable : Re → Bool
  | .eps => true
  | .lit _ => false
  | .notLit _ => false
  | .set _ _ => false
  | .any => false
  | .seq a b => nullable a && nullable b
  | .alt a b => nullable a || nullable b
  | .rep _ _ _ _ => true
  | .boundary _ => true
  | .look _ _ => true
  | .unsupported _ => false

/-- may `r` inspect the character before its start position (over-approximation) -/
def readsPrev : Re → Bool
  | .boundary _ => true
  | .look _ r => readsPrev r
  | .seq a b => readsPrev a || (nullable a && readsPrev b)
  | .alt a b => readsPrev a || readsPrev b
  | .rep _ _ _ r => readsPrev r
  | _ => false

theorem repLoop_prev_indep {one : Option Char → Nat → List Char → K → Option (Nat × List Char)}
    (greedy : Bool)
    (hone : ∀ q1 q2 n s (k : K), k q1 n s = k q2 n s → one q1 n s k = one q2 n s k) :
    ∀ fuel min max p1 p2 n s (k : K), k p1 n s = k p2 n s →
      repLoop one greedy fuel min max p1 n s k = repLoop one greedy fuel min max p2 n s k
  | 0, _, _, _, _, _, _, _, _ => by simp [repLoop]
  | fuel + 1, min, max, p1, p2, n, s, k, hk => by
    simp only [repLoop]
    split
    · apply hone
      exact repLoop_prev_indep greedy hone fuel _ _ p1 p2 n s k hk
    · split
      · exact hk
      · have hmore : ∀ mx,
            one p1 n s (fun p' n' s' => if n' > n then repLoop one greedy fuel 0 mx p' n' s' k else none) =
            one p2 n s (fun p' n' s' => if n' > n then repLoop one greedy fuel 0 mx p' n' s' k else none) := by
          intro mx
          apply hone
          simp
        rw [hmore, hk]

theorem m_prev_indep (t : CharTables) (bound : Nat) :
    ∀ (r : Re), readsPrev r = false → ∀ (p1 p2 : Option Char) (n : Nat) (s : List Char) (k : K),
      (nullable r = true → k p1 n s = k p2 n s) → m t bound r p1 n s k = m t bound r p2 n s k
  | .eps, _, _, _, _, _, _, hk => by simpa [m] using hk rfl
  | .lit _, _, _, _, _, _, _, _ => by simp only [m]
  | .notLit _, _, _, _, _, _, _, _ => by simp only [m]
  | .set _ _, _, _, _, _, _, _, _ => by simp only [m]
  | .any, _, _, _, _, _, _, _ => by simp only [m]
  | .seq a b, hr, p1, p2, n, s, k, hk => by
      simp only [readsPrev, Bool.or_eq_false_iff, Bool.and_eq_false_iff] at hr
      simp only [m]
      apply m_prev_indep t bound a hr.1
      intro hna
      have hb : readsPrev b = false := by
        rcases hr.2 with h | h
        · rw [hna] at h; cases h
        · exact h
      apply m_prev_indep t bound b hb
      intro hnb
      apply hk
      simp [nullable, hna, hnb]
  | .alt a b, hr, p1, p2, n, s, k, hk => by
      simp only [readsPrev, Bool.or_eq_false_iff] at hr
      simp only [m]
      by_cases hkk : k p1 n s = k p2 n s
      · rw [m_prev_indep t bound a hr.1 p1 p2 n s k (fun _ => hkk),
            m_prev_indep t bound b hr.2 p1 p2 n s k (fun _ => hkk)]
      · have hna : nullable a = false := by
          cases h : nullable a with
          | false => rfl
          | true => exact absurd (hk (by simp [nullable, h])) hkk
        have hnb : nullable b = false := by
          cases h : nullable b with
          | false => rfl
          | true => exact absurd (hk (by simp [nullable, h])) hkk
        rw [m_prev_indep t bound a hr.1 p1 p2 n s k (fun h => by rw [hna] at h; cases h),
            m_prev_indep t bound b hr.2 p1 p2 n s k (fun h => by rw [hnb] at h; cases h)]
  | .rep min mx g r, hr, p1, p2, n, s, k, hk => by
      simp only [readsPrev] at hr
      simp only [m]
      apply repLoop_prev_indep g
      · intro q1 q2 n' s' k' hk'
        exact m_prev_indep t bound r hr q1 q2 n' s' k' (fun _ => hk')
      · exact hk rfl
  | .boundary _, hr, _, _, _, _, _, _ => by simp [readsPrev] at hr
  | .look neg r, hr, p1, p2, n, s, k, hk => by
      simp only [readsPrev] at hr
      simp only [m]
      rw [m_prev_indep t bound r hr p1 p2 n s (fun _ n' rest => some (n', rest)) (fun _ => rfl),
          hk rfl]
  | .unsupported _, _, _, _, _, _, _, _ => by simp only [m]

theorem matchPrefix_prev_indep {t : CharTables} {bound : Nat} {r : Re} (hr : readsPrev r = false)
    (p1 p2 : Option Char) (s : List Char) :
    matchPrefix t bound r p1 s = matchPrefix t bound r p2 s :=
  m_prev_indep t bound r hr p1 p2 0 s _ (fun _ => rfl)

/-! ### 3. what a repetition of a one-character class consumes -/

/-- like `StepOK`, additionally recording that every consumed character satisfies `P` -/
def StepOKP (P : Char → Prop)
    (f : Option Char → Nat → List Char → K → Option (Nat × List Char)) : Prop :=
  ∀ p n s k res, f p n s k = some res →
    ∃ p' n' s' consumed, k p' n' s' = some res ∧ s = consumed ++ s' ∧ n' = n + consumed.length ∧
      ∀ x ∈ consumed, P x

theorem repLoop_okP {P : Char → Prop} {one} (greedy : Bool) (h : StepOKP P one) :
    ∀ fuel min max, StepOKP P (fun p n s k => repLoop one greedy fuel min max p n s k)
  | 0, _, _ => by intro p n s k res hh; simp [repLoop] at hh
  | fuel + 1, min, max => by
    intro p n s k res hh
    simp only [repLoop] at hh
    have more : ∀ mx, one p n s (fun p' n' s' =>
          if n' > n then repLoop one greedy fuel 0 mx p' n' s' k else none) = some res →
        ∃ p' n' s' consumed, k p' n' s' = some res ∧ s = consumed ++ s' ∧
          n' = n + consumed.length ∧ ∀ x ∈ consumed, P x := by
      intro mx hm
      obtain ⟨p1, n1, s1, c1, hk, hs, hn, hP⟩ := h _ _ _ _ _ hm
      split at hk
      · obtain ⟨p2, n2, s2, c2, hk2, hs2, hn2, hP2⟩ := repLoop_okP greedy h fuel _ _ _ _ _ _ _ hk
        refine ⟨p2, n2, s2, c1 ++ c2, hk2, ?_, ?_, ?_⟩
        · rw [hs, hs2, List.append_assoc]
        · rw [hn2, hn, List.length_append]; omega
        · intro x hx
          rcases List.mem_append.1 hx with hx | hx
          · exact hP x hx
          · exact hP2 x hx
      · cases hk
    split at hh
    · obtain ⟨p1, n1, s1, c1, hk, hs, hn, hP⟩ := h _ _ _ _ _ hh
      obtain ⟨p2, n2, s2, c2, hk2, hs2, hn2, hP2⟩ := repLoop_okP greedy h fuel _ _ _ _ _ _ _ hk
      refine ⟨p2, n2, s2, c1 ++ c2, hk2, ?_, ?_, ?_⟩
      · rw [hs, hs2, List.append_assoc]
      · rw [hn2, hn, List.length_append]; omega
      · intro x hx
        rcases List.mem_append.1 hx with hx | hx
        · exact hP x hx
        · exact hP2 x hx
    · split at hh
      · exact ⟨p, n, s, [], hh, rfl, rfl, by simp⟩
      · split at hh
        · rcases orElse_some hh with h1 | h1
          · exact more _ h1
          · exact ⟨p, n, s, [], h1, rfl, rfl, by simp⟩
        · rcases orElse_some hh with h1 | h1
          · exact ⟨p, n, s, [], h1, rfl, rfl, by simp⟩
          · exact more _ h1

theorem set_okP (t : CharTables) (bound : Nat) (items : List SetItem) (neg : Bool) :
    StepOKP (fun x => ((items.any (·.test t x.toNat)) != neg) = true) (m t bound (.set items neg)) := by
  intro p n s k res hh
  cases s with
  | nil => simp [m] at hh
  | cons x xs =>
    simp only [m] at hh
    split at hh
    · next hx =>
      refine ⟨some x, n + 1, xs, [x], hh, rfl, rfl, ?_⟩
      intro y hy
      rw [List.mem_singleton] at hy
      subst hy
      exact hx
    · cases hh

theorem lit_okP (t : CharTables) (bound : Nat) (c : Nat) :
    StepOKP (fun x => x.toNat = c) (m t bound (.lit c)) := by
  intro p n s k res hh
  cases s with
  | nil => simp [m] at hh
  | cons x xs =>
    simp only [m] at hh
    split at hh
    · next hx =>
      refine ⟨some x, n + 1, xs, [x], hh, rfl, rfl, ?_⟩
      intro y hy
      rw [List.mem_singleton] at hy
      subst hy
      simpa using hx
    · cases hh

/-- a match of `r{min,max}` consumes only characters that single matches of `r` consume -/
theorem matchPrefix_rep_chars {P : Char → Prop} {t : CharTables} {bound : Nat} {r : Re}
    (hone : StepOKP P (m t bound r)) {min : Nat} {max : Option Nat} {g : Bool}
    {prev : Option Char} {s : List Char} {n : Nat} {rest : List Char}
    (h : matchPrefix t bound (.rep min max g r) prev s = some (n, rest)) :
    ∃ lexeme, s = lexeme ++ rest ∧ lexeme.length = n ∧ ∀ x ∈ lexeme, P x := by
  unfold matchPrefix at h
  simp only [m] at h
  obtain ⟨p', n', s', c, hk, hs, hn, hP⟩ := repLoop_okP g hone _ _ _ _ _ _ _ _ h
  simp only [Option.some.injEq, Prod.mk.injEq] at hk
  obtain ⟨rfl, rfl⟩ := hk
  exact ⟨c, hs, by omega, hP⟩

/-! ### 4. exact behaviour of `.*`, `.+`, `.*?` on one line -/

/-- a one-step matcher behaving like `.` (anything but a newline) -/
structure DotLike (one : Option Char → Nat → List Char → K → Option (Nat × List Char)) : Prop where
  ok : ∀ p n x xs (k : K), x ≠ '\n' → one p n (x :: xs) k = k (some x) (n + 1) xs
  nl : ∀ p n xs (k : K), one p n ('\n' :: xs) k = none
  nil : ∀ p n (k : K), one p n [] k = none

theorem dotLike_any (t : CharTables) (bound : Nat) :
    DotLike (fun p' n' s' k' => m t bound .any p' n' s' k') where
  ok := by intro p n x xs k hx; simp [m, hx]
  nl := by intro p n xs k; simp [m]
  nil := by intro p n k; simp [m]

/-- the input continues with a line end: a newline or the end of the text -/
def LineEnd (tail : List Char) : Prop := tail = [] ∨ ∃ tl, tail = '\n' :: tl

theorem DotLike.stop {one} (h : DotLike one) {tail : List Char} (ht : LineEnd tail) (p n) (k : K) :
    one p n tail k = none := by
  rcases ht with rfl | ⟨tl, rfl⟩
  · exact h.nil p n k
  · exact h.nl p n tl k

/-- greedy `.{min,}` swallows the whole rest of the line when the continuation accepts there -/
theorem repLoop_greedy_run {one} (h : DotLike one) :
    ∀ (line : List Char) (fuel min : Nat) (p : Option Char) (n : Nat) (tail : List Char) (k : K)
      (res : Nat × List Char),
      (∀ x ∈ line, x ≠ '\n') → LineEnd tail → line.length + 1 ≤ fuel → min ≤ line.length →
      (∀ q, k q (n + line.length) tail = some res) →
      repLoop one true fuel min none p n (line ++ tail) k = some res
  | [], fuel, min, p, n, tail, k, res, _, ht, hf, hmin, hk => by
    obtain ⟨f, rfl⟩ : ∃ f, fuel = f + 1 := ⟨fuel - 1, by omega⟩
    have hm0 : min = 0 := by simpa using hmin
    subst hm0
    simp only [repLoop, List.nil_append, gt_iff_lt, Nat.lt_irrefl, if_false]
    rw [h.stop ht]
    simpa [Option.orElse] using hk p
  | x :: xs, fuel, min, p, n, tail, k, res, hl, ht, hf, hmin, hk => by
    obtain ⟨f, rfl⟩ : ∃ f, fuel = f + 1 := ⟨fuel - 1, by simp at hf; omega⟩
    have hx : x ≠ '\n' := hl x List.mem_cons_self
    have hl' : ∀ y ∈ xs, y ≠ '\n' := fun y hy => hl y (List.mem_cons_of_mem _ hy)
    have hf' : xs.length + 1 ≤ f := by simp at hf; omega
    have hk' : ∀ q, k q (n + 1 + xs.length) tail = some res := by
      intro q
      have := hk q
      rw [List.length_cons] at this
      rw [Nat.add_assoc, Nat.add_comm 1]
      exact this
    simp only [repLoop, List.cons_append, gt_iff_lt]
    split
    · rw [h.ok _ _ _ _ _ hx]
      exact repLoop_greedy_run h xs f (min - 1) (some x) (n + 1) tail k res hl' ht hf'
        (by simp at hmin; omega) hk'
    · rw [h.ok _ _ _ _ _ hx]
      have hgt : n < n + 1 := Nat.lt_succ_self n
      simp only [hgt, if_true]
      have := repLoop_greedy_run h xs f 0 (some x) (n + 1) tail k res hl' ht hf' (Nat.zero_le _) hk'
      simp only [Option.map_none] at this ⊢
      rw [this]
      simp [Option.orElse]

/-- lazy `.*?`: the continuation fails at every earlier position of the line and accepts at
    its end — the match ends there -/
theorem repLoop_lazy_hit {one} (h : DotLike one) :
    ∀ (line : List Char) (fuel : Nat) (p : Option Char) (n : Nat) (tail : List Char) (k : K)
      (res : Nat × List Char),
      (∀ x ∈ line, x ≠ '\n') → line.length + 1 ≤ fuel →
      (∀ a b q, line = a ++ b → b ≠ [] → k q (n + a.length) (b ++ tail) = none) →
      (∀ q, k q (n + line.length) tail = some res) →
      repLoop one false fuel 0 none p n (line ++ tail) k = some res
  | [], fuel, p, n, tail, k, res, _, hf, _, hk => by
    obtain ⟨f, rfl⟩ : ∃ f, fuel = f + 1 := ⟨fuel - 1, by omega⟩
    simp only [repLoop, List.nil_append, gt_iff_lt, Nat.lt_irrefl, if_false]
    have := hk p
    simp only [List.length_nil, Nat.add_zero] at this
    simp [this, Option.orElse]
  | x :: xs, fuel, p, n, tail, k, res, hl, hf, hfail, hk => by
    obtain ⟨f, rfl⟩ : ∃ f, fuel = f + 1 := ⟨fuel - 1, by simp at hf; omega⟩
    have hx : x ≠ '\n' := hl x List.mem_cons_self
    have hl' : ∀ y ∈ xs, y ≠ '\n' := fun y hy => hl y (List.mem_cons_of_mem _ hy)
    have hf' : xs.length + 1 ≤ f := by simp at hf; omega
    have hk' : ∀ q, k q (n + 1 + xs.length) tail = some res := by
      intro q
      have := hk q
      rw [List.length_cons] at this
      rw [Nat.add_assoc, Nat.add_comm 1]
      exact this
    have h0 : k p n (x :: xs ++ tail) = none := by
      have := hfail [] (x :: xs) p rfl (by simp)
      simpa using this
    have hfail' : ∀ a b q, xs = a ++ b → b ≠ [] → k q (n + 1 + a.length) (b ++ tail) = none := by
      intro a b q hab hb
      have := hfail (x :: a) b q (by rw [hab]; rfl) hb
      rw [List.length_cons] at this
      rw [Nat.add_assoc, Nat.add_comm 1]
      exact this
    simp only [repLoop, List.cons_append, gt_iff_lt, Nat.lt_irrefl, if_false] at h0 ⊢
    rw [h0, h.ok _ _ _ _ _ hx]
    have hgt : n < n + 1 := Nat.lt_succ_self n
    have := repLoop_lazy_hit h xs f (some x) (n + 1) tail k res hl' hf' hfail' hk'
    simp only [Option.map_none] at this ⊢
    simp [Option.orElse, hgt, this]

/-- lazy `.*?`: the continuation fails at every position of the line, including its end -/
theorem repLoop_lazy_miss {one} (h : DotLike one) :
    ∀ (line : List Char) (fuel : Nat) (p : Option Char) (n : Nat) (tail : List Char) (k : K),
      (∀ x ∈ line, x ≠ '\n') → LineEnd tail →
      (∀ a b q, line = a ++ b → k q (n + a.length) (b ++ tail) = none) →
      repLoop one false fuel 0 none p n (line ++ tail) k = none
  | _, 0, _, _, _, _, _, _, _ => by simp [repLoop]
  | [], f + 1, p, n, tail, k, _, ht, hfail => by
    simp only [repLoop, List.nil_append, gt_iff_lt, Nat.lt_irrefl, if_false]
    have := hfail [] [] p rfl
    simp only [List.length_nil, Nat.add_zero, List.nil_append] at this
    rw [this, h.stop ht]
    simp [Option.orElse]
  | x :: xs, f + 1, p, n, tail, k, hl, ht, hfail => by
    have hx : x ≠ '\n' := hl x List.mem_cons_self
    have hl' : ∀ y ∈ xs, y ≠ '\n' := fun y hy => hl y (List.mem_cons_of_mem _ hy)
    have h0 : k p n (x :: xs ++ tail) = none := by
      have := hfail [] (x :: xs) p rfl
      simpa using this
    have hfail' : ∀ a b q, xs = a ++ b → k q (n + 1 + a.length) (b ++ tail) = none := by
      intro a b q hab
      have := hfail (x :: a) b q (by rw [hab]; rfl)
      rw [List.length_cons] at this
      rw [Nat.add_assoc, Nat.add_comm 1]
      exact this
    simp only [repLoop, List.cons_append, gt_iff_lt, Nat.lt_irrefl, if_false] at h0 ⊢
    rw [h0, h.ok _ _ _ _ _ hx]
    have hgt : n < n + 1 := Nat.lt_succ_self n
    have := repLoop_lazy_miss h xs f (some x) (n + 1) tail k hl' ht hfail'
    simp only [Option.map_none] at this ⊢
    simp [Option.orElse, hgt, this]

/-! ### 5. `r+` on an input whose first character `r` accepts -/

theorem repLoop_succ_min {one} (g : Bool) (fuel min : Nat) (max : Option Nat) (p : Option Char)
    (n : Nat) (s : List Char) (k : K) :
    repLoop one g (fuel + 1) (min + 1) max p n s k =
      one p n s (fun p' n' s' => repLoop one g fuel min (max.map (· - 1)) p' n' s' k) := by
  simp [repLoop]

/-- with no mandatory iterations left and a continuation that always accepts, a repetition
    accepts -/
theorem repLoop_total {one} (g : Bool) (fuel : Nat) (max : Option Nat) (p : Option Char)
    (n : Nat) (s : List Char) (k : K) (hk : ∀ q n' s', ∃ res, k q n' s' = some res) :
    ∃ res, repLoop one g (fuel + 1) 0 max p n s k = some res := by
  simp only [repLoop, gt_iff_lt, Nat.lt_irrefl, if_false]
  obtain ⟨res, hres⟩ := hk p n s
  have or1 : ∀ a : Option (Nat × List Char), ∃ r, a.orElse (fun _ => k p n s) = some r := by
    intro a
    cases a with
    | none => exact ⟨res, by simp [Option.orElse, hres]⟩
    | some v => exact ⟨v, by simp [Option.orElse]⟩
  have or2 : ∀ b : Unit → Option (Nat × List Char), ∃ r, (k p n s).orElse b = some r := by
    intro b
    rw [hres]
    exact ⟨res, by simp [Option.orElse]⟩
  split
  · exact ⟨res, hres⟩
  · split
    · exact or1 _
    · exact or2 _

/-- `r+` (greedy or lazy) matches an input whose first character `r` accepts; the lexeme is that
    character followed by characters `r` accepts -/
theorem rep1_match {P : Char → Prop} {t : CharTables} {bound : Nat} {r : Re}
    (hone : StepOKP P (m t bound r)) {c : Char} {s : List Char}
    (hfirst : ∀ p n (k : K), m t bound r p n (c :: s) k = k (some c) (n + 1) s)
    (g : Bool) (prev : Option Char) :
    ∃ l rest, matchPrefix t bound (.rep 1 none g r) prev (c :: s) = some (1 + l.length, rest) ∧
      s = l ++ rest ∧ ∀ x ∈ l, P x := by
  obtain ⟨res, hres⟩ := repLoop_total (one := fun p' n' s' k' => m t bound r p' n' s' k') g
    (bound + 1) (Option.map (· - 1) none) (some c) (0 + 1) s (fun _ n rest => some (n, rest))
    (fun _ n' s' => ⟨_, rfl⟩)
  obtain ⟨p', n', s', cons, hk, hs, hn, hP⟩ := repLoop_okP g hone _ _ _ _ _ _ _ _ hres
  simp only [Option.some.injEq] at hk
  subst hk
  refine ⟨cons, s', ?_, hs, hP⟩
  unfold matchPrefix
  simp only [m]
  have hf : bound + 1 + 2 = (bound + 1 + 1) + 1 := rfl
  rw [hf, repLoop_succ_min, hfirst, hres, hn]

/-! ### 6. controlled unfolding -/

theorem m_seq_eq (t : CharTables) (bound : Nat) (a b : Re) (p : Option Char) (n : Nat)
    (s : List Char) (k : K) :
    m t bound (.seq a b) p n s k = m t bound a p n s (fun p' n' s' => m t bound b p' n' s' k) := by
  simp only [m]

theorem m_rep_eq (t : CharTables) (bound : Nat) (min : Nat) (max : Option Nat) (g : Bool) (r : Re)
    (p : Option Char) (n : Nat) (s : List Char) (k : K) :
    m t bound (.rep min max g r) p n s k =
      repLoop (fun p' n' s' k' => m t bound r p' n' s' k') g (bound + min + 2) min max p n s k := by
  simp only [m]

end Re
end Pyab
