/-
  The `Dbl` term that `Dbl.roundRat` / `Dbl.decToDbl` build is a function of the exact VALUE
  of the decimal alone: `decToDbl D s = decToDbl D' s'` whenever `D·10^s = D'·10^s'`.

  `Dbl.round` on a mantissa with more than 53 bits returns `roundOut Q K`, where `(K, Q)` are
  the witnesses of `RSpecW` — the ulp exponent of the value and the nearest integer, ties to
  even (`round_shift_W`); `roundRat` always feeds `round` at least 57 bits (`roundRat_struct`);
  the witnesses are determined by the value (`RSpecW_unique`).
-/
import Pyab.Proofs.FloatReprRound

namespace Pyab
namespace Dbl
open Pyab.Proofs (pow2_eq round_zero)

/-- what `round` returns for the rounded mantissa `Q` at the ulp exponent `K` -/
def roundOut (Q : Nat) (K : Int) : Dbl :=
  if Q = 0 then fin 0 0
  else if ((Q.log2 : Int) + 1) + K > 1024 then pinf
  else fin (Q : Int) K

/-- `round` on a mantissa that needs shifting: the result is `roundOut` of the `RSpecW`
    witnesses of the exact value -/
theorem round_shift_W (n : Nat) (hn : n ≠ 0) (e : Int) (hsh : 0 < shiftOf n e) :
    round (n : Int) e = roundOut (rhe n (shiftOf n e).toNat) (e + shiftOf n e) ∧
      RSpecW ((n : ℚ) * 2 ^ e) (e + shiftOf n e) ((rhe n (shiftOf n e).toNat : Nat) : Int) := by
  constructor
  · rw [round_nat n hn e, if_neg (by omega)]
    unfold roundOut
    rfl
  · obtain ⟨hb1, hb2⟩ := nat_log2_bounds n hn
    have hE := two_zpow_pos e
    have hk : -1074 ≤ e + shiftOf n e := by unfold shiftOf; omega
    have hu : (n : ℚ) * 2 ^ e < 2 ^ (e + shiftOf n e + 53) := by
      calc (n : ℚ) * 2 ^ e < 2 ^ ((n.log2 : Int) + 1) * 2 ^ e := mul_lt_mul_of_pos_right hb2 hE
        _ = 2 ^ ((n.log2 : Int) + 1 + e) := (two_zpow_add _ _).symm
        _ ≤ 2 ^ (e + shiftOf n e + 53) := two_zpow_le (by unfold shiftOf; omega)
    have hl : e + shiftOf n e = -1074 ∨ (2 : ℚ) ^ (e + shiftOf n e + 52) ≤ (n : ℚ) * 2 ^ e := by
      by_cases hk' : e + shiftOf n e = -1074
      · exact Or.inl hk'
      · right
        have : e + shiftOf n e + 52 = (n.log2 : Int) + e := by unfold shiftOf at *; omega
        rw [this, two_zpow_add]
        exact mul_le_mul_of_nonneg_right hb1 hE.le
    have hs : 0 < (shiftOf n e).toNat := by omega
    have hsz : (((shiftOf n e).toNat : Nat) : Int) = shiftOf n e := Int.toNat_of_nonneg (by omega)
    obtain ⟨ha, hb, ht, hs'⟩ := rhe_specQ n (shiftOf n e).toNat hs
    generalize hQ : rhe n (shiftOf n e).toNat = Qn at *
    have hP : (2 : ℚ) ^ (e + shiftOf n e - 1) = 2 ^ ((shiftOf n e).toNat - 1) * 2 ^ e := by
      rw [← zpow_natCast, ← two_zpow_add]
      congr 1
      omega
    have hmulE : ∀ c : ℚ, c * (2 ^ ((shiftOf n e).toNat - 1) * 2 ^ e)
        = (c * 2 ^ ((shiftOf n e).toNat - 1)) * 2 ^ e := fun c => by ring
    refine ⟨hk, hu, hl, ?_, ?_, ?_, ?_⟩
    · rw [hP, hmulE]; exact mul_le_mul_of_nonneg_right ha hE.le
    · rw [hP, hmulE]; exact mul_le_mul_of_nonneg_right hb hE.le
    · intro h; rw [hP, hmulE] at h
      exact ht (mul_right_cancel₀ (ne_of_gt hE) h)
    · intro h; rw [hP, hmulE] at h
      exact hs' (mul_right_cancel₀ (ne_of_gt hE) h)

/-- **the structure of `roundRat`**: it returns `roundOut Q K` for the `RSpecW` witnesses of
    the exact quotient `n/d` -/
theorem roundRat_struct (n d : Nat) (hn : n ≠ 0) (hd : d ≠ 0) :
    ∃ (K : Int) (Q : Nat), RSpecW ((n : ℚ) / d) K (Q : Int) ∧ roundRat false n d = roundOut Q K := by
  rw [roundRat_pos_eq n d hn hd]
  have hq56 := rrK_quot_ge n d hn hd
  generalize rrK n d = k at *
  rw [Nat.shiftLeft_eq]
  set num := n * 2 ^ k with hnum
  set q := num / d with hq
  set stN : Nat := (if num % d == 0 then 0 else 1) with hstN
  have hM0 : 2 * q + stN ≠ 0 := by
    have : 0 < 2 ^ 56 := by positivity
    omega
  -- at least 57 bits: the shift is positive
  have hlog : 57 ≤ (2 * q + stN).log2 + 1 := by
    have h57 : 2 ^ 57 ≤ 2 * q + stN := by
      have : (2 : Nat) ^ 57 = 2 * 2 ^ 56 := by norm_num
      omega
    have := (Nat.le_log2 hM0).2 h57
    omega
  have hsh : 0 < shiftOf (2 * q + stN) (-(k : Int) - 1) := by unfold shiftOf; omega
  obtain ⟨hround, hW⟩ := round_shift_W (2 * q + stN) hM0 (-(k : Int) - 1) hsh
  generalize (-(k : Int) - 1) + shiftOf (2 * q + stN) (-(k : Int) - 1) = K at *
  generalize rhe (2 * q + stN) (shiftOf (2 * q + stN) (-(k : Int) - 1)).toNat = Q at *
  refine ⟨K, Q, ?_, hround⟩
  -- the grid and the sticky approximant (as in `roundRat_specW`)
  have hG : (0 : ℚ) < 2 ^ (-(k : Int)) := two_zpow_pos _
  have hdq : (0 : ℚ) < (d : ℚ) := by exact_mod_cast Nat.pos_of_ne_zero hd
  have hGk : (2 : ℚ) ^ (-(k : Int)) * 2 ^ k = 1 := by
    rw [← zpow_natCast, ← two_zpow_add]; simp
  have hv : (n : ℚ) / d = ((num : ℚ) / d) * 2 ^ (-(k : Int)) := by
    rw [hnum]; push_cast
    rw [div_mul_eq_mul_div, mul_assoc, mul_comm ((2 : ℚ) ^ k), hGk, mul_one]
  have hdm := Nat.div_add_mod num d
  have hmod := Nat.mod_lt num (Nat.pos_of_ne_zero hd)
  have hnumq : (num : ℚ) = (d : ℚ) * (q : ℚ) + ((num % d : Nat) : ℚ) := by
    rw [hq]; exact_mod_cast hdm.symm
  have hhalf : (2 : ℚ) ^ (-(k : Int) - 1) = 2 ^ (-(k : Int)) / 2 := by
    rw [show (-(k : Int) - 1) = -(k : Int) + (-1) by ring, two_zpow_add,
      show (2 : ℚ) ^ (-1 : Int) = 1 / 2 by norm_num]; ring
  have hst : (((stN : ℚ) = 0 ∧ (n : ℚ) / d = ((q : Int) : ℚ) * 2 ^ (-(k : Int))) ∨
      ((stN : ℚ) = 1 ∧ ((q : Int) : ℚ) * 2 ^ (-(k : Int)) < (n : ℚ) / d)) := by
    by_cases hz : num % d = 0
    · left
      have : stN = 0 := by rw [hstN]; simp [hz]
      refine ⟨by rw [this]; simp, ?_⟩
      rw [hv, hnumq, hz]; push_cast
      rw [add_zero, mul_div_cancel_left₀ _ (ne_of_gt hdq)]
    · right
      have : stN = 1 := by rw [hstN]; simp [hz]
      refine ⟨by rw [this]; simp, ?_⟩
      rw [hv]
      apply mul_lt_mul_of_pos_right _ hG
      rw [lt_div_iff₀ hdq, hnumq]; push_cast
      have : (0 : ℚ) < ((num % d : Nat) : ℚ) := by exact_mod_cast Nat.pos_of_ne_zero hz
      linarith
  have hV : (n : ℚ) / d < (((q : Int) : ℚ) + 1) * 2 ^ (-(k : Int)) := by
    rw [hv]
    apply mul_lt_mul_of_pos_right _ hG
    rw [div_lt_iff₀ hdq, hnumq]; push_cast
    have : ((num % d : Nat) : ℚ) < (d : ℚ) := by exact_mod_cast hmod
    linarith
  have hA : (((2 * q + stN : Nat) : ℚ)) * 2 ^ (-(k : Int) - 1) =
      (((q : Int) : ℚ) + (stN : ℚ) / 2) * 2 ^ (-(k : Int)) := by
    rw [hhalf]; push_cast; ring
  rw [hA] at hW
  have hKk : 0 ≤ K - 1 + k := by
    obtain ⟨-, hu, -⟩ := hW
    have h56 : ((2 : ℚ) ^ (56 : Nat)) ≤ ((q : Int) : ℚ) := by exact_mod_cast hq56
    have hst0 : (0 : ℚ) ≤ (stN : ℚ) / 2 := by positivity
    have : (2 : ℚ) ^ ((56 : Int) + -(k : Int)) < 2 ^ (K + 53) := by
      rw [two_zpow_add]
      calc (2 : ℚ) ^ (56 : Int) * 2 ^ (-(k : Int)) ≤ (((q : Int) : ℚ) + (stN : ℚ) / 2) * 2 ^ (-(k : Int)) := by
            apply mul_le_mul_of_nonneg_right _ hG.le
            have : (2 : ℚ) ^ (56 : Int) = 2 ^ (56 : Nat) := by norm_cast
            rw [this]; linarith
        _ < 2 ^ (K + 53) := hu
    rw [two_zpow_lt_iff] at this
    omega
  exact RSpecW_sticky hG (q : Int) (stN : ℚ) hst hV rfl
    (fun t c ht => onGrid_pow k t (by omega) c) hW

/-- two quotients of the same value are rounded to the same `Dbl` term -/
theorem roundRat_congr (n d n' d' : Nat) (hn : n ≠ 0) (hd : d ≠ 0) (hn' : n' ≠ 0) (hd' : d' ≠ 0)
    (h : (n : ℚ) / d = (n' : ℚ) / d') : roundRat false n d = roundRat false n' d' := by
  obtain ⟨K, Q, hW, hr⟩ := roundRat_struct n d hn hd
  obtain ⟨K', Q', hW', hr'⟩ := roundRat_struct n' d' hn' hd'
  rw [h] at hW
  obtain ⟨h1, h2⟩ := RSpecW_unique hW hW'
  have h3 : Q = Q' := by exact_mod_cast h2
  rw [hr, hr', h1, h3]

/-- the structure of `decToDbl` -/
theorem decToDbl_struct (D : Nat) (s : Int) (hD : D ≠ 0) :
    ∃ (K : Int) (Q : Nat), RSpecW (decVal D s) K (Q : Int) ∧ decToDbl D s = roundOut Q K := by
  unfold decToDbl decVal
  by_cases hs : s ≥ 0
  · rw [if_pos hs]
    have h10 : (10 : Nat) ^ s.toNat ≠ 0 := by positivity
    have := roundRat_struct (D * 10 ^ s.toNat) 1 (Nat.mul_ne_zero hD h10) Nat.one_ne_zero
    have e : (((D * 10 ^ s.toNat : Nat) : ℚ) / ((1 : Nat) : ℚ)) = (D : ℚ) * 10 ^ s := by
      push_cast; rw [ten_zpow_toNat s hs]; simp
    rw [e] at this
    exact this
  · rw [if_neg hs]
    have h10 : (10 : Nat) ^ (-s).toNat ≠ 0 := by positivity
    have := roundRat_struct D (10 ^ (-s).toNat) hD h10
    have e : ((D : ℚ) / ((10 ^ (-s).toNat : Nat) : ℚ)) = (D : ℚ) * 10 ^ s := by
      push_cast; rw [ten_zpow_neg_toNat s (by omega), div_eq_mul_inv, inv_inv]
    rw [e] at this
    exact this

/-- **the double read from a decimal depends on its value only**: another digit block and
    exponent for the same number (trailing zeros, scientific notation) give the same `Dbl` term -/
theorem decToDbl_congr (D : Nat) (s : Int) (D' : Nat) (s' : Int) (hD : D ≠ 0) (hD' : D' ≠ 0)
    (h : decVal D s = decVal D' s') : decToDbl D s = decToDbl D' s' := by
  obtain ⟨K, Q, hW, hr⟩ := decToDbl_struct D s hD
  obtain ⟨K', Q', hW', hr'⟩ := decToDbl_struct D' s' hD'
  rw [h] at hW
  obtain ⟨h1, h2⟩ := RSpecW_unique hW hW'
  have h3 : Q = Q' := by exact_mod_cast h2
  rw [hr, hr', h1, h3]

/-- `ofDecimal` is `decToDbl` -/
theorem ofDecimal_eq_decToDbl (digits scale : Nat) :
    ofDecimal false digits scale = decToDbl digits (-(scale : Int)) := by
  unfold ofDecimal decToDbl
  by_cases hs : scale = 0
  · subst hs
    simp
  · rw [if_neg (by omega)]
    simp

end Dbl
end Pyab
