/-
  Masking and string substitution: the *skeleton* of the emitted lines (everything except
  the constants: names, operator texts, nesting, indentation, weights, number of groups)
  does not depend on the contents of any string of the experiment source.
-/
import Pyab.Proofs.Routing
namespace Pyab.Proofs
open Pyab Pyab.Spec

/-! ### masking: every constant becomes `None` -/

mutual
def maskTerm : PTerm → PTerm
  | .const _ => .const .none
  | .name n => .name n
  | .tuple l => .tuple (maskTerms l)
def maskTerms : List PTerm → List PTerm
  | [] => []
  | t :: ts => maskTerm t :: maskTerms ts
end

def maskExpr : PExpr → PExpr
  | .cmp l op r => .cmp (maskTerm l) op (maskTerm r)
  | .bin a op b => .bin (maskExpr a) op (maskExpr b)
  | .un op a => .un op (maskExpr a)

def maskLine : Line → Line
  | .ifL e => .ifL (maskExpr e)
  | .elifL e => .elifL (maskExpr e)
  | .elseL => .elseL
  | .ret pop ws => .ret (pop.map fun _ => PyVal.none) ws
  | .raiseU => .raiseU

def maskILine : ILine → ILine := fun x => (x.1, maskLine x.2)

/-! ### replacing the contents of every string of the source -/

mutual
def substTerm (σ : String → String) : Term → Term
  | .int i => .int i
  | .float d nz => .float d nz
  | .str s => .str (σ s)
  | .ident n => .ident n
  | .tuple l => .tuple (substTerms σ l)
def substTerms (σ : String → String) : List Term → List Term
  | [] => []
  | t :: ts => substTerm σ t :: substTerms σ ts
end

def substPred (σ : String → String) : Pred → Pred
  | .cmp l op r => .cmp (substTerm σ l) op (substTerm σ r)
  | .and a b => .and (substPred σ a) (substPred σ b)
  | .or a b => .or (substPred σ a) (substPred σ b)
  | .not a => .not (substPred σ a)

def substGroup (σ : String → String) (g : Group) : Group := ⟨substTerm σ g.defn, g.weight⟩

mutual
def substCond (σ : String → String) : Cond → Cond
  | .ret gs => .ret (gs.map (substGroup σ))
  | .ifte p t rest => .ifte (substPred σ p) (substCond σ t) (substSub σ rest)
def substSub (σ : String → String) : Sub → Sub
  | .none => .none
  | .else_ t => .else_ (substCond σ t)
  | .elif p t rest => .elif (substPred σ p) (substCond σ t) (substSub σ rest)
end

/-! ### congruence of `Except.map` through binds -/

theorem map_bind_congr {α β γ δ : Type} (f : α → γ) (g : β → δ) {x x' : Except Err α}
    {k k' : α → Except Err β}
    (hx : Except.map f x = Except.map f x')
    (hk : ∀ a a', f a = f a' → Except.map g (k a) = Except.map g (k' a')) :
    Except.map g (x >>= k) = Except.map g (x' >>= k') := by
  cases x with
  | error e =>
    cases x' with
    | error e' =>
      simp only [Except.map, Except.error.injEq] at hx
      subst hx; rfl
    | ok a' => simp [Except.map] at hx
  | ok a =>
    cases x' with
    | error e' => simp [Except.map] at hx
    | ok a' =>
      simp only [Except.map, Except.ok.injEq] at hx
      exact hk a a' hx

theorem map_pure_congr {β δ : Type} (g : β → δ) {b b' : β} (h : g b = g b') :
    Except.map g (pure b : Except Err β) = Except.map g (pure b' : Except Err β) := by
  simp [Except.map, pure, Except.pure, h]

/-! ### terms -/

mutual
theorem lowerTerm_subst_mask (cfg : GenCfg) (hc : CanonicalExpr cfg)
    (hrb : ∀ s, readBackStr cfg true s = .ok s) (σ : String → String) :
    ∀ (t : Term), Except.map maskTerm (lowerTerm cfg (substTerm σ t)) = Except.map maskTerm (lowerTerm cfg t)
  | .int i => by simp only [substTerm]
  | .float d nz => by simp only [substTerm]
  | .str s => by
      simp only [substTerm, lowerTerm, hc.strTerm, hrb]
      rfl
  | .ident n => by simp only [substTerm]
  | .tuple l => by
      simp only [substTerm, lowerTerm, hc.tuples, if_true]
      apply map_bind_congr maskTerms maskTerm (lowerTerms_subst_mask cfg hc hrb σ l)
      intro a a' h
      apply map_pure_congr
      simp only [maskTerm, h]
theorem lowerTerms_subst_mask (cfg : GenCfg) (hc : CanonicalExpr cfg)
    (hrb : ∀ s, readBackStr cfg true s = .ok s) (σ : String → String) :
    ∀ (l : List Term), Except.map maskTerms (lowerTerms cfg (substTerms σ l)) = Except.map maskTerms (lowerTerms cfg l)
  | [] => by simp only [substTerms]
  | t :: ts => by
      simp only [substTerms, lowerTerms]
      apply map_bind_congr maskTerm maskTerms (lowerTerm_subst_mask cfg hc hrb σ t)
      intro a a' ha
      apply map_bind_congr maskTerms maskTerms (lowerTerms_subst_mask cfg hc hrb σ ts)
      intro b b' hb
      apply map_pure_congr
      simp only [maskTerms, ha, hb]
end

/-! ### predicates -/

theorem lowerPred_subst_mask (cfg : GenCfg) (hc : CanonicalExpr cfg)
    (hrb : ∀ s, readBackStr cfg true s = .ok s) (σ : String → String) :
    ∀ (p : Pred), Except.map maskExpr (lowerPred cfg (substPred σ p)) = Except.map maskExpr (lowerPred cfg p)
  | .cmp l op r => by
      simp only [substPred, lowerPred]
      apply map_bind_congr maskTerm maskExpr (lowerTerm_subst_mask cfg hc hrb σ l)
      intro a a' ha
      apply map_bind_congr maskTerm maskExpr (lowerTerm_subst_mask cfg hc hrb σ r)
      intro b b' hb
      apply map_pure_congr
      simp only [maskExpr, ha, hb]
  | .and p q => by
      simp only [substPred, lowerPred]
      apply map_bind_congr maskExpr maskExpr (lowerPred_subst_mask cfg hc hrb σ p)
      intro a a' ha
      apply map_bind_congr maskExpr maskExpr (lowerPred_subst_mask cfg hc hrb σ q)
      intro b b' hb
      apply map_pure_congr
      simp only [maskExpr, ha, hb]
  | .or p q => by
      simp only [substPred, lowerPred]
      apply map_bind_congr maskExpr maskExpr (lowerPred_subst_mask cfg hc hrb σ p)
      intro a a' ha
      apply map_bind_congr maskExpr maskExpr (lowerPred_subst_mask cfg hc hrb σ q)
      intro b b' hb
      apply map_pure_congr
      simp only [maskExpr, ha, hb]
  | .not p => by
      simp only [substPred, lowerPred]
      apply map_bind_congr maskExpr maskExpr (lowerPred_subst_mask cfg hc hrb σ p)
      intro a a' ha
      apply map_pure_congr
      simp only [maskExpr, ha]

/-! ### return statements -/

theorem groupVal_subst_mask (cfg : GenCfg) (hrb : ∀ s, readBackStr cfg true s = .ok s)
    (σ : String → String) (t : Term) :
    Except.map (fun _ => PyVal.none) (groupVal cfg (substTerm σ t))
      = Except.map (fun _ => PyVal.none) (groupVal cfg t) := by
  cases t with
  | int i => simp only [substTerm]
  | float d nz => simp only [substTerm]
  | str s => simp only [substTerm, groupVal, hrb]; rfl
  | ident n => simp only [substTerm]
  | tuple l => simp only [substTerm, groupVal]

theorem pop_subst_mask (cfg : GenCfg) (hrb : ∀ s, readBackStr cfg true s = .ok s)
    (σ : String → String) :
    ∀ (gs : List Group),
      Except.map (List.map fun _ => PyVal.none) ((gs.map (substGroup σ)).mapM (fun g => groupVal cfg g.defn))
        = Except.map (List.map fun _ => PyVal.none) (gs.mapM (fun g => groupVal cfg g.defn))
  | [] => by simp only [List.map_nil]
  | g :: gs => by
      simp only [List.map_cons, List.mapM_cons]
      apply map_bind_congr (fun _ => PyVal.none) (List.map fun _ => PyVal.none)
        (groupVal_subst_mask cfg hrb σ g.defn)
      intro a a' _
      apply map_bind_congr (List.map fun _ => PyVal.none) (List.map fun _ => PyVal.none)
        (pop_subst_mask cfg hrb σ gs)
      intro b b' hb
      apply map_pure_congr
      simp only [List.map_cons, hb]

theorem weights_subst (σ : String → String) :
    ∀ (gs : List Group),
      (gs.map (substGroup σ)).mapM (fun g => renderWeight g.weight) = gs.mapM (fun g => renderWeight g.weight)
  | [] => by simp only [List.map_nil]
  | g :: gs => by
      simp only [List.map_cons, List.mapM_cons, weights_subst σ gs, substGroup]

theorem weightList_subst (σ : String → String) (gs : List Group) :
    (gs.map (substGroup σ)).map (·.weight) = gs.map (·.weight) := by
  simp [List.map_map, Function.comp_def, substGroup]

/-- masking of what a return statement hands over: the population is blanked, the weights stay -/
def maskRet (p : List PyVal × List Num) : List PyVal × List Num := (p.1.map fun _ => PyVal.none, p.2)

theorem retVals_subst_mask (cfg : GenCfg) (hrb : ∀ s, readBackStr cfg true s = .ok s)
    (σ : String → String) (gs : List Group) :
    Except.map maskRet (retVals cfg (gs.map (substGroup σ))) = Except.map maskRet (retVals cfg gs) := by
  simp only [retVals, weights_subst, weightList_subst]
  apply map_bind_congr (List.map fun _ => PyVal.none) maskRet (pop_subst_mask cfg hrb σ gs)
  intro a a' ha
  apply map_bind_congr id maskRet rfl
  intro b b' _
  apply map_pure_congr
  simp only [maskRet, ha]

theorem lowerReturn_subst_mask (cfg : GenCfg) (hrb : ∀ s, readBackStr cfg true s = .ok s)
    (σ : String → String) (gs : List Group) :
    Except.map maskLine (lowerReturn cfg (gs.map (substGroup σ))) = Except.map maskLine (lowerReturn cfg gs) := by
  simp only [lowerReturn]
  apply map_bind_congr maskRet maskLine (retVals_subst_mask cfg hrb σ gs)
  intro a a' ha
  obtain ⟨pop, ws⟩ := a
  obtain ⟨pop', ws'⟩ := a'
  simp only [maskRet, Prod.mk.injEq] at ha
  apply map_pure_congr
  simp only [maskLine, ha.1, ha.2]

/-! ### conditionals -/

mutual
theorem linesCond_subst_mask (cfg : GenCfg) (hc : CanonicalExpr cfg)
    (hrb : ∀ s, readBackStr cfg true s = .ok s) (σ : String → String) :
    ∀ (c : Cond) (d : Nat),
      Except.map (List.map maskILine) (linesCond cfg d (substCond σ c))
        = Except.map (List.map maskILine) (linesCond cfg d c)
  | .ret gs, d => by
      simp only [substCond, linesCond]
      apply map_bind_congr maskLine (List.map maskILine) (lowerReturn_subst_mask cfg hrb σ gs)
      intro a a' ha
      apply map_pure_congr
      simp only [List.map_cons, List.map_nil, maskILine, ha]
  | .ifte p t rest, d => by
      simp only [substCond, linesCond]
      apply map_bind_congr maskExpr (List.map maskILine) (lowerPred_subst_mask cfg hc hrb σ p)
      intro e e' he
      apply map_bind_congr (List.map maskILine) (List.map maskILine)
        (linesCond_subst_mask cfg hc hrb σ t (d + 1))
      intro tb tb' htb
      apply map_bind_congr (List.map maskILine) (List.map maskILine)
        (linesSub_subst_mask cfg hc hrb σ rest d)
      intro fb fb' hfb
      apply map_pure_congr
      simp only [List.map_cons, List.map_append, maskILine, maskLine, he, htb, hfb]
theorem linesSub_subst_mask (cfg : GenCfg) (hc : CanonicalExpr cfg)
    (hrb : ∀ s, readBackStr cfg true s = .ok s) (σ : String → String) :
    ∀ (s : Sub) (d : Nat),
      Except.map (List.map maskILine) (linesSub cfg d (substSub σ s))
        = Except.map (List.map maskILine) (linesSub cfg d s)
  | .none, d => by simp only [substSub]
  | .else_ t, d => by
      simp only [substSub, linesSub]
      apply map_bind_congr (List.map maskILine) (List.map maskILine)
        (linesCond_subst_mask cfg hc hrb σ t (d + 1))
      intro tb tb' htb
      apply map_pure_congr
      simp only [List.map_cons, htb]
  | .elif p t rest, d => by
      simp only [substSub, linesSub]
      apply map_bind_congr maskExpr (List.map maskILine) (lowerPred_subst_mask cfg hc hrb σ p)
      intro e e' he
      apply map_bind_congr (List.map maskILine) (List.map maskILine)
        (linesCond_subst_mask cfg hc hrb σ t (d + 1))
      intro tb tb' htb
      apply map_bind_congr (List.map maskILine) (List.map maskILine)
        (linesSub_subst_mask cfg hc hrb σ rest d)
      intro fb fb' hfb
      apply map_pure_congr
      simp only [List.map_cons, List.map_append, maskILine, maskLine, he, htb, hfb]
end

/-! ### the body -/

/-- the masked body — or the error raised while producing it — is the same whatever the
    strings of the source are replaced by -/
theorem bodyLines_subst_mask (cfg : GenCfg) (hc : CanonicalExpr cfg)
    (hrb : ∀ s, readBackStr cfg true s = .ok s) (σ : String → String) (c : Cond) (d : Nat) :
    (bodyLines cfg d (substCond σ c)).map (·.map maskILine) = (bodyLines cfg d c).map (·.map maskILine) := by
  simp only [bodyLines]
  apply map_bind_congr (List.map maskILine) (List.map maskILine) (linesCond_subst_mask cfg hc hrb σ c d)
  intro a a' ha
  apply map_pure_congr
  simp only [List.map_append, ha]

theorem bodyLines_subst_ok_iff (cfg : GenCfg) (hc : CanonicalExpr cfg)
    (hrb : ∀ s, readBackStr cfg true s = .ok s) (σ : String → String) (c : Cond) (d : Nat) :
    (∃ L, bodyLines cfg d c = .ok L) ↔ (∃ L', bodyLines cfg d (substCond σ c) = .ok L') := by
  have h := bodyLines_subst_mask cfg hc hrb σ c d
  cases h1 : bodyLines cfg d c <;> cases h2 : bodyLines cfg d (substCond σ c) <;>
    simp [h1, h2, Except.map] at h ⊢

theorem bodyLines_subst_skeleton (cfg : GenCfg) (hc : CanonicalExpr cfg)
    (hrb : ∀ s, readBackStr cfg true s = .ok s) (σ : String → String) (c : Cond) (d : Nat)
    (L L' : List ILine) (h : bodyLines cfg d c = .ok L) (h' : bodyLines cfg d (substCond σ c) = .ok L') :
    L.map maskILine = L'.map maskILine := by
  have hm := bodyLines_subst_mask cfg hc hrb σ c d
  simp only [h, h', Except.map, Except.ok.injEq] at hm
  exact hm.symm

theorem bodyLines_subst_error (cfg : GenCfg) (hc : CanonicalExpr cfg)
    (hrb : ∀ s, readBackStr cfg true s = .ok s) (σ : String → String) (c : Cond) (d : Nat) (err : Err) :
    bodyLines cfg d c = .error err ↔ bodyLines cfg d (substCond σ c) = .error err := by
  have h := bodyLines_subst_mask cfg hc hrb σ c d
  cases h1 : bodyLines cfg d c <;> cases h2 : bodyLines cfg d (substCond σ c) <;>
    simp [h1, h2, Except.map] at h ⊢
  · subst h; rfl

end Pyab.Proofs
