/-
  Completeness of the generated LR tables on canonical renderings — part 1:
  the driver's single steps as rewrite lemmas over the concrete tables
  (`Generated.lrTables`), and step-bounded runs of the driver.
-/
import Pyab.Spec.Unparse
import Pyab.Generated.LRTables
namespace Pyab.Proofs.LRC
open Pyab Pyab.Spec

/-- the concrete tables -/
abbrev T : LRTables := Generated.lrTables

/-- the lookahead kind the driver computes -/
def la : List Token → String
  | [] => "$end"
  | t :: _ => t.kind

/-- the driver's action lookup (defaulted states first) -/
def actRaw (s : Nat) (k : String) : Option Int :=
  match lookupN s T.defaulted with
  | some a => some a
  | none => (T.action[s]?).bind (lookupS k)

inductive Act where
  | shift (n : Nat) | reduce (p : Nat) | accept | err
deriving DecidableEq, Repr

/-- the action of state `s` on lookahead kind `k`, classified -/
def act (s : Nat) (k : String) : Act :=
  match actRaw s k with
  | none => .err
  | some t => if t > 0 then .shift t.toNat else if t < 0 then .reduce (-t).toNat else .accept

/-- goto lookup -/
def G (s : Nat) (n : String) : Option Nat := (T.goto[s]?).bind (lookupS n)
/-- goto target (0 when absent) -/
def gt (s : Nat) (n : String) : Nat := (G s n).getD 0

/-- one unfolding of the driver on the concrete tables, with the action lookup named -/
def stepBody (f : Nat) (stack : List Entry) (input : List Token) : Except Err Experiment :=
    match actRaw (topState stack) (la input) with
    | none => throw .parseError
    | some t =>
      if t > 0 then
        match input with
        | tok :: rest => lrLoop T f (⟨t.toNat, tok.kind, .tok tok⟩ :: stack) rest
        | [] => throw (.other "shift-eof")
      else if t < 0 then
        match T.prods[(-t).toNat]? with
        | none => throw (.other "bad-production")
        | some p =>
          match popN p.rhs.length stack with
          | none => throw (.other "stack-underflow")
          | some (args, stack') =>
            if args.map (·.sym) != p.rhs then throw (.other "rhs-mismatch") else
            match semAction T p (args.map (·.sem)) with
            | none => throw (.other ("no-action:" ++ p.lhs))
            | some v =>
              match G (topState stack') p.lhs with
              | none => throw (.other "no-goto")
              | some g => lrLoop T f (⟨g, p.lhs, v⟩ :: stack') input
      else
        match input, stack with
        | [], [⟨_, sym, .exp e⟩] => if sym == T.startSym then pure e else throw (.other "accept-wrong-symbol")
        | _, _ => throw (.other "accept-without-ast")

theorem lrLoop_succ (f : Nat) (σ : List Entry) (inp : List Token) :
    lrLoop T (f+1) σ inp = stepBody f σ inp := by
  cases inp <;> rfl

theorem act_shift {s : Nat} {k : String} {n : Nat} (h : act s k = .shift n) :
    ∃ t : Int, actRaw s k = some t ∧ t > 0 ∧ t.toNat = n := by
  unfold act at h
  split at h
  · cases h
  · rename_i t ht
    split at h
    · rename_i hpos
      cases h
      exact ⟨t, ht, hpos, rfl⟩
    · split at h <;> cases h

theorem act_reduce {s : Nat} {k : String} {p : Nat} (h : act s k = .reduce p) :
    ∃ t : Int, actRaw s k = some t ∧ ¬ t > 0 ∧ t < 0 ∧ (-t).toNat = p := by
  unfold act at h
  split at h
  · cases h
  · rename_i t ht
    split at h
    · cases h
    · rename_i hnpos
      split at h
      · rename_i hneg
        cases h
        exact ⟨t, ht, hnpos, hneg, rfl⟩
      · cases h

theorem act_accept {s : Nat} {k : String} (h : act s k = .accept) :
    ∃ t : Int, actRaw s k = some t ∧ ¬ t > 0 ∧ ¬ t < 0 := by
  unfold act at h
  split at h
  · cases h
  · rename_i t ht
    split at h
    · cases h
    · rename_i hnpos
      split at h
      · cases h
      · rename_i hnneg
        exact ⟨t, ht, hnpos, hnneg⟩

theorem lrLoop_shift (f : Nat) {σ : List Entry} {tok : Token} {rest : List Token} {n : Nat}
    (h : act (topState σ) tok.kind = .shift n) :
    lrLoop T (f+1) σ (tok :: rest) = lrLoop T f (⟨n, tok.kind, .tok tok⟩ :: σ) rest := by
  obtain ⟨t, ht, hpos, rfl⟩ := act_shift h
  rw [lrLoop_succ]
  unfold stepBody
  have : la (tok :: rest) = tok.kind := rfl
  rw [this, ht]
  simp only [hpos, if_true]

theorem lrLoop_reduce (f : Nat) {σ σ' args : List Entry} {inp : List Token} {p g : Nat} {pr : Prod} {v : Sem}
    (h : act (topState σ) (la inp) = .reduce p)
    (hp : T.prods[p]? = some pr)
    (hpop : popN pr.rhs.length σ = some (args, σ'))
    (hsym : args.map (·.sym) = pr.rhs)
    (hsem : semAction T pr (args.map (·.sem)) = some v)
    (hg : G (topState σ') pr.lhs = some g) :
    lrLoop T (f+1) σ inp = lrLoop T f (⟨g, pr.lhs, v⟩ :: σ') inp := by
  obtain ⟨t, ht, hnpos, hneg, rfl⟩ := act_reduce h
  rw [lrLoop_succ]
  unfold stepBody
  rw [ht]
  simp only [hnpos, hneg, if_true, if_false]
  rw [hp]
  simp only []
  rw [hpop]
  simp only [hsym, bne_self_eq_false, Bool.false_eq_true, if_false, hsem, hg]

theorem lrLoop_accept (f : Nat) (s : Nat) (e : Experiment) (h : act s "$end" = .accept) :
    lrLoop T (f+1) [⟨s, "header", .exp e⟩] [] = .ok e := by
  obtain ⟨t, ht, hnpos, hnneg⟩ := act_accept h
  rw [lrLoop_succ]
  unfold stepBody
  have : la ([] : List Token) = "$end" := rfl
  rw [this]
  simp only [topState]
  rw [ht]
  simp only [hnpos, hnneg, if_false]
  rfl

/-! ### Step-bounded runs -/

/-- from configuration `(σ, inp)` the driver reaches `(σ', inp')` in at most `b` steps -/
def Run (b : Nat) (σ : List Entry) (inp : List Token) (σ' : List Entry) (inp' : List Token) : Prop :=
  ∃ n, n ≤ b ∧ ∀ f, lrLoop T (f + n) σ inp = lrLoop T f σ' inp'

theorem Run.refl {σ : List Entry} {inp : List Token} : Run 0 σ inp σ inp :=
  ⟨0, Nat.le_refl _, fun _ => rfl⟩

theorem Run.mono {b b' : Nat} {σ σ' : List Entry} {inp inp' : List Token}
    (h : Run b σ inp σ' inp') (hb : b ≤ b') : Run b' σ inp σ' inp' := by
  obtain ⟨n, hn, hf⟩ := h
  exact ⟨n, Nat.le_trans hn hb, hf⟩

theorem Run.trans {b1 b2 : Nat} {σ σ' σ'' : List Entry} {inp inp' inp'' : List Token}
    (h1 : Run b1 σ inp σ' inp') (h2 : Run b2 σ' inp' σ'' inp'') : Run (b2 + b1) σ inp σ'' inp'' := by
  obtain ⟨n1, hn1, hf1⟩ := h1
  obtain ⟨n2, hn2, hf2⟩ := h2
  refine ⟨n2 + n1, by omega, fun f => ?_⟩
  rw [← Nat.add_assoc, hf1, hf2]

theorem Run.shift {b n : Nat} {σ σ' : List Entry} {tok : Token} {rest inp' : List Token}
    (h : act (topState σ) tok.kind = .shift n)
    (hk : Run b (⟨n, tok.kind, .tok tok⟩ :: σ) rest σ' inp') : Run (b+1) σ (tok :: rest) σ' inp' := by
  obtain ⟨m, hm, hf⟩ := hk
  refine ⟨m + 1, by omega, fun f => ?_⟩
  rw [← Nat.add_assoc, lrLoop_shift _ h, hf]

theorem Run.reduce {b : Nat} {σ σ' args σ'' : List Entry} {inp inp'' : List Token} {p g : Nat} {pr : Prod} {v : Sem}
    (h : act (topState σ) (la inp) = .reduce p)
    (hp : T.prods[p]? = some pr)
    (hpop : popN pr.rhs.length σ = some (args, σ'))
    (hsym : args.map (·.sym) = pr.rhs)
    (hsem : semAction T pr (args.map (·.sem)) = some v)
    (hg : G (topState σ') pr.lhs = some g)
    (hk : Run b (⟨g, pr.lhs, v⟩ :: σ') inp σ'' inp'') : Run (b+1) σ inp σ'' inp'' := by
  obtain ⟨m, hm, hf⟩ := hk
  refine ⟨m + 1, by omega, fun f => ?_⟩
  rw [← Nat.add_assoc, lrLoop_reduce _ h hp hpop hsym hsem hg, hf]

theorem popN0 (σ : List Entry) : popN 0 σ = some ([], σ) := by simp [popN]
theorem popN1 (a : Entry) (σ : List Entry) : popN 1 (a :: σ) = some ([a], σ) := by simp [popN]
theorem popN2 (a b : Entry) (σ : List Entry) : popN 2 (a :: b :: σ) = some ([b, a], σ) := by simp [popN]
theorem popN3 (a b c : Entry) (σ : List Entry) : popN 3 (a :: b :: c :: σ) = some ([c, b, a], σ) := by simp [popN]
theorem popN4 (a b c d : Entry) (σ : List Entry) :
    popN 4 (a :: b :: c :: d :: σ) = some ([d, c, b, a], σ) := by simp [popN]
theorem popN5 (a b c d e : Entry) (σ : List Entry) :
    popN 5 (a :: b :: c :: d :: e :: σ) = some ([e, d, c, b, a], σ) := by simp [popN]
theorem popN6 (a b c d e f : Entry) (σ : List Entry) :
    popN 6 (a :: b :: c :: d :: e :: f :: σ) = some ([f, e, d, c, b, a], σ) := by simp [popN]

theorem validateTerm_smart (t : Term) : validateTerm T.smartUnionTerm t = t := by
  cases t <;> rfl

/-- the negative-zero flag `literal → MINUS NON_NEG_FLOAT` computes from the token's double -/
def negZeroFlag (d : Dbl) : Bool :=
  match d with
  | .fin 0 _ => true
  | _ => false

/-! ### One reduce lemma per production (continuation style) -/
theorem red1 {b g : Nat} {σ σ'' : List Entry} {inp inp'' : List Token} {s1 s2 s3 s4 s5 s6 : Nat} {v2 v6 : Sem} {id : String} {salt : Option String} {sp : Option (List String)} {c : Cond}
    (h : act s6 (la inp) = .reduce 1) (hg : G (topState σ) "header" = some g)
    (hk : Run b (⟨g, "header", .exp ⟨id, salt, sp, c⟩⟩ :: σ) inp σ'' inp'') :
    Run (b+1) (⟨s6, "RBRACE", v6⟩ :: ⟨s5, "conditional", .cond c⟩ :: ⟨s4, "opt_splitter", .optFields sp⟩ :: ⟨s3, "opt_header_salt", .optStr salt⟩ :: ⟨s2, "LBRACE", v2⟩ :: ⟨s1, "header_id", .str id⟩ :: σ) inp σ'' inp'' :=
  Run.reduce (pr := ⟨"header", ["header_id", "LBRACE", "opt_header_salt", "opt_splitter", "conditional", "RBRACE"]⟩) h rfl (popN6 _ _ _ _ _ _ _) rfl rfl hg hk

theorem red2 {b g : Nat} {σ σ'' : List Entry} {inp inp'' : List Token}
    (h : act (topState σ) (la inp) = .reduce 2) (hg : G (topState σ) "empty" = some g)
    (hk : Run b (⟨g, "empty", .unit⟩ :: σ) inp σ'' inp'') :
    Run (b+1) (σ) inp σ'' inp'' :=
  Run.reduce (pr := ⟨"empty", []⟩) h rfl (popN0 _) rfl rfl hg hk

theorem red3 {b g : Nat} {σ σ'' : List Entry} {inp inp'' : List Token} {s1 s2 : Nat} {v1 : Sem} {k n : String}
    (h : act s2 (la inp) = .reduce 3) (hg : G (topState σ) "header_id" = some g)
    (hk : Run b (⟨g, "header_id", .str n⟩ :: σ) inp σ'' inp'') :
    Run (b+1) (⟨s2, "ID", .tok ⟨k, .raw n⟩⟩ :: ⟨s1, "KW_DEF", v1⟩ :: σ) inp σ'' inp'' :=
  Run.reduce (pr := ⟨"header_id", ["KW_DEF", "ID"]⟩) h rfl (popN2 _ _ _) rfl rfl hg hk

theorem red4 {b g : Nat} {σ σ'' : List Entry} {inp inp'' : List Token} {s1 s2 s3 : Nat} {v1 v2 : Sem} {k n : String}
    (h : act s3 (la inp) = .reduce 4) (hg : G (topState σ) "opt_header_salt" = some g)
    (hk : Run b (⟨g, "opt_header_salt", .optStr (some n)⟩ :: σ) inp σ'' inp'') :
    Run (b+1) (⟨s3, "STRING_LITERAL", .tok ⟨k, .str n⟩⟩ :: ⟨s2, "COLON", v2⟩ :: ⟨s1, "KW_SALT", v1⟩ :: σ) inp σ'' inp'' :=
  Run.reduce (pr := ⟨"opt_header_salt", ["KW_SALT", "COLON", "STRING_LITERAL"]⟩) h rfl (popN3 _ _ _ _) rfl rfl hg hk

theorem red5 {b g : Nat} {σ σ'' : List Entry} {inp inp'' : List Token} {s1 : Nat} {v1 : Sem}
    (h : act s1 (la inp) = .reduce 5) (hg : G (topState σ) "opt_header_salt" = some g)
    (hk : Run b (⟨g, "opt_header_salt", .optStr none⟩ :: σ) inp σ'' inp'') :
    Run (b+1) (⟨s1, "empty", v1⟩ :: σ) inp σ'' inp'' :=
  Run.reduce (pr := ⟨"opt_header_salt", ["empty"]⟩) h rfl (popN1 _ _) rfl rfl hg hk

theorem red6 {b g : Nat} {σ σ'' : List Entry} {inp inp'' : List Token} {s1 s2 s3 : Nat} {v1 v2 : Sem} {l : List String}
    (h : act s3 (la inp) = .reduce 6) (hg : G (topState σ) "opt_splitter" = some g)
    (hk : Run b (⟨g, "opt_splitter", .optFields (some l)⟩ :: σ) inp σ'' inp'') :
    Run (b+1) (⟨s3, "fields", .fields l⟩ :: ⟨s2, "COLON", v2⟩ :: ⟨s1, "KW_SPLITTERS", v1⟩ :: σ) inp σ'' inp'' :=
  Run.reduce (pr := ⟨"opt_splitter", ["KW_SPLITTERS", "COLON", "fields"]⟩) h rfl (popN3 _ _ _ _) rfl rfl hg hk

theorem red7 {b g : Nat} {σ σ'' : List Entry} {inp inp'' : List Token} {s1 : Nat} {v1 : Sem}
    (h : act s1 (la inp) = .reduce 7) (hg : G (topState σ) "opt_splitter" = some g)
    (hk : Run b (⟨g, "opt_splitter", .optFields none⟩ :: σ) inp σ'' inp'') :
    Run (b+1) (⟨s1, "empty", v1⟩ :: σ) inp σ'' inp'' :=
  Run.reduce (pr := ⟨"opt_splitter", ["empty"]⟩) h rfl (popN1 _ _) rfl rfl hg hk

theorem red8 {b g : Nat} {σ σ'' : List Entry} {inp inp'' : List Token} {s1 : Nat} {k n : String}
    (h : act s1 (la inp) = .reduce 8) (hg : G (topState σ) "fields" = some g)
    (hk : Run b (⟨g, "fields", .fields [n]⟩ :: σ) inp σ'' inp'') :
    Run (b+1) (⟨s1, "ID", .tok ⟨k, .raw n⟩⟩ :: σ) inp σ'' inp'' :=
  Run.reduce (pr := ⟨"fields", ["ID"]⟩) h rfl (popN1 _ _) rfl rfl hg hk

theorem red9 {b g : Nat} {σ σ'' : List Entry} {inp inp'' : List Token} {s1 s2 s3 : Nat} {v2 : Sem} {k n : String} {l : List String}
    (h : act s3 (la inp) = .reduce 9) (hg : G (topState σ) "fields" = some g)
    (hk : Run b (⟨g, "fields", .fields (n :: l)⟩ :: σ) inp σ'' inp'') :
    Run (b+1) (⟨s3, "fields", .fields l⟩ :: ⟨s2, "COMMA", v2⟩ :: ⟨s1, "ID", .tok ⟨k, .raw n⟩⟩ :: σ) inp σ'' inp'' :=
  Run.reduce (pr := ⟨"fields", ["ID", "COMMA", "fields"]⟩) h rfl (popN3 _ _ _ _) rfl rfl hg hk

theorem red10 {b g : Nat} {σ σ'' : List Entry} {inp inp'' : List Token} {s1 : Nat} {gs : List Group}
    (h : act s1 (la inp) = .reduce 10) (hg : G (topState σ) "conditional" = some g)
    (hk : Run b (⟨g, "conditional", .cond (.ret gs)⟩ :: σ) inp σ'' inp'') :
    Run (b+1) (⟨s1, "return_expr", .groups gs⟩ :: σ) inp σ'' inp'' :=
  Run.reduce (pr := ⟨"conditional", ["return_expr"]⟩) h rfl (popN1 _ _) rfl rfl hg hk

theorem red11 {b g : Nat} {σ σ'' : List Entry} {inp inp'' : List Token} {s1 s2 s3 s4 s5 s6 : Nat} {v1 v3 v5 : Sem} {p : Pred} {c : Cond} {r : Sub}
    (h : act s6 (la inp) = .reduce 11) (hg : G (topState σ) "conditional" = some g)
    (hk : Run b (⟨g, "conditional", .cond (.ifte p c r)⟩ :: σ) inp σ'' inp'') :
    Run (b+1) (⟨s6, "subconditional", .sub r⟩ :: ⟨s5, "RBRACE", v5⟩ :: ⟨s4, "conditional", .cond c⟩ :: ⟨s3, "LBRACE", v3⟩ :: ⟨s2, "predicate", .pred p⟩ :: ⟨s1, "KW_IF", v1⟩ :: σ) inp σ'' inp'' :=
  Run.reduce (pr := ⟨"conditional", ["KW_IF", "predicate", "LBRACE", "conditional", "RBRACE", "subconditional"]⟩) h rfl (popN6 _ _ _ _ _ _ _) rfl rfl hg hk

theorem red12 {b g : Nat} {σ σ'' : List Entry} {inp inp'' : List Token} {s1 : Nat} {v1 : Sem}
    (h : act s1 (la inp) = .reduce 12) (hg : G (topState σ) "subconditional" = some g)
    (hk : Run b (⟨g, "subconditional", .sub .none⟩ :: σ) inp σ'' inp'') :
    Run (b+1) (⟨s1, "empty", v1⟩ :: σ) inp σ'' inp'' :=
  Run.reduce (pr := ⟨"subconditional", ["empty"]⟩) h rfl (popN1 _ _) rfl rfl hg hk

theorem red13 {b g : Nat} {σ σ'' : List Entry} {inp inp'' : List Token} {s1 s2 s3 s4 : Nat} {v1 v2 v4 : Sem} {c : Cond}
    (h : act s4 (la inp) = .reduce 13) (hg : G (topState σ) "subconditional" = some g)
    (hk : Run b (⟨g, "subconditional", .sub (.else_ c)⟩ :: σ) inp σ'' inp'') :
    Run (b+1) (⟨s4, "RBRACE", v4⟩ :: ⟨s3, "conditional", .cond c⟩ :: ⟨s2, "LBRACE", v2⟩ :: ⟨s1, "KW_ELSE", v1⟩ :: σ) inp σ'' inp'' :=
  Run.reduce (pr := ⟨"subconditional", ["KW_ELSE", "LBRACE", "conditional", "RBRACE"]⟩) h rfl (popN4 _ _ _ _ _) rfl rfl hg hk

theorem red14 {b g : Nat} {σ σ'' : List Entry} {inp inp'' : List Token} {s1 s2 s3 s4 s5 s6 : Nat} {v1 v3 v5 : Sem} {p : Pred} {c : Cond} {r : Sub}
    (h : act s6 (la inp) = .reduce 14) (hg : G (topState σ) "subconditional" = some g)
    (hk : Run b (⟨g, "subconditional", .sub (.elif p c r)⟩ :: σ) inp σ'' inp'') :
    Run (b+1) (⟨s6, "subconditional", .sub r⟩ :: ⟨s5, "RBRACE", v5⟩ :: ⟨s4, "conditional", .cond c⟩ :: ⟨s3, "LBRACE", v3⟩ :: ⟨s2, "predicate", .pred p⟩ :: ⟨s1, "KW_ELIF", v1⟩ :: σ) inp σ'' inp'' :=
  Run.reduce (pr := ⟨"subconditional", ["KW_ELIF", "predicate", "LBRACE", "conditional", "RBRACE", "subconditional"]⟩) h rfl (popN6 _ _ _ _ _ _ _) rfl rfl hg hk

theorem red15 {b g : Nat} {σ σ'' : List Entry} {inp inp'' : List Token} {s1 s2 : Nat} {v1 : Sem} {a : Pred}
    (h : act s2 (la inp) = .reduce 15) (hg : G (topState σ) "predicate" = some g)
    (hk : Run b (⟨g, "predicate", .pred (.not a)⟩ :: σ) inp σ'' inp'') :
    Run (b+1) (⟨s2, "predicate", .pred a⟩ :: ⟨s1, "KW_NOT", v1⟩ :: σ) inp σ'' inp'' :=
  Run.reduce (pr := ⟨"predicate", ["KW_NOT", "predicate"]⟩) h rfl (popN2 _ _ _) rfl rfl hg hk

theorem red16 {b g : Nat} {σ σ'' : List Entry} {inp inp'' : List Token} {s1 s2 s3 : Nat} {v2 : Sem} {a c : Pred}
    (h : act s3 (la inp) = .reduce 16) (hg : G (topState σ) "predicate" = some g)
    (hk : Run b (⟨g, "predicate", .pred (.or a c)⟩ :: σ) inp σ'' inp'') :
    Run (b+1) (⟨s3, "predicate", .pred c⟩ :: ⟨s2, "KW_OR", v2⟩ :: ⟨s1, "predicate", .pred a⟩ :: σ) inp σ'' inp'' :=
  Run.reduce (pr := ⟨"predicate", ["predicate", "KW_OR", "predicate"]⟩) h rfl (popN3 _ _ _ _) rfl rfl hg hk

theorem red17 {b g : Nat} {σ σ'' : List Entry} {inp inp'' : List Token} {s1 s2 s3 : Nat} {v2 : Sem} {a c : Pred}
    (h : act s3 (la inp) = .reduce 17) (hg : G (topState σ) "predicate" = some g)
    (hk : Run b (⟨g, "predicate", .pred (.and a c)⟩ :: σ) inp σ'' inp'') :
    Run (b+1) (⟨s3, "predicate", .pred c⟩ :: ⟨s2, "KW_AND", v2⟩ :: ⟨s1, "predicate", .pred a⟩ :: σ) inp σ'' inp'' :=
  Run.reduce (pr := ⟨"predicate", ["predicate", "KW_AND", "predicate"]⟩) h rfl (popN3 _ _ _ _) rfl rfl hg hk

theorem red18 {b g : Nat} {σ σ'' : List Entry} {inp inp'' : List Token} {s1 s2 s3 : Nat} {v1 v3 : Sem} {a : Pred}
    (h : act s3 (la inp) = .reduce 18) (hg : G (topState σ) "predicate" = some g)
    (hk : Run b (⟨g, "predicate", .pred a⟩ :: σ) inp σ'' inp'') :
    Run (b+1) (⟨s3, "RPAREN", v3⟩ :: ⟨s2, "predicate", .pred a⟩ :: ⟨s1, "LPAREN", v1⟩ :: σ) inp σ'' inp'' :=
  Run.reduce (pr := ⟨"predicate", ["LPAREN", "predicate", "RPAREN"]⟩) h rfl (popN3 _ _ _ _) rfl rfl hg hk

theorem red19 {b g : Nat} {σ σ'' : List Entry} {inp inp'' : List Token} {s1 s2 s3 : Nat} {x y : Term} {o : CmpOp}
    (h : act s3 (la inp) = .reduce 19) (hg : G (topState σ) "predicate" = some g)
    (hk : Run b (⟨g, "predicate", .pred (.cmp x o y)⟩ :: σ) inp σ'' inp'') :
    Run (b+1) (⟨s3, "term", .term y⟩ :: ⟨s2, "logical_op", .op o⟩ :: ⟨s1, "term", .term x⟩ :: σ) inp σ'' inp'' :=
  Run.reduce (pr := ⟨"predicate", ["term", "logical_op", "term"]⟩) h rfl (popN3 _ _ _ _) rfl (by show some (Sem.pred (.cmp (validateTerm T.smartUnionTerm x) o (validateTerm T.smartUnionTerm y))) = _; rw [validateTerm_smart, validateTerm_smart]) hg hk

theorem red20 {b g : Nat} {σ σ'' : List Entry} {inp inp'' : List Token} {s1 : Nat} {l : List Term}
    (h : act s1 (la inp) = .reduce 20) (hg : G (topState σ) "term" = some g)
    (hk : Run b (⟨g, "term", .term (.tuple l)⟩ :: σ) inp σ'' inp'') :
    Run (b+1) (⟨s1, "tuple", .terms l⟩ :: σ) inp σ'' inp'' :=
  Run.reduce (pr := ⟨"term", ["tuple"]⟩) h rfl (popN1 _ _) rfl rfl hg hk

theorem red21 {b g : Nat} {σ σ'' : List Entry} {inp inp'' : List Token} {s1 : Nat} {k n : String}
    (h : act s1 (la inp) = .reduce 21) (hg : G (topState σ) "term" = some g)
    (hk : Run b (⟨g, "term", .term (.ident n)⟩ :: σ) inp σ'' inp'') :
    Run (b+1) (⟨s1, "ID", .tok ⟨k, .raw n⟩⟩ :: σ) inp σ'' inp'' :=
  Run.reduce (pr := ⟨"term", ["ID"]⟩) h rfl (popN1 _ _) rfl rfl hg hk

theorem red22 {b g : Nat} {σ σ'' : List Entry} {inp inp'' : List Token} {s1 : Nat} {x : Term}
    (h : act s1 (la inp) = .reduce 22) (hg : G (topState σ) "term" = some g)
    (hk : Run b (⟨g, "term", .term x⟩ :: σ) inp σ'' inp'') :
    Run (b+1) (⟨s1, "literal", .term x⟩ :: σ) inp σ'' inp'' :=
  Run.reduce (pr := ⟨"term", ["literal"]⟩) h rfl (popN1 _ _) rfl rfl hg hk

theorem red23 {b g : Nat} {σ σ'' : List Entry} {inp inp'' : List Token} {s1 s2 s3 : Nat} {v1 : Sem} {x : Term} {l : List Term}
    (h : act s3 (la inp) = .reduce 23) (hg : G (topState σ) "tuple" = some g)
    (hk : Run b (⟨g, "tuple", .terms (x :: l)⟩ :: σ) inp σ'' inp'') :
    Run (b+1) (⟨s3, "op_term", .terms l⟩ :: ⟨s2, "term", .term x⟩ :: ⟨s1, "LPAREN", v1⟩ :: σ) inp σ'' inp'' :=
  Run.reduce (pr := ⟨"tuple", ["LPAREN", "term", "op_term"]⟩) h rfl (popN3 _ _ _ _) rfl rfl hg hk

theorem red24 {b g : Nat} {σ σ'' : List Entry} {inp inp'' : List Token} {s1 : Nat} {v1 : Sem}
    (h : act s1 (la inp) = .reduce 24) (hg : G (topState σ) "op_term" = some g)
    (hk : Run b (⟨g, "op_term", .terms []⟩ :: σ) inp σ'' inp'') :
    Run (b+1) (⟨s1, "RPAREN", v1⟩ :: σ) inp σ'' inp'' :=
  Run.reduce (pr := ⟨"op_term", ["RPAREN"]⟩) h rfl (popN1 _ _) rfl rfl hg hk

theorem red25 {b g : Nat} {σ σ'' : List Entry} {inp inp'' : List Token} {s1 s2 s3 : Nat} {v1 : Sem} {x : Term} {l : List Term}
    (h : act s3 (la inp) = .reduce 25) (hg : G (topState σ) "op_term" = some g)
    (hk : Run b (⟨g, "op_term", .terms (x :: l)⟩ :: σ) inp σ'' inp'') :
    Run (b+1) (⟨s3, "op_term", .terms l⟩ :: ⟨s2, "term", .term x⟩ :: ⟨s1, "COMMA", v1⟩ :: σ) inp σ'' inp'' :=
  Run.reduce (pr := ⟨"op_term", ["COMMA", "term", "op_term"]⟩) h rfl (popN3 _ _ _ _) rfl rfl hg hk

theorem red26 {b g : Nat} {σ σ'' : List Entry} {inp inp'' : List Token} {s1 : Nat} {v1 : Sem}
    (h : act s1 (la inp) = .reduce 26) (hg : G (topState σ) "logical_op" = some g)
    (hk : Run b (⟨g, "logical_op", .op .notIn⟩ :: σ) inp σ'' inp'') :
    Run (b+1) (⟨s1, "KW_NOT_IN", v1⟩ :: σ) inp σ'' inp'' :=
  Run.reduce (pr := ⟨"logical_op", ["KW_NOT_IN"]⟩) h rfl (popN1 _ _) rfl rfl hg hk

theorem red27 {b g : Nat} {σ σ'' : List Entry} {inp inp'' : List Token} {s1 : Nat} {v1 : Sem}
    (h : act s1 (la inp) = .reduce 27) (hg : G (topState σ) "logical_op" = some g)
    (hk : Run b (⟨g, "logical_op", .op .eq⟩ :: σ) inp σ'' inp'') :
    Run (b+1) (⟨s1, "KW_EQ", v1⟩ :: σ) inp σ'' inp'' :=
  Run.reduce (pr := ⟨"logical_op", ["KW_EQ"]⟩) h rfl (popN1 _ _) rfl rfl hg hk

theorem red28 {b g : Nat} {σ σ'' : List Entry} {inp inp'' : List Token} {s1 : Nat} {v1 : Sem}
    (h : act s1 (la inp) = .reduce 28) (hg : G (topState σ) "logical_op" = some g)
    (hk : Run b (⟨g, "logical_op", .op .ne⟩ :: σ) inp σ'' inp'') :
    Run (b+1) (⟨s1, "KW_NE", v1⟩ :: σ) inp σ'' inp'' :=
  Run.reduce (pr := ⟨"logical_op", ["KW_NE"]⟩) h rfl (popN1 _ _) rfl rfl hg hk

theorem red29 {b g : Nat} {σ σ'' : List Entry} {inp inp'' : List Token} {s1 : Nat} {v1 : Sem}
    (h : act s1 (la inp) = .reduce 29) (hg : G (topState σ) "logical_op" = some g)
    (hk : Run b (⟨g, "logical_op", .op .isIn⟩ :: σ) inp σ'' inp'') :
    Run (b+1) (⟨s1, "KW_IN", v1⟩ :: σ) inp σ'' inp'' :=
  Run.reduce (pr := ⟨"logical_op", ["KW_IN"]⟩) h rfl (popN1 _ _) rfl rfl hg hk

theorem red30 {b g : Nat} {σ σ'' : List Entry} {inp inp'' : List Token} {s1 : Nat} {v1 : Sem}
    (h : act s1 (la inp) = .reduce 30) (hg : G (topState σ) "logical_op" = some g)
    (hk : Run b (⟨g, "logical_op", .op .le⟩ :: σ) inp σ'' inp'') :
    Run (b+1) (⟨s1, "KW_LE", v1⟩ :: σ) inp σ'' inp'' :=
  Run.reduce (pr := ⟨"logical_op", ["KW_LE"]⟩) h rfl (popN1 _ _) rfl rfl hg hk

theorem red31 {b g : Nat} {σ σ'' : List Entry} {inp inp'' : List Token} {s1 : Nat} {v1 : Sem}
    (h : act s1 (la inp) = .reduce 31) (hg : G (topState σ) "logical_op" = some g)
    (hk : Run b (⟨g, "logical_op", .op .ge⟩ :: σ) inp σ'' inp'') :
    Run (b+1) (⟨s1, "KW_GE", v1⟩ :: σ) inp σ'' inp'' :=
  Run.reduce (pr := ⟨"logical_op", ["KW_GE"]⟩) h rfl (popN1 _ _) rfl rfl hg hk

theorem red32 {b g : Nat} {σ σ'' : List Entry} {inp inp'' : List Token} {s1 : Nat} {v1 : Sem}
    (h : act s1 (la inp) = .reduce 32) (hg : G (topState σ) "logical_op" = some g)
    (hk : Run b (⟨g, "logical_op", .op .gt⟩ :: σ) inp σ'' inp'') :
    Run (b+1) (⟨s1, "KW_GT", v1⟩ :: σ) inp σ'' inp'' :=
  Run.reduce (pr := ⟨"logical_op", ["KW_GT"]⟩) h rfl (popN1 _ _) rfl rfl hg hk

theorem red33 {b g : Nat} {σ σ'' : List Entry} {inp inp'' : List Token} {s1 : Nat} {v1 : Sem}
    (h : act s1 (la inp) = .reduce 33) (hg : G (topState σ) "logical_op" = some g)
    (hk : Run b (⟨g, "logical_op", .op .lt⟩ :: σ) inp σ'' inp'') :
    Run (b+1) (⟨s1, "KW_LT", v1⟩ :: σ) inp σ'' inp'' :=
  Run.reduce (pr := ⟨"logical_op", ["KW_LT"]⟩) h rfl (popN1 _ _) rfl rfl hg hk

theorem red34 {b g : Nat} {σ σ'' : List Entry} {inp inp'' : List Token} {s1 s2 : Nat} {v1 : Sem} {gs : List Group}
    (h : act s2 (la inp) = .reduce 34) (hg : G (topState σ) "return_expr" = some g)
    (hk : Run b (⟨g, "return_expr", .groups gs⟩ :: σ) inp σ'' inp'') :
    Run (b+1) (⟨s2, "return_statement", .groups gs⟩ :: ⟨s1, "KW_RETURN", v1⟩ :: σ) inp σ'' inp'' :=
  Run.reduce (pr := ⟨"return_expr", ["KW_RETURN", "return_statement"]⟩) h rfl (popN2 _ _ _) rfl rfl hg hk

theorem red35 {b g : Nat} {σ σ'' : List Entry} {inp inp'' : List Token} {s1 s2 s3 s4 s5 : Nat} {v2 v4 : Sem} {x : Term} {w : Num} {gs : List Group}
    (h : act s5 (la inp) = .reduce 35) (hg : G (topState σ) "return_statement" = some g)
    (hk : Run b (⟨g, "return_statement", .groups (⟨x, w⟩ :: gs)⟩ :: σ) inp σ'' inp'') :
    Run (b+1) (⟨s5, "return_statement", .groups gs⟩ :: ⟨s4, "COMMA", v4⟩ :: ⟨s3, "weight", .num w⟩ :: ⟨s2, "KW_WEIGHTED", v2⟩ :: ⟨s1, "literal", .term x⟩ :: σ) inp σ'' inp'' :=
  Run.reduce (pr := ⟨"return_statement", ["literal", "KW_WEIGHTED", "weight", "COMMA", "return_statement"]⟩) h rfl (popN5 _ _ _ _ _ _) rfl rfl hg hk

theorem red36 {b g : Nat} {σ σ'' : List Entry} {inp inp'' : List Token} {s1 s2 s3 : Nat} {v2 : Sem} {x : Term} {w : Num}
    (h : act s3 (la inp) = .reduce 36) (hg : G (topState σ) "return_statement" = some g)
    (hk : Run b (⟨g, "return_statement", .groups [⟨x, w⟩]⟩ :: σ) inp σ'' inp'') :
    Run (b+1) (⟨s3, "weight", .num w⟩ :: ⟨s2, "KW_WEIGHTED", v2⟩ :: ⟨s1, "literal", .term x⟩ :: σ) inp σ'' inp'' :=
  Run.reduce (pr := ⟨"return_statement", ["literal", "KW_WEIGHTED", "weight"]⟩) h rfl (popN3 _ _ _ _) rfl rfl hg hk

theorem red37 {b g : Nat} {σ σ'' : List Entry} {inp inp'' : List Token} {s1 : Nat} {k : String} {d : Dbl}
    (h : act s1 (la inp) = .reduce 37) (hg : G (topState σ) "weight" = some g)
    (hk : Run b (⟨g, "weight", .num (.f d)⟩ :: σ) inp σ'' inp'') :
    Run (b+1) (⟨s1, "NON_NEG_FLOAT", .tok ⟨k, .float d⟩⟩ :: σ) inp σ'' inp'' :=
  Run.reduce (pr := ⟨"weight", ["NON_NEG_FLOAT"]⟩) h rfl (popN1 _ _) rfl rfl hg hk

theorem red39 {b g : Nat} {σ σ'' : List Entry} {inp inp'' : List Token} {s1 : Nat} {k n : String}
    (h : act s1 (la inp) = .reduce 39) (hg : G (topState σ) "literal" = some g)
    (hk : Run b (⟨g, "literal", .term (.str n)⟩ :: σ) inp σ'' inp'') :
    Run (b+1) (⟨s1, "STRING_LITERAL", .tok ⟨k, .str n⟩⟩ :: σ) inp σ'' inp'' :=
  Run.reduce (pr := ⟨"literal", ["STRING_LITERAL"]⟩) h rfl (popN1 _ _) rfl rfl hg hk

theorem red40 {b g : Nat} {σ σ'' : List Entry} {inp inp'' : List Token} {s1 : Nat} {k : String} {d : Dbl}
    (h : act s1 (la inp) = .reduce 40) (hg : G (topState σ) "literal" = some g)
    (hk : Run b (⟨g, "literal", .term (.float d false)⟩ :: σ) inp σ'' inp'') :
    Run (b+1) (⟨s1, "NON_NEG_FLOAT", .tok ⟨k, .float d⟩⟩ :: σ) inp σ'' inp'' :=
  Run.reduce (pr := ⟨"literal", ["NON_NEG_FLOAT"]⟩) h rfl (popN1 _ _) rfl rfl hg hk

theorem red41 {b g : Nat} {σ σ'' : List Entry} {inp inp'' : List Token} {s1 : Nat} {k : String} {m : Nat}
    (h : act s1 (la inp) = .reduce 41) (hg : G (topState σ) "literal" = some g)
    (hk : Run b (⟨g, "literal", .term (.int m)⟩ :: σ) inp σ'' inp'') :
    Run (b+1) (⟨s1, "NON_NEG_INTEGER", .tok ⟨k, .int m⟩⟩ :: σ) inp σ'' inp'' :=
  Run.reduce (pr := ⟨"literal", ["NON_NEG_INTEGER"]⟩) h rfl (popN1 _ _) rfl rfl hg hk

theorem red42 {b g : Nat} {σ σ'' : List Entry} {inp inp'' : List Token} {s1 s2 : Nat} {v1 : Sem} {k : String} {d : Dbl}
    (h : act s2 (la inp) = .reduce 42) (hg : G (topState σ) "literal" = some g)
    (hk : Run b (⟨g, "literal", .term (.float (Dbl.neg d) (negZeroFlag d))⟩ :: σ) inp σ'' inp'') :
    Run (b+1) (⟨s2, "NON_NEG_FLOAT", .tok ⟨k, .float d⟩⟩ :: ⟨s1, "MINUS", v1⟩ :: σ) inp σ'' inp'' :=
  Run.reduce (pr := ⟨"literal", ["MINUS", "NON_NEG_FLOAT"]⟩) h rfl (popN2 _ _ _) rfl rfl hg hk

theorem red43 {b g : Nat} {σ σ'' : List Entry} {inp inp'' : List Token} {s1 s2 : Nat} {v1 : Sem} {k : String} {m : Nat}
    (h : act s2 (la inp) = .reduce 43) (hg : G (topState σ) "literal" = some g)
    (hk : Run b (⟨g, "literal", .term (.int (-(m : Int)))⟩ :: σ) inp σ'' inp'') :
    Run (b+1) (⟨s2, "NON_NEG_INTEGER", .tok ⟨k, .int m⟩⟩ :: ⟨s1, "MINUS", v1⟩ :: σ) inp σ'' inp'' :=
  Run.reduce (pr := ⟨"literal", ["MINUS", "NON_NEG_INTEGER"]⟩) h rfl (popN2 _ _ _) rfl rfl hg hk

end Pyab.Proofs.LRC
