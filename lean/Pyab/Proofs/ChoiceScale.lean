/-
  Scaling all weights by a power of two changes no rounding and hence no choice.

  `Dbl.scale2 k` is exact multiplication by `2^k` (exponent shift).  In the NORMAL range binary64
  rounding commutes with it: `RSpec v r → RSpec (v·2^k) (r·2^k)` (`RSpec_scale`) — the ulp exponent
  moves by `k`, the quotient `Q` and its parity (ties-to-even) do not.  At the subnormal boundary
  (ulp exponent pinned at `-1074`) this is false; see the counterexample in
  `Properties/C10_scaling.lean`.

  The running sums are compared UP TO VALUE (`Sc k a b`: both finite, non-negative,
  `val b = val a · 2^k`), not syntactically: `Dbl.round` returns `fin 0 0` for every zero and leaves
  un-normalised mantissas alone, so `accumulate (map scale ws)` and `map scale (accumulate ws)` differ
  in representation (never in value) as soon as a running sum is zero.  Every consumer of the sums
  (`Dbl.lt`, `Dbl.le`) sees values only.
-/
import Mathlib.Data.List.Forall2
import Pyab.Proofs.ChoiceFloat

namespace Pyab
namespace Dbl
open Pyab.Proofs (pow2_eq round_zero round_exact)
open Pyab.Choice

/-- exact multiplication by `2^k`: shift the exponent (`inf`/`nan` unchanged) -/
def scale2 (k : Int) : Dbl → Dbl
  | fin m e => fin m (e + k)
  | d => d

theorem val_scale2 (k m e : Int) : val (scale2 k (fin m e)) = val (fin m e) * 2 ^ k := by
  rw [scale2, val_fin, val_fin, two_zpow_add]; ring

/-! ### rounding commutes with scaling in the normal range -/

/-- **rounding commutes with exact scaling by `2^k`** as long as the value is a normal double
    before and after -/
theorem RSpec_scale {v r : ℚ} (k : Int) (h : RSpec v r)
    (hn : (2 : ℚ) ^ (-1022 : Int) ≤ v) (hn' : (2 : ℚ) ^ (-1022 : Int) ≤ v * 2 ^ k) :
    RSpec (v * 2 ^ k) (r * 2 ^ k) := by
  obtain ⟨j, Q, hr, hj, hu, hl, ha, hb, ht, hs⟩ := h
  have hK := two_zpow_pos k
  have hl' : (2 : ℚ) ^ (j + 52) ≤ v := by
    rcases hl with h | h
    · subst h; exact hn
    · exact h
  have hu' : v * 2 ^ k < 2 ^ (j + k + 53) := by
    rw [show j + k + 53 = (j + 53) + k by ring, two_zpow_add]
    exact mul_lt_mul_of_pos_right hu hK
  have hjk : -1074 ≤ j + k := by
    have := lt_of_le_of_lt hn' hu'
    rw [two_zpow_lt_iff] at this; omega
  have hP : (2 : ℚ) ^ (j + k - 1) = 2 ^ (j - 1) * 2 ^ k := by
    rw [← two_zpow_add]; congr 1; ring
  refine ⟨j + k, Q, ?_, hjk, hu', Or.inr ?_, ?_, ?_, ?_, ?_⟩
  · rw [hr, two_zpow_add]; ring
  · rw [show j + k + 52 = (j + 52) + k by ring, two_zpow_add]
    exact mul_le_mul_of_nonneg_right hl' hK.le
  · rw [hP, ← mul_assoc]; exact mul_le_mul_of_nonneg_right ha hK.le
  · rw [hP, ← mul_assoc]; exact mul_le_mul_of_nonneg_right hb hK.le
  · intro h; rw [hP, ← mul_assoc] at h; exact ht (mul_right_cancel₀ (ne_of_gt hK) h)
  · intro h; rw [hP, ← mul_assoc] at h; exact hs (mul_right_cancel₀ (ne_of_gt hK) h)

/-- normal powers of two are doubles -/
theorem RSpec_pow2 (j : Int) (hj : -1022 ≤ j) : RSpec ((2 : ℚ) ^ j) ((2 : ℚ) ^ j) := by
  have hP := two_zpow_pos (j - 52 - 1)
  have e0 : (2 : ℚ) ^ j = 2 ^ 53 * 2 ^ (j - 52 - 1) := by
    have h53 : (2 : ℚ) ^ (53 : Int) = 2 ^ 53 := by norm_num
    rw [← h53, ← two_zpow_add]; congr 1; omega
  have e1 : (2 : ℚ) ^ (j - 52) = 2 * 2 ^ (j - 52 - 1) := (zpow_split (j - 52)).1
  refine ⟨j - 52, 2 ^ 52, ?_, by omega, ?_, Or.inr ?_, ?_, ?_, ?_, ?_⟩
  · rw [e1, e0]; push_cast; ring
  · rw [show j - 52 + 53 = j + 1 by ring]; exact two_zpow_lt_iff.2 (by omega)
  · rw [show j - 52 + 52 = j by ring]
  · rw [e0]; push_cast; nlinarith
  · rw [e0]; push_cast; nlinarith
  · intro h; exfalso; rw [e0] at h; push_cast at h; nlinarith
  · intro h; exfalso; rw [e0] at h; push_cast at h; nlinarith

/-- rounding does not cross a normal power of two downwards -/
theorem RSpec_ge_pow2 {v r : ℚ} (j : Int) (hj : -1022 ≤ j) (h : RSpec v r)
    (hv : (2 : ℚ) ^ j ≤ v) : (2 : ℚ) ^ j ≤ r :=
  RSpec_mono hv (RSpec_pow2 j hj) h

theorem RSpec_zero_eq {r : ℚ} (h : RSpec 0 r) : r = 0 := RSpec_unique h RSpec_zero

/-- zero, or at least `2^j` both before and after scaling by `2^k` -/
def NormV (j k : Int) (v : ℚ) : Prop :=
  v = 0 ∨ ((2 : ℚ) ^ j ≤ v ∧ (2 : ℚ) ^ j ≤ v * 2 ^ k)

theorem NormV.mono {j j' k : Int} {v : ℚ} (hjj : j' ≤ j) (h : NormV j k v) : NormV j' k v := by
  rcases h with h | ⟨h1, h2⟩
  · exact Or.inl h
  · exact Or.inr ⟨le_trans (two_zpow_le hjj) h1, le_trans (two_zpow_le hjj) h2⟩

/-- `RSpec_scale` with zero allowed, and the rounded value stays zero-or-normal -/
theorem RSpec_scale' {v r : ℚ} {j : Int} (k : Int) (hj : -1022 ≤ j) (h : RSpec v r)
    (hv : NormV j k v) : RSpec (v * 2 ^ k) (r * 2 ^ k) ∧ NormV j k r := by
  rcases hv with hv | ⟨h1, h2⟩
  · subst hv
    have := RSpec_zero_eq h
    subst this
    simp only [zero_mul]
    exact ⟨RSpec_zero, Or.inl rfl⟩
  · have hs := RSpec_scale k h (le_trans (two_zpow_le hj) h1) (le_trans (two_zpow_le hj) h2)
    exact ⟨hs, Or.inr ⟨RSpec_ge_pow2 j hj h h1, RSpec_ge_pow2 j hj hs h2⟩⟩

/-! ### the relation "same value up to the factor `2^k`" -/

/-- both finite and non-negative, and `b = a · 2^k` as exact values -/
def Sc (k : Int) (a b : Dbl) : Prop :=
  ∃ ma ea mb eb, a = fin ma ea ∧ b = fin mb eb ∧ 0 ≤ ma ∧ 0 ≤ mb ∧ val b = val a * 2 ^ k

theorem Sc.of_scale2 (k m e : Int) (hm : 0 ≤ m) : Sc k (fin m e) (scale2 k (fin m e)) :=
  ⟨m, e, m, e + k, rfl, rfl, hm, hm, val_scale2 k m e⟩

theorem Sc.zero (k : Int) : Sc k zero zero :=
  ⟨0, 0, 0, 0, rfl, rfl, le_refl _, le_refl _, by
    show val (fin 0 0) = val (fin 0 0) * 2 ^ k
    rw [val_fin]; simp⟩

theorem val_nonneg_fin (m e : Int) (hm : 0 ≤ m) : 0 ≤ val (fin m e) := by
  rw [val_fin]; exact mul_nonneg (by exact_mod_cast hm) (two_zpow_pos e).le

/-- the shape of `round_spec` / `add_spec` / `mul_spec`: `A` is the rounding of `v` -/
def Rounds (v : ℚ) (A : Dbl) : Prop :=
  ∃ r : ℚ, RSpec v r ∧
    ((r < 2 ^ (1024 : Int) ∧ ∃ m' e', A = fin m' e' ∧ 0 ≤ m' ∧ val (fin m' e') = r) ∨
     ((2 : ℚ) ^ (1024 : Int) ≤ r ∧ A = pinf))

/-- two roundings, of `v` and of `v·2^k`, in the normal range and below overflow: the results are
    related by the same factor -/
theorem sc_of_rounds {k j : Int} (hj : -1022 ≤ j) {v : ℚ} {A B : Dbl}
    (hA : Rounds v A) (hB : Rounds (v * 2 ^ k) B) (hv : NormV j k v)
    (hAfin : A.isFinite = true) (hb : val A * 2 ^ k < 2 ^ (1024 : Int)) :
    Sc k A B ∧ NormV j k (val A) := by
  obtain ⟨r, hr, hcase⟩ := hA
  obtain ⟨r', hr', hcase'⟩ := hB
  obtain ⟨hs, hnr⟩ := RSpec_scale' k hj hr hv
  have hrr : r' = r * 2 ^ k := RSpec_unique hr' hs
  rcases hcase with ⟨_, m, e, hAeq, hm, hval⟩ | ⟨_, hinf⟩
  · subst hAeq
    rw [hval] at hb ⊢
    rcases hcase' with ⟨_, m', e', hBeq, hm', hval'⟩ | ⟨hge, _⟩
    · subst hBeq
      exact ⟨⟨m, e, m', e', rfl, rfl, hm, hm', by rw [hval', hval, hrr]⟩, hnr⟩
    · exfalso; rw [hrr] at hge; linarith
  · rw [hinf] at hAfin; cases hAfin

theorem add_rounds (m1 e1 m2 e2 : Int) (h1 : 0 ≤ m1) (h2 : 0 ≤ m2) :
    Rounds (val (fin m1 e1) + val (fin m2 e2)) (add (fin m1 e1) (fin m2 e2)) :=
  add_spec m1 e1 m2 e2 h1 h2

theorem mul_rounds (m1 e1 m2 e2 : Int) (h1 : 0 ≤ m1) (h2 : 0 ≤ m2) :
    Rounds (val (fin m1 e1) * val (fin m2 e2)) (mul (fin m1 e1) (fin m2 e2)) :=
  mul_spec m1 e1 m2 e2 h1 h2

/-- **`add (scale a) (scale b) = scale (add a b)`**, as values -/
theorem add_sc {k j : Int} (hj : -1022 ≤ j) {a a' b b' : Dbl} (ha : Sc k a a') (hb : Sc k b b')
    (hv : NormV j k (val a + val b)) (hfin : (add a b).isFinite = true)
    (hbd : val (add a b) * 2 ^ k < 2 ^ (1024 : Int)) :
    Sc k (add a b) (add a' b') ∧ NormV j k (val (add a b)) := by
  obtain ⟨ma, ea, ma', ea', rfl, rfl, hma, hma', hva⟩ := ha
  obtain ⟨mb, eb, mb', eb', rfl, rfl, hmb, hmb', hvb⟩ := hb
  have hB := add_rounds ma' ea' mb' eb' hma' hmb'
  rw [hva, hvb, ← add_mul] at hB
  exact sc_of_rounds hj (add_rounds ma ea mb eb hma hmb) hB hv hfin hbd

/-- **`mul u (scale t) = scale (mul u t)`**, as values -/
theorem mul_sc {k j : Int} (hj : -1022 ≤ j) {u t t' : Dbl} (mu eu : Int) (hu : u = fin mu eu)
    (hmu : 0 ≤ mu) (ht : Sc k t t')
    (hv : NormV j k (val u * val t)) (hfin : (mul u t).isFinite = true)
    (hbd : val (mul u t) * 2 ^ k < 2 ^ (1024 : Int)) :
    Sc k (mul u t) (mul u t') ∧ NormV j k (val (mul u t)) := by
  subst hu
  obtain ⟨mt, et, mt', et', rfl, rfl, hmt, hmt', hvt⟩ := ht
  have hB := mul_rounds mu eu mt' et' hmu hmt'
  rw [hvt, ← mul_assoc] at hB
  exact sc_of_rounds hj (mul_rounds mu eu mt et hmu hmt) hB hv hfin hbd

/-- comparisons are invariant under a common scaling -/
theorem lt_sc {k : Int} {x x' c c' : Dbl} (hx : Sc k x x') (hc : Sc k c c') :
    lt x' c' = lt x c := by
  obtain ⟨mx, ex, mx', ex', rfl, rfl, _, _, hvx⟩ := hx
  obtain ⟨mc, ec, mc', ec', rfl, rfl, _, _, hvc⟩ := hc
  rw [Bool.eq_iff_iff, lt_iff_val, lt_iff_val, hvx, hvc,
    mul_lt_mul_iff_of_pos_right (two_zpow_pos k)]

theorem le_zero_sc {k : Int} {t t' : Dbl} (ht : Sc k t t') : le t' zero = le t zero := by
  obtain ⟨mt, et, mt', et', rfl, rfl, _, _, hvt⟩ := ht
  have hz : val (fin 0 0) = 0 := by rw [val_fin]; simp
  have hK := two_zpow_pos k
  rw [Bool.eq_iff_iff, show zero = fin 0 0 from rfl, le_iff_val, le_iff_val, hvt, hz]
  constructor
  · intro h
    by_contra hcon
    have := mul_pos (not_le.1 hcon) hK
    linarith
  · intro h
    exact mul_nonpos_of_nonpos_of_nonneg h hK.le

end Dbl
end Pyab

namespace Pyab
namespace Dbl
open Pyab.Proofs
open Pyab.Choice

theorem Sc.nonneg_left {k : Int} {a a' : Dbl} (h : Sc k a a') : 0 ≤ val a := by
  obtain ⟨ma, ea, _, _, rfl, _, hma, _, _⟩ := h
  exact val_nonneg_fin ma ea hma

theorem normV_add {j k : Int} {x y : ℚ} (hx0 : 0 ≤ x) (hx : NormV j k x)
    (hy : NormV j k y) : NormV j k (x + y) := by
  have hK := two_zpow_pos k
  rcases hy with hy | ⟨h1, h2⟩
  · rw [hy, add_zero]; exact hx
  · refine Or.inr ⟨by linarith, ?_⟩
    rw [add_mul]
    have := mul_nonneg hx0 hK.le
    linarith

/-- **`accumulate (map scale ws) = map scale (accumulate ws)`**, as values: the running sums of
    the scaled weights are the scaled running sums, as long as every nonzero weight is normal
    before and after and no scaled sum overflows -/
theorem accD_sc {k j : Int} (hj : -1022 ≤ j) {ds ds' : List Dbl} :
    List.Forall₂ (Sc k) ds ds' → (∀ d ∈ ds, NormV j k (val d)) →
    ∀ {a a' : Dbl}, Sc k a a' → NormV j k (val a) →
    (∀ c ∈ accD a ds, c.isFinite = true ∧ val c * 2 ^ k < 2 ^ (1024 : Int)) →
    List.Forall₂ (fun c c' => Sc k c c' ∧ NormV j k (val c)) (accD a ds) (accD a' ds') := by
  intro hF
  induction hF with
  | nil => intro _ a a' ha hna _; exact .cons ⟨ha, hna⟩ .nil
  | @cons w w' ws ws' hw _ ih =>
    intro hN a a' ha hna hbd
    obtain ⟨tl, htl⟩ := accD_cons (add a w) ws
    have hbd' : ∀ c ∈ accD (add a w) ws,
        c.isFinite = true ∧ val c * 2 ^ k < 2 ^ (1024 : Int) :=
      fun c hc => hbd c (by simp only [accD, List.mem_cons]; exact Or.inr hc)
    obtain ⟨hfin, hb⟩ := hbd' (add a w) (by rw [htl]; simp)
    have hsum : NormV j k (val a + val w) := normV_add ha.nonneg_left hna (hN w (by simp))
    obtain ⟨hsc, hn⟩ := add_sc hj ha hw hsum hfin hb
    exact .cons ⟨ha, hna⟩ (ih (fun d hd => hN d (by simp [hd])) hsc hn hbd')

/-- the bisect loop sees its inputs only through the comparisons -/
theorem bisectLoop_congr (a a' : Array Num) (x x' : Dbl) (N : Nat)
    (H : ∀ i, i < N → Num.dblLt x' a'[i]! = Num.dblLt x a[i]!) :
    ∀ fuel lo hi, hi ≤ N → bisectLoop a' x' fuel lo hi = bisectLoop a x fuel lo hi := by
  intro fuel
  induction fuel with
  | zero => intro lo hi _; rfl
  | succ fuel ih =>
    intro lo hi hN
    unfold bisectLoop
    by_cases hlt : lo < hi
    · simp only [hlt, if_true]
      rw [H ((lo + hi) / 2) (by omega)]
      by_cases hP : Num.dblLt x a[(lo + hi) / 2]! = true
      · simp only [hP, if_true]; exact ih lo _ (by omega)
      · simp only [hP]; exact ih _ hi hN
    · simp only [hlt, if_false]

theorem forall₂_getLast? {α β : Type} {R : α → β → Prop} {l : List α} {l' : List β}
    (h : List.Forall₂ R l l') {x : α} (hx : l.getLast? = some x) :
    ∃ x', l'.getLast? = some x' ∧ R x x' := by
  have hlen := h.length_eq
  rw [List.getLast?_eq_getElem?] at hx
  have hpos : l.length - 1 < l.length := by
    by_contra hcon
    rw [List.getElem?_eq_none (by omega)] at hx; cases hx
  rw [List.getElem?_eq_getElem hpos] at hx
  have hpos' : l.length - 1 < l'.length := by omega
  refine ⟨l'[l.length - 1], ?_, ?_⟩
  · rw [List.getLast?_eq_getElem?, ← hlen, List.getElem?_eq_getElem hpos']
  · have := h.get hpos hpos'
    rw [List.get_eq_getElem, List.get_eq_getElem] at this
    rw [← Option.some.inj hx]; exact this

end Dbl
end Pyab

namespace Pyab
namespace Dbl
open Pyab.Proofs
open Pyab.Choice

theorem zpow_neg990 : (2 : ℚ) ^ (-990 : Int) * 2 ^ (-32 : Int) = 2 ^ (-1022 : Int) := by
  rw [← two_zpow_add]; norm_num

/-- the exact product `u·t` is zero or normal, before and after scaling, once the total is zero
    or at least `2^-990` before and after -/
theorem normV_mul_proba (k : Int) (h : Nat) (T : ℚ) (hT : NormV (-990) k T) :
    NormV (-1022) k ((h : ℚ) * 2 ^ (-32 : Int) * T) := by
  rcases hT with hT | ⟨h1, h2⟩
  · left; rw [hT, mul_zero]
  · by_cases h0 : h = 0
    · left; rw [h0]; simp
    · right
      have hh1 : (1 : ℚ) ≤ (h : ℚ) := by exact_mod_cast Nat.one_le_iff_ne_zero.2 h0
      have hE := two_zpow_pos (-32)
      have hc := zpow_neg990
      have hL := two_zpow_pos (-990)
      have key : ∀ S : ℚ, (2 : ℚ) ^ (-990 : Int) ≤ S →
          (2 : ℚ) ^ (-1022 : Int) ≤ (h : ℚ) * 2 ^ (-32 : Int) * S := by
        intro S hS
        rw [← hc]
        have a1 : (2 : ℚ) ^ (-990 : Int) * 2 ^ (-32 : Int) ≤ S * 2 ^ (-32 : Int) :=
          mul_le_mul_of_nonneg_right hS hE.le
        have a2 : 0 ≤ S * 2 ^ (-32 : Int) := mul_nonneg (le_trans hL.le hS) hE.le
        have a3 : S * 2 ^ (-32 : Int) ≤ (h : ℚ) * (S * 2 ^ (-32 : Int)) := by nlinarith
        calc (2 : ℚ) ^ (-990 : Int) * 2 ^ (-32 : Int) ≤ S * 2 ^ (-32 : Int) := a1
          _ ≤ (h : ℚ) * (S * 2 ^ (-32 : Int)) := a3
          _ = (h : ℚ) * 2 ^ (-32 : Int) * S := by ring
      refine ⟨key T h1, ?_⟩
      rw [mul_assoc ((h : ℚ) * 2 ^ (-32 : Int))]
      exact key _ h2

/-- the scaled position never exceeds the total: `u < 1` and rounding is monotone -/
theorem mul_proba_le (h : Nat) (hh : h < 2 ^ 32) (t : Dbl) (ht : IsRep t) :
    ∃ mx ex, mul (proba h) t = fin mx ex ∧ 0 ≤ mx ∧ val (fin mx ex) ≤ val t := by
  obtain ⟨m, e, hp, hm, hu⟩ := proba_val h hh
  obtain ⟨mt, et, rfl, hmt, hs, hlt⟩ := ht
  obtain ⟨r, hr, hcase⟩ := mul_spec m e mt et hm hmt
  rw [hp]
  rw [hu] at hr
  have hT0 := val_nonneg_fin mt et hmt
  generalize val (fin mt et) = T at *
  have hh' : (h : ℚ) ≤ 4294967296 := by
    have : h ≤ 4294967296 := by omega
    exact_mod_cast this
  have hvle : (h : ℚ) * 2 ^ (-32 : Int) * T ≤ T := by
    rw [zpow_neg32]; nlinarith
  have hrT : r ≤ T := RSpec_mono hvle hr hs
  rcases hcase with ⟨_, mx, ex, heq, hmx, hv⟩ | ⟨hge, _⟩
  · exact ⟨mx, ex, heq, hmx, by rw [hv]; exact hrT⟩
  · exfalso; linarith

/-- the code after `accumulate`, on two lists of running sums related by the factor `2^k` -/
theorem weightedTail_sc (k : Int) (h n : Nat) (hh : h < 2 ^ 32) {cs cs' : List Dbl}
    (hF : List.Forall₂ (fun c c' => Sc k c c' ∧ NormV (-990) k (val c)) cs cs')
    (hbd : ∀ l, cs.getLast? = some l → IsRep l ∧ val l * 2 ^ k < 2 ^ (1024 : Int)) :
    weightedTail h n (cs'.map Num.f) = weightedTail h n (cs.map Num.f) := by
  have hlen := hF.length_eq
  unfold weightedTail
  rw [List.length_map, List.length_map, ← hlen]
  by_cases hn : (cs.length != n) = true
  · rw [if_pos hn, if_pos hn]
  · rw [if_neg hn, if_neg hn]
    have hn' : cs.length = n := by simpa using hn
    rw [List.getLast?_map, List.getLast?_map]
    cases hl : cs.getLast? with
    | none =>
      have : cs = [] := List.getLast?_eq_none_iff.1 hl
      subst this
      have : cs' = [] := List.eq_nil_of_length_eq_zero hlen.symm
      subst this
      rfl
    | some l =>
      obtain ⟨l', hl', hsl, hnl⟩ := forall₂_getLast? hF hl
      obtain ⟨hrep, hb⟩ := hbd l hl
      rw [hl']
      simp only [Option.map_some, numAdd_ff]
      obtain ⟨htrep, htval⟩ := add_zero_val l hrep _ rfl
      have htfin : (add l zero).isFinite = true := by
        obtain ⟨mt, et, hteq, _⟩ := htrep
        rw [hteq]; rfl
      have hz0 : val zero = 0 := by rw [show zero = fin 0 0 from rfl, val_fin]; simp
      obtain ⟨hst, hnt⟩ := add_sc (k := k) (j := -990) (by omega) hsl (Sc.zero k)
        (by rw [hz0, add_zero]; exact hnl) htfin (by rw [htval]; exact hb)
      have htfin' : (add l' zero).isFinite = true := by
        obtain ⟨_, _, mt', et', _, hteq', _⟩ := hst
        rw [hteq']; rfl
      rw [le_zero_sc hst, htfin, htfin']
      by_cases hle : le (add l zero) zero = true
      · rw [if_pos hle, if_pos hle]
      · rw [if_neg hle, if_neg hle]
        simp only [Bool.not_true, Bool.false_eq_true, if_false]
        -- the position
        obtain ⟨mu, eu, hp, hmu, huv⟩ := proba_val h hh
        obtain ⟨mx, ex, hxeq, hmx, hxle⟩ := mul_proba_le h hh _ htrep
        have hxfin : (mul (proba h) (add l zero)).isFinite = true := by rw [hxeq]; rfl
        have hK := two_zpow_pos k
        have hxb : val (mul (proba h) (add l zero)) * 2 ^ k < 2 ^ (1024 : Int) := by
          rw [hxeq]
          have := mul_le_mul_of_nonneg_right hxle hK.le
          rw [htval] at this
          linarith
        have hvx : NormV (-1022) k (val (proba h) * val (add l zero)) := by
          rw [hp, huv]; exact normV_mul_proba k h _ hnt
        obtain ⟨hsx, _⟩ := mul_sc (k := k) (j := -1022) (le_refl _) mu eu hp hmu hst hvx hxfin hxb
        generalize mul (proba h) (add l zero) = x at hsx
        generalize mul (proba h) (add l' zero) = x' at hsx
        -- the bisect
        congr 2
        unfold bisect
        apply bisectLoop_congr _ _ x x' (n - 1) _ _ _ _ (le_refl _)
        intro i hi
        have hi1 : i < cs.length := by omega
        have hi2 : i < cs'.length := by omega
        rw [List.getElem!_toArray, List.getElem!_toArray, map_f_getElem! cs i hi1,
          map_f_getElem! cs' i hi2, dblLt_f, dblLt_f]
        have := hF.get hi1 hi2
        rw [List.get_eq_getElem, List.get_eq_getElem] at this
        exact lt_sc hsx this.1

end Dbl
end Pyab

namespace Pyab

/-- multiply a Python weight by `2.0**k` (an `int` becomes a `float`, as in Python) -/
def Num.scale (k : Int) : Num → Num
  | .f d => .f (Dbl.scale2 k d)
  | .i v => .f (Dbl.scale2 k (Dbl.ofInt v))

namespace Dbl
open Pyab.Proofs
open Pyab.Choice

theorem accD_ne_nil (a : Dbl) (ds : List Dbl) : ∃ l, (accD a ds).getLast? = some l := by
  obtain ⟨tl, htl⟩ := accD_cons a ds
  cases hl : (accD a ds).getLast? with
  | none => rw [List.getLast?_eq_none_iff.1 hl] at htl; cases htl
  | some l => exact ⟨l, rfl⟩

/-- every running sum is at most the last one -/
theorem accD_le_last (cs : List Dbl) (l : Dbl) (hl : cs.getLast? = some l)
    (hpw : List.Pairwise (fun x y => val x ≤ val y) cs) : ∀ c ∈ cs, val c ≤ val l := by
  intro c hc
  obtain ⟨i, hi, rfl⟩ := List.getElem_of_mem hc
  have hlast := getLast?_getElem! cs l hl
  rw [getElem!_eq cs (cs.length - 1) (by omega)] at hlast
  rw [← hlast]
  exact sorted_val_le cs hpw i (cs.length - 1) (by omega) (by omega)

/-- two weight vectors related by the factor `2^k`, weight by weight and as values: same result -/
theorem choice_scale_rel (k : Int) (h n : Nat) (hh : h < 2 ^ 32) (d0 d0' : Dbl)
    (ds ds' : List Dbl) (h0 : Sc k d0 d0') (hF : List.Forall₂ (Sc k) ds ds')
    (hrep : ∀ d ∈ d0 :: ds, IsRep d)
    (hN : ∀ d ∈ d0 :: ds, NormV (-990) k (val d))
    (hhi : ∀ l, (accD d0 ds).getLast? = some l →
      l.isFinite = true ∧ val l * 2 ^ k < 2 ^ (1024 : Int)) :
    choiceIdx (some h) n (some ((d0' :: ds').map Num.f)) none
      = choiceIdx (some h) n (some ((d0 :: ds).map Num.f)) none := by
  rw [choiceIdx_weights, choiceIdx_weights, accumulate_floats, accumulate_floats]
  show weightedTail h n _ = weightedTail h n _
  obtain ⟨l, hl⟩ := accD_ne_nil d0 ds
  obtain ⟨hlfin, hlb⟩ := hhi l hl
  have hallfin := accD_finite ds d0 l hl hlfin
  obtain ⟨hall, hpw⟩ := accD_sorted ds d0 (hrep d0 (by simp))
    (fun d hd => (hrep d (by simp [hd])).finNonneg) hallfin
  have hle := accD_le_last _ l hl hpw
  have hK := two_zpow_pos k
  have hbd : ∀ c ∈ accD d0 ds, c.isFinite = true ∧ val c * 2 ^ k < 2 ^ (1024 : Int) := by
    intro c hc
    refine ⟨hallfin c hc, ?_⟩
    have := mul_le_mul_of_nonneg_right (hle c hc) hK.le
    linarith
  have hF' := accD_sc (k := k) (j := -990) (by omega) hF (fun d hd => hN d (by simp [hd])) h0
    (hN d0 (by simp)) hbd
  apply weightedTail_sc k h n hh hF'
  intro l2 hl2
  rw [hl] at hl2
  have : l = l2 := Option.some.inj hl2
  subst this
  exact ⟨hall l (List.mem_of_getLast? hl), hlb⟩

/-- the normal-range hypotheses of the scaling theorem, all on exponents / the model's own `<`:
    * `lo`: every NONZERO weight `m·2^e` has `e ≥ -990` and `e + k ≥ -990`, so every nonzero
      running sum is `≥ 2^-990` before and after, and the position `u·total ≥ 2^-32·2^-990` is
      a normal double;
    * `hi`: the last running sum is finite and, scaled by `2^k`, still below `2^1024`
      (all earlier sums are smaller, the position is smaller). -/
structure ScaleRange (ws : List Num) (k : Int) : Prop where
  lo : ∀ m e, Num.f (fin m e) ∈ ws → m ≠ 0 → -990 ≤ e ∧ -990 ≤ e + k
  hi : ∀ cum l, accumulate ws = .ok cum → cum.getLast? = some l →
        ∃ m e, l = Num.f (fin m e) ∧ lt (fin m (e + k)) (fin 1 1024) = true

theorem val_one (e : Int) : val (fin 1 e) = (2 : ℚ) ^ e := by rw [val_fin]; simp

/-- a sufficient exponent bound for `ScaleRange.hi`: mantissa at most `2^53`, exponent `≤ 970` -/
theorem lt_top_of_exponent (m e : Int) (hm : m ≤ 2 ^ 53) (he : e ≤ 970) :
    lt (fin m e) (fin 1 1024) = true := by
  rw [lt_iff_val, val_one, val_fin]
  have hE := two_zpow_pos e
  have hm' : (m : ℚ) ≤ 2 ^ 53 := by exact_mod_cast hm
  have h53 : (2 : ℚ) ^ (53 : Int) = 2 ^ 53 := by norm_num
  calc (m : ℚ) * 2 ^ e ≤ 2 ^ 53 * 2 ^ e := mul_le_mul_of_nonneg_right hm' hE.le
    _ = 2 ^ (53 + e) := by rw [two_zpow_add, h53]
    _ < 2 ^ (1024 : Int) := two_zpow_lt_iff.2 (by omega)

theorem normV_of_exponent (k m e : Int) (hm : 0 ≤ m)
    (hlo : m ≠ 0 → -990 ≤ e ∧ -990 ≤ e + k) : NormV (-990) k (val (fin m e)) := by
  by_cases h0 : m = 0
  · left; rw [h0, val_fin]; simp
  · obtain ⟨h1, h2⟩ := hlo h0
    have hm1 : (1 : ℚ) ≤ (m : ℚ) := by
      have : 1 ≤ m := by omega
      exact_mod_cast this
    have key : ∀ E : Int, -990 ≤ E → (2 : ℚ) ^ (-990 : Int) ≤ (m : ℚ) * 2 ^ E := by
      intro E hE
      have hp := two_zpow_pos E
      calc (2 : ℚ) ^ (-990 : Int) ≤ 2 ^ E := two_zpow_le hE
        _ ≤ (m : ℚ) * 2 ^ E := by nlinarith
    refine Or.inr ⟨by rw [val_fin]; exact key e h1, ?_⟩
    rw [val_fin, mul_assoc, ← two_zpow_add]
    exact key _ h2

theorem map_scale_floats (k : Int) (dl : List Dbl) :
    (dl.map Num.f).map (Num.scale k) = (dl.map (scale2 k)).map Num.f := by
  rw [List.map_map, List.map_map]; rfl

/-- **Only the shares of the weights matter, not their magnitude** (powers of two, normal
    range): multiplying every weight by `2^k` changes no rounding and no result — neither the
    selected index nor any error. -/
theorem choice_scale_invariant (ws : List Num) (k : Int) (h n : Nat) (hh : h < 2 ^ 32)
    (hw : FloatWeights ws) (hr : ScaleRange ws k) :
    choiceIdx (some h) n (some (ws.map (Num.scale k))) none
      = choiceIdx (some h) n (some ws) none := by
  obtain ⟨dl, hdl, hP⟩ := exists_floats NonnegDouble ws hw
  subst hdl
  rw [map_scale_floats]
  cases dl with
  | nil => rfl
  | cons d0 ds =>
    have hrep : ∀ d ∈ d0 :: ds, IsRep d := fun d hd => (hP d hd).isRep
    have hsc : ∀ d ∈ d0 :: ds, Sc k d (scale2 k d) := by
      intro d hd
      obtain ⟨m, e, rfl, hm, _⟩ := hrep d hd
      exact Sc.of_scale2 k m e hm
    rw [List.map_cons]
    apply choice_scale_rel k h n hh d0 _ ds _ (hsc d0 (by simp)) _ hrep
    · intro d hd
      obtain ⟨m, e, rfl, hm, _⟩ := hrep d hd
      exact normV_of_exponent k m e hm (hr.lo m e (List.mem_map_of_mem hd))
    · intro l hl
      obtain ⟨m, e, hle, hlt⟩ := hr.hi _ (Num.f l) (accumulate_floats d0 ds)
        (by rw [List.getLast?_map, hl]; rfl)
      have : l = fin m e := Num.f.inj hle
      subst this
      refine ⟨rfl, ?_⟩
      rw [lt_iff_val, val_one, ← show scale2 k (fin m e) = fin m (e + k) from rfl,
        val_scale2] at hlt
      exact hlt
    · rw [List.forall₂_map_right_iff, List.forall₂_same]
      intro d hd
      exact hsc d (by simp [hd])

end Dbl
end Pyab

/-! ### the same fact on `Dbl.round` itself (syntactic, for a nonzero mantissa) -/

namespace Pyab
namespace Dbl
open Pyab.Proofs
open Pyab.Choice

/-- in the normal range the rounded mantissa keeps 53 bits: `2^52 ≤ Q ≤ 2^53` -/
theorem rhe_normal (n s : Nat) (hs : 0 < s) (hlog : n.log2 + 1 = s + 53) (hn : n ≠ 0) :
    2 ^ 52 ≤ rhe n s ∧ rhe n s ≤ 2 ^ 53 := by
  obtain ⟨q, rem, H, hH, hnq, hrem, hcase⟩ := rhe_spec n s hs
  have h1 : 2 ^ n.log2 ≤ n := Nat.log2_self_le hn
  have h2 : n < 2 ^ (n.log2 + 1) := Nat.lt_log2_self
  have e1 : 2 ^ n.log2 = 2 ^ 53 * H := by
    rw [hH, show n.log2 = 53 + (s - 1) by omega, Nat.pow_add]
  have e2 : 2 ^ (n.log2 + 1) = 2 ^ 54 * H := by
    rw [hH, show n.log2 + 1 = 54 + (s - 1) by omega, Nat.pow_add]
  rw [e1] at h1; rw [e2] at h2
  have e3 : 2 * q * H = 2 * (q * H) := Nat.mul_assoc 2 q H
  have hq1 : 2 ^ 52 ≤ q := by
    by_contra hcon
    have h' : (q + 1) * H ≤ 2 ^ 52 * H := Nat.mul_le_mul_right H (by omega)
    rw [Nat.add_mul, Nat.one_mul] at h'
    omega
  have hq2 : q < 2 ^ 53 := by
    by_contra hcon
    have h' : 2 ^ 53 * H ≤ q * H := Nat.mul_le_mul_right H (by omega)
    omega
  rcases hcase with ⟨h, _⟩ | ⟨h, _⟩ <;> rw [h] <;> omega

/-- **`Dbl.round m (e + k) = scale2 k (Dbl.round m e)`** for a positive mantissa whose value
    `n·2^e ∈ [2^(B-1+e), 2^(B+e))`, `B` the bit length, is normal and below `2^1023` before and
    after the scaling -/
theorem round_scale2_nat (n : Nat) (hn : n ≠ 0) (e k : Int)
    (h1 : -1021 ≤ (n.log2 : Int) + 1 + e) (h2 : -1021 ≤ (n.log2 : Int) + 1 + e + k)
    (h3 : (n.log2 : Int) + 1 + e ≤ 1023) (h4 : (n.log2 : Int) + 1 + e + k ≤ 1023) :
    round (n : Int) (e + k) = scale2 k (round (n : Int) e) := by
  rw [round_nat n hn, round_nat n hn]
  have hS1 : shiftOf n (e + k) = (n.log2 : Int) + 1 - 53 := by unfold shiftOf; omega
  have hS2 : shiftOf n e = (n.log2 : Int) + 1 - 53 := by unfold shiftOf; omega
  rw [hS1, hS2]
  by_cases hsh : (n.log2 : Int) + 1 - 53 ≤ 0
  · rw [if_pos hsh, if_pos hsh, if_neg (by omega), if_neg (by omega)]; rfl
  · rw [if_neg hsh, if_neg hsh]
    obtain ⟨hr1, hr2⟩ := rhe_normal n ((n.log2 : Int) + 1 - 53).toNat (by omega) (by omega) hn
    generalize rhe n ((n.log2 : Int) + 1 - 53).toNat = Q at *
    have hQ0 : Q ≠ 0 := by omega
    have hlog : Q.log2 < 54 := (Nat.log2_lt hQ0).2 (by omega)
    rw [if_neg hQ0, if_neg hQ0, if_neg (by omega), if_neg (by omega)]
    show fin _ _ = fin _ _
    congr 1; omega

end Dbl
end Pyab

/-! ### integer weights -/

namespace Pyab
namespace Dbl
open Pyab.Proofs Pyab.Spec
open Pyab.Choice

theorem ofNat_map_fl (w : List Nat) (hT : total w < 2 ^ 53) :
    (w.map fun x => Num.f (Dbl.ofNat x)) = w.map fl := by
  apply List.map_congr_left
  intro x hx
  have : x ≤ total w := mem_le_sum w x hx
  rw [ofNat_exact x (by omega)]; rfl

theorem floatWeights_fl (w : List Nat) (hT : total w < 2 ^ 53) : FloatWeights (w.map fl) := by
  intro v hv
  obtain ⟨x, hx, rfl⟩ := List.mem_map.1 hv
  have hx53 : x < 2 ^ 53 := by
    have : x ≤ total w := mem_le_sum w x hx
    omega
  exact ⟨fin x 0, rfl, (x : Int), 0, by omega, (round_nat0 x hx53).symm, rfl⟩

theorem scaleRange_fl (w : List Nat) (k : Int) (hT : total w < 2 ^ 53) (hk0 : -990 ≤ k)
    (hk : k ≤ 970) : ScaleRange (w.map fl) k := by
  constructor
  · intro m e hmem _
    obtain ⟨x, _, hx⟩ := List.mem_map.1 hmem
    have : fin (x : Int) 0 = fin m e := Num.f.inj hx
    injection this with _ he
    omega
  · intro cum l hacc hl
    cases w with
    | nil =>
      have : cum = [] := by
        simp only [List.map_nil, accumulate, pure, Except.pure, Except.ok.injEq] at hacc
        exact hacc.symm
      subst this; cases hl
    | cons w0 ws =>
      have htot : total (w0 :: ws) = w0 + ws.sum := by simp [total]
      rw [accumulate_fl w0 ws (by omega)] at hacc
      have : cum = (psums w0 ws).map fl := (Except.ok.inj hacc).symm
      subst this
      rw [cum_getLast?] at hl
      have : l = fl (total (w0 :: ws)) := (Option.some.inj hl).symm
      subst this
      refine ⟨(total (w0 :: ws) : Nat), 0, rfl, lt_top_of_exponent _ _ ?_ (by omega)⟩
      have : ((total (w0 :: ws) : Nat) : Int) < 2 ^ 53 := by exact_mod_cast hT
      omega

/-- integer weights with total below `2^53`, scaled as floats by `2^k`, `-990 ≤ k ≤ 970` -/
theorem choice_scale_invariant_int (w : List Nat) (k : Int) (h n : Nat) (hh : h < 2 ^ 32)
    (hT : total w < 2 ^ 53) (hk0 : -990 ≤ k) (hk : k ≤ 970) :
    choiceIdx (some h) n (some ((w.map fun x => Num.f (Dbl.ofNat x)).map (Num.scale k))) none
      = choiceIdx (some h) n (some (w.map fun x => Num.f (Dbl.ofNat x))) none := by
  rw [ofNat_map_fl w hT]
  exact choice_scale_invariant _ k h n hh (floatWeights_fl w hT) (scaleRange_fl w k hT hk0 hk)

/-- `float(x · 2^k)` is `float(x)·2^k` as a value -/
theorem ofNat_mul_pow_sc (x k : Nat) (hx : x < 2 ^ 53) (hk : k ≤ 900) :
    Sc (k : Int) (fin x 0) (Dbl.ofNat (x * 2 ^ k)) := by
  have hrep : IsRep (fin (x : Int) (k : Int)) := by
    by_cases h0 : x = 0
    · subst h0
      refine ⟨0, k, rfl, le_refl _, ?_, ?_⟩
      · have : val (fin ((0 : Nat) : Int) (k : Int)) = 0 := by rw [val_fin]; simp
        rw [this]; exact RSpec_zero
      · have : val (fin ((0 : Nat) : Int) (k : Int)) = 0 := by rw [val_fin]; simp
        rw [this]; exact two_zpow_pos _
    · exact round_isRep (x : Int) k (x : Int) k (by omega)
        (round_exact _ _ (by omega) (by simpa using hx) (by omega) (by omega))
  have hv : (((x * 2 ^ k : Nat) : Int) : ℚ) * 2 ^ (0 : Int) = val (fin (x : Int) (k : Int)) := by
    rw [val_fin, zpow_natCast]; push_cast; ring
  obtain ⟨m', e', heq, hm', hval⟩ := round_idem _ hrep ((x * 2 ^ k : Nat) : Int) 0 (by omega) hv
  refine ⟨x, 0, m', e', rfl, heq, by omega, hm', ?_⟩
  have : Dbl.ofNat (x * 2 ^ k) = fin m' e' := heq
  rw [this, hval, val_fin, val_fin, zpow_natCast]; simp

/-- integer weights `w` versus the integer weights `w·2^k`, both converted by `float(int)` -/
theorem choice_scale_invariant_int_mul (w : List Nat) (k h n : Nat) (hh : h < 2 ^ 32)
    (hT : total w < 2 ^ 53) (hk : k ≤ 900) :
    choiceIdx (some h) n (some ((w.map (· * 2 ^ k)).map fun x => Num.f (Dbl.ofNat x))) none
      = choiceIdx (some h) n (some (w.map fun x => Num.f (Dbl.ofNat x))) none := by
  rw [ofNat_map_fl w hT]
  have hx53 : ∀ x ∈ w, x < 2 ^ 53 := fun x hx => by
    have : x ≤ total w := mem_le_sum w x hx
    omega
  cases w with
  | nil => rfl
  | cons w0 ws =>
    have hfw := floatWeights_fl (w0 :: ws) hT
    have hr := scaleRange_fl (w0 :: ws) (k : Int) hT (by omega) (by omega)
    have e1 : (w0 :: ws).map fl = ((fin (w0 : Int) 0) :: ws.map fun (x : Nat) => fin (x : Int) 0).map Num.f := by
      simp only [List.map_cons, List.map_map]; rfl
    have e2 : (((w0 :: ws).map (· * 2 ^ k)).map fun x => Num.f (Dbl.ofNat x))
        = ((Dbl.ofNat (w0 * 2 ^ k)) :: ws.map fun (x : Nat) => Dbl.ofNat (x * 2 ^ k)).map Num.f := by
      simp only [List.map_cons, List.map_map]; rfl
    rw [e1] at hfw hr ⊢
    rw [e2]
    have hrep : ∀ d ∈ (fin (w0 : Int) 0) :: ws.map (fun (x : Nat) => fin (x : Int) 0), IsRep d := by
      intro d hd
      obtain ⟨d', hd', hnd⟩ := hfw (Num.f d) (List.mem_map_of_mem hd)
      rw [Num.f.inj hd']; exact hnd.isRep
    apply choice_scale_rel (k : Int) h n hh _ _ _ _ (ofNat_mul_pow_sc w0 k (hx53 w0 (by simp)) hk)
      _ hrep
    · intro d hd
      obtain ⟨m, e, rfl, hm, _⟩ := hrep d hd
      exact normV_of_exponent k m e hm (hr.lo m e (List.mem_map_of_mem hd))
    · intro l hl
      obtain ⟨m, e, hle, hlt⟩ := hr.hi _ (Num.f l) (accumulate_floats _ _)
        (by rw [List.getLast?_map, hl]; rfl)
      have : l = fin m e := Num.f.inj hle
      subst this
      refine ⟨rfl, ?_⟩
      rw [lt_iff_val, val_one, ← show scale2 k (fin m e) = fin m (e + k) from rfl,
        val_scale2] at hlt
      exact hlt
    · rw [List.forall₂_map_right_iff, List.forall₂_map_left_iff, List.forall₂_same]
      intro x hx
      exact ofNat_mul_pow_sc x k (hx53 x (by simp [hx])) hk

end Dbl
end Pyab

/-! ### a computable check for `ScaleRange` -/

namespace Pyab
namespace Dbl
open Pyab.Choice

/-- the per-weight part of `ScaleRange`, as a program -/
def weightRangeB (k : Int) : Num → Bool
  | .f (fin m e) => m == 0 || (decide (-990 ≤ e) && decide (-990 ≤ e + k))
  | _ => true

/-- the total part of `ScaleRange`, as a program -/
def totalRangeB (ws : List Num) (k : Int) : Bool :=
  match accumulate ws with
  | .ok cum =>
    match cum.getLast? with
    | none => true
    | some (.f (fin m e)) => lt (fin m (e + k)) (fin 1 1024)
    | some _ => false
  | .error _ => true

/-- `ScaleRange` as a program -/
def scaleRangeB (ws : List Num) (k : Int) : Bool :=
  ws.all (weightRangeB k) && totalRangeB ws k

theorem scaleRange_of_check (ws : List Num) (k : Int) (h : scaleRangeB ws k = true) :
    ScaleRange ws k := by
  unfold scaleRangeB at h
  rw [Bool.and_eq_true, List.all_eq_true] at h
  obtain ⟨h1, h2⟩ := h
  constructor
  · intro m e hmem hm
    have := h1 _ hmem
    have hm' : (m == 0) = false := by rw [beq_eq_false_iff_ne]; exact hm
    simp only [weightRangeB, hm', Bool.false_or, Bool.and_eq_true, decide_eq_true_eq] at this
    exact this
  · intro cum l hacc hl
    unfold totalRangeB at h2
    rw [hacc] at h2
    simp only [hl] at h2
    cases l with
    | i v => cases h2
    | f d =>
      cases d with
      | fin m e => exact ⟨m, e, rfl, h2⟩
      | pinf => cases h2
      | ninf => cases h2
      | nan => cases h2

end Dbl
end Pyab

/-! ### `accumulate` commutes with scaling, stated with the model's own float equality -/

namespace Pyab
namespace Dbl
open Pyab.Proofs
open Pyab.Choice

theorem beq_iff_val (m1 e1 m2 e2 : Int) :
    beq (fin m1 e1) (fin m2 e2) = true ↔ val (fin m1 e1) = val (fin m2 e2) := by
  obtain ⟨h1, h2⟩ := align_val m1 e1 m2 e2
  unfold beq
  rw [val_fin, val_fin, cmp_fin_fin, ← h1, ← h2, beq_iff_eq, Option.some_inj, Int.compare_eq_eq]
  constructor
  · intro h; rw [h]
  · intro h
    have := mul_right_cancel₀ (ne_of_gt (two_zpow_pos _)) h
    exact_mod_cast this

/-- comparisons are invariant under exact scaling — no range condition at all -/
theorem lt_scale2 (k m1 e1 m2 e2 : Int) :
    lt (scale2 k (fin m1 e1)) (scale2 k (fin m2 e2)) = lt (fin m1 e1) (fin m2 e2) := by
  rw [Bool.eq_iff_iff]
  show lt (fin m1 (e1 + k)) (fin m2 (e2 + k)) = true ↔ _
  rw [lt_iff_val, lt_iff_val, ← show scale2 k (fin m1 e1) = fin m1 (e1 + k) from rfl,
    ← show scale2 k (fin m2 e2) = fin m2 (e2 + k) from rfl, val_scale2, val_scale2,
    mul_lt_mul_iff_of_pos_right (two_zpow_pos k)]

theorem Sc.beq {k : Int} {c c' : Dbl} (h : Sc k c c') : Dbl.beq (scale2 k c) c' = true := by
  obtain ⟨m, e, m', e', rfl, rfl, _, _, hv⟩ := h
  show Dbl.beq (fin m (e + k)) (fin m' e') = true
  rw [beq_iff_val, hv, ← show scale2 k (fin m e) = fin m (e + k) from rfl, val_scale2]

/-- the running sums of the scaled weights ARE the scaled running sums (binary64 `==`) -/
theorem accumulate_scale (ws cum : List Num) (k : Int) (hw : FloatWeights ws)
    (hr : ScaleRange ws k) (hacc : accumulate ws = .ok cum) :
    ∃ cum', accumulate (ws.map (Num.scale k)) = .ok cum' ∧ cum'.length = cum.length ∧
      ∀ i, i < cum.length → ∃ c c', cum[i]! = Num.f c ∧ cum'[i]! = Num.f c' ∧
        Dbl.beq (scale2 k c) c' = true := by
  obtain ⟨dl, hdl, hP⟩ := exists_floats NonnegDouble ws hw
  subst hdl
  rw [map_scale_floats]
  cases dl with
  | nil =>
    have : cum = [] := by
      simp only [List.map_nil, accumulate, pure, Except.pure, Except.ok.injEq] at hacc
      exact hacc.symm
    subst this
    exact ⟨[], rfl, rfl, fun i hi => absurd hi (Nat.not_lt_zero _)⟩
  | cons d0 ds =>
    have hrep : ∀ d ∈ d0 :: ds, IsRep d := fun d hd => (hP d hd).isRep
    have hsc : ∀ d ∈ d0 :: ds, Sc k d (scale2 k d) := by
      intro d hd
      obtain ⟨m, e, rfl, hm, _⟩ := hrep d hd
      exact Sc.of_scale2 k m e hm
    have hN : ∀ d ∈ d0 :: ds, NormV (-990) k (val d) := by
      intro d hd
      obtain ⟨m, e, rfl, hm, _⟩ := hrep d hd
      exact normV_of_exponent k m e hm (hr.lo m e (List.mem_map_of_mem hd))
    rw [accumulate_floats] at hacc
    have : cum = (accD d0 ds).map Num.f := (Except.ok.inj hacc).symm
    subst this
    obtain ⟨l, hl⟩ := accD_ne_nil d0 ds
    obtain ⟨m, e, hle, hlt⟩ := hr.hi _ (Num.f l) (accumulate_floats d0 ds)
      (by rw [List.getLast?_map, hl]; rfl)
    have : l = fin m e := Num.f.inj hle
    subst this
    rw [lt_iff_val, val_one, ← show scale2 k (fin m e) = fin m (e + k) from rfl,
      val_scale2] at hlt
    have hallfin := accD_finite ds d0 _ hl rfl
    obtain ⟨hall, hpw⟩ := accD_sorted ds d0 (hrep d0 (by simp))
      (fun d hd => (hrep d (by simp [hd])).finNonneg) hallfin
    have hle' := accD_le_last _ _ hl hpw
    have hK := two_zpow_pos k
    have hbd : ∀ c ∈ accD d0 ds, c.isFinite = true ∧ val c * 2 ^ k < 2 ^ (1024 : Int) := by
      intro c hc
      refine ⟨hallfin c hc, ?_⟩
      have := mul_le_mul_of_nonneg_right (hle' c hc) hK.le
      linarith
    have hF : List.Forall₂ (Sc k) ds (ds.map (scale2 k)) := by
      rw [List.forall₂_map_right_iff, List.forall₂_same]
      intro d hd
      exact hsc d (by simp [hd])
    have hF' := accD_sc (k := k) (j := -990) (by omega) hF (fun d hd => hN d (by simp [hd]))
      (hsc d0 (by simp)) (hN d0 (by simp)) hbd
    have hlen := hF'.length_eq
    rw [List.map_cons, accumulate_floats]
    refine ⟨_, rfl, by rw [List.length_map, List.length_map, hlen], ?_⟩
    intro i hi
    rw [List.length_map] at hi
    have hi' : i < (accD (scale2 k d0) (ds.map (scale2 k))).length := by omega
    refine ⟨_, _, map_f_getElem! _ i hi, map_f_getElem! _ i hi', ?_⟩
    have := hF'.get hi hi'
    rw [List.get_eq_getElem, List.get_eq_getElem] at this
    exact this.1.beq

end Dbl
end Pyab
