import Pyab.Spec.Lifecycle
namespace Pyab.Proofs
open Pyab Pyab.Spec

theorem world_get_set (w : World) (id id' : Nat) (s : EvState) :
    (w.set id s).get id' = if id == id' then some s else w.get id' := by
  induction w with
  | nil => simp [World.set, World.get]
  | cons kv rest ih =>
      obtain ⟨k, v⟩ := kv
      simp only [World.set]
      by_cases hk : k = id
      · subst hk
        by_cases h2 : k = id' <;> simp [World.get, h2]
      · have hk' : (k == id) = false := by simpa using hk
        simp only [hk', Bool.false_eq_true, if_false, World.get, ih]
        by_cases h2 : k = id'
        · subst h2
          have : (id == k) = false := by simpa using fun h => hk h.symm
          simp [this]
        · have : (k == id') = false := by simpa using h2
          simp [this]

theorem spec_get_set (w : SpecWorld) (id id' : Nat) (t : String) :
    (w.set id t).get id' = if id == id' then some t else w.get id' := by
  induction w with
  | nil => simp [SpecWorld.set, SpecWorld.get]
  | cons kv rest ih =>
      obtain ⟨k, v⟩ := kv
      simp only [SpecWorld.set]
      by_cases hk : k = id
      · subst hk
        by_cases h2 : k = id' <;> simp [SpecWorld.get, h2]
      · have hk' : (k == id) = false := by simpa using hk
        simp only [hk', Bool.false_eq_true, if_false, SpecWorld.get, ih]
        by_cases h2 : k = id'
        · subst h2
          have : (id == k) = false := by simpa using fun h => hk h.symm
          simp [this]
        · have : (k == id') = false := by simpa using h2
          simp [this]

/-- one evaluator: the model record stands for the accepted text `t` -/
def Stands (p : Pipeline) (digest : String → String) (t : String) (s : EvState) : Prop :=
  s.checksum = some (digest t) ∧ ∃ e, p.compile t = .ok e ∧ s.fn = some e

/-- abstraction relation between the spec world and the model world -/
def Rel (p : Pipeline) (digest : String → String) (T : List String) (sw : SpecWorld) (w : World) : Prop :=
  ∀ id, (sw.get id = none ∧ w.get id = none) ∨
        (∃ t s, sw.get id = some t ∧ w.get id = some s ∧ t ∈ T ∧ Stands p digest t s)

theorem rel_set (p : Pipeline) (digest : String → String) (T : List String) (sw : SpecWorld) (w : World)
    (h : Rel p digest T sw w) (id : Nat) (t : String) (s : EvState) (ht : t ∈ T) (hs : Stands p digest t s) :
    Rel p digest T (sw.set id t) (w.set id s) := by
  intro id'
  rw [spec_get_set, world_get_set]
  by_cases hid : (id == id') = true
  · simp only [hid, if_true]
    right; exact ⟨t, s, rfl, rfl, ht, hs⟩
  · simp only [hid]
    exact h id'

/-- one step: same output, relation preserved -/
theorem step_refines (p : Pipeline) (hce : p.checksumEarly = false) (digest : String → String)
    (T : List String) (hinj : ∀ t1 ∈ T, ∀ t2 ∈ T, digest t1 = digest t2 → t1 = t2)
    (sw : SpecWorld) (w : World) (h : Rel p digest T sw w) (op : EvOp) (hop : ∀ t ∈ textsOf [op], t ∈ T) :
    (specStep p sw op).2 = (step p digest w op).2 ∧
      Rel p digest T (specStep p sw op).1 (step p digest w op).1 := by
  cases op with
  | new id text =>
      have htT : text ∈ T := hop text (by simp [textsOf])
      simp only [specStep, step, recompileState]
      have hne : ((none : Option String) == some (digest text)) = false := by simp
      simp only [hne]
      cases hc : p.compile text with
      | ok e =>
          simp only [Bool.false_eq_true, if_false]
          exact ⟨by trivial, rel_set p digest T sw w h id text _ htT ⟨rfl, e, hc, rfl⟩⟩
      | error err =>
          simp only [Bool.false_eq_true, if_false]
          exact ⟨by trivial, h⟩
  | recompile id text =>
      have htT : text ∈ T := hop text (by simp [textsOf])
      simp only [specStep, step]
      rcases h id with ⟨h1, h2⟩ | ⟨t, s, h1, h2, hT, hst⟩
      · simp only [h1, h2]
        exact ⟨by trivial, h⟩
      · simp only [h1, h2, recompileState]
        obtain ⟨hck, e0, hc0, hfn⟩ := hst
        by_cases heq : text = t
        · subst heq
          simp only [hck, beq_self_eq_true, if_true]
          refine ⟨by trivial, ?_⟩
          intro id'
          rw [world_get_set]
          by_cases hid : (id == id') = true
          · have : id = id' := by simpa using hid
            subst this
            simp only [hid, if_true]
            right; exact ⟨text, s, h1, rfl, hT, hck, e0, hc0, hfn⟩
          · simp only [hid]; exact h id'
        · have hd : (s.checksum == some (digest text)) = false := by
            rw [hck]
            simp only [beq_eq_false_iff_ne, ne_eq, Option.some.injEq]
            intro hdd
            exact heq (hinj text htT t hT hdd.symm)
          simp only [heq, if_false, hd, Bool.false_eq_true]
          cases hc : p.compile text with
          | ok e =>
              exact ⟨by trivial, rel_set p digest T sw w h id text _ htT ⟨rfl, e, hc, rfl⟩⟩
          | error err =>
              simp only [hce, Bool.false_eq_true, if_false]
              refine ⟨by trivial, ?_⟩
              intro id'
              rw [world_get_set]
              by_cases hid : (id == id') = true
              · have : id = id' := by simpa using hid
                subst this
                simp only [hid, if_true]
                right; exact ⟨t, s, h1, rfl, hT, hck, e0, hc0, hfn⟩
              · simp only [hid]; exact h id'
  | call id env =>
      simp only [specStep, step]
      rcases h id with ⟨h1, h2⟩ | ⟨t, s, h1, h2, hT, hst⟩
      · simp only [h1, h2]
        exact ⟨by trivial, h⟩
      · obtain ⟨hck, e0, hc0, hfn⟩ := hst
        simp only [h1, h2, hfn, Pipeline.runText, hc0, bind, Except.bind]
        cases runGenerated p.run e0 env <;> exact ⟨by trivial, h⟩

theorem history_refines (p : Pipeline) (hce : p.checksumEarly = false) (digest : String → String)
    (T : List String) (hinj : ∀ t1 ∈ T, ∀ t2 ∈ T, digest t1 = digest t2 → t1 = t2) :
    ∀ (ops : List EvOp) (sw : SpecWorld) (w : World), Rel p digest T sw w → (∀ t ∈ textsOf ops, t ∈ T) →
      specHistory p sw ops = runHistory p digest w ops
  | [], _, _, _, _ => rfl
  | op :: ops, sw, w, h, hT => by
      have hop : ∀ t ∈ textsOf [op], t ∈ T := by
        intro t ht
        apply hT
        cases op <;> simp [textsOf] at ht ⊢ <;> simp [ht]
      have hrest : ∀ t ∈ textsOf ops, t ∈ T := by
        intro t ht
        apply hT
        cases op <;> simp [textsOf, ht]
      obtain ⟨hout, hrel⟩ := step_refines p hce digest T hinj sw w h op hop
      simp only [specHistory, runHistory]
      rw [hout, history_refines p hce digest T hinj ops _ _ hrel hrest]

end Pyab.Proofs
